(* proofs/PendingP.v — C13: Close frames and automatic replies are never lost to back-pressure.
   Lemmas about the pending slot (additional_send), the write buffer and the event log. *)
From TungModel Require Import Base Coding Mask Header Frame Utf8 World Message Codec Protocol.
From Coq Require Import Arith Lia ZifyBool ZifyNat ZifyN.

#[local] Arguments N.add : simpl never.
#[local] Arguments N.sub : simpl never.
#[local] Arguments N.mul : simpl never.
#[local] Arguments N.min : simpl never.
#[local] Arguments N.ltb : simpl never.
#[local] Arguments N.leb : simpl never.
#[local] Arguments N.eqb : simpl never.
#[local] Arguments N.of_nat : simpl never.
#[local] Arguments N.to_nat : simpl never.

Ltac splits := repeat match goal with |- _ /\ _ => split end.

(* ------------------------------------------------------------------------------------------ *)
(* 1. lists, logs                                                                              *)
(* ------------------------------------------------------------------------------------------ *)

Lemma wire_app (l1 l2 : list event) : wire (l1 ++ l2) = wire l1 ++ wire l2.
Proof.
  induction l1 as [|e l1 IH]; [reflexivity|].
  destruct e; cbn [app wire]; rewrite IH; try reflexivity. now rewrite app_assoc.
Qed.

Lemma queued_app (l1 l2 : list event) : queued (l1 ++ l2) = queued l1 ++ queued l2.
Proof.
  induction l1 as [|e l1 IH]; [reflexivity|].
  destruct e; cbn [app queued]; rewrite IH; reflexivity.
Qed.

Lemma blen_app {A} (a b : list A) : blen (a ++ b) = blen a + blen b.
Proof. unfold blen. rewrite app_length. lia. Qed.

Lemma blen_nil {A} : blen (@nil A) = 0.
Proof. reflexivity. Qed.

Lemma blen_0 {A} (l : list A) : blen l = 0 -> l = [].
Proof. destruct l; [reflexivity|]. unfold blen. cbn [length]. lia. Qed.

Lemma takeN_dropN {A} n (l : list A) : takeN n l ++ dropN n l = l.
Proof. apply firstn_skipn. Qed.

Lemma takeN_blen_app {A} (a b : list A) : takeN (blen a) (a ++ b) = a.
Proof.
  unfold takeN, blen. rewrite Nat2N.id, firstn_app, firstn_all, Nat.sub_diag.
  cbn [firstn]. apply app_nil_r.
Qed.

Lemma dropN_blen_app {A} (a b : list A) : dropN (blen a) (a ++ b) = b.
Proof.
  unfold dropN, blen. rewrite Nat2N.id, skipn_app, skipn_all, Nat.sub_diag. reflexivity.
Qed.

Lemma blen_dropN {A} n (l : list A) : n <= blen l -> blen (dropN n l) = blen l - n.
Proof. unfold blen, dropN. intros H. rewrite skipn_length. lia. Qed.

Lemma takeN_nonempty {A} n (l : list A) : 0 < n -> l <> [] -> takeN n l <> [].
Proof.
  unfold takeN. intros Hn Hl. destruct l as [|a l]; [congruence|].
  destruct (N.to_nat n) eqn:E; [lia|]. cbn [firstn]. discriminate.
Qed.

(* ------------------------------------------------------------------------------------------ *)
(* 2. the transport has ended: EOF, reset, zero-length write                                   *)
(* ------------------------------------------------------------------------------------------ *)

Definition end_event (e : event) : Prop :=
  match e with
  | EvRead RdEof => True
  | EvRead (RdErr ConnReset) => True
  | EvWriteErr _ ConnReset => True
  | EvWrite _ [] => True
  | _ => False
  end.

Definition transport_ended (evs : list event) : Prop := Exists end_event evs.

Lemma ended_app_l a b : transport_ended a -> transport_ended (a ++ b).
Proof. unfold transport_ended. rewrite Exists_app. tauto. Qed.
Lemma ended_app_r a b : transport_ended b -> transport_ended (a ++ b).
Proof. unfold transport_ended. rewrite Exists_app. tauto. Qed.
Lemma ended_cons e a : transport_ended a -> transport_ended (e :: a).
Proof. unfold transport_ended. intros H. now apply Exists_cons_tl. Qed.

(* ------------------------------------------------------------------------------------------ *)
(* 3. how much the write oracle absorbs                                                        *)
(* ------------------------------------------------------------------------------------------ *)

(* drain wrs n = Some wrs' : offered n bytes in one write_out_buffer call, the oracle takes all of
   them (possibly over several partial writes) and wrs' is what is left of the oracle. *)
Fixpoint drain (wrs : list wr_out) (n : N) : option (list wr_out) :=
  if n =? 0 then Some wrs else
  match wrs with
  | WrAccept k :: r => if N.min k n =? 0 then None else drain r (n - N.min k n)
  | _ => None
  end.

Lemma drain_0 wrs : drain wrs 0 = Some wrs.
Proof. destruct wrs; reflexivity. Qed.

(* io outcome of a transport write: Ok, or an Io error; a reset is visible in the events *)
Definition io_res {A} (r : res A) (evs : list event) : Prop :=
  match r with
  | ROk _ => True
  | RErr (EIo ConnReset) => transport_ended evs
  | RErr (EIo _) => True
  | _ => False
  end.

Lemma write_out_loop_spec wrs : forall out log r out' wrs' log',
  write_out_loop wrs out log = (r, out', wrs', log') ->
  exists evs, log' = log ++ evs /\ queued evs = [] /\ wire evs ++ out' = out /\
    io_res r evs /\ (r = ROk tt -> out' = []) /\ (out = [] -> evs = [] /\ wrs' = wrs /\ r = ROk tt) /\
    (forall w1, drain wrs (blen out) = Some w1 -> r = ROk tt /\ wrs' = w1).
Proof.
  induction wrs as [|o wrs IH]; intros out log r out' wrs' log' H.
  - destruct out as [|b out]; cbn [write_out_loop] in H; inversion H; subst; clear H.
    + exists []. rewrite app_nil_r. splits; try exact I; auto. intros w1. change (blen (@nil N)) with 0. rewrite drain_0. intros Hd; inversion Hd; auto.
    + exists [EvWriteErr (blen (b :: out)) WouldBlock]. splits; try exact I; auto; try discriminate.
  - destruct out as [|b out]; cbn [write_out_loop] in H.
    { inversion H; subst; clear H. exists []. rewrite app_nil_r. splits; try exact I; auto.
      intros w1. change (blen (@nil N)) with 0. rewrite drain_0. intros Hd; inversion Hd; auto. }
    assert (Hpos : blen (b :: out) =? 0 = false) by (unfold blen; cbn [length]; lia).
    destruct o as [n|k].
    + destruct (N.min n (blen (b :: out)) =? 0) eqn:E.
      * inversion H; subst; clear H. exists [EvWrite (blen (b :: out)) []].
        splits; try exact I; auto; try discriminate.
        { cbn. unfold transport_ended. apply Exists_cons_hd. exact I. }
        intros w1. cbn [drain]. rewrite Hpos, E. discriminate.
      * apply IH in H. destruct H as (evs & Hlog & Hq & Hw & Hio & Hok & _ & Hdr).
        exists (EvWrite (blen (b :: out)) (takeN (N.min n (blen (b :: out))) (b :: out)) :: evs).
        split; [rewrite Hlog, <- app_assoc; reflexivity|].
        split; [exact Hq|].
        split; [cbn [wire]; rewrite <- app_assoc, Hw; apply takeN_dropN|].
        split.
        { destruct r as [u|e|s|]; cbn in *; auto. destruct e; auto. destruct k; auto.
          now apply ended_cons. }
        split; [exact Hok|].
        split; [discriminate|].
        intros w1. cbn [drain]. rewrite Hpos, E. intros Hd. apply Hdr.
        rewrite blen_dropN by lia. exact Hd.
    + inversion H; subst; clear H. exists [EvWriteErr (blen (b :: out)) k].
      splits; try exact I; auto; try discriminate.
      { cbn. destruct k; auto. unfold transport_ended. apply Exists_cons_hd. exact I. }
Qed.

(* ------------------------------------------------------------------------------------------ *)
(* 4. frames: format_into_buf appends the encoding; lengths; masking per role                  *)
(* ------------------------------------------------------------------------------------------ *)

Lemma ffib (buf : bytes) (f : frame) : frame_format_into_buf buf f = buf ++ frame_format f.
Proof.
  unfold frame_format_into_buf, frame_format. cbv zeta.
  destruct (h_mask (f_hdr f)) as [k|].
  - rewrite takeN_blen_app, dropN_blen_app. now rewrite <- app_assoc.
  - now rewrite <- app_assoc.
Qed.

Lemma to_be_length w : forall v, length (to_be w v) = w.
Proof.
  induction w as [|w IH]; intros v; [reflexivity|].
  cbn [to_be]. rewrite app_length, IH. cbn [length]. lia.
Qed.

Lemma xor_cyc_length bs : forall k, length (xor_cyc k bs) = length bs.
Proof. induction bs as [|b bs IH]; intros k; [reflexivity|]. cbn [xor_cyc length]. now rewrite IH. Qed.

Lemma header_format_blen h n : blen (header_format h n) = header_len h n.
Proof.
  unfold header_format, header_len. cbv zeta. unfold blen.
  rewrite !app_length. cbn [length].
  assert (E1 : length (match lf_for_length n with
                       | LU8 _ => [] | LU16 => to_be 2 (n mod 65536) | LU64 => to_be 8 n end)
               = N.to_nat (lf_extra (lf_for_length n))).
  { destruct (lf_for_length n); cbn [lf_extra]; rewrite ?to_be_length; reflexivity. }
  assert (E2 : length (match h_mask h with Some k => key_bytes k | None => [] end)
               = N.to_nat (match h_mask h with Some _ => 4 | None => 0 end)).
  { destruct (h_mask h) as [[[[a b] c] d]|]; reflexivity. }
  rewrite E1, E2. lia.
Qed.

Lemma frame_format_blen f : blen (frame_format f) = frame_len f.
Proof.
  unfold frame_format, frame_len. rewrite blen_app, header_format_blen. f_equal.
  destruct (h_mask (f_hdr f)); [|reflexivity]. unfold blen, apply_mask. now rewrite xor_cyc_length.
Qed.

Definition with_mask (f : frame) (m : option key) : frame :=
  mkFrame (mkHeader (h_fin (f_hdr f)) (h_rsv1 (f_hdr f)) (h_rsv2 (f_hdr f)) (h_rsv3 (f_hdr f))
                    (h_opcode (f_hdr f)) m) (f_payload f).

(* the frame without its mask key: what was asked to be sent *)
Definition strip (f : frame) : frame := with_mask f None.

(* the frame as it is queued by an endpoint of role r (a client masks with key k) *)
Definition mask_for (r : role) (f : frame) (k : key) : frame :=
  match r with Server => f | Client => with_mask f (Some k) end.

(* number of bytes the frame occupies in the write buffer of an endpoint of role r *)
Definition sent_len (r : role) (f : frame) : N := frame_len (mask_for r f (0, 0, 0, 0)).

Definition f_opcode (f : frame) : opcode := h_opcode (f_hdr f).

Lemma frame_len_mask_for r f k : frame_len (mask_for r f k) = sent_len r f.
Proof. destruct r; reflexivity. Qed.

Lemma strip_mask_for r f k : strip (mask_for r f k) = strip f.
Proof. destruct r; reflexivity. Qed.

Lemma mask_for_twice r f k1 k2 : mask_for r (mask_for r f k1) k2 = mask_for r f k2.
Proof. destruct r; reflexivity. Qed.

Lemma sent_len_mask_for r f k : sent_len r (mask_for r f k) = sent_len r f.
Proof. destruct r; reflexivity. Qed.

Lemma strip_opcode f g : strip f = strip g -> f_opcode f = f_opcode g.
Proof. unfold strip, with_mask, f_opcode. intros H. now inversion H. Qed.

Lemma strip_payload f g : strip f = strip g -> f_payload f = f_payload g.
Proof. unfold strip, with_mask. intros H. now inversion H. Qed.

Lemma strip_strip f : strip (strip f) = strip f.
Proof. reflexivity. Qed.

Lemma strip_close c : strip (frame_close c) = frame_close c.
Proof. reflexivity. Qed.
Lemma strip_pong p : strip (frame_pong p) = frame_pong p.
Proof. reflexivity. Qed.

Definition enc (fs : list frame) : bytes := concat (map frame_format fs).

Lemma enc_app a b : enc (a ++ b) = enc a ++ enc b.
Proof. unfold enc. now rewrite map_app, concat_app. Qed.

(* ------------------------------------------------------------------------------------------ *)
(* 5. buffer_frame                                                                             *)
(* ------------------------------------------------------------------------------------------ *)

Lemma w_next_key_fields w :
  let w1 := snd (w_next_key w) in
  w_log w1 = w_log w /\ w_rds w1 = w_rds w /\ w_wrs w1 = w_wrs w /\ w_fls w1 = w_fls w.
Proof. unfold w_next_key. destruct (w_keys w); cbn; auto. Qed.

Lemma buffer_frame_unfold x f w :
  buffer_frame x f w =
  let f1 := mask_for (x_role x) f (fst (w_next_key w)) in
  let w1 := match x_role x with Server => w | Client => snd (w_next_key w) end in
  let '(r, c', w2) := codec_buffer_frame (x_codec x) f1 w1 in
  let '(r', s') := check_connection_reset r (x_state x) in
  (r', set_state (set_codec x c') s', w2).
Proof.
  unfold buffer_frame, mask_for, with_mask. destruct (x_role x); [reflexivity|].
  destruct (w_next_key w). reflexivity.
Qed.

(* outcome of a transport write followed by check_connection_reset *)
Definition ccr_res {A} (r : res A) (s s' : ws_state) (evs : list event) : Prop :=
  match r with
  | ROk _ => s' = s
  | RErr (EIo ConnReset) => s' = s /\ transport_ended evs /\ closing_done s = false
  | RErr (EIo _) => s' = s
  | RErr EConnectionClosed => s' = Terminated /\ closing_done s = true /\ transport_ended evs
  | _ => False
  end.

Lemma ccr_spec {A} (r0 r : res A) s s' evs :
  io_res r0 evs -> check_connection_reset r0 s = (r, s') ->
  ccr_res r s s' evs /\ (forall a, r0 = ROk a -> r = ROk a) /\ (forall a, r = ROk a -> r0 = ROk a).
Proof.
  unfold check_connection_reset, io_res, ccr_res. intros Hio H.
  destruct r0 as [a|e|n|]; try contradiction.
  - inversion H; subst. splits; auto.
  - destruct e; try contradiction. destruct k.
    + inversion H; subst. splits; auto; discriminate.
    + destruct (closing_done s) eqn:Ec; inversion H; subst; splits; auto; discriminate.
    + inversion H; subst. splits; auto; discriminate.
    + inversion H; subst. splits; auto; discriminate.
Qed.

Lemma write_out_buffer_spec c w r c' w' :
  write_out_buffer c w = (r, c', w') ->
  exists out' evs,
    c' = set_out c out' /\ w_log w' = w_log w ++ evs /\ w_rds w' = w_rds w /\ w_fls w' = w_fls w /\
    w_keys w' = w_keys w /\
    queued evs = [] /\ wire evs ++ out' = c_out c /\ io_res r evs /\ (r = ROk tt -> out' = []) /\
    (c_out c = [] -> evs = [] /\ w_wrs w' = w_wrs w /\ r = ROk tt) /\
    (forall w1, drain (w_wrs w) (blen (c_out c)) = Some w1 -> r = ROk tt /\ w_wrs w' = w1).
Proof.
  unfold write_out_buffer. destruct (write_out_loop (w_wrs w) (c_out c) (w_log w)) as [[[r0 out'] wrs'] log'] eqn:E.
  intros H. inversion H; subst; clear H.
  apply write_out_loop_spec in E. destruct E as (evs & Hlog & Hq & Hw & Hio & Hok & Hnil & Hdr).
  exists out', evs. cbn [w_log w_rds w_fls w_wrs w_keys]. splits; auto.
Qed.

Lemma codec_buffer_frame_spec c f w r c' w' :
  codec_buffer_frame c f w = (r, c', w') ->
  exists out' evs,
    c' = set_out c out' /\ w_log w' = w_log w ++ evs /\ w_rds w' = w_rds w /\ w_fls w' = w_fls w /\
    w_keys w' = w_keys w /\
    ((r = RErr (EWriteBufferFull f) /\ c_max_out c < frame_len f + blen (c_out c) /\
      out' = c_out c /\ evs = [] /\ w_wrs w' = w_wrs w)
     \/
     (frame_len f + blen (c_out c) <= c_max_out c /\
      exists evs1, evs = EvQueue f :: evs1 /\ queued evs1 = [] /\
        wire evs1 ++ out' = c_out c ++ frame_format f /\ io_res r evs1 /\
        (r = ROk tt -> c_write_len c < blen (c_out c ++ frame_format f) -> out' = []) /\
        (c_write_len c < blen (c_out c ++ frame_format f) ->
           forall w1, drain (w_wrs w) (blen (c_out c ++ frame_format f)) = Some w1 ->
                      r = ROk tt /\ out' = [] /\ w_wrs w' = w1) /\
        (blen (c_out c ++ frame_format f) <= c_write_len c ->
           r = ROk tt /\ out' = c_out c ++ frame_format f /\ evs1 = [] /\ w_wrs w' = w_wrs w))).
Proof.
  unfold codec_buffer_frame. intros H.
  destruct (c_max_out c <? frame_len f + blen (c_out c)) eqn:Efull.
  - inversion H; subst; clear H. exists (c_out c'), []. rewrite app_nil_r.
    splits; auto. { destruct c'; reflexivity. } left. splits; auto. lia.
  - rewrite ffib in H.
    destruct (c_write_len c <? blen (c_out (set_out c (c_out c ++ frame_format f)))) eqn:Ewl.
    + apply write_out_buffer_spec in H.
      destruct H as (out' & evs1 & Hc & Hlog & Hrds & Hfls & Hkeys & Hq & Hw & Hio & Hok & Hnil & Hdr).
      cbn [set_out c_out c_in c_max_out c_write_len c_hdr w_emit w_log w_rds w_fls w_keys w_wrs] in *.
      exists out', (EvQueue f :: evs1). splits; auto.
      { rewrite Hlog, <- app_assoc. reflexivity. }
      right. split; [lia|]. exists evs1. splits; auto.
      * intros _ w1 Hd. apply Hdr in Hd. destruct Hd as [-> ->]. splits; auto.
      * intros Hle. exfalso. lia.
    + inversion H; subst; clear H.
      cbn [set_out c_out c_in c_max_out c_write_len c_hdr w_emit w_log w_rds w_fls w_keys w_wrs] in *.
      exists (c_out c ++ frame_format f), [EvQueue f]. splits; auto.
      right. split; [lia|]. exists []. splits; auto; try exact I.
      * intros _ Hlt. exfalso. lia.
      * intros Hlt. exfalso. lia.
Qed.

Lemma buffer_frame_spec x f w r x' w' :
  buffer_frame x f w = (r, x', w') ->
  exists k out' s' evs,
    let f1 := mask_for (x_role x) f k in
    let c := x_codec x in
    let full := c_out c ++ frame_format f1 in
    x' = set_state (set_codec x (set_out c out')) s' /\
    w_log w' = w_log w ++ evs /\ w_rds w' = w_rds w /\ w_fls w' = w_fls w /\
    ((r = RErr (EWriteBufferFull f1) /\ c_max_out c < frame_len f1 + blen (c_out c) /\
      out' = c_out c /\ s' = x_state x /\ evs = [] /\ w_wrs w' = w_wrs w)
     \/
     (frame_len f1 + blen (c_out c) <= c_max_out c /\
      exists evs1, evs = EvQueue f1 :: evs1 /\ queued evs1 = [] /\
        wire evs1 ++ out' = full /\ ccr_res r (x_state x) s' evs1 /\
        (r = ROk tt -> c_write_len c < blen full -> out' = []) /\
        (c_write_len c < blen full ->
           forall w1, drain (w_wrs w) (blen full) = Some w1 -> r = ROk tt /\ out' = [] /\ w_wrs w' = w1) /\
        (blen full <= c_write_len c -> r = ROk tt /\ out' = full /\ evs1 = [] /\ w_wrs w' = w_wrs w))).
Proof.
  rewrite buffer_frame_unfold. cbv zeta. intros H.
  set (f1 := mask_for (x_role x) f (fst (w_next_key w))) in *.
  set (w1 := match x_role x with Server => w | Client => snd (w_next_key w) end) in *.
  assert (Hw1 : w_log w1 = w_log w /\ w_rds w1 = w_rds w /\ w_wrs w1 = w_wrs w /\ w_fls w1 = w_fls w).
  { subst w1. destruct (x_role x); [auto|]. apply w_next_key_fields. }
  destruct Hw1 as (Hl1 & Hr1 & Hwr1 & Hf1).
  destruct (codec_buffer_frame (x_codec x) f1 w1) as [[r0 c'] w2] eqn:E.
  destruct (check_connection_reset r0 (x_state x)) as [r' s'] eqn:Ec.
  inversion H; subst r' x' w2; clear H.
  apply codec_buffer_frame_spec in E.
  destruct E as (out' & evs & Hc & Hlog & Hrds & Hfls & Hkeys & Hcase).
  exists (fst (w_next_key w)), out', s', evs. cbv zeta. fold f1.
  rewrite Hl1 in Hlog. rewrite Hr1 in Hrds. rewrite Hf1 in Hfls. rewrite Hwr1 in Hcase.
  splits; auto. { now rewrite Hc. }
  destruct Hcase as [(Hr & Hlt & Hout & Hevs & Hwrs)|(Hle & evs1 & Hevs & Hq & Hwire & Hio & Hok & Hdr & Hnw)].
  - left. subst r0. cbn in Ec. inversion Ec; subst. splits; auto.
  - right. split; [exact Hle|]. exists evs1.
    destruct (ccr_spec _ _ _ _ _ Hio Ec) as (Hccr & Hfw & Hbw).
    split; [exact Hevs|]. split; [exact Hq|]. split; [exact Hwire|]. split; [exact Hccr|].
    split; [|split].
    + intros Hr. apply Hok. now apply Hbw.
    + intros Hlt w3 Hd. destruct (Hdr Hlt w3 Hd) as (Hr0 & Ho & Hw3). splits; auto.
    + intros Hle2. destruct (Hnw Hle2) as (Hr0 & Ho & He & Hw3). splits; auto.
Qed.

(* ------------------------------------------------------------------------------------------ *)
(* 6. effects of the write-side calls                                                          *)
(* ------------------------------------------------------------------------------------------ *)

(* nothing left to send *)
Definition clean (x : ctx) : Prop := x_additional x = None /\ c_out (x_codec x) = [].

Record eff (x : ctx) (w : world) (x' : ctx) (w' : world) (evs : list event) : Prop := mkEff {
  eff_log : w_log w' = w_log w ++ evs;
  eff_c10 : wire evs ++ c_out (x_codec x') = c_out (x_codec x) ++ enc (queued evs);
  eff_role : x_role x' = x_role x;
  eff_max : c_max_out (x_codec x') = c_max_out (x_codec x);
  eff_wl : c_write_len (x_codec x') = c_write_len (x_codec x);
  eff_act : x_state x' = Active -> x_state x = Active }.

Lemma eff_refl x w : eff x w x w [].
Proof. constructor; auto. - now rewrite app_nil_r. - cbn. now rewrite app_nil_r. Qed.

Lemma eff_trans x w x1 w1 e1 x2 w2 e2 :
  eff x w x1 w1 e1 -> eff x1 w1 x2 w2 e2 -> eff x w x2 w2 (e1 ++ e2).
Proof.
  intros [L1 C1 R1 M1 W1 A1] [L2 C2 R2 M2 W2 A2]. constructor.
  - rewrite L2, L1. now rewrite app_assoc.
  - rewrite wire_app, queued_app, enc_app, <- app_assoc, C2, app_assoc, C1. now rewrite <- app_assoc.
  - congruence.
  - congruence.
  - congruence.
  - auto.
Qed.

(* the slot content survives: still in the slot (possibly re-masked), or queued by these events *)
Definition kept (x x' : ctx) (evs : list event) : Prop :=
  match x_additional x with
  | None => x_additional x' = None
  | Some f => exists f1, strip f1 = strip f /\
               (x_additional x' = Some f1 \/ (x_additional x' = None /\ In f1 (queued evs)))
  end.

Lemma kept_refl x : kept x x [].
Proof. unfold kept. destruct (x_additional x) as [f|]; [|reflexivity]. exists f. auto. Qed.

Lemma kept_same x x' : x_additional x' = x_additional x -> kept x x' [].
Proof. unfold kept. intros ->. destruct (x_additional x) as [f|]; [|reflexivity]. exists f. auto. Qed.

Lemma kept_trans x x1 x2 e1 e2 : kept x x1 e1 -> kept x1 x2 e2 -> kept x x2 (e1 ++ e2).
Proof.
  unfold kept. destruct (x_additional x) as [f|].
  - intros (f1 & Hs1 & [H1|[H1 Hin]]).
    + rewrite H1. intros (f2 & Hs2 & [H2|[H2 Hin]]); exists f2; (split; [congruence|]).
      * now left.
      * right. split; [exact H2|]. rewrite queued_app, in_app_iff. now right.
    + rewrite H1. intros H2. exists f1. split; [exact Hs1|]. right. split; [exact H2|].
      rewrite queued_app, in_app_iff. now left.
  - intros ->. auto.
Qed.

(* state change of the write-side calls: none, or termination once reading is over *)
Definition fstate (x x' : ctx) : Prop :=
  x_state x' = x_state x \/ (closing_done (x_state x) = true /\ x_state x' = Terminated).

Lemma fstate_refl x : fstate x x. Proof. now left. Qed.

Lemma fstate_trans x x1 x2 : fstate x x1 -> fstate x1 x2 -> fstate x x2.
Proof.
  unfold fstate. intros [H1|[H1 H1']] [H2|[H2 H2']].
  - left; congruence.
  - right; split; congruence.
  - right; split; congruence.
  - rewrite H1' in H2. discriminate.
Qed.

Lemma fstate_act x x' : fstate x x' -> x_state x' = Active -> x_state x = Active.
Proof. intros [H|[_ H]] Ha; congruence. Qed.

(* when does a call end in Terminated *)
Definition term_ok (x x' : ctx) (evs : list event) : Prop :=
  x_state x' = Terminated -> x_state x = Terminated \/ clean x' \/ transport_ended evs.

Definition closed_ok {A} (r : res A) (x x' : ctx) (evs : list event) : Prop :=
  r = RErr EConnectionClosed ->
  closing_done (x_state x) = true /\ (clean x' \/ transport_ended evs).

Lemma fstate_cd x x1 :
  fstate x x1 -> closing_done (x_state x1) = true -> closing_done (x_state x) = true.
Proof. intros [H|[_ H]] Hc; rewrite H in Hc; [exact Hc|discriminate]. Qed.

Definition server_tail (sf : bool) (x1 : ctx) (w1 : world) : res bool * ctx * world :=
  if role_eqb (x_role x1) Server && closing_done (x_state x1)
     && (match x_additional x1 with None => true | Some _ => false end) then
    let '(rw, c', w2) := write_out_buffer (x_codec x1) w1 in
    match rw with
    | ROk _ => (RErr EConnectionClosed, set_state (set_codec x1 c') Terminated, w2)
    | RErr e => (RErr e, set_codec x1 c', w2)
    | RPanic s => (RPanic s, set_codec x1 c', w2)
    | ROutOfFuel => (ROutOfFuel, set_codec x1 c', w2)
    end
  else (ROk sf, x1, w1).

Lemma write_none_unfold x w :
  write_ x None w =
  match x_additional x with
  | None => server_tail (x_unflushed x) x w
  | Some msg =>
      let '(rb, xb, wb) := buffer_frame (set_additional_raw x None) msg w in
      match rb with
      | RErr (EWriteBufferFull f') => server_tail false (set_additional xb f') wb
      | RErr e => (RErr e, set_unflushed xb true, wb)
      | RPanic s => (RPanic s, xb, wb)
      | ROutOfFuel => (ROutOfFuel, xb, wb)
      | ROk _ => server_tail true (set_unflushed xb true) wb
      end
  end.
Proof.
  unfold write_, server_tail. cbv beta iota zeta. destruct (x_additional x) as [msg|] eqn:E; [|rewrite E; reflexivity].
  destruct (buffer_frame (set_additional_raw x None) msg w) as [[rb xb] wb].
  destruct rb as [u|e|s|]; try reflexivity. destruct e; reflexivity.
Qed.

Lemma write_some_unfold x f w :
  write_ x (Some f) w =
  let '(r0, x0, w0) := buffer_frame x f w in
  match r0 with
  | ROk _ => write_ x0 None w0
  | RErr e => (RErr e, x0, w0)
  | RPanic s => (RPanic s, x0, w0)
  | ROutOfFuel => (ROutOfFuel, x0, w0)
  end.
Proof.
  unfold write_. destruct (buffer_frame x f w) as [[r0 x0] w0]. destruct r0; reflexivity.
Qed.

Lemma server_tail_spec sf x w r x' w' :
  server_tail sf x w = (r, x', w') ->
  exists evs, eff x w x' w' evs /\ x_additional x' = x_additional x /\ queued evs = [] /\
    fstate x x' /\ closed_ok r x x' evs /\ term_ok x x' evs /\
    (r = ROk sf /\ x' = x /\ w' = w \/
     x_role x = Server /\ closing_done (x_state x) = true /\ x_additional x = None /\
     (forall b, r <> ROk b) /\ w_rds w' = w_rds w /\ w_fls w' = w_fls w /\
     (forall w1, drain (w_wrs w) (blen (c_out (x_codec x))) = Some w1 ->
        r = RErr EConnectionClosed /\ w_wrs w' = w1 /\ c_out (x_codec x') = [])).
Proof.
  unfold server_tail.
  destruct (role_eqb (x_role x) Server && closing_done (x_state x)
            && match x_additional x with None => true | Some _ => false end) eqn:Ec.
  - apply andb_prop in Ec. destruct Ec as [Ec Eslot]. apply andb_prop in Ec. destruct Ec as [Erole Ecd].
    assert (Hslot : x_additional x = None) by (destruct (x_additional x); [discriminate|reflexivity]).
    assert (Hrole : x_role x = Server) by (destruct (x_role x); [reflexivity|discriminate]).
    destruct (write_out_buffer (x_codec x) w) as [[rw c'] w2] eqn:E.
    apply write_out_buffer_spec in E.
    destruct E as (out' & evs & Hc & Hlog & Hrds & Hfls & Hkeys & Hq & Hw & Hio & Hok & Hnil & Hdr).
    intros H. exists evs.
    assert (Heff : forall s, (s = x_state x \/ s = Terminated) ->
                   eff x w (set_state (set_codec x c') s) w2 evs).
    { intros s Hs. constructor; cbn; subst c'; cbn; auto.
      - rewrite Hq. cbn. now rewrite app_nil_r.
      - destruct Hs as [->| ->]; [auto|discriminate]. }
    assert (Hsame : set_codec x c' = set_state (set_codec x c') (x_state x)) by reflexivity.
    destruct rw as [u|e|s|]; inversion H; subst r x' w'; clear H; try (cbn in Hio; contradiction).
    + destruct u. specialize (Hok eq_refl). subst out'.
      splits; auto.
      * right. split; [exact Ecd|reflexivity].
      * intros _. split; [exact Ecd|]. left. split; [exact Hslot|]. subst c'. reflexivity.
      * intros _. right. left. split; [exact Hslot|]. subst c'. reflexivity.
      * right. splits; auto. { intros b; discriminate. }
        intros w1 Hd. destruct (Hdr w1 Hd) as [_ Hw1]. subst c'. splits; auto.
    + rewrite Hsame. splits; auto.
      * now left.
      * intros Hr. inversion Hr; subst e. cbn in Hio. contradiction.
      * intros Ht. cbn in Ht. now left.
      * right. splits; auto. { intros b; discriminate. }
        intros w1 Hd. destruct (Hdr w1 Hd) as [Hr _]. discriminate.
  - intros H. inversion H; subst. exists []. splits; auto.
    + apply eff_refl.
    + apply fstate_refl.
    + intros Hr; discriminate.
    + intros Ht; now left.
Qed.

Lemma buffer_frame_eff x f w r x' w' :
  buffer_frame x f w = (r, x', w') ->
  exists evs f1, eff x w x' w' evs /\ x_additional x' = x_additional x /\ fstate x x' /\
    (r = RErr EConnectionClosed -> closing_done (x_state x) = true /\ transport_ended evs) /\
    (x_state x' = Terminated -> x_state x = Terminated \/ transport_ended evs) /\
    strip f1 = strip f /\
    ((r = RErr (EWriteBufferFull f1) /\ evs = [] /\ x_state x' = x_state x) \/
     ((forall g, r <> RErr (EWriteBufferFull g)) /\ queued evs = [f1])).
Proof.
  intros H. apply buffer_frame_spec in H.
  destruct H as (k & out' & s' & evs & Hx & Hlog & Hrds & Hfls & Hcase). cbv zeta in *.
  exists evs, (mask_for (x_role x) f k).
  destruct Hcase as [(Hr & Hlt & Hout & Hs & Hevs & Hwrs)|(Hle & evs1 & Hevs & Hq & Hwire & Hccr & _)].
  - subst x' s' out' evs r. splits; auto.
    + constructor; cbn; auto. now rewrite app_nil_r.
    + now left.
    + discriminate.
    + apply strip_mask_for.
  - subst x' evs.
    assert (Hst : (s' = x_state x \/ closing_done (x_state x) = true /\ s' = Terminated) /\
                  (r = RErr EConnectionClosed -> closing_done (x_state x) = true /\ transport_ended evs1) /\
                  (s' = Terminated -> x_state x = Terminated \/ transport_ended evs1) /\
                  (forall g, r <> RErr (EWriteBufferFull g))).
    { unfold ccr_res in Hccr. destruct r as [u|e|n|]; try contradiction.
      - subst s'. splits; auto; discriminate.
      - destruct e; try contradiction.
        + destruct Hccr as (-> & Hcd & He). splits; auto. discriminate.
        + destruct k0.
          * subst s'. splits; auto; discriminate.
          * destruct Hccr as (-> & He & Hcd). splits; auto; discriminate.
          * subst s'. splits; auto; discriminate.
          * subst s'. splits; auto; discriminate. }
    destruct Hst as (Hs & Hcl & Hterm & Hnf).
    splits; auto.
    + constructor; cbn; auto.
      * rewrite Hq. cbn. unfold enc. cbn. rewrite app_nil_r. exact Hwire.
      * intros Ha. destruct Hs as [->|[_ ->]]; [exact Ha|discriminate].
    + intros Hr. destruct (Hcl Hr). split; [auto|]. apply ended_cons. auto.
    + cbn. intros Ht. destruct (Hterm Ht) as [?|?]; [now left|right; now apply ended_cons].
    + apply strip_mask_for.
    + right. split; [exact Hnf|]. cbn. now rewrite Hq.
Qed.

Lemma eff_proper x0 x x1 x' w w' evs :
  x_codec x0 = x_codec x -> x_role x0 = x_role x -> x_state x0 = x_state x ->
  x_codec x1 = x_codec x' -> x_role x1 = x_role x' -> x_state x1 = x_state x' ->
  eff x0 w x1 w' evs -> eff x w x' w' evs.
Proof.
  intros C0 R0 S0 C1 R1 S1 [L C R M W A]. rewrite C0, C1 in *. rewrite R0, R1, S0, S1 in *.
  constructor; auto.
Qed.

Lemma ended_nil_l evs : transport_ended ([] ++ evs) -> transport_ended evs.
Proof. auto. Qed.

Lemma write_none_spec x w r x' w' :
  write_ x None w = (r, x', w') ->
  exists evs, eff x w x' w' evs /\ kept x x' evs /\ fstate x x' /\ closed_ok r x x' evs /\
              term_ok x x' evs.
Proof.
  rewrite write_none_unfold. destruct (x_additional x) as [msg|] eqn:Es.
  - destruct (buffer_frame (set_additional_raw x None) msg w) as [[rb xb] wb] eqn:Eb.
    apply buffer_frame_eff in Eb.
    destruct Eb as (evs1 & f1 & Heff1 & Hslot1 & Hfs1 & Hcl1 & Hterm1 & Hstrip & Hcase).
    cbn [x_additional set_additional_raw] in Hslot1.
    assert (Heff1' : eff x w xb wb evs1) by (eapply eff_proper; [..|exact Heff1]; reflexivity).
    assert (Hfs1' : fstate x xb) by exact Hfs1.
    assert (Hterm1' : x_state xb = Terminated -> x_state x = Terminated \/ transport_ended evs1)
      by exact Hterm1.
    clear Heff1 Hfs1 Hterm1.
    assert (Hdirect : forall xx, x_codec xx = x_codec xb -> x_role xx = x_role xb ->
              x_state xx = x_state xb -> x_additional xx = x_additional xb ->
              forall r0 : res bool,
              (r0 = RErr EConnectionClosed -> closing_done (x_state x) = true /\ transport_ended evs1) ->
              queued evs1 = [f1] ->
              exists evs, eff x w xx wb evs /\ kept x xx evs /\ fstate x xx /\ closed_ok r0 x xx evs /\
                          term_ok x xx evs).
    { intros xx Hxc Hxr Hxs Hxa r0 Hr0 Hq. exists evs1. splits; auto.
      - eapply eff_proper; [..|exact Heff1']; auto.
      - unfold kept. rewrite Es. exists f1. split; [exact Hstrip|]. right. split; [congruence|].
        rewrite Hq. now left.
      - unfold fstate. rewrite Hxs. exact Hfs1'.
      - intros Hc. destruct (Hr0 Hc). split; auto.
      - intros Ht. rewrite Hxs in Ht. destruct (Hterm1' Ht); auto. }
    assert (Htail : forall sf, queued evs1 = [f1] ->
              server_tail sf (set_unflushed xb true) wb = (r, x', w') ->
              exists evs, eff x w x' w' evs /\ kept x x' evs /\ fstate x x' /\ closed_ok r x x' evs /\
                          term_ok x x' evs).
    { intros sf Hq H. apply server_tail_spec in H.
      destruct H as (evs2 & Heff2 & Hslot2 & Hq2 & Hfs2 & Hcl2 & Hterm2 & _).
      cbn [x_additional set_unflushed] in Hslot2.
      assert (Heff2' : eff xb wb x' w' evs2) by (eapply eff_proper; [..|exact Heff2]; reflexivity).
      assert (Hfs2' : fstate xb x') by exact Hfs2.
      assert (Hcl2' : closed_ok r xb x' evs2) by exact Hcl2.
      assert (Hterm2' : term_ok xb x' evs2) by exact Hterm2.
      clear Heff2 Hfs2 Hcl2 Hterm2.
      exists (evs1 ++ evs2). splits.
      - eapply eff_trans; eauto.
      - unfold kept. rewrite Es. exists f1. split; [exact Hstrip|]. right.
        split; [congruence|]. rewrite queued_app, Hq. now left.
      - eapply fstate_trans; eauto.
      - intros Hc. destruct (Hcl2' Hc) as [Hcd [?|?]];
          (split; [eapply fstate_cd; eauto|]); [now left|right; now apply ended_app_r].
      - intros Ht. destruct (Hterm2' Ht) as [Ht1|[?|?]].
        + destruct (Hterm1' Ht1) as [?|?]; [now left|right; right; now apply ended_app_l].
        + right; now left.
        + right; right; now apply ended_app_r. }
    destruct Hcase as [(Hr & Hevs & Hst)|(Hnf & Hq)].
    + subst rb evs1. unfold set_additional. rewrite Hslot1. intros H.
      apply server_tail_spec in H.
      destruct H as (evs2 & Heff2 & Hslot2 & Hq2 & Hfs2 & Hcl2 & Hterm2 & _).
      cbn [x_additional set_additional_raw] in Hslot2.
      exists ([] ++ evs2). splits.
      * eapply eff_trans; [exact Heff1'|]. eapply eff_proper; [..|exact Heff2]; reflexivity.
      * unfold kept. rewrite Es. exists f1. split; [exact Hstrip|]. now left.
      * eapply fstate_trans; [exact Hfs1'|exact Hfs2].
      * intros Hc. destruct (Hcl2 Hc) as [Hcd Hx]. split; [|exact Hx].
        cbn in Hcd. eapply fstate_cd; eauto.
      * intros Ht. destruct (Hterm2 Ht) as [Ht1|[?|?]]; auto.
        cbn in Ht1, Hst. left. congruence.
    + destruct rb as [u|e|s|].
      * apply Htail. exact Hq.
      * destruct e; try (intros H; inversion H; subst;
                         apply Hdirect; [reflexivity|reflexivity|reflexivity|reflexivity|auto; discriminate|exact Hq]).
        exfalso. eapply Hnf. reflexivity.
      * intros H; inversion H; subst.
        apply Hdirect; [reflexivity|reflexivity|reflexivity|reflexivity|discriminate|exact Hq].
      * intros H; inversion H; subst.
        apply Hdirect; [reflexivity|reflexivity|reflexivity|reflexivity|discriminate|exact Hq].
  - intros H. apply server_tail_spec in H.
    destruct H as (evs2 & Heff2 & Hslot2 & Hq2 & Hfs2 & Hcl2 & Hterm2 & _).
    exists evs2. splits; auto. unfold kept. rewrite Es. congruence.
Qed.

Lemma wob_eff x w r c' w' :
  write_out_buffer (x_codec x) w = (r, c', w') ->
  exists evs, eff x w (set_codec x c') w' evs /\ queued evs = [] /\ io_res r evs /\
              (r = ROk tt -> c_out c' = []).
Proof.
  intros E. apply write_out_buffer_spec in E.
  destruct E as (out' & evs & Hc & Hlog & Hrds & Hfls & Hkeys & Hq & Hw & Hio & Hok & Hnil & Hdr).
  exists evs. splits; auto.
  - constructor; cbn; subst c'; cbn; auto. rewrite Hq. cbn. now rewrite app_nil_r.
  - intros Hr. subst c'. cbn. auto.
Qed.

Lemma w_flush_spec w r w' :
  w_flush w = (r, w') ->
  exists e, w_log w' = w_log w ++ [EvFlush e] /\ w_rds w' = w_rds w /\ w_wrs w' = w_wrs w /\
            (r = ROk tt \/ exists k, r = RErr (EIo k)).
Proof.
  unfold w_flush. destruct (w_fls w) as [|[|k] fl]; intros H; inversion H; subst; clear H; cbn.
  - exists (FlErr WouldBlock). splits; auto. right. eauto.
  - exists FlOk. splits; auto.
  - exists (FlErr k). splits; auto. right; eauto.
Qed.

Definition wspec {A} (x : ctx) (w : world) (r : res A) (x' : ctx) (w' : world) : Prop :=
  exists evs, eff x w x' w' evs /\ kept x x' evs /\ fstate x x' /\ closed_ok r x x' evs /\
              term_ok x x' evs.

Lemma flush_spec x w r x' w' : flush x w = (r, x', w') -> wspec x w r x' w'.
Proof.
  unfold flush. destruct (write_ x None w) as [[r0 x0] w0] eqn:E0.
  apply write_none_spec in E0.
  destruct E0 as (evs0 & Heff0 & Hk0 & Hfs0 & Hcl0 & Hterm0).
  destruct r0 as [b|e|s|].
  - destruct (write_out_buffer (x_codec x0) w0) as [[r1 c1] w1] eqn:E1.
    apply wob_eff in E1. destruct E1 as (evs1 & Heff1 & Hq1 & Hio1 & Hok1).
    assert (Hmid : forall r : res unit, (r = RErr EConnectionClosed -> False) ->
               wspec x w r (set_codec x0 c1) w1).
    { intros r' Hr'. exists (evs0 ++ evs1). splits.
      - eapply eff_trans; eauto.
      - eapply kept_trans; [exact Hk0|]. unfold kept. cbn.
        destruct (x_additional x0) as [f|]; [|reflexivity]. exists f. auto.
      - exact Hfs0.
      - intros Hc. contradiction.
      - intros Ht. cbn in Ht. destruct (Hterm0 Ht) as [?|[[Hs Ho]|?]]; auto.
        + (* clean x0: the drain of an empty buffer leaves it empty *)
          right. left. split; [exact Hs|]. cbn.
          destruct Heff1 as [_ C _ _ _ _]. cbn in C. rewrite Ho, Hq1 in C. cbn in C.
          apply app_eq_nil in C. tauto.
        + right; right. now apply ended_app_l. }
    destruct r1 as [u|e|s|].
    + destruct (w_flush w1) as [r2 w2] eqn:E2. apply w_flush_spec in E2.
      destruct E2 as (fe & Hlog2 & _ & _ & Hr2).
      assert (Hfl : forall xx, x_codec xx = c1 -> x_role xx = x_role x0 -> x_state xx = x_state x0 ->
                 x_additional xx = x_additional x0 ->
                 forall r : res unit, (r = RErr EConnectionClosed -> False) -> wspec x w r xx w2).
      { intros xx Hcx Hrx Hsx Hax r' Hr'. destruct (Hmid r' Hr') as (evs & Heff & Hk & Hfs & Hcl & Hterm).
        exists (evs ++ [EvFlush fe]). splits.
        - eapply eff_trans; [exact Heff|]. constructor; cbn; rewrite ?Hcx, ?Hrx, ?Hsx; auto.
          now rewrite app_nil_r.
        - replace (evs ++ [EvFlush fe]) with (evs ++ [] ++ [EvFlush fe]) by reflexivity.
          unfold kept in *. destruct (x_additional x) as [f|].
          + destruct Hk as (f1 & Hs1 & [H1|[H1 Hin]]); exists f1; (split; [exact Hs1|]).
            * left. cbn in H1. congruence.
            * right. split; [cbn in H1; congruence|]. rewrite queued_app, in_app_iff. now left.
          + cbn in Hk. congruence.
        - unfold fstate in *. cbn in Hfs. rewrite Hsx. exact Hfs.
        - intros Hc; contradiction.
        - intros Ht. rewrite Hsx in Ht. destruct (Hterm Ht) as [?|[[Hs Ho]|?]]; auto.
          + right; left. split; [cbn in Hs; congruence|]. cbn in Ho. congruence.
          + right; right. now apply ended_app_l. }
      destruct r2 as [u2|e2|s2|]; intros H; inversion H; subst; clear H;
        (apply Hfl; [reflexivity|reflexivity|reflexivity|reflexivity|]);
        destruct Hr2 as [Hr2|[k Hr2]]; try discriminate; try (inversion Hr2; discriminate).
    + intros H; inversion H; subst; clear H. apply Hmid.
      intros Hc. inversion Hc; subst. cbn in Hio1. contradiction.
    + intros H; inversion H; subst; clear H. apply Hmid. discriminate.
    + intros H; inversion H; subst; clear H. apply Hmid. discriminate.
  - intros H; inversion H; subst; clear H. exists evs0. splits; auto.
    intros Hc. apply Hcl0. inversion Hc. reflexivity.
  - intros H; inversion H; subst; clear H. exists evs0. splits; auto. intros Hc; discriminate.
  - intros H; inversion H; subst; clear H. exists evs0. splits; auto. intros Hc; discriminate.
Qed.

Lemma wspec_closed_cd {A} x w (r : res A) x' w' :
  wspec x w r x' w' -> r = RErr EConnectionClosed -> closing_done (x_state x) = true.
Proof. intros (evs & _ & _ & _ & Hcl & _) Hr. now destruct (Hcl Hr). Qed.

(* close(): in state Active the Close frame is parked first, then flush *)
Definition close_start (x : ctx) (code : option close_frame) : ctx :=
  match x_state x with
  | Active => set_additional_raw (set_state x ClosedByUs) (Some (frame_close code))
  | _ => x
  end.

Lemma close_eq x code w : close x code w = flush (close_start x code) w.
Proof. unfold close, close_start. destruct (x_state x); reflexivity. Qed.

Lemma close_spec x code w r x' w' :
  close x code w = (r, x', w') -> wspec (close_start x code) w r x' w'.
Proof. rewrite close_eq. apply flush_spec. Qed.

(* the data path of write(): buffer the frame, then the pending slot, then flush if asked to *)
Lemma write_some_spec x f w r x' w' :
  write_ x (Some f) w = (r, x', w') ->
  exists evs, eff x w x' w' evs /\ kept x x' evs /\ fstate x x' /\ closed_ok r x x' evs.
Proof.
  rewrite write_some_unfold. destruct (buffer_frame x f w) as [[r0 x0] w0] eqn:Eb.
  apply buffer_frame_eff in Eb.
  destruct Eb as (evs1 & f1 & Heff1 & Hslot1 & Hfs1 & Hcl1 & Hterm1 & Hstrip & Hcase).
  assert (Hk1 : kept x x0 evs1).
  { unfold kept. rewrite Hslot1. destruct (x_additional x) as [g|]; [|reflexivity]. exists g. auto. }
  destruct r0 as [u|e|s|].
  - intros H. apply write_none_spec in H.
    destruct H as (evs2 & Heff2 & Hk2 & Hfs2 & Hcl2 & _).
    exists (evs1 ++ evs2). splits.
    + eapply eff_trans; eauto.
    + eapply kept_trans; eauto.
    + eapply fstate_trans; eauto.
    + intros Hc. destruct (Hcl2 Hc) as [Hcd [Hx|Hx]]; (split; [eapply fstate_cd; eauto|]);
        [now left|right; now apply ended_app_r].
  - intros H; inversion H; subst; clear H. exists evs1. splits; auto.
    intros Hc. inversion Hc; subst. destruct (Hcl1 eq_refl). split; auto.
  - intros H; inversion H; subst; clear H. exists evs1. splits; auto. intros Hc; discriminate.
  - intros H; inversion H; subst; clear H. exists evs1. splits; auto. intros Hc; discriminate.
Qed.

Definition is_data_msg (m : message) : Prop :=
  match m with MPong _ | MClose _ => False | _ => True end.

Definition wspec0 {A} (x : ctx) (w : world) (r : res A) (x' : ctx) (w' : world) : Prop :=
  exists evs, eff x w x' w' evs /\ kept x x' evs /\ fstate x x' /\ closed_ok r x x' evs.

Lemma wspec_wspec0 {A} x w (r : res A) x' w' : wspec x w r x' w' -> wspec0 x w r x' w'.
Proof. intros (evs & H1 & H2 & H3 & H4 & _). exists evs. auto. Qed.

Lemma write_data_spec x f w (r : res unit) x' w' :
  (let '(r, x1, w1) := write_ x (Some f) w in
    match r with
    | ROk true => flush x1 w1
    | ROk false => (ROk tt, x1, w1)
    | RErr e => (RErr e, x1, w1)
    | RPanic s => (RPanic s, x1, w1)
    | ROutOfFuel => (ROutOfFuel, x1, w1)
    end) = (r, x', w') ->
  wspec0 x w r x' w'.
Proof.
  destruct (write_ x (Some f) w) as [[r1 x1] w1] eqn:E1. apply write_some_spec in E1.
  destruct E1 as (evs1 & Heff1 & Hk1 & Hfs1 & Hcl1).
  destruct r1 as [[|]|e|s|].
  - intros H. apply flush_spec in H. destruct H as (evs2 & Heff2 & Hk2 & Hfs2 & Hcl2 & _).
    exists (evs1 ++ evs2). splits.
    + eapply eff_trans; eauto.
    + eapply kept_trans; eauto.
    + eapply fstate_trans; eauto.
    + intros Hc. destruct (Hcl2 Hc) as [Hcd [Hx|Hx]]; (split; [eapply fstate_cd; eauto|]);
        [now left|right; now apply ended_app_r].
  - intros H; inversion H; subst; clear H. exists evs1. splits; auto. intros Hc; discriminate.
  - intros H; inversion H; subst; clear H. exists evs1. splits; auto.
    intros Hc. inversion Hc; subst. apply Hcl1. reflexivity.
  - intros H; inversion H; subst; clear H. exists evs1. splits; auto. intros Hc; discriminate.
  - intros H; inversion H; subst; clear H. exists evs1. splits; auto. intros Hc; discriminate.
Qed.

(* write(): rejected without any effect, or one of the three paths *)
Lemma write_spec x m w r x' w' :
  write x m w = (r, x', w') ->
  (x' = x /\ w' = w /\ x_state x <> Active /\
     (r = RErr EAlreadyClosed \/ r = RErr (EProtocol SendAfterClosing))) \/
  (x_state x = Active /\
   match m with
   | MClose code => wspec0 (close_start x code) w r x' w'
   | MPong d => wspec0 (set_additional x (frame_pong d)) w r x' w'
   | _ => wspec0 x w r x' w'
   end).
Proof.
  unfold write. destruct (is_terminated (x_state x)) eqn:Et.
  { intros H; inversion H; subst. left. splits; auto. destruct (x_state x'); discriminate. }
  destruct (negb (is_active (x_state x))) eqn:Ea.
  { intros H; inversion H; subst. left. splits; auto. destruct (x_state x'); discriminate. }
  assert (Hact : x_state x = Active) by (destruct (x_state x); try discriminate; reflexivity).
  intros H. right. split; [exact Hact|].
  destruct m as [d|d|d|d|code|f]; try (apply write_data_spec in H; exact H).
  - destruct (write_ (set_additional x (frame_pong d)) None w) as [[r1 x1] w1] eqn:E1.
    apply write_none_spec in E1. destruct E1 as (evs1 & Heff1 & Hk1 & Hfs1 & Hcl1 & _).
    exists evs1.
    destruct r1 as [b|e|s|]; inversion H; subst; clear H; splits; auto;
      intros Hc; try discriminate. inversion Hc; subst. apply Hcl1. reflexivity.
  - apply close_spec in H. apply wspec_wspec0. exact H.
Qed.

(* ------------------------------------------------------------------------------------------ *)
(* 7. the read side                                                                            *)
(* ------------------------------------------------------------------------------------------ *)

Lemma try_take_codec ms c :
  match try_take ms c with
  | TkPayload _ _ _ c' | TkNeedMore _ c' | TkErr _ c' =>
      c_out c' = c_out c /\ c_max_out c' = c_max_out c /\ c_write_len c' = c_write_len c
  | TkPanic _ => True
  end.
Proof.
  unfold try_take.
  destruct (c_hdr c) as [[h len]|] eqn:Eh.
  - rewrite Eh. destruct (ms <? len); [cbn; auto|]. destruct (len <=? blen (c_in c)); cbn; auto.
  - destruct (header_parse (c_in c)) as [h len k| | |]; cbn [c_hdr set_hdr set_in]; try rewrite Eh; cbn; auto.
    destruct (ms <? len); [cbn; auto|].
    destruct (len <=? blen (dropN k (c_in c))); cbn; auto.
Qed.

Definition rd_ended {A} (r : res (option A)) (evs : list event) : Prop :=
  match r with
  | ROk None => transport_ended evs
  | RErr (EIo ConnReset) => transport_ended evs
  | RErr EConnectionClosed => False
  | _ => True
  end.

Lemma try_take_err ms c e c1 :
  try_take ms c = TkErr e c1 -> forall evs, @rd_ended (header * N * bytes) (RErr e) evs.
Proof.
  unfold try_take.
  destruct (c_hdr c) as [[h len]|] eqn:Eh.
  - rewrite Eh. destruct (ms <? len); [|destruct (len <=? blen (c_in c)); discriminate].
    intros H; inversion H; subst; intros; exact I.
  - destruct (header_parse (c_in c)) as [h len k| | |]; cbn [c_hdr set_hdr set_in c_in]; try rewrite Eh;
      try discriminate.
    + destruct (ms <? len); [|destruct (len <=? blen (dropN k (c_in c))); discriminate].
      intros H; inversion H; subst; intros; exact I.
    + intros H; inversion H; subst; intros; exact I.
Qed.

Lemma read_frame_loop_spec ms rds : forall c log r c' rds' log',
  read_frame_loop ms rds c log = (r, c', rds', log') ->
  exists evs, log' = log ++ evs /\ queued evs = [] /\ wire evs = [] /\
    c_out c' = c_out c /\ c_max_out c' = c_max_out c /\ c_write_len c' = c_write_len c /\
    rd_ended r evs.
Proof.
  induction rds as [|o rds IH]; intros c log r c' rds' log' H.
  - cbn [read_frame_loop] in H. pose proof (try_take_codec ms c) as Ht.
    destruct (try_take ms c) as [h len p c1|n c1|e c1|s] eqn:Et.
    + inversion H; subst. exists []. rewrite app_nil_r. splits; try tauto; auto; try exact I.
    + inversion H; subst. exists ([EvReserve n] ++ [EvRead (RdErr WouldBlock)]).
      rewrite app_assoc. splits; try tauto; auto; try exact I.
    + inversion H; subst. exists []. rewrite app_nil_r. splits; try tauto; auto.
      eapply try_take_err; eauto.
    + inversion H; subst. exists []. rewrite app_nil_r. splits; auto; try exact I.
  - cbn [read_frame_loop] in H. pose proof (try_take_codec ms c) as Ht.
    destruct (try_take ms c) as [h len p c1|n c1|e c1|s] eqn:Et.
    + inversion H; subst. exists []. rewrite app_nil_r. splits; try tauto; auto; try exact I.
    + destruct o as [bs| |k].
      * destruct bs as [|b bs].
        -- inversion H; subst. exists ([EvReserve n] ++ [EvRead RdEof]).
           rewrite app_assoc. splits; try tauto; auto.
           cbn. unfold transport_ended. apply Exists_cons_tl, Exists_cons_hd. exact I.
        -- apply IH in H. destruct H as (evs & Hlog & Hq & Hw & Ho & Hm & Hl & Hend).
           exists ([EvReserve n; EvRead (RdData (b :: bs))] ++ evs).
           cbn [set_in c_out c_max_out c_write_len] in *. destruct Ht as (Ht1 & Ht2 & Ht3).
           splits; try tauto; try congruence.
           ++ rewrite Hlog. rewrite <- !app_assoc. reflexivity.
           ++ destruct r as [[a|]|e|s|]; cbn in *; auto.
              ** now apply ended_cons, ended_cons.
              ** destruct e; auto. destruct k; auto. now apply ended_cons, ended_cons.
      * inversion H; subst. exists ([EvReserve n] ++ [EvRead RdEof]).
        rewrite app_assoc. splits; try tauto; auto.
        cbn. unfold transport_ended. apply Exists_cons_tl, Exists_cons_hd. exact I.
      * inversion H; subst. exists ([EvReserve n] ++ [EvRead (RdErr k)]).
        rewrite app_assoc. splits; try tauto; auto.
        cbn. destruct k; auto. unfold transport_ended. apply Exists_cons_tl, Exists_cons_hd. exact I.
    + inversion H; subst. exists []. rewrite app_nil_r. splits; try tauto; auto. eapply try_take_err; eauto.
    + inversion H; subst. exists []. rewrite app_nil_r. splits; auto; try exact I.
Qed.

Lemma read_frame_spec ms um au c w r c' w' :
  read_frame ms um au c w = (r, c', w') ->
  exists evs, w_log w' = w_log w ++ evs /\ queued evs = [] /\ wire evs = [] /\
    c_out c' = c_out c /\ c_max_out c' = c_max_out c /\ c_write_len c' = c_write_len c /\
    w_wrs w' = w_wrs w /\ w_fls w' = w_fls w /\ rd_ended r evs.
Proof.
  unfold read_frame.
  destruct (read_frame_loop (limit_of ms) (w_rds w) c (w_log w)) as [[[r0 c0] rds0] log0] eqn:E.
  apply read_frame_loop_spec in E. destruct E as (evs & Hlog & Hq & Hw & Ho & Hm & Hl & Hend).
  intros H. exists evs.
  assert (G : forall (r1 : res (option frame)), rd_ended r1 evs ->
            (r1, c0, mkWorld rds0 (w_wrs w) (w_fls w) (w_keys w) log0) = (r, c', w') ->
            w_log w' = w_log w ++ evs /\ queued evs = [] /\ wire evs = [] /\
            c_out c' = c_out c /\ c_max_out c' = c_max_out c /\ c_write_len c' = c_write_len c /\
            w_wrs w' = w_wrs w /\ w_fls w' = w_fls w /\ rd_ended r evs).
  { intros r1 Hr1 Heq. inversion Heq; subst. cbn. splits; auto. }
  destruct r0 as [[[[h len] payload]|]|e|s|].
  - destruct (negb (blen payload =? len)); [apply G in H; [exact H|exact I]|].
    destruct um.
    + destruct (h_mask h); [apply G in H; [exact H|exact I]|].
      destruct au; (apply G in H; [exact H|exact I]).
    + apply G in H; [exact H|exact I].
  - apply G in H; [exact H|exact Hend].
  - apply G in H; [exact H|]. destruct e; auto.
  - apply G in H; [exact H|exact I].
  - apply G in H; [exact H|exact I].
Qed.

Definition process_frame (x1 : ctx) (f : frame) (w1 : world) : res (option message) * ctx * world :=
  let h := f_hdr f in
  if negb (can_read (x_state x1)) then (RErr (EProtocol ReceivedAfterClosing), x1, w1) else
  if h_rsv1 h || h_rsv2 h || h_rsv3 h then (RErr (EProtocol NonZeroReservedBits), x1, w1) else
  if role_eqb (x_role x1) Client && (match h_mask h with Some _ => true | None => false end)
  then (RErr (EProtocol MaskedFrameFromServer), x1, w1) else
  match h_opcode h with
  | OCtl ctl =>
      if negb (h_fin h) then (RErr (EProtocol FragmentedControlFrame), x1, w1) else
      if 125 <? blen (f_payload f) then (RErr (EProtocol ControlFrameTooBig), x1, w1) else
      match ctl with
      | Close =>
          match frame_into_close (f_payload f) with
          | ROk cl =>
              let '(r, x2) := do_close x1 cl in
              match r with
              | ROk (Some c) => (ROk (Some (MClose c)), x2, w1)
              | ROk None => (ROk None, x2, w1)
              | RErr e => (RErr e, x2, w1)
              | RPanic s => (RPanic s, x2, w1)
              | ROutOfFuel => (ROutOfFuel, x2, w1)
              end
          | RErr e => (RErr e, x1, w1)
          | RPanic s => (RPanic s, x1, w1)
          | ROutOfFuel => (ROutOfFuel, x1, w1)
          end
      | CReserved i => (RErr (EProtocol (UnknownControlFrameType i)), x1, w1)
      | Ping =>
          let x2 := if is_active (x_state x1) then set_additional x1 (frame_pong (f_payload f)) else x1 in
          (ROk (Some (MPing (f_payload f))), x2, w1)
      | Pong => (ROk (Some (MPong (f_payload f))), x1, w1)
      end
  | OData d =>
      let fin := h_fin h in
      match d with
      | Continue =>
          match x_incomplete x1 with
          | Some msg =>
              let '(r, msg') := incmsg_extend msg (f_payload f) (cfg_max_message_size (x_cfg x1)) in
              let x2 := set_incomplete x1 (Some msg') in
              match r with
              | ROk _ =>
                  if fin then
                    match incmsg_complete msg' with
                    | ROk m => (ROk (Some m), set_incomplete x2 None, w1)
                    | RErr e => (RErr e, set_incomplete x2 None, w1)
                    | RPanic s => (RPanic s, x2, w1)
                    | ROutOfFuel => (ROutOfFuel, x2, w1)
                    end
                  else (ROk None, x2, w1)
              | RErr e => (RErr e, x2, w1)
              | RPanic s => (RPanic s, x2, w1)
              | ROutOfFuel => (ROutOfFuel, x2, w1)
              end
          | None => (RErr (EProtocol UnexpectedContinueFrame), x1, w1)
          end
      | _ =>
          match x_incomplete x1 with
          | Some _ => (RErr (EProtocol (ExpectedFragment d)), x1, w1)
          | None =>
              match d with
              | DReserved i => (RErr (EProtocol (UnknownDataFrameType i)), x1, w1)
              | Continue => (RPanic site_not_text_nor_binary, x1, w1)
              | Text | Binary =>
                  if fin then
                    match check_max_size (blen (f_payload f)) (cfg_max_message_size (x_cfg x1)) with
                    | ROk _ =>
                        match d with
                        | Text => if is_utf8 (f_payload f) then (ROk (Some (MText (f_payload f))), x1, w1)
                                  else (RErr EUtf8, x1, w1)
                        | _ => (ROk (Some (MBinary (f_payload f))), x1, w1)
                        end
                    | RErr e => (RErr e, x1, w1)
                    | RPanic s => (RPanic s, x1, w1)
                    | ROutOfFuel => (ROutOfFuel, x1, w1)
                    end
                  else
                    let inc0 := match d with Text => ITxt collector_new | _ => IBin [] end in
                    let '(r, inc1) := incmsg_extend inc0 (f_payload f) (cfg_max_message_size (x_cfg x1)) in
                    match r with
                    | ROk _ => (ROk None, set_incomplete x1 (Some inc1), w1)
                    | RErr e => (RErr e, x1, w1)
                    | RPanic s => (RPanic s, x1, w1)
                    | ROutOfFuel => (ROutOfFuel, x1, w1)
                    end
              end
          end
      end
  end.

Lemma rmf_unfold x w :
  read_message_frame x w =
  let '(r0, c1, w1) := read_frame (cfg_max_frame_size (x_cfg x)) (role_eqb (x_role x) Server)
                                  (cfg_accept_unmasked (x_cfg x)) (x_codec x) w in
  let '(r0', s1) := check_connection_reset r0 (x_state x) in
  let x1 := set_state (set_codec x c1) s1 in
  match r0' with
  | RErr e => (RErr e, x1, w1)
  | RPanic s => (RPanic s, x1, w1)
  | ROutOfFuel => (ROutOfFuel, x1, w1)
  | ROk None =>
      let x2 := set_state x1 Terminated in
      match x_state x1 with
      | ClosedByPeer | CloseAcknowledged => (RErr EConnectionClosed, x2, w1)
      | _ => (RErr (EProtocol ResetWithoutClosingHandshake), x2, w1)
      end
  | ROk (Some f) => process_frame x1 f w1
  end.
Proof. reflexivity. Qed.

Lemma set_additional_fields x f :
  x_codec (set_additional x f) = x_codec x /\ x_role (set_additional x f) = x_role x /\
  x_state (set_additional x f) = x_state x /\ x_cfg (set_additional x f) = x_cfg x /\
  x_unflushed (set_additional x f) = x_unflushed x /\ x_incomplete (set_additional x f) = x_incomplete x.
Proof.
  unfold set_additional. destruct (x_additional x) as [g|]; [|cbn; splits; reflexivity].
  destruct (opcode_eqb (h_opcode (f_hdr g)) (OCtl Pong)); cbn; splits; reflexivity.
Qed.

Lemma set_additional_codec x f : x_codec (set_additional x f) = x_codec x.
Proof. apply set_additional_fields. Qed.
Lemma set_additional_role x f : x_role (set_additional x f) = x_role x.
Proof. apply set_additional_fields. Qed.
Lemma set_additional_state x f : x_state (set_additional x f) = x_state x.
Proof. apply set_additional_fields. Qed.

Lemma do_close_spec x cl r x' :
  do_close x cl = (r, x') ->
  (x_state x = Active /\ exists c, r = ROk (Some c) /\
     x' = set_additional (set_state x ClosedByPeer) (frame_close c)) \/
  (x_state x = ClosedByUs /\ r = ROk (Some cl) /\ x' = set_state x CloseAcknowledged) \/
  (x' = x /\ can_read (x_state x) = false /\ (r = ROk None \/ exists s, r = RPanic s)).
Proof.
  unfold do_close. destruct (x_state x) eqn:Es; intros H; inversion H; subst; clear H.
  - left. split; [reflexivity|]. eexists. split; reflexivity.
  - right; left. auto.
  - right; right. auto.
  - right; right. auto.
  - right; right. splits; auto. right. eauto.
Qed.

Lemma frame_into_close_err p e : frame_into_close p = RErr e -> e <> EConnectionClosed.
Proof.
  unfold frame_into_close. destruct p as [|a [|b q]]; try discriminate.
  - intros H; inversion H; discriminate.
  - destruct (is_utf8 q); intros H; inversion H; discriminate.
Qed.

Lemma check_max_size_err n m e : check_max_size n m = RErr e -> e <> EConnectionClosed.
Proof.
  unfold check_max_size. destruct m as [m|]; [|discriminate].
  destruct (m <? n); intros H; inversion H; discriminate.
Qed.

Lemma incmsg_extend_err m t l e m' : incmsg_extend m t l = (RErr e, m') -> e <> EConnectionClosed.
Proof.
  unfold incmsg_extend.
  destruct ((limit_of l <? incmsg_len m) || (limit_of l - incmsg_len m <? blen t)).
  - destruct (two64 <=? incmsg_len m + blen t); intros H; inversion H; discriminate.
  - destruct m as [c|v]; [|discriminate].
    destruct (collector_extend c t); intros H; inversion H; discriminate.
Qed.

Lemma incmsg_complete_err m e : incmsg_complete m = RErr e -> e <> EConnectionClosed.
Proof.
  unfold incmsg_complete. destruct m as [c|v]; [|discriminate].
  destruct (collector_into_string c); intros H; inversion H; discriminate.
Qed.

Ltac not_closed :=
  first
    [ discriminate
    | let Hc := fresh "Hc" in
      intros Hc; inversion Hc; subst;
      match goal with
      | H : frame_into_close _ = RErr _ |- _ => apply frame_into_close_err in H; congruence
      | H : check_max_size _ _ = RErr _ |- _ => apply check_max_size_err in H; congruence
      | H : incmsg_extend _ _ _ = (RErr _, _) |- _ => apply incmsg_extend_err in H; congruence
      | H : incmsg_complete _ = RErr _ |- _ => apply incmsg_complete_err in H; congruence
      end ].

Definition pf_cases (x1 : ctx) (r : res (option message)) (x' : ctx) : Prop :=
  (x_additional x' = x_additional x1 /\ x_state x' = x_state x1 /\
   (forall c, r <> ROk (Some (MClose c))) /\
   (x_state x1 = Active -> forall p, r <> ROk (Some (MPing p)))) \/
  (x_state x1 = Active /\ exists p, r = ROk (Some (MPing p)) /\ x' = set_additional x1 (frame_pong p)) \/
  (x_state x1 = Active /\ exists c, r = ROk (Some (MClose c)) /\
     x' = set_additional (set_state x1 ClosedByPeer) (frame_close c)) \/
  (x_state x1 = ClosedByUs /\ exists c, r = ROk (Some (MClose c)) /\
     x' = set_state x1 CloseAcknowledged).

Lemma incmsg_complete_ok m a : incmsg_complete m = ROk a ->
  (forall c, a <> MClose c) /\ (forall p, a <> MPing p).
Proof.
  unfold incmsg_complete. destruct m as [c|v].
  - destruct (collector_into_string c); intros H; inversion H; split; intros; discriminate.
  - intros H; inversion H; split; intros; discriminate.
Qed.

Lemma is_active_true s : is_active s = true -> s = Active.
Proof. destruct s; try discriminate; reflexivity. Qed.

Lemma process_frame_spec x1 f w1 r x' w' :
  process_frame x1 f w1 = (r, x', w') ->
  w' = w1 /\ x_codec x' = x_codec x1 /\ x_role x' = x_role x1 /\ r <> RErr EConnectionClosed /\
  pf_cases x1 r x'.
Proof.
  unfold process_frame. cbv zeta. intros H.
  repeat match type of H with
         | context [match ?t with _ => _ end] => destruct t eqn:?
         end;
  inversion H; subst; clear H;
  try match goal with
      | Hd : do_close _ _ = _ |- _ =>
          apply do_close_spec in Hd;
          destruct Hd as [(Hs & c & Hr & Hx)|[(Hs & Hr & Hx)|(Hx & Hcr & Hr)]];
          [inversion Hr; subst | inversion Hr; subst
          | exfalso; rewrite Hcr in *; discriminate]
      end;
  rewrite ?set_additional_codec, ?set_additional_role;
  (split; [reflexivity|]); (split; [reflexivity|]); (split; [reflexivity|]);
  (split; [not_closed|]); unfold pf_cases.
  all: try (left; splits; [reflexivity|reflexivity|discriminate|intros; discriminate]).
  all: try (right; right; left; split; [assumption|eexists; split; reflexivity]).
  all: try (right; right; right; split; [assumption|eexists; split; reflexivity]).
  - apply incmsg_complete_ok in Heqr0. destruct Heqr0 as [Hc Hp].
    left. splits; [reflexivity|reflexivity| |]; intros; intros E; inversion E; subst.
    + eapply Hc; reflexivity.
    + eapply Hp; reflexivity.
  - right; left. split; [now apply is_active_true|]. eexists. split; reflexivity.
  - left. splits; [reflexivity|reflexivity|discriminate|].
    intros Ha. rewrite Ha in *. discriminate.
Qed.

(* what set_additional leaves in the slot *)
Definition slot_after (a : option frame) (f : frame) : option frame :=
  match a with
  | None => Some f
  | Some g => if opcode_eqb (f_opcode g) (OCtl Pong) then Some f else Some g
  end.

Lemma set_additional_slot x f : x_additional (set_additional x f) = slot_after (x_additional x) f.
Proof.
  unfold set_additional, slot_after, f_opcode. destruct (x_additional x) as [g|] eqn:E; [|reflexivity].
  destruct (opcode_eqb (h_opcode (f_hdr g)) (OCtl Pong)); cbn; auto.
Qed.

Lemma ccr_cases {A} (r r' : res A) s s' :
  check_connection_reset r s = (r', s') ->
  (r' = r /\ s' = s) \/
  (r = RErr (EIo ConnReset) /\ closing_done s = true /\ r' = RErr EConnectionClosed /\ s' = Terminated).
Proof.
  unfold check_connection_reset. destruct r as [a|e|n|]; try (intros H; inversion H; auto).
  destruct e; try (inversion H; auto). destruct k; try (inversion H; auto).
  destruct (closing_done s) eqn:Ec; inversion H; auto.
Qed.

Definition rmf_cases (x : ctx) (r : res (option message)) (x' : ctx) (evs : list event) : Prop :=
  (x_additional x' = x_additional x /\
   (x_state x' = x_state x \/
    (x_state x' = Terminated /\ transport_ended evs /\ exists e, r = RErr e)) /\
   (forall c, r <> ROk (Some (MClose c))) /\
   (x_state x = Active -> forall p, r <> ROk (Some (MPing p)))) \/
  (x_state x = Active /\ exists p, r = ROk (Some (MPing p)) /\ x_state x' = Active /\
     x_additional x' = slot_after (x_additional x) (frame_pong p)) \/
  (x_state x = Active /\ exists c, r = ROk (Some (MClose c)) /\ x_state x' = ClosedByPeer /\
     x_additional x' = slot_after (x_additional x) (frame_close c)) \/
  (x_state x = ClosedByUs /\ exists c, r = ROk (Some (MClose c)) /\ x_state x' = CloseAcknowledged /\
     x_additional x' = x_additional x).

Lemma rmf_spec x w r x' w' :
  read_message_frame x w = (r, x', w') ->
  exists evs, eff x w x' w' evs /\ queued evs = [] /\ wire evs = [] /\
    c_out (x_codec x') = c_out (x_codec x) /\ w_wrs w' = w_wrs w /\ w_fls w' = w_fls w /\
    (r = RErr EConnectionClosed -> closing_done (x_state x) = true /\ transport_ended evs) /\
    rmf_cases x r x' evs.
Proof.
  rewrite rmf_unfold.
  destruct (read_frame (cfg_max_frame_size (x_cfg x)) (role_eqb (x_role x) Server)
              (cfg_accept_unmasked (x_cfg x)) (x_codec x) w) as [[r0 c1] w1] eqn:Er.
  apply read_frame_spec in Er.
  destruct Er as (evs & Hlog & Hq & Hw & Ho & Hm & Hl & Hwrs & Hfls & Hend).
  destruct (check_connection_reset r0 (x_state x)) as [r0' s1] eqn:Ec. cbv zeta.
  apply ccr_cases in Ec.
  assert (Heff : forall s, (s = Active -> x_state x = Active) ->
            eff x w (set_state (set_codec x c1) s) w1 evs).
  { intros s Hs. constructor; cbn; auto. rewrite Hw, Hq, Ho. cbn. now rewrite app_nil_r. }
  intros H. exists evs.
  destruct Ec as [[-> ->]|(Hr0 & Hcd & -> & ->)].
  - destruct r0 as [[f|]|e|s|].
    + apply process_frame_spec in H. destruct H as (-> & Hc & Hr & Hncl & Hcases).
      cbn in Hc, Hr.
      assert (Heff' : eff x w x' w1 evs).
      { specialize (Heff (x_state x) (fun e => e)).
        destruct Hcases as [(Ha & Hs & _)|[(Hs & p & _ & Hx)|[(Hs & c & _ & Hx)|(Hs & c & _ & Hx)]]].
        - eapply eff_proper; [..|exact Heff]; auto.
        - subst x'. eapply eff_proper; [..|exact Heff]; auto;
            rewrite ?set_additional_codec, ?set_additional_role, ?set_additional_state; reflexivity.
        - destruct Heff as [L C R M W A]. subst x'. constructor; auto;
            rewrite ?set_additional_codec, ?set_additional_role, ?set_additional_state; auto;
            try (cbn; discriminate).
        - destruct Heff as [L C R M W A]. subst x'. constructor; auto; try (cbn; discriminate). }
      splits; auto.
      * rewrite Hc. exact Ho.
      * intros Hcl. contradiction.
      * unfold rmf_cases. cbn in Hcases.
        destruct Hcases as [(Ha & Hs & Hn1 & Hn2)|[(Hs & p & Hrr & Hx)|[(Hs & c & Hrr & Hx)|(Hs & c & Hrr & Hx)]]].
        -- left. splits; auto.
        -- right; left. split; [exact Hs|]. exists p. subst x'.
           rewrite set_additional_state, set_additional_slot. cbn. auto.
        -- right; right; left. split; [exact Hs|]. exists c. subst x'.
           rewrite set_additional_state, set_additional_slot. cbn. auto.
        -- right; right; right. split; [exact Hs|]. exists c. subst x'. cbn. auto.
    + (* EOF *)
      cbn in Hend.
      assert (G : forall r1, (r1 = RErr EConnectionClosed -> closing_done (x_state x) = true) ->
                (exists e, r1 = RErr e) ->
                (forall c, r1 <> ROk (Some (MClose c))) -> (forall p, r1 <> ROk (Some (MPing p))) ->
                (r1, set_state (set_state (set_codec x c1) (x_state x)) Terminated, w1) = (r, x', w') ->
                eff x w x' w' evs /\ queued evs = [] /\ wire evs = [] /\
                c_out (x_codec x') = c_out (x_codec x) /\ w_wrs w' = w_wrs w /\ w_fls w' = w_fls w /\
                (r = RErr EConnectionClosed -> closing_done (x_state x) = true /\ transport_ended evs) /\
                rmf_cases x r x' evs).
      { intros r1 Hr1 Hn1 Hn0 Hn2 Heq. inversion Heq; subst. splits; auto.
        - specialize (Heff Terminated). apply Heff. discriminate.
        - left. cbn. splits; auto. }
      cbn [x_state set_state] in H.
      destruct (x_state x) eqn:Es; apply G in H; eauto; try discriminate; intros; discriminate.
    + inversion H; subst. splits; auto.
      * intros Hc. inversion Hc; subst. cbn in Hend. contradiction.
      * left. cbn. splits; auto; intros; discriminate.
    + inversion H; subst. splits; auto.
      * intros Hc. discriminate.
      * left. cbn. splits; auto; intros; discriminate.
    + inversion H; subst. splits; auto.
      * intros Hc. discriminate.
      * left. cbn. splits; auto; intros; discriminate.
  - subst r0. cbn in Hend. inversion H; subst. splits; auto.
    + apply Heff. discriminate.
    + left. cbn. splits; auto; try (intros; discriminate). right. splits; eauto.
Qed.

(* ------------------------------------------------------------------------------------------ *)
(* 8. the slot invariant and "pending"                                                         *)
(* ------------------------------------------------------------------------------------------ *)

(* While the connection is Active the slot holds at most a pong: a Close frame is only ever parked
   by close() (state becomes ClosedByUs) or as the reply to a received Close (ClosedByPeer). *)
Definition Inv (x : ctx) : Prop :=
  x_state x = Active -> forall f, x_additional x = Some f -> f_opcode f = OCtl Pong.

Lemma Inv_new r part cfg x : ctx_new r part cfg = Some x -> Inv x.
Proof.
  unfold ctx_new. destruct (config_valid cfg); [|discriminate].
  intros H; inversion H; subst. intros _ f Hf. discriminate.
Qed.

Lemma Inv_kept x w x' w' evs : eff x w x' w' evs -> kept x x' evs -> Inv x -> Inv x'.
Proof.
  intros Heff Hk Hinv Ha f Hf. apply (eff_act _ _ _ _ _ Heff) in Ha.
  unfold kept in Hk. destruct (x_additional x) as [g|] eqn:Eg; [|congruence].
  destruct Hk as (f1 & Hs & [H1|[H1 _]]); [|congruence].
  rewrite (strip_opcode f g); [apply (Hinv Ha g Eg)|]. congruence.
Qed.

Lemma opcode_eqb_pong f : f_opcode f = OCtl Pong -> opcode_eqb (f_opcode f) (OCtl Pong) = true.
Proof. intros ->. reflexivity. Qed.

Lemma opcode_eqb_pong_true o : opcode_eqb o (OCtl Pong) = true -> o = OCtl Pong.
Proof. destruct o as [[| | |i]|[| | |i]]; cbn; try discriminate; reflexivity. Qed.

(* in state Active (with the invariant) set_additional always installs the new frame *)
Lemma slot_after_inv x f : Inv x -> x_state x = Active -> slot_after (x_additional x) f = Some f.
Proof.
  intros Hinv Ha. unfold slot_after. destruct (x_additional x) as [g|] eqn:Eg; [|reflexivity].
  rewrite opcode_eqb_pong; [reflexivity|]. now apply Hinv.
Qed.

Lemma Inv_close_start x code : Inv x -> Inv (close_start x code).
Proof.
  unfold close_start. destruct (x_state x) eqn:Es; auto. intros _ Ha. discriminate.
Qed.

Lemma Inv_set_pong x d : Inv x -> Inv (set_additional x (frame_pong d)).
Proof.
  intros Hinv Ha f. rewrite set_additional_state in Ha. rewrite set_additional_slot.
  rewrite slot_after_inv by assumption. intros H; inversion H; reflexivity.
Qed.

Lemma Inv_rmf x r x' evs : Inv x -> rmf_cases x r x' evs -> Inv x'.
Proof.
  intros Hinv [(Ha & Hs & _)|[(Hs & p & _ & Hs' & Hx)|[(Hs & c & _ & Hs' & Hx)|(Hs & c & _ & Hs' & Hx)]]].
  - intros Hact f Hf. destruct Hs as [Hs|(Hs & _)]; [|congruence].
    rewrite Ha in Hf. rewrite Hs in Hact. now apply Hinv.
  - intros _ f Hf. rewrite Hx, slot_after_inv in Hf by assumption. inversion Hf; reflexivity.
  - intros Hact. congruence.
  - intros Hact. congruence.
Qed.

(* g (a frame without mask) is pending relative to the frames `base` queued earlier:
   it sits in the slot, or it has been appended to the write buffer after `base`. *)
Definition pend (base : list frame) (g : frame) (x : ctx) (log : list event) : Prop :=
  exists new, queued log = base ++ new /\
    ((exists f, x_additional x = Some f /\ strip f = g) \/ (exists f, In f new /\ strip f = g)).

Lemma pend_kept base g x w x' w' evs :
  eff x w x' w' evs -> kept x x' evs -> pend base g x (w_log w) -> pend base g x' (w_log w').
Proof.
  intros Heff Hk (new & Hq & Hp). exists (new ++ queued evs).
  rewrite (eff_log _ _ _ _ _ Heff), queued_app, Hq, app_assoc. split; [reflexivity|].
  destruct Hp as [(f & Hf & Hs)|(f & Hin & Hs)].
  - unfold kept in Hk. rewrite Hf in Hk. destruct Hk as (f1 & Hs1 & [H1|[H1 Hin]]).
    + left. exists f1. split; [exact H1|congruence].
    + right. exists f1. split; [|congruence]. rewrite in_app_iff. now right.
  - right. exists f. split; [|exact Hs]. rewrite in_app_iff. now left.
Qed.

(* the slot is untouched and the log only grows *)
Lemma pend_same base g x w x' w' evs :
  eff x w x' w' evs -> x_additional x' = x_additional x ->
  pend base g x (w_log w) -> pend base g x' (w_log w').
Proof.
  intros Heff Ha (new & Hq & Hp). exists (new ++ queued evs).
  rewrite (eff_log _ _ _ _ _ Heff), queued_app, Hq, app_assoc. split; [reflexivity|].
  destruct Hp as [(f & Hf & Hs)|(f & Hin & Hs)].
  - left. exists f. split; [congruence|exact Hs].
  - right. exists f. split; [|exact Hs]. rewrite in_app_iff. now left.
Qed.

(* a frame already in the write buffer stays pending whatever happens to the slot *)
Lemma pend_queued base g x w x' w' evs :
  eff x w x' w' evs ->
  (exists new, queued (w_log w) = base ++ new /\ exists f, In f new /\ strip f = g) ->
  pend base g x' (w_log w').
Proof.
  intros Heff (new & Hq & f & Hin & Hs). exists (new ++ queued evs).
  rewrite (eff_log _ _ _ _ _ Heff), queued_app, Hq, app_assoc. split; [reflexivity|].
  right. exists f. split; [|exact Hs]. rewrite in_app_iff. now left.
Qed.

(* slot content installed by set_additional in a context where the slot held `a` *)
Lemma pend_slot_after base g x w x' w' evs f :
  eff x w x' w' evs -> x_additional x' = slot_after (x_additional x) f ->
  pend base g x (w_log w) ->
  pend base g x' (w_log w') \/
  (exists f0, x_additional x = Some f0 /\ strip f0 = g /\ f_opcode f0 = OCtl Pong).
Proof.
  intros Heff Ha (new & Hq & Hp).
  destruct Hp as [(f0 & Hf0 & Hs)|Hin].
  - unfold slot_after in Ha. rewrite Hf0 in Ha.
    destruct (opcode_eqb (f_opcode f0) (OCtl Pong)) eqn:Eo.
    + right. exists f0. splits; auto. now apply opcode_eqb_pong_true.
    + left. exists (new ++ queued evs).
      rewrite (eff_log _ _ _ _ _ Heff), queued_app, Hq, app_assoc. split; [reflexivity|].
      left. exists f0. auto.
  - left. eapply pend_queued; eauto.
Qed.

(* ------------------------------------------------------------------------------------------ *)
(* 9. read(): the loop                                                                         *)
(* ------------------------------------------------------------------------------------------ *)

Definition read_pre (x : ctx) (w : world) : res unit * ctx * world :=
  if (match x_additional x with Some _ => true | None => false end) || x_unflushed x then
    let '(r, x', w') := flush x w in
    match r with
    | ROk _ => (ROk tt, x', w')
    | RErr (EIo WouldBlock) => (ROk tt, set_unflushed x' true, w')
    | _ => (r, x', w')
    end
  else if role_eqb (x_role x) Server && negb (can_read (x_state x)) then
    let '(rw, c', w') := write_out_buffer (x_codec x) w in
    match rw with
    | ROk _ => (RErr EConnectionClosed, set_state (set_codec x c') Terminated, w')
    | _ => (rw, set_codec x c', w')
    end
  else (ROk tt, x, w).

Lemma read_loop_unfold fuel x w :
  read_loop (S fuel) x w =
  let '(r0, x0, w0) := read_pre x w in
  match r0 with
  | ROk _ =>
      let '(r1, x1, w1) := read_message_frame x0 w0 in
      match r1 with
      | ROk (Some m) => (ROk m, x1, w1)
      | ROk None => read_loop fuel x1 w1
      | RErr e => (RErr e, x1, w1)
      | RPanic s => (RPanic s, x1, w1)
      | ROutOfFuel => (ROutOfFuel, x1, w1)
      end
  | RErr e => (RErr e, x0, w0)
  | RPanic s => (RPanic s, x0, w0)
  | ROutOfFuel => (ROutOfFuel, x0, w0)
  end.
Proof. reflexivity. Qed.

Definition pre_state (x x0 : ctx) : Prop :=
  x_state x0 = x_state x \/ (can_read (x_state x) = false /\ x_state x0 = Terminated).

Lemma read_pre_spec x w r0 x0 w0 :
  read_pre x w = (r0, x0, w0) ->
  exists evs, eff x w x0 w0 evs /\ kept x x0 evs /\ pre_state x x0 /\
    (r0 = RErr EConnectionClosed -> clean x0 \/ transport_ended evs) /\ term_ok x x0 evs.
Proof.
  unfold read_pre.
  destruct ((match x_additional x with Some _ => true | None => false end) || x_unflushed x) eqn:Ec.
  - destruct (flush x w) as [[r x'] w'] eqn:Ef. apply flush_spec in Ef.
    destruct Ef as (evs & Heff & Hk & Hfs & Hcl & Hterm).
    assert (Hps : pre_state x x').
    { destruct Hfs as [?|[Hcd ?]]; [now left|right]. split; [|assumption].
      destruct (x_state x); try discriminate; reflexivity. }
    assert (G : forall r1, (r1 = RErr EConnectionClosed -> r = RErr EConnectionClosed) ->
              (r1, x', w') = (r0, x0, w0) ->
              exists evs, eff x w x0 w0 evs /\ kept x x0 evs /\ pre_state x x0 /\
                (r0 = RErr EConnectionClosed -> clean x0 \/ transport_ended evs) /\ term_ok x x0 evs).
    { intros r1 Hr1 Heq. inversion Heq; subst. exists evs. splits; auto.
      intros Hc. apply Hr1 in Hc. now destruct (Hcl Hc). }
    destruct r as [u|e|s|]; try (apply G; auto; discriminate).
    destruct e; try (apply G; auto; discriminate).
    destruct k; try (apply G; auto; discriminate).
    intros H; inversion H; subst; clear H. exists evs.
    split; [eapply eff_proper; [..|exact Heff]; reflexivity|].
    split; [exact Hk|]. split; [exact Hps|]. split; [discriminate|]. exact Hterm.
  - destruct (role_eqb (x_role x) Server && negb (can_read (x_state x))) eqn:Es.
    + apply orb_false_elim in Ec. destruct Ec as [Eslot _].
      assert (Hslot : x_additional x = None) by (destruct (x_additional x); [discriminate|reflexivity]).
      apply andb_prop in Es. destruct Es as [_ Ecr].
      assert (Hcr : can_read (x_state x) = false) by (destruct (can_read (x_state x)); [discriminate|reflexivity]).
      destruct (write_out_buffer (x_codec x) w) as [[rw c'] w'] eqn:E.
      apply wob_eff in E. destruct E as (evs & Heff & Hq & Hio & Hok).
      assert (Hk : forall s, kept x (set_state (set_codec x c') s) evs).
      { intros s. unfold kept. rewrite Hslot. exact Hslot. }
      destruct rw as [u|e|s|]; intros H; inversion H; subst; clear H; exists evs.
      * destruct u. specialize (Hok eq_refl). splits; auto.
        -- destruct Heff as [L C R M W A]. constructor; auto. cbn. discriminate.
        -- right. auto.
        -- intros _. left. split; [exact Hslot|exact Hok].
        -- intros _. right; left. split; [exact Hslot|exact Hok].
      * splits; auto.
        -- apply (Hk (x_state x)).
        -- now left.
        -- intros Hc. inversion Hc; subst. cbn in Hio. contradiction.
        -- intros Ht. now left.
      * cbn in Hio. contradiction.
      * cbn in Hio. contradiction.
    + intros H; inversion H; subst. exists []. splits; auto.
      * apply eff_refl.
      * apply kept_refl.
      * now left.
      * discriminate.
      * intros Ht; now left.
Qed.

Lemma Inv_pre x w x0 w0 evs : eff x w x0 w0 evs -> kept x x0 evs -> Inv x -> Inv x0.
Proof. apply Inv_kept. Qed.

(* (A) effect, invariant, and ConnectionClosed only when nothing is left or the transport ended *)
Lemma read_loop_eff fuel : forall x w r x' w',
  read_loop fuel x w = (r, x', w') ->
  exists evs, eff x w x' w' evs /\
    (r = RErr EConnectionClosed -> clean x' \/ transport_ended evs) /\
    (Inv x -> Inv x').
Proof.
  induction fuel as [|fuel IH]; intros x w r x' w' H.
  - cbn in H. inversion H; subst. exists []. splits; auto. apply eff_refl. discriminate.
  - rewrite read_loop_unfold in H.
    destruct (read_pre x w) as [[r0 x0] w0] eqn:Ep. apply read_pre_spec in Ep.
    destruct Ep as (evs0 & Heff0 & Hk0 & Hps0 & Hcl0 & Hterm0).
    assert (Hinv0 : Inv x -> Inv x0) by (eapply Inv_kept; eauto).
    destruct r0 as [u|e|s|].
    + destruct (read_message_frame x0 w0) as [[r1 x1] w1] eqn:Em. apply rmf_spec in Em.
      destruct Em as (evs1 & Heff1 & Hq1 & Hw1 & Ho1 & Hwrs1 & Hfls1 & Hcl1 & Hcases1).
      assert (Hinv1 : Inv x -> Inv x1) by (intros Hi; eapply Inv_rmf; [apply Hinv0; exact Hi|exact Hcases1]).
      assert (Heff01 : eff x w x1 w1 (evs0 ++ evs1)) by (eapply eff_trans; eauto).
      destruct r1 as [[m|]|e|s|].
      * inversion H; subst. exists (evs0 ++ evs1). splits; auto. discriminate.
      * apply IH in H. destruct H as (evs2 & Heff2 & Hcl2 & Hinv2).
        exists ((evs0 ++ evs1) ++ evs2). splits; auto.
        -- eapply eff_trans; eauto.
        -- intros Hc. destruct (Hcl2 Hc) as [?|?]; [now left|right; now apply ended_app_r].
      * inversion H; subst. exists (evs0 ++ evs1). splits; auto.
        intros Hc. inversion Hc; subst. right. apply ended_app_r. now apply Hcl1.
      * inversion H; subst. exists (evs0 ++ evs1). splits; auto. discriminate.
      * inversion H; subst. exists (evs0 ++ evs1). splits; auto. discriminate.
    + inversion H; subst. exists evs0. splits; auto.
      intros Hc. inversion Hc; subst. now apply Hcl0.
    + inversion H; subst. exists evs0. splits; auto. discriminate.
    + inversion H; subst. exists evs0. splits; auto. discriminate.
Qed.

Definition displaced_by (r : res message) : Prop :=
  (exists p, r = ROk (MPing p)) \/ (exists c, r = ROk (MClose c)).

(* (C) what is pending stays pending through read(), unless it is a pong in the slot that is
   replaced by the reply to the Ping / Close this very read() returns *)
Lemma read_loop_pend base g fuel : forall x w r x' w',
  read_loop fuel x w = (r, x', w') -> Inv x -> pend base g x (w_log w) ->
  pend base g x' (w_log w') \/ (f_opcode g = OCtl Pong /\ displaced_by r).
Proof.
  induction fuel as [|fuel IH]; intros x w r x' w' H Hinv Hp.
  - cbn in H. inversion H; subst. now left.
  - rewrite read_loop_unfold in H.
    destruct (read_pre x w) as [[r0 x0] w0] eqn:Ep. apply read_pre_spec in Ep.
    destruct Ep as (evs0 & Heff0 & Hk0 & Hps0 & Hcl0 & Hterm0).
    assert (Hinv0 : Inv x0) by (eapply Inv_kept; eauto).
    assert (Hp0 : pend base g x0 (w_log w0)) by (eapply pend_kept; eauto).
    destruct r0 as [u|e|s|]; try (inversion H; subst; now left).
    destruct (read_message_frame x0 w0) as [[r1 x1] w1] eqn:Em. apply rmf_spec in Em.
    destruct Em as (evs1 & Heff1 & Hq1 & Hw1 & Ho1 & Hwrs1 & Hfls1 & Hcl1 & Hcases1).
    assert (Hinv1 : Inv x1) by (eapply Inv_rmf; eauto).
    assert (Hdisp : forall f, x_additional x1 = slot_after (x_additional x0) f ->
              pend base g x1 (w_log w1) \/ f_opcode g = OCtl Pong).
    { intros f Hx. destruct (pend_slot_after base g _ _ _ _ _ f Heff1 Hx Hp0) as [?|(f0 & _ & Hs & Ho)];
        [now left|right]. rewrite <- Hs. exact Ho. }
    destruct Hcases1 as [(Ha & Hs & Hn1 & Hn2)|[(Hs & p & Hr & Hs' & Hx)|[(Hs & c & Hr & Hs' & Hx)|(Hs & c & Hr & Hs' & Hx)]]].
    + assert (Hp1 : pend base g x1 (w_log w1)) by (eapply pend_same; eauto).
      destruct r1 as [[m|]|e|s|]; try (inversion H; subst; now left).
      eapply IH; eauto.
    + subst r1. inversion H; subst. destruct (Hdisp _ Hx) as [?|?]; [now left|right].
      split; [assumption|]. left; eauto.
    + subst r1. inversion H; subst. destruct (Hdisp _ Hx) as [?|?]; [now left|right].
      split; [assumption|]. right; eauto.
    + subst r1. inversion H; subst. left. eapply pend_same; eauto.
Qed.

(* (D) the reply to a Close / Ping received in state Active is in the slot when read() returns *)
Lemma read_loop_reply fuel : forall x w r x' w',
  read_loop fuel x w = (r, x', w') -> Inv x -> x_state x = Active ->
  (forall c, r = ROk (MClose c) -> x_additional x' = Some (frame_close c) /\ x_state x' = ClosedByPeer) /\
  (forall p, r = ROk (MPing p) -> x_additional x' = Some (frame_pong p) /\ x_state x' = Active).
Proof.
  induction fuel as [|fuel IH]; intros x w r x' w' H Hinv Hact.
  - cbn in H. inversion H; subst. split; intros; discriminate.
  - rewrite read_loop_unfold in H.
    destruct (read_pre x w) as [[r0 x0] w0] eqn:Ep. apply read_pre_spec in Ep.
    destruct Ep as (evs0 & Heff0 & Hk0 & Hps0 & Hcl0 & Hterm0).
    assert (Hinv0 : Inv x0) by (eapply Inv_kept; eauto).
    assert (Hact0 : x_state x0 = Active).
    { destruct Hps0 as [?|[Hcr _]]; [congruence|]. rewrite Hact in Hcr. discriminate. }
    destruct r0 as [u|e|s|]; try (inversion H; subst; split; intros; discriminate).
    destruct (read_message_frame x0 w0) as [[r1 x1] w1] eqn:Em. apply rmf_spec in Em.
    destruct Em as (evs1 & Heff1 & Hq1 & Hw1 & Ho1 & Hwrs1 & Hfls1 & Hcl1 & Hcases1).
    assert (Hinv1 : Inv x1) by (eapply Inv_rmf; eauto).
    destruct Hcases1 as [(Ha & Hs & Hn1 & Hn2)|[(Hs & p & Hr & Hs' & Hx)|[(Hs & c & Hr & Hs' & Hx)|(Hs & c & Hr & Hs' & Hx)]]].
    + destruct r1 as [[m|]|e|s|]; try (inversion H; subst; split; intros; discriminate).
      * inversion H; subst. split; intros ? E; inversion E; subst; exfalso.
        -- eapply Hn1; reflexivity.
        -- eapply Hn2; [assumption|reflexivity].
      * destruct Hs as [Hs|(_ & _ & e & He)]; [|discriminate].
        eapply IH; eauto. congruence.
    + subst r1. inversion H; subst. rewrite slot_after_inv in Hx by assumption.
      split; intros ? E; inversion E; subst; auto.
    + subst r1. inversion H; subst. rewrite slot_after_inv in Hx by assumption.
      split; intros ? E; inversion E; subst; auto.
    + congruence.
Qed.

(* ------------------------------------------------------------------------------------------ *)
(* 10. one API call (run_op)                                                                   *)
(* ------------------------------------------------------------------------------------------ *)

Definition res_closed (r : op_result) : Prop :=
  r = ResMsg (RErr EConnectionClosed) \/ r = ResUnit (RErr EConnectionClosed).

(* what every API call guarantees *)
Record step (x : ctx) (w : world) (x' : ctx) (w' : world) (evs : list event) : Prop := mkStep {
  st_log : w_log w' = w_log w ++ evs;
  st_c10 : wire evs ++ c_out (x_codec x') = c_out (x_codec x) ++ enc (queued evs);
  st_role : x_role x' = x_role x;
  st_act : x_state x' = Active -> x_state x = Active;
  st_inv : Inv x -> Inv x' }.

Lemma step_of_eff x w x' w' evs : eff x w x' w' evs -> (Inv x -> Inv x') -> step x w x' w' evs.
Proof. intros [L C R M W A] Hi. constructor; auto. Qed.

Lemma step_refl x w : step x w x w [].
Proof. apply step_of_eff; [apply eff_refl|auto]. Qed.

Lemma wspec0_step {A} x0 x w (r : res A) x' w' :
  wspec0 x0 w r x' w' ->
  x_codec x0 = x_codec x -> x_role x0 = x_role x -> (x_state x0 = Active -> x_state x = Active) ->
  (Inv x -> Inv x0) ->
  exists evs, step x w x' w' evs /\ (r = RErr EConnectionClosed -> clean x' \/ transport_ended evs).
Proof.
  intros (evs & Heff & Hk & Hfs & Hcl) Hc Hr Hs Hi. exists evs. split.
  - pose proof Heff as Heff'. destruct Heff' as [L C R M W Ac]. constructor; try congruence; auto.
    intros Hinv. eapply Inv_kept; [exact Heff|exact Hk|auto].
  - intros Hc'. now destruct (Hcl Hc').
Qed.

Lemma read_step x w r x' w' :
  read x w = (r, x', w') ->
  exists evs, step x w x' w' evs /\ (r = RErr EConnectionClosed -> clean x' \/ transport_ended evs).
Proof.
  unfold read. destruct (is_terminated (x_state x)).
  - intros H; inversion H; subst. exists []. split; [apply step_refl|discriminate].
  - intros H. apply read_loop_eff in H. destruct H as (evs & Heff & Hcl & Hinv).
    exists evs. split; [now apply step_of_eff|exact Hcl].
Qed.

Lemma Inv_setbuf x c cfg :
  Inv x -> Inv (mkCtx (x_role x) c (x_state x) (x_incomplete x) (x_additional x) (x_unflushed x) cfg).
Proof. intros H. exact H. Qed.

Lemma run_op_step x o w res x' w' :
  run_op x o w = (res, x', w') ->
  exists evs, step x w x' w' evs /\ (res_closed res -> clean x' \/ transport_ended evs).
Proof.
  destruct o as [|m| |c| | |wbs mx]; cbn [run_op].
  - destruct (read x w) as [[r x1] w1] eqn:E. intros H; inversion H; subst; clear H.
    apply read_step in E. destruct E as (evs & Hst & Hcl). exists evs. split; [exact Hst|].
    intros [Hc|Hc]; inversion Hc; subst. now apply Hcl.
  - destruct (write x m w) as [[r x1] w1] eqn:E. intros H; inversion H; subst; clear H.
    apply write_spec in E. destruct E as [(-> & -> & Hna & Hr)|(Hact & Hm)].
    + exists []. split; [apply step_refl|]. intros [Hc|Hc]; inversion Hc; subst.
      destruct Hr; discriminate.
    + assert (G : exists evs, step x w x' w' evs /\
                    (r = RErr EConnectionClosed -> clean x' \/ transport_ended evs)).
      { destruct m as [d|d|d|d|code|f]; try (eapply wspec0_step; eauto; fail).
        - eapply wspec0_step; [exact Hm|..].
          + apply set_additional_codec. + apply set_additional_role.
          + rewrite set_additional_state. auto. + apply Inv_set_pong.
        - eapply wspec0_step; [exact Hm|..]; unfold close_start; rewrite Hact; auto.
          intros _ Ha. discriminate. }
      destruct G as (evs & Hst & Hcl). exists evs. split; [exact Hst|].
      intros [Hc|Hc]; inversion Hc; subst. now apply Hcl.
  - destruct (flush x w) as [[r x1] w1] eqn:E. intros H; inversion H; subst; clear H.
    apply flush_spec, wspec_wspec0 in E.
    destruct (wspec0_step x x w r x' w' E) as (evs & Hst & Hcl); auto.
    exists evs. split; [exact Hst|]. intros [Hc|Hc]; inversion Hc; subst. now apply Hcl.
  - destruct (close x c w) as [[r x1] w1] eqn:E. intros H; inversion H; subst; clear H.
    apply close_spec, wspec_wspec0 in E.
    destruct (wspec0_step (close_start x c) x w r x' w' E) as (evs & Hst & Hcl).
    + unfold close_start. destruct (x_state x); reflexivity.
    + unfold close_start. destruct (x_state x); reflexivity.
    + unfold close_start. destruct (x_state x) eqn:Es; auto; intros; congruence.
    + apply Inv_close_start.
    + exists evs. split; [exact Hst|]. intros [Hc|Hc]; inversion Hc; subst. now apply Hcl.
  - intros H; inversion H; subst. exists []. split; [apply step_refl|].
    intros [Hc|Hc]; discriminate.
  - intros H; inversion H; subst. exists []. split; [apply step_refl|].
    intros [Hc|Hc]; discriminate.
  - destruct (config_valid _).
    + intros H; inversion H; subst. exists []. split.
      * constructor; cbn; auto. -- now rewrite app_nil_r. -- now rewrite app_nil_r.
      * intros [Hc|Hc]; discriminate.
    + intros H; inversion H; subst. exists []. split; [apply step_refl|].
      intros [Hc|Hc]; discriminate.
Qed.

Lemma close_active_pend x code w r x' w' :
  x_state x = Active -> close x code w = (r, x', w') ->
  pend (queued (w_log w)) (frame_close code) x' (w_log w') /\ x_state x' = ClosedByUs.
Proof.
  intros Hact H. apply close_spec in H. destruct H as (evs & Heff & Hk & Hfs & _).
  unfold close_start in *. rewrite Hact in *. split.
  - exists (queued evs). rewrite (eff_log _ _ _ _ _ Heff), queued_app. split; [reflexivity|].
    unfold kept in Hk. cbn in Hk. destruct Hk as (f1 & Hs & [H1|[H1 Hin]]).
    + left. exists f1. split; [exact H1|]. rewrite Hs. reflexivity.
    + right. exists f1. split; [exact Hin|]. rewrite Hs. reflexivity.
  - destruct Hfs as [Hs|[Hcd _]]; [exact Hs|discriminate].
Qed.

Lemma read_reply x w r x' w' :
  read x w = (r, x', w') -> Inv x -> x_state x = Active ->
  (forall c, r = ROk (MClose c) -> x_additional x' = Some (frame_close c) /\ x_state x' = ClosedByPeer) /\
  (forall p, r = ROk (MPing p) -> x_additional x' = Some (frame_pong p) /\ x_state x' = Active).
Proof.
  unfold read. intros H Hinv Hact. rewrite Hact in H. cbn [is_terminated] in H.
  eapply read_loop_reply; eauto.
Qed.

Lemma pend_slot base g x log f :
  queued log = base -> x_additional x = Some f -> strip f = g -> pend base g x log.
Proof. intros Hq Hf Hs. exists []. rewrite app_nil_r. split; [exact Hq|]. left. eauto. Qed.

(* calls that may replace a pending pong: a user pong, close(), a read that returns Ping or Close *)
Definition displacing (o : op) (res : op_result) : Prop :=
  match o with
  | OpWrite (MPong _) | OpWrite (MClose _) | OpClose _ => True
  | OpRead => exists r, res = ResMsg r /\ displaced_by r
  | _ => False
  end.

Lemma eff_set_additional x w f : eff x w (set_additional x f) w [].
Proof.
  eapply eff_proper; [..|apply (eff_refl x w)]; try reflexivity;
    symmetry; apply set_additional_fields.
Qed.

Lemma wspec0_pend {A} base g x w (r : res A) x' w' :
  wspec0 x w r x' w' -> pend base g x (w_log w) -> pend base g x' (w_log w').
Proof. intros (evs & Heff & Hk & _) Hp. eapply pend_kept; eauto. Qed.

Lemma run_op_pend base g x o w res x' w' :
  run_op x o w = (res, x', w') -> Inv x -> pend base g x (w_log w) ->
  pend base g x' (w_log w') \/ (f_opcode g = OCtl Pong /\ displacing o res).
Proof.
  intros H Hinv Hp. destruct o as [|m| |c| | |wbs mx]; cbn [run_op] in H.
  - destruct (read x w) as [[r x1] w1] eqn:E. inversion H; subst; clear H.
    unfold read in E. destruct (is_terminated (x_state x)).
    + inversion E; subst. now left.
    + destruct (read_loop_pend base g _ _ _ _ _ _ E Hinv Hp) as [?|[Ho Hd]]; [now left|right].
      split; [exact Ho|]. cbn. eauto.
  - destruct (write x m w) as [[r x1] w1] eqn:E. inversion H; subst; clear H.
    apply write_spec in E. destruct E as [(-> & -> & Hna & Hr)|(Hact & Hm)]; [now left|].
    destruct m as [d|d|d|d|code|f]; try (left; eapply wspec0_pend; eauto; fail).
    + (* user pong *)
      destruct (pend_slot_after base g x w (set_additional x (frame_pong d)) w [] (frame_pong d)
                  (eff_set_additional _ _ _) (set_additional_slot _ _) Hp) as [Hp'|(f0 & _ & Hs & Ho)].
      * left. eapply wspec0_pend; eauto.
      * right. split; [|exact I]. rewrite <- Hs. exact Ho.
    + (* close *)
      destruct Hp as (new & Hq & [(f0 & Hf0 & Hs)|Hin]).
      * right. split; [|exact I]. rewrite <- Hs. change (f_opcode f0 = OCtl Pong). now apply Hinv.
      * left. destruct Hm as (evs & Heff & _).
        eapply (pend_queued base g (close_start x code)); eauto.
  - destruct (flush x w) as [[r x1] w1] eqn:E. inversion H; subst; clear H.
    left. apply flush_spec, wspec_wspec0 in E. eapply wspec0_pend; eauto.
  - destruct (close x c w) as [[r x1] w1] eqn:E. inversion H; subst; clear H.
    apply close_spec, wspec_wspec0 in E.
    destruct (x_state x) eqn:Es;
      try (left; unfold close_start in E; rewrite Es in E; eapply wspec0_pend; eauto; fail).
    destruct Hp as (new & Hq & [(f0 & Hf0 & Hs)|Hin]).
    + right. split; [|exact I]. rewrite <- Hs. change (f_opcode f0 = OCtl Pong). now apply Hinv.
    + left. destruct E as (evs & Heff & _).
      eapply (pend_queued base g (close_start x c)); eauto.
  - inversion H; subst. now left.
  - inversion H; subst. now left.
  - destruct (config_valid _); inversion H; subst; now left.
Qed.

Lemma run_op_pend_close base g x o w res x' w' :
  run_op x o w = (res, x', w') -> Inv x -> f_opcode g <> OCtl Pong ->
  pend base g x (w_log w) -> pend base g x' (w_log w').
Proof.
  intros H Hinv Hg Hp. destruct (run_op_pend base g _ _ _ _ _ _ H Hinv Hp) as [?|[Ho _]]; [assumption|].
  contradiction.
Qed.

(* ------------------------------------------------------------------------------------------ *)
(* 11. histories (run_ops)                                                                     *)
(* ------------------------------------------------------------------------------------------ *)

Lemma run_ops_cons x o ops w :
  run_ops x (o :: ops) w =
  let '(res1, x1, w1) := run_op x o w in
  let '(rs, x2, w2) := run_ops x1 ops w1 in
  ((res1, blen (w_log w1)) :: rs, x2, w2).
Proof. reflexivity. Qed.

Lemma run_ops_app x ops1 : forall ops2 w,
  run_ops x (ops1 ++ ops2) w =
  let '(rs1, x1, w1) := run_ops x ops1 w in
  let '(rs2, x2, w2) := run_ops x1 ops2 w1 in
  (rs1 ++ rs2, x2, w2).
Proof.
  revert x. induction ops1 as [|o ops1 IH]; intros x ops2 w.
  - cbn [app run_ops]. destruct (run_ops x ops2 w) as [[rs2 x2] w2]. reflexivity.
  - cbn [app]. rewrite !run_ops_cons. destruct (run_op x o w) as [[res1 x1] w1].
    rewrite IH. destruct (run_ops x1 ops1 w1) as [[rs1 x2] w2].
    destruct (run_ops x2 ops2 w2) as [[rs2 x3] w3]. reflexivity.
Qed.

Lemma run_ops_steps ops : forall x w rs x' w',
  run_ops x ops w = (rs, x', w') -> exists evs, step x w x' w' evs.
Proof.
  induction ops as [|o ops IH]; intros x w rs x' w' H.
  - inversion H; subst. exists []. apply step_refl.
  - rewrite run_ops_cons in H. destruct (run_op x o w) as [[res1 x1] w1] eqn:E1.
    destruct (run_ops x1 ops w1) as [[rs1 x2] w2] eqn:E2. inversion H; subst; clear H.
    apply run_op_step in E1. destruct E1 as (evs1 & [L1 C1 R1 A1 I1] & _).
    apply IH in E2. destruct E2 as (evs2 & [L2 C2 R2 A2 I2]).
    exists (evs1 ++ evs2). constructor; auto.
    + rewrite L2, L1. now rewrite app_assoc.
    + rewrite wire_app, queued_app, enc_app, <- app_assoc, C2, app_assoc, C1. now rewrite <- app_assoc.
    + congruence.
Qed.

Lemma run_ops_inv ops x w rs x' w' : run_ops x ops w = (rs, x', w') -> Inv x -> Inv x'.
Proof. intros H. apply run_ops_steps in H. destruct H as (evs & Hst). apply Hst. Qed.

(* reachable from a fresh context on an empty log: FIFO accounting (C10's invariant) *)
Lemma run_ops_c10 ops x w rs x' w' :
  run_ops x ops w = (rs, x', w') ->
  wire (w_log w) ++ c_out (x_codec x) = enc (queued (w_log w)) ->
  wire (w_log w') ++ c_out (x_codec x') = enc (queued (w_log w')).
Proof.
  intros H H0. apply run_ops_steps in H. destruct H as (evs & [L C R A I]).
  rewrite L, wire_app, queued_app, enc_app, <- app_assoc, C, app_assoc, H0. reflexivity.
Qed.

Lemma run_ops_pend_close base g ops : forall x w rs x' w',
  run_ops x ops w = (rs, x', w') -> Inv x -> f_opcode g <> OCtl Pong ->
  pend base g x (w_log w) -> pend base g x' (w_log w').
Proof.
  induction ops as [|o ops IH]; intros x w rs x' w' H Hinv Hg Hp.
  - inversion H; subst. exact Hp.
  - rewrite run_ops_cons in H. destruct (run_op x o w) as [[res1 x1] w1] eqn:E1.
    destruct (run_ops x1 ops w1) as [[rs1 x2] w2] eqn:E2. inversion H; subst; clear H.
    eapply IH; [exact E2| |exact Hg|].
    + apply run_op_step in E1. destruct E1 as (evs & Hst & _). now apply Hst.
    + eapply run_op_pend_close; eauto.
Qed.

(* no call of the history replaces the pending pong *)
Fixpoint undisplaced (x : ctx) (ops : list op) (w : world) : Prop :=
  match ops with
  | [] => True
  | o :: r => let '(res, x1, w1) := run_op x o w in ~ displacing o res /\ undisplaced x1 r w1
  end.

Lemma run_ops_pend_pong base g ops : forall x w rs x' w',
  run_ops x ops w = (rs, x', w') -> Inv x -> undisplaced x ops w ->
  pend base g x (w_log w) -> pend base g x' (w_log w').
Proof.
  induction ops as [|o ops IH]; intros x w rs x' w' H Hinv Hu Hp.
  - inversion H; subst. exact Hp.
  - rewrite run_ops_cons in H. cbn [undisplaced] in Hu.
    destruct (run_op x o w) as [[res1 x1] w1] eqn:E1.
    destruct (run_ops x1 ops w1) as [[rs1 x2] w2] eqn:E2. inversion H; subst; clear H.
    destruct Hu as [Hnd Hu].
    eapply IH; [exact E2| |exact Hu|].
    + pose proof E1 as E1'. apply run_op_step in E1'. destruct E1' as (evs & Hst & _). now apply Hst.
    + destruct (run_op_pend base g _ _ _ _ _ _ E1 Hinv Hp) as [?|[_ Hd]]; [assumption|contradiction].
Qed.

(* ------------------------------------------------------------------------------------------ *)
(* 12. liveness: with a transport that accepts, the pending frame reaches the wire             *)
(* ------------------------------------------------------------------------------------------ *)

(* the frame f (as queued: f1) went from the slot to the wire during evs; nothing is left *)
Definition sent_now (x : ctx) (w : world) (x' : ctx) (w' : world) (f : frame) : Prop :=
  exists k evs,
    w_log w' = w_log w ++ evs /\
    queued evs = [mask_for (x_role x) f k] /\
    wire evs = c_out (x_codec x) ++ frame_format (mask_for (x_role x) f k) /\
    x_additional x' = None /\ c_out (x_codec x') = [].

(* the frame is still parked (re-masked), the buffer has been drained *)
Definition parked_drained (x : ctx) (w : world) (x' : ctx) (w' : world) (f : frame) : Prop :=
  exists k evs,
    w_log w' = w_log w ++ evs /\ queued evs = [] /\ wire evs = c_out (x_codec x) /\
    x_additional x' = Some (mask_for (x_role x) f k) /\ c_out (x_codec x') = [] /\
    x_role x' = x_role x /\ c_max_out (x_codec x') = c_max_out (x_codec x) /\
    x_state x' = x_state x.

Lemma app_eq_self_nil {A} (l r : list A) : l ++ r = l -> r = [].
Proof.
  intros H. assert (Hl : length (l ++ r) = length l) by now rewrite H.
  rewrite app_length in Hl. destruct r; [reflexivity|]. cbn in Hl. lia.
Qed.

Lemma write_none_noroom x w f r x1 w1 :
  x_additional x = Some f ->
  c_max_out (x_codec x) < sent_len (x_role x) f + blen (c_out (x_codec x)) ->
  write_ x None w = (r, x1, w1) ->
  exists k, r = ROk false /\ w_log w1 = w_log w /\ w_wrs w1 = w_wrs w /\
    x_additional x1 = Some (mask_for (x_role x) f k) /\
    c_out (x_codec x1) = c_out (x_codec x) /\ c_max_out (x_codec x1) = c_max_out (x_codec x) /\
    c_write_len (x_codec x1) = c_write_len (x_codec x) /\
    x_role x1 = x_role x /\ x_state x1 = x_state x.
Proof.
  intros Hslot Hfull. rewrite write_none_unfold, Hslot.
  destruct (buffer_frame (set_additional_raw x None) f w) as [[rb xb] wb] eqn:Eb.
  apply buffer_frame_spec in Eb.
  destruct Eb as (k & out' & s' & evs & Hx & Hlog & Hrds & Hfls & Hcase). cbv zeta in *.
  cbn [x_role x_codec x_state set_additional_raw] in *.
  destruct Hcase as [(Hr & Hlt & Hout & Hs & Hevs & Hwrs)|(Hle & _)].
  2:{ rewrite frame_len_mask_for in Hle. lia. }
  subst rb. intros H. exists k.
  assert (Hxb : x_additional xb = None) by (subst xb; reflexivity).
  unfold set_additional in H. rewrite Hxb in H.
  unfold server_tail in H. cbn [x_additional set_additional_raw] in H.
  rewrite andb_false_r in H. inversion H; subst r x1 w1; clear H.
  subst xb out' s' evs. rewrite app_nil_r in Hlog. cbn. splits; auto.
Qed.

Lemma write_none_room x w f r x1 w1 wr1 :
  x_additional x = Some f ->
  sent_len (x_role x) f + blen (c_out (x_codec x)) <= c_max_out (x_codec x) ->
  drain (w_wrs w) (blen (c_out (x_codec x)) + sent_len (x_role x) f) = Some wr1 ->
  write_ x None w = (r, x1, w1) ->
  exists k evs,
    w_log w1 = w_log w ++ evs /\ queued evs = [mask_for (x_role x) f k] /\
    x_additional x1 = None /\ x_role x1 = x_role x /\
    ((c_out (x_codec x1) = [] /\ w_wrs w1 = wr1 /\
      wire evs = c_out (x_codec x) ++ frame_format (mask_for (x_role x) f k))
     \/
     ((exists b, r = ROk b) /\ w_wrs w1 = w_wrs w /\ wire evs = [] /\
      c_out (x_codec x1) = c_out (x_codec x) ++ frame_format (mask_for (x_role x) f k))).
Proof.
  intros Hslot Hroom Hdrain. rewrite write_none_unfold, Hslot.
  destruct (buffer_frame (set_additional_raw x None) f w) as [[rb xb] wb] eqn:Eb.
  apply buffer_frame_spec in Eb.
  destruct Eb as (k & out' & s' & evs & Hx & Hlog & Hrds & Hfls & Hcase). cbv zeta in *.
  cbn [x_role x_codec x_state set_additional_raw] in *.
  destruct Hcase as [(Hr & Hlt & _)|(Hle & evs1 & Hevs & Hq1 & Hwire1 & Hccr & Hok & Hdr & Hnw)].
  { rewrite frame_len_mask_for in Hlt. lia. }
  set (f1 := mask_for (x_role x) f k) in *.
  set (full := c_out (x_codec x) ++ frame_format f1) in *.
  assert (Hfull : blen full = blen (c_out (x_codec x)) + sent_len (x_role x) f).
  { unfold full. rewrite blen_app, frame_format_blen. unfold f1. now rewrite frame_len_mask_for. }
  rewrite <- Hfull in Hdrain.
  assert (Hxb : x_additional xb = None /\ x_role xb = x_role x /\ c_out (x_codec xb) = out').
  { subst xb. cbn. auto. }
  destruct Hxb as (Hxb1 & Hxb2 & Hxb3).
  assert (Hrb : rb = ROk tt /\
            ((out' = [] /\ w_wrs wb = wr1 /\ wire evs1 = full) \/
             (out' = full /\ w_wrs wb = w_wrs w /\ evs1 = []))).
  { destruct (N.lt_ge_cases (c_write_len (x_codec x)) (blen full)) as [Hlt|Hge].
    - destruct (Hdr Hlt wr1 Hdrain) as (-> & -> & ->). split; [reflexivity|]. left.
      rewrite app_nil_r in Hwire1. auto.
    - destruct (Hnw Hge) as (-> & -> & -> & ->). auto. }
  destruct Hrb as (-> & Halt). intros H. apply server_tail_spec in H.
  destruct H as (evs2 & Heff2 & Hslot2 & Hq2 & Hfs2 & _ & _ & Htail).
  cbn [x_additional x_role x_codec x_state set_unflushed] in Hslot2, Htail.
  apply (eff_proper (set_unflushed xb true) xb x1 x1 wb w1 evs2 eq_refl eq_refl eq_refl eq_refl eq_refl eq_refl)
    in Heff2.
  exists k, (evs ++ evs2). fold f1.
  rewrite (eff_log _ _ _ _ _ Heff2), Hlog, <- app_assoc.
  rewrite queued_app, wire_app, Hq2, app_nil_r. subst evs. cbn [queued wire]. rewrite Hq1.
  split; [reflexivity|]. split; [reflexivity|]. split; [congruence|].
  split; [rewrite (eff_role _ _ _ _ _ Heff2); exact Hxb2|].
  pose proof (eff_c10 _ _ _ _ _ Heff2) as C2. rewrite Hq2, Hxb3 in C2. cbn in C2.
  rewrite app_nil_r in C2.
  destruct Htail as [(Hr & -> & ->)|(_ & _ & _ & Hnok & _ & _ & Hdr2)].
  - (* no server tail *)
    assert (He2 : evs2 = []).
    { pose proof (eff_log _ _ _ _ _ Heff2) as L2. symmetry in L2. now apply app_eq_self_nil in L2. }
    subst evs2. cbn [wire x_codec set_unflushed]. rewrite ?app_nil_r.
    destruct Halt as [(-> & Hw & Hwi)|(-> & Hw & ->)].
    + left. rewrite Hxb3. auto.
    + right. rewrite Hxb3. splits; eauto.
  - (* server tail: the buffer is drained by it *)
    left. rewrite Hxb3 in Hdr2.
    destruct Halt as [(-> & Hw & Hwi)|(-> & Hw & ->)].
    + change (blen (@nil N)) with 0 in Hdr2.
      destruct (Hdr2 _ (drain_0 _)) as (_ & Hw2 & Ho2). rewrite Ho2 in C2. rewrite app_nil_r in C2.
      rewrite C2, app_nil_r. splits; auto. congruence.
    + rewrite Hw in Hdr2. destruct (Hdr2 _ Hdrain) as (_ & Hw2 & Ho2).
      rewrite Ho2, app_nil_r in C2. cbn. splits; auto.
Qed.

(* the part of flush() after _write(None) *)
Lemma flush_after x w r x' w' r0 x0 w0 :
  write_ x None w = (r0, x0, w0) -> flush x w = (r, x', w') ->
  ((forall b, r0 <> ROk b) /\ x' = x0 /\ w' = w0) \/
  ((exists b, r0 = ROk b) /\ exists evs,
     w_log w' = w_log w0 ++ evs /\ queued evs = [] /\
     wire evs ++ c_out (x_codec x') = c_out (x_codec x0) /\
     x_additional x' = x_additional x0 /\ x_role x' = x_role x0 /\ x_state x' = x_state x0 /\
     c_max_out (x_codec x') = c_max_out (x_codec x0) /\
     (forall wr, drain (w_wrs w0) (blen (c_out (x_codec x0))) = Some wr ->
        c_out (x_codec x') = [] /\ w_wrs w' = wr)).
Proof.
  intros E0. unfold flush. rewrite E0.
  destruct r0 as [b|e|s|]; try (intros H; inversion H; subst; left; splits; auto; intros; discriminate).
  intros H. right. split; [eauto|].
  destruct (write_out_buffer (x_codec x0) w0) as [[r1 c1] w1] eqn:E1.
  apply write_out_buffer_spec in E1.
  destruct E1 as (out' & evs1 & Hc & Hlog & Hrds & Hfls & Hkeys & Hq & Hw & Hio & Hok & Hnil & Hdr).
  destruct r1 as [u|e|s|].
  - destruct u. specialize (Hok eq_refl). subst out'.
    destruct (w_flush w1) as [r2 w2] eqn:E2. apply w_flush_spec in E2.
    destruct E2 as (fe & Hlog2 & Hrds2 & Hwrs2 & Hr2).
    assert (G : forall xx, x_codec xx = c1 -> x_additional xx = x_additional x0 ->
              x_role xx = x_role x0 -> x_state xx = x_state x0 ->
              exists evs,
                w_log w2 = w_log w0 ++ evs /\ queued evs = [] /\
                wire evs ++ c_out (x_codec xx) = c_out (x_codec x0) /\
                x_additional xx = x_additional x0 /\ x_role xx = x_role x0 /\ x_state xx = x_state x0 /\
                c_max_out (x_codec xx) = c_max_out (x_codec x0) /\
                (forall wr, drain (w_wrs w0) (blen (c_out (x_codec x0))) = Some wr ->
                   c_out (x_codec xx) = [] /\ w_wrs w2 = wr)).
    { intros xx Hcx Hax Hrx Hsx. exists (evs1 ++ [EvFlush fe]).
      rewrite Hlog2, Hlog, <- app_assoc, queued_app, wire_app, Hq, Hcx, Hc. cbn.
      rewrite !app_nil_r. rewrite app_nil_r in Hw. splits; auto.
      intros wr Hd. destruct (Hdr _ Hd) as [_ Hw1]. split; [reflexivity|congruence]. }
    destruct r2 as [u2|e2|s2|]; inversion H; subst; apply G; reflexivity.
  - inversion H; subst. exists evs1. cbn. splits; auto.
    intros wr Hd. destruct (Hdr _ Hd) as [Hr _]. discriminate.
  - cbn in Hio. contradiction.
  - cbn in Hio. contradiction.
Qed.

Lemma flush_room x w f r x' w' wr1 :
  x_additional x = Some f ->
  sent_len (x_role x) f + blen (c_out (x_codec x)) <= c_max_out (x_codec x) ->
  drain (w_wrs w) (blen (c_out (x_codec x)) + sent_len (x_role x) f) = Some wr1 ->
  flush x w = (r, x', w') ->
  sent_now x w x' w' f /\ w_wrs w' = wr1.
Proof.
  intros Hslot Hroom Hdrain H.
  destruct (write_ x None w) as [[r0 x0] w0] eqn:E0.
  pose proof (write_none_room _ _ _ _ _ _ _ Hslot Hroom Hdrain E0) as
    (k & evs & Hlog & Hq & Hs0 & Hr0 & Halt).
  destruct (flush_after _ _ _ _ _ _ _ _ E0 H) as
    [(Hnok & -> & ->)|(_ & evs2 & Hlog2 & Hq2 & Hw2 & Hs2 & Hr2 & _ & _ & Hdr2)].
  - destruct Halt as [(Ho & Hw & Hwi)|((b & Hb) & _)]; [|exfalso; eapply Hnok; eauto].
    split; [|exact Hw]. exists k, evs. splits; auto.
  - destruct Halt as [(Ho & Hw & Hwi)|(_ & Hw & Hwi & Ho)].
    + rewrite Ho in Hdr2, Hw2. change (blen (@nil N)) with 0 in Hdr2.
      destruct (Hdr2 _ (drain_0 _)) as (Ho' & Hw'). rewrite Ho', app_nil_r in Hw2.
      split; [|congruence]. exists k, (evs ++ evs2).
      rewrite Hlog2, Hlog, <- app_assoc, queued_app, wire_app, Hq, Hq2, Hw2, Hwi, !app_nil_r.
      splits; auto. congruence.
    + rewrite Ho in Hdr2, Hw2. rewrite Hw in Hdr2.
      assert (Hd : drain (w_wrs w)
                     (blen (c_out (x_codec x) ++ frame_format (mask_for (x_role x) f k))) = Some wr1).
      { rewrite blen_app, frame_format_blen, frame_len_mask_for. exact Hdrain. }
      destruct (Hdr2 _ Hd) as (Ho' & Hw'). rewrite Ho', app_nil_r in Hw2.
      split; [|exact Hw']. exists k, (evs ++ evs2).
      rewrite Hlog2, Hlog, <- app_assoc, queued_app, wire_app, Hq, Hq2, Hw2, Hwi, !app_nil_r.
      splits; auto. congruence.
Qed.

Lemma flush_noroom x w f r x' w' wr1 :
  x_additional x = Some f ->
  c_max_out (x_codec x) < sent_len (x_role x) f + blen (c_out (x_codec x)) ->
  drain (w_wrs w) (blen (c_out (x_codec x))) = Some wr1 ->
  flush x w = (r, x', w') ->
  parked_drained x w x' w' f /\ w_wrs w' = wr1.
Proof.
  intros Hslot Hfull Hdrain H.
  destruct (write_ x None w) as [[r0 x0] w0] eqn:E0.
  pose proof (write_none_noroom _ _ _ _ _ _ Hslot Hfull E0) as
    (k & -> & Hlog & Hwrs & Hs0 & Ho0 & Hm0 & Hl0 & Hr0 & Hst0).
  destruct (flush_after _ _ _ _ _ _ _ _ E0 H) as
    [(Hnok & _)|(_ & evs2 & Hlog2 & Hq2 & Hw2 & Hs2 & Hr2 & Hst2 & Hm2 & Hdr2)].
  { exfalso. eapply Hnok. reflexivity. }
  rewrite Ho0, Hwrs in Hdr2. destruct (Hdr2 _ Hdrain) as (Ho' & Hw').
  rewrite Ho', app_nil_r, Ho0 in Hw2.
  split; [|exact Hw']. exists k, evs2. rewrite Hlog2, Hlog. splits; auto; congruence.
Qed.

(* nothing to send: flush() writes nothing *)
Lemma flush_clean x w r x' w' :
  clean x -> flush x w = (r, x', w') ->
  clean x' /\ exists evs, w_log w' = w_log w ++ evs /\ queued evs = [] /\ wire evs = [].
Proof.
  intros [Hs Ho] H.
  destruct (write_ x None w) as [[r0 x0] w0] eqn:E0.
  pose proof E0 as E0'. rewrite write_none_unfold, Hs in E0'. apply server_tail_spec in E0'.
  destruct E0' as (evs & Heff & Hs0 & Hq & _).
  pose proof (eff_c10 _ _ _ _ _ Heff) as C. rewrite Hq, Ho in C. cbn in C.
  apply app_eq_nil in C. destruct C as [Cw Co].
  destruct (flush_after _ _ _ _ _ _ _ _ E0 H) as
    [(_ & -> & ->)|(_ & evs2 & Hlog2 & Hq2 & Hw2 & Hs2 & _)].
  - split; [split; congruence|]. exists evs. split; [apply Heff|auto].
  - rewrite Co in Hw2. apply app_eq_nil in Hw2. destruct Hw2 as [Hw2 Ho2].
    split; [split; congruence|]. exists (evs ++ evs2).
    rewrite Hlog2, (eff_log _ _ _ _ _ Heff), <- app_assoc, queued_app, wire_app, Hq, Hq2, Cw, Hw2.
    auto.
Qed.

Lemma sent_now_flush x w x1 w1 f r x2 w2 :
  sent_now x w x1 w1 f -> flush x1 w1 = (r, x2, w2) -> sent_now x w x2 w2 f.
Proof.
  intros (k & evs & Hlog & Hq & Hw & Hs & Ho) H.
  destruct (flush_clean x1 w1 r x2 w2 (conj Hs Ho) H) as ([Hs2 Ho2] & evs2 & Hlog2 & Hq2 & Hw2).
  exists k, (evs ++ evs2).
  rewrite Hlog2, Hlog, <- app_assoc, queued_app, wire_app, Hq, Hq2, Hw, Hw2, !app_nil_r. auto.
Qed.

(* the write oracle absorbs the a buffered bytes and the b bytes of the frame, whether they are
   offered together (the frame fitted) or in two calls (the buffer had to drain first) *)
Definition accepts (wrs : list wr_out) (a b : N) : Prop :=
  (exists w1, drain wrs (a + b) = Some w1) /\
  (exists w1 w2, drain wrs a = Some w1 /\ drain w1 b = Some w2).

Lemma one_flush x w f r x' w' :
  x_additional x = Some f ->
  sent_len (x_role x) f + blen (c_out (x_codec x)) <= c_max_out (x_codec x) ->
  (exists w1, drain (w_wrs w) (blen (c_out (x_codec x)) + sent_len (x_role x) f) = Some w1) ->
  flush x w = (r, x', w') -> sent_now x w x' w' f.
Proof. intros Hs Hroom (w1 & Hd) H. eapply flush_room; eauto. Qed.

Lemma two_flush x w f r1 x1 w1 r2 x2 w2 :
  x_additional x = Some f ->
  sent_len (x_role x) f <= c_max_out (x_codec x) ->
  accepts (w_wrs w) (blen (c_out (x_codec x))) (sent_len (x_role x) f) ->
  flush x w = (r1, x1, w1) -> flush x1 w1 = (r2, x2, w2) ->
  sent_now x w x2 w2 f.
Proof.
  intros Hs Hfit [(wa & Hda) (wb & wc & Hdb & Hdc)] H1 H2.
  destruct (N.le_gt_cases (sent_len (x_role x) f + blen (c_out (x_codec x))) (c_max_out (x_codec x)))
    as [Hroom|Hfull].
  - eapply sent_now_flush; [|exact H2]. eapply flush_room; eauto.
  - destruct (flush_noroom _ _ _ _ _ _ _ Hs Hfull Hdb H1) as
      ((k1 & evs1 & Hlog1 & Hq1 & Hw1 & Hs1 & Ho1 & Hr1 & Hm1 & Hst1) & Hwrs1).
    assert (Hroom2 : sent_len (x_role x1) (mask_for (x_role x) f k1) + blen (c_out (x_codec x1))
                     <= c_max_out (x_codec x1)).
    { rewrite Hr1, sent_len_mask_for, Ho1, Hm1. change (blen (@nil N)) with 0. lia. }
    assert (Hd2 : drain (w_wrs w1) (blen (c_out (x_codec x1)) +
                                    sent_len (x_role x1) (mask_for (x_role x) f k1)) = Some wc).
    { rewrite Hr1, sent_len_mask_for, Ho1, Hwrs1. change (blen (@nil N)) with 0.
      rewrite N.add_0_l. exact Hdc. }
    destruct (flush_room _ _ _ _ _ _ _ Hs1 Hroom2 Hd2 H2) as
      ((k2 & evs2 & Hlog2 & Hq2 & Hw2 & Hs2 & Ho2) & _).
    rewrite Hr1, mask_for_twice, Ho1 in *. cbn [app] in Hw2.
    exists k2, (evs1 ++ evs2).
    rewrite Hlog2, Hlog1, <- app_assoc, queued_app, wire_app, Hq1, Hq2, Hw1, Hw2. auto.
Qed.


(* sufficient conditions on the oracle *)
Definition generous (n : N) (o : wr_out) : Prop := exists k, o = WrAccept k /\ n <= k.
Definition positive (o : wr_out) : Prop := exists k, o = WrAccept k /\ 0 < k.

Lemma sent_len_pos r f : 2 <= sent_len r f.
Proof. unfold sent_len, frame_len, header_len. lia. Qed.

Lemma drain_whole k r n : 0 < n -> n <= k -> drain (WrAccept k :: r) n = Some r.
Proof.
  intros Hn Hk. cbn [drain]. destruct (n =? 0) eqn:E0; [lia|].
  replace (N.min k n) with n by lia. destruct (n =? 0) eqn:E1; [lia|].
  rewrite N.sub_diag. apply drain_0.
Qed.

(* every entry accepts a whole write call: two entries are enough *)
Lemma accepts_generous wrs a b :
  Forall (generous (a + b)) wrs -> (2 <= length wrs)%nat -> 0 < b -> accepts wrs a b.
Proof.
  intros Hall Hlen Hb.
  destruct wrs as [|o1 [|o2 wrs]]; cbn [length] in Hlen; try lia.
  inversion Hall as [|? ? (k1 & -> & Hk1) Hall']; subst.
  inversion Hall' as [|? ? (k2 & -> & Hk2) _]; subst.
  split.
  - eexists. apply drain_whole; lia.
  - destruct (N.eq_dec a 0) as [->|Ha].
    + exists (WrAccept k1 :: WrAccept k2 :: wrs), (WrAccept k2 :: wrs).
      split; [apply drain_0|apply drain_whole; lia].
    + exists (WrAccept k2 :: wrs), wrs. split; apply drain_whole; lia.
Qed.

Lemma drain_positive wrs : forall n,
  Forall positive wrs -> n <= blen wrs ->
  exists w1, drain wrs n = Some w1 /\ Forall positive w1 /\ blen wrs - n <= blen w1.
Proof.
  induction wrs as [|o wrs IH]; intros n Hall Hn.
  - unfold blen in Hn. cbn [length] in Hn. assert (n = 0) by lia. subst.
    exists []. cbn. auto.
  - destruct (N.eq_dec n 0) as [->|Hn0].
    + exists (o :: wrs). rewrite drain_0. splits; auto. lia.
    + inversion Hall as [|? ? (k & -> & Hk) Hall']; subst.
      cbn [drain]. destruct (n =? 0) eqn:E0; [lia|].
      destruct (N.min k n =? 0) eqn:E1; [lia|].
      assert (Hle : n - N.min k n <= blen wrs).
      { unfold blen in *. cbn [length] in Hn. lia. }
      destruct (IH _ Hall' Hle) as (w1 & Hd & Hp & Hl).
      exists w1. splits; auto. unfold blen in *. cbn [length]. lia.
Qed.

(* every entry accepts at least one byte: as many entries as there are bytes are enough *)
Lemma accepts_positive wrs a b :
  Forall positive wrs -> a + b <= blen wrs -> accepts wrs a b.
Proof.
  intros Hall Hlen. split.
  - destruct (drain_positive wrs (a + b) Hall Hlen) as (w1 & Hd & _). eauto.
  - destruct (drain_positive wrs a Hall) as (w1 & Hd1 & Hp1 & Hl1); [lia|].
    destruct (drain_positive w1 b Hp1) as (w2 & Hd2 & _); [lia|]. eauto.
Qed.

(* flush-like calls: flush(), and close() once the connection is no longer Active *)
Definition flushlike (o : op) : Prop := o = OpFlush \/ exists c, o = OpClose c.

Lemma run_op_flushlike x o w res x' w' :
  flushlike o -> x_state x <> Active -> run_op x o w = (res, x', w') ->
  exists r, res = ResUnit r /\ flush x w = (r, x', w').
Proof.
  intros [->|(c & ->)] Hna; cbn [run_op].
  - destruct (flush x w) as [[r x1] w1]. intros H; inversion H; subst. eauto.
  - rewrite close_eq. unfold close_start. destruct (x_state x) eqn:Es; [congruence|..];
      destruct (flush x w) as [[r x1] w1]; intros H; inversion H; subst; eauto.
Qed.

Lemma flush_state_na x w r x' w' : flush x w = (r, x', w') -> x_state x <> Active -> x_state x' <> Active.
Proof.
  intros H Hna Ha. apply flush_spec in H. destruct H as (evs & Heff & _).
  apply Hna. now apply (eff_act _ _ _ _ _ Heff).
Qed.

(* C13_eventually_sent, calls = flush / close *)
Lemma two_calls_send x w f o1 o2 res1 x1 w1 res2 x2 w2 :
  x_additional x = Some f -> x_state x <> Active ->
  sent_len (x_role x) f <= c_max_out (x_codec x) ->
  accepts (w_wrs w) (blen (c_out (x_codec x))) (sent_len (x_role x) f) ->
  flushlike o1 -> flushlike o2 ->
  run_op x o1 w = (res1, x1, w1) -> run_op x1 o2 w1 = (res2, x2, w2) ->
  sent_now x w x2 w2 f.
Proof.
  intros Hs Hna Hfit Hacc Ho1 Ho2 H1 H2.
  destruct (run_op_flushlike _ _ _ _ _ _ Ho1 Hna H1) as (r1 & _ & F1).
  pose proof (flush_state_na _ _ _ _ _ F1 Hna) as Hna1.
  destruct (run_op_flushlike _ _ _ _ _ _ Ho2 Hna1 H2) as (r2 & _ & F2).
  eapply two_flush; eauto.
Qed.

Lemma one_call_sends x w f o res x' w' :
  x_additional x = Some f -> x_state x <> Active ->
  sent_len (x_role x) f + blen (c_out (x_codec x)) <= c_max_out (x_codec x) ->
  (exists w1, drain (w_wrs w) (blen (c_out (x_codec x)) + sent_len (x_role x) f) = Some w1) ->
  flushlike o -> run_op x o w = (res, x', w') ->
  sent_now x w x' w' f.
Proof.
  intros Hs Hna Hroom Hd Ho H.
  destruct (run_op_flushlike _ _ _ _ _ _ Ho Hna H) as (r1 & _ & F1).
  eapply one_flush; eauto.
Qed.

(* nothing in the slot: one flush() drains the buffer *)
Lemma flush_drains x w r x' w' wr1 :
  x_additional x = None -> drain (w_wrs w) (blen (c_out (x_codec x))) = Some wr1 ->
  flush x w = (r, x', w') ->
  clean x' /\ exists evs, w_log w' = w_log w ++ evs /\ queued evs = [] /\ wire evs = c_out (x_codec x).
Proof.
  intros Hs Hd H.
  destruct (write_ x None w) as [[r0 x0] w0] eqn:E0.
  pose proof E0 as E0'. rewrite write_none_unfold, Hs in E0'. apply server_tail_spec in E0'.
  destruct E0' as (evs & Heff & Hs0 & Hq & _ & _ & _ & Htail).
  pose proof (eff_c10 _ _ _ _ _ Heff) as C. rewrite Hq in C. cbn in C. rewrite app_nil_r in C.
  destruct (flush_after _ _ _ _ _ _ _ _ E0 H) as
    [(Hnok & -> & ->)|((b & Hb) & evs2 & Hlog2 & Hq2 & Hw2 & Hs2 & _ & _ & _ & Hdr2)].
  - destruct Htail as [(Hr & _)|(_ & _ & _ & _ & _ & _ & Hdr)].
    { exfalso. eapply Hnok. eauto. }
    destruct (Hdr _ Hd) as (_ & _ & Ho). rewrite Ho, app_nil_r in C.
    split; [split; congruence|]. exists evs. split; [apply Heff|auto].
  - destruct Htail as [(Hr & -> & ->)|(_ & _ & _ & Hnok & _)]; [|exfalso; eapply Hnok; eauto].
    destruct (Hdr2 _ Hd) as (Ho & _). rewrite Ho, app_nil_r in Hw2.
    split; [split; congruence|]. exists evs2. auto.
Qed.

(* what the transport must accept for the pending data of x to go out *)
Definition transport_accepts (x : ctx) (w : world) : Prop :=
  match x_additional x with
  | Some f => sent_len (x_role x) f <= c_max_out (x_codec x) /\
              accepts (w_wrs w) (blen (c_out (x_codec x))) (sent_len (x_role x) f)
  | None => exists w1, drain (w_wrs w) (blen (c_out (x_codec x))) = Some w1
  end.

(* FIFO accounting (C10's invariant) *)
Definition fifo (x : ctx) (w : world) : Prop :=
  wire (w_log w) ++ c_out (x_codec x) = enc (queued (w_log w)).

(* g was queued after `base` and every queued frame is entirely on the wire *)
Definition on_wire (base : list frame) (g : frame) (x : ctx) (w : world) : Prop :=
  clean x /\ wire (w_log w) = enc (queued (w_log w)) /\
  exists pre f post, queued (w_log w) = pre ++ f :: post /\ strip f = g /\
                     (length base <= length pre)%nat.

Lemma two_flush_delivers base g x w r1 x1 w1 r2 x2 w2 :
  fifo x w -> pend base g x (w_log w) -> transport_accepts x w ->
  flush x w = (r1, x1, w1) -> flush x1 w1 = (r2, x2, w2) ->
  on_wire base g x2 w2.
Proof.
  unfold fifo, transport_accepts. intros Hfifo (new & Hq & Hp) Hta H1 H2.
  destruct (x_additional x) as [f|] eqn:Hs.
  - destruct Hta as [Hfit Hacc].
    destruct (two_flush _ _ _ _ _ _ _ _ _ Hs Hfit Hacc H1 H2) as (k & evs & Hlog & Hqe & Hwe & Hs2 & Ho2).
    split; [split; assumption|].
    rewrite Hlog, wire_app, queued_app, enc_app, Hwe, Hqe, app_assoc, Hfifo.
    split; [unfold enc; cbn; now rewrite app_nil_r|].
    rewrite Hq.
    destruct Hp as [(f0 & Hf0 & Hsg)|(f0 & Hin & Hsg)].
    + inversion Hf0; subst f0. exists (base ++ new), (mask_for (x_role x) f k), [].
      rewrite strip_mask_for. splits; auto. rewrite app_length. lia.
    + apply in_split in Hin. destruct Hin as (l1 & l2 & ->).
      exists (base ++ l1), f0, (l2 ++ [mask_for (x_role x) f k]).
      splits; auto. * now rewrite <- !app_assoc. * rewrite app_length. lia.
  - destruct Hta as (wr1 & Hd).
    destruct (flush_drains _ _ _ _ _ _ Hs Hd H1) as (Hc1 & evs1 & Hlog1 & Hq1 & Hw1).
    destruct (flush_clean _ _ _ _ _ Hc1 H2) as (Hc2 & evs2 & Hlog2 & Hq2 & Hw2).
    split; [exact Hc2|].
    rewrite Hlog2, Hlog1, !wire_app, !queued_app, Hq1, Hq2, Hw1, Hw2, !app_nil_r.
    split; [exact Hfifo|].
    destruct Hp as [(f0 & Hf0 & _)|(f0 & Hin & Hsg)]; [discriminate|].
    apply in_split in Hin. destruct Hin as (l1 & l2 & ->).
    exists (base ++ l1), f0, l2. rewrite Hq. splits; auto.
    + now rewrite <- app_assoc. + rewrite app_length. lia.
Qed.

(* one call is enough when the frame fits behind what is already buffered *)
Lemma one_flush_delivers base g x w r1 x1 w1 :
  fifo x w -> pend base g x (w_log w) ->
  match x_additional x with
  | Some f => sent_len (x_role x) f + blen (c_out (x_codec x)) <= c_max_out (x_codec x) /\
              exists wr, drain (w_wrs w) (blen (c_out (x_codec x)) + sent_len (x_role x) f) = Some wr
  | None => exists wr, drain (w_wrs w) (blen (c_out (x_codec x))) = Some wr
  end ->
  flush x w = (r1, x1, w1) ->
  on_wire base g x1 w1.
Proof.
  unfold fifo. intros Hfifo (new & Hq & Hp) Hta H1.
  destruct (x_additional x) as [f|] eqn:Hs.
  - destruct Hta as [Hroom Hd].
    destruct (one_flush _ _ _ _ _ _ Hs Hroom Hd H1) as (k & evs & Hlog & Hqe & Hwe & Hs2 & Ho2).
    split; [split; assumption|].
    rewrite Hlog, wire_app, queued_app, enc_app, Hwe, Hqe, app_assoc, Hfifo.
    split; [unfold enc; cbn; now rewrite app_nil_r|].
    rewrite Hq.
    destruct Hp as [(f0 & Hf0 & Hsg)|(f0 & Hin & Hsg)].
    + inversion Hf0; subst f0. exists (base ++ new), (mask_for (x_role x) f k), [].
      rewrite strip_mask_for. splits; auto. rewrite app_length. lia.
    + apply in_split in Hin. destruct Hin as (l1 & l2 & ->).
      exists (base ++ l1), f0, (l2 ++ [mask_for (x_role x) f k]).
      splits; auto. * now rewrite <- !app_assoc. * rewrite app_length. lia.
  - destruct Hta as (wr1 & Hd).
    destruct (flush_drains _ _ _ _ _ _ Hs Hd H1) as (Hc1 & evs1 & Hlog1 & Hq1 & Hw1).
    split; [exact Hc1|].
    rewrite Hlog1, !wire_app, !queued_app, Hq1, Hw1, !app_nil_r.
    split; [exact Hfifo|].
    destruct Hp as [(f0 & Hf0 & _)|(f0 & Hin & Hsg)]; [discriminate|].
    apply in_split in Hin. destruct Hin as (l1 & l2 & ->).
    exists (base ++ l1), f0, l2. rewrite Hq. splits; auto.
    + now rewrite <- app_assoc. + rewrite app_length. lia.
Qed.

(* ------------------------------------------------------------------------------------------ *)
(* 13. reachable states and the C13 statements                                                 *)
(* ------------------------------------------------------------------------------------------ *)

(* any state an endpoint can be in: any role, any valid configuration, any pre-read bytes, any
   history of API calls (raw frames included), any transport oracle *)
Definition reachable (x : ctx) (w : world) : Prop :=
  exists role part cfg x0 w0 ops rs,
    ctx_new role part cfg = Some x0 /\ w_log w0 = [] /\ run_ops x0 ops w0 = (rs, x, w).

Lemma fifo_new r part cfg x w : ctx_new r part cfg = Some x -> w_log w = [] -> fifo x w.
Proof.
  unfold ctx_new, fifo. destruct (config_valid cfg); [|discriminate].
  intros H Hl; inversion H; subst. rewrite Hl. reflexivity.
Qed.

Lemma reachable_inv x w : reachable x w -> Inv x /\ fifo x w.
Proof.
  intros (role & part & cfg & x0 & w0 & ops & rs & Hn & Hl & Hr). split.
  - eapply run_ops_inv; [exact Hr|]. eapply Inv_new; eauto.
  - eapply run_ops_c10; [exact Hr|]. eapply fifo_new; eauto.
Qed.

Lemma reachable_ops x w ops rs x' w' :
  reachable x w -> run_ops x ops w = (rs, x', w') -> reachable x' w'.
Proof.
  intros (role & part & cfg & x0 & w0 & ops0 & rs0 & Hn & Hl & Hr) H.
  exists role, part, cfg, x0, w0, (ops0 ++ ops), (rs0 ++ rs). splits; auto.
  rewrite run_ops_app, Hr, H. reflexivity.
Qed.

Lemma reachable_op x w o res x' w' :
  reachable x w -> run_op x o w = (res, x', w') -> reachable x' w'.
Proof.
  intros Hr H. apply (reachable_ops x w [o] [(res, blen (w_log w'))]); [exact Hr|].
  cbn [run_ops]. rewrite H. reflexivity.
Qed.

Lemma reachable_new r part cfg x w : ctx_new r part cfg = Some x -> w_log w = [] -> reachable x w.
Proof. intros Hn Hl. exists r, part, cfg, x, w, [], []. splits; auto. Qed.

(* close(code) and write(Message::Close(code)) *)
Definition close_op (o : op) (code : option close_frame) : Prop :=
  o = OpClose code \/ o = OpWrite (MClose code).

Lemma run_op_close_active x o code w res x' w' :
  close_op o code -> x_state x = Active -> run_op x o w = (res, x', w') ->
  pend (queued (w_log w)) (frame_close code) x' (w_log w') /\ x_state x' = ClosedByUs.
Proof.
  intros [->| ->] Hact; cbn [run_op].
  - destruct (close x code w) as [[r x1] w1] eqn:E. intros H; inversion H; subst.
    eapply close_active_pend; eauto.
  - unfold write. rewrite Hact. cbn [is_terminated is_active negb].
    destruct (close x code w) as [[r x1] w1] eqn:E. intros H; inversion H; subst.
    eapply close_active_pend; eauto.
Qed.

Lemma close_opcode code : f_opcode (frame_close code) <> OCtl Pong.
Proof. discriminate. Qed.

(* pending, spelled out with the FIFO accounting: in the slot, or at a definite place of
   (bytes accepted by the transport ++ write buffer) *)
Lemma pend_accounted base g x w :
  fifo x w -> pend base g x (w_log w) ->
  (exists f, x_additional x = Some f /\ strip f = g) \/
  (exists pre f post, queued (w_log w) = pre ++ f :: post /\ strip f = g /\
     (length base <= length pre)%nat /\
     wire (w_log w) ++ c_out (x_codec x) = enc pre ++ frame_format f ++ enc post).
Proof.
  unfold fifo. intros Hf (new & Hq & [Hs|(f & Hin & Hs)]); [now left|right].
  apply in_split in Hin. destruct Hin as (l1 & l2 & ->).
  exists (base ++ l1), f, l2. rewrite Hf, Hq. splits; auto.
  - now rewrite <- app_assoc.
  - rewrite app_length. lia.
  - rewrite app_assoc, enc_app. unfold enc at 2. cbn [map concat]. reflexivity.
Qed.

(* --- C13_close_pending --- *)
Lemma close_pending x w o code res x1 w1 :
  reachable x w -> x_state x = Active -> close_op o code ->
  run_op x o w = (res, x1, w1) ->
  pend (queued (w_log w)) (frame_close code) x1 (w_log w1) /\
  forall ops rs x2 w2, run_ops x1 ops w1 = (rs, x2, w2) ->
    pend (queued (w_log w)) (frame_close code) x2 (w_log w2) /\ fifo x2 w2.
Proof.
  intros Hr Hact Hop H.
  destruct (run_op_close_active _ _ _ _ _ _ _ Hop Hact H) as [Hp _].
  split; [exact Hp|]. intros ops rs x2 w2 H2.
  pose proof (reachable_op _ _ _ _ _ _ Hr H) as Hr1.
  split.
  - eapply run_ops_pend_close; eauto. + apply (reachable_inv _ _ Hr1). + apply close_opcode.
  - apply (reachable_inv x2 w2). eapply reachable_ops; eauto.
Qed.

(* --- C13_reply_pending --- *)
Lemma reply_pending_close x w c x1 w1 :
  reachable x w -> x_state x = Active ->
  run_op x OpRead w = (ResMsg (ROk (MClose c)), x1, w1) ->
  x_additional x1 = Some (frame_close c) /\ x_state x1 = ClosedByPeer /\
  forall ops rs x2 w2, run_ops x1 ops w1 = (rs, x2, w2) ->
    pend (queued (w_log w1)) (frame_close c) x2 (w_log w2) /\ fifo x2 w2.
Proof.
  intros Hr Hact H. pose proof (reachable_op _ _ _ _ _ _ Hr H) as Hr1.
  cbn [run_op] in H. destruct (read x w) as [[r x'] w'] eqn:E. inversion H; subst; clear H.
  destruct (read_reply _ _ _ _ _ E (proj1 (reachable_inv _ _ Hr)) Hact) as [Hc _].
  destruct (Hc c eq_refl) as [Hs Hst]. splits; auto.
  intros ops rs x2 w2 H2. split.
  - eapply run_ops_pend_close; [exact H2|apply (reachable_inv _ _ Hr1)|apply close_opcode|].
    eapply pend_slot; eauto.
  - apply (reachable_inv x2 w2). eapply reachable_ops; eauto.
Qed.

Lemma reply_pending_pong x w p x1 w1 :
  reachable x w -> x_state x = Active ->
  run_op x OpRead w = (ResMsg (ROk (MPing p)), x1, w1) ->
  x_additional x1 = Some (frame_pong p) /\
  forall ops rs x2 w2, run_ops x1 ops w1 = (rs, x2, w2) -> undisplaced x1 ops w1 ->
    pend (queued (w_log w1)) (frame_pong p) x2 (w_log w2) /\ fifo x2 w2.
Proof.
  intros Hr Hact H. pose proof (reachable_op _ _ _ _ _ _ Hr H) as Hr1.
  cbn [run_op] in H. destruct (read x w) as [[r x'] w'] eqn:E. inversion H; subst; clear H.
  destruct (read_reply _ _ _ _ _ E (proj1 (reachable_inv _ _ Hr)) Hact) as [_ Hp].
  destruct (Hp p eq_refl) as [Hs Hst]. splits; auto.
  intros ops rs x2 w2 H2 Hu. split.
  - eapply run_ops_pend_pong; [exact H2|apply (reachable_inv _ _ Hr1)|exact Hu|].
    eapply pend_slot; eauto.
  - apply (reachable_inv x2 w2). eapply reachable_ops; eauto.
Qed.

(* --- C13_eventually_sent --- *)
(* calls that push pending data out: flush() in any state, close() once no longer Active *)
Definition flush_call (x : ctx) (o : op) : Prop :=
  o = OpFlush \/ (x_state x <> Active /\ exists c, o = OpClose c).

Lemma run_op_flush_call x o w res x' w' :
  flush_call x o -> run_op x o w = (res, x', w') ->
  exists r, res = ResUnit r /\ flush x w = (r, x', w').
Proof.
  intros [->|(Hna & c & ->)] H.
  - cbn [run_op] in H. destruct (flush x w) as [[r x1] w1]. inversion H; subst. eauto.
  - eapply run_op_flushlike; eauto. right; eauto.
Qed.

Lemma eventually_sent_two x w base g o1 o2 res1 x1 w1 res2 x2 w2 :
  reachable x w -> pend base g x (w_log w) -> transport_accepts x w ->
  flush_call x o1 -> run_op x o1 w = (res1, x1, w1) ->
  flush_call x1 o2 -> run_op x1 o2 w1 = (res2, x2, w2) ->
  on_wire base g x2 w2.
Proof.
  intros Hr Hp Hta Ho1 H1 Ho2 H2.
  destruct (run_op_flush_call _ _ _ _ _ _ Ho1 H1) as (r1 & _ & F1).
  destruct (run_op_flush_call _ _ _ _ _ _ Ho2 H2) as (r2 & _ & F2).
  eapply two_flush_delivers; eauto. apply (reachable_inv _ _ Hr).
Qed.

Lemma eventually_sent_one x w base g o1 res1 x1 w1 :
  reachable x w -> pend base g x (w_log w) ->
  match x_additional x with
  | Some f => sent_len (x_role x) f + blen (c_out (x_codec x)) <= c_max_out (x_codec x) /\
              exists wr, drain (w_wrs w) (blen (c_out (x_codec x)) + sent_len (x_role x) f) = Some wr
  | None => exists wr, drain (w_wrs w) (blen (c_out (x_codec x))) = Some wr
  end ->
  flush_call x o1 -> run_op x o1 w = (res1, x1, w1) ->
  on_wire base g x1 w1.
Proof.
  intros Hr Hp Hta Ho1 H1.
  destruct (run_op_flush_call _ _ _ _ _ _ Ho1 H1) as (r1 & _ & F1).
  eapply one_flush_delivers; eauto. apply (reachable_inv _ _ Hr).
Qed.

(* a parked Close frame means the connection is no longer Active, so close() is a flush call *)
Lemma close_parked_not_active x w f :
  reachable x w -> x_additional x = Some f -> f_opcode f = OCtl Close -> x_state x <> Active.
Proof.
  intros Hr Hs Ho Ha. pose proof (proj1 (reachable_inv _ _ Hr) Ha f Hs) as Hp. congruence.
Qed.

Lemma flush_call_stays x o w res x' w' c :
  flush_call x o -> x_state x <> Active -> run_op x o w = (res, x', w') -> flush_call x' (OpClose c).
Proof.
  intros Ho Hna H. destruct (run_op_flush_call _ _ _ _ _ _ Ho H) as (r & _ & F).
  right. split; [eapply flush_state_na; eauto|eauto].
Qed.

(* the two readable oracle conditions *)
Lemma transport_accepts_generous x w :
  match x_additional x with
  | Some f => sent_len (x_role x) f <= c_max_out (x_codec x) /\
              Forall (generous (blen (c_out (x_codec x)) + sent_len (x_role x) f)) (w_wrs w) /\
              (2 <= length (w_wrs w))%nat
  | None => exists k r, w_wrs w = WrAccept k :: r /\ blen (c_out (x_codec x)) <= k
  end -> transport_accepts x w.
Proof.
  unfold transport_accepts. destruct (x_additional x) as [f|].
  - intros (Hfit & Hall & Hlen). split; [exact Hfit|]. apply accepts_generous; auto.
    pose proof (sent_len_pos (x_role x) f). lia.
  - intros (k & r & -> & Hk). destruct (N.eq_dec (blen (c_out (x_codec x))) 0) as [->|Hn].
    + eexists. apply drain_0.
    + eexists. apply drain_whole; lia.
Qed.

Lemma transport_accepts_positive x w :
  Forall positive (w_wrs w) ->
  match x_additional x with
  | Some f => sent_len (x_role x) f <= c_max_out (x_codec x) /\
              blen (c_out (x_codec x)) + sent_len (x_role x) f <= blen (w_wrs w)
  | None => blen (c_out (x_codec x)) <= blen (w_wrs w)
  end -> transport_accepts x w.
Proof.
  unfold transport_accepts. intros Hall. destruct (x_additional x) as [f|].
  - intros (Hfit & Hlen). split; [exact Hfit|]. now apply accepts_positive.
  - intros Hlen. destruct (drain_positive _ _ Hall Hlen) as (w1 & Hd & _). eauto.
Qed.

(* --- C13_no_early_close --- *)
Lemma no_early_close x o w res x' w' :
  run_op x o w = (res, x', w') -> res_closed res ->
  exists evs, w_log w' = w_log w ++ evs /\
    ((x_additional x' = None /\ c_out (x_codec x') = []) \/ transport_ended evs).
Proof.
  intros H Hc. apply run_op_step in H. destruct H as (evs & Hst & Hcl).
  exists evs. split; [apply Hst|]. exact (Hcl Hc).
Qed.

(* ------------------------------------------------------------------------------------------ *)
(* 14. read() as the call that pushes the pending frame out                                    *)
(* ------------------------------------------------------------------------------------------ *)

Lemma process_frame_cant_read x1 f w1 :
  can_read (x_state x1) = false ->
  process_frame x1 f w1 = (RErr (EProtocol ReceivedAfterClosing), x1, w1).
Proof. intros H. unfold process_frame. cbv zeta. rewrite H. reflexivity. Qed.

(* once reading is over, read_message_frame never returns Ok *)
Lemma rmf_cant_read x w r x' w' :
  can_read (x_state x) = false -> read_message_frame x w = (r, x', w') -> forall m, r <> ROk m.
Proof.
  intros Hcr. rewrite rmf_unfold.
  destruct (read_frame _ _ _ _ _) as [[r0 c1] w1].
  destruct (check_connection_reset r0 (x_state x)) as [r0' s1] eqn:Ec. cbv zeta.
  apply ccr_cases in Ec.
  assert (Hs1 : can_read s1 = false) by (destruct Ec as [[_ ->]|(_ & _ & _ & ->)]; auto).
  destruct r0' as [[f|]|e|s|]; cbn [x_state set_state].
  - rewrite process_frame_cant_read by exact Hs1. intros H; inversion H; discriminate.
  - destruct s1; intros H; inversion H; discriminate.
  - intros H; inversion H; discriminate.
  - intros H; inversion H; discriminate.
  - intros H; inversion H; discriminate.
Qed.

Lemma can_read_terminated s : s = Terminated -> can_read s = false.
Proof. intros ->. reflexivity. Qed.

(* read() ends in Terminated only if it started there, nothing is left to send, or the transport ended *)
Lemma read_loop_term fuel : forall x w r x' w',
  read_loop fuel x w = (r, x', w') ->
  exists evs, w_log w' = w_log w ++ evs /\ term_ok x x' evs.
Proof.
  induction fuel as [|fuel IH]; intros x w r x' w' H.
  - cbn in H. inversion H; subst. exists []. split; [now rewrite app_nil_r|]. intros Ht; now left.
  - rewrite read_loop_unfold in H.
    destruct (read_pre x w) as [[r0 x0] w0] eqn:Ep. apply read_pre_spec in Ep.
    destruct Ep as (evs0 & Heff0 & Hk0 & Hps0 & Hcl0 & Hterm0).
    destruct r0 as [u|e|s|]; try (inversion H; subst; exists evs0; split; [apply Heff0|exact Hterm0]).
    destruct (read_message_frame x0 w0) as [[r1 x1] w1] eqn:Em.
    pose proof Em as Em'. apply rmf_spec in Em'.
    destruct Em' as (evs1 & Heff1 & Hq1 & Hw1 & Ho1 & Hwrs1 & Hfls1 & Hcl1 & Hcases1).
    assert (Hlog01 : w_log w1 = w_log w ++ (evs0 ++ evs1)).
    { rewrite (eff_log _ _ _ _ _ Heff1), (eff_log _ _ _ _ _ Heff0). now rewrite app_assoc. }
    (* if x1 is Terminated and this iteration did not end the transport, x0 was Terminated *)
    assert (Hback : x_state x1 = Terminated -> x_state x0 = Terminated \/ transport_ended evs1).
    { intros Ht. destruct Hcases1 as [(_ & [Hs|(_ & He & _)] & _)|[(_ & p & _ & Hs & _)|[(_ & c & _ & Hs & _)|(_ & c & _ & Hs & _)]]];
        try congruence; [left; congruence|now right]. }
    assert (Hslot1 : x_state x0 = Terminated -> x_additional x1 = x_additional x0).
    { intros Ht. destruct Hcases1 as [(Ha & _)|[(Hs & _)|[(Hs & _)|(Hs & _)]]]; congruence. }
    assert (Hret : x_state x1 = Terminated ->
                   x_state x = Terminated \/ clean x1 \/ transport_ended (evs0 ++ evs1)).
    { intros Ht. destruct (Hback Ht) as [Ht0|He]; [|right; right; now apply ended_app_r].
      destruct (Hterm0 Ht0) as [?|[[Hs Ho]|?]]; [now left| |right; right; now apply ended_app_l].
      right; left. split; [rewrite (Hslot1 Ht0); exact Hs|congruence]. }
    destruct r1 as [[m|]|e|s|]; try (inversion H; subst; exists (evs0 ++ evs1); split; [exact Hlog01|exact Hret]).
    apply IH in H. destruct H as (evs2 & Hlog2 & Hterm2).
    exists ((evs0 ++ evs1) ++ evs2). split; [rewrite Hlog2, Hlog01, <- !app_assoc; reflexivity|].
    intros Ht. destruct (Hterm2 Ht) as [Ht1|[?|?]]; [|now (right; left)|right; right; now apply ended_app_r].
    (* x1 Terminated while the loop went on: impossible unless the transport ended just now *)
    destruct (Hback Ht1) as [Ht0|He]; [|right; right; apply ended_app_l; now apply ended_app_r].
    exfalso. eapply (rmf_cant_read x0 w0); [now apply can_read_terminated|exact Em|reflexivity].
Qed.

(* progress states: P0 (pending, transport accepts), Pmid (parked, buffer drained), on_wire (done) *)
Definition P0 (base : list frame) (g : frame) (x : ctx) (w : world) : Prop :=
  fifo x w /\ pend base g x (w_log w) /\ transport_accepts x w.

Definition Pmid (base : list frame) (g : frame) (x : ctx) (w : world) : Prop :=
  fifo x w /\ pend base g x (w_log w) /\ c_out (x_codec x) = [] /\
  exists f, x_additional x = Some f /\ sent_len (x_role x) f <= c_max_out (x_codec x) /\
            exists wr, drain (w_wrs w) (sent_len (x_role x) f) = Some wr.

Lemma flush_Pmid base g x w r x' w' :
  Pmid base g x w -> flush x w = (r, x', w') -> on_wire base g x' w'.
Proof.
  intros (Hf & Hp & Ho & f & Hs & Hfit & wr & Hd) H.
  eapply one_flush_delivers; eauto. rewrite Hs, Ho. change (blen (@nil N)) with 0.
  rewrite N.add_0_l. split; [lia|eauto].
Qed.

Lemma flush_P0 base g x w r x' w' :
  P0 base g x w -> flush x w = (r, x', w') -> on_wire base g x' w' \/ Pmid base g x' w'.
Proof.
  intros (Hf & Hp & Hta) H. unfold transport_accepts in Hta.
  destruct (x_additional x) as [f|] eqn:Hs.
  - destruct Hta as (Hfit & (wa & Hda) & (wb & wc & Hdb & Hdc)).
    destruct (N.le_gt_cases (sent_len (x_role x) f + blen (c_out (x_codec x))) (c_max_out (x_codec x)))
      as [Hroom|Hfull].
    + left. eapply one_flush_delivers; eauto. rewrite Hs. eauto.
    + right.
      destruct (flush_noroom _ _ _ _ _ _ _ Hs Hfull Hdb H) as
        ((k1 & evs1 & Hlog1 & Hq1 & Hw1 & Hs1 & Ho1 & Hr1 & Hm1 & Hst1) & Hwrs1).
      unfold Pmid, fifo in *. rewrite Hlog1, wire_app, queued_app, Hq1, Hw1, Ho1, !app_nil_r.
      split; [exact Hf|]. split.
      * destruct Hp as (new & Hq & Hp). exists new. rewrite queued_app, Hq1, app_nil_r.
        split; [exact Hq|]. destruct Hp as [(f0 & Hf0 & Hsg)|Hin]; [|now right].
        left. exists (mask_for (x_role x) f k1). split; [exact Hs1|].
        rewrite strip_mask_for. congruence.
      * split; [reflexivity|]. exists (mask_for (x_role x) f k1).
        rewrite Hr1, sent_len_mask_for, Hm1, Hwrs1. eauto.
  - left. eapply one_flush_delivers; eauto. rewrite Hs. exact Hta.
Qed.

(* once everything is on the wire, later calls on a connection that is no longer Active change nothing *)
Lemma on_wire_ext base g x w x' w' evs :
  on_wire base g x w -> w_log w' = w_log w ++ evs -> queued evs = [] -> wire evs = [] ->
  clean x' -> on_wire base g x' w'.
Proof.
  intros (_ & Hw & Hq) Hlog Hqe Hwe Hc. split; [exact Hc|].
  rewrite Hlog, wire_app, queued_app, Hqe, Hwe, !app_nil_r. auto.
Qed.

Lemma flush_on_wire base g x w r x' w' :
  on_wire base g x w -> flush x w = (r, x', w') -> on_wire base g x' w'.
Proof.
  intros Hon H. destruct (flush_clean _ _ _ _ _ (proj1 Hon) H) as (Hc & evs & Hlog & Hq & Hw).
  eapply on_wire_ext; eauto.
Qed.

Lemma read_pre_clean x w r0 x0 w0 :
  clean x -> read_pre x w = (r0, x0, w0) ->
  clean x0 /\ exists evs, w_log w0 = w_log w ++ evs /\ queued evs = [] /\ wire evs = [].
Proof.
  intros Hc. unfold read_pre.
  destruct ((match x_additional x with Some _ => true | None => false end) || x_unflushed x).
  - destruct (flush x w) as [[r x'] w'] eqn:Ef.
    destruct (flush_clean _ _ _ _ _ Hc Ef) as (Hc' & Hevs).
    destruct r as [u|e|s|]; try (intros H; inversion H; subst; split; assumption).
    destruct e; try (intros H; inversion H; subst; split; assumption).
    destruct k; intros H; inversion H; subst; split; assumption.
  - destruct (role_eqb (x_role x) Server && negb (can_read (x_state x))).
    + destruct (write_out_buffer (x_codec x) w) as [[rw c'] w'] eqn:E.
      apply write_out_buffer_spec in E.
      destruct E as (out' & evs & Hc' & Hlog & _ & _ & _ & Hq & Hw & _ & _ & Hnil & _).
      destruct Hc as [Hs Ho]. destruct (Hnil Ho) as (-> & _ & ->).
      rewrite Ho in Hw. cbn in Hw. subst out'.
      intros H; inversion H; subst. split; [split; [exact Hs|reflexivity]|].
      exists []. auto.
    + intros H; inversion H; subst. split; [exact Hc|]. exists []. rewrite app_nil_r. auto.
Qed.

(* read_message_frame on a connection that is no longer Active: slot, buffer, oracle untouched *)
Lemma rmf_passive x w r x' w' :
  x_state x <> Active -> read_message_frame x w = (r, x', w') ->
  x_state x' <> Active /\ x_additional x' = x_additional x /\
  c_out (x_codec x') = c_out (x_codec x) /\ c_max_out (x_codec x') = c_max_out (x_codec x) /\
  x_role x' = x_role x /\ w_wrs w' = w_wrs w /\
  exists evs, w_log w' = w_log w ++ evs /\ queued evs = [] /\ wire evs = [].
Proof.
  intros Hna H. apply rmf_spec in H.
  destruct H as (evs & Heff & Hq & Hw & Ho & Hwrs & _ & _ & Hcases).
  split; [intros Ha; apply Hna; now apply (eff_act _ _ _ _ _ Heff)|].
  split.
  - destruct Hcases as [(Ha & _)|[(Hs & _)|[(Hs & _)|(_ & c & _ & _ & Ha)]]]; congruence.
  - splits; auto; try apply Heff. exists evs. split; [apply Heff|auto].
Qed.

Lemma rmf_on_wire base g x w r x' w' :
  x_state x <> Active -> on_wire base g x w -> read_message_frame x w = (r, x', w') ->
  on_wire base g x' w'.
Proof.
  intros Hna Hon H. destruct (rmf_passive _ _ _ _ _ Hna H) as
    (_ & Hs & Ho & _ & _ & _ & evs & Hlog & Hq & Hw).
  eapply on_wire_ext; eauto. destruct Hon as ((Hs0 & Ho0) & _). split; congruence.
Qed.

Lemma rmf_Pmid base g x w r x' w' :
  x_state x <> Active -> Pmid base g x w -> read_message_frame x w = (r, x', w') ->
  Pmid base g x' w'.
Proof.
  intros Hna (Hf & Hp & Ho & f & Hs & Hfit & wr & Hd) H.
  destruct (rmf_passive _ _ _ _ _ Hna H) as
    (_ & Hs' & Ho' & Hm' & Hr' & Hw' & evs & Hlog & Hq & Hw).
  unfold Pmid, fifo in *. rewrite Hlog, wire_app, queued_app, Hq, Hw, Ho', Hm', Hr', Hw', Hs', !app_nil_r.
  split; [exact Hf|]. split.
  - destruct Hp as (new & Hqn & Hp). exists new. rewrite queued_app, Hq, app_nil_r, Hs'. auto.
  - split; [exact Ho|]. exists f. eauto.
Qed.

Lemma read_pre_na x w r0 x0 w0 :
  read_pre x w = (r0, x0, w0) -> x_state x <> Active -> x_state x0 <> Active.
Proof.
  intros H Hna Ha. apply read_pre_spec in H. destruct H as (evs & Heff & _).
  apply Hna. now apply (eff_act _ _ _ _ _ Heff).
Qed.

Lemma read_loop_on_wire base g fuel : forall x w r x' w',
  x_state x <> Active -> on_wire base g x w -> read_loop fuel x w = (r, x', w') ->
  on_wire base g x' w'.
Proof.
  induction fuel as [|fuel IH]; intros x w r x' w' Hna Hon H.
  - cbn in H. inversion H; subst. exact Hon.
  - rewrite read_loop_unfold in H.
    destruct (read_pre x w) as [[r0 x0] w0] eqn:Ep.
    pose proof (read_pre_na _ _ _ _ _ Ep Hna) as Hna0.
    destruct (read_pre_clean _ _ _ _ _ (proj1 Hon) Ep) as (Hc0 & evs0 & Hlog0 & Hq0 & Hw0).
    assert (Hon0 : on_wire base g x0 w0) by (eapply on_wire_ext; eauto).
    destruct r0 as [u|e|s|]; try (inversion H; subst; exact Hon0).
    destruct (read_message_frame x0 w0) as [[r1 x1] w1] eqn:Em.
    pose proof (rmf_on_wire _ _ _ _ _ _ _ Hna0 Hon0 Em) as Hon1.
    destruct (rmf_passive _ _ _ _ _ Hna0 Em) as (Hna1 & _).
    destruct r1 as [[m|]|e|s|]; try (inversion H; subst; exact Hon1).
    eapply IH; eauto.
Qed.

(* a parked frame: read() starts with flush() *)
Lemma read_pre_flushes x w :
  x_additional x <> None \/ x_unflushed x = true ->
  read_pre x w =
  let '(r, x', w') := flush x w in
  match r with
  | ROk _ => (ROk tt, x', w')
  | RErr (EIo WouldBlock) => (ROk tt, set_unflushed x' true, w')
  | _ => (r, x', w')
  end.
Proof.
  intros Hc. unfold read_pre.
  replace ((match x_additional x with Some _ => true | None => false end) || x_unflushed x) with true;
    [reflexivity|].
  destruct Hc as [Hc|Hc]; [destruct (x_additional x); [reflexivity|congruence]|].
  rewrite Hc. now rewrite orb_true_r.
Qed.

Lemma Pmid_unflushed base g x w b : Pmid base g x w -> Pmid base g (set_unflushed x b) w.
Proof. intros H. exact H. Qed.

Lemma on_wire_unflushed base g x w b : on_wire base g x w -> on_wire base g (set_unflushed x b) w.
Proof. intros H. exact H. Qed.

(* the first thing read() does with something parked or unflushed: the progress of one flush() *)
Lemma read_pre_progress base g x w r0 x0 w0 :
  x_additional x <> None \/ x_unflushed x = true ->
  P0 base g x w -> read_pre x w = (r0, x0, w0) ->
  on_wire base g x0 w0 \/ Pmid base g x0 w0.
Proof.
  intros Hc HP. rewrite (read_pre_flushes _ _ Hc).
  destruct (flush x w) as [[r x'] w'] eqn:Ef.
  pose proof (flush_P0 _ _ _ _ _ _ _ HP Ef) as HQ.
  destruct r as [u|e|s|]; try (intros H; inversion H; subst; exact HQ).
  destruct e; try (intros H; inversion H; subst; exact HQ).
  destruct k; intros H; inversion H; subst; exact HQ.
Qed.

Lemma Pmid_P0 base g x w : Pmid base g x w -> P0 base g x w.
Proof.
  intros (Hf & Hp & Ho & f & Hs & Hfit & wr & Hd). split; [exact Hf|]. split; [exact Hp|].
  unfold transport_accepts. rewrite Hs, Ho. change (blen (@nil N)) with 0.
  split; [exact Hfit|]. split.
  - exists wr. now rewrite N.add_0_l.
  - exists (w_wrs w), wr. split; [apply drain_0|exact Hd].
Qed.

Lemma read_loop_progress base g fuel : forall x w r x' w',
  x_state x <> Active -> on_wire base g x w \/ Pmid base g x w ->
  read_loop fuel x w = (r, x', w') ->
  on_wire base g x' w' \/ (fuel = O /\ Pmid base g x' w').
Proof.
  intros x w r x' w' Hna [Hon|Hmid] H.
  - left. eapply read_loop_on_wire; eauto.
  - destruct fuel as [|fuel].
    + cbn in H. inversion H; subst. right. auto.
    + left. rewrite read_loop_unfold in H.
      destruct (read_pre x w) as [[r0 x0] w0] eqn:Ep.
      pose proof (read_pre_na _ _ _ _ _ Ep Hna) as Hna0.
      assert (Hon0 : on_wire base g x0 w0).
      { assert (Hc : x_additional x <> None \/ x_unflushed x = true).
        { left. destruct Hmid as (_ & _ & _ & f & Hs & _). congruence. }
        rewrite (read_pre_flushes _ _ Hc) in Ep.
        destruct (flush x w) as [[r1 x1] w1] eqn:Ef.
        pose proof (flush_Pmid _ _ _ _ _ _ _ Hmid Ef) as Hon1.
        destruct r1 as [u|e|s|]; try (inversion Ep; subst; exact Hon1).
        destruct e; try (inversion Ep; subst; exact Hon1).
        destruct k; inversion Ep; subst; exact Hon1. }
      destruct r0 as [u|e|s|]; try (inversion H; subst; exact Hon0).
      destruct (read_message_frame x0 w0) as [[r1 x1] w1] eqn:Em.
      pose proof (rmf_on_wire _ _ _ _ _ _ _ Hna0 Hon0 Em) as Hon1.
      destruct (rmf_passive _ _ _ _ _ Hna0 Em) as (Hna1 & _).
      destruct r1 as [[m|]|e|s|]; try (inversion H; subst; exact Hon1).
      eapply read_loop_on_wire; eauto.
Qed.

(* read() with something parked or unflushed, connection neither Active nor Terminated *)
Lemma read_P0 base g x w r x' w' :
  x_state x <> Active -> x_state x <> Terminated ->
  x_additional x <> None \/ x_unflushed x = true ->
  P0 base g x w -> read x w = (r, x', w') ->
  on_wire base g x' w' \/ Pmid base g x' w'.
Proof.
  intros Hna Hnt Hc HP. unfold read.
  destruct (is_terminated (x_state x)) eqn:Et; [destruct (x_state x); try discriminate; congruence|].
  rewrite read_loop_unfold.
  destruct (read_pre x w) as [[r0 x0] w0] eqn:Ep.
  pose proof (read_pre_na _ _ _ _ _ Ep Hna) as Hna0.
  pose proof (read_pre_progress _ _ _ _ _ _ _ Hc HP Ep) as HQ0.
  destruct r0 as [u|e|s|]; try (intros H; inversion H; subst; exact HQ0).
  destruct (read_message_frame x0 w0) as [[r1 x1] w1] eqn:Em.
  destruct (rmf_passive _ _ _ _ _ Hna0 Em) as (Hna1 & _).
  assert (HQ1 : on_wire base g x1 w1 \/ Pmid base g x1 w1).
  { destruct HQ0 as [Hq0|Hq0];
      [left; exact (rmf_on_wire _ _ _ _ _ _ _ Hna0 Hq0 Em)|right; exact (rmf_Pmid _ _ _ _ _ _ _ Hna0 Hq0 Em)]. }
  destruct r1 as [[m|]|e|s|]; try (intros H; inversion H; subst; exact HQ1).
  intros H. destruct (read_loop_progress _ _ _ _ _ _ _ _ Hna1 HQ1 H) as [?|[_ ?]]; auto.
Qed.

(* read() from the parked-and-drained state *)
Lemma read_Pmid base g x w r x' w' :
  x_state x <> Active -> x_state x <> Terminated ->
  Pmid base g x w -> read x w = (r, x', w') -> on_wire base g x' w'.
Proof.
  intros Hna Hnt Hmid. unfold read.
  destruct (is_terminated (x_state x)) eqn:Et; [destruct (x_state x); try discriminate; congruence|].
  intros H. destruct (read_loop_progress _ _ _ _ _ _ _ _ Hna (or_intror Hmid) H) as [?|[Hf _]]; auto.
  discriminate.
Qed.

Lemma read_on_wire base g x w r x' w' :
  x_state x <> Active -> on_wire base g x w -> read x w = (r, x', w') -> on_wire base g x' w'.
Proof.
  intros Hna Hon. unfold read. destruct (is_terminated (x_state x)).
  - intros H; inversion H; subst. exact Hon.
  - intros H. eapply read_loop_on_wire; eauto.
Qed.

(* flush(), close(), read() *)
Definition push_call (o : op) : Prop := o = OpFlush \/ (exists c, o = OpClose c) \/ o = OpRead.

(* read() begins with a flush() exactly when a frame is parked or a reply failed to flush earlier *)
Definition read_pushes (x : ctx) : Prop := x_additional x <> None \/ x_unflushed x = true.

Lemma push_call_cases x o w res x' w' :
  push_call o -> x_state x <> Active -> run_op x o w = (res, x', w') ->
  (exists r, flush x w = (r, x', w')) \/ (o = OpRead /\ exists r, read x w = (r, x', w')).
Proof.
  intros [->|[(c & ->)| ->]] Hna H.
  - left. destruct (run_op_flushlike x OpFlush w res x' w') as (r & _ & F); eauto. now left.
  - left. destruct (run_op_flushlike x (OpClose c) w res x' w') as (r & _ & F); eauto. right; eauto.
  - right. split; [reflexivity|]. cbn [run_op] in H. destruct (read x w) as [[r x1] w1].
    inversion H; subst. eauto.
Qed.

Lemma call_P0 base g x w o res x' w' :
  x_state x <> Active -> x_state x <> Terminated -> push_call o -> (o = OpRead -> read_pushes x) ->
  P0 base g x w -> run_op x o w = (res, x', w') ->
  x_state x' <> Active /\ (on_wire base g x' w' \/ Pmid base g x' w') /\
  exists evs, w_log w' = w_log w ++ evs /\ term_ok x x' evs.
Proof.
  intros Hna Hnt Ho Hrp HP H.
  destruct (push_call_cases _ _ _ _ _ _ Ho Hna H) as [(r & F)|(-> & r & R)].
  - split; [eapply flush_state_na; eauto|]. split; [eapply flush_P0; eauto|].
    apply flush_spec in F. destruct F as (evs & Heff & _ & _ & _ & Hterm).
    exists evs. split; [apply Heff|exact Hterm].
  - split; [|split].
    + apply read_step in R. destruct R as (evs & Hst & _). intros Ha. apply Hna. now apply Hst.
    + eapply read_P0; eauto. apply Hrp. reflexivity.
    + unfold read in R.
      destruct (is_terminated (x_state x)) eqn:Et; [destruct (x_state x); try discriminate; congruence|].
      eapply read_loop_term; eauto.
Qed.

Lemma eventually_sent_calls x w base g o1 o2 res1 x1 w1 res2 x2 w2 :
  reachable x w -> x_state x <> Active -> x_state x <> Terminated ->
  pend base g x (w_log w) -> transport_accepts x w ->
  push_call o1 -> push_call o2 -> (o1 = OpRead -> read_pushes x) ->
  run_op x o1 w = (res1, x1, w1) -> run_op x1 o2 w1 = (res2, x2, w2) ->
  on_wire base g x2 w2 \/ exists evs, w_log w1 = w_log w ++ evs /\ transport_ended evs.
Proof.
  intros Hr Hna Hnt Hp Hta Ho1 Ho2 Hrp H1 H2.
  assert (HP : P0 base g x w) by (split; [apply (reachable_inv _ _ Hr)|split; assumption]).
  destruct (call_P0 _ _ _ _ _ _ _ _ Hna Hnt Ho1 Hrp HP H1) as (Hna1 & HQ & evs1 & Hlog1 & Hterm1).
  destruct (push_call_cases _ _ _ _ _ _ Ho2 Hna1 H2) as [(r & F)|(-> & r & R)].
  - left. destruct HQ as [Hon|Hmid]; [eapply flush_on_wire; eauto|eapply flush_Pmid; eauto].
  - destruct HQ as [Hon|Hmid]; [left; eapply read_on_wire; eauto|].
    destruct (x_state x1) eqn:Es1;
      try (left; apply (read_Pmid base g x1 w1 r x2 w2); [congruence|congruence|exact Hmid|exact R]).
    (* the first call left the connection Terminated with the frame still parked: the transport ended *)
    right. exists evs1. split; [exact Hlog1|].
    destruct (Hterm1 Es1) as [?|[[Hs _]|?]]; [contradiction| |assumption].
    destruct Hmid as (_ & _ & _ & f & Hf & _). congruence.
Qed.

(* ------------------------------------------------------------------------------------------ *)
(* 15. read() alone drives the closing handshake                                               *)
(*     (_write sets unflushed_additional when it moves the slot into the write buffer)         *)
(* ------------------------------------------------------------------------------------------ *)

(* read() begins with flush(), or nothing is left to send *)
Definition pushes_or_clean (x : ctx) : Prop := read_pushes x \/ clean x.

Lemma set_additional_unflushed x f : x_unflushed (set_additional x f) = x_unflushed x.
Proof. apply set_additional_fields. Qed.

Lemma slot_after_some a f : slot_after a f <> None.
Proof. unfold slot_after. destruct a as [g|]; [destruct (opcode_eqb _ _)|]; discriminate. Qed.

Lemma server_tail_flag sf x w r x' w' :
  server_tail sf x w = (r, x', w') ->
  x_unflushed x' = x_unflushed x /\ x_additional x' = x_additional x.
Proof.
  unfold server_tail.
  destruct (role_eqb (x_role x) Server && closing_done (x_state x)
            && match x_additional x with None => true | Some _ => false end).
  - destruct (write_out_buffer (x_codec x) w) as [[rw c'] w2].
    destruct rw; intros H; inversion H; subst; split; reflexivity.
  - intros H; inversion H; subst; split; reflexivity.
Qed.

Lemma buffer_frame_flag x f w r x' w' :
  buffer_frame x f w = (r, x', w') ->
  x_unflushed x' = x_unflushed x /\ x_additional x' = x_additional x /\
  (forall s, r <> RPanic s) /\ r <> ROutOfFuel.
Proof.
  intros H. apply buffer_frame_spec in H.
  destruct H as (k & out' & s' & evs & Hx & _ & _ & _ & Hcase). cbv zeta in *.
  subst x'. cbn [x_unflushed x_additional set_state set_codec].
  split; [reflexivity|]. split; [reflexivity|].
  destruct Hcase as [(-> & _)|(_ & evs1 & _ & _ & _ & Hccr & _)].
  - split; [intros s|]; discriminate.
  - unfold ccr_res in Hccr. destruct r as [u|e|s|]; try contradiction; split; try (intros; discriminate); discriminate.
Qed.

(* _write(None) never clears the flag, and what leaves the slot sets it *)
Lemma write_none_pushes x w r x' w' :
  write_ x None w = (r, x', w') -> read_pushes x -> read_pushes x'.
Proof.
  rewrite write_none_unfold. unfold read_pushes. destruct (x_additional x) as [msg|] eqn:Es.
  - destruct (buffer_frame (set_additional_raw x None) msg w) as [[rb xb] wb] eqn:Eb.
    apply buffer_frame_flag in Eb. destruct Eb as (Hfl & Hsl & Hnp & Hnf).
    cbn [x_additional x_unflushed set_additional_raw] in Hfl, Hsl.
    intros H _. destruct rb as [u|e|s|].
    + apply server_tail_flag in H. destruct H as [Hf _]. right. rewrite Hf. reflexivity.
    + destruct e; try (inversion H; subst; right; reflexivity).
      apply server_tail_flag in H. destruct H as [_ Ha]. left.
      rewrite Ha, set_additional_slot. apply slot_after_some.
    + exfalso. eapply Hnp. reflexivity.
    + exfalso. apply Hnf. reflexivity.
  - intros H [Hc|Hc]; [congruence|]. apply server_tail_flag in H. destruct H as [Hf _].
    right. congruence.
Qed.

(* flush() clears the flag only when it has written everything *)
Lemma flush_pushes x w r x' w' :
  flush x w = (r, x', w') -> read_pushes x -> read_pushes x' \/ (r = ROk tt /\ clean x').
Proof.
  intros H Hp. destruct (write_ x None w) as [[r0 x0] w0] eqn:E0.
  pose proof (write_none_pushes _ _ _ _ _ E0 Hp) as Hp0.
  unfold flush in H. rewrite E0 in H.
  destruct r0 as [b|e|s|]; try (inversion H; subst; now left).
  destruct (write_out_buffer (x_codec x0) w0) as [[r1 c1] w1] eqn:E1.
  apply write_out_buffer_spec in E1.
  destruct E1 as (out' & evs1 & Hc & _ & _ & _ & _ & _ & _ & _ & Hok & _).
  assert (Hmid : read_pushes (set_codec x0 c1)) by exact Hp0.
  destruct r1 as [u|e|s|]; try (inversion H; subst; now left).
  destruct u. specialize (Hok eq_refl). subst out'.
  destruct (w_flush w1) as [r2 w2].
  destruct r2 as [u2|e2|s2|]; try (inversion H; subst; now left).
  inversion H; subst; clear H.
  destruct (x_additional x0) as [f|] eqn:Ea.
  - left. left. cbn [x_additional set_unflushed set_codec]. rewrite Ea. discriminate.
  - right. split; [reflexivity|]. split; [exact Ea|reflexivity].
Qed.

Lemma flush_poc x w r x' w' :
  flush x w = (r, x', w') -> pushes_or_clean x -> pushes_or_clean x'.
Proof.
  intros H [Hp|Hc].
  - destruct (flush_pushes _ _ _ _ _ H Hp) as [?|[_ ?]]; [now left|now right].
  - right. exact (proj1 (flush_clean _ _ _ _ _ Hc H)).
Qed.

Lemma process_frame_flag x1 f w1 r x' w' :
  process_frame x1 f w1 = (r, x', w') -> x_unflushed x' = x_unflushed x1.
Proof.
  unfold process_frame. cbv zeta. intros H.
  repeat match type of H with
         | context [match ?t with _ => _ end] => destruct t eqn:?
         end;
  inversion H; subst; clear H;
  try match goal with
      | Hd : do_close _ _ = _ |- _ =>
          apply do_close_spec in Hd;
          destruct Hd as [(Hs & c & Hr & Hx)|[(Hs & Hr & Hx)|(Hx & Hcr & Hr)]]; subst
      end;
  rewrite ?set_additional_unflushed; reflexivity.
Qed.

Lemma rmf_flag x w r x' w' :
  read_message_frame x w = (r, x', w') -> x_unflushed x' = x_unflushed x.
Proof.
  rewrite rmf_unfold.
  destruct (read_frame _ _ _ _ _) as [[r0 c1] w1].
  destruct (check_connection_reset r0 (x_state x)) as [r0' s1]. cbv zeta.
  destruct r0' as [[f|]|e|s|]; cbn [x_state set_state].
  - intros H. apply process_frame_flag in H. exact H.
  - destruct s1; intros H; inversion H; reflexivity.
  - intros H; inversion H; reflexivity.
  - intros H; inversion H; reflexivity.
  - intros H; inversion H; reflexivity.
Qed.

Lemma rmf_poc x w r x' w' :
  read_message_frame x w = (r, x', w') -> pushes_or_clean x -> pushes_or_clean x'.
Proof.
  intros H HQ. pose proof (rmf_flag _ _ _ _ _ H) as Hfl. apply rmf_spec in H.
  destruct H as (evs & _ & _ & _ & Ho & _ & _ & _ & Hcases).
  assert (Hsl : x_additional x' = x_additional x \/ x_additional x' <> None).
  { destruct Hcases as [(Ha & _)|[(_ & p & _ & _ & Ha)|[(_ & c & _ & _ & Ha)|(_ & c & _ & _ & Ha)]]];
      [now left|right; rewrite Ha; apply slot_after_some|right; rewrite Ha; apply slot_after_some|now left]. }
  destruct Hsl as [Hsl|Hsl]; [|left; now left].
  destruct HQ as [[Hp|Hp]|[Hs Hc]].
  - left; left. congruence.
  - left; right. congruence.
  - right. split; congruence.
Qed.

Lemma read_pre_poc x w r0 x0 w0 :
  read_pre x w = (r0, x0, w0) -> pushes_or_clean x -> pushes_or_clean x0.
Proof.
  intros H [Hp|Hc].
  - rewrite (read_pre_flushes _ _ Hp) in H.
    destruct (flush x w) as [[r x'] w'] eqn:Ef.
    pose proof (flush_poc _ _ _ _ _ Ef (or_introl Hp)) as HQ'.
    destruct r as [u|e|s|]; try (inversion H; subst; exact HQ').
    destruct e; try (inversion H; subst; exact HQ').
    destruct k; inversion H; subst; try exact HQ'. left. right. reflexivity.
  - right. exact (proj1 (read_pre_clean _ _ _ _ _ Hc H)).
Qed.

Lemma read_loop_poc fuel : forall x w r x' w',
  read_loop fuel x w = (r, x', w') -> pushes_or_clean x -> pushes_or_clean x'.
Proof.
  induction fuel as [|fuel IH]; intros x w r x' w' H HQ.
  - cbn in H. inversion H; subst. exact HQ.
  - rewrite read_loop_unfold in H.
    destruct (read_pre x w) as [[r0 x0] w0] eqn:Ep.
    pose proof (read_pre_poc _ _ _ _ _ Ep HQ) as HQ0.
    destruct r0 as [u|e|s|]; try (inversion H; subst; exact HQ0).
    destruct (read_message_frame x0 w0) as [[r1 x1] w1] eqn:Em.
    pose proof (rmf_poc _ _ _ _ _ Em HQ0) as HQ1.
    destruct r1 as [[m|]|e|s|]; try (inversion H; subst; exact HQ1).
    eapply IH; eauto.
Qed.

(* once the connection is no longer Active, every API call keeps "read() pushes, or nothing is left" *)
Lemma run_op_poc x o w res x' w' :
  run_op x o w = (res, x', w') -> x_state x <> Active -> pushes_or_clean x ->
  x_state x' <> Active /\ pushes_or_clean x'.
Proof.
  intros H Hna HQ. split.
  { pose proof H as H'. apply run_op_step in H'. destruct H' as (evs & Hst & _).
    intros Ha. apply Hna. now apply Hst. }
  destruct o as [|m| |c| | |wbs mx]; cbn [run_op] in H.
  - destruct (read x w) as [[r x1] w1] eqn:E. inversion H; subst; clear H.
    unfold read in E. destruct (is_terminated (x_state x)).
    + inversion E; subst. exact HQ.
    + eapply read_loop_poc; eauto.
  - destruct (write x m w) as [[r x1] w1] eqn:E. inversion H; subst; clear H.
    apply write_spec in E. destruct E as [(-> & _)|(Hact & _)]; [exact HQ|contradiction].
  - destruct (flush x w) as [[r x1] w1] eqn:E. inversion H; subst; clear H. eapply flush_poc; eauto.
  - destruct (close x c w) as [[r x1] w1] eqn:E. inversion H; subst; clear H.
    rewrite close_eq in E. unfold close_start in E.
    destruct (x_state x) eqn:Es; [congruence|..]; eapply flush_poc; eauto.
  - inversion H; subst. exact HQ.
  - inversion H; subst. exact HQ.
  - destruct (config_valid _); inversion H; subst; exact HQ.
Qed.

Lemma run_ops_poc ops : forall x w rs x' w',
  run_ops x ops w = (rs, x', w') -> x_state x <> Active -> pushes_or_clean x ->
  x_state x' <> Active /\ pushes_or_clean x'.
Proof.
  induction ops as [|o ops IH]; intros x w rs x' w' H Hna HQ.
  - inversion H; subst. auto.
  - rewrite run_ops_cons in H. destruct (run_op x o w) as [[res1 x1] w1] eqn:E1.
    destruct (run_ops x1 ops w1) as [[rs1 x2] w2] eqn:E2. inversion H; subst; clear H.
    destruct (run_op_poc _ _ _ _ _ _ E1 Hna HQ) as [Hna1 HQ1]. eapply IH; eauto.
Qed.

(* with the FIFO accounting: read() pushes, or the pending frame is entirely on the wire *)
Lemma poc_on_wire base g x w :
  fifo x w -> pend base g x (w_log w) -> pushes_or_clean x ->
  read_pushes x \/ on_wire base g x w.
Proof.
  unfold fifo. intros Hf (new & Hq & Hp) [Hr|[Hs Ho]]; [now left|right].
  split; [split; assumption|]. rewrite Ho, app_nil_r in Hf. split; [exact Hf|].
  destruct Hp as [(f0 & Hf0 & _)|(f0 & Hin & Hsg)]; [congruence|].
  apply in_split in Hin. destruct Hin as (l1 & l2 & ->).
  exists (base ++ l1), f0, l2. rewrite Hq. splits; auto.
  + now rewrite <- app_assoc. + rewrite app_length. lia.
Qed.

Lemma close_op_poc x o code w res x' w' :
  close_op o code -> x_state x = Active -> run_op x o w = (res, x', w') -> pushes_or_clean x'.
Proof.
  intros Hop Hact H.
  assert (E : exists r, close x code w = (r, x', w')).
  { destruct Hop as [->| ->]; cbn [run_op] in H.
    - destruct (close x code w) as [[r x1] w1]. inversion H; subst. eauto.
    - unfold write in H. rewrite Hact in H. cbn [is_terminated is_active negb] in H.
      destruct (close x code w) as [[r x1] w1]. inversion H; subst. eauto. }
  destruct E as (r & E). rewrite close_eq in E. eapply flush_poc; [exact E|].
  left. left. unfold close_start. rewrite Hact. cbn [x_additional set_additional_raw]. discriminate.
Qed.

(* --- after close() on an Active connection, through ANY later history: the connection is not
   Active, and read() begins with flush() or the Close frame is already entirely on the wire --- *)
Lemma close_read_pushes x w o code res x1 w1 :
  reachable x w -> x_state x = Active -> close_op o code -> run_op x o w = (res, x1, w1) ->
  forall ops rs x2 w2, run_ops x1 ops w1 = (rs, x2, w2) ->
    x_state x2 <> Active /\
    (read_pushes x2 \/ on_wire (queued (w_log w)) (frame_close code) x2 w2).
Proof.
  intros Hr Hact Hop H ops rs x2 w2 H2.
  destruct (run_op_close_active _ _ _ _ _ _ _ Hop Hact H) as [_ Hst1].
  pose proof (close_op_poc _ _ _ _ _ _ _ Hop Hact H) as HQ1.
  destruct (run_ops_poc _ _ _ _ _ _ H2 ltac:(congruence) HQ1) as [Hna2 HQ2].
  destruct (close_pending _ _ _ _ _ _ _ Hr Hact Hop H) as [_ Hall].
  destruct (Hall _ _ _ _ H2) as [Hp2 Hf2].
  split; [exact Hna2|]. now apply poc_on_wire.
Qed.

(* the same for the Close reply parked by a read() that returned Close(c) *)
Lemma reply_read_pushes x w c x1 w1 :
  reachable x w -> x_state x = Active ->
  run_op x OpRead w = (ResMsg (ROk (MClose c)), x1, w1) ->
  forall ops rs x2 w2, run_ops x1 ops w1 = (rs, x2, w2) ->
    x_state x2 <> Active /\
    (read_pushes x2 \/ on_wire (queued (w_log w1)) (frame_close c) x2 w2).
Proof.
  intros Hr Hact H ops rs x2 w2 H2.
  destruct (reply_pending_close _ _ _ _ _ Hr Hact H) as (Hs1 & Hst1 & Hall).
  assert (HQ1 : pushes_or_clean x1) by (left; left; congruence).
  destruct (run_ops_poc _ _ _ _ _ _ H2 ltac:(congruence) HQ1) as [Hna2 HQ2].
  destruct (Hall _ _ _ _ H2) as [Hp2 Hf2].
  split; [exact Hna2|]. now apply poc_on_wire.
Qed.

Lemma push_call_on_wire base g x o w res x' w' :
  push_call o -> x_state x <> Active -> on_wire base g x w -> run_op x o w = (res, x', w') ->
  on_wire base g x' w' /\ x_state x' <> Active.
Proof.
  intros Ho Hna Hon H. split.
  - destruct (push_call_cases _ _ _ _ _ _ Ho Hna H) as [(r & F)|(_ & r & R)];
      [eapply flush_on_wire; eauto|eapply read_on_wire; eauto].
  - apply run_op_step in H. destruct H as (evs & Hst & _). intros Ha. apply Hna. now apply Hst.
Qed.

(* flush(), close(), read() in ANY combination: two calls deliver whenever read() is a pushing
   call at the start (or the frame is on the wire already) *)
Lemma eventually_sent_pushing x w base g o1 o2 res1 x1 w1 res2 x2 w2 :
  reachable x w -> x_state x <> Active -> x_state x <> Terminated ->
  pend base g x (w_log w) -> transport_accepts x w ->
  read_pushes x \/ on_wire base g x w ->
  push_call o1 -> push_call o2 ->
  run_op x o1 w = (res1, x1, w1) -> run_op x1 o2 w1 = (res2, x2, w2) ->
  on_wire base g x2 w2 \/ exists evs, w_log w1 = w_log w ++ evs /\ transport_ended evs.
Proof.
  intros Hr Hna Hnt Hp Hta [Hrp|Hon] Ho1 Ho2 H1 H2.
  - eapply (eventually_sent_calls x w base g o1 o2); eauto.
  - left. destruct (push_call_on_wire _ _ _ _ _ _ _ _ Ho1 Hna Hon H1) as [Hon1 Hna1].
    exact (proj1 (push_call_on_wire _ _ _ _ _ _ _ _ Ho2 Hna1 Hon1 H2)).
Qed.

(* --- close() on an Active connection, then any history (e.g. calls that block), then - once the
   transport accepts - two calls among flush()/close()/read(), read() alone included: the Close
   frame is entirely on the wire (or the transport ended during the first of the two calls) --- *)
Lemma close_eventually_sent_any_call x w o code res x1 w1 ops rs x2 w2 o1 o2 res3 x3 w3 res4 x4 w4 :
  reachable x w -> x_state x = Active -> close_op o code -> run_op x o w = (res, x1, w1) ->
  run_ops x1 ops w1 = (rs, x2, w2) ->
  x_state x2 <> Terminated -> transport_accepts x2 w2 ->
  push_call o1 -> push_call o2 ->
  run_op x2 o1 w2 = (res3, x3, w3) -> run_op x3 o2 w3 = (res4, x4, w4) ->
  on_wire (queued (w_log w)) (frame_close code) x4 w4 \/
  exists evs, w_log w3 = w_log w2 ++ evs /\ transport_ended evs.
Proof.
  intros Hr Hact Hop H H2 Hnt Hta Ho1 Ho2 H3 H4.
  destruct (close_read_pushes _ _ _ _ _ _ _ Hr Hact Hop H _ _ _ _ H2) as [Hna2 Hrp2].
  destruct (close_pending _ _ _ _ _ _ _ Hr Hact Hop H) as [_ Hall].
  destruct (Hall _ _ _ _ H2) as [Hp2 _].
  assert (Hr2 : reachable x2 w2).
  { eapply reachable_ops; [|exact H2]. eapply reachable_op; eauto. }
  exact (eventually_sent_pushing x2 w2 _ _ o1 o2 _ _ _ _ _ _ Hr2 Hna2 Hnt Hp2 Hta Hrp2 Ho1 Ho2 H3 H4).
Qed.

(* --- the scenario that used to defeat a read()-only driver --- *)
Definition rr_cfg : config := mkConfig 131072 18446744073709551615 (Some 67108864) (Some 16777216) false.
Definition rr_world : world :=
  mkWorld [] [WrErr WouldBlock; WrAccept 1000; WrAccept 1000; WrAccept 1000; WrAccept 1000] [] [] [].
Definition rr_ctx : ctx :=
  match ctx_new Server [] rr_cfg with
  | Some x => x
  | None => mkCtx Server (codec_new []) Active None None false rr_cfg
  end.
Definition rr_state : list (op_result * N) * ctx * world := run_ops rr_ctx [OpClose None] rr_world.

(* Server, default configuration, transport blocked: close(None) queues the Close frame into the
   write buffer and returns WouldBlock (slot empty; unflushed_additional is now TRUE).  The
   transport then accepts, the user only calls read(): the first read() (it returns WouldBlock
   from the read side) writes the Close frame 88 00. *)
Lemma eventually_sent_read_example :
  let '(rs, x, w) := rr_state in
  rs = [(ResUnit (RErr (EIo WouldBlock)), 2)] /\
  reachable x w /\ x_state x = ClosedByUs /\
  pend [] (frame_close None) x (w_log w) /\ c_out (x_codec x) = [136; 0] /\ x_additional x = None /\
  x_unflushed x = true /\ read_pushes x /\
  transport_accepts x w /\ Forall (generous 1000) (w_wrs w) /\
  let '(rs2, x2, w2) := run_ops x [OpRead] w in
  map fst rs2 = [ResMsg (RErr (EIo WouldBlock))] /\
  wire (w_log w2) = [136; 0] /\ c_out (x_codec x2) = [] /\
  on_wire [] (frame_close None) x2 w2.
Proof.
  vm_compute rr_state. cbv iota beta.
  split; [reflexivity|]. split.
  { exists Server, [], rr_cfg, rr_ctx, rr_world, [OpClose None]. eexists.
    split; [reflexivity|]. split; [reflexivity|]. vm_compute. reflexivity. }
  split; [reflexivity|]. split.
  { eexists. split; [vm_compute; reflexivity|]. right. eexists. split; [now left|reflexivity]. }
  split; [reflexivity|]. split; [reflexivity|]. split; [reflexivity|]. split; [right; reflexivity|]. split.
  { unfold transport_accepts. cbn [x_additional]. eexists. vm_compute. reflexivity. }
  split.
  { repeat constructor; eexists; (split; [reflexivity|]); vm_compute; discriminate. }
  vm_compute run_ops. cbv iota beta.
  split; [reflexivity|]. split; [reflexivity|]. split; [reflexivity|].
  split; [split; reflexivity|]. split; [vm_compute; reflexivity|].
  exists [], (frame_close None), []. split; [vm_compute; reflexivity|]. split; [reflexivity|]. cbn. lia.
Qed.
