(* proofs/ClientP.v — ClientRequestBuilder::into_client_request (model: Client.v): the request built from
   a URL plus user-supplied extra headers and subprotocols.  Lemmas behind props/C16b.v. *)
From Coq Require Import String Ascii Arith Lia ZifyBool ZifyNat ZifyN.
From TungModel Require Import Base Coding Mask Header Frame Utf8 World Message Codec Protocol Sha1 Handshake Client.
From TungModel.proofs Require Import HandshakeP.
Open Scope N_scope.
Arguments N.add : simpl never.
Arguments N.mul : simpl never.
Arguments N.sub : simpl never.

(* ------------------------------------------------------------------------------------------ *)
(** * Vocabulary *)

(* the header the builder appends for the subprotocols (nothing when there are none) *)
Definition sub_header (subs : list bytes) : headers :=
  match subs with
  | [] => []
  | _ => [(B"sec-websocket-protocol", join_with B", " subs)]
  end.

(* ... and its line on the wire *)
Definition sub_line (subs : list bytes) : bytes :=
  match subs with
  | [] => []
  | _ => B"Sec-WebSocket-Protocol: " ++ join_with B", " subs ++ crlf
  end.

Definition all_visible (l : list bytes) : bool := forallb (forallb visible) l.

(* number of header lines whose name equals [wn] ignoring ASCII case *)
Definition line_count (wn : bytes) (L : list (bytes * bytes)) : nat :=
  List.length (filter (fun nv => eq_ic (fst nv) wn) L).

(* the header list the builder hands to the handshake *)
Definition builder_headers (host key : bytes) (extra : headers) (subs : list bytes) : headers :=
  client_headers host key ++ extra ++ sub_header subs.

(* the header lines of the request it becomes, names as written *)
Definition builder_lines (host key : bytes) (extra : headers) (subs : list bytes) : list (bytes * bytes) :=
  written_headers host B"Upgrade" B"websocket" B"13" key (extra_headers extra ++ sub_header subs).

(* ------------------------------------------------------------------------------------------ *)
(** * builder_request *)

Lemma builder_request_spec : forall authority key extra subs,
  builder_request authority key extra subs =
  match into_client_request authority key with
  | HErr e => HErr e
  | HOk hs => HOk (hs ++ extra ++ sub_header subs)
  end.
Proof. intros. reflexivity. Qed.

Lemma builder_request_ok : forall a key extra subs, host_of_authority a <> [] ->
  builder_request (Some a) key extra subs = HOk (builder_headers (host_of_authority a) key extra subs).
Proof.
  intros a key extra subs Hne. rewrite builder_request_spec, into_client_request_spec.
  destruct (host_of_authority a); [contradiction | reflexivity].
Qed.

Lemma builder_request_ok_iff : forall authority key extra subs hs,
  builder_request authority key extra subs = HOk hs <->
  exists a, authority = Some a /\ host_of_authority a <> [] /\
            hs = builder_headers (host_of_authority a) key extra subs.
Proof.
  intros authority key extra subs hs. rewrite builder_request_spec. split.
  - destruct (into_client_request authority key) as [hs0|e] eqn:E; [|discriminate].
    apply into_client_request_ok_iff in E. destruct E as [a [Ha [Hne Hhs]]]. intro H. inversion H.
    exists a. subst hs0. auto.
  - intros [a [Ha [Hne Hhs]]]. subst authority hs. rewrite into_client_request_spec.
    destruct (host_of_authority a); [contradiction | reflexivity].
Qed.

Lemma builder_request_errors : forall authority key extra subs,
  (authority = None -> builder_request authority key extra subs = HErr HEUrlNoHost) /\
  (forall a, authority = Some a -> host_of_authority a = [] ->
     builder_request authority key extra subs = HErr HEUrlEmptyHost).
Proof.
  intros authority key extra subs. split.
  - intro H. subst. reflexivity.
  - intros a H Hh. subst. rewrite builder_request_spec. unfold into_client_request. rewrite Hh. reflexivity.
Qed.

(* ------------------------------------------------------------------------------------------ *)
(** * The five URL-derived headers come first, so they are the first value of their names *)

Lemma hget_builder_host : forall host key X, hget B"host" (client_headers host key ++ X) = Some host.
Proof. intros. reflexivity. Qed.
Lemma hget_builder_connection : forall host key X, hget B"connection" (client_headers host key ++ X) = Some B"Upgrade".
Proof. intros. reflexivity. Qed.
Lemma hget_builder_upgrade : forall host key X, hget B"upgrade" (client_headers host key ++ X) = Some B"websocket".
Proof. intros. reflexivity. Qed.
Lemma hget_builder_version : forall host key X, hget B"sec-websocket-version" (client_headers host key ++ X) = Some B"13".
Proof. intros. reflexivity. Qed.
Lemma hget_builder_key : forall host key X, hget B"sec-websocket-key" (client_headers host key ++ X) = Some key.
Proof. intros. reflexivity. Qed.

Lemma extra_headers_app : forall a b, extra_headers (a ++ b) = extra_headers a ++ extra_headers b.
Proof. intros a b. unfold extra_headers. apply filter_app. Qed.

Lemma extra_headers_client : forall host key, extra_headers (client_headers host key) = [].
Proof. intros. reflexivity. Qed.

Lemma extra_headers_sub : forall subs, extra_headers (sub_header subs) = sub_header subs.
Proof. intros [|x r]; reflexivity. Qed.

Lemma extra_headers_builder : forall host key extra subs,
  extra_headers (builder_headers host key extra subs) = extra_headers extra ++ sub_header subs.
Proof.
  intros. unfold builder_headers. rewrite !extra_headers_app, extra_headers_client, extra_headers_sub. reflexivity.
Qed.

Lemma extra_headers_idem : forall hs, extra_headers (extra_headers hs) = extra_headers hs.
Proof.
  intro hs. unfold extra_headers. rewrite filter_filter. apply filter_ext. intro nv.
  destruct (negb (is_required (fst nv))); reflexivity.
Qed.

Lemma extra_lines_app : forall a b, extra_lines (a ++ b) = extra_lines a ++ extra_lines b.
Proof. intros a b. unfold extra_lines. rewrite map_app, concat_app. reflexivity. Qed.

Lemma extra_lines_sub : forall subs, extra_lines (sub_header subs) = sub_line subs.
Proof.
  intros [|x r]; [reflexivity|]. unfold sub_header, sub_line. rewrite extra_lines_cons.
  change (extra_lines []) with (@nil N). rewrite app_nil_r. reflexivity.
Qed.

(* ------------------------------------------------------------------------------------------ *)
(** * join_with *)

Lemma join_with_cons2 : forall sep x y r, join_with sep (x :: y :: r) = x ++ sep ++ join_with sep (y :: r).
Proof. intros. reflexivity. Qed.

Lemma join_with_visible : forall sep l, forallb visible sep = true ->
  forallb visible (join_with sep l) = all_visible l.
Proof.
  intros sep l Hsep. unfold all_visible. induction l as [|x r IH]; [reflexivity|].
  destruct r as [|y r'].
  - cbn [join_with forallb]. rewrite andb_true_r. reflexivity.
  - rewrite join_with_cons2, !forallb_app, IH, Hsep. cbn [forallb andb]. reflexivity.
Qed.

Lemma values_visible_sub : forall subs, values_visible (sub_header subs) = all_visible subs.
Proof.
  intros [|x r]; [reflexivity|]. unfold sub_header, values_visible. cbn [forallb snd].
  rewrite andb_true_r. apply join_with_visible. reflexivity.
Qed.

(* ------------------------------------------------------------------------------------------ *)
(** * builder_request_bytes: the request on the wire *)

Lemma builder_request_bytes_ok : forall (a p key : bytes) (extra : headers) (subs : list bytes),
  host_of_authority a <> [] ->
  forallb visible (host_of_authority a) = true -> forallb visible key = true ->
  values_visible (extra_headers extra) = true -> all_visible subs = true ->
  builder_request_bytes (Some a) (Some p) key extra subs =
  HOk (request_bytes p (host_of_authority a) B"Upgrade" B"websocket" B"13" key
         (extra_headers extra ++ sub_header subs), key).
Proof.
  intros a p key extra subs Hne Hh Hk Hex Hsubs. unfold builder_request_bytes.
  rewrite (builder_request_ok a key extra subs Hne). apply generate_request_ok_iff.
  exists (host_of_authority a), B"Upgrade", B"websocket", B"13". unfold builder_headers.
  split; [apply hget_builder_host|]. split; [apply hget_builder_connection|].
  split; [apply hget_builder_upgrade|]. split; [apply hget_builder_version|].
  split; [apply hget_builder_key|]. split; [exact Hh|]. split; [reflexivity|]. split; [reflexivity|].
  split; [reflexivity|]. split; [exact Hk|].
  fold (builder_headers (host_of_authority a) key extra subs). rewrite extra_headers_builder.
  split; [|reflexivity]. rewrite values_visible_app, Hex, values_visible_sub, Hsubs. reflexivity.
Qed.

(* the hypotheses of builder_request_bytes_ok are necessary *)
Lemma builder_request_bytes_ok_conv : forall (a p key : bytes) (extra : headers) (subs : list bytes) (req k : bytes),
  builder_request_bytes (Some a) (Some p) key extra subs = HOk (req, k) ->
  host_of_authority a <> [] /\ forallb visible (host_of_authority a) = true /\ forallb visible key = true /\
  values_visible (extra_headers extra) = true /\ all_visible subs = true /\ k = key.
Proof.
  intros a p key extra subs req k H. unfold builder_request_bytes in H.
  destruct (builder_request (Some a) key extra subs) as [hs|e] eqn:E; [|discriminate].
  apply builder_request_ok_iff in E. destruct E as [a' [Ha [Hne Hhs]]]. inversion Ha; subst a'. subst hs.
  apply generate_request_ok_iff in H.
  destruct H as [vh [vc [vu [vv [Hh [Hc [Hu [Hv [Hk [Hvh [Hvc [Hvu [Hvv [Hvk [Hex Hb]]]]]]]]]]]]]]].
  unfold builder_headers in Hh, Hk. rewrite hget_builder_host in Hh. rewrite hget_builder_key in Hk.
  inversion Hh; subst vh. inversion Hk; subst k.
  rewrite extra_headers_builder, values_visible_app, values_visible_sub in Hex.
  apply andb_true_iff in Hex. destruct Hex as [Hex1 Hex2].
  repeat (split; [assumption|]). reflexivity.
Qed.

(* what the path None gives *)
Lemma builder_request_bytes_no_path : forall a key extra subs, host_of_authority a <> [] ->
  builder_request_bytes (Some a) None key extra subs = HErr HEUrlNoPath.
Proof.
  intros a key extra subs Hne. unfold builder_request_bytes. rewrite (builder_request_ok a key extra subs Hne).
  reflexivity.
Qed.

(* request_bytes for the builder, spelled out *)
Lemma builder_request_bytes_text : forall (p host key : bytes) (extra : headers) (subs : list bytes),
  request_bytes p host B"Upgrade" B"websocket" B"13" key (extra_headers extra ++ sub_header subs) =
  B"GET " ++ p ++ B" HTTP/1.1" ++ crlf ++
  B"Host: " ++ host ++ crlf ++
  B"Connection: Upgrade" ++ crlf ++
  B"Upgrade: websocket" ++ crlf ++
  B"Sec-WebSocket-Version: 13" ++ crlf ++
  B"Sec-WebSocket-Key: " ++ key ++ crlf ++
  extra_lines (extra_headers extra) ++ sub_line subs ++ crlf.
Proof.
  intros. unfold request_bytes. rewrite extra_lines_app, extra_lines_sub, <- !app_assoc. reflexivity.
Qed.

Lemma builder_request_bytes_wire : forall (a p key : bytes) (extra : headers) (subs : list bytes),
  host_of_authority a <> [] ->
  forallb visible (host_of_authority a) = true -> forallb visible key = true ->
  values_visible (extra_headers extra) = true -> all_visible subs = true ->
  builder_request_bytes (Some a) (Some p) key extra subs =
  HOk (B"GET " ++ p ++ B" HTTP/1.1" ++ crlf ++
       B"Host: " ++ host_of_authority a ++ crlf ++
       B"Connection: Upgrade" ++ crlf ++
       B"Upgrade: websocket" ++ crlf ++
       B"Sec-WebSocket-Version: 13" ++ crlf ++
       B"Sec-WebSocket-Key: " ++ key ++ crlf ++
       extra_lines (extra_headers extra) ++ sub_line subs ++ crlf, key).
Proof.
  intros a p key extra subs Hne Hh Hk Hex Hsubs.
  rewrite (builder_request_bytes_ok a p key extra subs Hne Hh Hk Hex Hsubs), builder_request_bytes_text.
  reflexivity.
Qed.

(* every value visible is more than enough *)
Lemma values_visible_extra_headers : forall hs, values_visible hs = true -> values_visible (extra_headers hs) = true.
Proof.
  intros hs H. unfold values_visible in *. rewrite forallb_forall in *. intros nv Hin.
  unfold extra_headers in Hin. apply filter_In in Hin. apply H. tauto.
Qed.

(* the statement with the plain hypothesis "every extra value is visible ASCII" *)
Lemma builder_request_bytes_wire_all : forall (a p key : bytes) (extra : headers) (subs : list bytes),
  host_of_authority a <> [] ->
  forallb visible (host_of_authority a) = true -> forallb visible key = true ->
  values_visible extra = true -> all_visible subs = true ->
  builder_request_bytes (Some a) (Some p) key extra subs =
  HOk (B"GET " ++ p ++ B" HTTP/1.1" ++ crlf ++
       B"Host: " ++ host_of_authority a ++ crlf ++
       B"Connection: Upgrade" ++ crlf ++
       B"Upgrade: websocket" ++ crlf ++
       B"Sec-WebSocket-Version: 13" ++ crlf ++
       B"Sec-WebSocket-Key: " ++ key ++ crlf ++
       extra_lines (extra_headers extra) ++ sub_line subs ++ crlf, key).
Proof.
  intros a p key extra subs Hne Hh Hk Hex Hsubs.
  apply builder_request_bytes_wire; auto. apply values_visible_extra_headers. exact Hex.
Qed.

(* necessary and sufficient *)
Lemma builder_request_bytes_iff : forall (a p key : bytes) (extra : headers) (subs : list bytes) (req k : bytes),
  builder_request_bytes (Some a) (Some p) key extra subs = HOk (req, k) <->
  host_of_authority a <> [] /\ forallb visible (host_of_authority a) = true /\ forallb visible key = true /\
  values_visible (extra_headers extra) = true /\ all_visible subs = true /\ k = key /\
  req = B"GET " ++ p ++ B" HTTP/1.1" ++ crlf ++
        B"Host: " ++ host_of_authority a ++ crlf ++
        B"Connection: Upgrade" ++ crlf ++
        B"Upgrade: websocket" ++ crlf ++
        B"Sec-WebSocket-Version: 13" ++ crlf ++
        B"Sec-WebSocket-Key: " ++ key ++ crlf ++
        extra_lines (extra_headers extra) ++ sub_line subs ++ crlf.
Proof.
  intros a p key extra subs req k. split.
  - intro H. destruct (builder_request_bytes_ok_conv _ _ _ _ _ _ _ H) as [Hne [Hh [Hk [Hex [Hsubs Hkk]]]]].
    rewrite (builder_request_bytes_wire a p key extra subs Hne Hh Hk Hex Hsubs) in H.
    apply hok_pair_inj in H. destruct H as [Hreq _]. repeat (split; [assumption|]). symmetry. exact Hreq.
  - intros [Hne [Hh [Hk [Hex [Hsubs [Hkk Hreq]]]]]]. subst k req.
    apply builder_request_bytes_wire; assumption.
Qed.

(* ------------------------------------------------------------------------------------------ *)
(** * Reading the request back; each mandatory name in exactly one line *)

Lemma filter_none : forall (A : Type) (f : A -> bool) l, Forall (fun x => f x = false) l -> filter f l = [].
Proof.
  intros A f l H. induction H as [|x l Hx Hl IH]; [reflexivity|]. cbn [filter]. rewrite Hx. exact IH.
Qed.

Lemma sub_header_lower : forall subs, Forall (fun nv => map lower (fst nv) = fst nv) (sub_header subs).
Proof. intros [|x r]; [constructor|]. constructor; [reflexivity | constructor]. Qed.

Lemma sub_header_wire_ok : forall subs, Forall (fun nv => name_wire_ok (fst nv)) (sub_header subs).
Proof.
  intros [|x r]; [constructor|]. constructor; [|constructor]. cbn [fst].
  split; cbn; intro Hin; repeat (destruct Hin as [Hin|Hin]; [discriminate|]); exact Hin.
Qed.

Lemma extra_headers_incl : forall (P : bytes * bytes -> Prop) hs, Forall P hs -> Forall P (extra_headers hs).
Proof.
  intros P hs H. rewrite Forall_forall in *. intros nv Hin. unfold extra_headers in Hin.
  apply filter_In in Hin. apply H. tauto.
Qed.

Lemma builder_reads_back : forall (a p key : bytes) (extra : headers) (subs : list bytes) (req k tail : bytes),
  ~ In 32 p -> ~ In 13 p -> Forall (fun nv => name_wire_ok (fst nv)) extra ->
  builder_request_bytes (Some a) (Some p) key extra subs = HOk (req, k) ->
  spec_parse_request (req ++ tail) =
  Some (B"GET", p, B"HTTP/1.1", builder_lines (host_of_authority a) key extra subs, tail).
Proof.
  intros a p key extra subs req k tail Hp32 Hp13 Hnames Hgen.
  destruct (builder_request_bytes_ok_conv _ _ _ _ _ _ _ Hgen) as [Hne [Hh [Hk [Hex [Hsubs Hkk]]]]].
  rewrite (builder_request_bytes_ok a p key extra subs Hne Hh Hk Hex Hsubs) in Hgen.
  apply hok_pair_inj in Hgen. destruct Hgen as [Hreq _]. subst req. unfold builder_lines.
  apply spec_parse_request_bytes; auto.
  - rewrite values_visible_app, Hex, values_visible_sub, Hsubs. reflexivity.
  - apply Forall_app. split; [apply extra_headers_incl; exact Hnames | apply sub_header_wire_ok].
Qed.

Lemma builder_lines_count : forall host key extra subs q,
  Forall (fun nv => map lower (fst nv) = fst nv) extra -> In q required_headers ->
  line_count (snd q) (builder_lines host key extra subs) = 1%nat.
Proof.
  intros host key extra subs q Hlow Hq. unfold line_count, builder_lines, written_headers.
  rewrite filter_app, app_length.
  assert (Forall (fun nv => forall q, In q required_headers -> eq_ic (fst nv) (snd q) = false)
            (map (fun nv => (fix_name (fst nv), snd nv)) (extra_headers extra ++ sub_header subs))) as Hx.
  { rewrite <- (extra_headers_sub subs), <- extra_headers_app. apply written_extras_not_required.
    apply Forall_app. split; [exact Hlow | apply sub_header_lower]. }
  rewrite (filter_none _ (fun nv => eq_ic (fst nv) (snd q))
             (map (fun nv => (fix_name (fst nv), snd nv)) (extra_headers extra ++ sub_header subs))).
  2:{ rewrite Forall_forall in *. intros nv Hin. exact (Hx nv Hin q Hq). }
  unfold required_headers in Hq. cbn [In] in Hq.
  destruct Hq as [Hq|[Hq|[Hq|[Hq|[Hq|[]]]]]]; subst q; reflexivity.
Qed.

Lemma builder_lines_members : forall host key extra subs,
  In (B"Host", host) (builder_lines host key extra subs) /\
  In (B"Connection", B"Upgrade") (builder_lines host key extra subs) /\
  In (B"Upgrade", B"websocket") (builder_lines host key extra subs) /\
  In (B"Sec-WebSocket-Version", B"13") (builder_lines host key extra subs) /\
  In (B"Sec-WebSocket-Key", key) (builder_lines host key extra subs).
Proof.
  intros. unfold builder_lines, written_headers. cbn [app In]. auto 10.
Qed.

Lemma builder_required_once : forall (a p key : bytes) (extra : headers) (subs : list bytes) (req k tail : bytes),
  ~ In 32 p -> ~ In 13 p ->
  Forall (fun nv => map lower (fst nv) = fst nv /\ name_wire_ok (fst nv)) extra ->
  builder_request_bytes (Some a) (Some p) key extra subs = HOk (req, k) ->
  exists L, spec_parse_request (req ++ tail) = Some (B"GET", p, B"HTTP/1.1", L, tail) /\
    (forall q, In q required_headers -> line_count (snd q) L = 1%nat) /\
    In (B"Host", host_of_authority a) L /\ In (B"Connection", B"Upgrade") L /\
    In (B"Upgrade", B"websocket") L /\ In (B"Sec-WebSocket-Version", B"13") L /\
    In (B"Sec-WebSocket-Key", key) L.
Proof.
  intros a p key extra subs req k tail Hp32 Hp13 Hnames Hgen.
  assert (Forall (fun nv => map lower (fst nv) = fst nv) extra) as Hlow.
  { rewrite Forall_forall in *. intros nv Hin. exact (proj1 (Hnames nv Hin)). }
  assert (Forall (fun nv => name_wire_ok (fst nv)) extra) as Hwire.
  { rewrite Forall_forall in *. intros nv Hin. exact (proj2 (Hnames nv Hin)). }
  exists (builder_lines (host_of_authority a) key extra subs).
  split; [exact (builder_reads_back a p key extra subs req k tail Hp32 Hp13 Hwire Hgen)|].
  split; [intros q Hq; apply builder_lines_count; assumption|].
  apply builder_lines_members.
Qed.

(* ------------------------------------------------------------------------------------------ *)
(** * A server endpoint of this library accepts it *)

(* on the header list: whatever the extras (clashing ones included: the first value wins) *)
Lemma builder_headers_accepted : forall host key extra subs,
  create_parts true true (builder_headers host key extra subs) = HOk (accept_headers key).
Proof. intros. reflexivity. Qed.

Lemma builder_request_accepted : forall authority key extra subs hs,
  builder_request authority key extra subs = HOk hs ->
  create_parts true true hs = HOk (accept_headers key).
Proof.
  intros authority key extra subs hs H. apply builder_request_ok_iff in H.
  destruct H as [a [_ [_ Hhs]]]. subst hs. apply builder_headers_accepted.
Qed.

(* ... and on the list after generate_request's normalisation (first value of each mandatory name,
   all other occurrences removed) *)
Lemma builder_normalised_accepted : forall host key extra subs,
  create_parts true true (client_headers host key ++ extra_headers (builder_headers host key extra subs))
  = HOk (accept_headers key).
Proof. intros. reflexivity. Qed.

Lemma lower_fix_name : forall n, map lower n = n -> map lower (fix_name n) = n.
Proof.
  intros n Hn. pose proof (eq_ic_fix_name n) as H. apply eq_ic_iff in H. rewrite H. exact Hn.
Qed.

Lemma lower_names_fixed : forall hs, Forall (fun nv => map lower (fst nv) = fst nv) hs ->
  lower_names (map (fun nv => (fix_name (fst nv), snd nv)) hs) = hs.
Proof.
  intros hs H. induction H as [|[n v] r Hn Hr IH]; [reflexivity|]. cbn [fst] in Hn.
  unfold lower_names in *. cbn [map fst snd]. rewrite IH, (lower_fix_name n Hn). reflexivity.
Qed.

Lemma lower_names_builder_lines : forall host key extra subs,
  Forall (fun nv => map lower (fst nv) = fst nv) extra ->
  lower_names (builder_lines host key extra subs) =
  client_headers host key ++ extra_headers extra ++ sub_header subs.
Proof.
  intros host key extra subs Hlow. unfold builder_lines, written_headers, lower_names.
  rewrite map_app. fold (lower_names (map (fun nv => (fix_name (fst nv), snd nv)) (extra_headers extra ++ sub_header subs))).
  rewrite lower_names_fixed; [reflexivity|].
  apply Forall_app. split; [apply extra_headers_incl; exact Hlow | apply sub_header_lower].
Qed.

(* through the bytes: request bytes -> reference reader -> lower-cased names -> create_parts *)
Lemma builder_self_accept_bytes : forall (a p key : bytes) (extra : headers) (subs : list bytes) (req k tail : bytes),
  ~ In 32 p -> ~ In 13 p ->
  Forall (fun nv => map lower (fst nv) = fst nv /\ name_wire_ok (fst nv)) extra ->
  builder_request_bytes (Some a) (Some p) key extra subs = HOk (req, k) ->
  k = key /\
  exists L, spec_parse_request (req ++ tail) = Some (B"GET", p, B"HTTP/1.1", L, tail) /\
    lower_names L = client_headers (host_of_authority a) key ++ extra_headers extra ++ sub_header subs /\
    create_parts true true (lower_names L) = HOk (accept_headers key).
Proof.
  intros a p key extra subs req k tail Hp32 Hp13 Hnames Hgen.
  assert (Forall (fun nv => map lower (fst nv) = fst nv) extra) as Hlow.
  { rewrite Forall_forall in *. intros nv Hin. exact (proj1 (Hnames nv Hin)). }
  assert (Forall (fun nv => name_wire_ok (fst nv)) extra) as Hwire.
  { rewrite Forall_forall in *. intros nv Hin. exact (proj2 (Hnames nv Hin)). }
  split; [exact (proj2 (proj2 (proj2 (proj2 (proj2 (builder_request_bytes_ok_conv _ _ _ _ _ _ _ Hgen))))))|].
  exists (builder_lines (host_of_authority a) key extra subs).
  split; [exact (builder_reads_back a p key extra subs req k tail Hp32 Hp13 Hwire Hgen)|].
  rewrite (lower_names_builder_lines _ _ _ _ Hlow). split; reflexivity.
Qed.

(* ------------------------------------------------------------------------------------------ *)
(** * The subprotocols the client will check the response against *)

Definition is_comma (b : N) : bool := b =? 44.

Lemma extract_subprotocols_builder : forall host key extra subs,
  extract_subprotocols (builder_headers host key extra subs) = extract_subprotocols (extra ++ sub_header subs).
Proof. intros. reflexivity. Qed.

(* an extra sec-websocket-protocol header comes first, so it wins *)
Lemma extract_subprotocols_extra_wins : forall extra subs v,
  hget B"sec-websocket-protocol" extra = Some v ->
  extract_subprotocols (extra ++ sub_header subs) = extract_subprotocols extra.
Proof.
  intros extra subs v H. unfold extract_subprotocols. rewrite hget_app, H. reflexivity.
Qed.

Lemma extract_subprotocols_none : forall extra,
  hget B"sec-websocket-protocol" extra = None ->
  extract_subprotocols (extra ++ sub_header []) = HOk None.
Proof.
  intros extra H. unfold extract_subprotocols. rewrite hget_app, H. reflexivity.
Qed.

Lemma extract_subprotocols_subs : forall extra subs,
  hget B"sec-websocket-protocol" extra = None -> subs <> [] ->
  extract_subprotocols (extra ++ sub_header subs) =
  if all_visible subs then HOk (Some (map trim (split_on is_comma (join_with B", " subs) []))) else HErr HEUtf8.
Proof.
  intros extra subs H Hne. unfold extract_subprotocols. rewrite hget_app, H.
  destruct subs as [|x r]; [contradiction|]. unfold sub_header. rewrite hget_cons, bytes_eqb_refl.
  unfold to_str. rewrite (join_with_visible B", " (x :: r) eq_refl).
  destruct (all_visible (x :: r)); reflexivity.
Qed.

Lemma no_comma_forall : forall s, ~ In 44 s -> Forall (fun b => is_comma b = false) s.
Proof.
  intros s H. apply Forall_forall. intros b Hin. unfold is_comma. apply N.eqb_neq. intro E. subst b. exact (H Hin).
Qed.

Lemma split_join_clean : forall subs pre x,
  ~ In 44 pre -> ~ In 44 x -> Forall (fun s => ~ In 44 s) subs ->
  split_on is_comma (pre ++ join_with B", " (x :: subs)) [] = (pre ++ x) :: map (cons 32) subs.
Proof.
  induction subs as [|y r IH]; intros pre x Hpre Hx Hs.
  - cbn [join_with map]. rewrite split_on_nosep; [reflexivity|].
    apply no_comma_forall. intro H. apply in_app_or in H. tauto.
  - inversion Hs as [|y' r' Hy Hr]; subst. rewrite join_with_cons2.
    change (pre ++ x ++ B", " ++ join_with B", " (y :: r))
      with (pre ++ x ++ 44 :: ([32] ++ join_with B", " (y :: r))).
    rewrite app_assoc. rewrite split_on_app_sep; [| |reflexivity].
    2:{ apply no_comma_forall. intro H. apply in_app_or in H. tauto. }
    rewrite (IH [32] y); [reflexivity | | exact Hy | exact Hr].
    intros [H|[]]. discriminate.
Qed.

Lemma trim_space : forall s, trim (32 :: s) = trim s.
Proof. intro s. reflexivity. Qed.

Lemma extract_clean : forall subs, subs <> [] ->
  Forall (fun s => ~ In 44 s /\ trim s = s) subs ->
  map trim (split_on is_comma (join_with B", " subs) []) = subs.
Proof.
  intros subs Hne H. destruct subs as [|x r]; [contradiction|].
  inversion H as [|x' r' [Hx Htx] Hr]; subst.
  change (join_with B", " (x :: r)) with ([] ++ join_with B", " (x :: r)).
  rewrite (split_join_clean r [] x); [| intros [] | exact Hx |].
  2:{ rewrite Forall_forall in *. intros s Hin. exact (proj1 (Hr s Hin)). }
  cbn [app map]. rewrite Htx. f_equal. rewrite map_map.
  clear -Hr. induction Hr as [|s r [_ Hs] Hr IH]; [reflexivity|].
  cbn [map]. rewrite trim_space, Hs, IH. reflexivity.
Qed.

(* the cases together, for the builder's header list *)
Lemma builder_subprotocols : forall host key extra subs,
  (forall v, hget B"sec-websocket-protocol" extra = Some v ->
     extract_subprotocols (builder_headers host key extra subs) = extract_subprotocols extra) /\
  (hget B"sec-websocket-protocol" extra = None -> subs = [] ->
     extract_subprotocols (builder_headers host key extra subs) = HOk None) /\
  (hget B"sec-websocket-protocol" extra = None -> subs <> [] -> all_visible subs = true ->
     extract_subprotocols (builder_headers host key extra subs) =
     HOk (Some (map trim (split_on (fun b => b =? 44) (join_with B", " subs) []))) /\
     (Forall (fun s => ~ In 44 s /\ trim s = s) subs ->
      extract_subprotocols (builder_headers host key extra subs) = HOk (Some subs))) /\
  (hget B"sec-websocket-protocol" extra = None -> subs <> [] -> all_visible subs = false ->
     extract_subprotocols (builder_headers host key extra subs) = HErr HEUtf8).
Proof.
  intros host key extra subs. rewrite extract_subprotocols_builder. split; [|split; [|split]].
  - intros v Hv. exact (extract_subprotocols_extra_wins extra subs v Hv).
  - intros Hn Hs. subst subs. exact (extract_subprotocols_none extra Hn).
  - intros Hn Hne Hvis. rewrite (extract_subprotocols_subs extra subs Hn Hne), Hvis.
    split; [reflexivity|]. intro Hclean. rewrite (extract_clean subs Hne Hclean). reflexivity.
  - intros Hn Hne Hvis. rewrite (extract_subprotocols_subs extra subs Hn Hne), Hvis. reflexivity.
Qed.
