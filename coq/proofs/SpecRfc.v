(* proofs/SpecRfc.v — C02: an independent, executable RFC 6455 receive-side specification.

   Written from the RFC (sections 5.2 framing, 5.3 masking, 5.4 fragmentation, 5.5 control frames, 5.5.1 close
   payload), not from the model's control flow: it never mentions the codec, the in-buffer, the read loop or the
   context.  It only shares *types* with the model (bytes, key, message, close_code, role) and three leaf
   functions that are themselves specifications: [from_be] (big-endian value), [close_of_u16] (the u16 -> CloseCode
   table) and [from_utf8] (the model of std::str::from_utf8, proved equal to the UTF-8 grammar in Utf8P.v).

   Layers
     rfc_header   : bytes -> option (raw_header * bytes)          one frame header (None = not all there yet)
     rfc_frames   : bytes -> list raw_frame * tail                declarative framing of a whole byte stream
     rfc_step     : one frame against the reassembly state        (the rules of the property, in one place)
     rfc_assemble : list raw_frame -> list item                   items up to the first Reject / Close
     rfc_read     : bytes -> list outcome                         what successive reads must return for a stream
                                                                  that ends (EOF) after these bytes

   Documented leniencies (allowed by the property, present in the implementation):
     - non-minimal length encodings are accepted (the length field is simply decoded);
     - a reserved opcode is rejected once the whole *header* is present (not before, not later);
     - the frame-size limit is checked once the header is present, before the payload arrives;
     - a close code that may not appear on the wire is not an error: the user sees 1002 "Protocol violation";
     - a non-UTF-8 close reason is reported with class Utf8 (Error::Utf8), a 1-byte close payload with class
       Protocol. *)
From TungModel Require Import Base Coding Mask Utf8 World Protocol.

(* ------------------------------------------------------------------------------------------- *)
(** * 1. Framing (RFC 6455 section 5.2) *)

Record raw_header := mkRawHeader {
  rh_fin : bool; rh_rsv1 : bool; rh_rsv2 : bool; rh_rsv3 : bool;
  rh_opcode : N;               (* 4 bits *)
  rh_key : option key;         (* masking key, present iff the MASK bit is set *)
  rh_len : N }.                (* payload length announced by the header *)

(* a complete frame: header and payload exactly as on the wire (still masked) *)
Record raw_frame := mkRaw { rf_hdr : raw_header; rf_payload : bytes }.

(* bit of weight m (a power of two) of byte b *)
Definition bitset (b m : N) : bool := (b / m) mod 2 =? 1.

Definition rfc_header (bs : bytes) : option (raw_header * bytes) :=
  match bs with
  | b0 :: b1 :: r =>
      let l7 := b1 mod 128 in
      let ext : nat := if l7 =? 126 then 2%nat else if l7 =? 127 then 8%nat else 0%nat in
      let masked := 128 <=? b1 in
      if Nat.ltb (length r) ext then None else
      let len := match ext with O => l7 | _ => from_be (firstn ext r) end in
      let hdr k := mkRawHeader (bitset b0 128) (bitset b0 64) (bitset b0 32) (bitset b0 16) (b0 mod 16) k len in
      if masked then
        match skipn ext r with
        | a :: b :: c :: d :: r2 => Some (hdr (Some (a, b, c, d)), r2)
        | _ => None
        end
      else Some (hdr None, skipn ext r)
  | _ => None
  end.

(* what is left after the last complete frame *)
Inductive tail :=
| TBytes (bs : bytes)                        (* not even a complete header (possibly nothing) *)
| THeader (h : raw_header) (got : bytes).    (* a complete header, payload not complete *)

Fixpoint rfc_frames_fuel (fuel : nat) (bs : bytes) : list raw_frame * tail :=
  match fuel with
  | O => ([], TBytes bs)
  | S f =>
      match rfc_header bs with
      | None => ([], TBytes bs)
      | Some (h, rest) =>
          if rh_len h <=? blen rest then
            let '(fs, t) := rfc_frames_fuel f (dropN (rh_len h) rest) in
            (mkRaw h (takeN (rh_len h) rest) :: fs, t)
          else ([], THeader h rest)
      end
  end.

(* every frame takes at least two bytes: the length is enough fuel *)
Definition rfc_frames (bs : bytes) : list raw_frame * tail := rfc_frames_fuel (length bs) bs.

(* ------------------------------------------------------------------------------------------- *)
(** * 2. Per-frame rules *)

Inductive class := KProtocol | KCapacity | KUtf8.
Inductive item := IMsg (m : message) | IReject (c : class).

(* a limit that is not configured is usize::MAX *)
Definition over (limit : option N) (n : N) : bool :=
  match limit with Some m => m <? n | None => 18446744073709551615 <? n end.

(* section 5.3: octet i of the payload is XORed with octet (i mod 4) of the key *)
Fixpoint rfc_unmask_from (i : nat) (k : key) (bs : bytes) : bytes :=
  match bs with
  | [] => []
  | b :: r => N.lxor b (nth (Nat.modulo i 4) (key_bytes k) 0) :: rfc_unmask_from (S i) k r
  end.
Definition rfc_unmask (k : key) (bs : bytes) : bytes := rfc_unmask_from 0 k bs.

(* text: valid, and "can still become valid" (the decoder stopped at the end of input, not at a bad byte) *)
Definition utf8_valid (bs : bytes) : bool := match from_utf8 bs with UOk => true | _ => false end.
Definition utf8_prefix (bs : bytes) : bool := match from_utf8 bs with UErr _ (Some _) => false | _ => true end.

(* section 7.4: status codes an endpoint may put in a Close frame *)
Definition wire_code_ok (c : N) : bool :=
  ((1000 <=? c) && (c <=? 1003)) || ((1007 <=? c) && (c <=? 1013)) || ((3000 <=? c) && (c <=? 4999)).

Definition protocol_violation : bytes :=
  [80; 114; 111; 116; 111; 99; 111; 108; 32; 118; 105; 111; 108; 97; 116; 105; 111; 110].

Definition reserved_opcode (op : N) : bool := ((3 <=? op) && (op <=? 7)) || (11 <=? op).

(* the two rules that need the header only *)
Definition rfc_header_check (mfs : option N) (h : raw_header) : option class :=
  if reserved_opcode (rh_opcode h) then Some KProtocol
  else if over mfs (rh_len h) then Some KCapacity
  else None.

(* the message being reassembled *)
Inductive kind := KText | KBinary.
Definition partial := option (kind * bytes).

Inductive verdict :=
| VNext (a : partial)                       (* nothing to deliver *)
| VDeliver (m : message) (a : partial)
| VClose (m : message)                      (* deliver the Close; nothing is read after it *)
| VReject (c : class).

(* [all] = everything received so far for the message of kind k; fin = this was the last fragment *)
Definition rfc_fragment (mms : option N) (k : kind) (all : bytes) (fin : bool) : verdict :=
  if over mms (blen all) then VReject KCapacity else
  match k with
  | KBinary => if fin then VDeliver (MBinary all) None else VNext (Some (k, all))
  | KText =>
      if fin then (if utf8_valid all then VDeliver (MText all) None else VReject KUtf8)
      else (if utf8_prefix all then VNext (Some (k, all)) else VReject KUtf8)
  end.

Definition rfc_close (data : bytes) : verdict :=
  match data with
  | [] => VClose (MClose None)
  | [_] => VReject KProtocol
  | c1 :: c2 :: reason =>
      if utf8_valid reason then
        let code := c1 * 256 + c2 in
        VClose (MClose (Some (if wire_code_ok code then (close_of_u16 code, reason)
                              else (CProtocol, protocol_violation))))
      else VReject KUtf8
  end.

Definition mask_direction_ok (r : role) (accept_unmasked : bool) (k : option key) : bool :=
  match r, k with
  | Server, Some _ => true
  | Server, None => accept_unmasked
  | Client, None => true
  | Client, Some _ => false
  end.

Definition rfc_step (r : role) (accept_unmasked : bool) (mfs mms : option N) (a : partial) (f : raw_frame)
  : verdict :=
  let h := rf_hdr f in
  let op := rh_opcode h in
  match rfc_header_check mfs h with
  | Some c => VReject c
  | None =>
  if negb (mask_direction_ok r accept_unmasked (rh_key h)) then VReject KProtocol else
  if rh_rsv1 h || rh_rsv2 h || rh_rsv3 h then VReject KProtocol else
  let data := match rh_key h with Some k => rfc_unmask k (rf_payload f) | None => rf_payload f end in
  if 8 <=? op then
    (* control frames: never fragmented, at most 125 bytes, may arrive in the middle of a message *)
    if negb (rh_fin h) || (125 <? blen data) then VReject KProtocol else
    if op =? 9 then VDeliver (MPing data) a
    else if op =? 10 then VDeliver (MPong data) a
    else rfc_close data
  else if op =? 0 then
    match a with
    | None => VReject KProtocol                              (* nothing to continue *)
    | Some (k, acc) => rfc_fragment mms k (acc ++ data) (rh_fin h)
    end
  else
    match a with
    | Some _ => VReject KProtocol                            (* new data frame inside an unfinished message *)
    | None => rfc_fragment mms (if op =? 1 then KText else KBinary) data (rh_fin h)
    end
  end.

(* ------------------------------------------------------------------------------------------- *)
(** * 3. Sequences *)

(* items up to and including the first Reject / Close; Some a = all frames consumed, reassembly state a *)
Fixpoint rfc_run (r : role) (au : bool) (mfs mms : option N) (a : partial) (fs : list raw_frame)
  : list item * option partial :=
  match fs with
  | [] => ([], Some a)
  | f :: rest =>
      match rfc_step r au mfs mms a f with
      | VNext a' => rfc_run r au mfs mms a' rest
      | VDeliver m a' => let '(is, e) := rfc_run r au mfs mms a' rest in (IMsg m :: is, e)
      | VClose m => ([IMsg m], None)
      | VReject c => ([IReject c], None)
      end
  end.

Definition rfc_assemble (r : role) (au : bool) (mfs mms : option N) (fs : list raw_frame) : list item :=
  fst (rfc_run r au mfs mms None fs).

(* a header without its payload at the end of the stream can already break a header rule *)
Definition rfc_tail (mfs : option N) (t : tail) : option class :=
  match t with
  | TBytes _ => None
  | THeader h _ => rfc_header_check mfs h
  end.

(* what the reader of a stream that ends after [bs] observes: the items, then — unless a Reject or a Close
   stopped the reading — the end of the stream (a reset without closing handshake) *)
Inductive outcome := OMsg (m : message) | OReject (c : class) | OEnd.

Definition item_outcome (i : item) : outcome := match i with IMsg m => OMsg m | IReject c => OReject c end.

Fixpoint rfc_outcomes (r : role) (au : bool) (mfs mms : option N) (a : partial) (fs : list raw_frame) (t : tail)
  : list outcome :=
  match fs with
  | [] => match rfc_tail mfs t with Some c => [OReject c] | None => [OEnd] end
  | f :: rest =>
      match rfc_step r au mfs mms a f with
      | VNext a' => rfc_outcomes r au mfs mms a' rest t
      | VDeliver m a' => OMsg m :: rfc_outcomes r au mfs mms a' rest t
      | VClose m => [OMsg m]
      | VReject c => [OReject c]
      end
  end.

Definition rfc_read (r : role) (au : bool) (mfs mms : option N) (bs : bytes) : list outcome :=
  let '(fs, t) := rfc_frames bs in rfc_outcomes r au mfs mms None fs t.

(* rfc_outcomes is rfc_run plus the end of the stream *)
Lemma rfc_outcomes_run r au mfs mms fs t : forall a,
  rfc_outcomes r au mfs mms a fs t =
  match rfc_run r au mfs mms a fs with
  | (is, None) => map item_outcome is
  | (is, Some _) => map item_outcome is ++ match rfc_tail mfs t with Some c => [OReject c] | None => [OEnd] end
  end.
Proof.
  induction fs as [|f rest IH]; intros a; cbn [rfc_outcomes rfc_run]; [reflexivity|].
  destruct (rfc_step r au mfs mms a f) as [a'|m a'|m|c]; try reflexivity.
  - apply IH.
  - rewrite IH. destruct (rfc_run r au mfs mms a' rest) as [is [e|]]; reflexivity.
Qed.

(* ------------------------------------------------------------------------------------------- *)
(** * 4. Tests *)

Definition k1 : key := (1, 2, 3, 4).
(* "Hi" as one unmasked text frame, as a masked one *)
Definition t_hi : bytes := [129; 2; 72; 105].
Definition t_hi_masked : bytes := [129; 130; 1; 2; 3; 4; 73; 107].

Example ex_client_text : rfc_read Client false None None t_hi = [OMsg (MText [72; 105]); OEnd].
Proof. vm_compute. reflexivity. Qed.
Example ex_server_text : rfc_read Server false None None t_hi_masked = [OMsg (MText [72; 105]); OEnd].
Proof. vm_compute. reflexivity. Qed.
Example ex_server_unmasked : rfc_read Server false None None t_hi = [OReject KProtocol].
Proof. vm_compute. reflexivity. Qed.
Example ex_server_unmasked_allowed : rfc_read Server true None None t_hi = [OMsg (MText [72; 105]); OEnd].
Proof. vm_compute. reflexivity. Qed.
Example ex_client_masked : rfc_read Client false None None t_hi_masked = [OReject KProtocol].
Proof. vm_compute. reflexivity. Qed.
(* fragmented text "H" + ping "!" + "i"(fin) *)
Example ex_interleave :
  rfc_read Client false None None ([1; 1; 72] ++ [137; 1; 33] ++ [128; 1; 105])
  = [OMsg (MPing [33]); OMsg (MText [72; 105]); OEnd].
Proof. vm_compute. reflexivity. Qed.
(* rsv1 set *)
Example ex_rsv : rfc_read Client false None None [193; 0] = [OReject KProtocol].
Proof. vm_compute. reflexivity. Qed.
(* reserved opcode 3: rejected with the header complete, even without payload; a truncated header is not *)
Example ex_reserved : rfc_read Client false None None [131; 5; 0] = [OReject KProtocol].
Proof. vm_compute. reflexivity. Qed.
Example ex_reserved_truncated : rfc_read Client false None None [131; 126; 0] = [OEnd].
Proof. vm_compute. reflexivity. Qed.
(* fragmented ping, 126-byte ping header, orphan continuation, nested text, 1-byte close, bad close reason *)
Example ex_ctl_fin : rfc_read Client false None None [9; 0] = [OReject KProtocol].
Proof. vm_compute. reflexivity. Qed.
Example ex_ctl_size : rfc_read Client false None None ([137; 126; 0; 126] ++ repeat 0 126) = [OReject KProtocol].
Proof. vm_compute. reflexivity. Qed.
Example ex_orphan : rfc_read Client false None None [128; 0] = [OReject KProtocol].
Proof. vm_compute. reflexivity. Qed.
Example ex_nested : rfc_read Client false None None [1; 0; 129; 0] = [OReject KProtocol].
Proof. vm_compute. reflexivity. Qed.
Example ex_close1 : rfc_read Client false None None [136; 1; 3] = [OReject KProtocol].
Proof. vm_compute. reflexivity. Qed.
Example ex_close_bad_reason : rfc_read Client false None None [136; 3; 3; 232; 255] = [OReject KUtf8].
Proof. vm_compute. reflexivity. Qed.
(* close 1000 "ok" then garbage: reading stops at the Close; close code 1005 is replaced by 1002 *)
Example ex_close : rfc_read Client false None None [136; 4; 3; 232; 111; 107; 255; 255]
  = [OMsg (MClose (Some (CNormal, [111; 107])))].
Proof. vm_compute. reflexivity. Qed.
Example ex_close_1005 : rfc_read Client false None None [136; 2; 3; 237]
  = [OMsg (MClose (Some (CProtocol, protocol_violation)))].
Proof. vm_compute. reflexivity. Qed.
(* limits: frame size checked on the header; message size on the reassembled message *)
Example ex_frame_limit : rfc_read Client false (Some 1) None [130; 2; 0] = [OReject KCapacity].
Proof. vm_compute. reflexivity. Qed.
Example ex_msg_limit : rfc_read Client false None (Some 2) [2; 2; 0; 0; 128; 1; 0] = [OReject KCapacity].
Proof. vm_compute. reflexivity. Qed.
(* text split inside a character: E2 82 | AC is fine, E2 28 is rejected at once *)
Example ex_text_split : rfc_read Client false None None [1; 2; 226; 130; 128; 1; 172]
  = [OMsg (MText [226; 130; 172]); OEnd].
Proof. vm_compute. reflexivity. Qed.
Example ex_text_failfast : rfc_read Client false None None [1; 2; 226; 40] = [OReject KUtf8].
Proof. vm_compute. reflexivity. Qed.
(* non-minimal length: 2 bytes announced with the 16-bit form *)
Example ex_nonminimal : rfc_read Client false None None [130; 126; 0; 2; 7; 8] = [OMsg (MBinary [7; 8]); OEnd].
Proof. vm_compute. reflexivity. Qed.
