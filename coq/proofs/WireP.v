(* proofs/WireP.v — C09: every frame the library emits is a well-formed RFC 6455 frame for its role.

   1. an independent byte-level specification of "well-formed frame sequence for role r"
      ([spec_frame], [wf_wire]): 2-byte base, 7/16/64-bit length in the shortest form, 4-byte key
      iff client, payload = plaintext XOR key (pointwise) — written without header_format.
   2. [frame_format] of a canonical frame satisfies the specification.
   3. a generic invariant over the whole protocol machine: every frame handed to the codec
      (ghost queue [queued (w_log w)]) and every frame parked in additional_send satisfies a
      predicate P, provided the user-supplied frames and the automatic replies do; the client's
      mask keys are drawn in order from the oracle.
   4. the main theorems (wire well-formedness, size of automatic replies). *)
From TungModel Require Import Base Coding Mask Header Frame Utf8 World Message Codec Protocol.
From TungModel.proofs Require Import HeaderP MaskP WritePathP.
From Coq Require Import Arith Lia ZifyBool ZifyNat ZifyN.

Local Arguments N.add : simpl never.
Local Arguments N.mul : simpl never.
Local Arguments N.sub : simpl never.
Local Arguments N.div : simpl never.
Local Arguments N.modulo : simpl never.
Local Arguments N.land : simpl never.
Local Arguments N.lor : simpl never.
Local Arguments N.lxor : simpl never.
Local Arguments N.pow : simpl never.
Local Arguments N.ltb : simpl never.
Local Arguments N.leb : simpl never.
Local Arguments N.eqb : simpl never.
Local Arguments N.min : simpl never.
Local Arguments N.of_nat : simpl never.
Local Arguments N.to_nat : simpl never.

(* ------------------------------------------------------------------------------------------ *)
(** * 1. The specification (RFC 6455 section 5.2), on bytes *)

(* the five frame kinds an endpoint sends when it does not fragment *)
Inductive wkind := KText | KBinary | KClose | KPing | KPong.

(* the opcode nibble of the first byte *)
Definition kind_nibble (kd : wkind) : N :=
  match kd with KText => 1 | KBinary => 2 | KClose => 8 | KPing => 9 | KPong => 10 end.

(* what one frame on the wire carries: its kind, the masking key (if masked), the plaintext *)
Record witem := mkItem { it_kind : wkind; it_key : option key; it_plain : bytes }.

(* unsigned big-endian value of a byte string *)
Fixpoint be_value (bs : bytes) : N :=
  match bs with
  | [] => 0
  | b :: r => b * 256 ^ blen r + be_value r
  end.

Definition all_u8 (bs : bytes) : Prop := Forall (fun b => b < 256) bs.

(* the payload length n, as the 7-bit field len7 and the extended length bytes ext:
   each form is allowed only for the lengths that do not fit the shorter one *)
Definition len_field (n len7 : N) (ext : bytes) : Prop :=
  (n <= 125 /\ len7 = n /\ ext = [])
  \/ (126 <= n <= 65535 /\ len7 = 126 /\ length ext = 2%nat /\ all_u8 ext /\ be_value ext = n)
  \/ (65536 <= n < 18446744073709551616 /\ len7 = 127 /\ length ext = 8%nat /\ all_u8 ext /\
      be_value ext = n).

Definition key4 (k : key) : bytes := let '(a, b, c, d) := k in [a; b; c; d].

(* octet i of the transformed data = octet i of the original XOR octet (i mod 4) of the key *)
Definition masked_by (k : key) (plain onwire : bytes) : Prop :=
  length onwire = length plain /\
  forall i : nat, (i < length plain)%nat ->
    nth i onwire 0 = N.lxor (nth i plain 0) (nth (i mod 4) (key4 k) 0).

Definition mask_bit (mk : option key) : N := match mk with Some _ => 128 | None => 0 end.

(* fb is exactly one complete frame for the item, sent by an endpoint of role r:
   first byte = FIN(128) + RSV1..3 (0) + opcode; second byte = MASK bit + 7-bit length;
   extended length; key; payload.  Masked iff the sender is the client. *)
Definition spec_frame (r : role) (it : witem) (fb : bytes) : Prop :=
  exists (len7 : N) (ext keyb pay : bytes),
    fb = [128 + kind_nibble (it_kind it); mask_bit (it_key it) + len7] ++ ext ++ keyb ++ pay /\
    len_field (blen (it_plain it)) len7 ext /\
    match it_key it with
    | Some k => r = Client /\ keyb = key4 k /\ masked_by k (it_plain it) pay
    | None => r = Server /\ keyb = [] /\ pay = it_plain it
    end.

(* the byte string is a concatenation of complete frames, nothing before, between or after *)
Inductive wf_wire (r : role) : bytes -> list witem -> Prop :=
| wf_nil : wf_wire r [] []
| wf_cons (it : witem) (fb rest : bytes) (its : list witem) :
    spec_frame r it fb -> wf_wire r rest its -> wf_wire r (fb ++ rest) (it :: its).

Lemma wf_wire_app r b1 i1 b2 i2 : wf_wire r b1 i1 -> wf_wire r b2 i2 -> wf_wire r (b1 ++ b2) (i1 ++ i2).
Proof.
  induction 1 as [|it fb rest its Hf _ IH]; intros H2; [exact H2|].
  rewrite <- app_assoc. cbn [app]. constructor; [exact Hf|apply IH; exact H2].
Qed.

(* ------------------------------------------------------------------------------------------ *)
(** * 2. frame_format of a canonical frame meets the specification *)

Definition kind_opcode (kd : wkind) : opcode :=
  match kd with
  | KText => OData Text | KBinary => OData Binary
  | KClose => OCtl Close | KPing => OCtl Ping | KPong => OCtl Pong
  end.

(* the model frame of an item: FIN set, reserved bits clear *)
Definition item_frame (it : witem) : frame :=
  mkFrame (mkHeader true false false false (kind_opcode (it_kind it)) (it_key it)) (it_plain it).

Definition role_key (r : role) (mk : option key) : Prop :=
  match mk with Some _ => r = Client | None => r = Server end.

Definition item_ok (r : role) (it : witem) : Prop :=
  role_key r (it_key it) /\ blen (it_plain it) < two64.

Lemma be_value_snoc (l : bytes) (b : N) : be_value (l ++ [b]) = be_value l * 256 + b.
Proof.
  induction l as [|a l IH]; cbn [app be_value].
  - change (blen (@nil N)) with 0. change (256 ^ 0) with 1. lia.
  - rewrite IH, HeaderP.blen_app. change (blen [b]) with 1. rewrite N.pow_add_r.
    change (256 ^ 1) with 256. lia.
Qed.

Lemma be_value_from_be (l : bytes) : be_value l = from_be l.
Proof.
  induction l as [|b l IH] using rev_ind; [reflexivity|].
  rewrite be_value_snoc, from_be_snoc, IH. reflexivity.
Qed.

Lemma key4_eq (k : key) : key4 k = key_bytes k.
Proof. destruct k as [[[a b] c] d]. reflexivity. Qed.

Lemma byte0_item (it : witem) : byte0 (f_hdr (item_frame it)) = 128 + kind_nibble (it_kind it).
Proof. destruct it as [kd mk p]. destruct kd; reflexivity. Qed.

Lemma pack1_add (lb : N) (m : bool) : lb < 128 -> pack1 lb m = (if m then 128 else 0) + lb.
Proof.
  intros Hlb.
  pose proof (byte_sweep (fun lb => (128 <=? lb) || (pack1 lb m =? (if m then 128 else 0) + lb))
    ltac:(destruct m; vm_compute; reflexivity) lb ltac:(lia)) as S.
  cbv beta in S. lia.
Qed.

Lemma byte1_item (it : witem) (n : N) :
  byte1 (f_hdr (item_frame it)) n = mask_bit (it_key it) + lf_length_byte (lf_for_length n).
Proof.
  unfold byte1. rewrite pack1_add by apply lf_length_byte_lt.
  destruct it as [kd [k|] p]; reflexivity.
Qed.

Lemma all_u8_bytes_ok (l : bytes) : bytes_ok l -> all_u8 l.
Proof. exact (fun H => H). Qed.

Lemma len_field_format (n : N) : n < two64 ->
  len_field n (lf_length_byte (lf_for_length n)) (ext_bytes n).
Proof.
  intros Hn. unfold len_field, ext_bytes, lf_for_length.
  destruct (n <? 126) eqn:E1; [left; cbn [lf_length_byte]; repeat split; lia|].
  destruct (n <? 65536) eqn:E2; cbn [lf_length_byte].
  - right; left. split; [lia|]. split; [reflexivity|]. split; [apply HeaderP.to_be_length|].
    split; [apply to_be_bytes_ok|].
    rewrite be_value_from_be, from_be_to_be_small.
    + apply N.mod_small. lia.
    + change (256 ^ N.of_nat 2) with 65536. apply N.mod_upper_bound. discriminate.
  - right; right. unfold two64 in Hn. split; [lia|]. split; [reflexivity|].
    split; [apply HeaderP.to_be_length|]. split; [apply to_be_bytes_ok|].
    rewrite be_value_from_be. apply from_be_to_be_small.
    change (256 ^ N.of_nat 8) with 18446744073709551616. exact Hn.
Qed.

Lemma masked_by_xor_cyc (k : key) (p : bytes) : masked_by k p (xor_cyc k p).
Proof.
  unfold masked_by. rewrite key4_eq. split; [apply MaskP.xor_cyc_length|].
  intros i Hi. apply xor_cyc_nth. exact Hi.
Qed.

(* step (3) of the route: Frame::format of a canonical frame is a well-formed frame *)
Lemma item_frame_spec (r : role) (it : witem) :
  item_ok r it -> spec_frame r it (frame_format (item_frame it)).
Proof.
  intros [Hr Hn]. unfold spec_frame, frame_format.
  rewrite header_format_eq, byte0_item, byte1_item.
  exists (lf_length_byte (lf_for_length (blen (f_payload (item_frame it))))),
         (ext_bytes (blen (f_payload (item_frame it)))),
         (mask_bytes (f_hdr (item_frame it))),
         (match h_mask (f_hdr (item_frame it)) with
          | Some k => apply_mask k (f_payload (item_frame it))
          | None => f_payload (item_frame it)
          end).
  split; [cbn [app]; rewrite <- app_assoc; reflexivity|].
  split; [apply len_field_format; exact Hn|].
  unfold mask_bytes. cbn [item_frame f_hdr f_payload h_mask].
  unfold role_key in Hr. destruct (it_key it) as [k|].
  - split; [exact Hr|]. split; [symmetry; apply key4_eq|]. apply masked_by_xor_cyc.
  - split; [exact Hr|]. split; reflexivity.
Qed.

Lemma enc_items_wf (r : role) (its : list witem) :
  Forall (item_ok r) its -> wf_wire r (enc (map item_frame its)) its.
Proof.
  induction 1 as [|it its Hi _ IH]; [constructor|].
  unfold enc in *. cbn [map concat]. constructor; [apply item_frame_spec; exact Hi|exact IH].
Qed.

(* ------------------------------------------------------------------------------------------ *)
(** * 3. mask keys: draws from the oracle, subsequences *)

Definition zero_key : key := (0, 0, 0, 0).

(* [draws ks d ks']: calling generate_mask |d| times on an oracle holding ks returns the keys d,
   in this order, and leaves ks' (an exhausted oracle yields the zero key) *)
Inductive draws : list key -> list key -> list key -> Prop :=
| draws_nil ks : draws ks [] ks
| draws_cons k ks d ks' : draws ks d ks' -> draws (k :: ks) (k :: d) ks'
| draws_zero d ks' : draws [] d ks' -> draws [] (zero_key :: d) ks'.

Definition head_key (ks : list key) : key := match ks with k :: _ => k | [] => zero_key end.

Lemma draws_snoc ks0 d ks : draws ks0 d ks -> draws ks0 (d ++ [head_key ks]) (tl ks).
Proof.
  induction 1 as [ks| k ks d ks' _ IH | d ks' _ IH]; cbn [app].
  - destruct ks as [|k ks]; cbn [head_key tl].
    + apply draws_zero, draws_nil.
    + apply draws_cons, draws_nil.
  - apply draws_cons, IH.
  - apply draws_zero, IH.
Qed.

(* the closed form: the i-th key drawn is the i-th key of the oracle (the zero key once the oracle
   is exhausted); what is left is the oracle without its first |d| keys *)
Lemma draws_stream ks0 d ks : draws ks0 d ks ->
  (forall i : nat, (i < length d)%nat -> nth i d zero_key = nth i ks0 zero_key) /\
  ks = skipn (length d) ks0.
Proof.
  induction 1 as [ks| k ks d ks' _ [IH1 IH2] | d ks' _ [IH1 IH2]]; cbn [length skipn].
  - split; [intros i Hi; lia|reflexivity].
  - split; [|exact IH2]. intros [|i] Hi; cbn [nth]; [reflexivity|]. apply IH1. lia.
  - split; [|rewrite IH2; destruct (length d); reflexivity].
    intros [|i] Hi; cbn [nth]; [reflexivity|]. rewrite IH1 by lia. destruct i; reflexivity.
Qed.

Lemma next_key_spec (w : world) :
  fst (w_next_key w) = head_key (w_keys w) /\ w_keys (snd (w_next_key w)) = tl (w_keys w) /\
  w_log (snd (w_next_key w)) = w_log w.
Proof. unfold w_next_key. destruct (w_keys w) as [|k ks] eqn:E; cbn; rewrite ?E; auto. Qed.

Inductive subseq {A : Type} : list A -> list A -> Prop :=
| sub_nil : subseq [] []
| sub_take x a b : subseq a b -> subseq (x :: a) (x :: b)
| sub_skip x a b : subseq a b -> subseq a (x :: b).

Lemma subseq_refl {A} (l : list A) : subseq l l.
Proof. induction l; constructor; assumption. Qed.

Lemma subseq_snoc_take {A} (a b : list A) (x : A) : subseq a b -> subseq (a ++ [x]) (b ++ [x]).
Proof. induction 1; cbn [app]; repeat constructor; assumption. Qed.

Lemma subseq_snoc_skip {A} (a b : list A) (x : A) : subseq a b -> subseq a (b ++ [x]).
Proof. induction 1; cbn [app]; repeat constructor; assumption. Qed.

Lemma subseq_length {A} (a b : list A) : subseq a b -> (length a <= length b)%nat.
Proof. induction 1; cbn [length]; lia. Qed.

Lemma subseq_nil_r {A} (a : list A) : subseq a [] -> a = [].
Proof. inversion 1. reflexivity. Qed.

(* the keys of the masked frames of a list, in order *)
Definition fkeys (fs : list frame) : list key :=
  flat_map (fun f => match h_mask (f_hdr f) with Some k => [k] | None => [] end) fs.

Definition is_masked (f : frame) : Prop := exists k, h_mask (f_hdr f) = Some k.

Lemma fkeys_app a b : fkeys (a ++ b) = fkeys a ++ fkeys b.
Proof. apply flat_map_app. Qed.

(* ------------------------------------------------------------------------------------------ *)
(** * 4. the generic invariant: every frame queued or parked satisfies P *)

(* payload bound of a Close body that the library echoes *)
Definition close_small (cl : option close_frame) : Prop :=
  match cl with Some (_, reason) => 2 + blen reason <= 125 | None => True end.

(* what the invariant needs of P: kept by the client's masking; true of the automatic replies *)
Record pred_ok (r : role) (P : frame -> Prop) : Prop := mkPredOk {
  P_sent : forall w f, P f -> P (sent_frame r w f);
  P_pong : forall d, blen d <= 125 -> P (frame_pong d);
  P_close : forall cl, close_small cl -> P (frame_close cl) }.

(* keys: nothing drawn by a server; a client's queued frames are all masked, their keys are, in
   order, among the keys drawn so far from the initial oracle ks0 *)
Definition KeyInv (r : role) (ks0 : list key) (w : world) : Prop :=
  exists d, draws ks0 d (w_keys w) /\
    match r with
    | Server => d = []
    | Client => Forall is_masked (queued (w_log w)) /\ subseq (fkeys (queued (w_log w))) d
    end.

Definition WInv (r : role) (ks0 : list key) (P : frame -> Prop) (w : world) : Prop :=
  Forall P (queued (w_log w)) /\ KeyInv r ks0 w.

Definition CInv (r : role) (P : frame -> Prop) (x : ctx) : Prop :=
  x_role x = r /\ match x_additional x with Some f => P f | None => True end.

Ltac cinv :=
  unfold CInv in *;
  cbn [x_role x_additional x_codec x_state set_codec set_state set_incomplete set_additional_raw
       set_unflushed] in *.

Lemma WInv_same r ks0 P w w' :
  w_keys w' = w_keys w -> queued (w_log w') = queued (w_log w) -> WInv r ks0 P w -> WInv r ks0 P w'.
Proof. unfold WInv, KeyInv. intros -> ->. exact (fun H => H). Qed.

Lemma after_key_keys r w :
  w_keys (after_key r w) = match r with Server => w_keys w | Client => tl (w_keys w) end.
Proof. destruct r; [reflexivity|]. unfold after_key. apply next_key_spec. Qed.

(* a buffer_frame call that bounced (WriteBufferFull): the key is gone, nothing was queued *)
Lemma WInv_skip r ks0 P w w' :
  WInv r ks0 P w -> w_keys w' = w_keys (after_key r w) -> queued (w_log w') = queued (w_log w) ->
  WInv r ks0 P w'.
Proof.
  intros [HP [d [Hd Hk]]] Hkeys Hq. rewrite after_key_keys in Hkeys.
  split; [rewrite Hq; exact HP|]. unfold KeyInv. rewrite Hq, Hkeys. destruct r.
  - exists d. split; assumption.
  - exists (d ++ [head_key (w_keys w)]). split; [apply draws_snoc; exact Hd|].
    destruct Hk as [Hm Hs]. split; [exact Hm|]. apply subseq_snoc_skip. exact Hs.
Qed.

(* a buffer_frame call that queued the frame *)
Lemma WInv_queue r ks0 P (HP : pred_ok r P) w w' f :
  WInv r ks0 P w -> P f -> w_keys w' = w_keys (after_key r w) ->
  queued (w_log w') = queued (w_log w) ++ [sent_frame r w f] ->
  WInv r ks0 P w'.
Proof.
  intros [HF [d [Hd Hk]]] Hf Hkeys Hq. rewrite after_key_keys in Hkeys.
  split.
  - rewrite Hq. apply Forall_app. split; [exact HF|]. constructor; [|constructor].
    apply (P_sent r P HP). exact Hf.
  - unfold KeyInv. rewrite Hq, Hkeys. destruct r.
    + exists d. split; assumption.
    + exists (d ++ [head_key (w_keys w)]). split; [apply draws_snoc; exact Hd|].
      destruct Hk as [Hm Hs]. cbn [sent_frame]. destruct (next_key_spec w) as [-> _].
      split.
      * apply Forall_app. split; [exact Hm|]. constructor; [|constructor].
        eexists. reflexivity.
      * rewrite fkeys_app. cbn. apply subseq_snoc_take. exact Hs.
Qed.

Lemma CInv_set_additional r P x f : CInv r P x -> P f -> CInv r P (set_additional x f).
Proof.
  unfold CInv. intros [Hr Ha] Hf. rewrite x_role_set_additional. split; [exact Hr|].
  unfold set_additional. destruct (x_additional x) as [g|] eqn:E; cbn [x_additional set_additional_raw].
  - destruct (opcode_eqb (h_opcode (f_hdr g)) (OCtl Pong)); cbn [x_additional set_additional_raw];
      [exact Hf|rewrite E; exact Ha].
  - exact Hf.
Qed.

(* ---- the calls that neither draw a key nor queue a frame ---- *)

Lemma queued_ext_wr log evs : Forall is_wr_ev evs -> queued (log ++ evs) = queued log.
Proof. intros H. rewrite queued_app, (queued_only_writes _ H). apply app_nil_r. Qed.

Lemma write_out_buffer_same c w res c' w' :
  write_out_buffer c w = (res, c', w') ->
  w_keys w' = w_keys w /\ queued (w_log w') = queued (w_log w).
Proof.
  intros H. apply write_out_buffer_spec in H.
  destruct H as [evs [El [_ [Hw [_ [_ [_ [_ Hk]]]]]]]]. split; [exact Hk|].
  rewrite El. apply queued_ext_wr. exact Hw.
Qed.

Lemma w_flush_same w res w' :
  w_flush w = (res, w') -> w_keys w' = w_keys w /\ queued (w_log w') = queued (w_log w).
Proof.
  intros H. apply w_flush_spec in H. destruct H as [fr [El [Hk _]]]. split; [exact Hk|].
  rewrite El, queued_app. cbn [queued]. apply app_nil_r.
Qed.

Lemma read_frame_same ms um au c w res c' w' :
  read_frame ms um au c w = (res, c', w') ->
  w_keys w' = w_keys w /\ queued (w_log w') = queued (w_log w).
Proof.
  intros H. split.
  - unfold read_frame in H.
    destruct (read_frame_loop (limit_of ms) (w_rds w) c (w_log w)) as [[[r0 c0] rds0] log0].
    repeat dm_in H; inv H; reflexivity.
  - apply read_frame_spec in H. destruct H as [_ [evs [-> Hr]]].
    rewrite queued_app, (queued_only_reads _ Hr). apply app_nil_r.
Qed.

(* ---- WebSocketContext::buffer_frame ---- *)

Lemma buffer_frame_kspec x f w res x' w' :
  buffer_frame x f w = (res, x', w') ->
  x_role x' = x_role x /\ x_additional x' = x_additional x /\
  w_keys w' = w_keys (after_key (x_role x) w) /\
  ((res = RErr (EWriteBufferFull (sent_frame (x_role x) w f)) /\ queued (w_log w') = queued (w_log w))
   \/ ((forall f', res <> RErr (EWriteBufferFull f')) /\
       queued (w_log w') = queued (w_log w) ++ [sent_frame (x_role x) w f])).
Proof.
  rewrite buffer_frame_unfold. cbv zeta.
  destruct (codec_buffer_frame (x_codec x) (sent_frame (x_role x) w f) (after_key (x_role x) w))
    as [[r0 c0] w0] eqn:EC.
  destruct (check_connection_reset r0 (x_state x)) as [r1 s1] eqn:ER.
  intros H. inv H. cbn [x_role x_additional set_state set_codec].
  split; [reflexivity|]. split; [reflexivity|].
  apply codec_buffer_frame_spec in EC. apply check_reset_spec in ER.
  destruct EC as [[_ [-> [-> ->]]]|[_ [evs [El [_ [Hw [_ [_ [Hk [Hr _]]]]]]]]]].
  - split; [reflexivity|]. left.
    destruct ER as [[-> _]|[Hx _]]; [|discriminate Hx].
    split; [reflexivity|]. rewrite after_key_log. reflexivity.
  - split; [exact Hk|]. right. split.
    + intros f' Hf'. destruct ER as [[-> _]|[_ [_ [-> _]]]]; [|discriminate Hf'].
      destruct Hr as [[Hr _]|[k [Hr _]]]; rewrite Hr in Hf'; discriminate Hf'.
    + rewrite El, after_key_log, queued_app. cbn [queued]. f_equal.
      rewrite (queued_only_writes _ Hw). reflexivity.
Qed.

Lemma buffer_frame_inv r ks0 P (HP : pred_ok r P) x f w res x' w' :
  buffer_frame x f w = (res, x', w') -> CInv r P x -> WInv r ks0 P w -> P f ->
  CInv r P x' /\ WInv r ks0 P w' /\ (forall f', res = RErr (EWriteBufferFull f') -> P f').
Proof.
  intros H [Hr Ha] Hw Hf. apply buffer_frame_kspec in H.
  destruct H as [Hr' [Ha' [Hk Hq]]]. rewrite Hr in Hk, Hq.
  split; [unfold CInv; rewrite Ha'; split; [congruence|exact Ha]|].
  destruct Hq as [[-> Hq]|[Hn Hq]].
  - split; [eapply WInv_skip; eassumption|].
    intros f' E. injection E as E'. rewrite <- E'. apply (P_sent r P HP). exact Hf.
  - split; [eapply WInv_queue; eassumption|].
    intros f' E. exfalso. exact (Hn f' E).
Qed.

(* ---- WebSocketContext::_write, in three pieces ---- *)

Definition write_fin (r1 : res bool) (x1 : ctx) (w1 : world) : res bool * ctx * world :=
  match r1 with
  | ROk should_flush =>
      if role_eqb (x_role x1) Server && closing_done (x_state x1)
         && (match x_additional x1 with None => true | Some _ => false end) then
        let '(rw, c', w2) := write_out_buffer (x_codec x1) w1 in
        match rw with
        | ROk _ => (RErr EConnectionClosed, set_state (set_codec x1 c') Terminated, w2)
        | RErr e => (RErr e, set_codec x1 c', w2)
        | RPanic s => (RPanic s, set_codec x1 c', w2)
        | ROutOfFuel => (ROutOfFuel, set_codec x1 c', w2)
        end
      else (ROk should_flush, x1, w1)
  | _ => (r1, x1, w1)
  end.

Definition write_add (x0 : ctx) (w0 : world) : res bool * ctx * world :=
  match x_additional x0 with
  | Some msg =>
      let xa := set_additional_raw x0 None in
      let '(rb, xb, wb) := buffer_frame xa msg w0 in
      match rb with
      | RErr (EWriteBufferFull f') => (ROk false, set_additional xb f', wb)
      | RErr e => (RErr e, set_unflushed xb true, wb)
      | RPanic s => (RPanic s, xb, wb)
      | ROutOfFuel => (ROutOfFuel, xb, wb)
      | ROk _ => (ROk true, set_unflushed xb true, wb)
      end
  | None => (ROk (x_unflushed x0), x0, w0)
  end.

Lemma write__eq x data w :
  write_ x data w =
  let '(r0, x0, w0) :=
    match data with Some f => buffer_frame x f w | None => (ROk tt, x, w) end in
  match r0 with
  | RErr e => (RErr e, x0, w0)
  | RPanic s => (RPanic s, x0, w0)
  | ROutOfFuel => (ROutOfFuel, x0, w0)
  | ROk _ => let '(r1, x1, w1) := write_add x0 w0 in write_fin r1 x1 w1
  end.
Proof. reflexivity. Qed.

Lemma write_add_inv r ks0 P (HP : pred_ok r P) x0 w0 r1 x1 w1 :
  write_add x0 w0 = (r1, x1, w1) -> CInv r P x0 -> WInv r ks0 P w0 ->
  CInv r P x1 /\ WInv r ks0 P w1.
Proof.
  unfold write_add. intros H Hc Hw.
  destruct (x_additional x0) as [msg|] eqn:Ea; [|inv H; split; assumption].
  cbv zeta in H.
  destruct (buffer_frame (set_additional_raw x0 None) msg w0) as [[rb xb] wb] eqn:EB.
  assert (Hca : CInv r P (set_additional_raw x0 None)) by (cinv; tauto).
  assert (Hm : P msg) by (destruct Hc as [_ Hc]; rewrite Ea in Hc; exact Hc).
  destruct (buffer_frame_inv r ks0 P HP _ _ _ _ _ _ EB Hca Hw Hm) as [Hcb [Hwb Hfull]].
  destruct rb as [u|e|s|]; try (inv H; split; assumption).
  destruct e; try (inv H; split; assumption).
  inv H. split; [|exact Hwb]. apply CInv_set_additional; [exact Hcb|]. apply Hfull. reflexivity.
Qed.

Lemma write_fin_inv r ks0 P r1 x1 w1 res x' w' :
  write_fin r1 x1 w1 = (res, x', w') -> CInv r P x1 -> WInv r ks0 P w1 ->
  CInv r P x' /\ WInv r ks0 P w'.
Proof.
  unfold write_fin. intros H Hc Hw.
  destruct r1 as [sf|e|s|]; try (inv H; split; assumption).
  destruct (role_eqb (x_role x1) Server && closing_done (x_state x1)
            && match x_additional x1 with None => true | Some _ => false end);
    [|inv H; split; assumption].
  destruct (write_out_buffer (x_codec x1) w1) as [[rw c'] w2] eqn:EO.
  apply write_out_buffer_same in EO. destruct EO as [Hk Hq].
  pose proof (WInv_same r ks0 P _ _ Hk Hq Hw) as Hw2.
  destruct rw; inv H; (split; [cinv; assumption|exact Hw2]).
Qed.

Lemma write__inv r ks0 P (HP : pred_ok r P) x data w res x' w' :
  write_ x data w = (res, x', w') -> CInv r P x -> WInv r ks0 P w ->
  (forall f, data = Some f -> P f) ->
  CInv r P x' /\ WInv r ks0 P w'.
Proof.
  rewrite write__eq. intros H Hc Hw Hd.
  assert (H0 : forall r0 x0 w0,
            match data with Some f => buffer_frame x f w | None => (ROk tt, x, w) end = (r0, x0, w0) ->
            CInv r P x0 /\ WInv r ks0 P w0).
  { intros r0 x0 w0 E. destruct data as [f|].
    - destruct (buffer_frame_inv r ks0 P HP _ _ _ _ _ _ E Hc Hw (Hd f eq_refl)) as [A [B _]].
      split; assumption.
    - inv E. split; assumption. }
  destruct (match data with Some f => buffer_frame x f w | None => (ROk tt, x, w) end)
    as [[r0 x0] w0].
  destruct (H0 _ _ _ eq_refl) as [Hc0 Hw0].
  destruct r0 as [u|e|s|]; try (inv H; split; assumption).
  destruct (write_add x0 w0) as [[r1 x1] w1] eqn:EA.
  destruct (write_add_inv r ks0 P HP _ _ _ _ _ EA Hc0 Hw0) as [Hc1 Hw1].
  eapply write_fin_inv; eassumption.
Qed.

(* ---- flush, close, write ---- *)

Lemma flush_inv r ks0 P (HP : pred_ok r P) x w res x' w' :
  flush x w = (res, x', w') -> CInv r P x -> WInv r ks0 P w -> CInv r P x' /\ WInv r ks0 P w'.
Proof.
  unfold flush. intros H Hc Hw.
  destruct (write_ x None w) as [[r0 x0] w0] eqn:EW.
  destruct (write__inv r ks0 P HP _ _ _ _ _ _ EW Hc Hw ltac:(discriminate)) as [Hc0 Hw0].
  destruct r0 as [b|e|s|]; try (inv H; split; assumption).
  destruct (write_out_buffer (x_codec x0) w0) as [[r1 c1] w1] eqn:EO.
  apply write_out_buffer_same in EO. destruct EO as [Hk Hq].
  pose proof (WInv_same r ks0 P _ _ Hk Hq Hw0) as Hw1.
  destruct r1 as [u|e|s|]; try (inv H; split; [cinv; assumption|exact Hw1]).
  destruct (w_flush w1) as [r2 w2] eqn:EF.
  apply w_flush_same in EF. destruct EF as [Hk2 Hq2].
  pose proof (WInv_same r ks0 P _ _ Hk2 Hq2 Hw1) as Hw2.
  destruct r2; inv H; (split; [cinv; assumption|exact Hw2]).
Qed.

Lemma close_inv r ks0 P (HP : pred_ok r P) x code w res x' w' :
  close x code w = (res, x', w') -> CInv r P x -> WInv r ks0 P w -> P (frame_close code) ->
  CInv r P x' /\ WInv r ks0 P w'.
Proof.
  unfold close. intros H Hc Hw Hf.
  destruct (x_state x); try (eapply flush_inv; eassumption).
  eapply flush_inv; [exact HP|exact H| |exact Hw]. cinv. tauto.
Qed.

(* the frame a user message becomes *)
Definition msg_frame (m : message) : frame :=
  match m with
  | MText d => frame_message d (OData Text) true
  | MBinary d => frame_message d (OData Binary) true
  | MPing d => frame_ping d
  | MPong d => frame_pong d
  | MClose c => frame_close c
  | MFrame f => f
  end.

Lemma write_data_inv r ks0 P (HP : pred_ok r P) x f w res x' w' :
  write_data x f w = (res, x', w') -> CInv r P x -> WInv r ks0 P w -> P f ->
  CInv r P x' /\ WInv r ks0 P w'.
Proof.
  unfold write_data. intros H Hc Hw Hf.
  destruct (write_ x (Some f) w) as [[r0 x0] w0] eqn:EW.
  assert (Hd : forall g, Some f = Some g -> P g) by (intros g E; inv E; exact Hf).
  destruct (write__inv r ks0 P HP _ _ _ _ _ _ EW Hc Hw Hd) as [Hc0 Hw0].
  destruct r0 as [[|]|e|s|]; try (inv H; split; assumption).
  eapply flush_inv; eassumption.
Qed.

Lemma write_inv r ks0 P (HP : pred_ok r P) x m w res x' w' :
  write x m w = (res, x', w') -> CInv r P x -> WInv r ks0 P w -> P (msg_frame m) ->
  CInv r P x' /\ WInv r ks0 P w'.
Proof.
  intros H Hc Hw Hf.
  destruct (data_frame m) as [f|] eqn:Ed.
  - rewrite (write_data_eq _ _ _ _ Ed) in H.
    destruct (is_terminated (x_state x)); [inv H; split; assumption|].
    destruct (negb (is_active (x_state x))); [inv H; split; assumption|].
    eapply write_data_inv; try eassumption.
    destruct m; inv Ed; exact Hf.
  - unfold write in H.
    destruct (is_terminated (x_state x)); [inv H; split; assumption|].
    destruct (negb (is_active (x_state x))); [inv H; split; assumption|].
    destruct m; try discriminate Ed; cbn [msg_frame] in Hf.
    + destruct (write_ (set_additional x (frame_pong b)) None w) as [[r0 x0] w0] eqn:EW.
      assert (Hca : CInv r P (set_additional x (frame_pong b)))
        by (apply CInv_set_additional; assumption).
      destruct (write__inv r ks0 P HP _ _ _ _ _ _ EW Hca Hw ltac:(discriminate)) as [Hc0 Hw0].
      destruct r0; inv H; split; assumption.
    + eapply close_inv; eassumption.
Qed.

(* ---- the read side: do_close, read_message_frame, read ---- *)

Lemma frame_into_close_small (p : bytes) (cl : option close_frame) :
  frame_into_close p = ROk cl -> blen p <= 125 -> close_small cl.
Proof.
  unfold frame_into_close. intros H Hp.
  destruct p as [|a [|b reason]]; try discriminate H.
  - inv H. exact I.
  - destruct (is_utf8 reason); inv H. unfold close_small.
    rewrite !HeaderP.blen_cons in Hp. lia.
Qed.

Lemma do_close_inv r P (HP : pred_ok r P) x cl res x' :
  do_close x cl = (res, x') -> CInv r P x -> close_small cl -> CInv r P x'.
Proof.
  unfold do_close. intros H Hc Hs.
  destruct (x_state x); inv H; try exact Hc; try (cinv; assumption).
  apply CInv_set_additional; [cinv; assumption|]. apply (P_close r P HP).
  destruct cl as [[code reason]|]; [|exact I].
  destruct (close_allowed code); [exact Hs|].
  unfold close_small, blen. cbn [length]. lia.
Qed.

Lemma read_message_frame_inv r ks0 P (HP : pred_ok r P) x w res x' w' :
  read_message_frame x w = (res, x', w') -> CInv r P x -> WInv r ks0 P w ->
  CInv r P x' /\ WInv r ks0 P w'.
Proof.
  unfold read_message_frame. intros H Hc Hw.
  destruct (read_frame (cfg_max_frame_size (x_cfg x)) (role_eqb (x_role x) Server)
              (cfg_accept_unmasked (x_cfg x)) (x_codec x) w) as [[r0 c1] w1] eqn:ER.
  apply read_frame_same in ER. destruct ER as [Hk Hq].
  pose proof (WInv_same r ks0 P _ _ Hk Hq Hw) as Hw1.
  destruct (check_connection_reset r0 (x_state x)) as [r0' s1] eqn:EC.
  cbv zeta in H.
  set (x1 := set_state (set_codec x c1) s1) in *.
  assert (Hc1 : CInv r P x1) by (subst x1; cinv; assumption).
  clearbody x1. clear EC Hk Hq Hw Hc.
  repeat dm_in H;
    try match goal with
    | E : do_close _ _ = _ |- _ =>
        eapply (do_close_inv r P HP) in E;
          [|exact Hc1|eapply frame_into_close_small; [eassumption|lia]]
    end;
    inv H; (split; [|exact Hw1]);
    first [ assumption
          | cinv; assumption
          | apply CInv_set_additional; [assumption|apply (P_pong r P HP); lia] ].
Qed.

Definition read_pre (x : ctx) (w : world) : res unit * ctx * world :=
  if (match x_additional x with Some _ => true | None => false end) || x_unflushed x then
    let '(r, x', w') := flush x w in
    match r with
    | ROk _ => (ROk tt, x', w')
    | RErr (EIo WouldBlock) => (ROk tt, set_unflushed x' true, w')
    | _ => (r, x', w')
    end
  else if role_eqb (x_role x) Server && negb (can_read (x_state x)) then
    let '(rw, c', w') := write_out_buffer (x_codec x) w in
    match rw with
    | ROk _ => (RErr EConnectionClosed, set_state (set_codec x c') Terminated, w')
    | _ => (rw, set_codec x c', w')
    end
  else (ROk tt, x, w).

Lemma read_loop_S fuel x w :
  read_loop (S fuel) x w =
  let '(r0, x0, w0) := read_pre x w in
  match r0 with
  | ROk _ =>
      let '(r1, x1, w1) := read_message_frame x0 w0 in
      match r1 with
      | ROk (Some m) => (ROk m, x1, w1)
      | ROk None => read_loop fuel x1 w1
      | RErr e => (RErr e, x1, w1)
      | RPanic s => (RPanic s, x1, w1)
      | ROutOfFuel => (ROutOfFuel, x1, w1)
      end
  | RErr e => (RErr e, x0, w0)
  | RPanic s => (RPanic s, x0, w0)
  | ROutOfFuel => (ROutOfFuel, x0, w0)
  end.
Proof. reflexivity. Qed.

Lemma read_pre_inv r ks0 P (HP : pred_ok r P) x w res x' w' :
  read_pre x w = (res, x', w') -> CInv r P x -> WInv r ks0 P w -> CInv r P x' /\ WInv r ks0 P w'.
Proof.
  unfold read_pre. intros H Hc Hw.
  destruct ((match x_additional x with Some _ => true | None => false end) || x_unflushed x).
  - destruct (flush x w) as [[r0 x0] w0] eqn:EF.
    destruct (flush_inv r ks0 P HP _ _ _ _ _ EF Hc Hw) as [Hc0 Hw0].
    repeat dm_in H; inv H; (split; [|exact Hw0]); first [assumption|cinv; assumption].
  - destruct (role_eqb (x_role x) Server && negb (can_read (x_state x))); [|inv H; split; assumption].
    destruct (write_out_buffer (x_codec x) w) as [[rw c'] w2] eqn:EO.
    apply write_out_buffer_same in EO. destruct EO as [Hk Hq].
    pose proof (WInv_same r ks0 P _ _ Hk Hq Hw) as Hw2.
    destruct rw; inv H; (split; [cinv; assumption|exact Hw2]).
Qed.

Lemma read_loop_inv r ks0 P (HP : pred_ok r P) (fuel : nat) : forall x w res x' w',
  read_loop fuel x w = (res, x', w') -> CInv r P x -> WInv r ks0 P w ->
  CInv r P x' /\ WInv r ks0 P w'.
Proof.
  induction fuel as [|fuel IH]; intros x w res x' w' H Hc Hw.
  - cbn [read_loop] in H. inv H. split; assumption.
  - rewrite read_loop_S in H.
    destruct (read_pre x w) as [[r0 x0] w0] eqn:EP.
    destruct (read_pre_inv r ks0 P HP _ _ _ _ _ EP Hc Hw) as [Hc0 Hw0].
    destruct r0 as [u|e|s|]; try (inv H; split; assumption).
    destruct (read_message_frame x0 w0) as [[r1 x1] w1] eqn:ER.
    destruct (read_message_frame_inv r ks0 P HP _ _ _ _ _ ER Hc0 Hw0) as [Hc1 Hw1].
    destruct r1 as [[m|]|e|s|]; try (inv H; split; assumption).
    eapply IH; eassumption.
Qed.

Lemma read_inv r ks0 P (HP : pred_ok r P) x w res x' w' :
  read x w = (res, x', w') -> CInv r P x -> WInv r ks0 P w -> CInv r P x' /\ WInv r ks0 P w'.
Proof.
  unfold read. intros H Hc Hw.
  destruct (is_terminated (x_state x)); [inv H; split; assumption|].
  eapply read_loop_inv; eassumption.
Qed.

(* ---- run_op / run_ops ---- *)

(* what the invariant needs of the user's operations: the frame of each message satisfies P *)
Definition op_P (P : frame -> Prop) (o : op) : Prop :=
  match o with
  | OpWrite m => P (msg_frame m)
  | OpClose c => P (frame_close c)
  | _ => True
  end.

Lemma run_op_inv r ks0 P (HP : pred_ok r P) x o w res x' w' :
  run_op x o w = (res, x', w') -> op_P P o -> CInv r P x -> WInv r ks0 P w ->
  CInv r P x' /\ WInv r ks0 P w'.
Proof.
  intros H Ho Hc Hw. destruct o; cbn [run_op op_P] in *.
  - destruct (read x w) as [[r1 x1] w1] eqn:E. inv H. eapply read_inv; eassumption.
  - destruct (write x m w) as [[r1 x1] w1] eqn:E. inv H. eapply write_inv; eassumption.
  - destruct (flush x w) as [[r1 x1] w1] eqn:E. inv H. eapply flush_inv; eassumption.
  - destruct (close x c w) as [[r1 x1] w1] eqn:E. inv H. eapply close_inv; eassumption.
  - inv H. split; assumption.
  - inv H. split; assumption.
  - destruct (config_valid _); inv H; (split; [|assumption]); [cinv; assumption|assumption].
Qed.

Lemma run_ops_inv r ks0 P (HP : pred_ok r P) ops : forall x w rs x' w',
  run_ops x ops w = (rs, x', w') -> Forall (op_P P) ops -> CInv r P x -> WInv r ks0 P w ->
  CInv r P x' /\ WInv r ks0 P w'.
Proof.
  induction ops as [|o ops IH]; intros x w rs x' w' H Ho Hc Hw; cbn [run_ops] in H.
  - inv H. split; assumption.
  - destruct (run_op x o w) as [[r1 x1] w1] eqn:E1.
    destruct (run_ops x1 ops w1) as [[rs2 x2] w2] eqn:E2. inv H.
    inversion Ho as [|o' ops' Ho1 Ho2]; subst.
    destruct (run_op_inv r ks0 P HP _ _ _ _ _ _ E1 Ho1 Hc Hw) as [Hc1 Hw1].
    eapply IH; eassumption.
Qed.

(* reachable states: from the constructor with an empty log, through any list of operations *)
Lemma reach_inv r P (HP : pred_ok r P) part cfg x0 ops w0 rs x w :
  ctx_new r part cfg = Some x0 -> w_log w0 = [] -> Forall (op_P P) ops ->
  run_ops x0 ops w0 = (rs, x, w) ->
  CInv r P x /\ WInv r (w_keys w0) P w.
Proof.
  intros Hn Hl Ho Hr. eapply run_ops_inv; [exact HP|exact Hr|exact Ho| |].
  - apply ctx_new_spec in Hn. destruct Hn as [_ [_ [_ [Hrole [_ [Ha _]]]]]].
    unfold CInv. rewrite Ha. split; [exact Hrole|exact I].
  - unfold WInv, KeyInv. rewrite Hl. cbn [queued]. split; [constructor|].
    exists []. split; [constructor|]. destruct r; [reflexivity|]. split; constructor.
Qed.

(* ------------------------------------------------------------------------------------------ *)
(** * 5. instance 1: canonical frames — the wire is well formed *)

(* FIN set, reserved bits clear, one of the five opcodes *)
Definition canon (f : frame) : Prop :=
  h_fin (f_hdr f) = true /\ h_rsv1 (f_hdr f) = false /\ h_rsv2 (f_hdr f) = false /\
  h_rsv3 (f_hdr f) = false /\ exists kd, h_opcode (f_hdr f) = kind_opcode kd.

(* a frame the protocol layer may hand to buffer_frame: canonical, not masked yet if we are the
   server, payload length a u64 *)
Definition P_wire (r : role) (f : frame) : Prop :=
  canon f /\ (r = Server -> h_mask (f_hdr f) = None) /\ blen (f_payload f) < two64.

Ltac fsimpl := cbn [f_hdr f_payload h_fin h_rsv1 h_rsv2 h_rsv3 h_opcode h_mask].

Lemma P_wire_ok (r : role) : pred_ok r (P_wire r).
Proof.
  constructor.
  - intros w f [Hc [Hm Hn]]. destruct r; [split; [|split]; assumption|].
    unfold P_wire, canon, sent_frame, mask_with. fsimpl.
    split; [exact Hc|]. split; [discriminate|exact Hn].
  - intros d Hd. unfold P_wire, canon, frame_pong. fsimpl.
    repeat split; try reflexivity; [exists KPong; reflexivity|unfold two64; lia].
  - intros cl Hs. unfold P_wire, canon, frame_close, default_header. fsimpl.
    repeat split; try reflexivity; [exists KClose; reflexivity|].
    destruct cl as [[code reason]|]; [|reflexivity].
    unfold close_small in Hs. rewrite HeaderP.blen_app, to_be_blen. unfold two64. lia.
Qed.

Lemma P_wire_item r f :
  P_wire r f -> (r = Client -> is_masked f) -> exists it, f = item_frame it /\ item_ok r it.
Proof.
  destruct f as [[fin r1 r2 r3 opc mk] p]. unfold P_wire, canon, is_masked. cbn.
  intros [[-> [-> [-> [-> [kd ->]]]]] [Hm Hn]] Hc.
  exists (mkItem kd mk p). split; [reflexivity|]. split; [|exact Hn].
  unfold role_key. cbn. destruct mk as [k|]; destruct r; try reflexivity.
  - specialize (Hm eq_refl). discriminate Hm.
  - destruct (Hc eq_refl) as [k Hk]. discriminate Hk.
Qed.

Lemma frames_items r (fs : list frame) :
  Forall (P_wire r) fs -> (r = Client -> Forall is_masked fs) ->
  exists its, fs = map item_frame its /\ Forall (item_ok r) its.
Proof.
  induction 1 as [|f fs Hf _ IH]; intros Hm.
  - exists []. split; [reflexivity|constructor].
  - destruct IH as [its [-> Hok]].
    { intros E. specialize (Hm E). inversion Hm; assumption. }
    destruct (P_wire_item r f Hf) as [it [-> Hi]].
    { intros E. specialize (Hm E). inversion Hm; assumption. }
    exists (it :: its). split; [reflexivity|constructor; assumption].
Qed.

(* the keys of the masked items of a list, in order *)
Definition item_keys (its : list witem) : list key :=
  flat_map (fun it => match it_key it with Some k => [k] | None => [] end) its.

Lemma fkeys_items its : fkeys (map item_frame its) = item_keys its.
Proof.
  induction its as [|it its IH]; [reflexivity|].
  unfold fkeys, item_keys in *. cbn [map flat_map]. rewrite IH. reflexivity.
Qed.

(* the general form: raw frames are allowed when they are canonical themselves *)
Theorem wire_wellformed_gen r part cfg x0 ops w0 rs x w :
  ctx_new r part cfg = Some x0 -> w_log w0 = [] ->
  Forall (op_P (P_wire r)) ops ->
  run_ops x0 ops w0 = (rs, x, w) ->
  exists its : list witem,
    queued (w_log w) = map item_frame its /\
    wf_wire r (wire (w_log w) ++ c_out (x_codec x)) its /\
    exists d, draws (w_keys w0) d (w_keys w) /\ subseq (item_keys its) d /\ (r = Server -> d = []).
Proof.
  intros Hn Hl Ho Hr.
  destruct (reach_inv r (P_wire r) (P_wire_ok r) _ _ _ _ _ _ _ _ Hn Hl Ho Hr) as [_ [HF [d [Hd Hk]]]].
  destruct (frames_items r (queued (w_log w)) HF) as [its [Eq Hok]].
  { intros ->. apply Hk. }
  exists its. split; [exact Eq|]. split.
  - rewrite (c10_inv _ _ _ _ _ _ _ _ _ Hn Hl Hr), Eq. apply enc_items_wf. exact Hok.
  - exists d. split; [exact Hd|]. rewrite <- fkeys_items, <- Eq. destruct r.
    + subst d. split; [|reflexivity].
      assert (E : fkeys (queued (w_log w)) = []); [|rewrite E; constructor].
      clear -HF. induction HF as [|f fs [_ [Hm _]] _ IH]; [reflexivity|].
      cbn. rewrite (Hm eq_refl). exact IH.
    + split; [apply Hk|discriminate].
Qed.

(* user operations: everything except raw frames; lengths are usize values *)
Definition msg_len (m : message) : N :=
  match m with
  | MText d | MBinary d | MPing d | MPong d => blen d
  | MClose (Some (_, reason)) => 2 + blen reason
  | MClose None => 0
  | MFrame f => blen (f_payload f)
  end.

Definition op_no_raw (o : op) : Prop :=
  match o with OpWrite (MFrame _) => False | _ => True end.

Definition op_len_u64 (o : op) : Prop :=
  match o with
  | OpWrite m => msg_len m < two64
  | OpClose c => msg_len (MClose c) < two64
  | _ => True
  end.

Lemma op_user_P_wire r o : op_no_raw o -> op_len_u64 o -> op_P (P_wire r) o.
Proof.
  assert (Hcl : forall c, msg_len (MClose c) < two64 -> P_wire r (frame_close c)).
  { intros c Hl. unfold P_wire, canon, frame_close, default_header. fsimpl.
    repeat split; try reflexivity; [exists KClose; reflexivity|].
    destruct c as [[code reason]|]; [|reflexivity].
    cbn [msg_len] in Hl. rewrite HeaderP.blen_app, to_be_blen. exact Hl. }
  destruct o; cbn [op_no_raw op_len_u64 op_P]; try (intros; exact I).
  - destruct m; cbn [msg_frame msg_len]; intros Hr Hl; try contradiction; try (apply Hcl; exact Hl);
      unfold P_wire, canon, frame_message, frame_ping, frame_pong; fsimpl;
      (repeat split; try reflexivity; [|exact Hl]).
    + exists KText; reflexivity.
    + exists KBinary; reflexivity.
    + exists KPing; reflexivity.
    + exists KPong; reflexivity.
  - intros _ Hl. apply Hcl. exact Hl.
Qed.

Theorem wire_wellformed r part cfg x0 ops w0 rs x w :
  ctx_new r part cfg = Some x0 -> w_log w0 = [] ->
  Forall op_no_raw ops -> Forall op_len_u64 ops ->
  run_ops x0 ops w0 = (rs, x, w) ->
  exists its : list witem,
    queued (w_log w) = map item_frame its /\
    wf_wire r (wire (w_log w) ++ c_out (x_codec x)) its /\
    exists d, draws (w_keys w0) d (w_keys w) /\ subseq (item_keys its) d /\ (r = Server -> d = []).
Proof.
  intros Hn Hl H1 H2. apply (wire_wellformed_gen r part cfg); try assumption.
  rewrite Forall_forall in *. intros o Ho. apply op_user_P_wire; auto.
Qed.

(* ------------------------------------------------------------------------------------------ *)
(** * 6. instance 2: Pong and Close frames carry at most 125 payload bytes *)

Definition is_reply_op (o : opcode) : Prop := o = OCtl Pong \/ o = OCtl Close.

Definition P_small (f : frame) : Prop :=
  is_reply_op (h_opcode (f_hdr f)) -> blen (f_payload f) <= 125.

Lemma frame_close_blen (cl : option close_frame) :
  blen (f_payload (frame_close cl)) =
  match cl with Some (_, reason) => 2 + blen reason | None => 0 end.
Proof.
  unfold frame_close. fsimpl. destruct cl as [[code reason]|]; [|reflexivity].
  rewrite HeaderP.blen_app, to_be_blen. reflexivity.
Qed.

Lemma P_small_ok (r : role) : pred_ok r P_small.
Proof.
  constructor.
  - intros w f Hf. destruct r; [exact Hf|]. unfold P_small, sent_frame, mask_with. fsimpl. exact Hf.
  - intros d Hd _. exact Hd.
  - intros cl Hs _. rewrite frame_close_blen. destruct cl as [[code reason]|]; [exact Hs|lia].
Qed.

(* the excluded preconditions: a user-supplied Pong or Close (or raw Pong/Close frame) above 125 *)
Definition op_ctl_small (o : op) : Prop :=
  match o with
  | OpWrite (MPong d) => blen d <= 125
  | OpWrite (MClose c) | OpClose c => close_small c
  | OpWrite (MFrame f) => P_small f
  | _ => True
  end.

Lemma P_small_close c : close_small c -> P_small (frame_close c).
Proof. intros Hs _. rewrite frame_close_blen. destruct c as [[code reason]|]; [exact Hs|lia]. Qed.

Lemma op_ctl_small_P o : op_ctl_small o -> op_P P_small o.
Proof.
  destruct o; cbn [op_ctl_small op_P]; try (intros; exact I).
  - destruct m; cbn [msg_frame]; intros H.
    + intros [E|E]; discriminate E.
    + intros [E|E]; discriminate E.
    + intros [E|E]; discriminate E.
    + intros _. exact H.
    + apply P_small_close. exact H.
    + exact H.
  - apply P_small_close.
Qed.

Theorem auto_reply_size r part cfg x0 ops w0 rs x w :
  ctx_new r part cfg = Some x0 -> w_log w0 = [] ->
  Forall op_ctl_small ops ->
  run_ops x0 ops w0 = (rs, x, w) ->
  Forall P_small (queued (w_log w)) /\
  match x_additional x with Some f => P_small f | None => True end.
Proof.
  intros Hn Hl Ho Hr.
  assert (Ho' : Forall (op_P P_small) ops).
  { rewrite Forall_forall in *. intros o Hi. apply op_ctl_small_P. auto. }
  destruct (reach_inv r P_small (P_small_ok r) _ _ _ _ _ _ _ _ Hn Hl Ho' Hr) as [[_ Ha] [HF _]].
  split; assumption.
Qed.

(* histories in which the user sends no Pong, no Close and no raw frame: every Pong and Close
   is then one the library created itself, and no precondition on sizes is left *)
Definition op_no_user_reply (o : op) : Prop :=
  match o with
  | OpWrite (MPong _) | OpWrite (MClose _) | OpWrite (MFrame _) | OpClose _ => False
  | _ => True
  end.

Lemma op_no_user_reply_small o : op_no_user_reply o -> op_ctl_small o.
Proof.
  destruct o as [|m| |c| | |]; cbn [op_no_user_reply op_ctl_small]; try (intros; exact I);
    try contradiction.
  destruct m; intros H; try contradiction; exact I.
Qed.

Theorem auto_reply_size_pure r part cfg x0 ops w0 rs x w :
  ctx_new r part cfg = Some x0 -> w_log w0 = [] ->
  Forall op_no_user_reply ops ->
  run_ops x0 ops w0 = (rs, x, w) ->
  Forall P_small (queued (w_log w)) /\
  match x_additional x with Some f => P_small f | None => True end.
Proof.
  intros Hn Hl Ho. apply (auto_reply_size r part cfg); try assumption.
  rewrite Forall_forall in *. intros o Hi. apply op_no_user_reply_small. auto.
Qed.

(* ---- locally: what read_message_frame (the only place where the library creates a reply) parks *)

Definition auto_reply (f : frame) : Prop :=
  (exists d, f = frame_pong d /\ blen d <= 125) \/
  (exists cl, f = frame_close cl /\ close_small cl).

Lemma auto_reply_small f : auto_reply f -> blen (f_payload f) <= 125.
Proof.
  intros [[d [-> Hd]]|[cl [-> Hs]]]; [exact Hd|].
  rewrite frame_close_blen. destruct cl as [[code reason]|]; [exact Hs|lia].
Qed.

Lemma auto_reply_canon f : auto_reply f -> canon f /\ h_mask (f_hdr f) = None.
Proof.
  intros [[d [-> _]]|[cl [-> _]]]; unfold canon; cbn; repeat split;
    [exists KPong|exists KClose]; reflexivity.
Qed.

Definition parks (x x' : ctx) : Prop :=
  x_additional x' = x_additional x \/ exists f, x_additional x' = Some f /\ auto_reply f.

Lemma parks_set_additional x f : auto_reply f -> parks x (set_additional x f).
Proof.
  intros Hf. unfold parks, set_additional.
  destruct (x_additional x) as [g|] eqn:E; cbn [x_additional set_additional_raw].
  - destruct (opcode_eqb (h_opcode (f_hdr g)) (OCtl Pong)); cbn [x_additional set_additional_raw].
    + right. exists f. split; [reflexivity|exact Hf].
    + left. exact E.
  - right. exists f. split; [reflexivity|exact Hf].
Qed.

Lemma do_close_parks x cl res x' :
  do_close x cl = (res, x') -> close_small cl -> parks x x'.
Proof.
  unfold do_close. intros H Hs.
  destruct (x_state x); inv H; try (left; reflexivity).
  destruct (parks_set_additional (set_state x ClosedByPeer)
    (frame_close match cl with
                 | Some (code, reason) =>
                     if close_allowed code then Some (code, reason)
                     else Some (CProtocol, [80; 114; 111; 116; 111; 99; 111; 108; 32; 118; 105; 111; 108; 97; 116; 105; 111; 110])
                 | None => None
                 end)) as [E|E].
  - right. eexists. split; [reflexivity|].
    destruct cl as [[code reason]|]; [|exact I].
    destruct (close_allowed code); [exact Hs|].
    unfold close_small, blen. cbn [length]. lia.
  - left. exact E.
  - right. exact E.
Qed.

(* every automatic reply (pong to a ping, close reply, incl. the 1002 "Protocol violation" reply
   to a forbidden code) is canonical, unmasked and has at most 125 payload bytes *)
Lemma read_message_frame_parks x w res x' w' :
  read_message_frame x w = (res, x', w') -> parks x x'.
Proof.
  unfold read_message_frame. intros H.
  destruct (read_frame (cfg_max_frame_size (x_cfg x)) (role_eqb (x_role x) Server)
              (cfg_accept_unmasked (x_cfg x)) (x_codec x) w) as [[r0 c1] w1] eqn:ER.
  destruct (check_connection_reset r0 (x_state x)) as [r0' s1] eqn:EC.
  cbv zeta in H.
  set (x1 := set_state (set_codec x c1) s1) in *.
  assert (Ha1 : x_additional x1 = x_additional x) by reflexivity.
  clearbody x1. clear EC ER. unfold parks. rewrite <- Ha1.
  repeat dm_in H;
    try match goal with
    | E : do_close _ _ = _ |- _ =>
        eapply do_close_parks in E; [|eapply frame_into_close_small; [eassumption|lia]]
    end;
    inv H;
    first [ left; reflexivity
          | assumption
          | apply parks_set_additional; left; eexists; split; [reflexivity|lia] ].
Qed.

(* ------------------------------------------------------------------------------------------ *)
(** * 7. a strict reference decoder for the specification; the parse is unique *)

Definition nibble_kind (n : N) : option wkind :=
  if n =? 1 then Some KText else if n =? 2 then Some KBinary else if n =? 8 then Some KClose
  else if n =? 9 then Some KPing else if n =? 10 then Some KPong else None.

Definition take_exact (n : nat) (bs : bytes) : option (bytes * bytes) :=
  if (length bs <? n)%nat then None else Some (firstn n bs, skipn n bs).

(* octet i (counted from position i0) XOR key octet (i mod 4) *)
Fixpoint unmask_at (k : key) (i : nat) (bs : bytes) : bytes :=
  match bs with
  | [] => []
  | b :: r => N.lxor b (nth (i mod 4) (key4 k) 0) :: unmask_at k (S i) r
  end.

(* the length: 7-bit field, then 0/2/8 bytes; non-minimal forms are rejected *)
Definition dec_len (len7 : N) (rest : bytes) : option (N * bytes) :=
  if 127 <? len7 then None else
  let extn := if len7 =? 126 then 2%nat else if len7 =? 127 then 8%nat else 0%nat in
  match take_exact extn rest with
  | None => None
  | Some (ext, rest1) =>
      if negb (forallb (fun b => b <? 256) ext) then None else
      let n := if len7 <? 126 then len7 else be_value ext in
      if (len7 =? 126) && (n <? 126) then None else
      if (len7 =? 127) && (n <? 65536) then None else
      Some (n, rest1)
  end.

(* key (iff masked) and payload *)
Definition dec_body (masked : bool) (kd : wkind) (n : N) (rest1 : bytes) : option (witem * bytes) :=
  if masked then
    match rest1 with
    | a :: b :: c :: d :: rest2 =>
        match take_exact (N.to_nat n) rest2 with
        | Some (pay, rest3) => Some (mkItem kd (Some (a, b, c, d)) (unmask_at (a, b, c, d) 0 pay), rest3)
        | None => None
        end
    | _ => None
    end
  else
    match take_exact (N.to_nat n) rest1 with
    | Some (pay, rest3) => Some (mkItem kd None pay, rest3)
    | None => None
    end.

(* one frame from the front of bs, as an endpoint of role r must have sent it; None = malformed
   (FIN clear, RSV set, other opcode, MASK bit wrong for the role, non-minimal length) or incomplete *)
Definition spec_decode1 (r : role) (bs : bytes) : option (witem * bytes) :=
  match bs with
  | b0 :: b1 :: rest =>
      if b0 <? 128 then None else
      match nibble_kind (b0 - 128) with
      | None => None
      | Some kd =>
          let masked := match r with Client => true | Server => false end in
          if negb (Bool.eqb (128 <=? b1) masked) then None else
          match dec_len (if masked then b1 - 128 else b1) rest with
          | None => None
          | Some (n, rest1) => dec_body masked kd n rest1
          end
      end
  | _ => None
  end.

Fixpoint spec_decode_fuel (fuel : nat) (r : role) (bs : bytes) : option (list witem) :=
  match bs with
  | [] => Some []
  | _ :: _ =>
      match fuel with
      | O => None
      | S fuel' =>
          match spec_decode1 r bs with
          | Some (it, rest) =>
              match spec_decode_fuel fuel' r rest with
              | Some its => Some (it :: its)
              | None => None
              end
          | None => None
          end
      end
  end.

(* every frame has at least two bytes, so |bs| rounds are enough *)
Definition spec_decode (r : role) (bs : bytes) : option (list witem) :=
  spec_decode_fuel (length bs) r bs.

Lemma take_exact_app (a b : bytes) : take_exact (length a) (a ++ b) = Some (a, b).
Proof.
  unfold take_exact. rewrite app_length.
  destruct (length a + length b <? length a)%nat eqn:E; [apply Nat.ltb_lt in E; lia|].
  f_equal. f_equal.
  - rewrite <- (Nat.add_0_r (length a)), firstn_app_2. cbn [firstn]. apply app_nil_r.
  - rewrite skipn_app, skipn_all, Nat.sub_diag. reflexivity.
Qed.

Lemma take_exact_app_n (n : nat) (a b : bytes) : length a = n -> take_exact n (a ++ b) = Some (a, b).
Proof. intros <-. apply take_exact_app. Qed.

Lemma nibble_kind_ok (kd : wkind) :
  (128 + kind_nibble kd <? 128) = false /\ nibble_kind (128 + kind_nibble kd - 128) = Some kd.
Proof. destruct kd; split; reflexivity. Qed.

Lemma all_u8_forallb (l : bytes) : all_u8 l -> forallb (fun b => b <? 256) l = true.
Proof.
  induction 1 as [|b l Hb _ IH]; [reflexivity|]. cbn [forallb]. rewrite IH.
  apply N.ltb_lt in Hb. rewrite Hb. reflexivity.
Qed.

Lemma dec_len_ok (n len7 : N) (ext more : bytes) :
  len_field n len7 ext -> dec_len len7 (ext ++ more) = Some (n, more).
Proof.
  unfold dec_len.
  intros [[Hn [-> ->]]|[[Hn [-> [Hl [Hu Hv]]]]|[Hn [-> [Hl [Hu Hv]]]]]].
  - destruct (127 <? n) eqn:E0; [lia|].
    destruct (n =? 126) eqn:E1; [lia|]. destruct (n =? 127) eqn:E2; [lia|].
    rewrite (take_exact_app_n 0 [] more eq_refl). cbn [forallb negb andb].
    destruct (n <? 126) eqn:E3; [reflexivity|lia].
  - change (127 <? 126) with false. change (126 =? 126) with true. cbv iota.
    rewrite (take_exact_app_n 2 ext more Hl), (all_u8_forallb _ Hu). cbn [negb].
    change (126 <? 126) with false. change (126 =? 127) with false. cbv iota. rewrite Hv.
    destruct (n <? 126) eqn:E; [lia|]. reflexivity.
  - change (127 <? 127) with false. change (127 =? 126) with false. change (127 =? 127) with true.
    cbv iota.
    rewrite (take_exact_app_n 8 ext more Hl), (all_u8_forallb _ Hu). cbn [negb andb].
    change (127 <? 126) with false. cbv iota. rewrite Hv.
    destruct (n <? 65536) eqn:E; [lia|]. reflexivity.
Qed.

Lemma len_field_lt128 (n len7 : N) (ext : bytes) : len_field n len7 ext -> len7 < 128.
Proof. intros [[Hn [-> _]]|[[_ [-> _]]|[_ [-> _]]]]; lia. Qed.

Lemma unmask_at_length (k : key) (bs : bytes) : forall i, length (unmask_at k i bs) = length bs.
Proof. induction bs as [|b r IH]; intros i; cbn [unmask_at length]; [reflexivity|]. now rewrite IH. Qed.

Lemma unmask_at_nth (k : key) (bs : bytes) : forall i j, (j < length bs)%nat ->
  nth j (unmask_at k i bs) 0 = N.lxor (nth j bs 0) (nth ((i + j) mod 4) (key4 k) 0).
Proof.
  induction bs as [|b r IH]; intros i j Hj; cbn [length] in Hj; [lia|].
  destruct j as [|j]; cbn [unmask_at nth].
  - rewrite Nat.add_0_r. reflexivity.
  - rewrite IH by lia. f_equal. f_equal. f_equal. lia.
Qed.

Lemma unmask_masked (k : key) (plain pay : bytes) : masked_by k plain pay -> unmask_at k 0 pay = plain.
Proof.
  intros [Hl Hn]. apply (nth_ext _ _ 0 0).
  - rewrite unmask_at_length. exact Hl.
  - intros j Hj. rewrite unmask_at_length in Hj.
    rewrite unmask_at_nth by exact Hj. cbn [Nat.add].
    rewrite Hn by lia. apply lxor_cancel.
Qed.

Lemma to_nat_blen {A} (l : list A) : N.to_nat (blen l) = length l.
Proof. unfold blen. lia. Qed.

(* the decoder accepts every frame of the specification and returns its item *)
Lemma spec_decode1_ok (r : role) (it : witem) (fb more : bytes) :
  spec_frame r it fb -> spec_decode1 r (fb ++ more) = Some (it, more).
Proof.
  intros [len7 [ext [keyb [pay [-> [Hlen Hk]]]]]].
  pose proof (len_field_lt128 _ _ _ Hlen) as H7.
  cbn [app]. unfold spec_decode1.
  destruct (nibble_kind_ok (it_kind it)) as [-> ->].
  destruct it as [kd mk plain]. cbn [it_key it_plain it_kind] in *.
  destruct mk as [k|].
  - destruct Hk as [-> [-> Hm]]. cbn [mask_bit].
    destruct (128 <=? 128 + len7) eqn:E; [|lia]. cbn [Bool.eqb negb].
    replace (128 + len7 - 128) with len7 by lia.
    rewrite <- !app_assoc, (dec_len_ok _ _ _ _ Hlen).
    unfold dec_body. destruct k as [[[a b] c] d]. cbn [key4 app].
    destruct Hm as [Hl Hn].
    rewrite (take_exact_app_n _ pay more); [|rewrite to_nat_blen; exact Hl].
    rewrite (unmask_masked (a, b, c, d) plain pay (conj Hl Hn)). reflexivity.
  - destruct Hk as [-> [-> ->]]. cbn [mask_bit].
    replace (0 + len7) with len7 by lia.
    destruct (128 <=? len7) eqn:E; [lia|]. cbn [Bool.eqb negb].
    rewrite <- !app_assoc, (dec_len_ok _ _ _ _ Hlen). cbn [app].
    unfold dec_body.
    rewrite (take_exact_app_n _ plain more); [reflexivity|symmetry; apply to_nat_blen].
Qed.

Lemma spec_frame_length (r : role) (it : witem) (fb : bytes) : spec_frame r it fb -> (2 <= length fb)%nat.
Proof. intros [len7 [ext [keyb [pay [-> _]]]]]. cbn [app length]. lia. Qed.

Lemma wf_wire_decode_fuel (r : role) (bs : bytes) (its : list witem) :
  wf_wire r bs its -> forall fuel, (length bs <= fuel)%nat -> spec_decode_fuel fuel r bs = Some its.
Proof.
  induction 1 as [|it fb rest its Hf _ IH]; intros fuel Hfuel.
  - destruct fuel; reflexivity.
  - pose proof (spec_frame_length _ _ _ Hf) as H2. rewrite app_length in Hfuel.
    destruct fuel as [|fuel]; [lia|].
    destruct (fb ++ rest) as [|b0 l] eqn:E.
    { apply (f_equal (@length N)) in E. rewrite app_length in E. cbn [length] in E. lia. }
    cbn [spec_decode_fuel]. rewrite <- E, (spec_decode1_ok _ _ _ _ Hf), IH by lia. reflexivity.
Qed.

(* the specification relation is decided by the decoder ... *)
Theorem wf_wire_decode (r : role) (bs : bytes) (its : list witem) :
  wf_wire r bs its -> spec_decode r bs = Some its.
Proof. intros H. apply wf_wire_decode_fuel; [exact H|apply Nat.le_refl]. Qed.

(* ... hence a well-formed byte string has exactly one reading *)
Corollary wf_wire_unique (r : role) (bs : bytes) (its its' : list witem) :
  wf_wire r bs its -> wf_wire r bs its' -> its = its'.
Proof.
  intros H1 H2. apply wf_wire_decode in H1. apply wf_wire_decode in H2. congruence.
Qed.

(* ------------------------------------------------------------------------------------------ *)
(** * 8. both instances together, read off the wire *)

Definition item_reply_small (it : witem) : Prop :=
  it_kind it = KPong \/ it_kind it = KClose -> blen (it_plain it) <= 125.

Lemma items_small (its : list witem) :
  Forall P_small (map item_frame its) -> Forall item_reply_small its.
Proof.
  induction its as [|it its IH]; intros H; [constructor|].
  cbn [map] in H. inversion H as [|f fs Hf Hfs]; subst. constructor; [|apply IH; exact Hfs].
  intros Hk. apply Hf. unfold is_reply_op. cbn [item_frame f_hdr h_opcode].
  destruct Hk as [-> | ->]; [left|right]; reflexivity.
Qed.

Theorem wire_wellformed_small r part cfg x0 ops w0 rs x w :
  ctx_new r part cfg = Some x0 -> w_log w0 = [] ->
  Forall op_no_raw ops -> Forall op_len_u64 ops -> Forall op_ctl_small ops ->
  run_ops x0 ops w0 = (rs, x, w) ->
  exists its : list witem,
    spec_decode r (wire (w_log w) ++ c_out (x_codec x)) = Some its /\
    Forall item_reply_small its.
Proof.
  intros Hn Hl H1 H2 H3 Hr.
  destruct (wire_wellformed r part cfg x0 ops w0 rs x w Hn Hl H1 H2 Hr) as [its [Eq [Hwf _]]].
  exists its. split; [apply wf_wire_decode; exact Hwf|].
  apply items_small. rewrite <- Eq.
  apply (auto_reply_size r part cfg x0 ops w0 rs x w Hn Hl H3 Hr).
Qed.

(* ------------------------------------------------------------------------------------------ *)
(** * 9. the decoder accepts nothing else: spec_decode r bs = Some its <-> wf_wire r bs its *)

Lemma nibble_kind_inv (n : N) (kd : wkind) : nibble_kind n = Some kd -> n = kind_nibble kd.
Proof.
  unfold nibble_kind. intros H.
  destruct (n =? 1) eqn:E1; [inv H; cbn; lia|].
  destruct (n =? 2) eqn:E2; [inv H; cbn; lia|].
  destruct (n =? 8) eqn:E3; [inv H; cbn; lia|].
  destruct (n =? 9) eqn:E4; [inv H; cbn; lia|].
  destruct (n =? 10) eqn:E5; [inv H; cbn; lia|]. discriminate H.
Qed.

Lemma take_exact_inv (n : nat) (bs a b : bytes) :
  take_exact n bs = Some (a, b) -> bs = a ++ b /\ length a = n.
Proof.
  unfold take_exact. destruct (length bs <? n)%nat eqn:E; [discriminate|].
  intros H. inv H. split; [symmetry; apply firstn_skipn|].
  apply firstn_length_le. apply Nat.ltb_ge in E. exact E.
Qed.

Lemma forallb_all_u8 (l : bytes) : forallb (fun b => b <? 256) l = true -> all_u8 l.
Proof.
  intros H. unfold all_u8. apply Forall_forall. intros b Hb.
  rewrite forallb_forall in H. specialize (H b Hb). lia.
Qed.

Lemma be_value_bound (l : bytes) : all_u8 l -> be_value l < 256 ^ blen l.
Proof. intros H. rewrite be_value_from_be. apply from_be_bound. exact H. Qed.

Lemma dec_len_inv (len7 : N) (rest : bytes) (n : N) (rest1 : bytes) :
  dec_len len7 rest = Some (n, rest1) -> exists ext, rest = ext ++ rest1 /\ len_field n len7 ext.
Proof.
  unfold dec_len. intros H.
  destruct (127 <? len7) eqn:E0; [discriminate H|].
  destruct (take_exact (if len7 =? 126 then 2%nat else if len7 =? 127 then 8%nat else 0%nat) rest)
    as [[ext r1]|] eqn:ET; [|discriminate H].
  apply take_exact_inv in ET. destruct ET as [-> Hl].
  destruct (forallb (fun b => b <? 256) ext) eqn:EU; [|discriminate H]. cbn [negb] in H.
  apply forallb_all_u8 in EU. pose proof (be_value_bound ext EU) as Hb.
  exists ext.
  destruct (len7 =? 126) eqn:E1.
  - assert (len7 = 126) by lia. subst len7. change (126 <? 126) with false in H. cbv iota in H.
    cbn [andb] in H. destruct (be_value ext <? 126) eqn:E2; [discriminate H|].
    change (126 =? 127) with false in H. cbn [andb] in H. inv H. split; [reflexivity|].
    right; left. replace (blen ext) with 2 in Hb by (unfold blen; lia).
    change (256 ^ 2) with 65536 in Hb. repeat split; try assumption; lia.
  - cbn [andb] in H. destruct (len7 =? 127) eqn:E2.
    + assert (len7 = 127) by lia. subst len7. change (127 <? 126) with false in H. cbv iota in H.
      cbn [andb] in H. destruct (be_value ext <? 65536) eqn:E3; [discriminate H|]. inv H.
      split; [reflexivity|]. right; right.
      replace (blen ext) with 8 in Hb by (unfold blen; lia).
      change (256 ^ 8) with 18446744073709551616 in Hb. repeat split; try assumption; lia.
    + cbn [andb] in H. destruct (len7 <? 126) eqn:E3; [|lia]. inv H.
      destruct ext; [|discriminate Hl]. split; [reflexivity|]. left. repeat split; lia.
Qed.

Lemma masked_by_unmask (k : key) (pay : bytes) : masked_by k (unmask_at k 0 pay) pay.
Proof.
  split; [symmetry; apply unmask_at_length|].
  intros i Hi. rewrite unmask_at_length in Hi. rewrite unmask_at_nth by exact Hi. cbn [Nat.add].
  symmetry. apply lxor_cancel.
Qed.

Lemma blen_of_length {A} (l : list A) (n : N) : length l = N.to_nat n -> blen l = n.
Proof. unfold blen. lia. Qed.

Lemma dec_body_inv (masked : bool) (kd : wkind) (n : N) (rest1 : bytes) (it : witem) (rest3 : bytes) :
  dec_body masked kd n rest1 = Some (it, rest3) ->
  exists keyb pay, rest1 = keyb ++ pay ++ rest3 /\ it_kind it = kd /\ blen (it_plain it) = n /\
    match it_key it with
    | Some k => masked = true /\ keyb = key4 k /\ masked_by k (it_plain it) pay
    | None => masked = false /\ keyb = [] /\ pay = it_plain it
    end.
Proof.
  unfold dec_body. intros H. destruct masked.
  - destruct rest1 as [|a [|b [|c [|d rest2]]]]; try discriminate H.
    destruct (take_exact (N.to_nat n) rest2) as [[pay r3]|] eqn:ET; [|discriminate H].
    apply take_exact_inv in ET. destruct ET as [-> Hl]. inv H.
    exists [a; b; c; d], pay. cbn [it_kind it_key it_plain].
    split; [reflexivity|]. split; [reflexivity|].
    split; [apply blen_of_length; rewrite unmask_at_length; exact Hl|].
    split; [reflexivity|]. split; [reflexivity|]. apply masked_by_unmask.
  - destruct (take_exact (N.to_nat n) rest1) as [[pay r3]|] eqn:ET; [|discriminate H].
    apply take_exact_inv in ET. destruct ET as [-> Hl]. inv H.
    exists [], pay. cbn [it_kind it_key it_plain app].
    split; [reflexivity|]. split; [reflexivity|].
    split; [apply blen_of_length; exact Hl|]. repeat split.
Qed.

Lemma spec_decode1_inv (r : role) (bs : bytes) (it : witem) (rest : bytes) :
  spec_decode1 r bs = Some (it, rest) -> exists fb, bs = fb ++ rest /\ spec_frame r it fb.
Proof.
  unfold spec_decode1. intros H.
  destruct bs as [|b0 [|b1 rest0]]; try discriminate H.
  destruct (b0 <? 128) eqn:E0; [discriminate H|].
  destruct (nibble_kind (b0 - 128)) as [kd|] eqn:EK; [|discriminate H].
  apply nibble_kind_inv in EK.
  set (masked := match r with Client => true | Server => false end) in *.
  destruct (Bool.eqb (128 <=? b1) masked) eqn:EM; [|discriminate H]. cbn [negb] in H.
  apply Bool.eqb_prop in EM.
  destruct (dec_len (if masked then b1 - 128 else b1) rest0) as [[n rest1]|] eqn:EL; [|discriminate H].
  apply dec_len_inv in EL. destruct EL as [ext [-> Hlen]].
  apply dec_body_inv in H. destruct H as [keyb [pay [-> [Hkd [Hn Hk]]]]].
  exists (b0 :: b1 :: ext ++ keyb ++ pay). split; [cbn [app]; rewrite <- !app_assoc; reflexivity|].
  unfold spec_frame. exists (if masked then b1 - 128 else b1), ext, keyb, pay.
  rewrite Hkd, Hn. split; [|split; [exact Hlen|]].
  - cbn [app]. f_equal; [lia|]. f_equal.
    destruct (it_key it) as [k|]; cbn [mask_bit].
    + destruct Hk as [Hm _]. rewrite Hm in *. lia.
    + destruct Hk as [Hm _]. rewrite Hm in *. lia.
  - destruct (it_key it) as [k|].
    + destruct Hk as [Hm Hk]. split; [|exact Hk]. subst masked. destruct r; [discriminate Hm|reflexivity].
    + destruct Hk as [Hm Hk]. split; [|exact Hk]. subst masked. destruct r; [reflexivity|discriminate Hm].
Qed.

Lemma spec_decode_fuel_inv (r : role) (fuel : nat) : forall bs its,
  spec_decode_fuel fuel r bs = Some its -> wf_wire r bs its.
Proof.
  induction fuel as [|fuel IH]; intros bs its H.
  - destruct bs; [|discriminate H]. inv H. constructor.
  - destruct bs as [|b l]; [inv H; constructor|].
    cbn [spec_decode_fuel] in H.
    destruct (spec_decode1 r (b :: l)) as [[it rest]|] eqn:E1; [|discriminate H].
    destruct (spec_decode_fuel fuel r rest) as [its'|] eqn:E2; [|discriminate H]. inv H.
    apply spec_decode1_inv in E1. destruct E1 as [fb [-> Hf]].
    constructor; [exact Hf|apply IH; exact E2].
Qed.

Theorem spec_decode_iff (r : role) (bs : bytes) (its : list witem) :
  spec_decode r bs = Some its <-> wf_wire r bs its.
Proof. split; [apply spec_decode_fuel_inv|apply wf_wire_decode]. Qed.

(* ------------------------------------------------------------------------------------------ *)
(** * 10. keys: an oracle that never repeats gives frames that never share a key *)

Lemma draws_exhausted_gen ks0 d ks : draws ks0 d ks -> ks0 = [] -> ks = [].
Proof.
  induction 1 as [ks| k ks d ks' _ IH | d ks' _ IH]; intros E;
    [exact E|discriminate E|apply IH; reflexivity].
Qed.

Lemma draws_exhausted d ks : draws [] d ks -> ks = [].
Proof. intros H. exact (draws_exhausted_gen _ _ _ H eq_refl). Qed.

(* as long as the oracle is not exhausted, the keys drawn are exactly its first keys *)
Lemma draws_prefix ks0 d ks : draws ks0 d ks -> ks <> [] -> ks0 = d ++ ks.
Proof.
  induction 1 as [ks| k ks d ks' _ IH | d ks' H _]; intros Hne.
  - reflexivity.
  - cbn [app]. f_equal. apply IH. exact Hne.
  - apply draws_exhausted in H. contradiction.
Qed.

Lemma subseq_in {A} (a b : list A) (x : A) : subseq a b -> In x a -> In x b.
Proof.
  induction 1 as [|y a b _ IH|y a b _ IH]; intros Hi; [exact Hi| |right; apply IH; exact Hi].
  destruct Hi as [->|Hi]; [left; reflexivity|right; apply IH; exact Hi].
Qed.

Lemma subseq_nodup {A} (a b : list A) : subseq a b -> NoDup b -> NoDup a.
Proof.
  induction 1 as [|y a b Hs IH|y a b Hs IH]; intros Hn; [constructor| |].
  - inversion Hn as [|y' b' Hy Hb]; subst. constructor; [|apply IH; exact Hb].
    intros Hi. apply Hy. eapply subseq_in; eassumption.
  - inversion Hn; subst. apply IH. assumption.
Qed.

Lemma nodup_app_l {A} (a b : list A) : NoDup (a ++ b) -> NoDup a.
Proof.
  induction a as [|x a IH]; intros H; [constructor|].
  cbn [app] in H. inversion H as [|x' l Hx Hl]; subst. constructor; [|apply IH; exact Hl].
  intros Hi. apply Hx. apply in_or_app. left. exact Hi.
Qed.

Theorem wire_keys_distinct r part cfg x0 ops w0 rs x w :
  ctx_new r part cfg = Some x0 -> w_log w0 = [] ->
  Forall op_no_raw ops -> Forall op_len_u64 ops ->
  run_ops x0 ops w0 = (rs, x, w) ->
  NoDup (w_keys w0) -> w_keys w <> [] ->
  exists its : list witem,
    queued (w_log w) = map item_frame its /\
    wf_wire r (wire (w_log w) ++ c_out (x_codec x)) its /\
    NoDup (item_keys its) /\
    exists d, w_keys w0 = d ++ w_keys w /\ subseq (item_keys its) d.
Proof.
  intros Hn Hl H1 H2 Hr Hnd Hne.
  destruct (wire_wellformed r part cfg x0 ops w0 rs x w Hn Hl H1 H2 Hr)
    as [its [Eq [Hwf [d [Hd [Hs _]]]]]].
  exists its. split; [exact Eq|]. split; [exact Hwf|].
  pose proof (draws_prefix _ _ _ Hd Hne) as Ep.
  split; [|exists d; split; assumption].
  apply (subseq_nodup _ d Hs). rewrite Ep in Hnd. apply nodup_app_l in Hnd. exact Hnd.
Qed.

(* ------------------------------------------------------------------------------------------ *)
(** * 11. the right opcode: the item a user message becomes *)

Definition msg_kind (m : message) : wkind :=
  match m with
  | MText _ => KText | MBinary _ => KBinary | MPing _ => KPing | MPong _ => KPong
  | MClose _ => KClose | MFrame _ => KBinary
  end.

(* the payload: the data; for a Close the 2-byte big-endian code followed by the reason *)
Definition msg_body (m : message) : bytes :=
  match m with
  | MText d | MBinary d | MPing d | MPong d => d
  | MClose (Some (code, reason)) => [close_to_u16 code / 256 mod 256; close_to_u16 code mod 256] ++ reason
  | MClose None => []
  | MFrame f => f_payload f
  end.

(* the key the next buffer_frame call of an endpoint in role r will use *)
Definition next_mask (r : role) (w : world) : option key :=
  match r with Server => None | Client => Some (fst (w_next_key w)) end.

Lemma msg_frame_item (m : message) :
  op_no_raw (OpWrite m) -> msg_frame m = item_frame (mkItem (msg_kind m) None (msg_body m)).
Proof.
  destruct m; cbn [op_no_raw]; intros H; try contradiction; reflexivity.
Qed.

Lemma sent_item_frame r w kd p :
  sent_frame r w (item_frame (mkItem kd None p)) = item_frame (mkItem kd (next_mask r w) p).
Proof. destruct r; reflexivity. Qed.

(* a data message (Text, Binary, Ping) that write accepts is queued as one frame of its own kind,
   with its own payload, masked with the next key iff client (at most one parked reply follows) *)
Theorem write_queues_item x m w u x' w' :
  op_no_raw (OpWrite m) -> data_frame m <> None ->
  write x m w = (ROk u, x', w') ->
  exists auto, queued (w_log w') =
    queued (w_log w) ++ item_frame (mkItem (msg_kind m) (next_mask (x_role x) w) (msg_body m)) :: auto.
Proof.
  intros Hr Hd H.
  destruct (data_frame m) as [f|] eqn:Ed; [|contradiction].
  pose proof (c10_accept_queued _ _ _ _ _ _ _ Ed H) as A. cbv zeta in A.
  destruct A as [auto [Eq _]]. exists auto. rewrite Eq. f_equal. f_equal.
  assert (Ef : f = msg_frame m) by (destruct m; inv Ed; reflexivity).
  rewrite Ef, (msg_frame_item m Hr). apply sent_item_frame.
Qed.

(* ------------------------------------------------------------------------------------------ *)
(** * 12. at every instant, also in the middle of a call *)

(* cut the log anywhere: the bytes accepted up to that event, followed by what out_buffer held at
   that moment, are the well-formed encoding of the frames queued up to that event *)
Theorem wire_wellformed_always r part cfg x0 ops w0 rs x w l1 l2 :
  ctx_new r part cfg = Some x0 -> w_log w0 = [] ->
  Forall op_no_raw ops -> Forall op_len_u64 ops ->
  run_ops x0 ops w0 = (rs, x, w) ->
  w_log w = l1 ++ l2 ->
  exists (unsent : bytes) (its1 : list witem),
    queued l1 = map item_frame its1 /\ wf_wire r (wire l1 ++ unsent) its1.
Proof.
  intros Hn Hl H1 H2 Hr Hs.
  assert (Ho : Forall (op_P (P_wire r)) ops).
  { rewrite Forall_forall in *. intros o Hi. apply op_user_P_wire; auto. }
  destruct (reach_inv r (P_wire r) (P_wire_ok r) _ _ _ _ _ _ _ _ Hn Hl Ho Hr) as [_ [HF [d [_ Hk]]]].
  rewrite Hs, queued_app in HF, Hk. apply Forall_app in HF. destruct HF as [HF1 _].
  destruct (frames_items r (queued l1) HF1) as [its1 [Eq Hok]].
  { intros ->. destruct Hk as [Hm _]. apply Forall_app in Hm. apply Hm. }
  destruct (c10_prefix_always _ _ _ _ _ _ _ _ _ l1 l2 Hn Hl Hr Hs) as [unsent Hu].
  exists unsent, its1. split; [exact Eq|].
  rewrite <- Hu, Eq. apply enc_items_wf. exact Hok.
Qed.
