(* proofs/Utf8P.v — C08: the UTF-8 validator of the model (std::str::from_utf8, utf8::decode,
   Incomplete::try_complete, StringCollector) against the Unicode Table 3-7 grammar. *)
From TungModel Require Import Base Coding Mask Header Frame Utf8 World Message Codec Protocol.
From Coq Require Import Arith Wf_nat Lia ZifyBool ZifyNat ZifyN.

Arguments N.add : simpl never.
Arguments N.sub : simpl never.
Arguments N.mul : simpl never.
Arguments N.min : simpl never.
Arguments N.ltb : simpl never.
Arguments N.leb : simpl never.
Arguments N.eqb : simpl never.
Arguments N.of_nat : simpl never.
Arguments N.to_nat : simpl never.

(* ------------------------------------------------------------------------------------------ *)
(* Spec: Unicode Table 3-7 (well-formed UTF-8 byte sequences) / RFC 3629                        *)
(* ------------------------------------------------------------------------------------------ *)
Inductive valid_utf8 : bytes -> Prop :=
| v_nil : valid_utf8 []
| v_1 b r : b <= 0x7F -> valid_utf8 r -> valid_utf8 (b :: r)
| v_2 b0 b1 r : 0xC2 <= b0 <= 0xDF -> 0x80 <= b1 <= 0xBF -> valid_utf8 r -> valid_utf8 (b0 :: b1 :: r)
| v_3a b1 b2 r : 0xA0 <= b1 <= 0xBF -> 0x80 <= b2 <= 0xBF -> valid_utf8 r -> valid_utf8 (0xE0 :: b1 :: b2 :: r)
| v_3b b0 b1 b2 r : 0xE1 <= b0 <= 0xEC -> 0x80 <= b1 <= 0xBF -> 0x80 <= b2 <= 0xBF -> valid_utf8 r -> valid_utf8 (b0 :: b1 :: b2 :: r)
| v_3c b1 b2 r : 0x80 <= b1 <= 0x9F -> 0x80 <= b2 <= 0xBF -> valid_utf8 r -> valid_utf8 (0xED :: b1 :: b2 :: r)
| v_3d b0 b1 b2 r : 0xEE <= b0 <= 0xEF -> 0x80 <= b1 <= 0xBF -> 0x80 <= b2 <= 0xBF -> valid_utf8 r -> valid_utf8 (b0 :: b1 :: b2 :: r)
| v_4a b1 b2 b3 r : 0x90 <= b1 <= 0xBF -> 0x80 <= b2 <= 0xBF -> 0x80 <= b3 <= 0xBF -> valid_utf8 r -> valid_utf8 (0xF0 :: b1 :: b2 :: b3 :: r)
| v_4b b0 b1 b2 b3 r : 0xF1 <= b0 <= 0xF3 -> 0x80 <= b1 <= 0xBF -> 0x80 <= b2 <= 0xBF -> 0x80 <= b3 <= 0xBF -> valid_utf8 r -> valid_utf8 (b0 :: b1 :: b2 :: b3 :: r)
| v_4c b1 b2 b3 r : 0x80 <= b1 <= 0x8F -> 0x80 <= b2 <= 0xBF -> 0x80 <= b3 <= 0xBF -> valid_utf8 r -> valid_utf8 (0xF4 :: b1 :: b2 :: b3 :: r).

(* the encoding of exactly one scalar value (one row of Table 3-7) *)
Definition valid_char (c : bytes) : Prop :=
  valid_utf8 c /\ c <> [] /\ forall k, (0 < k < length c)%nat -> ~ valid_utf8 (firstn k c).

(* ------------------------------------------------------------------------------------------ *)
(* step                                                                                         *)
(* ------------------------------------------------------------------------------------------ *)
Ltac unf := unfold ok3, ok4, cont, inr in *.

(* case analysis on every list / boolean scrutinee that occurs in the goal or in the context *)
Ltac brk_on x :=
  let T := type of x in
  let T' := eval hnf in T in
  match T' with
  | bool => let E := fresh "E" in destruct x eqn:E
  | list _ => is_var x; destruct x
  | list _ => match x with ?l ++ _ => is_var l; destruct l end
  end.
Ltac brk1 :=
  cbn [app] in *;
  match goal with
  | |- context [match ?x with _ => _ end] => brk_on x
  | H : context [match ?x with _ => _ end] |- _ => brk_on x
  end.
Ltac brk := repeat (brk1; try discriminate).

Lemma step_nil : step [] = SEmpty. Proof. reflexivity. Qed.

Lemma step_1 b r : b <= 0x7F -> step (b :: r) = SChar 1.
Proof. intros H. unfold step. brk; try reflexivity; exfalso; lia. Qed.

Lemma step_2 b0 b1 r : 0xC2 <= b0 <= 0xDF -> 0x80 <= b1 <= 0xBF -> step (b0 :: b1 :: r) = SChar 2.
Proof. intros H0 H1. unfold step. brk; try reflexivity; exfalso; unf; lia. Qed.

Lemma step_3 b0 b1 b2 r : 0xE0 <= b0 <= 0xEF -> ok3 b0 b1 = true -> 0x80 <= b2 <= 0xBF ->
  step (b0 :: b1 :: b2 :: r) = SChar 3.
Proof. intros H0 H1 H2. unfold step. rewrite H1. brk; try reflexivity; exfalso; unf; lia. Qed.

Lemma step_4 b0 b1 b2 b3 r : 0xF0 <= b0 <= 0xF4 -> ok4 b0 b1 = true -> 0x80 <= b2 <= 0xBF ->
  0x80 <= b3 <= 0xBF -> step (b0 :: b1 :: b2 :: b3 :: r) = SChar 4.
Proof. intros H0 H1 H2 H3. unfold step. rewrite H1. brk; try reflexivity; exfalso; unf; lia. Qed.

(* a valid non-empty string starts with a complete character *)
Lemma valid_step bs : valid_utf8 bs -> bs <> [] -> exists n, step bs = SChar n /\ valid_utf8 (skipn n bs).
Proof.
  intros V NE. destruct V as [ | b r H V | b0 b1 r H0 H1 V
    | b1 b2 r H1 H2 V | b0 b1 b2 r H0 H1 H2 V | b1 b2 r H1 H2 V | b0 b1 b2 r H0 H1 H2 V
    | b1 b2 b3 r H1 H2 H3 V | b0 b1 b2 b3 r H0 H1 H2 H3 V | b1 b2 b3 r H1 H2 H3 V ].
  - congruence.
  - exists 1%nat. split; [apply step_1; assumption | exact V].
  - exists 2%nat. split; [apply step_2; assumption | exact V].
  - exists 3%nat. split; [apply step_3; try assumption; unf; lia | exact V].
  - exists 3%nat. split; [apply step_3; try assumption; unf; lia | exact V].
  - exists 3%nat. split; [apply step_3; try assumption; unf; lia | exact V].
  - exists 3%nat. split; [apply step_3; try assumption; unf; lia | exact V].
  - exists 4%nat. split; [apply step_4; try assumption; unf; lia | exact V].
  - exists 4%nat. split; [apply step_4; try assumption; unf; lia | exact V].
  - exists 4%nat. split; [apply step_4; try assumption; unf; lia | exact V].
Qed.

(* conversely a complete character in front of a valid string is valid *)
(* closing one case of step_char_valid: pick the row of Table 3-7 from the range of the lead byte *)
Ltac pick_row V :=
  unf;
  match goal with
  | |- valid_utf8 [] => constructor
  | |- valid_utf8 (?b0 :: ?r) =>
      match type of V with valid_utf8 r => apply v_1; [lia | exact V] end
  | |- valid_utf8 (?b0 :: ?b1 :: ?r) =>
      match type of V with valid_utf8 r => apply v_2; [lia | lia | exact V] end
  | |- valid_utf8 (?b0 :: ?b1 :: ?b2 :: ?r) =>
      match type of V with valid_utf8 r =>
        let C := fresh "C" in
        assert (C : b0 = 0xE0 \/ 0xE1 <= b0 <= 0xEC \/ b0 = 0xED \/ 0xEE <= b0 <= 0xEF) by lia;
        destruct C as [C | [C | [C | C]]];
        [ subst b0; apply v_3a; [lia | lia | exact V]
        | apply v_3b; [lia | lia | lia | exact V]
        | subst b0; apply v_3c; [lia | lia | exact V]
        | apply v_3d; [lia | lia | lia | exact V] ]
      end
  | |- valid_utf8 (?b0 :: ?b1 :: ?b2 :: ?b3 :: ?r) =>
      match type of V with valid_utf8 r =>
        let C := fresh "C" in
        assert (C : b0 = 0xF0 \/ 0xF1 <= b0 <= 0xF3 \/ b0 = 0xF4) by lia;
        destruct C as [C | [C | C]];
        [ subst b0; apply v_4a; [lia | lia | lia | exact V]
        | apply v_4b; [lia | lia | lia | lia | exact V]
        | subst b0; apply v_4c; [lia | lia | lia | exact V] ]
      end
  end.

Lemma step_char_valid bs n : step bs = SChar n -> valid_utf8 (skipn n bs) -> valid_utf8 bs.
Proof.
  unfold step. intros H V. brk; injection H as <-; cbn [skipn] in V; pick_row V.
Qed.

(* prefix determinacy: a decided step is not changed by appending bytes *)
Lemma step_ext_char a b n : step a = SChar n -> step (a ++ b) = SChar n.
Proof. unfold step. intros H. brk; assumption. Qed.

Lemma step_ext_invalid a b n : step a = SInvalid n -> step (a ++ b) = SInvalid n.
Proof. unfold step. intros H. brk; assumption. Qed.

Lemma step_char_len bs n : step bs = SChar n -> (1 <= n <= 4 /\ n <= length bs)%nat.
Proof. unfold step. intros H. brk; injection H as <-; cbn [length]; lia. Qed.

Lemma step_invalid_len bs n : step bs = SInvalid n -> (1 <= n <= 3 /\ n <= length bs)%nat.
Proof. unfold step. intros H. brk; injection H as <-; cbn [length]; lia. Qed.

Lemma step_incomplete_len bs : step bs = SIncomplete -> (1 <= length bs <= 3)%nat.
Proof. unfold step. intros H. brk; cbn [length]; lia. Qed.

Lemma step_empty bs : step bs = SEmpty -> bs = [].
Proof. unfold step. intros H. brk; reflexivity. Qed.

(* the character recognised by step is the first n bytes, whatever follows *)
Lemma step_char_firstn bs n : step bs = SChar n -> step (firstn n bs) = SChar n.
Proof. unfold step. intros H. brk; injection H as <-; cbn [firstn] in *; brk; try reflexivity; try congruence. Qed.

(* an incomplete sequence can be completed to one character: an explicit completion *)
Definition completion (bs : bytes) : bytes :=
  match bs with
  | [b0] =>
      if b0 <? 0xE0 then [0x80]
      else if b0 =? 0xE0 then [0xA0; 0x80]
      else if b0 <? 0xF0 then [0x80; 0x80]
      else if b0 =? 0xF0 then [0x90; 0x80; 0x80]
      else [0x80; 0x80; 0x80]
  | [b0; _] => if b0 <? 0xF0 then [0x80] else [0x80; 0x80]
  | _ => [0x80]
  end.

Lemma completion_nonempty bs : completion bs <> [].
Proof. unfold completion. brk; discriminate. Qed.

Lemma step_completion bs : step bs = SIncomplete ->
  step (bs ++ completion bs) = SChar (length (bs ++ completion bs)).
Proof.
  unfold step at 1. intros H. brk; unfold completion; brk; cbn [app length]; unfold step; brk;
    try reflexivity; exfalso; unf; lia.
Qed.

Lemma step_incomplete_completable bs : step bs = SIncomplete ->
  exists t, t <> [] /\ step (bs ++ t) = SChar (length (bs ++ t)).
Proof.
  intros H. exists (completion bs). split; [apply completion_nonempty | apply step_completion; exact H].
Qed.

(* the two checked_sub().unwrap() sites: after an incomplete prefix of l0 bytes, a later error_len is >= l0 *)
Lemma step_incomplete_then_invalid inc x l :
  step inc = SIncomplete -> step (inc ++ x) = SInvalid l -> (length inc <= l)%nat.
Proof. unfold step. intros H1 H2. brk; injection H2 as <-; cbn [length]; lia. Qed.

(* ... and a later complete character is longer than the incomplete prefix *)
Lemma step_incomplete_then_char inc x n :
  step inc = SIncomplete -> step (inc ++ x) = SChar n -> (length inc < n)%nat.
Proof. unfold step. intros H1 H2. brk; injection H2 as <-; cbn [length]; lia. Qed.

Lemma step_incomplete_then_incomplete inc x :
  step inc = SIncomplete -> step (inc ++ x) <> SEmpty.
Proof. unfold step. intros H1 H2. brk. Qed.

(* ------------------------------------------------------------------------------------------ *)
(* from_utf8: unfolding equation independent of fuel and position                               *)
(* ------------------------------------------------------------------------------------------ *)
Definition shift (k : N) (u : ures) : ures :=
  match u with UOk => UOk | UErr v el => UErr (k + v) el end.

Lemma shift_shift a b u : shift a (shift b u) = shift (a + b) u.
Proof. destruct u as [|v el]; cbn [shift]; [reflexivity | f_equal; lia]. Qed.

Lemma shift_0 u : shift 0 u = u.
Proof. destruct u as [|v el]; cbn [shift]; [reflexivity | f_equal]. Qed.

Lemma aux_shift fuel : forall pos bs, from_utf8_aux fuel pos bs = shift pos (from_utf8_aux fuel 0 bs).
Proof.
  induction fuel as [|f IH]; intros pos bs; cbn [from_utf8_aux].
  - reflexivity.
  - destruct (step bs) as [|n|n|] eqn:S; cbn [shift].
    + reflexivity.
    + rewrite (IH (pos + N.of_nat n)), (IH (0 + N.of_nat n)), shift_shift. f_equal.
    + f_equal. lia.
    + f_equal. lia.
Qed.

Lemma skipn_length_lt {A} (l : list A) n : (1 <= n <= length l)%nat -> (length (skipn n l) < length l)%nat.
Proof. intros H. rewrite skipn_length. lia. Qed.

Lemma aux_fuel f1 : forall f2 pos bs, (length bs < f1)%nat -> (length bs < f2)%nat ->
  from_utf8_aux f1 pos bs = from_utf8_aux f2 pos bs.
Proof.
  induction f1 as [|f1 IH]; intros f2 pos bs H1 H2; [lia|].
  destruct f2 as [|f2]; [lia|]. cbn [from_utf8_aux].
  destruct (step bs) as [|n|n|] eqn:S; try reflexivity.
  apply step_char_len in S. pose proof (skipn_length_lt bs n) as L.
  apply IH; lia.
Qed.

Lemma from_utf8_step bs :
  from_utf8 bs =
  match step bs with
  | SEmpty => UOk
  | SChar n => shift (N.of_nat n) (from_utf8 (skipn n bs))
  | SInvalid n => UErr 0 (Some (N.of_nat n))
  | SIncomplete => UErr 0 None
  end.
Proof.
  unfold from_utf8 at 1. cbn [from_utf8_aux].
  destruct (step bs) as [|n|n|] eqn:S; try reflexivity.
  rewrite aux_shift. replace (0 + N.of_nat n) with (N.of_nat n) by lia. f_equal.
  unfold from_utf8. apply step_char_len in S. pose proof (skipn_length_lt bs n) as L.
  apply aux_fuel; lia.
Qed.

Lemma from_utf8_nil : from_utf8 [] = UOk.
Proof. reflexivity. Qed.

(* valid prefixes are skipped *)
Lemma from_utf8_app a x : valid_utf8 a -> from_utf8 (a ++ x) = shift (blen a) (from_utf8 x).
Proof.
  remember (length a) as m eqn:Hm. revert a Hm.
  induction m as [m IH] using lt_wf_ind. intros a Hm V.
  destruct a as [|a0 a'].
  - cbn [app]. unfold blen. cbn [length]. rewrite shift_0. reflexivity.
  - destruct (valid_step (a0 :: a') V) as [n [S V']]; [discriminate|].
    pose proof (step_char_len _ _ S) as L.
    rewrite from_utf8_step, (step_ext_char _ x _ S).
    rewrite skipn_app.
    replace (n - length (a0 :: a'))%nat with 0%nat by lia. cbn [skipn].
    rewrite (IH (length (skipn n (a0 :: a')))); [ | subst m; apply skipn_length_lt; lia | reflexivity | exact V'].
    rewrite shift_shift. f_equal. unfold blen. rewrite skipn_length. lia.
Qed.

Lemma valid_app a b : valid_utf8 a -> valid_utf8 b -> valid_utf8 (a ++ b).
Proof. intros Va Vb. induction Va; cbn [app]; try (constructor; assumption). exact Vb. Qed.

(* unique decoding: a valid prefix can be cancelled *)
Lemma valid_app_inv a : forall b, valid_utf8 a -> valid_utf8 (a ++ b) -> valid_utf8 b.
Proof.
  remember (length a) as m eqn:Hm. revert a Hm.
  induction m as [m IH] using lt_wf_ind. intros a Hm b Va Vab.
  destruct a as [|a0 a']; [exact Vab|].
  destruct (valid_step _ Va) as [n [S Va']]; [discriminate|].
  destruct (valid_step _ Vab) as [n' [S' Vab']]; [discriminate|].
  rewrite (step_ext_char _ b _ S) in S'. injection S' as <-.
  pose proof (step_char_len _ _ S) as L.
  rewrite skipn_app in Vab'. replace (n - length (a0 :: a'))%nat with 0%nat in Vab' by lia.
  cbn [skipn] in Vab'.
  apply (IH (length (skipn n (a0 :: a')))) with (a := skipn n (a0 :: a')); try assumption; try reflexivity.
  subst m. apply skipn_length_lt. lia.
Qed.

Lemma valid_app_iff a b : valid_utf8 a -> (valid_utf8 (a ++ b) <-> valid_utf8 b).
Proof. intros Va. split; [apply valid_app_inv; exact Va | apply valid_app; exact Va]. Qed.

Lemma step_not_valid_invalid bs n : step bs = SInvalid n -> forall t, ~ valid_utf8 (bs ++ t).
Proof.
  intros S t V. destruct (valid_step _ V) as [k [S' _]].
  - intros E. apply app_eq_nil in E. destruct E as [E _]. subst bs. discriminate S.
  - rewrite (step_ext_invalid _ t _ S) in S'. discriminate S'.
Qed.

Lemma step_not_valid_incomplete bs : step bs = SIncomplete -> ~ valid_utf8 bs.
Proof.
  intros S V. destruct (valid_step _ V) as [k [S' _]].
  - intros E. subst bs. discriminate S.
  - rewrite S in S'. discriminate S'.
Qed.

(* ------------------------------------------------------------------------------------------ *)
(* decomposition of any byte string: longest valid prefix + a rest that does not start with a   *)
(* complete character                                                                           *)
(* ------------------------------------------------------------------------------------------ *)
Lemma valid_firstn_char bs n : step bs = SChar n -> valid_utf8 (firstn n bs).
Proof.
  intros S. apply step_char_valid with (n := n); [apply step_char_firstn; exact S|].
  pose proof (step_char_len _ _ S) as L.
  rewrite skipn_all2; [constructor | rewrite firstn_length; lia].
Qed.

Lemma decomp bs : exists a r, bs = a ++ r /\ valid_utf8 a /\ forall n, step r <> SChar n.
Proof.
  remember (length bs) as m eqn:Hm. revert bs Hm.
  induction m as [m IH] using lt_wf_ind. intros bs Hm.
  destruct (step bs) as [|n|n|] eqn:S.
  - exists [], bs. split; [reflexivity|]. split; [constructor|]. intros n. rewrite S. discriminate.
  - pose proof (step_char_len _ _ S) as L.
    destruct (IH (length (skipn n bs))) with (bs := skipn n bs) as [a [r [E [V NC]]]];
      [subst m; apply skipn_length_lt; lia | reflexivity |].
    exists (firstn n bs ++ a), r. split; [|split].
    + rewrite <- app_assoc, <- E. symmetry. apply firstn_skipn.
    + apply valid_app; [apply valid_firstn_char; exact S | exact V].
    + exact NC.
  - exists [], bs. split; [reflexivity|]. split; [constructor|]. intros k. rewrite S. discriminate.
  - exists [], bs. split; [reflexivity|]. split; [constructor|]. intros k. rewrite S. discriminate.
Qed.

Lemma from_utf8_decomp a r : valid_utf8 a ->
  from_utf8 (a ++ r) =
  match step r with
  | SEmpty => UOk
  | SChar n => shift (blen a + N.of_nat n) (from_utf8 (skipn n r))
  | SInvalid n => UErr (blen a) (Some (N.of_nat n))
  | SIncomplete => UErr (blen a) None
  end.
Proof.
  intros V. rewrite (from_utf8_app _ _ V), (from_utf8_step r).
  destruct (step r) as [|n|n|]; cbn [shift]; try reflexivity.
  - apply shift_shift.
  - f_equal. lia.
  - f_equal. lia.
Qed.

(* structure of an error answer *)
Lemma from_utf8_err_struct bs v el : from_utf8 bs = UErr v el ->
  exists a r, bs = a ++ r /\ valid_utf8 a /\ v = blen a /\
    match el with
    | None => step r = SIncomplete
    | Some l => exists n, l = N.of_nat n /\ step r = SInvalid n
    end.
Proof.
  intros H. destruct (decomp bs) as [a [r [E [V NC]]]]. subst bs.
  rewrite (from_utf8_decomp _ _ V) in H.
  exists a, r. split; [reflexivity|]. split; [exact V|].
  destruct (step r) as [|n|n|] eqn:S.
  - discriminate H.
  - exfalso. apply (NC n). reflexivity.
  - injection H as <- <-. split; [reflexivity|]. exists n. split; reflexivity.
  - injection H as <- <-. split; reflexivity.
Qed.

Theorem from_utf8_ok_iff bs : from_utf8 bs = UOk <-> valid_utf8 bs.
Proof.
  split.
  - intros H. destruct (decomp bs) as [a [r [E [V NC]]]]. subst bs.
    rewrite (from_utf8_decomp _ _ V) in H.
    destruct (step r) as [|n|n|] eqn:S; try discriminate H.
    + apply step_empty in S. subst r. rewrite app_nil_r. exact V.
    + exfalso. apply (NC n). reflexivity.
  - intros V. rewrite <- (app_nil_r bs), (from_utf8_decomp _ _ V). reflexivity.
Qed.

Lemma is_utf8_iff bs : is_utf8 bs = true <-> valid_utf8 bs.
Proof.
  unfold is_utf8. rewrite <- from_utf8_ok_iff.
  destruct (from_utf8 bs); split; intros H; try reflexivity; discriminate H.
Qed.

Lemma takeN_app_blen {A} (a r : list A) : takeN (blen a) (a ++ r) = a.
Proof.
  unfold takeN, blen. rewrite Nat2N.id, firstn_app, Nat.sub_diag, firstn_all. cbn [firstn]. apply app_nil_r.
Qed.

Lemma dropN_app_blen {A} (a r : list A) : dropN (blen a) (a ++ r) = r.
Proof.
  unfold dropN, blen. rewrite Nat2N.id, skipn_app, Nat.sub_diag, skipn_all. reflexivity.
Qed.

(* no prefix longer than the valid prefix found is valid *)
Lemma no_longer_valid_prefix a r n :
  r <> [] -> (forall k, step r <> SChar k) -> valid_utf8 a ->
  valid_utf8 (firstn n (a ++ r)) -> (n <= length a)%nat.
Proof.
  intros NE NC Va V.
  destruct (le_lt_dec n (length a)) as [L | L]; [exact L | exfalso].
  rewrite firstn_app in V. rewrite firstn_all2 in V by lia.
  apply (valid_app_inv _ _ Va) in V.
  remember (n - length a)%nat as k eqn:Hk.
  destruct (valid_step _ V) as [m [S _]].
  - destruct r as [|r0 r']; [congruence|]. destruct k as [|k]; [lia|]. discriminate.
  - apply (NC m). rewrite <- (firstn_skipn k r). apply step_ext_char. exact S.
Qed.

Lemma step_invalid_firstn r n k : step r = SInvalid n -> (n < k)%nat -> step (firstn k r) = SInvalid n.
Proof.
  unfold step. intros H L. brk; injection H as <-;
    repeat (destruct k as [|k]; [lia|]); cbn [firstn]; brk; try reflexivity; congruence.
Qed.

Lemma step_invalid_subpart r n : step r = SInvalid n -> step (firstn n r) = SIncomplete \/ n = 1%nat.
Proof.
  unfold step. intros H. brk; injection H as <-; cbn [firstn]; brk; (left; reflexivity) || (right; reflexivity) || congruence.
Qed.

(* ------------------------------------------------------------------------------------------ *)
(* C08_from_utf8_spec: the error answer (valid_up_to, error_len)                                *)
(* ------------------------------------------------------------------------------------------ *)
Lemma step_incomplete_proper_prefix r : step r = SIncomplete -> exists t, t <> [] /\ valid_utf8 (r ++ t).
Proof.
  intros S. destruct (step_incomplete_completable _ S) as [t [NE St]].
  exists t. split; [exact NE|].
  apply step_char_valid with (n := length (r ++ t)); [exact St|].
  rewrite skipn_all. constructor.
Qed.

Theorem from_utf8_err_spec bs v el : from_utf8 bs = UErr v el ->
  v < blen bs /\
  valid_utf8 (takeN v bs) /\
  (forall n, valid_utf8 (firstn n bs) -> N.of_nat n <= v) /\
  (el = None <-> exists t, t <> [] /\ valid_utf8 (dropN v bs ++ t)) /\
  (forall l, el = Some l ->
     1 <= l <= 3 /\ v + l <= blen bs /\
     (forall t, ~ valid_utf8 (dropN v bs ++ t)) /\
     (l = 1 \/ exists t, valid_utf8 (takeN l (dropN v bs) ++ t)) /\
     (forall k, l < k -> forall t, ~ valid_utf8 (takeN k (dropN v bs) ++ t))).
Proof.
  intros H. destruct (from_utf8_err_struct _ _ _ H) as [a [r [E [V [Ev Hel]]]]].
  subst bs v. rewrite takeN_app_blen, dropN_app_blen.
  assert (NC : forall k, step r <> SChar k).
  { intros k. destruct el as [l|]; [destruct Hel as [n [_ S]] | ]; rewrite ?S, ?Hel; discriminate. }
  assert (NE : r <> []).
  { intros ->. destruct el as [l|]; [destruct Hel as [n [_ S]]; discriminate S | discriminate Hel]. }
  split; [|split; [|split; [|split]]].
  - unfold blen. rewrite app_length. destruct r; [congruence | cbn [length]; lia].
  - exact V.
  - intros n Vn. pose proof (no_longer_valid_prefix a r n NE NC V Vn) as L. unfold blen. lia.
  - split.
    + intros ->. apply step_incomplete_proper_prefix. exact Hel.
    + intros [t [_ Vt]]. destruct el as [l|]; [exfalso | reflexivity].
      destruct Hel as [n [_ S]]. exact (step_not_valid_invalid _ _ S t Vt).
  - intros l ->. destruct Hel as [n [-> S]].
    pose proof (step_invalid_len _ _ S) as L.
    split; [lia|]. split; [unfold blen; rewrite app_length; lia|].
    split; [exact (step_not_valid_invalid _ _ S)|]. split.
    + destruct (step_invalid_subpart _ _ S) as [Si | ->]; [right | left; reflexivity].
      unfold takeN. rewrite Nat2N.id.
      destruct (step_incomplete_proper_prefix _ Si) as [t [_ Vt]]. exists t. exact Vt.
    + intros k Lk t. unfold takeN. apply step_not_valid_invalid with (n := n).
      apply step_invalid_firstn; [exact S | lia].
Qed.

(* ------------------------------------------------------------------------------------------ *)
(* utf8::decode and Incomplete::try_complete                                                    *)
(* ------------------------------------------------------------------------------------------ *)
Lemma utf8_decode_spec input :
  match utf8_decode input with
  | DOk => valid_utf8 input
  | DIncomplete vp suf => input = vp ++ suf /\ valid_utf8 vp /\ step suf = SIncomplete
  | DInvalid vp => exists r n, input = vp ++ r /\ valid_utf8 vp /\ step r = SInvalid n
  | DPanic => False
  end.
Proof.
  unfold utf8_decode. destruct (from_utf8 input) as [|v el] eqn:F.
  - apply from_utf8_ok_iff. exact F.
  - destruct (from_utf8_err_struct _ _ _ F) as [a [r [E [V [Ev Hel]]]]]. subst input v.
    rewrite takeN_app_blen, dropN_app_blen.
    destruct el as [l|].
    + destruct Hel as [n [_ S]]. exists r, n. split; [reflexivity|]. split; assumption.
    + pose proof (step_incomplete_len _ Hel) as L.
      destruct (4 <? blen r) eqn:C; [unfold blen in C; lia|].
      split; [reflexivity|]. split; assumption.
Qed.

Lemma try_complete_spec inc input : step inc = SIncomplete ->
  match try_complete inc input with
  | TStill inc' => inc' = inc ++ input /\ step inc' = SIncomplete
  | TDone true text rest => inc ++ input = text ++ rest /\ valid_utf8 text /\ text <> []
  | TDone false _ _ => exists n, step (inc ++ input) = SInvalid n
  | TPanic => False
  end.
Proof.
  intros Si. pose proof (step_incomplete_len _ Si) as Li.
  unfold try_complete.
  set (c := N.min (4 - blen inc) (blen input)).
  assert (Hc : N.to_nat c = Nat.min (4 - length inc) (length input)) by (unfold c, blen; lia).
  unfold takeN, dropN. rewrite Hc. clear Hc c.
  set (c := Nat.min (4 - length inc) (length input)).
  assert (Ein : inc ++ input = (inc ++ firstn c input) ++ skipn c input)
    by (rewrite <- app_assoc, firstn_skipn; reflexivity).
  destruct (from_utf8 (inc ++ firstn c input)) as [|v el] eqn:F.
  - apply from_utf8_ok_iff in F. split; [exact Ein|]. split; [exact F|].
    destruct inc; [cbn [length] in Li; lia | discriminate].
  - destruct (from_utf8_err_struct _ _ _ F) as [a [r [E [V [Ev Hel]]]]]. subst v.
    destruct (0 <? blen a) eqn:C0.
    + (* a complete character was found: it extends beyond inc *)
      assert (NEa : a <> []) by (intros ->; unfold blen in C0; cbn [length] in C0; lia).
      destruct (valid_step _ V NEa) as [m [Sa _]].
      pose proof (step_char_len _ _ Sa) as La.
      pose proof (step_ext_char _ r _ Sa) as Sar. rewrite <- E in Sar.
      pose proof (step_incomplete_then_char _ _ _ Si Sar) as Lm.
      destruct (blen a <? blen inc) eqn:C1; [unfold blen in C1; lia|].
      replace (N.to_nat (blen a)) with (length a) by (unfold blen; lia).
      rewrite E, firstn_app, Nat.sub_diag, firstn_all. cbn [firstn]. rewrite app_nil_r.
      split; [|split; assumption].
      assert (Ea : a = inc ++ firstn (length a - length inc) input).
      { assert (E' : firstn (length a) (inc ++ firstn c input) = firstn (length a) (a ++ r)) by (rewrite E; reflexivity).
        rewrite firstn_app, (firstn_all2 inc) in E' by lia.
        rewrite (firstn_app _ a), Nat.sub_diag, firstn_all in E'. cbn [firstn] in E'. rewrite app_nil_r in E'.
        rewrite firstn_firstn in E'.
        assert (Lar : length (inc ++ firstn c input) = length (a ++ r)) by (rewrite E; reflexivity).
        rewrite !app_length, firstn_length in Lar.
        replace (Nat.min (length a - length inc) c) with (length a - length inc)%nat in E' by lia.
        symmetry. exact E'. }
      replace (N.to_nat (blen a - blen inc)) with (length a - length inc)%nat by (unfold blen; lia).
      rewrite Ea at 1. rewrite <- app_assoc, firstn_skipn. reflexivity.
    + assert (Ea : a = []) by (destruct a; [reflexivity | unfold blen in C0; cbn [length] in C0; lia]).
      subst a. cbn [app] in E. destruct el as [l|].
      * destruct Hel as [n [-> S]]. rewrite <- E in S.
        pose proof (step_incomplete_then_invalid _ _ _ Si S) as Ln.
        destruct (N.of_nat n <? blen inc) eqn:C1; [unfold blen in C1; lia|].
        exists n. rewrite Ein. apply step_ext_invalid. exact S.
      * rewrite <- E in Hel. pose proof (step_incomplete_len _ Hel) as Ls.
        rewrite app_length, firstn_length in Ls.
        assert (Ec : firstn c input = input) by (apply firstn_all2; lia).
        rewrite Ec in *. split; [reflexivity | exact Hel].
Qed.

(* ------------------------------------------------------------------------------------------ *)
(* StringCollector                                                                              *)
(* ------------------------------------------------------------------------------------------ *)
Definition inc_bytes (c : collector) : bytes := match sc_inc c with Some i => i | None => [] end.
(* all the bytes the collector holds *)
Definition coll_bytes (c : collector) : bytes := sc_data c ++ inc_bytes c.
(* invariant: data is valid, the pending buffer is a proper non-empty prefix of one character *)
Definition coll_wf (c : collector) : Prop :=
  valid_utf8 (sc_data c) /\ match sc_inc c with Some i => step i = SIncomplete | None => True end.

Lemma coll_wf_new : coll_wf collector_new.
Proof. split; [constructor | exact I]. Qed.

Lemma decode_rest_spec data input : valid_utf8 data ->
  match collector_decode_rest data None input with
  | COk c' => coll_wf c' /\ coll_bytes c' = data ++ input
  | CErrUtf8 c' => coll_wf c' /\ forall t, ~ valid_utf8 (data ++ input ++ t)
  | CPanic => False
  end.
Proof.
  intros Vd. unfold collector_decode_rest. destruct input as [|i0 input'].
  - split; [split; [exact Vd | exact I] | reflexivity].
  - pose proof (utf8_decode_spec (i0 :: input')) as D.
    destruct (utf8_decode (i0 :: input')) as [|vp suf|vp|].
    + split; [split; [apply valid_app; assumption | exact I]|].
      unfold coll_bytes, inc_bytes. cbn [sc_data sc_inc]. apply app_nil_r.
    + destruct D as [E [V S]]. split; [split; [apply valid_app; assumption | exact S]|].
      unfold coll_bytes, inc_bytes. cbn [sc_data sc_inc]. rewrite E, app_assoc. reflexivity.
    + destruct D as [r [n [E [V S]]]]. split; [split; [apply valid_app; assumption | exact I]|].
      intros t Vt. rewrite E in Vt. rewrite <- app_assoc, app_assoc in Vt.
      apply valid_app_inv in Vt; [|apply valid_app; assumption].
      exact (step_not_valid_invalid _ _ S t Vt).
    + exact D.
Qed.

Lemma collector_extend_spec c tail : coll_wf c ->
  match collector_extend c tail with
  | COk c' => coll_wf c' /\ coll_bytes c' = coll_bytes c ++ tail
  | CErrUtf8 c' => coll_wf c' /\ forall t, ~ valid_utf8 (coll_bytes c ++ tail ++ t)
  | CPanic => False
  end.
Proof.
  intros [Vd Wi]. unfold collector_extend.
  assert (Bc : coll_bytes c = sc_data c ++ match sc_inc c with Some i => i | None => [] end) by reflexivity.
  rewrite Bc. clear Bc.
  destruct (sc_inc c) as [inc|].
  - pose proof (try_complete_spec inc tail Wi) as T.
    destruct (try_complete inc tail) as [inc'|ok text rest|].
    + destruct T as [-> S]. split; [split; [exact Vd | exact S]|].
      unfold coll_bytes, inc_bytes. cbn [sc_data sc_inc]. rewrite app_assoc. reflexivity.
    + destruct ok.
      * destruct T as [E [Vt _]].
        pose proof (decode_rest_spec (sc_data c ++ text) rest (valid_app _ _ Vd Vt)) as R.
        destruct (collector_decode_rest (sc_data c ++ text) None rest) as [c'|c'|].
        -- destruct R as [W B]. split; [exact W|]. rewrite B, <- !app_assoc, E. reflexivity.
        -- destruct R as [W B]. split; [exact W|]. intros t Vt'. apply (B t).
           rewrite <- !app_assoc in *. rewrite (app_assoc inc), E, <- app_assoc in Vt'. exact Vt'.
        -- exact R.
      * destruct T as [n S]. split; [split; [exact Vd | exact I]|].
        intros t Vt'. rewrite <- app_assoc in Vt'. apply (valid_app_inv _ _ Vd) in Vt'.
        rewrite app_assoc in Vt'. exact (step_not_valid_invalid _ _ S t Vt').
    + exact T.
  - rewrite app_nil_r. apply decode_rest_spec. exact Vd.
Qed.

(* StringCollector::extend over a list of fragments, stopping at the first error (as the caller does),
   then StringCollector::into_string *)
Fixpoint collector_run (c : collector) (fs : list bytes) : cres :=
  match fs with
  | [] => COk c
  | f :: r => match collector_extend c f with COk c' => collector_run c' r | e => e end
  end.
Definition collect (fs : list bytes) : option bytes :=
  match collector_run collector_new fs with COk c => collector_into_string c | _ => None end.

Lemma collector_run_spec fs : forall c, coll_wf c ->
  match collector_run c fs with
  | COk c' => coll_wf c' /\ coll_bytes c' = coll_bytes c ++ concat fs
  | CErrUtf8 c' => coll_wf c' /\ forall t, ~ valid_utf8 (coll_bytes c ++ concat fs ++ t)
  | CPanic => False
  end.
Proof.
  induction fs as [|f r IH]; intros c W; cbn [collector_run concat].
  - split; [exact W | symmetry; apply app_nil_r].
  - pose proof (collector_extend_spec c f W) as X.
    destruct (collector_extend c f) as [c1|c1|].
    + destruct X as [W1 B1]. specialize (IH c1 W1).
      destruct (collector_run c1 r) as [c2|c2|].
      * destruct IH as [W2 B2]. split; [exact W2|]. rewrite B2, B1, <- app_assoc. reflexivity.
      * destruct IH as [W2 B2]. split; [exact W2|]. intros t Vt. apply (B2 t).
        rewrite B1, <- !app_assoc. rewrite <- !app_assoc in Vt. exact Vt.
      * exact IH.
    + destruct X as [W1 B1]. split; [exact W1|]. intros t Vt. apply (B1 (concat r ++ t)).
      rewrite <- !app_assoc in Vt. exact Vt.
    + exact X.
Qed.

Lemma coll_wf_completable c : coll_wf c -> exists t, valid_utf8 (coll_bytes c ++ t).
Proof.
  intros [Vd Wi]. unfold coll_bytes, inc_bytes. destruct (sc_inc c) as [i|].
  - destruct (step_incomplete_proper_prefix _ Wi) as [t [_ Vt]]. exists t.
    rewrite <- app_assoc. apply valid_app; assumption.
  - exists []. rewrite !app_nil_r. exact Vd.
Qed.

Lemma coll_wf_valid_iff c : coll_wf c -> (valid_utf8 (coll_bytes c) <-> sc_inc c = None).
Proof.
  intros [Vd Wi]. unfold coll_bytes, inc_bytes. destruct (sc_inc c) as [i|].
  - split; [|discriminate]. intros V. apply (valid_app_inv _ _ Vd) in V.
    exfalso. exact (step_not_valid_incomplete _ Wi V).
  - split; [reflexivity|]. intros _. rewrite app_nil_r. exact Vd.
Qed.

(* no panic, and an error is reported exactly when the bytes received so far cannot be completed *)
Theorem collector_run_failfast fs :
  collector_run collector_new fs <> CPanic /\
  ((exists c, collector_run collector_new fs = COk c) <-> exists t, valid_utf8 (concat fs ++ t)).
Proof.
  pose proof (collector_run_spec fs collector_new coll_wf_new) as R.
  change (coll_bytes collector_new) with (@nil N) in R. cbn [app] in R.
  destruct (collector_run collector_new fs) as [c|c|].
  - split; [discriminate|]. split.
    + intros _. destruct R as [W B]. rewrite <- B. apply coll_wf_completable. exact W.
    + intros _. exists c. reflexivity.
  - split; [discriminate|]. destruct R as [_ B]. split.
    + intros [c' Ec]. discriminate Ec.
    + intros [t Vt]. exfalso. exact (B t Vt).
  - exfalso. exact R.
Qed.

Theorem collect_correct fs :
  collector_run collector_new fs <> CPanic /\
  forall s, collect fs = Some s <-> valid_utf8 (concat fs) /\ s = concat fs.
Proof.
  split; [apply collector_run_failfast|]. intros s. unfold collect.
  pose proof (collector_run_spec fs collector_new coll_wf_new) as R.
  change (coll_bytes collector_new) with (@nil N) in R. cbn [app] in R.
  destruct (collector_run collector_new fs) as [c|c|].
  - destruct R as [W B]. pose proof (coll_wf_valid_iff c W) as VI. rewrite B in VI.
    unfold collector_into_string. unfold coll_bytes, inc_bytes in B.
    destruct (sc_inc c) as [i|].
    + split; [discriminate|]. intros [V _]. apply VI in V. discriminate V.
    + rewrite app_nil_r in B. rewrite B. split.
      * intros E. injection E as <-. split; [apply VI; reflexivity | reflexivity].
      * intros [_ ->]. reflexivity.
  - destruct R as [_ B]. split; [discriminate|]. intros [V _]. exfalso.
    apply (B []). rewrite app_nil_r. exact V.
  - exfalso. exact R.
Qed.

(* closed form: the result depends on the concatenation only, not on where the cuts fall *)
Theorem collect_closed_form fs :
  collect fs = if is_utf8 (concat fs) then Some (concat fs) else None.
Proof.
  destruct (collect_correct fs) as [_ C].
  destruct (is_utf8 (concat fs)) eqn:U.
  - apply C. split; [apply is_utf8_iff; exact U | reflexivity].
  - destruct (collect fs) as [s|] eqn:E; [|reflexivity].
    destruct (proj1 (C s) eq_refl) as [V _]. apply is_utf8_iff in V. congruence.
Qed.

Corollary collect_cut_independent fs1 fs2 : concat fs1 = concat fs2 -> collect fs1 = collect fs2.
Proof. intros E. rewrite !collect_closed_form, E. reflexivity. Qed.

(* ------------------------------------------------------------------------------------------ *)
(* Message.v: close reasons, IncompleteMessage                                                  *)
(* ------------------------------------------------------------------------------------------ *)
Lemma frame_into_close_long a b reason :
  frame_into_close (a :: b :: reason) =
  if is_utf8 reason then ROk (Some (close_of_u16 (from_be [a; b]), reason)) else RErr EUtf8.
Proof. reflexivity. Qed.

Theorem close_reason_accept_iff a b reason :
  (frame_into_close (a :: b :: reason) = ROk (Some (close_of_u16 (from_be [a; b]), reason)) <-> valid_utf8 reason) /\
  (frame_into_close (a :: b :: reason) = RErr EUtf8 <-> ~ valid_utf8 reason).
Proof.
  rewrite frame_into_close_long, <- is_utf8_iff.
  destruct (is_utf8 reason); split; split; intros H; try reflexivity; try discriminate H; try congruence.
Qed.

(* whatever Frame::into_close returns as a reason is valid, and is the payload minus the code *)
Lemma frame_into_close_ok payload code reason :
  frame_into_close payload = ROk (Some (code, reason)) ->
  valid_utf8 reason /\ exists a b, payload = a :: b :: reason /\ code = close_of_u16 (from_be [a; b]).
Proof.
  destruct payload as [|a [|b r]]; cbn [frame_into_close]; try discriminate.
  destruct (is_utf8 r) eqn:U; [|discriminate]. intros H. injection H as <- <-.
  split; [apply is_utf8_iff; exact U|]. exists a, b. split; reflexivity.
Qed.

Definition incmsg_wf (m : incmsg) : Prop := match m with ITxt c => coll_wf c | IBin _ => True end.

Lemma incmsg_extend_wf m tail lim : incmsg_wf m ->
  incmsg_wf (snd (incmsg_extend m tail lim)) /\
  fst (incmsg_extend m tail lim) <> RPanic site_utf8_checked_sub.
Proof.
  intros W. unfold incmsg_extend.
  destruct ((limit_of lim <? incmsg_len m) || (limit_of lim - incmsg_len m <? blen tail)).
  - destruct (two64 <=? incmsg_len m + blen tail); cbn [fst snd]; (split; [exact W | discriminate]).
  - destruct m as [c|v]; [|cbn [fst snd]; split; [exact I | discriminate]].
    pose proof (collector_extend_spec c tail W) as X.
    destruct (collector_extend c tail) as [c'|c'|]; cbn [fst snd].
    + split; [apply X | discriminate].
    + split; [apply X | discriminate].
    + exfalso. exact X.
Qed.

Lemma incmsg_complete_text m s : incmsg_wf m -> incmsg_complete m = ROk (MText s) -> valid_utf8 s.
Proof.
  destruct m as [c|v]; cbn [incmsg_wf incmsg_complete]; [|discriminate].
  intros [Vd _]. unfold collector_into_string. destruct (sc_inc c); [discriminate|].
  intros H. injection H as <-. exact Vd.
Qed.

(* ------------------------------------------------------------------------------------------ *)
(* Protocol.v: everything read returns is valid UTF-8                                           *)
(* ------------------------------------------------------------------------------------------ *)
(* the strings a message exposes through Utf8Bytes::as_str *)
Definition msg_ok (m : message) : Prop :=
  match m with
  | MText s => valid_utf8 s
  | MClose (Some (_, reason)) => valid_utf8 reason
  | _ => True
  end.

Definition inc_wf (i : option incmsg) : Prop := match i with Some m => incmsg_wf m | None => True end.
Definition ctx_wf (x : ctx) : Prop := inc_wf (x_incomplete x).

Lemma x_incomplete_set_additional x f : x_incomplete (set_additional x f) = x_incomplete x.
Proof.
  unfold set_additional. destruct (x_additional x) as [g|]; [|reflexivity].
  destruct (opcode_eqb (h_opcode (f_hdr g)) (OCtl Pong)); reflexivity.
Qed.

Definition close_ok (cl : option close_frame) : Prop :=
  match cl with Some (_, reason) => valid_utf8 reason | None => True end.

Lemma protocol_violation_valid :
  valid_utf8 [80; 114; 111; 116; 111; 99; 111; 108; 32; 118; 105; 111; 108; 97; 116; 105; 111; 110].
Proof. apply is_utf8_iff. vm_compute. reflexivity. Qed.

Lemma do_close_spec x cl : close_ok cl ->
  x_incomplete (snd (do_close x cl)) = x_incomplete x /\
  match fst (do_close x cl) with ROk (Some c) => close_ok c | _ => True end.
Proof.
  intros C. unfold do_close. destruct (x_state x); cbn [fst snd].
  - split; [rewrite x_incomplete_set_additional; reflexivity|].
    destruct cl as [[code reason]|]; [|exact I].
    destruct (close_allowed code); [exact C | exact protocol_violation_valid].
  - split; [reflexivity | exact C].
  - split; [reflexivity | exact I].
  - split; [reflexivity | exact I].
  - split; [reflexivity | exact I].
Qed.

Lemma frame_into_close_close_ok payload cl : frame_into_close payload = ROk cl -> close_ok cl.
Proof.
  destruct cl as [[code reason]|]; [|intros _; exact I].
  intros H. apply frame_into_close_ok in H. apply H.
Qed.

(* The part of read_message_frame that follows a successful read_frame, as a function of the frame only
   (it never touches the transport).  [rmf_unfold] below proves this is exactly what the model does. *)
Definition on_frame (x1 : ctx) (f : frame) : res (option message) * ctx :=
  let h := f_hdr f in
  if negb (can_read (x_state x1)) then (RErr (EProtocol ReceivedAfterClosing), x1) else
  if h_rsv1 h || h_rsv2 h || h_rsv3 h then (RErr (EProtocol NonZeroReservedBits), x1) else
  if role_eqb (x_role x1) Client && (match h_mask h with Some _ => true | None => false end)
  then (RErr (EProtocol MaskedFrameFromServer), x1) else
  match h_opcode h with
  | OCtl ctl =>
      if negb (h_fin h) then (RErr (EProtocol FragmentedControlFrame), x1) else
      if 125 <? blen (f_payload f) then (RErr (EProtocol ControlFrameTooBig), x1) else
      match ctl with
      | Close =>
          match frame_into_close (f_payload f) with
          | ROk cl =>
              let '(r, x2) := do_close x1 cl in
              match r with
              | ROk (Some c) => (ROk (Some (MClose c)), x2)
              | ROk None => (ROk None, x2)
              | RErr e => (RErr e, x2)
              | RPanic s => (RPanic s, x2)
              | ROutOfFuel => (ROutOfFuel, x2)
              end
          | RErr e => (RErr e, x1)
          | RPanic s => (RPanic s, x1)
          | ROutOfFuel => (ROutOfFuel, x1)
          end
      | CReserved i => (RErr (EProtocol (UnknownControlFrameType i)), x1)
      | Ping =>
          let x2 := if is_active (x_state x1) then set_additional x1 (frame_pong (f_payload f)) else x1 in
          (ROk (Some (MPing (f_payload f))), x2)
      | Pong => (ROk (Some (MPong (f_payload f))), x1)
      end
  | OData d =>
      let fin := h_fin h in
      match d with
      | Continue =>
          match x_incomplete x1 with
          | Some msg =>
              let '(r, msg') := incmsg_extend msg (f_payload f) (cfg_max_message_size (x_cfg x1)) in
              let x2 := set_incomplete x1 (Some msg') in
              match r with
              | ROk _ =>
                  if fin then
                    match incmsg_complete msg' with
                    | ROk m => (ROk (Some m), set_incomplete x2 None)
                    | RErr e => (RErr e, set_incomplete x2 None)
                    | RPanic s => (RPanic s, x2)
                    | ROutOfFuel => (ROutOfFuel, x2)
                    end
                  else (ROk None, x2)
              | RErr e => (RErr e, x2)
              | RPanic s => (RPanic s, x2)
              | ROutOfFuel => (ROutOfFuel, x2)
              end
          | None => (RErr (EProtocol UnexpectedContinueFrame), x1)
          end
      | _ =>
          match x_incomplete x1 with
          | Some _ => (RErr (EProtocol (ExpectedFragment d)), x1)
          | None =>
              match d with
              | DReserved i => (RErr (EProtocol (UnknownDataFrameType i)), x1)
              | Continue => (RPanic site_not_text_nor_binary, x1)
              | Text | Binary =>
                  if fin then
                    match check_max_size (blen (f_payload f)) (cfg_max_message_size (x_cfg x1)) with
                    | ROk _ =>
                        match d with
                        | Text => if is_utf8 (f_payload f) then (ROk (Some (MText (f_payload f))), x1)
                                  else (RErr EUtf8, x1)
                        | _ => (ROk (Some (MBinary (f_payload f))), x1)
                        end
                    | RErr e => (RErr e, x1)
                    | RPanic s => (RPanic s, x1)
                    | ROutOfFuel => (ROutOfFuel, x1)
                    end
                  else
                    let inc0 := match d with Text => ITxt collector_new | _ => IBin [] end in
                    let '(r, inc1) := incmsg_extend inc0 (f_payload f) (cfg_max_message_size (x_cfg x1)) in
                    match r with
                    | ROk _ => (ROk None, set_incomplete x1 (Some inc1))
                    | RErr e => (RErr e, x1)
                    | RPanic s => (RPanic s, x1)
                    | ROutOfFuel => (ROutOfFuel, x1)
                    end
              end
          end
      end
  end.

Ltac dmatch :=
  repeat match goal with
  | |- context [match ?x with _ => _ end] => destruct x eqn:?
  end.

Lemma rmf_unfold x w :
  read_message_frame x w =
  let '(r0, c1, w1) := read_frame (cfg_max_frame_size (x_cfg x)) (role_eqb (x_role x) Server)
                                  (cfg_accept_unmasked (x_cfg x)) (x_codec x) w in
  let '(r0', s1) := check_connection_reset r0 (x_state x) in
  let x1 := set_state (set_codec x c1) s1 in
  match r0' with
  | RErr e => (RErr e, x1, w1)
  | RPanic s => (RPanic s, x1, w1)
  | ROutOfFuel => (ROutOfFuel, x1, w1)
  | ROk None =>
      let x2 := set_state x1 Terminated in
      match x_state x1 with
      | ClosedByPeer | CloseAcknowledged => (RErr EConnectionClosed, x2, w1)
      | _ => (RErr (EProtocol ResetWithoutClosingHandshake), x2, w1)
      end
  | ROk (Some f) => let '(r, x2) := on_frame x1 f in (r, x2, w1)
  end.
Proof.
  unfold read_message_frame.
  destruct (read_frame _ _ _ _ _) as [[r0 c1] w1].
  destruct (check_connection_reset r0 (x_state x)) as [r0' s1].
  destruct r0' as [[f|]|e|s|]; try reflexivity.
  unfold on_frame. dmatch; reflexivity.
Qed.

Definition res_msg_ok (r : res (option message)) : Prop :=
  match r with ROk (Some m) => msg_ok m | _ => True end.

Lemma on_frame_exposed x1 f : ctx_wf x1 ->
  ctx_wf (snd (on_frame x1 f)) /\ res_msg_ok (fst (on_frame x1 f)).
Proof.
  intros W. unfold on_frame.
  destruct (negb (can_read (x_state x1))); [split; [exact W | exact I]|].
  destruct (h_rsv1 (f_hdr f) || h_rsv2 (f_hdr f) || h_rsv3 (f_hdr f)); [split; [exact W | exact I]|].
  destruct (role_eqb (x_role x1) Client && _); [split; [exact W | exact I]|].
  destruct (h_opcode (f_hdr f)) as [d|ctl].
  - (* data *)
    destruct d as [| | |i].
    + (* Continue *)
      pose proof W as W0. unfold ctx_wf in W.
      destruct (x_incomplete x1) as [msg|] eqn:Ei; [|split; [exact W0 | exact I]].
      pose proof (incmsg_extend_wf msg (f_payload f) (cfg_max_message_size (x_cfg x1)) W) as [W' _].
      destruct (incmsg_extend msg (f_payload f) (cfg_max_message_size (x_cfg x1))) as [r msg'].
      cbn [snd] in W'.
      destruct r as [u|e|s|]; try (split; [exact W' | exact I]).
      destruct (h_fin (f_hdr f)); [|split; [exact W' | exact I]].
      destruct (incmsg_complete msg') as [m|e|s|] eqn:Ec; cbn [fst snd]; try (split; [exact W' | exact I]);
        try (split; [exact I | exact I]).
      split; [exact I|]. cbn [res_msg_ok].
      destruct msg' as [c|v]; cbn [incmsg_complete] in Ec.
      * destruct (collector_into_string c) eqn:Es; [|discriminate Ec]. injection Ec as <-.
        apply (incmsg_complete_text (ITxt c)); [exact W' | cbn [incmsg_complete]; rewrite Es; reflexivity].
      * injection Ec as <-. exact I.
    + (* Text *)
      destruct (x_incomplete x1) as [msg|] eqn:Ei; [split; [exact W | exact I]|].
      destruct (h_fin (f_hdr f)).
      * destruct (check_max_size _ _); try (split; [exact W | exact I]).
        destruct (is_utf8 (f_payload f)) eqn:U; [|split; [exact W | exact I]].
        split; [exact W | apply is_utf8_iff; exact U].
      * pose proof (incmsg_extend_wf (ITxt collector_new) (f_payload f) (cfg_max_message_size (x_cfg x1)) coll_wf_new) as [W' _].
        destruct (incmsg_extend (ITxt collector_new) (f_payload f) (cfg_max_message_size (x_cfg x1))) as [r inc1].
        cbn [snd] in W'.
        destruct r as [u|e|s|]; try (split; [exact W | exact I]).
        split; [exact W' | exact I].
    + (* Binary *)
      destruct (x_incomplete x1) as [msg|] eqn:Ei; [split; [exact W | exact I]|].
      destruct (h_fin (f_hdr f)).
      * destruct (check_max_size _ _); split; try exact W; exact I.
      * pose proof (incmsg_extend_wf (IBin []) (f_payload f) (cfg_max_message_size (x_cfg x1)) I) as [W' _].
        destruct (incmsg_extend (IBin []) (f_payload f) (cfg_max_message_size (x_cfg x1))) as [r inc1].
        cbn [snd] in W'.
        destruct r as [u|e|s|]; try (split; [exact W | exact I]).
        split; [exact W' | exact I].
    + destruct (x_incomplete x1); split; try exact W; exact I.
  - (* control *)
    destruct (negb (h_fin (f_hdr f))); [split; [exact W | exact I]|].
    destruct (125 <? blen (f_payload f)); [split; [exact W | exact I]|].
    destruct ctl as [| | |i].
    + destruct (frame_into_close (f_payload f)) as [cl|e|s|] eqn:Ef; try (split; [exact W | exact I]).
      pose proof (do_close_spec x1 cl (frame_into_close_close_ok _ _ Ef)) as [Ex Hr].
      destruct (do_close x1 cl) as [r x2]. cbn [fst snd] in Ex, Hr.
      assert (W2 : ctx_wf x2) by (unfold ctx_wf; rewrite Ex; exact W).
      destruct r as [[c|]|e|s|]; cbn [fst snd]; try (split; [exact W2 | exact I]).
      split; [exact W2|]. destruct c as [[code reason]|]; [exact Hr | exact I].
    + cbn [fst snd]. split; [|exact I].
      destruct (is_active (x_state x1)); [|exact W].
      unfold ctx_wf. rewrite x_incomplete_set_additional. exact W.
    + split; [exact W | exact I].
    + split; [exact W | exact I].
Qed.

Theorem rmf_exposed x w r x' w' : ctx_wf x -> read_message_frame x w = (r, x', w') ->
  ctx_wf x' /\ res_msg_ok r.
Proof.
  intros W. rewrite rmf_unfold.
  destruct (read_frame _ _ _ _ _) as [[r0 c1] w1].
  destruct (check_connection_reset r0 (x_state x)) as [r0' s1].
  destruct r0' as [[f|]|e|s|]; cbv zeta.
  - pose proof (on_frame_exposed (set_state (set_codec x c1) s1) f W) as [W2 M].
    destruct (on_frame (set_state (set_codec x c1) s1) f) as [r2 x2]. cbn [fst snd] in W2, M.
    intros H. injection H as <- <- <-. split; assumption.
  - cbv zeta. destruct (x_state (set_state (set_codec x c1) s1)); intros H; injection H as <- <- <-; split; try exact W; exact I.
  - intros H; injection H as <- <- <-; split; [exact W | exact I].
  - intros H; injection H as <- <- <-; split; [exact W | exact I].
  - intros H; injection H as <- <- <-; split; [exact W | exact I].
Qed.

(* the write side never touches the incomplete message *)
Lemma buffer_frame_inc x f w r x' w' : buffer_frame x f w = (r, x', w') -> x_incomplete x' = x_incomplete x.
Proof.
  unfold buffer_frame.
  destruct (match x_role x with Server => (f, w) | Client => _ end) as [f1 w1].
  destruct (codec_buffer_frame (x_codec x) f1 w1) as [[r1 c'] w2].
  destruct (check_connection_reset r1 (x_state x)) as [r' s'].
  intros H. injection H as <- <- <-. reflexivity.
Qed.

Lemma write__inc x data w r x' w' : write_ x data w = (r, x', w') -> x_incomplete x' = x_incomplete x.
Proof.
  unfold write_.
  assert (H0 : forall r0 x0 w0,
    match data with Some f => buffer_frame x f w | None => (ROk tt, x, w) end = (r0, x0, w0) ->
    x_incomplete x0 = x_incomplete x).
  { intros r0 x0 w0. destruct data as [f|]; [apply buffer_frame_inc|].
    intros H; injection H as <- <- <-; reflexivity. }
  destruct (match data with Some f => buffer_frame x f w | None => (ROk tt, x, w) end) as [[r0 x0] w0].
  specialize (H0 r0 x0 w0 eq_refl).
  destruct r0 as [u|e|s|]; try (intros H; injection H as <- <- <-; exact H0).
  assert (H1 : forall r1 x1 w1,
    match x_additional x0 with
    | Some msg =>
        let xa := set_additional_raw x0 None in
        let '(rb, xb, wb) := buffer_frame xa msg w0 in
        match rb with
        | RErr (EWriteBufferFull f') => (ROk false, set_additional xb f', wb)
        | RErr e => (RErr e, set_unflushed xb true, wb)
        | RPanic s => (RPanic s, xb, wb)
        | ROutOfFuel => (ROutOfFuel, xb, wb)
        | ROk _ => (ROk true, set_unflushed xb true, wb)
        end
    | None => (ROk (x_unflushed x0), x0, w0)
    end = (r1, x1, w1) -> x_incomplete x1 = x_incomplete x0).
  { intros r1 x1 w1. destruct (x_additional x0) as [msg|].
    - cbv zeta.
      destruct (buffer_frame (set_additional_raw x0 None) msg w0) as [[rb xb] wb] eqn:Eb.
      apply buffer_frame_inc in Eb. cbn [x_incomplete set_additional_raw] in Eb.
      destruct rb as [u'|e|s|]; try (intros H; injection H as <- <- <-; exact Eb).
      destruct e; intros H; injection H as <- <- <-; try exact Eb.
      rewrite x_incomplete_set_additional. exact Eb.
    - intros H; injection H as <- <- <-; reflexivity. }
  destruct (match x_additional x0 with Some msg => _ | None => _ end) as [[r1 x1] w1].
  specialize (H1 r1 x1 w1 eq_refl).
  destruct r1 as [sf|e|s|]; try (intros H; injection H as <- <- <-; congruence).
  destruct (role_eqb (x_role x1) Server && closing_done (x_state x1) && _).
  - destruct (write_out_buffer (x_codec x1) w1) as [[rw c'] w2].
    destruct rw; intros H; injection H as <- <- <-; cbn [x_incomplete set_state set_codec]; congruence.
  - intros H; injection H as <- <- <-; congruence.
Qed.

Lemma flush_inc x w r x' w' : flush x w = (r, x', w') -> x_incomplete x' = x_incomplete x.
Proof.
  unfold flush. destruct (write_ x None w) as [[r0 x0] w0] eqn:E0. apply write__inc in E0.
  destruct r0 as [u|e|s|]; try (intros H; injection H as <- <- <-; exact E0).
  destruct (write_out_buffer (x_codec x0) w0) as [[r1 c1] w1].
  destruct r1 as [u1|e|s|]; try (intros H; injection H as <- <- <-; exact E0).
  destruct (w_flush w1) as [r2 w2].
  destruct r2; intros H; injection H as <- <- <-; exact E0.
Qed.

Lemma close_inc x code w r x' w' : close x code w = (r, x', w') -> x_incomplete x' = x_incomplete x.
Proof.
  unfold close. destruct (x_state x); intros H; apply flush_inc in H; exact H.
Qed.

Lemma write_inc x m w r x' w' : write x m w = (r, x', w') -> x_incomplete x' = x_incomplete x.
Proof.
  unfold write.
  destruct (is_terminated (x_state x)); [intros H; injection H as <- <- <-; reflexivity|].
  destruct (negb (is_active (x_state x))); [intros H; injection H as <- <- <-; reflexivity|].
  assert (D : forall f,
    (let '(r, x1, w1) := write_ x (Some f) w in
     match r with
     | ROk true => flush x1 w1
     | ROk false => (ROk tt, x1, w1)
     | RErr e => (RErr e, x1, w1)
     | RPanic s => (RPanic s, x1, w1)
     | ROutOfFuel => (ROutOfFuel, x1, w1)
     end) = (r, x', w') -> x_incomplete x' = x_incomplete x).
  { intros f. destruct (write_ x (Some f) w) as [[r1 x1] w1] eqn:E1. apply write__inc in E1.
    destruct r1 as [[|]|e|s|]; try (intros H; injection H as <- <- <-; exact E1).
    intros H. apply flush_inc in H. congruence. }
  destruct m as [d|d|d|d|code|f]; try apply D.
  - destruct (write_ (set_additional x (frame_pong d)) None w) as [[r1 x1] w1] eqn:E1.
    apply write__inc in E1. rewrite x_incomplete_set_additional in E1.
    destruct r1; intros H; injection H as <- <- <-; exact E1.
  - apply close_inc.
Qed.

Definition res_read_ok (r : res message) : Prop := match r with ROk m => msg_ok m | _ => True end.

Lemma read_loop_exposed fuel : forall x w r x' w', ctx_wf x -> read_loop fuel x w = (r, x', w') ->
  ctx_wf x' /\ res_read_ok r.
Proof.
  induction fuel as [|fuel IH]; intros x w r x' w' W; cbn [read_loop].
  - intros H; injection H as <- <- <-. split; [exact W | exact I].
  - assert (P : forall r0 x0 w0,
      (if (match x_additional x with Some _ => true | None => false end) || x_unflushed x then
         let '(r, x', w') := flush x w in
         match r with
         | ROk _ => (ROk tt, x', w')
         | RErr (EIo WouldBlock) => (ROk tt, set_unflushed x' true, w')
         | _ => (r, x', w')
         end
       else if role_eqb (x_role x) Server && negb (can_read (x_state x)) then
         let '(rw, c', w') := write_out_buffer (x_codec x) w in
         match rw with
         | ROk _ => (RErr EConnectionClosed, set_state (set_codec x c') Terminated, w')
         | _ => (rw, set_codec x c', w')
         end
       else (ROk tt, x, w)) = (r0, x0, w0) -> x_incomplete x0 = x_incomplete x).
    { intros r0 x0 w0.
      destruct ((match x_additional x with Some _ => true | None => false end) || x_unflushed x).
      - destruct (flush x w) as [[rf xf] wf] eqn:Ef. apply flush_inc in Ef.
        destruct rf as [u|e|s|]; try (intros H; injection H as <- <- <-; exact Ef).
        destruct e as [| |k| | | |]; try (intros H; injection H as <- <- <-; exact Ef).
        destruct k; intros H; injection H as <- <- <-; exact Ef.
      - destruct (role_eqb (x_role x) Server && negb (can_read (x_state x))).
        + destruct (write_out_buffer (x_codec x) w) as [[rw c'] ww].
          destruct rw; intros H; injection H as <- <- <-; reflexivity.
        + intros H; injection H as <- <- <-; reflexivity. }
    destruct (if (match x_additional x with Some _ => true | None => false end) || x_unflushed x then _ else _)
      as [[r0 x0] w0].
    specialize (P r0 x0 w0 eq_refl).
    assert (W0 : ctx_wf x0) by (unfold ctx_wf; rewrite P; exact W).
    destruct r0 as [u|e|s|]; try (intros H; injection H as <- <- <-; split; [exact W0 | exact I]).
    destruct (read_message_frame x0 w0) as [[r1 x1] w1] eqn:E1.
    destruct (rmf_exposed _ _ _ _ _ W0 E1) as [W1 M1].
    destruct r1 as [[m|]|e|s|]; try (intros H; injection H as <- <- <-; split; [exact W1 | exact I]).
    + intros H; injection H as <- <- <-. split; [exact W1 | exact M1].
    + apply IH. exact W1.
Qed.

Theorem read_exposed x w r x' w' : ctx_wf x -> read x w = (r, x', w') -> ctx_wf x' /\ res_read_ok r.
Proof.
  intros W. unfold read. destruct (is_terminated (x_state x)).
  - intros H; injection H as <- <- <-. split; [exact W | exact I].
  - apply read_loop_exposed. exact W.
Qed.

Definition op_result_ok (o : op_result) : Prop := match o with ResMsg r => res_read_ok r | _ => True end.

Lemma run_op_exposed x o w res x' w' : ctx_wf x -> run_op x o w = (res, x', w') ->
  ctx_wf x' /\ op_result_ok res.
Proof.
  intros W. unfold run_op. destruct o as [|m| |c| | |wbs mx].
  - destruct (read x w) as [[r x1] w1] eqn:E. apply (read_exposed _ _ _ _ _ W) in E.
    intros H; injection H as <- <- <-. exact E.
  - destruct (write x m w) as [[r x1] w1] eqn:E. apply write_inc in E.
    intros H; injection H as <- <- <-. split; [unfold ctx_wf; rewrite E; exact W | exact I].
  - destruct (flush x w) as [[r x1] w1] eqn:E. apply flush_inc in E.
    intros H; injection H as <- <- <-. split; [unfold ctx_wf; rewrite E; exact W | exact I].
  - destruct (close x c w) as [[r x1] w1] eqn:E. apply close_inc in E.
    intros H; injection H as <- <- <-. split; [unfold ctx_wf; rewrite E; exact W | exact I].
  - intros H; injection H as <- <- <-. split; [exact W | exact I].
  - intros H; injection H as <- <- <-. split; [exact W | exact I].
  - destruct (config_valid _); intros H; injection H as <- <- <-; (split; [exact W | exact I]).
Qed.

Theorem run_ops_exposed ops : forall x w rs x' w', ctx_wf x -> run_ops x ops w = (rs, x', w') ->
  ctx_wf x' /\ Forall (fun p => op_result_ok (fst p)) rs.
Proof.
  induction ops as [|o ops IH]; intros x w rs x' w' W; cbn [run_ops].
  - intros H; injection H as <- <- <-. split; [exact W | constructor].
  - destruct (run_op x o w) as [[res1 x1] w1] eqn:E1.
    destruct (run_op_exposed _ _ _ _ _ _ W E1) as [W1 R1].
    destruct (run_ops x1 ops w1) as [[rs2 x2] w2] eqn:E2.
    destruct (IH _ _ _ _ _ W1 E2) as [W2 R2].
    intros H; injection H as <- <- <-. split; [exact W2|]. constructor; [exact R1 | exact R2].
Qed.

Lemma ctx_new_wf r part cfg x : ctx_new r part cfg = Some x -> ctx_wf x.
Proof.
  unfold ctx_new. destruct (config_valid cfg); [|discriminate].
  intros H; injection H as <-. exact I.
Qed.

(* ------------------------------------------------------------------------------------------ *)
(* Frame level: a text message cut into frames is accepted iff the concatenation is valid       *)
(* ------------------------------------------------------------------------------------------ *)
(* the frame passes the checks that precede the opcode dispatch *)
Definition guards_pass (x : ctx) (f : frame) : Prop :=
  can_read (x_state x) = true /\
  h_rsv1 (f_hdr f) = false /\ h_rsv2 (f_hdr f) = false /\ h_rsv3 (f_hdr f) = false /\
  (x_role x = Client -> h_mask (f_hdr f) = None).

Lemma guards_pass_eval x f : guards_pass x f ->
  negb (can_read (x_state x)) = false /\
  h_rsv1 (f_hdr f) || h_rsv2 (f_hdr f) || h_rsv3 (f_hdr f) = false /\
  role_eqb (x_role x) Client && (match h_mask (f_hdr f) with Some _ => true | None => false end) = false.
Proof.
  intros [G0 [G1 [G2 [G3 G4]]]]. rewrite G0, G1, G2, G3. split; [reflexivity|]. split; [reflexivity|].
  destruct (x_role x); [reflexivity|]. rewrite (G4 eq_refl). reflexivity.
Qed.

Lemma blen_app {A} (a b : list A) : blen (a ++ b) = blen a + blen b.
Proof. unfold blen. rewrite app_length. lia. Qed.

Lemma collector_len_bytes c : collector_len c = blen (coll_bytes c).
Proof.
  unfold collector_len, coll_bytes, inc_bytes. rewrite blen_app.
  destruct (sc_inc c); reflexivity.
Qed.

Lemma incmsg_extend_text c tail lim : blen (coll_bytes c) + blen tail <= limit_of lim ->
  incmsg_extend (ITxt c) tail lim =
  match collector_extend c tail with
  | COk c' => (ROk tt, ITxt c')
  | CErrUtf8 c' => (RErr EUtf8, ITxt c')
  | CPanic => (RPanic site_utf8_checked_sub, ITxt c)
  end.
Proof.
  intros L. unfold incmsg_extend. cbn [incmsg_len]. rewrite collector_len_bytes.
  destruct ((limit_of lim <? blen (coll_bytes c)) || (limit_of lim - blen (coll_bytes c) <? blen tail)) eqn:C; [lia|].
  reflexivity.
Qed.

Lemma check_max_size_ok size lim : size <= limit_of lim -> check_max_size size lim = ROk tt.
Proof.
  unfold check_max_size, limit_of. destruct lim as [m|]; [|reflexivity].
  intros L. destruct (m <? size) eqn:C; [lia | reflexivity].
Qed.

Lemma on_frame_single_text x f :
  guards_pass x f -> h_opcode (f_hdr f) = OData Text -> h_fin (f_hdr f) = true ->
  x_incomplete x = None -> blen (f_payload f) <= limit_of (cfg_max_message_size (x_cfg x)) ->
  on_frame x f = (if is_utf8 (f_payload f) then ROk (Some (MText (f_payload f))) else RErr EUtf8, x).
Proof.
  intros G Ho Hf Hi L. apply guards_pass_eval in G. destruct G as [G0 [G1 G2]].
  unfold on_frame. rewrite G0, G1, G2, Ho, Hf, Hi, (check_max_size_ok _ _ L).
  destruct (is_utf8 (f_payload f)); reflexivity.
Qed.

Lemma on_frame_first_text x f :
  guards_pass x f -> h_opcode (f_hdr f) = OData Text -> h_fin (f_hdr f) = false ->
  x_incomplete x = None -> blen (f_payload f) <= limit_of (cfg_max_message_size (x_cfg x)) ->
  on_frame x f =
  match collector_extend collector_new (f_payload f) with
  | COk c' => (ROk None, set_incomplete x (Some (ITxt c')))
  | CErrUtf8 _ => (RErr EUtf8, x)
  | CPanic => (RPanic site_utf8_checked_sub, x)
  end.
Proof.
  intros G Ho Hf Hi L. apply guards_pass_eval in G. destruct G as [G0 [G1 G2]].
  unfold on_frame. rewrite G0, G1, G2, Ho, Hf, Hi.
  rewrite incmsg_extend_text by (change (coll_bytes collector_new) with (@nil N); unfold blen at 1; cbn [length]; lia).
  destruct (collector_extend collector_new (f_payload f)); reflexivity.
Qed.

Lemma on_frame_continue_text x f c :
  guards_pass x f -> h_opcode (f_hdr f) = OData Continue -> x_incomplete x = Some (ITxt c) ->
  blen (coll_bytes c) + blen (f_payload f) <= limit_of (cfg_max_message_size (x_cfg x)) ->
  on_frame x f =
  match collector_extend c (f_payload f) with
  | COk c' =>
      if h_fin (f_hdr f) then
        match collector_into_string c' with
        | Some s => (ROk (Some (MText s)), set_incomplete (set_incomplete x (Some (ITxt c'))) None)
        | None => (RErr EUtf8, set_incomplete (set_incomplete x (Some (ITxt c'))) None)
        end
      else (ROk None, set_incomplete x (Some (ITxt c')))
  | CErrUtf8 c' => (RErr EUtf8, set_incomplete x (Some (ITxt c')))
  | CPanic => (RPanic site_utf8_checked_sub, set_incomplete x (Some (ITxt c)))
  end.
Proof.
  intros G Ho Hi L. apply guards_pass_eval in G. destruct G as [G0 [G1 G2]].
  unfold on_frame. rewrite G0, G1, G2, Ho, Hi, (incmsg_extend_text _ _ _ L).
  destruct (collector_extend c (f_payload f)) as [c'|c'|]; try reflexivity.
  destruct (h_fin (f_hdr f)); [|reflexivity].
  cbn [incmsg_complete]. destruct (collector_into_string c'); reflexivity.
Qed.

(* a text message cut into frames: Text then Continue*, FIN on the last frame only *)
Fixpoint frag_shape (first : bool) (fs : list frame) : Prop :=
  match fs with
  | [] => False
  | f :: r =>
      h_opcode (f_hdr f) = OData (if first then Text else Continue) /\
      match r with
      | [] => h_fin (f_hdr f) = true
      | _ :: _ => h_fin (f_hdr f) = false /\ frag_shape false r
      end
  end.

(* hand the frames to the protocol layer one by one, as successive read calls do, until something
   other than "no message yet" comes out *)
Fixpoint feed (x : ctx) (fs : list frame) : res (option message) * ctx :=
  match fs with
  | [] => (ROk None, x)
  | f :: r => match on_frame x f with (ROk None, x') => feed x' r | other => other end
  end.

Definition payloads (fs : list frame) : bytes := concat (map f_payload fs).

Lemma guards_pass_set_incomplete x i f : guards_pass x f -> guards_pass (set_incomplete x i) f.
Proof. intros G. exact G. Qed.

Lemma is_utf8_false_iff bs : is_utf8 bs = false <-> ~ valid_utf8 bs.
Proof.
  rewrite <- is_utf8_iff. destruct (is_utf8 bs); split; intros H; try reflexivity; try discriminate H.
  - exfalso. apply H. reflexivity.
  - intros C. discriminate C.
Qed.

Lemma feed_continue fs : forall x c,
  x_incomplete x = Some (ITxt c) -> coll_wf c ->
  Forall (guards_pass x) fs -> frag_shape false fs ->
  blen (coll_bytes c ++ payloads fs) <= limit_of (cfg_max_message_size (x_cfg x)) ->
  fst (feed x fs) =
  if is_utf8 (coll_bytes c ++ payloads fs) then ROk (Some (MText (coll_bytes c ++ payloads fs))) else RErr EUtf8.
Proof.
  induction fs as [|f r IH]; intros x c Hi W G Sh L; [destruct Sh|].
  unfold payloads in *. cbn [map concat] in *.
  destruct Sh as [Ho Sh]. cbn [feed].
  pose proof (Forall_inv G) as Gf. pose proof (Forall_inv_tail G) as Gr.
  rewrite !blen_app in L.
  rewrite (on_frame_continue_text x f c Gf Ho Hi) by lia.
  pose proof (collector_extend_spec c (f_payload f) W) as X.
  destruct (collector_extend c (f_payload f)) as [c'|c'|].
  - destruct X as [W' B'].
    destruct r as [|f' r'].
    + rewrite Sh. cbn [concat]. rewrite app_nil_r, <- B'.
      pose proof (coll_wf_valid_iff c' W') as VI.
      unfold collector_into_string.
      destruct (sc_inc c') as [i|] eqn:Ei; cbn [fst].
      * replace (is_utf8 (coll_bytes c')) with false; [reflexivity|].
        symmetry. apply is_utf8_false_iff. intros V. apply VI in V. discriminate V.
      * replace (is_utf8 (coll_bytes c')) with true.
        -- unfold coll_bytes, inc_bytes. rewrite Ei, app_nil_r. reflexivity.
        -- symmetry. apply is_utf8_iff. apply VI. reflexivity.
    + destruct Sh as [Hf Sh]. rewrite Hf.
      rewrite (IH (set_incomplete x (Some (ITxt c'))) c' eq_refl W' Gr Sh).
      * rewrite B', <- app_assoc. reflexivity.
      * rewrite B', !blen_app. cbn [x_cfg set_incomplete]. unfold payloads. lia.
  - destruct X as [_ B']. cbn [fst].
    replace (is_utf8 _) with false; [reflexivity|].
    symmetry. apply is_utf8_false_iff. apply B'.
  - destruct X.
Qed.

Theorem feed_text_message x fs :
  x_incomplete x = None ->
  Forall (guards_pass x) fs -> frag_shape true fs ->
  blen (payloads fs) <= limit_of (cfg_max_message_size (x_cfg x)) ->
  fst (feed x fs) =
  if is_utf8 (payloads fs) then ROk (Some (MText (payloads fs))) else RErr EUtf8.
Proof.
  intros Hi G Sh L. destruct fs as [|f r]; [destruct Sh|].
  unfold payloads in *. cbn [map concat] in *. destruct Sh as [Ho Sh]. cbn [feed].
  pose proof (Forall_inv G) as Gf. pose proof (Forall_inv_tail G) as Gr.
  rewrite blen_app in L.
  destruct r as [|f' r'].
  - cbn [concat map] in *. rewrite app_nil_r.
    rewrite (on_frame_single_text x f Gf Ho Sh Hi) by lia.
    destruct (is_utf8 (f_payload f)); reflexivity.
  - destruct Sh as [Hf Sh].
    rewrite (on_frame_first_text x f Gf Ho Hf Hi) by lia.
    pose proof (collector_extend_spec collector_new (f_payload f) coll_wf_new) as X.
    change (coll_bytes collector_new) with (@nil N) in X. cbn [app] in X.
    destruct (collector_extend collector_new (f_payload f)) as [c'|c'|].
    + destruct X as [W' B'].
      rewrite (feed_continue (f' :: r') (set_incomplete x (Some (ITxt c'))) c' eq_refl W' Gr Sh).
      * rewrite B'. reflexivity.
      * rewrite B', blen_app. cbn [x_cfg set_incomplete]. unfold payloads. lia.
    + destruct X as [_ B']. cbn [fst].
      replace (is_utf8 _) with false; [reflexivity|].
      symmetry. apply is_utf8_false_iff. apply B'.
    + destruct X.
Qed.

(* ------------------------------------------------------------------------------------------ *)
(* spec-level reading of the collector invariant                                                *)
(* ------------------------------------------------------------------------------------------ *)
(* a proper non-empty prefix of the encoding of one character *)
Definition proper_char_prefix (i : bytes) : Prop :=
  i <> [] /\ exists t, t <> [] /\ valid_char (i ++ t).

Lemma step_whole_valid_char c : c <> [] -> step c = SChar (length c) -> valid_char c.
Proof.
  intros NE S. split; [|split; [exact NE|]].
  - apply step_char_valid with (n := length c); [exact S | rewrite skipn_all; constructor].
  - intros k Lk V.
    destruct (valid_step _ V) as [m [Sm _]].
    + destruct c; [congruence|]. destruct k; [lia | discriminate].
    + pose proof (step_char_len _ _ Sm) as Lm. rewrite firstn_length in Lm.
      pose proof (step_ext_char _ (skipn k c) _ Sm) as S'. rewrite firstn_skipn, S in S'.
      injection S' as S'. lia.
Qed.

Lemma step_incomplete_iff i : step i = SIncomplete <-> proper_char_prefix i.
Proof.
  split.
  - intros S. split; [intros ->; discriminate S|].
    destruct (step_incomplete_completable _ S) as [t [NE St]].
    exists t. split; [exact NE|]. apply step_whole_valid_char; [|exact St].
    intros E. apply app_eq_nil in E. destruct E as [_ E]. exact (NE E).
  - intros [NE [t [NEt [V [_ Min]]]]].
    assert (Lt : (length i < length (i ++ t))%nat)
      by (rewrite app_length; destruct t; [congruence | cbn [length]; lia]).
    destruct (step i) as [|m|m|] eqn:S; [ | | | reflexivity].
    + apply step_empty in S. congruence.
    + exfalso. pose proof (step_char_len _ _ S) as Lm.
      apply (Min m); [lia|].
      rewrite firstn_app. replace (m - length i)%nat with 0%nat by lia. cbn [firstn]. rewrite app_nil_r.
      apply valid_firstn_char. exact S.
    + exfalso. exact (step_not_valid_invalid _ _ S t V).
Qed.

Theorem collector_invariant fs c : collector_run collector_new fs = COk c ->
  sc_data c ++ inc_bytes c = concat fs /\ valid_utf8 (sc_data c) /\
  match sc_inc c with Some i => proper_char_prefix i | None => True end.
Proof.
  intros E. pose proof (collector_run_spec fs collector_new coll_wf_new) as R. rewrite E in R.
  destruct R as [[Vd Wi] B]. split; [exact B|]. split; [exact Vd|].
  destruct (sc_inc c) as [i|]; [apply step_incomplete_iff; exact Wi | exact I].
Qed.

(* read_message_frame on a frame delivered by read_frame *)
Lemma rmf_on_frame x w f c1 w1 :
  read_frame (cfg_max_frame_size (x_cfg x)) (role_eqb (x_role x) Server) (cfg_accept_unmasked (x_cfg x))
             (x_codec x) w = (ROk (Some f), c1, w1) ->
  read_message_frame x w = (fst (on_frame (set_codec x c1) f), snd (on_frame (set_codec x c1) f), w1).
Proof.
  intros E. rewrite rmf_unfold, E. cbn [check_connection_reset]. cbv zeta.
  change (set_state (set_codec x c1) (x_state x)) with (set_codec x c1).
  destruct (on_frame (set_codec x c1) f) as [r x2]. reflexivity.
Qed.

Theorem rmf_single_text x w f c1 w1 :
  read_frame (cfg_max_frame_size (x_cfg x)) (role_eqb (x_role x) Server) (cfg_accept_unmasked (x_cfg x))
             (x_codec x) w = (ROk (Some f), c1, w1) ->
  guards_pass x f -> h_opcode (f_hdr f) = OData Text -> h_fin (f_hdr f) = true ->
  x_incomplete x = None -> blen (f_payload f) <= limit_of (cfg_max_message_size (x_cfg x)) ->
  (valid_utf8 (f_payload f) ->
     read_message_frame x w = (ROk (Some (MText (f_payload f))), set_codec x c1, w1)) /\
  (~ valid_utf8 (f_payload f) -> read_message_frame x w = (RErr EUtf8, set_codec x c1, w1)).
Proof.
  intros E G Ho Hf Hi L. rewrite (rmf_on_frame _ _ _ _ _ E).
  rewrite (on_frame_single_text (set_codec x c1) f G Ho Hf Hi L). cbn [fst snd].
  split; intros V.
  - apply is_utf8_iff in V. rewrite V. reflexivity.
  - apply is_utf8_false_iff in V. rewrite V. reflexivity.
Qed.

(* a Close frame with a reason: rejected with Utf8 iff the reason is invalid; otherwise the reason reported
   to the user is exactly the reason on the wire (or the fixed ASCII text when the code is not allowed) *)
Definition protocol_violation_text : bytes :=
  [80; 114; 111; 116; 111; 99; 111; 108; 32; 118; 105; 111; 108; 97; 116; 105; 111; 110].

Theorem on_frame_close_reason x f a b reason :
  guards_pass x f -> h_opcode (f_hdr f) = OCtl Close -> h_fin (f_hdr f) = true ->
  blen (f_payload f) <= 125 -> f_payload f = a :: b :: reason ->
  let code := close_of_u16 (from_be [a; b]) in
  (~ valid_utf8 reason -> on_frame x f = (RErr EUtf8, x)) /\
  (valid_utf8 reason ->
     (x_state x = ClosedByUs -> fst (on_frame x f) = ROk (Some (MClose (Some (code, reason))))) /\
     (x_state x = Active -> close_allowed code = true ->
        fst (on_frame x f) = ROk (Some (MClose (Some (code, reason))))) /\
     (x_state x = Active -> close_allowed code = false ->
        fst (on_frame x f) = ROk (Some (MClose (Some (CProtocol, protocol_violation_text)))))).
Proof.
  intros G Ho Hf L Ep code. apply guards_pass_eval in G. destruct G as [G0 [G1 G2]].
  unfold on_frame. rewrite G0, G1, G2, Ho, Hf. cbn [negb].
  destruct (125 <? blen (f_payload f)) eqn:C; [lia|].
  rewrite Ep, frame_into_close_long. fold code.
  split; intros V.
  - apply is_utf8_false_iff in V. rewrite V. reflexivity.
  - apply is_utf8_iff in V. rewrite V. unfold do_close.
    split; [|split].
    + intros ->. reflexivity.
    + intros -> ->. reflexivity.
    + intros -> ->. reflexivity.
Qed.

(* ------------------------------------------------------------------------------------------ *)
(* the utf-8 crate's unwrap sites are unreachable from the protocol layer                       *)
(* ------------------------------------------------------------------------------------------ *)
Lemma frame_into_close_no_panic payload s : frame_into_close payload <> RPanic s.
Proof.
  destruct payload as [|a [|b r]]; cbn [frame_into_close]; try discriminate.
  destruct (is_utf8 r); discriminate.
Qed.

Lemma incmsg_complete_no_panic m s : incmsg_complete m <> RPanic s.
Proof.
  destruct m as [c|v]; cbn [incmsg_complete]; [|discriminate].
  destruct (collector_into_string c); discriminate.
Qed.

Lemma check_max_size_no_panic size lim s : check_max_size size lim <> RPanic s.
Proof.
  unfold check_max_size. destruct lim as [m|]; [|discriminate]. destruct (m <? size); discriminate.
Qed.

Lemma do_close_no_utf8_panic x cl : fst (do_close x cl) <> RPanic site_utf8_checked_sub.
Proof. unfold do_close. destruct (x_state x); cbn [fst]; discriminate. Qed.

Ltac np NP :=
  let H := fresh "H" in
  intros H; apply NP; cbn [fst] in H; injection H as ->; reflexivity.

Lemma on_frame_no_utf8_panic x f : ctx_wf x -> fst (on_frame x f) <> RPanic site_utf8_checked_sub.
Proof.
  intros W. unfold on_frame.
  destruct (negb (can_read (x_state x))); [discriminate|].
  destruct (h_rsv1 (f_hdr f) || h_rsv2 (f_hdr f) || h_rsv3 (f_hdr f)); [discriminate|].
  destruct (role_eqb (x_role x) Client && _); [discriminate|].
  destruct (h_opcode (f_hdr f)) as [d|ctl].
  - destruct d as [| | |i].
    + unfold ctx_wf in W. destruct (x_incomplete x) as [msg|]; [|discriminate].
      pose proof (incmsg_extend_wf msg (f_payload f) (cfg_max_message_size (x_cfg x)) W) as [_ NP].
      destruct (incmsg_extend msg (f_payload f) (cfg_max_message_size (x_cfg x))) as [r msg'].
      cbn [fst] in NP.
      destruct r as [u|e|s|]; try discriminate; [|np NP].
      destruct (h_fin (f_hdr f)); [|discriminate].
      pose proof (incmsg_complete_no_panic msg') as NC.
      destruct (incmsg_complete msg') as [m|e|s|]; try discriminate. exfalso. exact (NC s eq_refl).
    + destruct (x_incomplete x); [discriminate|].
      destruct (h_fin (f_hdr f)).
      * pose proof (check_max_size_no_panic (blen (f_payload f)) (cfg_max_message_size (x_cfg x))) as NC.
        destruct (check_max_size _ _) as [u|e|s|]; try discriminate.
        -- destruct (is_utf8 (f_payload f)); discriminate.
        -- exfalso. exact (NC s eq_refl).
      * pose proof (incmsg_extend_wf (ITxt collector_new) (f_payload f) (cfg_max_message_size (x_cfg x)) coll_wf_new) as [_ NP].
        destruct (incmsg_extend (ITxt collector_new) (f_payload f) (cfg_max_message_size (x_cfg x))) as [r inc1].
        cbn [fst] in NP. destruct r as [u|e|s|]; try discriminate. np NP.
    + destruct (x_incomplete x); [discriminate|].
      destruct (h_fin (f_hdr f)).
      * pose proof (check_max_size_no_panic (blen (f_payload f)) (cfg_max_message_size (x_cfg x))) as NC.
        destruct (check_max_size _ _) as [u|e|s|]; try discriminate. exfalso. exact (NC s eq_refl).
      * pose proof (incmsg_extend_wf (IBin []) (f_payload f) (cfg_max_message_size (x_cfg x)) I) as [_ NP].
        destruct (incmsg_extend (IBin []) (f_payload f) (cfg_max_message_size (x_cfg x))) as [r inc1].
        cbn [fst] in NP. destruct r as [u|e|s|]; try discriminate. np NP.
    + destruct (x_incomplete x); discriminate.
  - destruct (negb (h_fin (f_hdr f))); [discriminate|].
    destruct (125 <? blen (f_payload f)); [discriminate|].
    destruct ctl as [| | |i]; try discriminate.
    pose proof (frame_into_close_no_panic (f_payload f)) as NC.
    destruct (frame_into_close (f_payload f)) as [cl|e|s|]; try discriminate.
    + pose proof (do_close_no_utf8_panic x cl) as ND.
      destruct (do_close x cl) as [r x2]. cbn [fst] in ND.
      destruct r as [[c|]|e|s|]; try discriminate. np ND.
    + exfalso. exact (NC s eq_refl).
Qed.

(* lifting to read_message_frame / read / any history *)
Definition no_panic {A} (r : res A) : Prop := match r with RPanic _ => False | _ => True end.
Definition no_utf8_panic {A} (r : res A) : Prop := r <> RPanic site_utf8_checked_sub.

Lemma no_panic_no_utf8 {A} (r : res A) : no_panic r -> no_utf8_panic r.
Proof. destruct r; cbn [no_panic]; intros H; try discriminate. destruct H. Qed.

Lemma write_out_loop_no_panic wrs : forall out log, no_panic (fst (fst (fst (write_out_loop wrs out log)))).
Proof.
  induction wrs as [|wr wrs IH]; intros out log; destruct out as [|o out]; cbn [write_out_loop fst]; try exact I.
  destruct wr as [n|k]; [|exact I].
  destruct (N.min n (blen (o :: out)) =? 0); [exact I | apply IH].
Qed.

Lemma write_out_buffer_no_panic c w : no_panic (fst (fst (write_out_buffer c w))).
Proof.
  unfold write_out_buffer. pose proof (write_out_loop_no_panic (w_wrs w) (c_out c) (w_log w)) as P.
  destruct (write_out_loop (w_wrs w) (c_out c) (w_log w)) as [[[r out'] wrs'] log']. exact P.
Qed.

Lemma codec_buffer_frame_no_panic c f w : no_panic (fst (fst (codec_buffer_frame c f w))).
Proof.
  unfold codec_buffer_frame. destruct (c_max_out c <? _); [exact I|].
  destruct (c_write_len c <? _); [apply write_out_buffer_no_panic | exact I].
Qed.

Lemma check_connection_reset_no_panic {A} (r : res A) s : no_panic r -> no_panic (fst (check_connection_reset r s)).
Proof.
  intros P. unfold check_connection_reset. destruct r as [a|e|p|]; try exact P.
  destruct e as [| |k| | | |]; try exact I. destruct k; try exact I. destruct (closing_done s); exact I.
Qed.

Lemma buffer_frame_no_panic x f w : no_panic (fst (fst (buffer_frame x f w))).
Proof.
  unfold buffer_frame.
  destruct (match x_role x with Server => (f, w) | Client => _ end) as [f1 w1].
  pose proof (codec_buffer_frame_no_panic (x_codec x) f1 w1) as P.
  destruct (codec_buffer_frame (x_codec x) f1 w1) as [[r1 c'] w2]. cbn [fst] in P.
  pose proof (check_connection_reset_no_panic r1 (x_state x) P) as Q.
  destruct (check_connection_reset r1 (x_state x)) as [r' s']. exact Q.
Qed.

Lemma write__no_panic x data w : no_panic (fst (fst (write_ x data w))).
Proof.
  unfold write_.
  assert (P0 : no_panic (fst (fst (match data with Some f => buffer_frame x f w | None => (ROk tt, x, w) end)))).
  { destruct data as [f|]; [apply buffer_frame_no_panic | exact I]. }
  destruct (match data with Some f => buffer_frame x f w | None => (ROk tt, x, w) end) as [[r0 x0] w0].
  cbn [fst] in P0. destruct r0 as [u|e|s|]; try exact I; [|destruct P0].
  destruct (x_additional x0) as [msg|].
  - cbv zeta. pose proof (buffer_frame_no_panic (set_additional_raw x0 None) msg w0) as Pb.
    destruct (buffer_frame (set_additional_raw x0 None) msg w0) as [[rb xb] wb]. cbn [fst] in Pb.
    destruct rb as [u'|e|s|]; [ | | destruct Pb | exact I].
    + destruct (role_eqb _ Server && closing_done _ && _); [|exact I].
      pose proof (write_out_buffer_no_panic (x_codec (set_unflushed xb true)) wb) as Pw.
      destruct (write_out_buffer (x_codec (set_unflushed xb true)) wb) as [[rw c'] w2]. cbn [fst] in Pw.
      destruct rw; try exact I. destruct Pw.
    + destruct e; try exact I.
      destruct (role_eqb _ Server && closing_done _ && _); [|exact I].
      pose proof (write_out_buffer_no_panic (x_codec (set_additional xb f)) wb) as Pw.
      destruct (write_out_buffer (x_codec (set_additional xb f)) wb) as [[rw c'] w2]. cbn [fst] in Pw.
      destruct rw; try exact I. destruct Pw.
  - destruct (role_eqb (x_role x0) Server && closing_done (x_state x0) && _); [|exact I].
    pose proof (write_out_buffer_no_panic (x_codec x0) w0) as Pw.
    destruct (write_out_buffer (x_codec x0) w0) as [[rw c'] w2]. cbn [fst] in Pw.
    destruct rw; try exact I. destruct Pw.
Qed.

Lemma w_flush_no_panic w : no_panic (fst (w_flush w)).
Proof. unfold w_flush. destruct (w_fls w) as [|[|k] r]; exact I. Qed.

Lemma flush_no_panic x w : no_panic (fst (fst (flush x w))).
Proof.
  unfold flush. pose proof (write__no_panic x None w) as P0.
  destruct (write_ x None w) as [[r0 x0] w0]. cbn [fst] in P0.
  destruct r0 as [u|e|s|]; try exact I; [|destruct P0].
  pose proof (write_out_buffer_no_panic (x_codec x0) w0) as P1.
  destruct (write_out_buffer (x_codec x0) w0) as [[r1 c1] w1]. cbn [fst] in P1.
  destruct r1 as [u1|e|s|]; try exact I; [|destruct P1].
  pose proof (w_flush_no_panic w1) as P2.
  destruct (w_flush w1) as [r2 w2]. cbn [fst] in P2.
  destruct r2; try exact I. destruct P2.
Qed.

Lemma close_no_panic x code w : no_panic (fst (fst (close x code w))).
Proof. unfold close. destruct (x_state x); apply flush_no_panic. Qed.

Lemma write_no_panic x m w : no_panic (fst (fst (write x m w))).
Proof.
  unfold write.
  destruct (is_terminated (x_state x)); [exact I|].
  destruct (negb (is_active (x_state x))); [exact I|].
  assert (D : forall f, no_panic (fst (fst
    (let '(r, x1, w1) := write_ x (Some f) w in
     match r with
     | ROk true => flush x1 w1
     | ROk false => (ROk tt, x1, w1)
     | RErr e => (RErr e, x1, w1)
     | RPanic s => (RPanic s, x1, w1)
     | ROutOfFuel => (ROutOfFuel, x1, w1)
     end)))).
  { intros f. pose proof (write__no_panic x (Some f) w) as P.
    destruct (write_ x (Some f) w) as [[r1 x1] w1]. cbn [fst] in P.
    destruct r1 as [[|]|e|s|]; try exact I; [apply flush_no_panic | destruct P]. }
  destruct m as [d|d|d|d|code|f]; try apply D.
  - pose proof (write__no_panic (set_additional x (frame_pong d)) None w) as P.
    destruct (write_ (set_additional x (frame_pong d)) None w) as [[r1 x1] w1]. cbn [fst] in P.
    destruct r1; try exact I. destruct P.
  - apply close_no_panic.
Qed.

(* read side: read_frame's panics are other sites *)
Lemma try_take_no_utf8_panic max c s : try_take max c = TkPanic s -> s <> site_utf8_checked_sub.
Proof.
  unfold try_take. destruct (c_hdr c) as [[h len]|] eqn:Eh; cbv beta iota zeta.
  - rewrite Eh. destruct (max <? len); [discriminate|]. destruct (len <=? blen (c_in c)); discriminate.
  - destruct (header_parse (c_in c)) as [h len k| |i|]; cbv beta iota zeta.
    + cbn [c_hdr set_hdr]. destruct (max <? len); [discriminate|].
      destruct (len <=? blen _); discriminate.
    + rewrite Eh. discriminate.
    + discriminate.
    + intros H. injection H as <-. discriminate.
Qed.

Lemma read_frame_loop_no_utf8_panic max rds : forall c log,
  no_utf8_panic (fst (fst (fst (read_frame_loop max rds c log)))).
Proof.
  induction rds as [|rd rds IH]; intros c log; cbn [read_frame_loop].
  - destruct (try_take max c) as [h len p c'|n c'|e c'|s] eqn:T; cbn [fst]; try discriminate.
    intros H. injection H as H. exact (try_take_no_utf8_panic _ _ _ T H).
  - destruct (try_take max c) as [h len p c'|n c'|e c'|s] eqn:T; cbn [fst]; try discriminate.
    + destruct rd as [[|b bs]| |k]; cbn [fst]; try discriminate. apply IH.
    + intros H. injection H as H. exact (try_take_no_utf8_panic _ _ _ T H).
Qed.

Lemma read_frame_no_utf8_panic ms um au c w : no_utf8_panic (fst (fst (read_frame ms um au c w))).
Proof.
  unfold read_frame. pose proof (read_frame_loop_no_utf8_panic (limit_of ms) (w_rds w) c (w_log w)) as P.
  destruct (read_frame_loop (limit_of ms) (w_rds w) c (w_log w)) as [[[r c'] rds'] log']. cbn [fst] in P.
  destruct r as [[[[h len] payload]|]|e|s|]; cbn [fst]; try discriminate.
  - destruct (negb (blen payload =? len)); [discriminate|].
    destruct um; [|discriminate]. destruct (h_mask h); [discriminate|]. destruct au; discriminate.
  - intros H. apply P. injection H as ->. reflexivity.
Qed.

Lemma rmf_no_utf8_panic x w : ctx_wf x -> no_utf8_panic (fst (fst (read_message_frame x w))).
Proof.
  intros W. rewrite rmf_unfold.
  pose proof (read_frame_no_utf8_panic (cfg_max_frame_size (x_cfg x)) (role_eqb (x_role x) Server)
                (cfg_accept_unmasked (x_cfg x)) (x_codec x) w) as P.
  destruct (read_frame _ _ _ _ _) as [[r0 c1] w1]. cbn [fst] in P.
  assert (Q : no_utf8_panic (fst (check_connection_reset r0 (x_state x)))).
  { unfold check_connection_reset. destruct r0 as [a|e|p|]; try exact P.
    destruct e as [| |k| | | |]; try discriminate. destruct k; try discriminate.
    destruct (closing_done (x_state x)); discriminate. }
  destruct (check_connection_reset r0 (x_state x)) as [r0' s1]. cbn [fst] in Q.
  destruct r0' as [[f|]|e|s|]; cbv zeta; cbn [fst]; try discriminate.
  - pose proof (on_frame_no_utf8_panic (set_state (set_codec x c1) s1) f W) as R.
    destruct (on_frame (set_state (set_codec x c1) s1) f) as [r2 x2]. exact R.
  - destruct (x_state (set_state (set_codec x c1) s1)); discriminate.
  - intros H. apply Q. injection H as ->. reflexivity.
Qed.

(* the part of one iteration of read's loop that precedes read_message_frame *)
Definition read_pre (x : ctx) (w : world) : res unit * ctx * world :=
  if (match x_additional x with Some _ => true | None => false end) || x_unflushed x then
    let '(r, x', w') := flush x w in
    match r with
    | ROk _ => (ROk tt, x', w')
    | RErr (EIo WouldBlock) => (ROk tt, set_unflushed x' true, w')
    | _ => (r, x', w')
    end
  else if role_eqb (x_role x) Server && negb (can_read (x_state x)) then
    let '(rw, c', w') := write_out_buffer (x_codec x) w in
    match rw with
    | ROk _ => (RErr EConnectionClosed, set_state (set_codec x c') Terminated, w')
    | _ => (rw, set_codec x c', w')
    end
  else (ROk tt, x, w).

Lemma read_loop_S fuel x w :
  read_loop (S fuel) x w =
  let '(r0, x0, w0) := read_pre x w in
  match r0 with
  | ROk _ =>
      let '(r1, x1, w1) := read_message_frame x0 w0 in
      match r1 with
      | ROk (Some m) => (ROk m, x1, w1)
      | ROk None => read_loop fuel x1 w1
      | RErr e => (RErr e, x1, w1)
      | RPanic s => (RPanic s, x1, w1)
      | ROutOfFuel => (ROutOfFuel, x1, w1)
      end
  | RErr e => (RErr e, x0, w0)
  | RPanic s => (RPanic s, x0, w0)
  | ROutOfFuel => (ROutOfFuel, x0, w0)
  end.
Proof. reflexivity. Qed.

Lemma read_pre_inc x w : x_incomplete (snd (fst (read_pre x w))) = x_incomplete x.
Proof.
  unfold read_pre.
  destruct ((match x_additional x with Some _ => true | None => false end) || x_unflushed x).
  - destruct (flush x w) as [[rf xf] wf] eqn:Ef. apply flush_inc in Ef.
    destruct rf as [u|e|s|]; try exact Ef.
    destruct e as [| |k| | | |]; try exact Ef. destruct k; exact Ef.
  - destruct (role_eqb (x_role x) Server && negb (can_read (x_state x))); [|reflexivity].
    destruct (write_out_buffer (x_codec x) w) as [[rw c'] ww]. destruct rw; reflexivity.
Qed.

Lemma read_pre_no_panic x w : no_panic (fst (fst (read_pre x w))).
Proof.
  unfold read_pre.
  destruct ((match x_additional x with Some _ => true | None => false end) || x_unflushed x).
  - pose proof (flush_no_panic x w) as P.
    destruct (flush x w) as [[rf xf] wf]. cbn [fst] in P.
    destruct rf as [u|e|s|]; try exact I; [|destruct P].
    destruct e as [| |k| | | |]; try exact I. destruct k; exact I.
  - destruct (role_eqb (x_role x) Server && negb (can_read (x_state x))); [|exact I].
    pose proof (write_out_buffer_no_panic (x_codec x) w) as P.
    destruct (write_out_buffer (x_codec x) w) as [[rw c'] ww]. cbn [fst] in P.
    destruct rw; try exact I. destruct P.
Qed.

Lemma read_loop_no_utf8_panic fuel : forall x w, ctx_wf x -> no_utf8_panic (fst (fst (read_loop fuel x w))).
Proof.
  induction fuel as [|fuel IH]; intros x w W; [discriminate|].
  rewrite read_loop_S.
  pose proof (read_pre_inc x w) as Pi. pose proof (read_pre_no_panic x w) as Pn.
  destruct (read_pre x w) as [[r0 x0] w0]. cbn [fst snd] in Pi, Pn.
  assert (W0 : ctx_wf x0) by (unfold ctx_wf; rewrite Pi; exact W).
  destruct r0 as [u|e|s|]; try discriminate; [|destruct Pn].
  pose proof (rmf_no_utf8_panic x0 w0 W0) as R.
  destruct (read_message_frame x0 w0) as [[r1 x1] w1] eqn:E1. cbn [fst] in R.
  destruct (rmf_exposed _ _ _ _ _ W0 E1) as [W1 _].
  destruct r1 as [[m|]|e|s|]; try discriminate.
  - apply IH. exact W1.
  - intros H. apply R. injection H as ->. reflexivity.
Qed.

Lemma read_no_utf8_panic x w : ctx_wf x -> no_utf8_panic (fst (fst (read x w))).
Proof.
  intros W. unfold read. destruct (is_terminated (x_state x)); [discriminate|].
  apply read_loop_no_utf8_panic. exact W.
Qed.

Definition op_no_utf8_panic (o : op_result) : Prop :=
  match o with ResMsg r => no_utf8_panic r | ResUnit r => no_utf8_panic r | ResBool _ => True end.

Lemma run_op_no_utf8_panic x o w : ctx_wf x -> op_no_utf8_panic (fst (fst (run_op x o w))).
Proof.
  intros W. unfold run_op. destruct o as [|m| |c| | |wbs mx].
  - pose proof (read_no_utf8_panic x w W) as P. destruct (read x w) as [[r x1] w1]. exact P.
  - pose proof (write_no_panic x m w) as P. destruct (write x m w) as [[r x1] w1].
    apply no_panic_no_utf8. exact P.
  - pose proof (flush_no_panic x w) as P. destruct (flush x w) as [[r x1] w1].
    apply no_panic_no_utf8. exact P.
  - pose proof (close_no_panic x c w) as P. destruct (close x c w) as [[r x1] w1].
    apply no_panic_no_utf8. exact P.
  - exact I.
  - exact I.
  - destruct (config_valid _); cbn [fst op_no_utf8_panic]; discriminate.
Qed.

Theorem run_ops_no_utf8_panic ops : forall x w, ctx_wf x ->
  Forall (fun p => op_no_utf8_panic (fst p)) (fst (fst (run_ops x ops w))).
Proof.
  induction ops as [|o ops IH]; intros x w W; cbn [run_ops]; [constructor|].
  pose proof (run_op_no_utf8_panic x o w W) as P.
  destruct (run_op x o w) as [[res1 x1] w1] eqn:E1. cbn [fst] in P.
  destruct (run_op_exposed _ _ _ _ _ _ W E1) as [W1 _].
  specialize (IH x1 w1 W1).
  destruct (run_ops x1 ops w1) as [[rs2 x2] w2]. cbn [fst] in *.
  constructor; [exact P | exact IH].
Qed.

(* C08_exposed in the form used by props/C08.v: any history on a fresh connection *)
Theorem run_ops_exposed_new : forall (r : role) (part : bytes) (cfg : config) (x : ctx),
  ctx_new r part cfg = Some x ->
  forall (ops : list op) (w : world),
  Forall (fun p => match fst p with
                   | ResMsg (ROk (MText s)) => valid_utf8 s
                   | ResMsg (ROk (MClose (Some (_, reason)))) => valid_utf8 reason
                   | _ => True
                   end) (fst (fst (run_ops x ops w))).
Proof.
  intros r part cfg x Hx ops w.
  destruct (run_ops x ops w) as [[rs x'] w'] eqn:E.
  destruct (run_ops_exposed ops x w rs x' w' (ctx_new_wf _ _ _ _ Hx) E) as [_ F].
  cbn [fst]. revert F. apply Forall_impl. intros [o n] H. cbn [fst] in *.
  destruct o as [[m|e|s|]|u|b]; try exact I. destruct m as [t|t|t|t|[[c reason]|]|g]; try exact I; exact H.
Qed.
