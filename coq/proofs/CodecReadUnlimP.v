(* proofs/CodecReadUnlimP.v — C05b: the message-level form of C05 with the hypothesis
   "out_buffer is empty" replaced by "max_write_buffer_size is unlimited".

   CodecReadP.v proves  reads = reference machine  under  c_out = []  (used twice: the whole out_buffer
   fits into one accepting write, and a second pre-step right after a successful one is invisible).
   The refutation there needs a momentarily FULL bounded buffer.  Here the buffer can never be full:
   c_max_out = u64_max and  |out_buffer| + |largest frame that can be pending| <= u64_max, so the test
   [c_max_out <? frame_len f + blen out] of buffer_frame is false whenever it is evaluated.

   Contents
   1. the room invariant [out_room] and "never full"
   2. pre_pure under the room invariant (keeps, idempotence)
   3. on_frame keeps the room invariant (automatic replies carry at most 125 payload bytes)
   4. read's loop and reads against the reference machine (adapted from CodecReadP.v 8.10)
   5. corollaries: reference, schedule independence, WouldBlock is a no-op
   6. a boolean check of [supply] for examples on concrete worlds                                  *)
From TungModel Require Import Base Coding Mask Header Frame World Message Codec Protocol.
From TungModel.proofs Require Import CodecReadP.
From Coq Require Import Lia ZifyBool ZifyNat ZifyN.

Arguments N.add : simpl never.
Arguments N.sub : simpl never.
Arguments N.mul : simpl never.
Arguments N.leb : simpl never.
Arguments N.ltb : simpl never.
Arguments N.eqb : simpl never.
Arguments N.max : simpl never.
Arguments N.of_nat : simpl never.
Arguments N.to_nat : simpl never.

(* ------------------------------------------------------------------------------------------- *)
(** * 1. Room in an unlimited out_buffer *)

(* payload length of the parked automatic reply (additional_send), 0 if there is none *)
Definition pend_len (x : ctx) : N :=
  match x_additional x with Some f => blen (f_payload f) | None => 0 end.

(* out_buffer, plus the largest frame that can be pending (the parked one, or a reply to a control frame
   still to come: at most 125 payload bytes), plus the longest header (2 + 8 + 4), stays below 2^64 *)
Definition out_room (x : ctx) : Prop :=
  blen (c_out (x_codec x)) + N.max 125 (pend_len x) + 14 <= u64_max.

Lemma header_len_le h n : header_len h n <= 14.
Proof.
  unfold header_len. destruct (lf_for_length n); destruct (h_mask h); cbn [lf_extra]; lia.
Qed.

Lemma frame_len_mask_for_le r k f : frame_len (mask_for r k f) <= blen (f_payload f) + 14.
Proof.
  unfold frame_len.
  assert (Hp : f_payload (mask_for r k f) = f_payload f) by (destruct r; reflexivity).
  rewrite Hp. pose proof (header_len_le (f_hdr (mask_for r k f)) (blen (f_payload f))). lia.
Qed.

(* a sufficient condition that is easier to read: a mebibyte of slack *)
Lemma out_room_slack x :
  blen (c_out (x_codec x)) + pend_len x + 1048576 < two64 -> out_room x.
Proof. unfold out_room, two64, u64_max. lia. Qed.

Lemma out_room_out_le x : out_room x -> blen (c_out (x_codec x)) <= u64_max.
Proof. unfold out_room. lia. Qed.

(* buffer_frame's fullness test is false for the parked frame *)
Lemma never_full x k msg :
  c_max_out (x_codec x) = u64_max -> out_room x -> x_additional x = Some msg ->
  (c_max_out (x_codec x) <? frame_len (mask_for (x_role x) k msg) + blen (c_out (x_codec x))) = false.
Proof.
  intros HB Hr Ha. unfold out_room, pend_len in Hr. rewrite Ha in Hr. rewrite HB.
  pose proof (frame_len_mask_for_le (x_role x) k msg). lia.
Qed.

(* ------------------------------------------------------------------------------------------- *)
(** * 2. pre_pure under the room invariant *)

Lemma out_room_drained_none x :
  out_room (set_unflushed (drained (set_additional_raw x None)) false).
Proof. unfold out_room, pend_len, u64_max, blen. cbn. lia. Qed.

(* a successful pre-step keeps the invariant: it either does nothing or drains out_buffer and clears
   additional_send (the re-parking arm of flush_pure is dead: never full) *)
Lemma pre_pure_ok_room x k x' :
  c_max_out (x_codec x) = u64_max -> out_room x ->
  pre_pure x k = (ROk tt, x') -> out_room x'.
Proof.
  intros HB Hr. pose proof (never_full x k) as Hnf.
  unfold pre_pure, flush_pure. cbv zeta.
  destruct (_ || _).
  - destruct (x_additional x) as [msg|] eqn:Ea.
    + rewrite (Hnf msg HB Hr eq_refl).
      destruct (_ && _); [discriminate|]. intros E. injection E as <-.
      unfold out_room, pend_len, u64_max, blen. cbn. lia.
    + destruct (_ && _); [discriminate|]. intros E. injection E as <-.
      unfold out_room, pend_len, u64_max, blen. cbn. rewrite Ea. lia.
  - destruct (_ && _); [discriminate|]. intros E. injection E as <-. exact Hr.
Qed.

(* a second pre-step right after a successful one changes nothing that reading can observe *)
Lemma pre_pure_idem_unlim x k k' x' :
  c_max_out (x_codec x) = u64_max -> out_room x -> x_state x <> Terminated ->
  pre_pure x k = (ROk tt, x') ->
  fst (pre_pure x' k') = ROk tt /\ canon (snd (pre_pure x' k')) = canon x'.
Proof.
  intros HB Hr Hst. pose proof (never_full x k) as Hnf. revert HB Hr Hst Hnf.
  destruct x as [role c st inc add unfl cfg]. destruct c as [cin out maxo wl hdr].
  cbn [x_codec c_out c_max_out x_state x_role x_additional]. intros -> Hr Hst Hnf.
  unfold pre_pure at 1. unfold flush_pure. cbv zeta.
  cbn [x_role x_codec x_state x_incomplete x_additional x_unflushed x_cfg c_in c_out c_max_out c_write_len c_hdr].
  assert (Hterm : role_eqb role Server && closing_done st = false ->
                  role_eqb role Server && negb (can_read st) = false).
  { intros H. destruct role; [|reflexivity]. destruct st; cbn in *; try discriminate; try reflexivity.
    exfalso. apply Hst. reflexivity. }
  destruct add as [msg|]; cbn [orb].
  - rewrite (Hnf msg eq_refl Hr eq_refl).
    destruct (role_eqb role Server && closing_done st) eqn:Ecl; [discriminate|].
    intros E. injection E as <-.
    unfold pre_pure, drained.
    cbn [set_unflushed set_codec set_additional_raw set_out x_role x_codec x_state x_incomplete x_additional x_unflushed x_cfg c_in c_out c_max_out c_write_len c_hdr orb].
    rewrite (Hterm eq_refl). split; reflexivity.
  - destruct unfl; cbn [orb].
    + destruct (role_eqb role Server && closing_done st) eqn:Ecl; [discriminate|].
      intros E. injection E as <-.
      unfold pre_pure, drained.
      cbn [set_unflushed set_codec set_additional_raw set_out x_role x_codec x_state x_incomplete x_additional x_unflushed x_cfg c_in c_out c_max_out c_write_len c_hdr orb].
      rewrite (Hterm eq_refl). split; reflexivity.
    + destruct (role_eqb role Server && negb (can_read st)) eqn:Ecl; [discriminate|].
      intros E. injection E as <-.
      unfold pre_pure.
      cbn [x_role x_codec x_state x_incomplete x_additional x_unflushed x_cfg orb].
      rewrite Ecl. split; reflexivity.
Qed.

(* ------------------------------------------------------------------------------------------- *)
(** * 3. on_frame keeps the room invariant *)

Lemma pend_len_set_additional x f :
  blen (f_payload f) <= 125 ->
  N.max 125 (pend_len (set_additional x f)) <= N.max 125 (pend_len x).
Proof.
  intros Hf. unfold set_additional, pend_len.
  destruct (x_additional x) as [g|] eqn:Ea; [destruct (opcode_eqb _ _)|];
    cbn [x_additional set_additional_raw]; rewrite ?Ea; lia.
Qed.

Lemma frame_into_close_len p cl :
  frame_into_close p = ROk cl -> blen (f_payload (frame_close cl)) <= blen p.
Proof.
  unfold frame_into_close. destruct p as [|a [|b r]]; try discriminate.
  - intros E. injection E as <-. cbn [frame_close f_payload]. lia.
  - destruct (is_utf8 r); [|discriminate]. intros E. injection E as <-.
    cbn [frame_close f_payload]. unfold blen. rewrite app_length, length_to_be. cbn [length]. lia.
Qed.

Lemma frame_close_violation_len :
  blen (f_payload (frame_close (Some (CProtocol,
    [80; 114; 111; 116; 111; 99; 111; 108; 32; 118; 105; 111; 108; 97; 116; 105; 111; 110])))) <= 125.
Proof. vm_compute. discriminate. Qed.

Lemma do_close_pend x cl :
  blen (f_payload (frame_close cl)) <= 125 ->
  N.max 125 (pend_len (snd (do_close x cl))) <= N.max 125 (pend_len x).
Proof.
  intros Hc. unfold do_close. destruct (x_state x); cbn [snd]; try (unfold pend_len; cbn; lia).
  apply (pend_len_set_additional (set_state x ClosedByPeer)).
  destruct cl as [[code reason]|]; [|exact Hc].
  destruct (close_allowed code); [exact Hc|exact frame_close_violation_len].
Qed.

(* on_frame parks at most a Pong or a Close reply, whose payload comes from a control frame that passed
   the 125-byte check; everything else leaves additional_send alone *)
Lemma on_frame_pend x r : N.max 125 (pend_len (snd (on_frame x r))) <= N.max 125 (pend_len x).
Proof.
  unfold on_frame. cbv zeta.
  repeat (match goal with
          | |- N.max 125 (pend_len (snd ?t)) <= _ =>
              let s := head_scrut t in
              match t with
              | (if _ then _ else _) => destruct s eqn:?
              | (match _ with _ => _ end) => destruct s eqn:?
              end
          end; cbn [snd]).
  all: try (apply N.le_refl).
  all: try (match goal with
            | Hd : do_close ?a ?b = (_, ?y), Hc : frame_into_close ?p = ROk ?b |- _ =>
                let P := fresh "P" in
                pose proof (do_close_pend a b) as P; rewrite Hd in P; cbn [snd] in P; apply P;
                pose proof (frame_into_close_len p b Hc); lia
            end).
  destruct (is_active (x_state x)); [|lia].
  apply pend_len_set_additional. cbn [frame_pong f_payload]. lia.
Qed.

Lemma on_frame_room x r : out_room x -> out_room (snd (on_frame x r)).
Proof.
  intros Hr. pose proof (on_frame_keeps x r) as Hk. pose proof (on_frame_pend x r) as Hp.
  destruct (on_frame x r) as [rm x2]. destruct Hk as [K1 _]. cbn [snd] in *.
  unfold out_room in *. rewrite K1. lia.
Qed.

Lemma rmf_pend x0 w0 r1 x1 w1 :
  read_message_frame x0 w0 = (r1, x1, w1) ->
  N.max 125 (pend_len x1) <= N.max 125 (pend_len x0).
Proof.
  rewrite read_message_frame_eq.
  destruct (read_frame _ _ _ _ _) as [[r0 c1] wa].
  destruct (check_connection_reset r0 (x_state x0)) as [r0' s1].
  pose proof (on_frame_pend (set_state (set_codec x0 c1) s1) r0') as Hp.
  destruct (on_frame _ r0') as [rm x2]. cbn [snd] in Hp.
  intros E. injection E as _ <- _. exact Hp.
Qed.

(* ------------------------------------------------------------------------------------------- *)
(** * 4. read's loop and reads against the reference machine, unlimited out_buffer
   (CodecReadP.v 8.10 with [c_out = []] replaced by [out_room]) *)

Definition rinv_u (x : ctx) : Prop :=
  c_max_out (x_codec x) = u64_max /\ out_room x /\ x_state x <> Terminated /\ codec_rest (x_codec x).

Lemma read_loop_view_u : forall lf x w r x' w',
  rinv_u x -> supply u64_max x w -> (xbytes x w < lf)%nat ->
  read_loop lf x w = (r, x', w') ->
  let V := fview x w in
  (exists m, r = ROk m /\ mloop V x = ROk m :: mloop (fview x' w') x' /\
             rinv_u x' /\ supply u64_max x' w' /\ (xmu x' w' < xmu x w)%nat)
  \/ (r = RErr (EIo WouldBlock) /\ mloop V x = mloop (fview x' w') x' /\ rinv_u x' /\
      (w_rds w' = [] -> mloop (fview x' w') x' = []) /\
      (w_rds w' <> [] -> supply u64_max x' w' /\ (xmu x' w' < xmu x w)%nat))
  \/ ((forall m, r <> ROk m) /\ r <> RErr (EIo WouldBlock) /\ mloop V x = [r]).
Proof.
  set (B := u64_max).
  induction lf as [|lf IH]; intros x w r x' w' Hinv Hsup Hlf E V; [lia|].
  rewrite read_loop_S in E.
  destruct Hinv as [I1 [I2 [I3 I4]]].
  assert (Hout : blen (c_out (x_codec x)) <= B) by (apply out_room_out_le; exact I2).
  destruct (pre_step_acc B x w I1 Hout (wgood_weaken _ _ _ 2 1 _ Hsup ltac:(lia) ltac:(lia)))
    as [w0 [Ep Ha]].
  rewrite Ep in E.
  destruct (pre_pure_canon2 x x (next_key w) zero_key eq_refl) as [P1 P2].
  pose proof (pre_pure_idem_unlim x (next_key w) zero_key) as Hidem.
  pose proof (pre_pure_ok_keeps x (next_key w)) as Hkeep.
  pose proof (pre_pure_ok_room x (next_key w)) as Hroom.
  assert (HM : mloop V x = mpre (mrest V) x) by apply mloop_eq. unfold mpre in HM.
  destruct (pre_pure x (next_key w)) as [r0 x0] eqn:Ek.
  destruct (pre_pure x zero_key) as [r0z y0] eqn:Ez. cbn [fst snd] in *. subst r0z.
  destruct (pre_pure_res x (next_key w)) as [R|R]; rewrite Ek in R; cbn [fst] in R; subst r0.
  2:{ injection E as <- <- <-. right. right. split; [discriminate|]. split; [discriminate|exact HM]. }
  destruct (Hkeep x0 eq_refl) as [Q1 [Q2 [Q3 [Q4 [Q5 [Q6 [Q7 [Q8 _]]]]]]]].
  specialize (Hidem x0 I1 I2 I3 eq_refl). destruct Hidem as [D1 D2].
  specialize (Hroom x0 I1 I2 eq_refl).
  destruct Ha as [A1 A23].
  assert (Hrest0 : codec_rest (x_codec x0)) by (unfold codec_rest; rewrite Q5, Q6; exact I4).
  assert (Hst0 : x_state x0 <> Terminated) by (rewrite Q3; exact I3).
  assert (HV0 : fview x0 w0 = V) by (unfold V, fview; rewrite Q1, Q2, Q5, Q6, A1; reflexivity).
  assert (Hmu0 : xmu x0 w0 = xmu x w) by (unfold xmu, mu, buffered, hdr_bit; rewrite Q5, Q6, A1; reflexivity).
  assert (Hby0 : xbytes x0 w0 = xbytes x w) by (unfold xbytes, bytes_left; rewrite Q5, A1; reflexivity).
  assert (HM0 : mloop V x = mrest V x0).
  { rewrite HM. apply mrest_canon. symmetry. exact P2. }
  destruct (read_message_frame x0 w0) as [[r1 x1] w1] eqn:Em.
  pose proof (rmf_pend x0 w0 r1 x1 w1 Em) as Hpend.
  destruct (rmf_view x0 w0 r1 x1 w1 Hrest0 Hst0 Em) as [W1 [W2 [[W3 [W4 W5]] H]]].
  rewrite HV0 in H.
  assert (Hsup1 : (xmu x1 w1 < xmu x w)%nat -> supply B x1 w1).
  { intros Hlt. unfold supply. apply (wgood_same B _ _ w0 w1 W1 W2).
    apply (wgood_adv B 2 1 _ _ w w0); [|split; assumption].
    apply (wgood_weaken _ _ _ _ _ _ Hsup); lia. }
  assert (Hmax1 : c_max_out (x_codec x1) = B) by (rewrite W4, Q7; exact I1).
  assert (Hroom1 : out_room x1) by (unfold out_room in *; rewrite W3; lia).
  destruct H as [[om [-> [H1 [H2 [H3 [H4 H5]]]]]] | [[-> [H1 [H2 [H3 [H4 [H5 H6]]]]]] | [H1 [H2 H3]]]].
  - (* a frame was processed *)
    rewrite Hmu0 in H4. rewrite Hby0 in H5.
    assert (Hinv1 : rinv_u x1) by (unfold rinv_u; auto).
    destruct om as [m|].
    + injection E as <- <- <-. left. exists m. split; [reflexivity|].
      split; [rewrite HM0; exact H1|]. split; [exact Hinv1|]. split; [exact (Hsup1 H4)|exact H4].
    + cbn [app] in H1.
      destruct (IH _ _ _ _ _ Hinv1 (Hsup1 H4) ltac:(lia) E)
        as [[m [-> [G1 [G2 [G3 G4]]]]] | [[-> [G1 [G2 [G3 G4]]]] | [G1 [G2 G3]]]].
      * left. exists m. split; [reflexivity|]. split; [rewrite HM0, H1; exact G1|].
        split; [exact G2|]. split; [exact G3|lia].
      * right. left. split; [reflexivity|]. split; [rewrite HM0, H1; exact G1|].
        split; [exact G2|]. split; [exact G3|]. intros Hne. destruct (G4 Hne) as [G5 G6]. split; [exact G5|lia].
      * right. right. split; [exact G1|]. split; [exact G2|]. rewrite HM0, H1. exact G3.
  - (* WouldBlock *)
    injection E as <- <- <-. right. left. split; [reflexivity|].
    assert (Hinv1 : rinv_u x1) by (unfold rinv_u; rewrite H4; auto).
    assert (HM1 : mloop V x1 = mrest V x0).
    { rewrite mloop_eq. unfold mpre.
      destruct (pre_pure_canon2 x1 x0 zero_key zero_key H2) as [C1 C2].
      destruct (pre_pure x1 zero_key) as [rz yz]. cbn [fst snd] in C1, C2. rewrite D1 in C1. subst rz.
      apply mrest_canon. rewrite C2. exact D2. }
    rewrite H1. split; [rewrite HM0, HM1; reflexivity|]. split; [exact Hinv1|]. split.
    + intros Hnil. rewrite HM1, (H5 Hnil). reflexivity.
    + intros Hne. specialize (H6 Hne). rewrite Hmu0 in H6. split; [exact (Hsup1 H6)|exact H6].
  - (* the run ends *)
    destruct r1 as [om|e|s|]; [discriminate H1| | |]; injection E as <- <- <-; right; right.
    + split; [discriminate|]. split; [|rewrite HM0; exact H3].
      intros X. apply H2. injection X as ->. reflexivity.
    + split; [discriminate|]. split; [discriminate|]. rewrite HM0. exact H3.
    + split; [discriminate|]. split; [discriminate|]. rewrite HM0. exact H3.
Qed.

(* MAIN THEOREM (messages, unlimited write buffer).  Accepting write side, max_write_buffer_size =
   u64::MAX, room in out_buffer: whatever out_buffer, additional_send and the unflushed flag contain,
   under every schedule the successive results of read are those of the reference machine run over the
   whole-stream frame-level reference. *)
Theorem reads_ref_unlim : forall fuel x w,
  c_max_out (x_codec x) = u64_max -> out_room x -> codec_rest (x_codec x) ->
  supply u64_max x w -> (xmu x w < fuel)%nat ->
  reads fuel x w =
  if is_terminated (x_state x) then [RErr EAlreadyClosed] else mloop (fview x w) x.
Proof.
  induction fuel as [|f IH]; intros x w HB Hroom Hrest Hsup Hf; [lia|].
  cbn [reads]. unfold read.
  destruct (is_terminated (x_state x)) eqn:Et; [reflexivity|].
  assert (Hst : x_state x <> Terminated) by (intros X; rewrite X in Et; discriminate Et).
  destruct (read_loop _ x w) as [[r x'] w'] eqn:E.
  assert (Hinv : rinv_u x) by (unfold rinv_u; auto).
  assert (Hlf : (xbytes x w < S (length (c_in (x_codec x)) + rd_bytes (w_rds w)))%nat)
    by (unfold xbytes, bytes_left; lia).
  destruct (read_loop_view_u _ _ _ _ _ _ Hinv Hsup Hlf E)
    as [[m [-> [G1 [G2 [G3 G4]]]]] | [[-> [G1 [G2 [G3 G4]]]] | [G1 [G2 G3]]]].
  - destruct G2 as [J1 [J2 [J3 J4]]]. rewrite G1. f_equal.
    rewrite (IH x' w' J1 J2 J4 G3 ltac:(lia)).
    destruct (x_state x'); try reflexivity. exfalso. exact (J3 eq_refl).
  - destruct G2 as [J1 [J2 [J3 J4]]]. rewrite G1. destruct (w_rds w') as [|o rds'] eqn:Er.
    + symmetry. exact (G3 eq_refl).
    + destruct (G4 ltac:(discriminate)) as [G5 G6].
      rewrite (IH x' w' J1 J2 J4 G5 ltac:(lia)).
      destruct (x_state x'); try reflexivity. exfalso. exact (J3 eq_refl).
  - rewrite G3. destruct r as [m|e|s|]; try reflexivity.
    + exfalso. exact (G1 m eq_refl).
    + destruct e as [| |[]| | | |]; try reflexivity. exfalso. exact (G2 eq_refl).
Qed.

(* ------------------------------------------------------------------------------------------- *)
(** * 5. Corollaries *)

(* the hypotheses on the context: max_write_buffer_size is unlimited (usize::MAX on a 64-bit target),
   there is room in out_buffer for the pending / upcoming automatic frame, and a held frame header is
   still waiting for payload bytes (true of every reachable codec state).  Nothing about the content
   of out_buffer, additional_send, the unflushed flag, the state, the role or the configuration. *)
Definition ctx_unlim (x : ctx) : Prop :=
  c_max_out (x_codec x) = u64_max /\ out_room x /\ codec_rest (x_codec x).

Theorem reads_sched_indep_unlim x w1 w2 f1 f2 :
  ctx_unlim x -> supply u64_max x w1 -> supply u64_max x w2 ->
  sched_data (w_rds w1) = sched_data (w_rds w2) ->
  sched_end (w_rds w1) = sched_end (w_rds w2) ->
  (xmu x w1 < f1)%nat -> (xmu x w2 < f2)%nat ->
  reads f1 x w1 = reads f2 x w2.
Proof.
  intros [R1 [R2 R3]] S1 S2 Hd He F1 F2.
  rewrite (reads_ref_unlim f1 x w1 R1 R2 R3 S1 F1), (reads_ref_unlim f2 x w2 R1 R2 R3 S2 F2).
  unfold fview. rewrite Hd, He. reflexivity.
Qed.

Theorem reads_wouldblock_noop_unlim x w x' w' :
  ctx_unlim x -> supply u64_max x w ->
  read x w = (RErr (EIo WouldBlock), x', w') ->
  ctx_unlim x' /\ x_state x' <> Terminated /\
  forall f f', supply u64_max x' w' -> (xmu x' w' < f')%nat -> (xmu x w < f)%nat ->
               reads f' x' w' = reads f x w.
Proof.
  intros [R1 [R2 R3]] S1 E. unfold read in E.
  destruct (is_terminated (x_state x)) eqn:Et; [discriminate E|].
  assert (Hst : x_state x <> Terminated) by (intros X; rewrite X in Et; discriminate Et).
  assert (Hinv : rinv_u x) by (unfold rinv_u; auto).
  assert (Hlf : (xbytes x w < S (length (c_in (x_codec x)) + rd_bytes (w_rds w)))%nat)
    by (unfold xbytes, bytes_left; lia).
  destruct (read_loop_view_u _ _ _ _ _ _ Hinv S1 Hlf E)
    as [[m [X _]] | [[_ [G1 [G2 _]]] | [_ [X _]]]]; [discriminate X| |exfalso; exact (X eq_refl)].
  destruct G2 as [J1 [J2 [J3 J4]]].
  split; [unfold ctx_unlim; auto|]. split; [exact J3|].
  intros f f' S' F' F.
  rewrite (reads_ref_unlim f' x' w' J1 J2 J4 S' F'), (reads_ref_unlim f x w R1 R2 R3 S1 F), Et.
  destruct (x_state x'); try (symmetry; exact G1). exfalso. exact (J3 eq_refl).
Qed.

(* the room condition, readable form: a mebibyte of slack below 2^64 *)
Lemma ctx_unlim_slack x :
  c_max_out (x_codec x) = u64_max -> codec_rest (x_codec x) ->
  blen (c_out (x_codec x)) + pend_len x + 1048576 < two64 -> ctx_unlim x.
Proof. intros H1 H2 H3. split; [exact H1|]. split; [apply out_room_slack; exact H3|exact H2]. Qed.

(* ------------------------------------------------------------------------------------------- *)
(** * 6. A boolean check of [supply] (for examples on concrete worlds) *)

Definition acc_wrb (B : N) (o : wr_out) : bool :=
  match o with WrAccept n => B <=? n | WrErr _ => false end.
Definition fl_okb (o : fl_out) : bool := match o with FlOk => true | _ => false end.

Definition supplyb (B : N) (x : ctx) (w : world) : bool :=
  forallb (acc_wrb B) (w_wrs w) && forallb fl_okb (w_fls w) &&
  Nat.leb (2 * S (xmu x w))%nat (length (w_wrs w)) && Nat.leb (S (xmu x w)) (length (w_fls w)).

Lemma supplyb_sound B x w : supplyb B x w = true -> supply B x w.
Proof.
  unfold supplyb, supply, wgood. intros H.
  apply Bool.andb_true_iff in H. destruct H as [H H4].
  apply Bool.andb_true_iff in H. destruct H as [H H3].
  apply Bool.andb_true_iff in H. destruct H as [H1 H2].
  rewrite forallb_forall in H1, H2.
  split. { apply Forall_forall. intros o Ho. specialize (H1 o Ho). destruct o as [n|k]; cbn in *; [lia|discriminate]. }
  split. { apply Forall_forall. intros o Ho. specialize (H2 o Ho). destruct o; cbn in *; try discriminate. reflexivity. }
  split; [apply PeanoNat.Nat.leb_le; exact H3|apply PeanoNat.Nat.leb_le; exact H4].
Qed.
