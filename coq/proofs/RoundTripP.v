(* proofs/RoundTripP.v — C01: messages written by one endpoint are read by the peer intact and in order.

   Contents
   1. encode / encode_all: the bytes a role puts on the wire for a list of messages
   2. write-side calls in the Active state: what they change and what they leave alone (any oracle)
   3. the writer: any interleaving of writes and flushes — wire ++ out_buffer = encode_all
      (writer_ops), the shape [write m1; ...; write mn; flush] (writer_run)
   4. the whole-stream reference decoder (CodecReadP) on encode_all and on its prefixes
   5. one read call against the decoder's view (read_step)
   6. successive reads (reads_run), the reader theorems (reader_run, reader_prefix)
   7. the round trip (roundtrip, roundtrip_prefix)
   8. an accepting transport: every call returns Ok (writer_accepting, roundtrip_accepting)
   9. boolean checkers for the hypotheses, boundary lengths as instances

   Route: WritePathP (C10 invariant  wire ++ out = concat (map frame_format queued)) for the writer;
   CodecReadP.drive_ref (successive read_frame results = whole-stream reference decoder, for every
   schedule) + HeaderP.header_parse_format_nr + MaskP.xor_cyc_involutive for the reader.          *)
From TungModel Require Import Base Coding Mask Header Frame Utf8 World Message Codec Protocol.
From TungModel.proofs Require Import HeaderP MaskP CodecReadP WritePathP.
From Coq Require Import Arith Lia ZifyBool ZifyNat ZifyN.

Arguments N.add : simpl never.
Arguments N.mul : simpl never.
Arguments N.sub : simpl never.
Arguments N.div : simpl never.
Arguments N.modulo : simpl never.
Arguments N.ltb : simpl never.
Arguments N.leb : simpl never.
Arguments N.eqb : simpl never.
Arguments N.min : simpl never.
Arguments N.of_nat : simpl never.
Arguments N.to_nat : simpl never.

Ltac inv H := inversion H; subst; clear H.
Ltac splits := repeat match goal with |- _ /\ _ => split end.

(* ------------------------------------------------------------------------------------------ *)
(** * 1. The encoding of messages *)

(* the frame WebSocketContext::write builds for a message *)
Definition frame_of (m : message) : frame :=
  match m with
  | MText d => frame_message d (OData Text) true
  | MBinary d => frame_message d (OData Binary) true
  | MPing d => frame_ping d
  | MPong d => frame_pong d
  | MClose c => frame_close c
  | MFrame f => f
  end.

(* text, binary, ping, pong *)
Definition plain (m : message) : bool :=
  match m with MText _ | MBinary _ | MPing _ | MPong _ => true | _ => false end.

Definition payload_of (m : message) : bytes := f_payload (frame_of m).

(* what goes on the wire: clients mask with the key, servers send the frame as it is *)
Definition wire_frame (r : role) (k : key) (f : frame) : frame :=
  match r with Server => f | Client => mask_with k f end.

Definition encode (r : role) (k : key) (m : message) : bytes :=
  frame_format (wire_frame r k (frame_of m)).

Definition zero_key : key := (0, 0, 0, 0).

(* the i-th message is masked with the i-th key of the oracle; an exhausted oracle yields the zero
   key (World.w_next_key) *)
Fixpoint frames_all (r : role) (ks : list key) (ms : list message) : list frame :=
  match ms with
  | [] => []
  | m :: ms' => wire_frame r (hd zero_key ks) (frame_of m) :: frames_all r (tl ks) ms'
  end.

Fixpoint encode_all (r : role) (ks : list key) (ms : list message) : bytes :=
  match ms with
  | [] => []
  | m :: ms' => encode r (hd zero_key ks) m ++ encode_all r (tl ks) ms'
  end.

Lemma encode_all_enc r ms : forall ks, encode_all r ks ms = enc (frames_all r ks ms).
Proof.
  induction ms as [|m ms IH]; intros ks; [reflexivity|].
  cbn [encode_all frames_all]. unfold enc in *. cbn [map concat]. rewrite IH. reflexivity.
Qed.

Lemma encode_all_app r a : forall ks b,
  encode_all r ks (a ++ b) = encode_all r ks a ++ encode_all r (skipn (length a) ks) b.
Proof.
  induction a as [|m a IH]; intros ks b; [reflexivity|].
  cbn [app encode_all length]. rewrite IH, <- app_assoc. f_equal. f_equal.
  destruct ks; [rewrite skipn_nil; destruct (length a); reflexivity|reflexivity].
Qed.

(* a server's encoding does not depend on the keys *)
Lemma frames_all_server ms : forall ks ks', frames_all Server ks ms = frames_all Server ks' ms.
Proof.
  induction ms as [|m ms IH]; intros ks ks'; [reflexivity|].
  cbn [frames_all wire_frame]. f_equal. apply IH.
Qed.

Lemma encode_all_server ms ks ks' : encode_all Server ks ms = encode_all Server ks' ms.
Proof. rewrite !encode_all_enc, (frames_all_server ms ks ks'). reflexivity. Qed.

(* with the model's names *)
Lemma sent_frame_wire r w f : sent_frame r w f = wire_frame r (hd zero_key (w_keys w)) f.
Proof.
  destruct r; [reflexivity|]. unfold sent_frame, wire_frame, w_next_key.
  destruct (w_keys w); reflexivity.
Qed.

Lemma after_key_keys r w :
  w_keys (after_key r w) = match r with Server => w_keys w | Client => tl (w_keys w) end.
Proof.
  destruct r; [reflexivity|]. unfold after_key, w_next_key.
  destruct (w_keys w) eqn:E; cbn [snd w_keys tl]; rewrite ?E; reflexivity.
Qed.

Lemma frames_all_after_key r w ms :
  frames_all r (w_keys (after_key r w)) ms = frames_all r (tl (w_keys w)) ms.
Proof. rewrite after_key_keys. destruct r; [apply frames_all_server|reflexivity]. Qed.

(* ------------------------------------------------------------------------------------------ *)
(** * 2. Write-side calls: what they leave alone, for every oracle *)

(* nothing but out_buffer, the additional slot and the unflushed flag changed *)
Definition upd (x : ctx) (o : bytes) (a : option frame) (u : bool) : ctx :=
  mkCtx (x_role x) (set_out (x_codec x) o) (x_state x) (x_incomplete x) a u (x_cfg x).

Lemma upd_id x : x = upd x (c_out (x_codec x)) (x_additional x) (x_unflushed x).
Proof. destruct x as [ro [ci co cm cw ch] st inc ad un cf]. reflexivity. Qed.

(* the read oracle is untouched; the write and flush oracles are consumed from the front *)
Definition wframe (w w' : world) : Prop :=
  w_rds w' = w_rds w /\ (exists p, w_wrs w = p ++ w_wrs w') /\ (exists p, w_fls w = p ++ w_fls w').

Lemma wframe_refl w : wframe w w.
Proof. unfold wframe. splits; auto; exists []; reflexivity. Qed.

Lemma wframe_trans w0 w1 w2 : wframe w0 w1 -> wframe w1 w2 -> wframe w0 w2.
Proof.
  intros [R1 [[p1 W1] [q1 F1]]] [R2 [[p2 W2] [q2 F2]]]. unfold wframe. splits.
  - congruence.
  - exists (p1 ++ p2). rewrite W1, W2, app_assoc. reflexivity.
  - exists (q1 ++ q2). rewrite F1, F2, app_assoc. reflexivity.
Qed.

(* a transport whose write side never fails hard: every write accepts at least one byte or answers
   WouldBlock, every flush succeeds or answers WouldBlock (an exhausted oracle answers WouldBlock) *)
Definition soft_wr (o : wr_out) : Prop :=
  match o with WrAccept n => 0 < n | WrErr k => k = WouldBlock end.
Definition soft_fl (o : fl_out) : Prop :=
  match o with FlOk => True | FlErr k => k = WouldBlock end.
Definition soft (w : world) : Prop := Forall soft_wr (w_wrs w) /\ Forall soft_fl (w_fls w).

Lemma Forall_suffix {A} (P : A -> Prop) (p l : list A) : Forall P (p ++ l) -> Forall P l.
Proof. intros H. apply Forall_app in H. tauto. Qed.

Lemma wframe_soft w w' : wframe w w' -> soft w -> soft w'.
Proof.
  intros [_ [[p W] [q F]]] [S1 S2]. rewrite W in S1. rewrite F in S2.
  split; eapply Forall_suffix; eassumption.
Qed.

(* io results *)
Definition io_res (r : res unit) : Prop := r = ROk tt \/ exists k, r = RErr (EIo k).
Definition soft_res (r : res unit) : Prop := r = ROk tt \/ r = RErr (EIo WouldBlock).

Lemma write_out_loop_gen (wrs : list wr_out) : forall out log r out' wrs' log',
  write_out_loop wrs out log = (r, out', wrs', log') ->
  (exists p, wrs = p ++ wrs') /\ io_res r /\ (Forall soft_wr wrs -> soft_res r).
Proof.
  unfold io_res, soft_res.
  induction wrs as [|o wrs IH]; intros out log r out' wrs' log' H.
  - destruct out as [|b out]; cbn in H; inv H; (split; [exists []; reflexivity|]); split; eauto.
  - destruct out as [|b out]; cbn [write_out_loop] in H.
    + inv H. split; [exists []; reflexivity|]. split; eauto.
    + destruct o as [n|k].
      * destruct (N.min n (blen (b :: out)) =? 0) eqn:E0.
        -- inv H. split; [exists [WrAccept n]; reflexivity|]. split; [eauto|].
           intros S. inv S. cbn in H1. rewrite blen_cons in E0. lia.
        -- apply IH in H. destruct H as [[p Hp] [Hio Hs]]. split; [exists (WrAccept n :: p); rewrite Hp; reflexivity|].
           split; [exact Hio|]. intros S. inv S. auto.
      * inv H. split; [exists [WrErr k]; reflexivity|]. split; [eauto|].
        intros S. inv S. cbn in H1. subst k. auto.
Qed.

Lemma write_out_buffer_gen c w r c' w' :
  write_out_buffer c w = (r, c', w') ->
  c' = set_out c (c_out c') /\ wframe w w' /\ w_keys w' = w_keys w /\ w_fls w' = w_fls w /\
  io_res r /\ (soft w -> soft_res r).
Proof.
  unfold write_out_buffer.
  destruct (write_out_loop (w_wrs w) (c_out c) (w_log w)) as [[[r0 o] wrs] lg] eqn:E.
  intros H. inv H. apply write_out_loop_gen in E. destruct E as [Hp [Hio Hs]].
  cbn [c_out set_out w_keys w_fls]. splits; auto.
  - unfold wframe. cbn. splits; auto. exists []. reflexivity.
  - intros [S _]. auto.
Qed.

Definition bf_res (f : frame) (r : res unit) : Prop :=
  r = ROk tt \/ (exists k, r = RErr (EIo k)) \/ r = RErr (EWriteBufferFull f).
Definition bf_soft_res (f : frame) (r : res unit) : Prop :=
  r = ROk tt \/ r = RErr (EIo WouldBlock) \/ r = RErr (EWriteBufferFull f).

Lemma codec_buffer_frame_gen c f w r c' w' :
  codec_buffer_frame c f w = (r, c', w') ->
  c' = set_out c (c_out c') /\ wframe w w' /\ w_keys w' = w_keys w /\
  bf_res f r /\ (soft w -> bf_soft_res f r) /\
  (frame_len f + blen (c_out c) <= c_max_out c -> io_res r).
Proof.
  unfold codec_buffer_frame, bf_res, bf_soft_res.
  destruct (c_max_out c <? frame_len f + blen (c_out c)) eqn:E; intros H.
  - injection H as <- <- <-. splits; auto using wframe_refl.
    + destruct c; reflexivity.
    + intros Hx. lia.
  - destruct (c_write_len c <? _).
    + apply write_out_buffer_gen in H. destruct H as [Hc [Hw [Hk [_ [Hio Hs]]]]].
      splits.
      * exact Hc.
      * exact Hw.
      * exact Hk.
      * destruct Hio as [->|[k ->]]; eauto.
      * intros S. destruct (Hs S) as [->| ->]; auto.
      * intros _. exact Hio.
    + inv H. cbn [c_out set_out]. splits; auto.
      * apply (wframe_refl w).
      * unfold io_res. auto.
Qed.

Lemma after_key_wframe r w : wframe w (after_key r w).
Proof.
  destruct r; [apply wframe_refl|]. unfold after_key, w_next_key.
  destruct (w_keys w); [apply wframe_refl|].
  unfold wframe. cbn. splits; auto; exists []; reflexivity.
Qed.

Lemma buffer_frame_gen x f w r x' w' :
  x_state x = Active -> buffer_frame x f w = (r, x', w') ->
  let f1 := sent_frame (x_role x) w f in
  x' = upd x (c_out (x_codec x')) (x_additional x) (x_unflushed x) /\
  wframe w w' /\ w_keys w' = w_keys (after_key (x_role x) w) /\
  bf_res f1 r /\ (soft w -> bf_soft_res f1 r) /\
  (frame_len f1 + blen (c_out (x_codec x)) <= c_max_out (x_codec x) -> io_res r).
Proof.
  intros Hs. rewrite buffer_frame_unfold. cbv zeta.
  destruct (codec_buffer_frame (x_codec x) (sent_frame (x_role x) w f) (after_key (x_role x) w))
    as [[r0 c0] w0] eqn:EC.
  apply codec_buffer_frame_gen in EC. destruct EC as [Hc [Hw [Hk [Hr [Hsr Hfit]]]]].
  assert (Hcr : check_connection_reset r0 (x_state x) = (r0, x_state x)).
  { rewrite Hs. unfold check_connection_reset. destruct r0 as [u|e|s|]; try reflexivity.
    destruct e; try reflexivity. destruct k; reflexivity. }
  rewrite Hcr. intros H. inv H. cbn [x_codec set_state set_codec]. splits; auto.
  - unfold upd. cbn. rewrite <- Hc. reflexivity.
  - eapply wframe_trans; [apply after_key_wframe|exact Hw].
  - intros S. apply Hsr. eapply wframe_soft; [apply after_key_wframe|exact S].
Qed.

Lemma w_flush_gen w r w' :
  w_flush w = (r, w') ->
  wframe w w' /\ w_keys w' = w_keys w /\ io_res r /\ (soft w -> soft_res r).
Proof.
  unfold w_flush, io_res, soft_res, wframe, soft. intros H.
  destruct (w_fls w) as [|[|k] l] eqn:E; inv H;
    cbn [w_rds w_wrs w_fls w_keys w_emit w_set_fls]; rewrite ?E.
  - splits; eauto; exists []; reflexivity.
  - splits; eauto; [exists []; reflexivity|exists [FlOk]; reflexivity].
  - splits; eauto; [exists []; reflexivity|exists [FlErr k]; reflexivity|].
    intros [_ S]. inv S. cbn in H1. subst k. auto.
Qed.

Lemma set_additional_upd x o a u f : exists a', set_additional (upd x o a u) f = upd x o a' u.
Proof.
  unfold set_additional. cbn [x_additional upd]. destruct a as [g|].
  - destruct (opcode_eqb _ _); [exists (Some f)|exists (Some g)]; reflexivity.
  - exists (Some f). reflexivity.
Qed.

(* _write(None) in the Active state *)
Lemma write_none_gen x w r x' w' :
  x_state x = Active -> write_ x None w = (r, x', w') ->
  (exists o a u, x' = upd x o a u) /\ wframe w w' /\
  ((exists b, r = ROk b) \/ exists k, r = RErr (EIo k)) /\
  (soft w -> (exists b, r = ROk b) \/ r = RErr (EIo WouldBlock)).
Proof.
  intros Hs. unfold write_. cbv beta iota zeta.
  destruct (x_additional x) as [msg|] eqn:Ea.
  - destruct (buffer_frame (set_additional_raw x None) msg w) as [[rb xb] wb] eqn:EB.
    apply buffer_frame_gen in EB; [|exact Hs]. cbv zeta in EB.
    cbn [x_role x_codec x_additional x_unflushed set_additional_raw] in EB.
    destruct EB as [Hx [Hw [_ [Hr [Hsr _]]]]].
    remember (c_out (x_codec xb)) as o eqn:Eo. clear Eo.
    assert (Hxb : xb = upd x o None (x_unflushed x)) by (rewrite Hx; reflexivity).
    clear Hx.
    destruct Hr as [->|[[k ->]| ->]].
    + rewrite Hxb. cbn [x_role x_state x_additional upd set_unflushed]. rewrite Hs. cbn [closing_done].
      rewrite Bool.andb_false_r. cbn [andb]. intros H. inv H. splits; eauto.
      exists o, None, true. reflexivity.
    + intros H. inv H. splits; eauto.
      * exists o, None, true. reflexivity.
      * intros S. destruct (Hsr S) as [X|[X|X]]; try discriminate X. inv X. auto.
    + destruct (set_additional_upd x o None (x_unflushed x) (sent_frame (x_role x) w msg)) as [a' Ha'].
      rewrite Hxb, Ha'. cbn [x_role x_state x_additional upd]. rewrite Hs. cbn [closing_done].
      rewrite Bool.andb_false_r. cbn [andb]. intros H. inv H. splits; eauto.
  - rewrite Hs. cbn [closing_done]. rewrite Bool.andb_false_r. cbn [andb]. intros H. inv H.
    splits; eauto using wframe_refl. exists (c_out (x_codec x')), None, (x_unflushed x'). rewrite <- Ea. apply upd_id.
Qed.

(* flush in the Active state *)
Lemma flush_gen x w r x' w' :
  x_state x = Active -> flush x w = (r, x', w') ->
  (exists o a u, x' = upd x o a u) /\ wframe w w' /\ io_res r /\ (soft w -> soft_res r).
Proof.
  intros Hs. unfold flush.
  destruct (write_ x None w) as [[r0 x0] w0] eqn:EW.
  apply write_none_gen in EW; [|exact Hs]. destruct EW as [[o [a [u0 Hx0]]] [Hw0 [Hr0 Hs0]]].
  destruct r0 as [b|e|s|].
  - destruct (write_out_buffer (x_codec x0) w0) as [[r1 c1] w1] eqn:EO.
    apply write_out_buffer_gen in EO. destruct EO as [Hc1 [Hw1 [_ [_ [Hr1 Hs1]]]]].
    assert (Hx1 : set_codec x0 c1 = upd x (c_out c1) a u0).
    { rewrite Hc1, Hx0. reflexivity. }
    destruct r1 as [u1|e|s|].
    + destruct (w_flush w1) as [r2 w2] eqn:EF. apply w_flush_gen in EF.
      destruct EF as [Hw2 [_ [Hr2 Hs2]]].
      assert (W02 : wframe w w2) by (exact (wframe_trans _ _ _ Hw0 (wframe_trans _ _ _ Hw1 Hw2))).
      assert (Hfin : io_res r2 /\ (soft w -> soft_res r2)).
      { split; [exact Hr2|]. intros S. apply Hs2. eapply wframe_soft; [|exact S].
        exact (wframe_trans _ _ _ Hw0 Hw1). }
      destruct r2 as [[]|e|s|]; intros H; inv H; rewrite ?Hx1;
        (split; [|split; [exact W02|exact Hfin]]).
      * exists (c_out c1), a, false. reflexivity.
      * eauto.
      * eauto.
      * eauto.
    + intros H. inv H. rewrite Hx1. split; [eauto|]. split; [eapply wframe_trans; eassumption|].
      split; [exact Hr1|]. intros S. apply Hs1. eapply wframe_soft; eassumption.
    + intros H. inv H. rewrite Hx1. split; [eauto|]. split; [eapply wframe_trans; eassumption|].
      split; [exact Hr1|]. intros S. apply Hs1. eapply wframe_soft; eassumption.
    + intros H. inv H. rewrite Hx1. split; [eauto|]. split; [eapply wframe_trans; eassumption|].
      split; [exact Hr1|]. intros S. apply Hs1. eapply wframe_soft; eassumption.
  - intros H. inv H. split; [eauto|]. split; [exact Hw0|].
    destruct Hr0 as [[b X]|[k X]]; inv X. split; [unfold io_res; eauto|].
    intros S. destruct (Hs0 S) as [[b X]|X]; inv X. unfold soft_res. auto.
  - intros H. inv H. destruct Hr0 as [[b X]|[k X]]; discriminate X.
  - intros H. inv H. destruct Hr0 as [[b X]|[k X]]; discriminate X.
Qed.

(* ------------------------------------------------------------------------------------------ *)
(** * 3. The writer *)

(* buffer_frame in the Active state when the frame fits below max_write_buffer_size: the frame is
   queued whatever the transport answers *)
Lemma buffer_frame_fit x f w r x' w' :
  x_state x = Active ->
  frame_len (sent_frame (x_role x) w f) + blen (c_out (x_codec x)) <= c_max_out (x_codec x) ->
  buffer_frame x f w = (r, x', w') ->
  io_res r /\
  x' = upd x (c_out (x_codec x')) (x_additional x) (x_unflushed x) /\
  queued (w_log w') = queued (w_log w) ++ [sent_frame (x_role x) w f] /\
  w_keys w' = w_keys (after_key (x_role x) w).
Proof.
  intros Hs Hfit H.
  pose proof (buffer_frame_gen _ _ _ _ _ _ Hs H) as G. cbv zeta in G.
  destruct G as [Hx [_ [Hk [_ [_ Hio]]]]].
  apply buffer_frame_spec in H. cbv zeta in H.
  destruct H as [[Hfull _]|[_ [evs [El [_ [Hw _]]]]]]; [lia|].
  splits; auto.
  rewrite El, queued_app. cbn [queued]. rewrite (queued_only_writes _ Hw). reflexivity.
Qed.

Lemma write_none_none x w :
  x_state x = Active -> x_additional x = None -> write_ x None w = (ROk (x_unflushed x), x, w).
Proof.
  intros Hs Ha. unfold write_. cbv beta iota zeta. rewrite Ha. cbv beta iota.
  rewrite Hs. cbn [closing_done]. rewrite Bool.andb_false_r. reflexivity.
Qed.

Lemma flush_none x w r x' w' :
  x_state x = Active -> x_additional x = None -> flush x w = (r, x', w') ->
  io_res r /\ (exists o u, x' = upd x o None u) /\
  queued (w_log w') = queued (w_log w) /\ w_keys w' = w_keys w.
Proof.
  intros Hs Ha H.
  pose proof (flush_none_active _ _ _ _ _ Ha Hs H) as [evs [El [Hev _]]].
  assert (Hq : queued (w_log w') = queued (w_log w)).
  { rewrite El, queued_app, (queued_only_transport _ Hev). apply app_nil_r. }
  pose proof (flush_gen _ _ _ _ _ Hs H) as [_ [_ [Hio _]]].
  unfold flush in H. rewrite (write_none_none _ _ Hs Ha) in H.
  destruct (write_out_buffer (x_codec x) w) as [[r1 c1] w1] eqn:EO.
  apply write_out_buffer_gen in EO. destruct EO as [Hc1 [_ [Hk1 _]]].
  assert (Hx1 : set_codec x c1 = upd x (c_out c1) None (x_unflushed x)).
  { rewrite Hc1, <- Ha. destruct x; reflexivity. }
  destruct r1 as [u1|e|s|].
  - destruct (w_flush w1) as [r2 w2] eqn:EF. apply w_flush_gen in EF. destruct EF as [_ [Hk2 _]].
    destruct r2 as [u2|e|s|]; inv H; rewrite ?Hx1; splits; eauto; try congruence.
    exists (c_out c1), false. reflexivity.
  - inv H. rewrite Hx1. splits; eauto.
  - inv H. rewrite Hx1. splits; eauto.
  - inv H. rewrite Hx1. splits; eauto.
Qed.

(* one user write of a text / binary / ping / pong message that fits *)
Lemma write_plain_step x m w r x' w' :
  x_state x = Active -> x_additional x = None -> plain m = true ->
  frame_len (sent_frame (x_role x) w (frame_of m)) + blen (c_out (x_codec x)) <= c_max_out (x_codec x) ->
  write x m w = (r, x', w') ->
  io_res r /\ x_state x' = Active /\ x_additional x' = None /\
  queued (w_log w') = queued (w_log w) ++ [sent_frame (x_role x) w (frame_of m)] /\
  w_keys w' = w_keys (after_key (x_role x) w).
Proof.
  intros Hs Ha Hp Hfit H.
  assert (Hdata : forall f, f = frame_of m -> write_data x f w = (r, x', w') ->
    io_res r /\ x_state x' = Active /\ x_additional x' = None /\
    queued (w_log w') = queued (w_log w) ++ [sent_frame (x_role x) w (frame_of m)] /\
    w_keys w' = w_keys (after_key (x_role x) w)).
  { intros f -> HD. unfold write_data, write_ in HD.
    destruct (buffer_frame x (frame_of m) w) as [[r0 x0] w0] eqn:EB.
    apply (buffer_frame_fit _ _ _ _ _ _ Hs Hfit) in EB.
    destruct EB as [Hio [Hx0 [Hq Hk]]]. rewrite Ha in Hx0.
    remember (c_out (x_codec x0)) as o eqn:Eo. clear Eo.
    destruct Hio as [->|[k ->]].
    - rewrite Hx0 in HD. cbn [x_additional x_unflushed x_role x_state upd] in HD.
      rewrite Hs in HD. cbn [closing_done] in HD. rewrite Bool.andb_false_r in HD. cbn [andb] in HD.
      destruct (x_unflushed x).
      + apply flush_none in HD; [|exact Hs|reflexivity].
        destruct HD as [Hio [[o' [u' ->]] [Hq' Hk']]]. cbn [x_state x_additional upd].
        splits; auto; congruence.
      + inv HD. cbn [x_state x_additional upd]. unfold io_res. splits; auto.
    - inv HD. cbn [x_state x_additional upd]. unfold io_res. splits; eauto. }
  unfold write in H. rewrite Hs in H. cbn [is_terminated is_active negb] in H. cbv beta iota zeta in H.
  destruct m as [d|d|d|d|c|f]; try discriminate Hp.
  - apply (Hdata _ eq_refl). exact H.
  - apply (Hdata _ eq_refl). exact H.
  - apply (Hdata _ eq_refl). exact H.
  - unfold set_additional in H. rewrite Ha in H. unfold write_ in H. cbv beta iota zeta in H.
    cbn [x_additional set_additional_raw] in H.
    destruct (buffer_frame (set_additional_raw (set_additional_raw x (Some (frame_pong d))) None)
                (frame_pong d) w) as [[rb xb] wb] eqn:EB.
    apply buffer_frame_fit in EB; [|exact Hs|exact Hfit].
    cbn [x_role x_codec x_additional x_unflushed set_additional_raw] in EB.
    destruct EB as [Hio [Hxb [Hq Hk]]].
    remember (c_out (x_codec xb)) as o eqn:Eo. clear Eo.
    assert (Hxb' : xb = upd x o None (x_unflushed x)) by (rewrite Hxb; reflexivity). clear Hxb.
    destruct Hio as [->|[k ->]].
    + rewrite Hxb' in H. cbn [x_additional x_unflushed x_role x_state upd set_unflushed] in H.
      rewrite Hs in H. cbn [closing_done] in H. rewrite Bool.andb_false_r in H. cbn [andb] in H.
      inv H. cbn [x_state x_additional upd]. unfold io_res. splits; auto.
    + inv H. cbn [x_state x_additional upd set_unflushed]. unfold io_res. splits; eauto.
Qed.

Lemma run_ops_app a : forall x b w,
  run_ops x (a ++ b) w =
  let '(rs1, x1, w1) := run_ops x a w in
  let '(rs2, x2, w2) := run_ops x1 b w1 in
  (rs1 ++ rs2, x2, w2).
Proof.
  induction a as [|o a IH]; intros x b w; cbn [app run_ops].
  - destruct (run_ops x b w) as [[rs2 x2] w2]. reflexivity.
  - destruct (run_op x o w) as [[r1 x1] w1]. rewrite IH.
    destruct (run_ops x1 a w1) as [[rs1 x1'] w1'].
    destruct (run_ops x1' b w1') as [[rs2 x2] w2]. reflexivity.
Qed.

Lemma enc_cons f fs : enc (f :: fs) = frame_format f ++ enc fs.
Proof. reflexivity. Qed.

Lemma run_ops_length ops : forall x w rs x' w', run_ops x ops w = (rs, x', w') -> length rs = length ops.
Proof.
  induction ops as [|o ops IHo]; intros xa wa rsa xb wb Hr; cbn [run_ops] in Hr.
  - inv Hr. reflexivity.
  - destruct (run_op xa o wa) as [[ra xc] wc]. destruct (run_ops xc ops wc) as [[rsb xd] wd] eqn:Er.
    inv Hr. cbn [length]. f_equal. eapply IHo. exact Er.
Qed.

Definition write_res_ok (p : op_result * N) : Prop := exists r, fst p = ResUnit r /\ io_res r.

(* the writer's operations: writes of text / binary / ping / pong messages and flushes, in any order *)
Definition wop_ok (o : op) : Prop :=
  match o with OpWrite m => plain m = true | OpFlush => True | _ => False end.

Fixpoint written (ops : list op) : list message :=
  match ops with
  | [] => []
  | OpWrite m :: r => m :: written r
  | _ :: r => written r
  end.

Lemma written_app a b : written (a ++ b) = written a ++ written b.
Proof.
  induction a as [|o a IH]; [reflexivity|]. destruct o; cbn [app written]; rewrite IH; reflexivity.
Qed.

Lemma written_writes ms : written (map OpWrite ms) = ms.
Proof. induction ms as [|m ms IH]; [reflexivity|]. cbn [map written]. rewrite IH. reflexivity. Qed.

Lemma wops_run ops : forall x w rs x' w',
  x_state x = Active -> x_additional x = None -> Forall wop_ok ops ->
  wp_inv (c_out (x_codec x)) (w_log w) ->
  blen (enc (queued (w_log w))) + blen (enc (frames_all (x_role x) (w_keys w) (written ops)))
    <= c_max_out (x_codec x) ->
  run_ops x ops w = (rs, x', w') ->
  x_state x' = Active /\ x_additional x' = None /\ x_role x' = x_role x /\
  c_max_out (x_codec x') = c_max_out (x_codec x) /\
  queued (w_log w') = queued (w_log w) ++ frames_all (x_role x) (w_keys w) (written ops) /\
  wp_inv (c_out (x_codec x')) (w_log w') /\
  Forall write_res_ok rs.
Proof.
  induction ops as [|op ops IH]; intros x w rs x' w' Hs Ha Hp Hi Hb H.
  - cbn in H. inv H. cbn [written frames_all]. rewrite app_nil_r. splits; auto.
  - inversion Hp as [|? ? Hpm Hps]; subst.
    destruct op as [|m| | | | |]; try contradiction.
    + (* write *)
      cbn [run_ops run_op] in H.
      destruct (write x m w) as [[r1 x1] w1] eqn:EW.
      destruct (run_ops x1 ops w1) as [[rs2 x2] w2] eqn:ER. inv H.
      cbn [wop_ok] in Hpm. cbn [written] in *.
      cbn [frames_all] in Hb. rewrite <- sent_frame_wire, enc_cons, blen_app in Hb.
      set (f1 := sent_frame (x_role x) w (frame_of m)) in *.
      assert (Hfit : frame_len f1 + blen (c_out (x_codec x)) <= c_max_out (x_codec x)).
      { rewrite frame_len_exact. unfold wp_inv in Hi.
        assert (X : blen (wire (w_log w)) + blen (c_out (x_codec x)) = blen (enc (queued (w_log w)))).
        { rewrite <- blen_app, Hi. reflexivity. }
        lia. }
      pose proof (write_pstep _ _ _ _ _ _ EW) as P.
      pose proof P as [[[evs [El Ht]] [Hmx _]] [_ Hro]].
      assert (Hi1 : wp_inv (c_out (x_codec x1)) (w_log w1)).
      { rewrite El. eapply wp_inv_step; eassumption. }
      apply (write_plain_step _ _ _ _ _ _ Hs Ha Hpm Hfit) in EW. fold f1 in EW.
      destruct EW as [Hio [Hs1 [Ha1 [Hq1 Hk1]]]].
      assert (Hfa : frames_all (x_role x1) (w_keys w1) (written ops)
                    = frames_all (x_role x) (tl (w_keys w)) (written ops)).
      { rewrite Hro, Hk1. apply frames_all_after_key. }
      apply (IH _ _ _ _ _ Hs1 Ha1 Hps Hi1) in ER.
      * destruct ER as [Hs2 [Ha2 [Hr2 [Hm2 [Hq2 [Hi2 Hrs]]]]]].
        splits; auto; try congruence.
        -- rewrite Hq2, Hq1, Hfa, <- app_assoc. cbn [frames_all app].
           unfold f1. rewrite sent_frame_wire. reflexivity.
        -- constructor; [|exact Hrs]. exists r1. split; [reflexivity|exact Hio].
      * rewrite Hfa, Hmx, Hq1, enc_app, blen_app. unfold enc at 2. cbn [map concat].
        rewrite app_nil_r. lia.
    + (* flush *)
      cbn [run_ops run_op] in H.
      destruct (flush x w) as [[r1 x1] w1] eqn:EF.
      destruct (run_ops x1 ops w1) as [[rs2 x2] w2] eqn:ER. inv H.
      cbn [written] in *.
      pose proof (flush_pstep _ _ _ _ _ EF) as [[[evs [El Ht]] _] _].
      assert (Hi1 : wp_inv (c_out (x_codec x1)) (w_log w1)).
      { rewrite El. eapply wp_inv_step; eassumption. }
      apply (flush_none _ _ _ _ _ Hs Ha) in EF.
      destruct EF as [Hio [[o [u ->]] [Hq1 Hk1]]].
      apply (IH (upd x o None u) _ _ _ _ Hs eq_refl Hps Hi1) in ER.
      * cbn [x_role x_codec upd c_max_out set_out] in ER. rewrite Hq1, Hk1 in ER.
        destruct ER as [Hs2 [Ha2 [Hr2 [Hm2 [Hq2 [Hi2 Hrs]]]]]].
        splits; auto. constructor; [|exact Hrs]. exists r1. split; [reflexivity|exact Hio].
      * cbn [x_role x_codec upd c_max_out set_out]. rewrite Hq1, Hk1. exact Hb.
Qed.

(* The writer, any interleaving of writes and flushes from a fresh context: at the end (hence after
   every prefix of the operations) the bytes accepted by the transport followed by the bytes still in
   out_buffer are exactly the encodings of the written messages, in order, keys in oracle order. *)
Theorem writer_ops r part cfg ops x0 w0 rs x w :
  ctx_new r part cfg = Some x0 -> w_log w0 = [] ->
  Forall wop_ok ops ->
  blen (encode_all r (w_keys w0) (written ops)) <= cfg_max_write_buffer_size cfg ->
  run_ops x0 ops w0 = (rs, x, w) ->
  wire (w_log w) ++ c_out (x_codec x) = encode_all r (w_keys w0) (written ops) /\
  Forall write_res_ok rs /\ x_state x = Active /\ x_additional x = None.
Proof.
  intros Hn Hl Hp Hb H.
  apply ctx_new_spec in Hn. destruct Hn as [[Hmx _] [Ho [Hcfg [Hro [Hs [Ha _]]]]]].
  assert (Hi0 : wp_inv (c_out (x_codec x0)) (w_log w0)).
  { unfold wp_inv. rewrite Ho, Hl. reflexivity. }
  apply (wops_run _ _ _ _ _ _ Hs Ha Hp Hi0) in H.
  2:{ rewrite Hl. cbn [queued]. unfold enc at 1. cbn [map concat]. rewrite blen_nil.
      rewrite <- encode_all_enc, Hmx, Hcfg, Hro. lia. }
  destruct H as [Hs1 [Ha1 [Hr1 [Hm1 [Hq1 [Hi1 Hrs1]]]]]].
  rewrite Hl in Hq1. cbn [queued app] in Hq1.
  unfold wp_inv in Hi1. rewrite Hq1, <- encode_all_enc, Hro in Hi1. splits; auto.
Qed.

(* the shape of the property: n writes and a flush *)
Theorem writer_run r part cfg ms x0 w0 rs x w :
  ctx_new r part cfg = Some x0 -> w_log w0 = [] ->
  Forall (fun m => plain m = true) ms ->
  blen (encode_all r (w_keys w0) ms) <= cfg_max_write_buffer_size cfg ->
  run_ops x0 (map OpWrite ms ++ [OpFlush]) w0 = (rs, x, w) ->
  wire (w_log w) ++ c_out (x_codec x) = encode_all r (w_keys w0) ms /\
  (last (map fst rs) (ResBool false) = ResUnit (ROk tt) -> wire (w_log w) = encode_all r (w_keys w0) ms) /\
  Forall write_res_ok rs /\ length rs = S (length ms).
Proof.
  intros Hn Hl Hp Hb H.
  assert (Hw : written (map OpWrite ms ++ [OpFlush]) = ms).
  { rewrite written_app, written_writes. cbn [written]. apply app_nil_r. }
  assert (Hops : Forall wop_ok (map OpWrite ms ++ [OpFlush])).
  { apply Forall_app. split; [|repeat constructor].
    apply Forall_forall. intros o Ho. apply in_map_iff in Ho. destruct Ho as [m [<- Hm]].
    rewrite Forall_forall in Hp. exact (Hp m Hm). }
  pose proof (run_ops_length _ _ _ _ _ _ H) as Hlen.
  rewrite app_length, map_length in Hlen. cbn [length] in Hlen.
  pose proof H as H0.
  apply (writer_ops _ _ _ _ _ _ _ _ _ Hn Hl Hops) in H; [|rewrite Hw; exact Hb].
  rewrite Hw in H. destruct H as [Hwire [Hrs _]]. splits; auto; [|lia].
  rewrite run_ops_app in H0.
  destruct (run_ops x0 (map OpWrite ms) w0) as [[rs1 x1] w1] eqn:E1.
  cbn [run_ops run_op] in H0.
  destruct (flush x1 w1) as [[rf x2] w2] eqn:EF. inv H0.
  rewrite map_app. cbn [map fst]. rewrite last_last. intros X. inv X.
  apply flush_ok in EF. destruct EF as [Ho2 _]. rewrite Ho2, app_nil_r in Hwire. exact Hwire.
Qed.

(* ------------------------------------------------------------------------------------------ *)
(** * 4. The whole-stream reference decoder on an encoded message list *)

Definition opp (r : role) : role := match r with Server => Client | Client => Server end.

(* the payload bytes as they travel *)
Definition wire_payload (f : frame) : bytes :=
  match h_mask (f_hdr f) with Some k => apply_mask k (f_payload f) | None => f_payload f end.

Lemma wire_payload_blen f : blen (wire_payload f) = blen (f_payload f).
Proof. unfold wire_payload. destruct (h_mask (f_hdr f)); [apply apply_mask_blen|reflexivity]. Qed.

Lemma frame_format_split f :
  frame_format f = header_format (f_hdr f) (blen (f_payload f)) ++ wire_payload f.
Proof. reflexivity. Qed.

(* the reference decoder cuts one well-formed frame off the front of any stream *)
Lemma ref_all_frame max f rest term :
  is_reserved (h_opcode (f_hdr f)) = false -> blen (f_payload f) < two64 -> blen (f_payload f) <= max ->
  ref_all max (frame_format f ++ rest) term =
  ROk (Some (f_hdr f, blen (f_payload f), wire_payload f)) :: ref_all max rest term.
Proof.
  intros Hr H64 Hmax. rewrite ref_all_eq. unfold ref_step.
  rewrite frame_format_split, <- app_assoc.
  rewrite (header_parse_format_nr _ _ _ Hr H64).
  rewrite (dropN_app_exact _ _ _ (HeaderP.header_format_blen _ _)).
  unfold ref_body.
  replace (max <? blen (f_payload f)) with false by (symmetry; lia).
  replace (blen (f_payload f) <=? blen (wire_payload f ++ rest)) with true
    by (symmetry; rewrite blen_app, wire_payload_blen; lia).
  rewrite (takeN_app_exact _ _ _ (wire_payload_blen f)), (dropN_app_exact _ _ _ (wire_payload_blen f)).
  reflexivity.
Qed.

(* what the reading side makes of a frame of the writer: the key is taken off again *)
Lemma post_frame_wire r k acc m :
  plain m = true ->
  let wf := wire_frame r k (frame_of m) in
  post_frame (role_eqb (opp r) Server) acc (ROk (Some (f_hdr wf, blen (f_payload wf), wire_payload wf)))
  = ROk (Some (frame_of m)).
Proof.
  intros Hp wf. unfold post_frame. rewrite wire_payload_blen, N.eqb_refl. cbn [negb].
  destruct r; cbn [opp role_eqb].
  - subst wf. cbn [wire_frame]. destruct m; try discriminate Hp; reflexivity.
  - subst wf. cbn [wire_frame mask_with f_hdr h_mask h_fin h_rsv1 h_rsv2 h_rsv3 h_opcode f_payload].
    unfold wire_payload. cbn [mask_with f_hdr h_mask f_payload]. unfold apply_mask.
    rewrite xor_cyc_involutive. destruct m; try discriminate Hp; reflexivity.
Qed.

Definition okf (m : message) : res (option frame) := ROk (Some (frame_of m)).

(* what the reader needs of a message: the documented preconditions of write (text is UTF-8 — true by
   type in Rust —, control payloads are at most 125 bytes), lengths are below 2^64 *)
Definition wf_msg (m : message) : Prop :=
  plain m = true /\ blen (payload_of m) < two64 /\
  match m with
  | MText d => is_utf8 d = true
  | MPing d | MPong d => blen d <= 125
  | _ => True
  end.

(* the reader's limits allow the message: no limit, or a limit of at least its size *)
Definition fits (cfg : config) (m : message) : Prop :=
  blen (payload_of m) <= limit_of (cfg_max_frame_size cfg) /\
  match m with
  | MText d | MBinary d => blen d <= limit_of (cfg_max_message_size cfg)
  | _ => True
  end.

Definition rd_ok (cfg : config) (m : message) : Prop := wf_msg m /\ fits cfg m.

Lemma wire_frame_payload r k f : f_payload (wire_frame r k f) = f_payload f.
Proof. destruct r; reflexivity. Qed.

Lemma wire_frame_opcode r k f : h_opcode (f_hdr (wire_frame r k f)) = h_opcode (f_hdr f).
Proof. destruct r; reflexivity. Qed.

Lemma plain_not_reserved m : plain m = true -> is_reserved (h_opcode (f_hdr (frame_of m))) = false.
Proof. destruct m; try discriminate; reflexivity. Qed.

Lemma frames_ref_encode_all r lim acc t tail ms : forall ks,
  Forall (fun m => plain m = true /\ blen (payload_of m) < two64 /\ blen (payload_of m) <= limit_of lim) ms ->
  frames_ref lim (role_eqb (opp r) Server) acc None (encode_all r ks ms ++ tail) t =
  map okf ms ++ frames_ref lim (role_eqb (opp r) Server) acc None tail t.
Proof.
  induction ms as [|m ms IH]; intros ks H; [reflexivity|].
  inversion H as [|? ? [Hp [H64 Hl]] Hrest]; subst.
  cbn [encode_all map app]. unfold encode. rewrite <- app_assoc.
  unfold frames_ref in *. cbn [ref_from] in *.
  set (wf := wire_frame r (hd zero_key ks) (frame_of m)).
  rewrite (ref_all_frame (limit_of lim) wf).
  - cbn [finish]. pose proof (post_frame_wire r (hd zero_key ks) acc m Hp) as PF.
    cbv zeta in PF. fold wf in PF. rewrite PF. cbn [classify].
    unfold okf at 1. f_equal. apply IH. exact Hrest.
  - unfold wf. rewrite wire_frame_opcode. apply plain_not_reserved, Hp.
  - unfold wf. rewrite wire_frame_payload. exact H64.
  - unfold wf. rewrite wire_frame_payload. exact Hl.
Qed.

Lemma frames_ref_nil lim u acc : frames_ref lim u acc None [] TSilence = [].
Proof. reflexivity. Qed.

(* a proper prefix of a frame decodes to nothing *)
Lemma ref_all_strict_prefix max f pre more :
  is_reserved (h_opcode (f_hdr f)) = false -> blen (f_payload f) < two64 -> blen (f_payload f) <= max ->
  pre ++ more = frame_format f -> more <> [] ->
  ref_all max pre [] = [].
Proof.
  intros Hr H64 Hmax Hsplit Hne. rewrite ref_all_eq. unfold ref_step.
  assert (Hfull : header_parse (pre ++ more) =
                  POk (f_hdr f) (blen (f_payload f)) (header_len (f_hdr f) (blen (f_payload f)))).
  { rewrite Hsplit, frame_format_split. apply header_parse_format_nr; assumption. }
  destruct (header_parse pre) as [h len k| |i|] eqn:Hp.
  - destruct (hp_ok _ _ _ _ Hp) as [Hk Hext]. rewrite (Hext more) in Hfull.
    injection Hfull as -> -> ->. unfold ref_body.
    replace (max <? blen (f_payload f)) with false by (symmetry; lia).
    assert (Hlen : blen pre + blen more = header_len (f_hdr f) (blen (f_payload f)) + blen (f_payload f)).
    { rewrite <- blen_app, Hsplit. symmetry. apply frame_len_exact. }
    assert (Hm : 1 <= blen more).
    { destruct more; [contradiction|]. rewrite blen_cons. lia. }
    replace (blen (f_payload f) <=? blen (dropN (header_len (f_hdr f) (blen (f_payload f))) pre))
      with false; [reflexivity|].
    symmetry. rewrite WritePathP.blen_dropN. lia.
  - reflexivity.
  - rewrite (hp_err _ _ Hp more) in Hfull. discriminate Hfull.
  - exfalso. exact (hp_no_panic _ Hp).
Qed.

(* every prefix of an encoded message list decodes to a prefix of the messages *)
Lemma frames_ref_prefix r lim acc ms : forall ks pre more,
  Forall (fun m => plain m = true /\ blen (payload_of m) < two64 /\ blen (payload_of m) <= limit_of lim) ms ->
  pre ++ more = encode_all r ks ms ->
  exists j, frames_ref lim (role_eqb (opp r) Server) acc None pre TSilence = map okf (firstn j ms).
Proof.
  induction ms as [|m ms IH]; intros ks pre more H Hsplit.
  - cbn [encode_all] in Hsplit. apply app_eq_nil in Hsplit. destruct Hsplit as [-> _].
    exists 0%nat. reflexivity.
  - inversion H as [|? ? [Hp [H64 Hl]] Hrest]; subst.
    cbn [encode_all] in Hsplit. apply app_eq_app in Hsplit.
    assert (Hone : forall l, frames_ref lim (role_eqb (opp r) Server) acc None (encode r (hd zero_key ks) m ++ l) TSilence
                   = okf m :: frames_ref lim (role_eqb (opp r) Server) acc None l TSilence).
    { intros l. pose proof (frames_ref_encode_all r lim acc TSilence l [m] ks) as X.
      cbn [encode_all map app] in X. rewrite app_nil_r in X. apply X. constructor; auto. }
    destruct Hsplit as [l [[-> Hl2]|[He Hm]]].
    + symmetry in Hl2. destruct (IH _ _ _ Hrest Hl2) as [j Hj].
      exists (S j). rewrite Hone, Hj. reflexivity.
    + destruct l as [|b l].
      * rewrite app_nil_r in He. cbn [app] in Hm. subst more. symmetry in He. subst pre.
        exists 1%nat. rewrite <- (app_nil_r (encode r (hd zero_key ks) m)), Hone.
        rewrite frames_ref_nil. destruct ms; reflexivity.
      * exists 0%nat. cbn [firstn map]. unfold frames_ref. cbn [ref_from].
        change (@term_res (header * N * bytes) TSilence) with (@nil raw).
        unfold encode in He. symmetry in He.
        rewrite (ref_all_strict_prefix (limit_of lim) (wire_frame r (hd zero_key ks) (frame_of m)) pre (b :: l));
          [reflexivity| | | |exact He|discriminate].
        -- rewrite wire_frame_opcode. apply plain_not_reserved, Hp.
        -- rewrite wire_frame_payload. exact H64.
        -- rewrite wire_frame_payload. exact Hl.
Qed.

(* ------------------------------------------------------------------------------------------ *)
(** * 5. One read call against the decoder's view *)

(* what the reference decoder still sees from a codec state and the rest of the schedule *)
Definition cview (ms : option N) (u a : bool) (c : codec) (w : world) : list (res (option frame)) :=
  frames_ref ms u a (c_hdr c) (c_in c ++ sched_data (w_rds w)) (sched_end (w_rds w)).

Lemma classify_wb {A} (r : res (option A)) : classify r = KWB -> r = RErr (EIo WouldBlock).
Proof.
  destruct r as [[x|]|e|s|]; try discriminate. destruct e; try discriminate.
  destruct k; try discriminate. reflexivity.
Qed.

(* one read_frame call: a frame is the head of the view, WouldBlock leaves the view as it is, and
   anything else is the whole view (from CodecReadP.drive_ref) *)
Lemma read_frame_view ms u a c w r c' w' :
  read_frame ms u a c w = (r, c', w') ->
  match classify r with
  | KFrame => cview ms u a c w = r :: cview ms u a c' w'
  | KWB => cview ms u a c w = cview ms u a c' w' /\ (w_rds w' = [] -> cview ms u a c w = [])
  | KStop => cview ms u a c w = [r]
  end.
Proof.
  intros H. unfold cview.
  remember (S (mu c (w_rds w) + mu c' (w_rds w'))) as f eqn:Ef.
  assert (H1 : (mu c (w_rds w) < S f)%nat) by lia.
  assert (H2 : (mu c' (w_rds w') < f)%nat) by lia.
  rewrite <- (drive_ref ms u a (S f) c w H1), <- (drive_ref ms u a f c' w' H2).
  destruct (classify r) eqn:Ec.
  - cbn [drive]. rewrite H, Ec. reflexivity.
  - pose proof (classify_wb _ Ec) as ->. split.
    + symmetry. exact (drive_wouldblock_noop _ _ _ _ _ _ _ _ _ H H2 H1).
    + intros Hnil. cbn [drive]. rewrite H. cbn [classify]. rewrite Hnil. reflexivity.
  - cbn [drive]. rewrite H, Ec. reflexivity.
Qed.

Lemma rfl_suffix max : forall rds c r c' rds',
  rfl max rds c = (r, c', rds') -> exists p, rds = p ++ rds'.
Proof.
  induction rds as [|o rest IH]; intros c r c' rds' E; rewrite rfl_eq in E;
    destruct (try_take max c) as [h len p c1|n c1|e c1|s]; try (inv E; exists []; reflexivity).
  destruct o as [[|b bs]| |k].
  - inv E. exists [RdData []]. reflexivity.
  - apply IH in E. destruct E as [p ->]. exists (RdData (b :: bs) :: p). reflexivity.
  - inv E. exists [RdEof]. reflexivity.
  - inv E. exists [RdErr k]. reflexivity.
Qed.

Lemma read_frame_world ms u a c w r c' w' :
  read_frame ms u a c w = (r, c', w') ->
  w_wrs w' = w_wrs w /\ w_fls w' = w_fls w /\ exists p, w_rds w = p ++ w_rds w'.
Proof.
  rewrite read_frame_eq. destruct (rfl (limit_of ms) (w_rds w) c) as [[r0 c0] rds0] eqn:E.
  intros H. inv H. cbn [w_wrs w_fls w_rds]. splits; auto. eapply rfl_suffix. exact E.
Qed.

(* the part of WebSocketContext::read before the frame is read *)
Definition pre_read (x : ctx) (w : world) : res unit * ctx * world :=
  if (match x_additional x with Some _ => true | None => false end) || x_unflushed x then
    let '(r, x', w') := flush x w in
    match r with
    | ROk _ => (ROk tt, x', w')
    | RErr (EIo WouldBlock) => (ROk tt, set_unflushed x' true, w')
    | _ => (r, x', w')
    end
  else if role_eqb (x_role x) Server && negb (can_read (x_state x)) then
    let '(rw, c', w') := write_out_buffer (x_codec x) w in
    match rw with
    | ROk _ => (RErr EConnectionClosed, set_state (set_codec x c') Terminated, w')
    | _ => (rw, set_codec x c', w')
    end
  else (ROk tt, x, w).

Lemma read_loop_unfold fuel x w :
  read_loop (S fuel) x w =
  let '(r0, x0, w0) := pre_read x w in
  match r0 with
  | ROk _ =>
      let '(r1, x1, w1) := read_message_frame x0 w0 in
      match r1 with
      | ROk (Some m) => (ROk m, x1, w1)
      | ROk None => read_loop fuel x1 w1
      | RErr e => (RErr e, x1, w1)
      | RPanic s => (RPanic s, x1, w1)
      | ROutOfFuel => (ROutOfFuel, x1, w1)
      end
  | RErr e => (RErr e, x0, w0)
  | RPanic s => (RPanic s, x0, w0)
  | ROutOfFuel => (ROutOfFuel, x0, w0)
  end.
Proof. reflexivity. Qed.

(* with a write side that never fails hard, the pending pong (if any) is flushed or kept, and
   reading goes on *)
Lemma pre_read_active x w r0 x0 w0 :
  x_state x = Active -> soft w -> pre_read x w = (r0, x0, w0) ->
  r0 = ROk tt /\ (exists o a u, x0 = upd x o a u) /\ wframe w w0.
Proof.
  intros Hs Hsoft. unfold pre_read.
  destruct ((match x_additional x with Some _ => true | None => false end) || x_unflushed x).
  - destruct (flush x w) as [[r x'] w'] eqn:EF.
    apply flush_gen in EF; [|exact Hs]. destruct EF as [[o [a [u Hx]]] [Hw [_ Hr]]].
    destruct (Hr Hsoft) as [-> | ->]; intros H; inv H; splits; eauto.
    exists o, a, true. reflexivity.
  - rewrite Hs. cbn [can_read negb]. rewrite Bool.andb_false_r. intros H. inv H.
    splits; auto using wframe_refl. eauto using upd_id.
Qed.

Lemma check_max_size_fits size lim : size <= limit_of lim -> check_max_size size lim = ROk tt.
Proof.
  unfold check_max_size, limit_of. destruct lim as [m|]; [|reflexivity].
  intros H. replace (m <? size) with false by (symmetry; lia). reflexivity.
Qed.

(* read_message_frame on a frame of a well-formed text / binary / ping / pong message *)
Lemma rmf_plain_frame x w m c1 w1 :
  x_state x = Active -> x_incomplete x = None -> rd_ok (x_cfg x) m ->
  read_frame (cfg_max_frame_size (x_cfg x)) (role_eqb (x_role x) Server) (cfg_accept_unmasked (x_cfg x))
             (x_codec x) w = (ROk (Some (frame_of m)), c1, w1) ->
  exists x2, read_message_frame x w = (ROk (Some m), x2, w1) /\
    x_state x2 = Active /\ x_incomplete x2 = None /\ x_role x2 = x_role x /\ x_cfg x2 = x_cfg x /\
    x_codec x2 = c1.
Proof.
  intros Hs Hi [[Hp [H64 Hwf]] [Hfr Hmsg]] ERF.
  unfold read_message_frame. rewrite ERF. cbn [check_connection_reset].
  destruct m as [d|d|d|d|c|f]; try discriminate Hp;
    cbn [frame_of frame_message frame_ping frame_pong f_hdr f_payload h_rsv1 h_rsv2 h_rsv3 h_mask
         h_opcode h_fin orb negb x_state x_role x_cfg x_incomplete set_state set_codec];
    rewrite ?Hs; cbn [can_read negb is_active]; rewrite ?Bool.andb_false_r; cbv beta iota.
  - rewrite Hi. cbn [x_cfg set_state set_codec]. rewrite (check_max_size_fits _ _ Hmsg), Hwf.
    eexists. split; [reflexivity|]. cbn. auto.
  - rewrite Hi. cbn [x_cfg set_state set_codec]. rewrite (check_max_size_fits _ _ Hmsg).
    eexists. split; [reflexivity|]. cbn. auto.
  - replace (125 <? blen d) with false by (symmetry; lia).
    eexists. split; [reflexivity|].
    rewrite x_state_set_additional, x_role_set_additional, x_cfg_set_additional, x_codec_set_additional.
    unfold set_additional. cbn. destruct (x_additional x) as [g|]; [destruct (opcode_eqb _ _)|]; cbn; auto.
  - replace (125 <? blen d) with false by (symmetry; lia).
    eexists. split; [reflexivity|]. cbn. auto.
Qed.

Lemma rmf_wouldblock x w c1 w1 :
  x_state x = Active ->
  read_frame (cfg_max_frame_size (x_cfg x)) (role_eqb (x_role x) Server) (cfg_accept_unmasked (x_cfg x))
             (x_codec x) w = (RErr (EIo WouldBlock), c1, w1) ->
  read_message_frame x w = (RErr (EIo WouldBlock), set_state (set_codec x c1) Active, w1).
Proof.
  intros Hs ERF. unfold read_message_frame. rewrite ERF. cbn [check_connection_reset]. rewrite Hs.
  reflexivity.
Qed.

Definition rview (x : ctx) (w : world) : list (res (option frame)) :=
  cview (cfg_max_frame_size (x_cfg x)) (role_eqb (x_role x) Server) (cfg_accept_unmasked (x_cfg x))
        (x_codec x) w.

Lemma okf_not_stop ms r : map okf ms = [r] -> classify r = KStop -> False.
Proof.
  destruct ms as [|m [|m' ms]]; try discriminate. cbn [map]. intros H. inv H. discriminate.
Qed.

(* One call of read.  Either it answers WouldBlock, nothing of the stream is lost and (unless every
   message has been delivered) at least one oracle entry was consumed; or it returns the next message. *)
Lemma read_step x w ms res x' w' :
  x_state x = Active -> x_incomplete x = None -> soft w ->
  rview x w = map okf ms -> Forall (rd_ok (x_cfg x)) ms ->
  read x w = (res, x', w') ->
  x_state x' = Active /\ x_incomplete x' = None /\ x_role x' = x_role x /\ x_cfg x' = x_cfg x /\ soft w' /\
  ((res = RErr (EIo WouldBlock) /\ rview x' w' = map okf ms /\
    (ms <> [] -> (length (w_rds w') < length (w_rds w))%nat))
   \/
   (exists m rest, ms = m :: rest /\ res = ROk m /\ rview x' w' = map okf rest /\
      (length (w_rds w') <= length (w_rds w))%nat)).
Proof.
  intros Hs Hi Hsoft Hview Hok H.
  unfold read in H. rewrite Hs in H. cbn [is_terminated] in H. rewrite read_loop_unfold in H.
  destruct (pre_read x w) as [[r0 x0] w0] eqn:EP.
  apply pre_read_active in EP; [|exact Hs|exact Hsoft].
  destruct EP as [-> [[o [a [u ->]]] Hw0]]. cbv iota in H.
  pose proof (wframe_soft _ _ Hw0 Hsoft) as Hsoft0.
  destruct Hw0 as [Hrds0 _].
  set (x0 := upd x o a u) in *.
  destruct (read_frame (cfg_max_frame_size (x_cfg x0)) (role_eqb (x_role x0) Server)
              (cfg_accept_unmasked (x_cfg x0)) (x_codec x0) w0) as [[rf c1] w1] eqn:ERF.
  pose proof (read_frame_view _ _ _ _ _ _ _ _ ERF) as HV.
  pose proof (read_frame_world _ _ _ _ _ _ _ _ ERF) as [Hwr [Hfl [p Hp]]].
  assert (Hsoft1 : soft w1).
  { destruct Hsoft0 as [S1 S2]. unfold soft. rewrite Hwr, Hfl. auto. }
  assert (Hview0 : cview (cfg_max_frame_size (x_cfg x0)) (role_eqb (x_role x0) Server)
                     (cfg_accept_unmasked (x_cfg x0)) (x_codec x0) w0 = map okf ms).
  { rewrite <- Hview. unfold rview, cview, x0. cbn [upd x_codec x_cfg x_role c_hdr c_in set_out].
    rewrite Hrds0. reflexivity. }
  assert (Hlen : (length (w_rds w1) <= length (w_rds w))%nat).
  { rewrite <- Hrds0, Hp, app_length. lia. }
  destruct rf as [[f|]|e|s|].
  - cbn [classify] in HV. rewrite Hview0 in HV.
    destruct ms as [|m rest]; [discriminate HV|]. cbn [map] in HV.
    injection HV as Hf Hrest. subst f.
    inversion Hok as [|? ? Hm Hrest_ok]; subst.
    apply rmf_plain_frame in ERF; [|exact Hs|exact Hi|exact Hm].
    destruct ERF as [x2 [E [Hs2 [Hi2 [Hr2 [Hc2 Hcd2]]]]]].
    rewrite E in H. inv H. splits; auto. right. exists m, rest. splits; auto.
    unfold rview. rewrite Hr2, Hc2. symmetry. exact Hrest.
  - cbn [classify] in HV. rewrite Hview0 in HV. exfalso.
    exact (okf_not_stop _ _ HV eq_refl).
  - destruct (classify (@RErr (option frame) e)) eqn:Ec.
    + destruct e as [| |k| | | |]; try discriminate Ec. destruct k; discriminate Ec.
    + pose proof (classify_wb _ Ec) as Ee. injection Ee as ->.
      destruct HV as [HV1 HV2].
      pose proof (read_frame_wouldblock_state _ _ _ _ _ _ _ ERF) as [chunks [Hsched _]].
      rewrite (rmf_wouldblock x0 _ _ _ Hs ERF) in H. inv H.
      cbn [x_state x_incomplete x_role x_cfg set_state set_codec]. splits; auto. left. splits; auto.
      * unfold rview. cbn [x_state x_incomplete x_role x_cfg x_codec set_state set_codec].
        rewrite <- HV1. exact Hview0.
      * intros Hne. destruct Hsched as [Hsc|[_ Hnil]].
        -- rewrite <- Hrds0, Hsc, app_length. cbn [length]. lia.
        -- exfalso. rewrite (HV2 Hnil) in Hview0. destruct ms; [apply Hne; reflexivity|discriminate Hview0].
    + rewrite Hview0 in HV. exfalso. exact (okf_not_stop _ _ HV Ec).
  - cbn [classify] in HV. rewrite Hview0 in HV. exfalso.
    exact (okf_not_stop _ _ HV eq_refl).
  - cbn [classify] in HV. rewrite Hview0 in HV. exfalso.
    exact (okf_not_stop _ _ HV eq_refl).
Qed.

(* ------------------------------------------------------------------------------------------ *)
(** * 6. Successive reads; the reader theorem *)

Definition is_wb (o : op_result) : bool :=
  match o with ResMsg (RErr (EIo WouldBlock)) => true | _ => false end.
(* the results of a run of calls that are not WouldBlock *)
Definition delivered (rs : list (op_result * N)) : list op_result :=
  filter (fun o => negb (is_wb o)) (map fst rs).
Definition ok_msg (m : message) : op_result := ResMsg (ROk m).

Lemma reads_run n : forall x w ms rs x' w',
  x_state x = Active -> x_incomplete x = None -> soft w ->
  rview x w = map okf ms -> Forall (rd_ok (x_cfg x)) ms ->
  run_ops x (repeat OpRead n) w = (rs, x', w') ->
  exists k, (k <= length ms)%nat /\ delivered rs = map ok_msg (firstn k ms) /\
    ((length ms + length (w_rds w) <= n)%nat -> k = length ms) /\
    x_state x' = Active /\ x_incomplete x' = None /\ soft w' /\ rview x' w' = map okf (skipn k ms).
Proof.
  induction n as [|n IH]; intros x w ms rs x' w' Hs Hi Hsoft Hview Hok H.
  - cbn in H. inv H. exists 0%nat. cbn [firstn skipn map delivered filter]. splits; auto; lia.
  - cbn [repeat run_ops run_op] in H.
    destruct (read x w) as [[res x1] w1] eqn:ER.
    destruct (run_ops x1 (repeat OpRead n) w1) as [[rs2 x2] w2] eqn:ERS. inv H.
    apply (read_step _ _ _ _ _ _ Hs Hi Hsoft Hview Hok) in ER.
    destruct ER as [Hs1 [Hi1 [Hr1 [Hc1 [Hsoft1 Hcase]]]]].
    rewrite <- Hc1 in Hok.
    destruct Hcase as [[-> [Hv1 Hlt]]|[m [rest [-> [-> [Hv1 Hle]]]]]].
    + apply (IH _ _ _ _ _ _ Hs1 Hi1 Hsoft1 Hv1 Hok) in ERS.
      destruct ERS as [k [Hk [Hd [Hall Hinv]]]]. exists k. splits; auto; try tauto.
      intros Hn. destruct ms as [|m ms]; [cbn [length] in *; lia|].
      apply Hall. assert (X : m :: ms <> []) by discriminate. specialize (Hlt X). lia.
    + inversion Hok as [|? ? Hm Hrest]; subst.
      apply (IH _ _ _ _ _ _ Hs1 Hi1 Hsoft1 Hv1 Hrest) in ERS.
      destruct ERS as [k [Hk [Hd [Hall Hinv]]]]. exists (S k). cbn [length firstn skipn map].
      splits; try tauto; try lia.
      unfold delivered in *. cbn [map fst filter is_wb negb]. rewrite Hd. reflexivity.
Qed.

(* a schedule that only delivers data or answers WouldBlock (no end of file, no hard error) *)
Definition live_rd (o : rd_out) : Prop :=
  match o with RdData (_ :: _) => True | RdErr WouldBlock => True | _ => False end.
Definition rd_payload (o : rd_out) : bytes := match o with RdData bs => bs | _ => [] end.

Lemma live_sched_data rds : Forall live_rd rds -> sched_data rds = concat (map rd_payload rds).
Proof.
  induction 1 as [|o rds Ho _ IH]; [reflexivity|].
  destruct o as [[|b bs]| |[]]; cbn in Ho; try contradiction; cbn [sched_data map concat rd_payload];
    rewrite IH; reflexivity.
Qed.

Lemma live_sched_end rds : Forall live_rd rds -> sched_end rds = TSilence.
Proof.
  induction 1 as [|o rds Ho _ IH]; [reflexivity|].
  destruct o as [[|b bs]| |[]]; cbn in Ho; try contradiction; cbn [sched_end]; exact IH.
Qed.

Lemma rd_ok_frame cfg m : rd_ok cfg m ->
  plain m = true /\ blen (payload_of m) < two64 /\ blen (payload_of m) <= limit_of (cfg_max_frame_size cfg).
Proof. intros [[Hp [H64 _]] [Hf _]]. auto. Qed.

(* the view of a fresh reader on a stream that encodes [ms] *)
Lemma rview_new r part cfg x0 w0 ks ms :
  ctx_new (opp r) part cfg = Some x0 ->
  Forall live_rd (w_rds w0) ->
  part ++ concat (map rd_payload (w_rds w0)) = encode_all r ks ms ->
  Forall (rd_ok cfg) ms ->
  rview x0 w0 = map okf ms.
Proof.
  intros Hn Hlive Hdata Hok. unfold ctx_new in Hn. destruct (config_valid cfg); [|discriminate Hn].
  inv Hn. unfold rview, cview. cbn [x_cfg x_role x_codec c_hdr c_in set_limits codec_new].
  rewrite (live_sched_data _ Hlive), (live_sched_end _ Hlive), Hdata.
  rewrite <- (app_nil_r (encode_all r ks ms)), frames_ref_encode_all.
  - rewrite frames_ref_nil. apply app_nil_r.
  - eapply Forall_impl; [|exact Hok]. intros m. apply rd_ok_frame.
Qed.

Theorem reader_run r part cfg x0 w0 ks ms n rs x w :
  ctx_new (opp r) part cfg = Some x0 ->
  Forall live_rd (w_rds w0) ->
  part ++ concat (map rd_payload (w_rds w0)) = encode_all r ks ms ->
  soft w0 -> Forall (rd_ok cfg) ms ->
  run_ops x0 (repeat OpRead n) w0 = (rs, x, w) ->
  (exists k, delivered rs = map ok_msg (firstn k ms)) /\
  ((length ms + length (w_rds w0) <= n)%nat -> delivered rs = map ok_msg ms).
Proof.
  intros Hn Hlive Hdata Hsoft Hok H.
  pose proof (rview_new _ _ _ _ _ _ _ Hn Hlive Hdata Hok) as Hview.
  assert (Hx0 : x_state x0 = Active /\ x_incomplete x0 = None /\ x_cfg x0 = cfg).
  { unfold ctx_new in Hn. destruct (config_valid cfg); [|discriminate Hn]. inv Hn. auto. }
  destruct Hx0 as [Hs [Hi Hcfg]]. rewrite <- Hcfg in Hok.
  apply (reads_run _ _ _ _ _ _ _ Hs Hi Hsoft Hview Hok) in H.
  destruct H as [k [_ [Hd [Hall _]]]]. split; [exists k; exact Hd|].
  intros Hle. rewrite Hd, (Hall Hle), firstn_all. reflexivity.
Qed.

Lemma Forall_firstn {A} (P : A -> Prop) (j : nat) (l : list A) : Forall P l -> Forall P (firstn j l).
Proof.
  intros H. rewrite <- (firstn_skipn j l) in H. apply Forall_app in H. tauto.
Qed.

(* a reader that has received only a prefix of the stream: what it returns is a prefix of the messages *)
Theorem reader_prefix r part cfg x0 w0 ks ms more n rs x w :
  ctx_new (opp r) part cfg = Some x0 ->
  Forall live_rd (w_rds w0) ->
  (part ++ concat (map rd_payload (w_rds w0))) ++ more = encode_all r ks ms ->
  soft w0 -> Forall (rd_ok cfg) ms ->
  run_ops x0 (repeat OpRead n) w0 = (rs, x, w) ->
  exists k, delivered rs = map ok_msg (firstn k ms).
Proof.
  intros Hn Hlive Hdata Hsoft Hok H.
  assert (Hx0 : x_state x0 = Active /\ x_incomplete x0 = None /\ x_cfg x0 = cfg /\ x_role x0 = opp r /\
                c_hdr (x_codec x0) = None /\ c_in (x_codec x0) = part).
  { unfold ctx_new in Hn. destruct (config_valid cfg); [|discriminate Hn]. inv Hn. cbn. auto 10. }
  destruct Hx0 as [Hs [Hi [Hcfg [Hro [Hh Hin]]]]].
  destruct (frames_ref_prefix r (cfg_max_frame_size cfg) (cfg_accept_unmasked cfg) ms ks _ _
              (Forall_impl _ (rd_ok_frame cfg) Hok) Hdata) as [j Hj].
  assert (Hview : rview x0 w0 = map okf (firstn j ms)).
  { unfold rview, cview. rewrite Hcfg, Hro, Hh, Hin, (live_sched_data _ Hlive), (live_sched_end _ Hlive).
    exact Hj. }
  rewrite <- Hcfg in Hok.
  apply (reads_run _ _ _ _ _ _ _ Hs Hi Hsoft Hview (Forall_firstn _ j _ Hok)) in H.
  destruct H as [k [_ [Hd _]]]. exists (Nat.min k j). rewrite Hd, firstn_firstn. reflexivity.
Qed.

(* ------------------------------------------------------------------------------------------ *)
(** * 7. The round trip *)

(* One endpoint writes [ms] and flushes; the flush succeeded; the peer (opposite role, its own
   configuration, any already-read part, any segmentation of the bytes, WouldBlocks anywhere) reads. *)
Theorem roundtrip r cfgW partW ms xw0 ww0 rsw xw ww cfgR partR xr0 wr0 n rsr xr wr :
  ctx_new r partW cfgW = Some xw0 -> w_log ww0 = [] ->
  blen (encode_all r (w_keys ww0) ms) <= cfg_max_write_buffer_size cfgW ->
  run_ops xw0 (map OpWrite ms ++ [OpFlush]) ww0 = (rsw, xw, ww) ->
  last (map fst rsw) (ResBool false) = ResUnit (ROk tt) ->
  ctx_new (opp r) partR cfgR = Some xr0 ->
  Forall live_rd (w_rds wr0) ->
  partR ++ concat (map rd_payload (w_rds wr0)) = wire (w_log ww) ->
  soft wr0 -> Forall (rd_ok cfgR) ms ->
  run_ops xr0 (repeat OpRead n) wr0 = (rsr, xr, wr) ->
  (exists k, delivered rsr = map ok_msg (firstn k ms)) /\
  ((length ms + length (w_rds wr0) <= n)%nat -> delivered rsr = map ok_msg ms).
Proof.
  intros HnW Hl Hb HW Hflush HnR Hlive Hdata Hsoft Hok HR.
  assert (Hp : Forall (fun m => plain m = true) ms).
  { eapply Forall_impl; [|exact Hok]. intros m [[Hp _] _]. exact Hp. }
  destruct (writer_run _ _ _ _ _ _ _ _ _ HnW Hl Hp Hb HW) as [_ [Hwire _]].
  rewrite (Hwire Hflush) in Hdata.
  exact (reader_run _ _ _ _ _ _ _ _ _ _ _ HnR Hlive Hdata Hsoft Hok HR).
Qed.

(* For EVERY writer oracle (hard errors included), every interleaving of writes and flushes, at the
   end of any prefix of the operations: a peer that has been handed any prefix of the bytes the
   transport accepted returns a prefix of the written messages — nothing added, altered or reordered. *)
Theorem roundtrip_prefix r cfgW partW ops xw0 ww0 rsw xw ww cfgR partR xr0 wr0 more n rsr xr wr :
  ctx_new r partW cfgW = Some xw0 -> w_log ww0 = [] ->
  Forall wop_ok ops ->
  blen (encode_all r (w_keys ww0) (written ops)) <= cfg_max_write_buffer_size cfgW ->
  run_ops xw0 ops ww0 = (rsw, xw, ww) ->
  ctx_new (opp r) partR cfgR = Some xr0 ->
  Forall live_rd (w_rds wr0) ->
  (partR ++ concat (map rd_payload (w_rds wr0))) ++ more = wire (w_log ww) ->
  soft wr0 -> Forall (rd_ok cfgR) (written ops) ->
  run_ops xr0 (repeat OpRead n) wr0 = (rsr, xr, wr) ->
  exists k, delivered rsr = map ok_msg (firstn k (written ops)).
Proof.
  intros HnW Hl Hops Hb HW HnR Hlive Hdata Hsoft Hok HR.
  destruct (writer_ops _ _ _ _ _ _ _ _ _ HnW Hl Hops Hb HW) as [Hwire _].
  assert (Hd : (partR ++ concat (map rd_payload (w_rds wr0))) ++ (more ++ c_out (x_codec xw))
               = encode_all r (w_keys ww0) (written ops)).
  { rewrite app_assoc, Hdata. exact Hwire. }
  exact (reader_prefix _ _ _ _ _ _ _ _ _ _ _ _ HnR Hlive Hd Hsoft Hok HR).
Qed.

(* ------------------------------------------------------------------------------------------ *)
(** * 8. A transport that accepts everything: every call returns Ok

   [acc_wrs T k wrs]: the next k write calls each accept at least T bytes; [acc_fls k fls]: the next k
   flush calls succeed.  With T = the total encoded size every transport write takes the whole
   out_buffer. *)

Fixpoint acc_wrs (T : N) (k : nat) (wrs : list wr_out) : Prop :=
  match k with
  | O => True
  | S k' => match wrs with WrAccept n :: r => T <= n /\ acc_wrs T k' r | _ => False end
  end.
Fixpoint acc_fls (k : nat) (fls : list fl_out) : Prop :=
  match k with
  | O => True
  | S k' => match fls with FlOk :: r => acc_fls k' r | _ => False end
  end.

Lemma acc_wrs_S T k wrs : acc_wrs T (S k) wrs -> acc_wrs T k wrs.
Proof.
  revert wrs. induction k as [|k IH]; intros wrs H; [exact I|].
  cbn [acc_wrs] in *. destruct wrs as [|[n|e] r]; try contradiction.
  destruct H as [Hn H]. split; [exact Hn|]. apply IH. exact H.
Qed.

Lemma write_out_loop_nil wrs log : write_out_loop wrs [] log = (ROk tt, [], wrs, log).
Proof. destruct wrs; reflexivity. Qed.

Lemma write_out_buffer_accepting T k c w :
  blen (c_out c) <= T -> acc_wrs T (S k) (w_wrs w) ->
  exists w', write_out_buffer c w = (ROk tt, set_out c [], w') /\
    acc_wrs T k (w_wrs w') /\ w_fls w' = w_fls w.
Proof.
  intros Hb Ha. unfold write_out_buffer. destruct (c_out c) as [|b o] eqn:Eo.
  - destruct (w_wrs w) as [|[n|e] r] eqn:Ew; cbn [acc_wrs] in Ha; try contradiction.
    rewrite write_out_loop_nil. eexists. split; [reflexivity|]. cbn [w_wrs w_fls]. split; [|reflexivity].
    apply acc_wrs_S. cbn [acc_wrs]. exact Ha.
  - destruct (w_wrs w) as [|[n|e] r] eqn:Ew; cbn [acc_wrs] in Ha; try contradiction.
    destruct Ha as [Hn Ha]. cbn [write_out_loop].
    assert (Hmin : N.min n (blen (b :: o)) = blen (b :: o)) by lia.
    rewrite Hmin. replace (blen (b :: o) =? 0) with false by (symmetry; rewrite blen_cons; lia).
    assert (Hd : dropN (blen (b :: o)) (b :: o) = []).
    { rewrite <- (app_nil_r (b :: o)) at 2. apply dropN_app_blen. }
    rewrite Hd, write_out_loop_nil. eexists. split; [reflexivity|]. cbn [w_wrs w_fls]. auto.
Qed.

Lemma after_key_fls r w : w_fls (after_key r w) = w_fls w.
Proof. destruct r; [reflexivity|]. unfold after_key, w_next_key. destruct (w_keys w); reflexivity. Qed.

Lemma acc_fls_S k fls : acc_fls (S k) fls -> acc_fls k fls.
Proof.
  revert fls. induction k as [|k IH]; intros fls H; [exact I|].
  cbn [acc_fls] in *. destruct fls as [|[|e] r]; try contradiction. apply IH. exact H.
Qed.

(* an empty out_buffer costs no transport write *)
Lemma write_out_buffer_empty c w :
  c_out c = [] ->
  exists w', write_out_buffer c w = (ROk tt, set_out c [], w') /\ w_wrs w' = w_wrs w /\ w_fls w' = w_fls w.
Proof.
  intros Eo. unfold write_out_buffer. rewrite Eo, write_out_loop_nil.
  eexists. split; [reflexivity|]. cbn [w_wrs w_fls]. auto.
Qed.

(* besides Ok: either the frame stayed in out_buffer and no transport write was used, or out_buffer
   is empty again *)
Lemma buffer_frame_accepting T k x f w :
  x_state x = Active ->
  frame_len (sent_frame (x_role x) w f) + blen (c_out (x_codec x)) <= T -> T <= c_max_out (x_codec x) ->
  acc_wrs T (S k) (w_wrs w) ->
  exists x' w', buffer_frame x f w = (ROk tt, x', w') /\ acc_wrs T k (w_wrs w') /\ w_fls w' = w_fls w /\
    blen (c_out (x_codec x')) <= T /\ (acc_wrs T (S k) (w_wrs w') \/ c_out (x_codec x') = []).
Proof.
  intros Hs Hfit HT Ha. rewrite buffer_frame_unfold. cbv zeta.
  set (f1 := sent_frame (x_role x) w f) in *. set (w1 := after_key (x_role x) w).
  assert (Ha1 : acc_wrs T (S k) (w_wrs w1)) by (unfold w1; rewrite after_key_wrs; exact Ha).
  assert (Hf1 : w_fls w1 = w_fls w) by apply after_key_fls.
  unfold codec_buffer_frame.
  replace (c_max_out (x_codec x) <? frame_len f1 + blen (c_out (x_codec x))) with false by (symmetry; lia).
  rewrite frame_format_into_buf_eq. cbn [c_out set_out c_write_len].
  destruct (c_write_len (x_codec x) <? blen (c_out (x_codec x) ++ frame_format f1)).
  - destruct (write_out_buffer_accepting T k (set_out (x_codec x) (c_out (x_codec x) ++ frame_format f1))
                (w_emit w1 (EvQueue f1))) as [w' [E [Hacc Hfl]]].
    + cbn [c_out set_out]. rewrite blen_app, <- frame_len_exact. lia.
    + exact Ha1.
    + rewrite E. cbn [check_connection_reset]. eexists. eexists. split; [reflexivity|].
      split; [exact Hacc|]. split; [rewrite Hfl; exact Hf1|].
      cbn [x_codec set_state set_codec c_out set_out]. rewrite blen_nil. split; [lia|right; reflexivity].
  - cbn [check_connection_reset]. eexists. eexists. split; [reflexivity|].
    cbn [w_wrs w_fls w_emit]. split; [apply acc_wrs_S; exact Ha1|]. split; [exact Hf1|].
    cbn [x_codec set_state set_codec c_out set_out]. split; [|left; exact Ha1].
    rewrite blen_app, <- frame_len_exact. lia.
Qed.

(* flush over an accepting transport; an empty out_buffer needs no transport write *)
Lemma flush_accepting_gen T k x w r x' w' :
  x_state x = Active -> x_additional x = None ->
  blen (c_out (x_codec x)) <= T ->
  acc_wrs T k (w_wrs w) -> (acc_wrs T (S k) (w_wrs w) \/ c_out (x_codec x) = []) ->
  acc_fls (S k) (w_fls w) ->
  flush x w = (r, x', w') ->
  r = ROk tt /\ x_unflushed x' = false /\ c_out (x_codec x') = [] /\
  acc_wrs T k (w_wrs w') /\ acc_fls k (w_fls w').
Proof.
  intros Hs Had Hb Ha0 Ha Hf H. unfold flush in H. rewrite (write_none_none _ _ Hs Had) in H.
  assert (E : exists w1, write_out_buffer (x_codec x) w = (ROk tt, set_out (x_codec x) [], w1) /\
                acc_wrs T k (w_wrs w1) /\ w_fls w1 = w_fls w).
  { destruct Ha as [Ha|Ho].
    - exact (write_out_buffer_accepting T k (x_codec x) w Hb Ha).
    - destruct (write_out_buffer_empty (x_codec x) w Ho) as [w1 [E [Hw Hfl]]].
      exists w1. rewrite Hw. auto. }
  destruct E as [w1 [E [Hacc Hfl]]].
  rewrite E in H. unfold w_flush in H. rewrite Hfl in H.
  destruct (w_fls w) as [|[|e] fr]; cbn [acc_fls] in Hf; try contradiction.
  inv H. cbn. auto.
Qed.

(* a user write over an accepting transport.  A pong is moved from additional_send into out_buffer by
   its own write call, which sets unflushed_additional and does not flush; the next write (or flush)
   then flushes.  So a write costs at most one transport write and at most one transport flush. *)
Lemma write_plain_accepting T k x m w r x' w' :
  x_state x = Active -> x_additional x = None -> plain m = true ->
  frame_len (sent_frame (x_role x) w (frame_of m)) + blen (c_out (x_codec x)) <= T ->
  T <= c_max_out (x_codec x) ->
  acc_wrs T (S k) (w_wrs w) -> acc_fls (S k) (w_fls w) ->
  write x m w = (r, x', w') ->
  r = ROk tt /\ acc_wrs T k (w_wrs w') /\ acc_fls k (w_fls w') /\
  (x_unflushed x = false ->
   w_fls w' = w_fls w /\ x_unflushed x' = match m with MPong _ => true | _ => false end).
Proof.
  intros Hs Had Hp Hfit HT Ha Hf H.
  unfold write in H. rewrite Hs in H. cbn [is_terminated is_active negb] in H. cbv beta iota zeta in H.
  assert (Hdata : forall f, f = frame_of m ->
    (let '(r0, x1, w1) := write_ x (Some f) w in
     match r0 with
     | ROk true => flush x1 w1
     | ROk false => (ROk tt, x1, w1)
     | RErr e => (RErr e, x1, w1)
     | RPanic s => (RPanic s, x1, w1)
     | ROutOfFuel => (ROutOfFuel, x1, w1)
     end) = (r, x', w') ->
    r = ROk tt /\ acc_wrs T k (w_wrs w') /\ acc_fls k (w_fls w') /\
    (x_unflushed x = false -> w_fls w' = w_fls w /\ x_unflushed x' = false)).
  { intros f -> HD. unfold write_ in HD.
    destruct (buffer_frame_accepting T k x (frame_of m) w Hs Hfit HT Ha)
      as [x0 [w0 [EB [Hacc [Hfl [Hb0 Hbud]]]]]].
    pose proof (buffer_frame_gen _ _ _ _ _ _ Hs EB) as G. cbv zeta in G. destruct G as [Hx0 _].
    rewrite Had in Hx0. remember (c_out (x_codec x0)) as o eqn:Eo.
    rewrite EB in HD. rewrite Hx0 in HD. cbn [x_additional x_unflushed x_role x_state upd] in HD.
    rewrite Hs in HD. cbn [closing_done] in HD. rewrite Bool.andb_false_r in HD. cbn [andb] in HD.
    destruct (x_unflushed x) eqn:Eu.
    - apply (flush_accepting_gen T k) in HD.
      + destruct HD as [-> [_ [_ [Ha' Hf']]]]. splits; auto. intros X; discriminate X.
      + exact Hs.
      + reflexivity.
      + cbn [x_codec upd c_out set_out]. exact Hb0.
      + exact Hacc.
      + cbn [x_codec upd c_out set_out]. exact Hbud.
      + rewrite Hfl. exact Hf.
    - inv HD. cbn [x_unflushed upd]. splits; auto. rewrite Hfl. apply acc_fls_S. exact Hf. }
  destruct m as [d|d|d|d|c|f]; try discriminate Hp.
  - apply (Hdata _ eq_refl). exact H.
  - apply (Hdata _ eq_refl). exact H.
  - apply (Hdata _ eq_refl). exact H.
  - unfold set_additional in H. rewrite Had in H. unfold write_ in H. cbv beta iota zeta in H.
    cbn [x_additional set_additional_raw] in H.
    set (xa := set_additional_raw (set_additional_raw x (Some (frame_pong d))) None) in *.
    destruct (buffer_frame_accepting T k xa (frame_pong d) w Hs Hfit HT Ha) as [x0 [w0 [EB [Hacc [Hfl _]]]]].
    pose proof (buffer_frame_gen xa _ _ _ _ _ Hs EB) as G. cbv zeta in G. destruct G as [Hx0 _].
    cbn [xa x_additional x_unflushed set_additional_raw] in Hx0.
    remember (c_out (x_codec x0)) as o eqn:Eo. clear Eo.
    rewrite EB in H. rewrite Hx0 in H.
    cbn [x_additional x_unflushed x_role x_state upd xa set_additional_raw set_unflushed] in H.
    rewrite Hs in H. cbn [closing_done] in H. rewrite Bool.andb_false_r in H. cbn [andb] in H.
    inv H. cbn [x_unflushed upd set_additional_raw set_unflushed]. splits; auto.
    rewrite Hfl. apply acc_fls_S. exact Hf.
Qed.

Lemma flush_accepting T k x w r x' w' :
  x_state x = Active -> x_additional x = None ->
  blen (c_out (x_codec x)) <= T -> acc_wrs T (S k) (w_wrs w) -> acc_fls (S k) (w_fls w) ->
  flush x w = (r, x', w') ->
  r = ROk tt /\ x_unflushed x' = false /\ c_out (x_codec x') = [] /\
  acc_wrs T k (w_wrs w') /\ acc_fls k (w_fls w').
Proof.
  intros Hs Had Hb Ha Hf H.
  exact (flush_accepting_gen T k _ _ _ _ _ Hs Had Hb (acc_wrs_S _ _ _ Ha) (or_introl Ha) Hf H).
Qed.

Definition res_ok_unit (p : op_result * N) : Prop := fst p = ResUnit (ROk tt).

Lemma wops_accepting T ops : forall x w rs x' w',
  x_state x = Active -> x_additional x = None -> Forall wop_ok ops ->
  wp_inv (c_out (x_codec x)) (w_log w) ->
  blen (enc (queued (w_log w))) + blen (enc (frames_all (x_role x) (w_keys w) (written ops))) <= T ->
  T <= c_max_out (x_codec x) ->
  acc_wrs T (length ops) (w_wrs w) -> acc_fls (length ops) (w_fls w) ->
  run_ops x ops w = (rs, x', w') ->
  Forall res_ok_unit rs.
Proof.
  induction ops as [|op ops IH]; intros x w rs x' w' Hs Had Hp Hi Hb HT Ha Hf H.
  - cbn in H. inv H. constructor.
  - inversion Hp as [|? ? Hpm Hps]; subst.
    assert (Hout : blen (c_out (x_codec x)) <= blen (enc (queued (w_log w)))).
    { unfold wp_inv in Hi. rewrite <- Hi, blen_app. lia. }
    destruct op as [|m| | | | |]; try contradiction.
    + cbn [run_ops run_op] in H.
      destruct (write x m w) as [[r1 x1] w1] eqn:EW.
      destruct (run_ops x1 ops w1) as [[rs2 x2] w2] eqn:ER. inv H.
      cbn [wop_ok] in Hpm. cbn [written length] in *.
      cbn [frames_all] in Hb. rewrite <- sent_frame_wire, enc_cons, blen_app in Hb.
      set (f1 := sent_frame (x_role x) w (frame_of m)) in *.
      assert (Hfit : frame_len f1 + blen (c_out (x_codec x)) <= T) by (rewrite frame_len_exact; lia).
      assert (Hfit' : frame_len f1 + blen (c_out (x_codec x)) <= c_max_out (x_codec x)) by lia.
      pose proof (write_pstep _ _ _ _ _ _ EW) as P.
      pose proof P as [[[evs [El Ht]] [Hmx _]] [_ Hro]].
      assert (Hi1 : wp_inv (c_out (x_codec x1)) (w_log w1)).
      { rewrite El. eapply wp_inv_step; eassumption. }
      pose proof (write_plain_accepting T _ _ _ _ _ _ _ Hs Had Hpm Hfit HT Ha Hf EW) as [-> [Ha1 [Hf1 _]]].
      apply (write_plain_step _ _ _ _ _ _ Hs Had Hpm Hfit') in EW. fold f1 in EW.
      destruct EW as [_ [Hs1 [Had1 [Hq1 Hk1]]]].
      constructor; [reflexivity|].
      apply (IH _ _ _ _ _ Hs1 Had1 Hps Hi1) in ER; auto.
      * rewrite Hro, Hk1, frames_all_after_key, Hq1, enc_app, blen_app. unfold enc at 2. cbn [map concat].
        rewrite app_nil_r. lia.
      * lia.
    + cbn [run_ops run_op] in H.
      destruct (flush x w) as [[r1 x1] w1] eqn:EF.
      destruct (run_ops x1 ops w1) as [[rs2 x2] w2] eqn:ER. inv H.
      cbn [written length] in *.
      pose proof (flush_pstep _ _ _ _ _ EF) as [[[evs [El Ht]] _] _].
      assert (Hi1 : wp_inv (c_out (x_codec x1)) (w_log w1)).
      { rewrite El. eapply wp_inv_step; eassumption. }
      assert (HoutT : blen (c_out (x_codec x)) <= T) by lia.
      pose proof (flush_accepting T _ _ _ _ _ _ Hs Had HoutT Ha Hf EF) as [-> [Hu1 [_ [Ha1 Hf1]]]].
      apply (flush_none _ _ _ _ _ Hs Had) in EF.
      destruct EF as [_ [[o [u ->]] [Hq1 Hk1]]].
      constructor; [reflexivity|].
      apply (IH (upd x o None u) _ _ _ _ Hs eq_refl Hps Hi1) in ER; auto.
      cbn [x_role x_codec upd]. rewrite Hq1, Hk1. exact Hb.
Qed.

(* Over a transport that accepts everything (each of the first |ops| write calls takes at least the
   total encoded size, each of the first |ops| flush calls succeeds), every write and every flush
   returns Ok. *)
Theorem writer_accepting r part cfg ops x0 w0 rs x w :
  ctx_new r part cfg = Some x0 -> w_log w0 = [] ->
  Forall wop_ok ops ->
  blen (encode_all r (w_keys w0) (written ops)) <= cfg_max_write_buffer_size cfg ->
  acc_wrs (blen (encode_all r (w_keys w0) (written ops))) (length ops) (w_wrs w0) ->
  acc_fls (length ops) (w_fls w0) ->
  run_ops x0 ops w0 = (rs, x, w) ->
  Forall res_ok_unit rs.
Proof.
  intros Hn Hl Hp Hb Ha Hf H.
  apply ctx_new_spec in Hn. destruct Hn as [[Hmx _] [Ho [Hcfg [Hro [Hs [Had Hu]]]]]].
  assert (Hi0 : wp_inv (c_out (x_codec x0)) (w_log w0)).
  { unfold wp_inv. rewrite Ho, Hl. reflexivity. }
  refine (wops_accepting _ ops _ _ _ _ _ Hs Had Hp Hi0 _ _ Ha Hf H).
  - rewrite Hl. cbn [queued]. unfold enc at 1. cbn [map concat]. rewrite blen_nil.
    rewrite <- encode_all_enc, Hro. lia.
  - rewrite Hmx, Hcfg. exact Hb.
Qed.

Lemma last_res_ok rs d : rs <> [] -> Forall res_ok_unit rs -> last (map fst rs) d = ResUnit (ROk tt).
Proof.
  induction rs as [|p rs IH]; intros Hne H; [contradiction|].
  inversion H as [|? ? Hp Hrs]; subst. destruct rs as [|q rs]; [exact Hp|].
  cbn [map last] in *. apply IH; [discriminate|exact Hrs].
Qed.

(* the round trip over an accepting writer transport: no hypothesis on results is left *)
Theorem roundtrip_accepting r cfgW partW ms xw0 ww0 rsw xw ww cfgR partR xr0 wr0 n rsr xr wr :
  ctx_new r partW cfgW = Some xw0 -> w_log ww0 = [] ->
  blen (encode_all r (w_keys ww0) ms) <= cfg_max_write_buffer_size cfgW ->
  acc_wrs (blen (encode_all r (w_keys ww0) ms)) (S (length ms)) (w_wrs ww0) ->
  acc_fls (S (length ms)) (w_fls ww0) ->
  run_ops xw0 (map OpWrite ms ++ [OpFlush]) ww0 = (rsw, xw, ww) ->
  ctx_new (opp r) partR cfgR = Some xr0 ->
  Forall live_rd (w_rds wr0) ->
  partR ++ concat (map rd_payload (w_rds wr0)) = wire (w_log ww) ->
  soft wr0 -> Forall (rd_ok cfgR) ms ->
  run_ops xr0 (repeat OpRead n) wr0 = (rsr, xr, wr) ->
  Forall res_ok_unit rsw /\
  (exists k, delivered rsr = map ok_msg (firstn k ms)) /\
  ((length ms + length (w_rds wr0) <= n)%nat -> delivered rsr = map ok_msg ms).
Proof.
  intros HnW Hl Hb Ha Hf HW HnR Hlive Hdata Hsoft Hok HR.
  assert (Hp : Forall (fun m => plain m = true) ms).
  { eapply Forall_impl; [|exact Hok]. intros m [[Hp _] _]. exact Hp. }
  assert (Hw : written (map OpWrite ms ++ [OpFlush]) = ms).
  { rewrite written_app, written_writes. cbn [written]. apply app_nil_r. }
  assert (Hops : Forall wop_ok (map OpWrite ms ++ [OpFlush])).
  { apply Forall_app. split; [|repeat constructor].
    apply Forall_forall. intros o Ho. apply in_map_iff in Ho. destruct Ho as [m [<- Hm]].
    rewrite Forall_forall in Hp. exact (Hp m Hm). }
  assert (Hlen : length (map OpWrite ms ++ [OpFlush]) = S (length ms)).
  { rewrite app_length, map_length. cbn [length]. lia. }
  assert (Hall : Forall res_ok_unit rsw).
  { apply (writer_accepting r partW cfgW _ xw0 ww0 rsw xw ww HnW Hl Hops); rewrite ?Hw, ?Hlen; assumption. }
  split; [exact Hall|].
  assert (Hne : rsw <> []).
  { pose proof (run_ops_length _ _ _ _ _ _ HW) as L. rewrite Hlen in L. destruct rsw; [discriminate L|discriminate]. }
  exact (roundtrip _ _ _ _ _ _ _ _ _ _ _ _ _ _ _ _ _ HnW Hl Hb HW (last_res_ok _ _ Hne Hall)
           HnR Hlive Hdata Hsoft Hok HR).
Qed.

(* ------------------------------------------------------------------------------------------ *)
(** * 9. Boolean checkers for the hypotheses (used by the examples in props/C01.v) and the
      length-encoding boundaries as instances *)

Definition live_rdb (o : rd_out) : bool :=
  match o with RdData (_ :: _) => true | RdErr WouldBlock => true | _ => false end.
Definition soft_wrb (o : wr_out) : bool :=
  match o with WrAccept n => 0 <? n | WrErr WouldBlock => true | _ => false end.
Definition soft_flb (o : fl_out) : bool :=
  match o with FlOk => true | FlErr WouldBlock => true | _ => false end.
Definition softb (w : world) : bool := forallb soft_wrb (w_wrs w) && forallb soft_flb (w_fls w).
Definition wf_msgb (m : message) : bool :=
  plain m && (blen (payload_of m) <? two64) &&
  match m with MText d => is_utf8 d | MPing d | MPong d => blen d <=? 125 | _ => true end.
Definition fitsb (cfg : config) (m : message) : bool :=
  (blen (payload_of m) <=? limit_of (cfg_max_frame_size cfg)) &&
  match m with MText d | MBinary d => blen d <=? limit_of (cfg_max_message_size cfg) | _ => true end.
Definition rd_okb (cfg : config) (m : message) : bool := wf_msgb m && fitsb cfg m.

Lemma forallb_Forall {A} (f : A -> bool) (P : A -> Prop) (l : list A) :
  (forall a, f a = true -> P a) -> forallb f l = true -> Forall P l.
Proof.
  intros H Hl. rewrite forallb_forall in Hl. apply Forall_forall. intros a Ha. apply H, Hl, Ha.
Qed.

Lemma live_rdb_ok rds : forallb live_rdb rds = true -> Forall live_rd rds.
Proof.
  apply forallb_Forall. intros [[|b bs]| |[]]; cbn; intros H; try discriminate H; exact I.
Qed.

Lemma softb_ok w : softb w = true -> soft w.
Proof.
  unfold softb, soft. intros H. apply Bool.andb_true_iff in H. destruct H as [H1 H2]. split.
  - revert H1. apply forallb_Forall. intros [n|[]]; cbn; intros H; try discriminate H; try reflexivity. lia.
  - revert H2. apply forallb_Forall. intros [|[]]; cbn; intros H; try discriminate H; try reflexivity; try exact I.
Qed.

Lemma rd_okb_ok cfg ms : forallb (rd_okb cfg) ms = true -> Forall (rd_ok cfg) ms.
Proof.
  apply forallb_Forall. intros m H. unfold rd_okb, wf_msgb, fitsb in H.
  repeat (apply Bool.andb_true_iff in H; destruct H as [H ?]).
  unfold rd_ok, wf_msg, fits. repeat split; try assumption; try lia.
  - destruct m; try exact I; try assumption; lia.
  - destruct m; try exact I; lia.
Qed.

(* payload lengths are universally quantified in the theorems; for the record, the boundaries of
   the three length encodings as instances (any role, byte value, keys, pre-read part, schedule) *)
Definition nolimit (cfg : config) : Prop := cfg_max_message_size cfg = None /\ cfg_max_frame_size cfg = None.

Lemma rd_ok_binary_nolimit cfg len b :
  nolimit cfg -> len < two64 -> rd_ok cfg (MBinary (repeat b (N.to_nat len))).
Proof.
  intros [H1 H2] Hl. unfold rd_ok, wf_msg, fits, payload_of. rewrite H1, H2.
  cbn [plain frame_of frame_message f_payload limit_of]. unfold blen. rewrite repeat_length, N2Nat.id.
  unfold two64, u64_max in *. repeat split; try exact Hl; lia.
Qed.

Theorem boundary_lengths len :
  In len [0; 125; 126; 65535; 65536] ->
  forall r b part cfg x0 w0 ks n rs x w,
  nolimit cfg ->
  ctx_new (opp r) part cfg = Some x0 ->
  Forall live_rd (w_rds w0) ->
  part ++ concat (map rd_payload (w_rds w0)) = encode_all r ks [MBinary (repeat b (N.to_nat len))] ->
  soft w0 ->
  (1 + length (w_rds w0) <= n)%nat ->
  run_ops x0 (repeat OpRead n) w0 = (rs, x, w) ->
  delivered rs = [ok_msg (MBinary (repeat b (N.to_nat len)))].
Proof.
  intros Hin r b part cfg x0 w0 ks n rs x w Hcfg Hn Hlive Hdata Hsoft Hle H.
  assert (Hl : len < two64).
  { cbn [In] in Hin. unfold two64. repeat (destruct Hin as [<-|Hin]; [reflexivity|]). contradiction. }
  refine (proj2 (reader_run r part cfg x0 w0 ks _ n rs x w Hn Hlive Hdata Hsoft _ H) Hle).
  constructor; [|constructor]. exact (rd_ok_binary_nolimit cfg len b Hcfg Hl).
Qed.
