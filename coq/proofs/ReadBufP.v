(* proofs/ReadBufP.v — ReadBuffer (ReadBuf.v: storage + read position) refines the plain FIFO of bytes.
     rb_abs rb  = the bytes behind the position (what has not been consumed yet)
     rb_wf rb   = the position does not stand past the end of the storage
     fifo_run   = the machine of ReadBuf.rb_run replayed on a plain byte list *)
From TungModel Require Import Base World ReadBuf.
From Coq Require Import Lia ZifyBool ZifyNat ZifyN.

Arguments N.add : simpl never.
Arguments N.sub : simpl never.
Arguments N.leb : simpl never.

Definition rb_abs (rb : rbuf) : bytes := dropN (rb_pos rb) (rb_storage rb).
Definition rb_wf (rb : rbuf) : Prop := rb_pos rb <= blen (rb_storage rb).

(* the abstract machine: same operations, same transport script, state = a byte list *)
Fixpoint fifo_run (cs : N) (buf : bytes) (ops : list rb_op) (rds : list rd_out) : list rb_out * option bytes :=
  match ops with
  | [] => ([], Some buf)
  | o :: rest =>
      match o with
      | RbRead =>
          match rds with
          | [] => let '(outs, fin) := fifo_run cs buf rest [] in
                  (RbN (RErr (EIo WouldBlock)) :: outs, fin)
          | RdData offered :: rds' =>
              let got := takeN cs offered in
              let rds'' := match dropN cs offered with [] => rds' | k => RdData k :: rds' end in
              let '(outs, fin) := fifo_run cs (buf ++ got) rest rds'' in
              (RbN (ROk (blen got)) :: outs, fin)
          | RdEof :: rds' =>
              let '(outs, fin) := fifo_run cs buf rest rds' in (RbN (ROk 0) :: outs, fin)
          | RdErr k :: rds' =>
              let '(outs, fin) := fifo_run cs buf rest rds' in (RbN (RErr (EIo k)) :: outs, fin)
          end
      | RbAdvance n =>
          if n <=? blen buf
          then let '(outs, fin) := fifo_run cs (dropN n buf) rest rds in (RbN (ROk n) :: outs, fin)
          else ([RbPanic], None)
      | RbChunk => let '(outs, fin) := fifo_run cs buf rest rds in (RbBytes buf :: outs, fin)
      | RbRemaining => let '(outs, fin) := fifo_run cs buf rest rds in (RbN (ROk (blen buf)) :: outs, fin)
      end
  end.

(* ---------------------------------------------------------------------------------------------- *)
(* small list facts on takeN / dropN / blen *)

Lemma blen_dropN : forall (A : Type) n (l : list A), blen (dropN n l) = blen l - n.
Proof. intros A n l. unfold blen, dropN. rewrite skipn_length. lia. Qed.

Lemma blen_takeN_le : forall (A : Type) n (l : list A), blen (takeN n l) <= n.
Proof. intros A n l. unfold blen, takeN. rewrite firstn_length. lia. Qed.

Lemma dropN_0 : forall (A : Type) (l : list A), dropN 0 l = l.
Proof. intros A l. reflexivity. Qed.

Lemma skipn_add : forall (A : Type) (a b : nat) (l : list A), skipn (a + b) l = skipn b (skipn a l).
Proof.
  intros A a. induction a as [|a IH]; intros b l.
  - reflexivity.
  - destruct l as [|x l]; [cbn [Nat.add skipn]; destruct b; reflexivity|].
    cbn [Nat.add skipn]. apply IH.
Qed.

Lemma dropN_add : forall (A : Type) a b (l : list A), dropN (a + b) l = dropN b (dropN a l).
Proof.
  intros A a b l. unfold dropN. rewrite N2Nat.inj_add.
  apply skipn_add.
Qed.

Lemma takeN_all : forall (A : Type) n (l : list A), blen l <= n -> takeN n l = l.
Proof. intros A n l H. unfold takeN, blen in *. apply firstn_all2. lia. Qed.

Lemma dropN_all : forall (A : Type) n (l : list A), blen l <= n -> dropN n l = [].
Proof. intros A n l H. unfold dropN, blen in *. apply skipn_all2. lia. Qed.

Lemma blen_nil : forall (A : Type), blen (@nil A) = 0.
Proof. intros A. reflexivity. Qed.

(* ---------------------------------------------------------------------------------------------- *)
(* 1. constructors *)

Lemma rb_constructors :
  rb_abs rb_new = [] /\ rb_wf rb_new /\
  forall p, rb_abs (rb_from_partially_read p) = p /\ rb_wf (rb_from_partially_read p).
Proof.
  split; [reflexivity|]. split.
  - unfold rb_wf, rb_new, rb_from_partially_read. cbn [rb_pos rb_storage]. lia.
  - intros p. split; [reflexivity|].
    unfold rb_wf, rb_from_partially_read. cbn [rb_pos rb_storage]. lia.
Qed.

(* 2. observers *)

Lemma rb_remaining_abs : forall rb, rb_remaining rb = blen (rb_abs rb).
Proof. intros rb. unfold rb_remaining, rb_abs. rewrite blen_dropN. reflexivity. Qed.

Lemma rb_observers : forall rb, rb_wf rb ->
  rb_chunk rb = rb_abs rb /\ rb_remaining rb = blen (rb_abs rb) /\ rb_into_vec rb = rb_abs rb.
Proof.
  intros rb _. split; [reflexivity|]. split; [apply rb_remaining_abs|reflexivity].
Qed.

(* 3. advance *)

Lemma rb_advance_some : forall rb n, rb_wf rb -> n <= blen (rb_abs rb) ->
  exists rb', rb_advance rb n = Some rb' /\ rb_wf rb' /\ rb_abs rb' = dropN n (rb_abs rb).
Proof.
  intros rb n Hwf Hn. unfold rb_advance. rewrite rb_remaining_abs.
  destruct (n <=? blen (rb_abs rb)) eqn:E; [|lia].
  eexists. split; [reflexivity|]. split.
  - unfold rb_wf in *. cbn [rb_pos rb_storage].
    unfold rb_abs in Hn. rewrite blen_dropN in Hn. lia.
  - unfold rb_abs. cbn [rb_pos rb_storage]. apply dropN_add.
Qed.

Lemma rb_advance_none : forall rb n, blen (rb_abs rb) < n -> rb_advance rb n = None.
Proof.
  intros rb n Hn. unfold rb_advance. rewrite rb_remaining_abs.
  destruct (n <=? blen (rb_abs rb)) eqn:E; [lia|reflexivity].
Qed.

Lemma rb_advance_spec : forall rb n, rb_wf rb ->
  (n <= blen (rb_abs rb) ->
     exists rb', rb_advance rb n = Some rb' /\ rb_wf rb' /\ rb_abs rb' = dropN n (rb_abs rb)) /\
  (blen (rb_abs rb) < n -> rb_advance rb n = None).
Proof.
  intros rb n Hwf. split; [apply rb_advance_some; exact Hwf|apply rb_advance_none].
Qed.

(* 4. clean_up *)

Lemma rb_clean_up_spec : forall rb, rb_wf rb ->
  rb_wf (rb_clean_up rb) /\ rb_abs (rb_clean_up rb) = rb_abs rb /\
  rb_pos (rb_clean_up rb) = 0 /\ rb_storage (rb_clean_up rb) = rb_abs rb.
Proof.
  intros rb _. unfold rb_clean_up, rb_wf, rb_abs. cbn [rb_pos rb_storage].
  split; [lia|]. repeat split.
Qed.

Lemma rb_wf_clean_up : forall rb, rb_wf (rb_clean_up rb).
Proof. intros rb. unfold rb_clean_up, rb_wf. cbn [rb_pos rb_storage]. lia. Qed.

Lemma rb_abs_clean_up : forall rb, rb_abs (rb_clean_up rb) = rb_abs rb.
Proof. intros rb. reflexivity. Qed.

(* 5. read_from *)

Lemma rb_read_from_spec : forall cs rb r res rb' keep, rb_wf rb ->
  rb_read_from cs rb r = (res, rb', keep) ->
  rb_wf rb' /\
  match r with
  | RdData offered =>
      res = ROk (blen (takeN cs offered)) /\ rb_abs rb' = rb_abs rb ++ takeN cs offered /\
      blen (takeN cs offered) <= cs /\
      (match keep with
       | Some k => k = dropN cs offered /\ k <> []
       | None => dropN cs offered = []
       end)
  | RdEof => res = ROk 0 /\ rb_abs rb' = rb_abs rb /\ keep = None
  | RdErr k => res = RErr (EIo k) /\ rb_abs rb' = rb_abs rb /\ keep = None
  end.
Proof.
  intros cs rb r res rb' keep _ H. unfold rb_read_from in H.
  destruct r as [offered| |k]; inversion H; subst; clear H.
  - split; [unfold rb_wf; cbn [rb_pos rb_storage]; lia|].
    split; [reflexivity|]. split; [reflexivity|]. split; [apply blen_takeN_le|].
    destruct (dropN cs offered) as [|x rest] eqn:E.
    + reflexivity.
    + split; [reflexivity|discriminate].
  - split; [apply rb_wf_clean_up|]. repeat split.
  - split; [apply rb_wf_clean_up|]. repeat split.
Qed.

(* 6. history theorem *)

Definition fin_agree (fin : option rbuf) (fin' : option bytes) : Prop :=
  match fin, fin' with
  | Some rb', Some b' => rb_wf rb' /\ rb_abs rb' = b'
  | None, None => True
  | _, _ => False
  end.

Lemma rb_run_fifo_aux : forall cs ops rb rds, rb_wf rb ->
  fst (rb_run cs rb ops rds) = fst (fifo_run cs (rb_abs rb) ops rds) /\
  fin_agree (snd (rb_run cs rb ops rds)) (snd (fifo_run cs (rb_abs rb) ops rds)).
Proof.
  intros cs ops. induction ops as [|o rest IH]; intros rb rds Hwf.
  - cbn [rb_run fifo_run fst snd fin_agree]. split; [reflexivity|]. split; [exact Hwf|reflexivity].
  - destruct o as [|n| |].
    + (* RbRead *)
      destruct rds as [|r rds'].
      * cbn [rb_run fifo_run].
        specialize (IH (rb_clean_up rb) [] (rb_wf_clean_up rb)).
        rewrite rb_abs_clean_up in IH.
        destruct (rb_run cs (rb_clean_up rb) rest []) as [outs fin].
        destruct (fifo_run cs (rb_abs rb) rest []) as [outs' fin'].
        cbn [fst snd] in *. destruct IH as [IH1 IH2]. split; [f_equal; exact IH1|exact IH2].
      * destruct r as [offered| |k].
        -- cbn [rb_run fifo_run rb_read_from].
           set (rb1 := mkRbuf (rb_storage (rb_clean_up rb) ++ takeN cs offered) 0).
           assert (Hwf1 : rb_wf rb1) by (unfold rb_wf, rb1; cbn [rb_pos rb_storage]; lia).
           assert (Habs1 : rb_abs rb1 = rb_abs rb ++ takeN cs offered) by reflexivity.
           destruct (dropN cs offered) as [|x k] eqn:E.
           ++ specialize (IH rb1 rds' Hwf1). rewrite Habs1 in IH.
              destruct (rb_run cs rb1 rest rds') as [outs fin].
              destruct (fifo_run cs (rb_abs rb ++ takeN cs offered) rest rds') as [outs' fin'].
              cbn [fst snd] in *. destruct IH as [IH1 IH2]. split; [f_equal; exact IH1|exact IH2].
           ++ specialize (IH rb1 (RdData (x :: k) :: rds') Hwf1). rewrite Habs1 in IH.
              destruct (rb_run cs rb1 rest (RdData (x :: k) :: rds')) as [outs fin].
              destruct (fifo_run cs (rb_abs rb ++ takeN cs offered) rest (RdData (x :: k) :: rds'))
                as [outs' fin'].
              cbn [fst snd] in *. destruct IH as [IH1 IH2]. split; [f_equal; exact IH1|exact IH2].
        -- cbn [rb_run fifo_run rb_read_from].
           specialize (IH (rb_clean_up rb) rds' (rb_wf_clean_up rb)).
           rewrite rb_abs_clean_up in IH.
           destruct (rb_run cs (rb_clean_up rb) rest rds') as [outs fin].
           destruct (fifo_run cs (rb_abs rb) rest rds') as [outs' fin'].
           cbn [fst snd] in *. destruct IH as [IH1 IH2]. split; [f_equal; exact IH1|exact IH2].
        -- cbn [rb_run fifo_run rb_read_from].
           specialize (IH (rb_clean_up rb) rds' (rb_wf_clean_up rb)).
           rewrite rb_abs_clean_up in IH.
           destruct (rb_run cs (rb_clean_up rb) rest rds') as [outs fin].
           destruct (fifo_run cs (rb_abs rb) rest rds') as [outs' fin'].
           cbn [fst snd] in *. destruct IH as [IH1 IH2]. split; [f_equal; exact IH1|exact IH2].
    + (* RbAdvance *)
      cbn [rb_run fifo_run].
      destruct (n <=? blen (rb_abs rb)) eqn:E.
      * destruct (rb_advance_some rb n Hwf) as [rb1 [Hadv [Hwf1 Habs1]]]; [lia|].
        rewrite Hadv. specialize (IH rb1 rds Hwf1). rewrite Habs1 in IH.
        destruct (rb_run cs rb1 rest rds) as [outs fin].
        destruct (fifo_run cs (dropN n (rb_abs rb)) rest rds) as [outs' fin'].
        cbn [fst snd] in *. destruct IH as [IH1 IH2]. split; [f_equal; exact IH1|exact IH2].
      * rewrite (rb_advance_none rb n) by lia.
        cbn [fst snd fin_agree]. split; [reflexivity|exact I].
    + (* RbChunk *)
      cbn [rb_run fifo_run]. specialize (IH rb rds Hwf).
      destruct (rb_run cs rb rest rds) as [outs fin].
      destruct (fifo_run cs (rb_abs rb) rest rds) as [outs' fin'].
      cbn [fst snd] in *. destruct IH as [IH1 IH2]. split; [|exact IH2].
      change (rb_chunk rb) with (rb_abs rb). f_equal. exact IH1.
    + (* RbRemaining *)
      cbn [rb_run fifo_run]. specialize (IH rb rds Hwf).
      destruct (rb_run cs rb rest rds) as [outs fin].
      destruct (fifo_run cs (rb_abs rb) rest rds) as [outs' fin'].
      cbn [fst snd] in *. destruct IH as [IH1 IH2]. split; [|exact IH2].
      rewrite rb_remaining_abs. f_equal. exact IH1.
Qed.

Lemma rb_run_fifo : forall cs ops rb rds, rb_wf rb ->
  let '(outs, fin) := rb_run cs rb ops rds in
  let '(outs', fin') := fifo_run cs (rb_abs rb) ops rds in
  outs = outs' /\
  match fin, fin' with
  | Some rb', Some b' => rb_wf rb' /\ rb_abs rb' = b'
  | None, None => True
  | _, _ => False
  end.
Proof.
  intros cs ops rb rds Hwf. pose proof (rb_run_fifo_aux cs ops rb rds Hwf) as H.
  destruct (rb_run cs rb ops rds) as [outs fin].
  destruct (fifo_run cs (rb_abs rb) ops rds) as [outs' fin'].
  exact H.
Qed.

(* 7. no byte lost, none repeated: reads only, every chunk fits the scratch array *)

Lemma rb_reads_abs : forall cs chunks rb, rb_wf rb ->
  Forall (fun c => blen c <= cs) chunks ->
  exists rb', snd (rb_run cs rb (repeat RbRead (length chunks)) (map RdData chunks)) = Some rb' /\
              rb_wf rb' /\ rb_abs rb' = rb_abs rb ++ concat chunks.
Proof.
  intros cs chunks. induction chunks as [|c chunks IH]; intros rb Hwf Hall.
  - exists rb. cbn [length repeat map rb_run snd concat]. rewrite app_nil_r. repeat split; assumption.
  - inversion Hall as [|c0 l0 Hc Hrest]; subst.
    cbn [length repeat map rb_run rb_read_from concat].
    rewrite (dropN_all _ cs c Hc). rewrite (takeN_all _ cs c Hc).
    set (rb1 := mkRbuf (rb_storage (rb_clean_up rb) ++ c) 0).
    assert (Hwf1 : rb_wf rb1) by (unfold rb_wf, rb1; cbn [rb_pos rb_storage]; lia).
    assert (Habs1 : rb_abs rb1 = rb_abs rb ++ c) by reflexivity.
    destruct (IH rb1 Hwf1 Hrest) as [rb' [Hrun [Hwf' Habs']]].
    exists rb'.
    destruct (rb_run cs rb1 (repeat RbRead (length chunks)) (map RdData chunks)) as [outs fin].
    cbn [snd] in *. split; [exact Hrun|]. split; [exact Hwf'|].
    rewrite Habs', Habs1, app_assoc. reflexivity.
Qed.

Lemma rb_no_loss : forall cs part chunks,
  Forall (fun c => blen c <= cs) chunks ->
  exists rb',
    snd (rb_run cs (rb_from_partially_read part) (repeat RbRead (length chunks)) (map RdData chunks))
      = Some rb' /\
    rb_into_vec rb' = part ++ concat chunks.
Proof.
  intros cs part chunks Hall.
  destruct rb_constructors as [_ [_ Hc]]. destruct (Hc part) as [Habs Hwf].
  destruct (rb_reads_abs cs chunks _ Hwf Hall) as [rb' [Hrun [Hwf' Habs']]].
  exists rb'. split; [exact Hrun|].
  destruct (rb_observers rb' Hwf') as [_ [_ Hv]]. rewrite Hv, Habs', Habs. reflexivity.
Qed.
