(* proofs/PairFairP.v — C04, part 6: liveness under EVERY fair interleaving.
   The canonical two fair rounds of PairLiveP may be interleaved with any number of further "quiet"
   actions of either side (reads with any delivery granularity, flushes / close() calls over a transport
   whose write side blocks at will, can_read / can_write, drops): the handshake still completes.

   Plan of the proof:
   1. what one quiet call does to the out_buffer / unflushed flag / additional_send slot, beyond what
      PairStepP exports (facts J, CNT, fair read without the "out_buffer empty" precondition);
   2. one scheduled action with these extra facts (do_on_x, qstep);
   3. monotone quantities: told / dropped / not-Active, "settled" (QF), the weight still to be read (TW);
   4. a phase of one side (flush, n reads, drop, interleaved with anything quiet): push-out and drain;
   5. the four phases, the explicit bound, the reachable-run form. *)
From TungModel Require Import Base Coding Mask Header Frame Utf8 World Message Codec Protocol Pair.
From TungModel.proofs Require Import HeaderP MaskP CodecReadP WritePathP CloseP PairCodecP PairStepP PairInvP PairP PairLiveP.
From Coq Require Import Arith Lia ZifyBool ZifyNat ZifyN.

Arguments N.add : simpl never.
Arguments N.mul : simpl never.
Arguments N.sub : simpl never.
Arguments N.ltb : simpl never.
Arguments N.leb : simpl never.
Arguments N.eqb : simpl never.
Arguments N.min : simpl never.
Arguments N.of_nat : simpl never.
Arguments N.to_nat : simpl never.

(* ------------------------------------------------------------------------------------------ *)
(** * 1. the unflushed flag: whatever sits in out_buffer after a quiet call is known to be unflushed *)

(* out_buffer is empty, or the context remembers that it holds an unflushed reply (so that the next
   read flushes it).  User data writes break this (a blocked write leaves data in out_buffer without the
   flag) — which is why a fair round starts with a flush; quiet calls keep it. *)
Definition Jx (x : ctx) : Prop := c_out (x_codec x) = [] \/ x_unflushed x = true.

Lemma wob_J c w r c' w' :
  write_out_buffer c w = (r, c', w') -> c_out c = [] -> c_out c' = [].
Proof.
  unfold write_out_buffer. intros H Ho. rewrite Ho, wol_nil in H. injection H as _ <- _. reflexivity.
Qed.

Lemma wol_ok wrs : forall out log u out' wrs' log',
  write_out_loop wrs out log = (ROk u, out', wrs', log') -> out' = [].
Proof.
  induction wrs as [|o wrs IH]; intros out log u out' wrs' log' H.
  - destruct out; cbn in H; [injection H as _ <- _ _; reflexivity|discriminate H].
  - destruct out as [|b out]; cbn [write_out_loop] in H; [injection H as _ <- _ _; reflexivity|].
    destruct o as [n|k]; [|discriminate H].
    destruct (N.min n (blen (b :: out)) =? 0); [discriminate H|]. eapply IH. exact H.
Qed.

Lemma wob_ok c w u c' w' : write_out_buffer c w = (ROk u, c', w') -> c_out c' = [].
Proof.
  unfold write_out_buffer.
  destruct (write_out_loop (w_wrs w) (c_out c) (w_log w)) as [[[r0 o] wrs] lg] eqn:E. intros H.
  injection H as -> <- _. cbn [c_out set_out]. eapply wol_ok. exact E.
Qed.

Lemma wob_same c w r c' w' :
  write_out_buffer c w = (r, c', w') -> c' = set_out c (c_out c').
Proof.
  unfold write_out_buffer.
  destruct (write_out_loop (w_wrs w) (c_out c) (w_log w)) as [[[r0 o] wrs] lg]. intros H. injection H as _ <- _.
  reflexivity.
Qed.

Lemma Jx_set_codec_wob x w r c' w' :
  write_out_buffer (x_codec x) w = (r, c', w') -> Jx x -> Jx (set_codec x c').
Proof.
  intros H [Ho|Hu]; [left|right].
  - cbn [set_codec x_codec]. eapply wob_J; eassumption.
  - exact Hu.
Qed.

Lemma write_add_J x w r1 x1 w1 :
  soft w -> write_add x w = (r1, x1, w1) -> Jx x -> Jx x1.
Proof.
  intros HS. unfold write_add. destruct (x_additional x) as [msg|] eqn:Ea.
  - destruct (buffer_frame (set_additional_raw x None) msg w) as [[rb xb] wb0] eqn:EB.
    apply bf_soft in EB; [|exact HS]. cbv zeta in EB.
    destruct EB as [[-> [-> Hw]]|[o [-> [Hw Hr]]]].
    + intros H. inj3 H. intros [Ho|Hu]; [left|right].
      * rewrite x_codec_set_additional. exact Ho.
      * rewrite x_unflushed_set_additional. exact Hu.
    + destruct Hr as [->|[-> Ho]]; intros H; inj3 H; intros _; right; reflexivity.
  - intros H. inj3 H. exact (fun X => X).
Qed.

Lemma write_tail_J r1 x1 w1 r x' w' :
  write_tail r1 x1 w1 = (r, x', w') -> Jx x1 -> Jx x'.
Proof.
  unfold write_tail. destruct r1 as [b|e|p|]; try (intros H; inj3 H; exact (fun X => X)).
  destruct (_ && _).
  - destruct (write_out_buffer (x_codec x1) w1) as [[rw c'] w2] eqn:EO.
    intros H J1. pose proof (Jx_set_codec_wob _ _ _ _ _ EO J1) as J2.
    destruct rw as [u|e|p|]; inj3 H; exact J2.
  - intros H. inj3 H. exact (fun X => X).
Qed.

Lemma write_none_J x w r x' w' :
  soft w -> write_ x None w = (r, x', w') -> Jx x -> Jx x'.
Proof.
  intros HS. rewrite CloseP.write__eq. cbv beta iota zeta.
  destruct (write_add x w) as [[r1 x1] w1] eqn:EA. intros H J0.
  eapply write_tail_J; [exact H|]. eapply write_add_J; eassumption.
Qed.

Lemma flush_J x w r x' w' :
  soft w -> flush x w = (r, x', w') -> Jx x -> Jx x'.
Proof.
  intros HS. unfold flush. destruct (write_ x None w) as [[r0 x0] w0] eqn:EW. intros H J0.
  pose proof (write_none_J _ _ _ _ _ HS EW J0) as J1.
  destruct r0 as [b|e|p|]; try (inj3 H; exact J1).
  destruct (write_out_buffer (x_codec x0) w0) as [[r1 c1] w1] eqn:EO.
  pose proof (Jx_set_codec_wob _ _ _ _ _ EO J1) as J2.
  destruct r1 as [u|e|p|]; try (inj3 H; exact J2).
  destruct (w_flush w1) as [r2 w2]. destruct r2 as [u2|e|p|]; try (inj3 H; exact J2).
  inj3 H. left. cbn [set_unflushed set_codec x_codec]. eapply wob_ok; eassumption.
Qed.

Lemma close_J x c w r x' w' :
  soft w -> close x c w = (r, x', w') -> Jx x -> Jx x'.
Proof.
  intros HS. unfold close. destruct (x_state x); intros H J0; eapply flush_J; try eassumption.
Qed.

Lemma read_pre_J x w r x' w' :
  soft w -> read_pre x w = (r, x', w') -> Jx x -> Jx x'.
Proof.
  intros HS. unfold read_pre. destruct (_ || _).
  - destruct (flush x w) as [[r0 x0] w0] eqn:EF. intros H J0.
    pose proof (flush_J _ _ _ _ _ HS EF J0) as J1.
    destruct r0 as [u|e|p|]; try (inj3 H; exact J1).
    destruct e as [| |k|? ?|?|?|]; try (inj3 H; exact J1).
    destruct k; inj3 H; try exact J1. right. reflexivity.
  - destruct (_ && _).
    + destruct (write_out_buffer (x_codec x) w) as [[rw c'] w2] eqn:EO. intros H J0.
      pose proof (Jx_set_codec_wob _ _ _ _ _ EO J0) as J1.
      destruct rw as [u|e|p|]; inj3 H; exact J1.
    + intros H. inj3 H. exact (fun X => X).
Qed.

(* ------------------------------------------------------------------------------------------ *)
(** * 2. the pre-step of read over an accepting transport, without "out_buffer is empty" *)

Lemma pre_pure_gen role x k :
  EI role x -> Jx x ->
  c_out (x_codec (snd (pre_pure x k))) = [] /\
  (x_additional (snd (pre_pure x k)) <> None -> c_out (x_codec x) <> [] /\ x_additional x <> None) /\
  (role = Server -> closing_done (x_state x) = true ->
   fst (pre_pure x k) = RErr EConnectionClosed \/ (c_out (x_codec x) <> [] /\ x_additional x <> None)).
Proof.
  intros HEI J0. pose proof (ei_role _ _ HEI) as Hr. pose proof (ei_max _ _ HEI) as Hm.
  pose proof (ei_add _ _ HEI) as Ha.
  unfold pre_pure. destruct (x_additional x) as [msg|] eqn:Ea; cbn [orb].
  - unfold flush_pure. cbv zeta. rewrite Ea.
    destruct (c_max_out (x_codec x) <? frame_len (mask_for (x_role x) k msg) + blen (c_out (x_codec x))) eqn:Ef.
    + assert (Hne : c_out (x_codec x) <> []).
      { intros Ho. rewrite Ho, Hm, Hr in Ef. pose proof (add_ok_frame_len role _ k msg Ha eq_refl) as Hl.
        unfold blen in Ef. cbn [length] in Ef. unfold u64_max in Ef. lia. }
      cbn [fst snd set_unflushed drained set_codec set_out set_additional_raw set_state x_codec c_out x_additional].
      splits; auto. { intros _. split; [exact Hne|discriminate]. }
      intros _ _. right. split; [exact Hne|discriminate].
    + destruct (role_eqb (x_role x) Server && closing_done (x_state x)) eqn:Ec;
        cbn [fst snd set_unflushed drained set_codec set_out set_additional_raw set_state x_codec c_out x_additional];
        splits; auto; try (intros X; contradiction).
      intros E Hc. rewrite Hr, E, Hc in Ec. discriminate Ec.
  - destruct (x_unflushed x) eqn:Eu.
    + unfold flush_pure. cbv zeta. rewrite Ea.
      destruct (role_eqb (x_role x) Server && closing_done (x_state x)) eqn:Ec;
        cbn [fst snd set_unflushed drained set_codec set_out set_additional_raw set_state x_codec c_out x_additional];
        rewrite ?Ea; splits; auto; try (intros X; contradiction).
      intros E Hc. rewrite Hr, E, Hc in Ec. discriminate Ec.
    + assert (Ho : c_out (x_codec x) = []) by (destruct J0 as [X|X]; [exact X|congruence]).
      destruct (role_eqb (x_role x) Server && negb (can_read (x_state x))) eqn:Ec;
        cbn [fst snd set_unflushed drained set_codec set_out set_additional_raw set_state x_codec c_out x_additional];
        rewrite ?Ea; splits; auto; try (intros X; contradiction).
      intros E Hc. rewrite Hr, E in Ec. destruct (x_state x); try discriminate Hc; discriminate Ec.
Qed.

Definition rj (r : res message) : nat := match r with ROk _ => 1 | _ => 0 end.

Lemma bsome_sa1 a g : (bsome (sa a g) <= bsome a + 1)%nat.
Proof. unfold sa. destruct a as [h|]; [destruct (opcode_eqb _ _)|]; cbn; lia. Qed.

Section ReadX.
Variables (role : role) (x : ctx) (w : world) (fut : bytes) (rem : list frame).
Hypothesis HEI : EI role x.
Hypothesis HS : soft w.
Hypothesis Hg : grds (w_rds w).
Hypothesis Hat : codec_at (x_codec x) (rdata (w_rds w) ++ fut) rem.
Hypothesis Hok : Forall okc rem.
Hypothesis Hmask : Forall (mask_ok (sender_of role)) rem.
Hypothesis Heof : In RdEof (w_rds w) ->
  role = Client /\ fut = [] /\ (rem = [] -> closing_done (x_state x) = true \/ x_state x = Terminated).
Hypothesis Hcr : x_state x <> Terminated -> rem <> [] -> can_read (x_state x) = true.

Lemma read_x r x' w' :
  read x w = (r, x', w') ->
  exists evs, w_log w' = w_log w ++ evs /\
    (Jx x -> Jx x') /\
    (length (queued evs) + bsome (x_additional x') <=
     bsome (x_additional x) + (if is_active (x_state x) then rj r else 0))%nat /\
    (fairw w -> Jx x -> x_state x <> Terminated ->
     c_out (x_codec x') = [] /\
     (x_additional x' <> None ->
      (exists m, r = ROk m) \/ (c_out (x_codec x) <> [] /\ x_additional x <> None)) /\
     (role = Server -> closing_done (x_state x) = true ->
      r = RErr EConnectionClosed \/ (c_out (x_codec x) <> [] /\ x_additional x <> None))).
Proof.
  pose proof (add_unmasked_EI role x HEI) as HU.
  pose proof (ei_role _ _ HEI) as Hrole. pose proof (ei_add _ _ HEI) as Hadd.
  unfold read. destruct (is_terminated (x_state x)) eqn:Et.
  { intros H. inj3 H. exists []. rewrite app_nil_r.
    assert (Hterm : x_state x = Terminated) by (destruct (x_state x); try discriminate Et; reflexivity).
    splits; auto.
    - cbn [queued length]. rewrite Hterm. cbn. lia.
    - intros _ _ X. contradiction. }
  assert (Hnt : x_state x <> Terminated) by (intros X; rewrite X in Et; discriminate Et).
  rewrite read_loop_eq.
  destruct (read_pre x w) as [[r0 x0] w0] eqn:EP. pose proof EP as EP0. pose proof EP as EPJ.
  apply read_pre_soft in EP; auto. rewrite Hrole in EP.
  destruct EP as [o [a [u [nf [Hx0 [Hw [Hs [Hr Hwb]]]]]]]].
  assert (Ha0 : x_additional x0 = a) by (rewrite Hx0; reflexivity).
  assert (Ho0 : c_out (x_codec x0) = o) by (rewrite Hx0; reflexivity).
  pose proof (slot_count _ _ _ _ Hs) as Hcnt.
  destruct (wres_cases _ _ _ _ _ _ Hr) as [Hr1 [Hr2 Hr3]].
  destruct Hw as [[evs0 [Hl0 Hq0]] [Hrds0 [Hwr0 Hfl0]]].
  assert (HF : fairw w -> Jx x ->
            c_out (x_codec x0) = [] /\
            (x_additional x0 <> None -> c_out (x_codec x) <> [] /\ x_additional x <> None) /\
            (role = Server -> closing_done (x_state x) = true ->
             r0 = RErr EConnectionClosed \/ (c_out (x_codec x) <> [] /\ x_additional x <> None))).
  { intros Hf J0. rewrite read_pre_pre_step in EP0.
    destruct (pre_step_acc u64_max x w (ei_max _ _ HEI) (ei_bound _ _ HEI) Hf) as [w2 [E2 _]].
    rewrite E2 in EP0. injection EP0 as Er Ex _.
    pose proof (pre_pure_gen role x (next_key w) HEI J0) as G. rewrite Er, Ex in G. exact G. }
  assert (HJ0 : Jx x -> Jx x0) by (apply (read_pre_J _ _ _ _ _ HS EPJ)).
  (* the pre-step ended the call *)
  assert (Hexit : forall e, r0 = RErr e -> (RErr e, x0, w0) = (r, x', w') ->
            exists evs, w_log w' = w_log w ++ evs /\ (Jx x -> Jx x') /\
              (length (queued evs) + bsome (x_additional x') <=
               bsome (x_additional x) + (if is_active (x_state x) then rj r else 0))%nat /\
              (fairw w -> Jx x -> x_state x <> Terminated ->
               c_out (x_codec x') = [] /\
               (x_additional x' <> None ->
                (exists m, r = ROk m) \/ (c_out (x_codec x) <> [] /\ x_additional x <> None)) /\
               (role = Server -> closing_done (x_state x) = true ->
                r = RErr EConnectionClosed \/ (c_out (x_codec x) <> [] /\ x_additional x <> None)))).
  { intros e E0 E. injection E as <- <- <-. exists evs0. splits; auto.
    - rewrite Hq0, Ha0. cbn [rj]. destruct (is_active (x_state x)); lia.
    - intros Hf J0 _. destruct (HF Hf J0) as [A [B C]]. splits; auto.
      intros E1 Hcd. destruct (C E1 Hcd) as [X|X]; [left; congruence|right; exact X]. }
  destruct r0 as [[]|e|p|]; try (intros H; apply (Hexit _ eq_refl) in H; exact H; fail);
    try (destruct Hr1 as [X|[X|X]]; discriminate X).
  clear Hexit.
  assert (Hst0 : x_state x0 = x_state x) by (apply Hr3; discriminate).
  rewrite Hst0 in Hx0.
  assert (HS0 : soft w0).
  { eapply wext_soft; [|exact HS]. unfold wext. splits; eauto. }
  destruct (read_message_frame x0 w0) as [[r1 x1] w1] eqn:ER.
  apply (rmf_soft x0 w0 fut rem) in ER;
    try (rewrite Hx0; cbn [upd x_incomplete x_cfg x_codec x_role x_state]).
  - destruct ER as [Hout [Hwr1 [Hfl1 [evs1 [Hl1 Hrd1]]]]].
    assert (Hlog : w_log w1 = w_log w ++ (evs0 ++ evs1) /\ queued (evs0 ++ evs1) = nf).
    { rewrite Hl1, Hl0, app_assoc, WritePathP.queued_app, Hq0, (queued_only_reads _ Hrd1), app_nil_r.
      split; reflexivity. }
    destruct Hlog as [Hlog Hqq].
    assert (HJ1 : wr_same x0 x1 -> Jx x -> Jx x1).
    { intros [_ [_ [_ [U [C _]]]]] J0. destruct (HJ0 J0) as [X|X]; [left; rewrite C; exact X|right; rewrite U; exact X]. }
    assert (HF3 : fairw w -> Jx x -> role = Server -> closing_done (x_state x) = true ->
                  c_out (x_codec x) <> [] /\ x_additional x <> None).
    { intros Hf J0 E1 Hcd. destruct (HF Hf J0) as [_ [_ C]]. destruct (C E1 Hcd) as [X|X]; [discriminate X|exact X]. }
    destruct Hout as [f rem' p r1 x1 w1 Hrem Hp Hg1 He1 Hat1 Hws Hhf|x1 w1 Hrd Hne Hat1 Hstall Hws Hst Had|
                      x1 w1 Hrd Hie Hrem Hat1 Hws Hcd Hst Had].
    + destruct (hf_out_msg _ _ _ _ _ _ Hhf) as [m [-> [Hdm Hmc]]].
      intros H. inj3 H. exists (evs0 ++ evs1). rewrite Hqq. splits; auto.
      * rewrite Ha0, Hst0 in Hhf.
        assert (Hb1 : (bsome (x_additional x1) <= bsome a + (if is_active (x_state x) then 1 else 0))%nat).
        { remember (x_additional x1) as a1. remember (ROk (Some m)) as rr. remember (x_state x1) as s1.
          destruct Hhf; subst; try lia.
          - destruct (is_active (x_state x)); [pose proof (bsome_sa1 a (frame_pong (f_payload f)))|]; lia.
          - match goal with E : x_state x = Active |- _ => rewrite E end. cbn [is_active].
            pose proof (bsome_sa1 a g). lia. }
        cbn [rj]. destruct (is_active (x_state x)); lia.
      * intros Hf J0 _. destruct (HF Hf J0) as [A _].
        destruct Hws as [_ [_ [_ [_ [Hco _]]]]]. rewrite Hco. split; [exact A|split].
        -- intros _. left. eauto.
        -- intros E1 Hcd. right. apply HF3; auto.
    + intros H. inj3 H. exists (evs0 ++ evs1). rewrite Hqq. splits; auto.
      * rewrite Had, Ha0. cbn [rj]. destruct (is_active (x_state x)); lia.
      * intros Hf J0 _. destruct (HF Hf J0) as [A [B _]].
        destruct Hws as [_ [_ [_ [_ [Hco _]]]]]. rewrite Hco, Had. split; [exact A|split].
        -- intros X. right. apply B. exact X.
        -- intros E1 Hcd. right. apply HF3; auto.
    + intros H. inj3 H. exists (evs0 ++ evs1). rewrite Hqq. splits; auto.
      * rewrite Had, Ha0. cbn [rj]. destruct (is_active (x_state x)); lia.
      * intros Hf J0 _. destruct (HF Hf J0) as [A [B _]].
        destruct Hws as [_ [_ [_ [_ [Hco _]]]]]. rewrite Hco, Had. split; [exact A|split].
        -- intros X. right. apply B. exact X.
        -- intros _ _. left. reflexivity.
  - exact (ei_inc _ _ HEI).
  - exact (ei_mm _ _ HEI).
  - exact (ei_mf _ _ HEI).
  - rewrite Hrds0. exact Hg.
  - rewrite Hrds0. apply codec_at_set_out. exact Hat.
  - exact Hok.
  - rewrite Hrole. exact Hmask.
  - rewrite Hrds0. intros X. destruct (Heof X) as [_ [A B]]. split; [exact A|].
    intros Y. destruct (B Y) as [Z|Z]; [exact Z|contradiction].
  - exact (Hcr Hnt).
Qed.

End ReadX.

Lemma flush_x role x w r x' w' :
  EI role x -> soft w -> flush x w = (r, x', w') ->
  exists evs, w_log w' = w_log w ++ evs /\ (Jx x -> Jx x') /\
    (length (queued evs) + bsome (x_additional x') <= bsome (x_additional x))%nat.
Proof.
  intros HEI HS H. pose proof (flush_J _ _ _ _ _ HS H) as HJ.
  apply flush_soft in H; [|exact HS|exact (add_unmasked_EI role x HEI)].
  destruct H as [o [a [u [nf [Hx [[[evs [Hl Hq]] _] [Hs _]]]]]]].
  exists evs. splits; auto. rewrite Hq, Hx. cbn [upd x_additional]. exact (slot_count _ _ _ _ Hs).
Qed.

Lemma close_x role x c w r x' w' :
  EI role x -> soft w -> close x c w = (r, x', w') ->
  exists evs, w_log w' = w_log w ++ evs /\ (Jx x -> Jx x') /\
    (length (queued evs) + bsome (x_additional x') <=
     (if is_active (x_state x) then 1 else bsome (x_additional x)))%nat /\
    x_state x' <> Active.
Proof.
  intros HEI HS H. pose proof (close_J _ _ _ _ _ _ HS H) as HJ.
  apply close_soft in H; [|exact HS|exact (add_unmasked_EI role x HEI)]. cbv zeta in H.
  destruct H as [o [a [u [nf [Hx [[[evs [Hl Hq]] _] [Hs [Hr _]]]]]]]].
  exists evs. splits; auto.
  - rewrite Hq, Hx. cbn [upd x_additional]. pose proof (slot_count _ _ _ _ Hs) as Hc.
    destruct (x_state x); cbn [is_active bsome] in *; lia.
  - destruct (wres_cases _ _ _ _ _ _ Hr) as [Hr1 [Hr2 Hr3]].
    destruct Hr1 as [X|[X|X]].
    + rewrite Hr3 by (rewrite X; discriminate). destruct (x_state x); discriminate.
    + rewrite Hr3 by (rewrite X; discriminate). destruct (x_state x); discriminate.
    + destruct (Hr2 X) as [_ [_ [E _]]]. rewrite E. discriminate.
Qed.

(* the quiet operations: everything but user writes (and set_config) *)
Definition qop (o : op) : Prop :=
  match o with OpRead | OpFlush | OpClose _ | OpCanRead | OpCanWrite => True | _ => False end.
Definition rjo (res : op_result) : nat := match res with ResMsg (ROk _) => 1 | _ => 0 end.
Definition iscl (o : op) : nat := match o with OpClose _ => 1 | _ => 0 end.

Section OpX.
Variables (role : role) (x : ctx) (w : world) (fut : bytes) (rem : list frame).
Hypothesis HEI : EI role x.
Hypothesis HS : soft w.
Hypothesis Hg : grds (w_rds w).
Hypothesis Hat : codec_at (x_codec x) (rdata (w_rds w) ++ fut) rem.
Hypothesis Hok : Forall okc rem.
Hypothesis Hmask : Forall (mask_ok (sender_of role)) rem.
Hypothesis Heof : In RdEof (w_rds w) ->
  role = Client /\ fut = [] /\ (rem = [] -> closing_done (x_state x) = true \/ x_state x = Terminated).
Hypothesis Hcr : x_state x <> Terminated -> rem <> [] -> can_read (x_state x) = true.

Lemma op_x o res x' w' :
  qop o -> run_op x o w = (res, x', w') ->
  exists evs, w_log w' = w_log w ++ evs /\
    (Jx x -> Jx x') /\
    (length (queued evs) + bsome (x_additional x') <=
     bsome (x_additional x) + (if is_active (x_state x) then rjo res + iscl o else 0))%nat /\
    ((exists c, o = OpClose c) -> x_state x' <> Active) /\
    (rjo res = 1%nat -> o = OpRead) /\
    (o = OpRead -> fairw w -> Jx x -> x_state x <> Terminated ->
     c_out (x_codec x') = [] /\
     (x_additional x' <> None -> rjo res = 1%nat \/ (c_out (x_codec x) <> [] /\ x_additional x <> None)) /\
     (role = Server -> closing_done (x_state x) = true ->
      is_cc res = true \/ (c_out (x_codec x) <> [] /\ x_additional x <> None))).
Proof.
  intros Hq H. destruct o as [|m| |c| | |wbs mx]; try contradiction; cbn [run_op] in H.
  - destruct (read x w) as [[r x1] w1] eqn:E. inj3 H.
    destruct (read_x role x w fut rem HEI HS Hg Hat Hok Hmask Heof Hcr _ _ _ E) as [evs [Hl [HJ [Hc Hf]]]].
    exists evs. splits; auto.
    + cbn [iscl rjo]. fold (rj r). destruct (is_active (x_state x)); lia.
    + intros [c X]. discriminate X.
    + intros _ Hfw J0 Hnt. destruct (Hf Hfw J0 Hnt) as [A [B C]]. splits; auto.
      * intros X. destruct (B X) as [[m ->]|Y]; [left; reflexivity|right; exact Y].
      * intros E1 Hcd. destruct (C E1 Hcd) as [->|Y]; [left; reflexivity|right; exact Y].
  - destruct (flush x w) as [[r x1] w1] eqn:E. inj3 H.
    destruct (flush_x role _ _ _ _ _ HEI HS E) as [evs [Hl [HJ Hc]]].
    exists evs. splits; auto.
    + destruct (is_active (x_state x)); lia.
    + intros [c X]. discriminate X.
    + intros X. discriminate X.
    + intros X. discriminate X.
  - destruct (close x c w) as [[r x1] w1] eqn:E. inj3 H.
    destruct (close_x role _ _ _ _ _ _ HEI HS E) as [evs [Hl [HJ [Hc Hna]]]].
    exists evs. splits; auto.
    + cbn [iscl rjo]. destruct (is_active (x_state x)); lia.
    + intros X. discriminate X.
    + intros X. discriminate X.
  - inj3 H. exists []. rewrite app_nil_r. splits; auto.
    + cbn [queued length]. lia.
    + intros [c X]. discriminate X.
    + intros X. discriminate X.
    + intros X. discriminate X.
  - inj3 H. exists []. rewrite app_nil_r. splits; auto.
    + cbn [queued length]. lia.
    + intros [c X]. discriminate X.
    + intros X. discriminate X.
    + intros X. discriminate X.
Qed.

End OpX.

(* ------------------------------------------------------------------------------------------ *)
(** * 3. one scheduled quiet call: PairInvP.do_on_inv with the extra facts *)

Definition Je (e : endpoint) : Prop := Jx (cx e).

Record xstep (r : role) (me pe : endpoint) (o : op) (wrs : list wr_out) (fls : list fl_out)
             (res : op_result) (me' pe' : endpoint) (nf : list frame) : Prop := mkXstep {
  xs_J : Je me -> Je me';
  xs_cnt : (length nf + bsome (x_additional (cx me')) <=
            bsome (x_additional (cx me)) + (if is_active (x_state (cx me)) then rjo res + iscl o else 0))%nat;
  xs_close : (exists c, o = OpClose c) -> x_state (cx me') <> Active;
  xs_rj : rjo res = 1%nat -> o = OpRead;
  xs_bal : exists wr, outb me ++ enc nf = wr ++ outb me' /\
                      e_inbox pe' = (if e_dropped pe then e_inbox pe else e_inbox pe ++ wr);
  xs_fr : fair_oracle wrs fls -> o = OpRead -> Je me -> x_state (cx me) <> Terminated ->
          outb me' = [] /\
          (x_additional (cx me') <> None ->
           rjo res = 1%nat \/ (outb me <> [] /\ x_additional (cx me) <> None)) /\
          (r = Server -> closing_done (x_state (cx me)) = true ->
           is_cc res = true \/ (outb me <> [] /\ x_additional (cx me) <> None)) }.

Theorem do_on_x r me pe hme hpe kme kpe o chunks wrs fls res me' pe' lg :
  EPI r me pe hme hpe kme -> EPI (opp r) pe me hpe hme kpe ->
  e_dropped me = false ->
  (e_dropped pe = true -> r = Client /\ outb pe = [] /\ existsb isclose hpe = true) ->
  uop_ok o -> qop o -> Forall soft_wr wrs -> Forall soft_fl fls ->
  do_on me pe o chunks wrs fls = (res, me', pe', lg) ->
  exists nf j,
    EPI r me' pe' (hme ++ nf) hpe (kme + j) /\ EPI (opp r) pe' me' hpe (hme ++ nf) kpe /\
    step_out r me pe hme hpe kme o chunks wrs fls res me' pe' nf j /\
    xstep r me pe o wrs fls res me' pe' nf.
Proof.
  intros Hme Hpe Hnd Hdp Hu Hqo Hwrs Hfls. unfold do_on.
  destruct (chunks_of (e_inbox me) chunks) as [data rest] eqn:EC.
  pose proof EC as EC0.
  apply chunks_of_spec in EC. destruct EC as [Hgd [Hnd_eof Hdata]].
  set (tail := match rest with [] => if e_dropped pe then [RdEof] else [] | _ => [] end).
  assert (Htail : tail = [] \/ tail = [RdEof]).
  { unfold tail. destruct rest; [destruct (e_dropped pe)|]; auto. }
  assert (Hteof : In RdEof tail -> rest = [] /\ e_dropped pe = true).
  { unfold tail. destruct rest; [destruct (e_dropped pe)|]; cbn; intros X; try contradiction; auto. }
  set (w := mkWorld (data ++ tail) wrs fls (e_keys me) []).
  destruct (run_op (e_ctx me) o w) as [[res0 x'] w'] eqn:ER.
  intros H. injection H as <- <- <- <-. rename res0 into res.
  set (rem := skipn kme hpe).
  assert (Hokp : Forall okc hpe /\ Forall (mask_ok (opp r)) hpe) by exact (epi_frames _ _ _ _ _ _ Hpe).
  assert (A1 : EI r (e_ctx me)) by exact (epi_ei _ _ _ _ _ _ Hme).
  assert (A2 : soft w) by (split; assumption).
  assert (A3 : grds (w_rds w)).
  { change (w_rds w) with (data ++ tail). apply grds_app_tail; assumption. }
  assert (A4 : codec_at (x_codec (e_ctx me)) (rdata (w_rds w) ++ (rest ++ outb pe)) rem).
  { change (w_rds w) with (data ++ tail). rewrite rdata_app. unfold tail. rewrite rdata_tail, app_nil_r, app_assoc, Hdata.
    exact (epi_at _ _ _ _ _ _ Hme Hnd). }
  assert (A5 : Forall okc rem) by (unfold rem; apply Forall_skipn; apply Hokp).
  assert (A6 : Forall (mask_ok (sender_of r)) rem).
  { unfold rem. rewrite sender_opp. apply Forall_skipn. apply Hokp. }
  assert (A7 : In RdEof (w_rds w) ->
               r = Client /\ rest ++ outb pe = [] /\
               (rem = [] -> closing_done (x_state (e_ctx me)) = true \/ x_state (e_ctx me) = Terminated)).
  { change (w_rds w) with (data ++ tail). intros X. apply in_eof_app in X; [|exact Hnd_eof].
    destruct (Hteof X) as [-> Hd]. destruct (Hdp Hd) as [A [B C]].
    split; [exact A|split; [rewrite B; reflexivity|]].
    intros Hrem. unfold rem in Hrem. apply skipn_nil_len in Hrem.
    pose proof (epi_k _ _ _ _ _ _ Hme) as Hk.
    pose proof (epi_crs _ _ _ _ _ _ Hme) as Hc.
    replace (firstn kme hpe) with hpe in Hc by (symmetry; apply firstn_all2; lia).
    rewrite C in Hc. apply crs_closed. exact Hc. }
  assert (A8 : x_state (e_ctx me) <> Terminated -> rem <> [] -> can_read (x_state (e_ctx me)) = true).
  { intros Hnt Hrem.
    destruct (can_read (x_state (e_ctx me))) eqn:Ecr; [reflexivity|]. exfalso. apply Hrem.
    pose proof (crs_can_read _ _ (epi_crs _ _ _ _ _ _ Hme) Hnt Ecr) as Hc.
    eapply close_consumed_all; [exact (epi_qp _ _ _ _ _ _ Hpe)|exact Hc]. }
  pose proof (op_x r (e_ctx me) w (rest ++ outb pe) rem A1 A2 A3 A4 A5 A6 A7 A8 o res x' w' Hqo ER) as HX.
  apply (op_step r (e_ctx me) o w (rest ++ outb pe) rem) in ER; auto.
  destruct ER as [nf [j [Hos [HEI' [[evs [El [Hq Hbal]]] [HQP [Hcrs [HPend [Hgcd Hmono]]]]]]]]].
  change (w_log w) with (@nil event) in El. cbn [app] in El. subst evs.
  destruct HX as [evs2 [El2 [XJ [Xc [Xcl [Xrj Xfr]]]]]].
  change (w_log w) with (@nil event) in El2. cbn [app] in El2. subst evs2. rewrite Hq in Xc.
  exists nf, j.
  destruct (os_rds _ _ _ _ _ _ _ _ _ _ _ Hos) as [[p Hp] [Hg' He']]. change (w_rds w) with (data ++ tail) in Hp.
  assert (Hinbox : dropN (rd_total (data ++ tail) - rd_total (w_rds w')) (e_inbox me) = rdata (w_rds w') ++ rest).
  { rewrite <- Hdata. replace (rdata data) with (rdata (data ++ tail)).
    - rewrite Hp. apply consumed_drop.
    - rewrite rdata_app. unfold tail. rewrite rdata_tail. apply app_nil_r. }
  assert (Hjlen : (kme + j <= length hpe)%nat).
  { destruct (os_j _ _ _ _ _ _ _ _ _ _ _ Hos) as [_ Hj]. unfold rem in Hj. rewrite skipn_length in Hj.
    pose proof (epi_k _ _ _ _ _ _ Hme). lia. }
  assert (Hcr' : existsb isclose (firstn (kme + j) hpe) = existsb isclose (firstn kme hpe) || gotc res).
  { rewrite firstn_add, existsb_app. f_equal. symmetry. exact (os_gotc _ _ _ _ _ _ _ _ _ _ _ Hos). }
  assert (Hpe_ctx : e_ctx (if e_dropped pe then pe
                           else mkEndpoint (e_ctx pe) (e_inbox pe ++ wire (w_log w')) (e_dropped pe) (e_told pe) (e_keys pe))
                    = e_ctx pe) by (destruct (e_dropped pe); reflexivity).
  split; [|split; [|split]].
  + (* me *)
    constructor; unfold cx, outb; cbn [e_ctx e_inbox e_dropped e_told]; try rewrite Hpe_ctx.
    * exact HEI'.
    * apply HQP. exact (epi_qp _ _ _ _ _ _ Hme).
    * intros Ht Hc. rewrite Hcr' in Hc. destruct (gotc res) eqn:Eg.
      { specialize (Hgcd eq_refl). rewrite Ht in Hgcd. discriminate Hgcd. }
      rewrite Bool.orb_false_r in Hc.
      pose proof (epi_crs _ _ _ _ _ _ Hme) as Hc0. rewrite Hc in Hc0.
      apply HPend.
      -- intros E. unfold cx in Hc0. rewrite E in Hc0. discriminate Hc0.
      -- pose proof (epi_qp _ _ _ _ _ _ Hme) as HQ. unfold cx in *.
         destruct (x_state (e_ctx me)) eqn:Es; cbn in Hc0; try discriminate Hc0; try exact HQ.
         apply (epi_pend _ _ _ _ _ _ Hme); [exact Es|exact Hc].
    * rewrite Hcr'. apply Hcrs. exact (epi_crs _ _ _ _ _ _ Hme).
    * exact Hjlen.
    * intros _. rewrite Hinbox, <- app_assoc, skipn_add. exact (os_at _ _ _ _ _ _ _ _ _ _ _ Hos).
    * destruct (epi_frames _ _ _ _ _ _ Hme) as [A B]. destruct (os_nf _ _ _ _ _ _ _ _ _ _ _ Hos) as [C D].
      split; apply Forall_app; split; assumption.
    * rewrite is_closed_res_cc. intros Ht. apply Bool.orb_true_iff in Ht. destruct Ht as [Ht|Ht].
      -- apply (os_tkeep _ _ _ _ _ _ _ _ _ _ _ Hos). exact (epi_told _ _ _ _ _ _ Hme Ht).
      -- apply (os_cc _ _ _ _ _ _ _ _ _ _ _ Hos Ht).
    * rewrite is_closed_res_cc. intros Ht. apply Bool.orb_true_iff.
      destruct (os_term _ _ _ _ _ _ _ _ _ _ _ Hos Ht) as [X|X]; [left|right; exact X].
      exact (epi_term _ _ _ _ _ _ Hme X).
  + (* the peer *)
    pose proof (epi_k _ _ _ _ _ _ Hpe) as Hk.
    constructor; unfold cx, outb; cbn [e_ctx e_inbox e_dropped e_told]; try rewrite Hpe_ctx;
      try rewrite (firstn_app_le kpe hme nf Hk).
    * exact (epi_ei _ _ _ _ _ _ Hpe).
    * exact (epi_qp _ _ _ _ _ _ Hpe).
    * exact (epi_pend _ _ _ _ _ _ Hpe).
    * exact (epi_crs _ _ _ _ _ _ Hpe).
    * rewrite app_length. lia.
    * destruct (e_dropped pe) eqn:Ed; [intros X; rewrite Ed in X; discriminate X|].
      cbn [e_dropped e_inbox]. intros _.
      rewrite (skipn_app_le kpe hme nf Hk), <- app_assoc, <- Hbal, app_assoc.
      apply codec_at_app. apply (epi_at _ _ _ _ _ _ Hpe Ed).
    * exact Hokp.
    * destruct (e_dropped pe); exact (epi_told _ _ _ _ _ _ Hpe).
    * destruct (e_dropped pe); exact (epi_term _ _ _ _ _ _ Hpe).
  + (* the step *)
    constructor; unfold cx, outb; cbn [e_ctx e_inbox e_dropped e_told e_keys].
    * split; [exact Hnd|destruct (e_dropped pe) eqn:Ed; [exact Ed|reflexivity]].
    * rewrite is_closed_res_cc. split; [reflexivity|destruct (e_dropped pe); reflexivity].
    * destruct (e_dropped pe); split; reflexivity.
    * exact (os_clean _ _ _ _ _ _ _ _ _ _ _ Hos).
    * exact (os_dres _ _ _ _ _ _ _ _ _ _ _ Hos).
    * exact (os_acc _ _ _ _ _ _ _ _ _ _ _ Hos).
    * exact (os_gotc _ _ _ _ _ _ _ _ _ _ _ Hos).
    * apply (os_j _ _ _ _ _ _ _ _ _ _ _ Hos).
    * intros Hc. destruct (os_cc _ _ _ _ _ _ _ _ _ _ _ Hos Hc) as [A [B [C D]]]. splits; auto.
      intros E. destruct (D E) as [D1 D2]. change (w_rds w) with (data ++ tail) in D1.
      apply in_eof_app in D1; [|exact Hnd_eof]. destruct (Hteof D1) as [_ Hdp']. split; [exact Hdp'|].
      rewrite skipn_add. exact D2.
    * intros Ht Ha. destruct (os_idle _ _ _ _ _ _ _ _ _ _ _ Hos Ha (or_intror Ht)) as [-> Ha'].
      splits; auto. intros Ho. rewrite Ho in Hbal. cbn [enc map concat app] in Hbal.
      symmetry in Hbal. apply app_eq_nil in Hbal. tauto.
    * intros Ho Hr. apply (os_ok _ _ _ _ _ _ _ _ _ _ _ Hos Hr Ho).
    * exact Hmono.
    * exact (os_read _ _ _ _ _ _ _ _ _ _ _ Hos).
    * intros Hr. destruct (os_block _ _ _ _ _ _ _ _ _ _ _ Hos Hr) as [A [B|[B [Hne C]]]].
      -- split; [exact A|left; exact B].
      -- split; [exact A|right]. exists data. rewrite Hinbox, B. cbn [rdata app].
         split; [exact EC0|]. split; [|exact C].
         intros Hd Hr0. apply Hne. change (w_rds w) with (data ++ tail). apply in_or_app. right.
         unfold tail. rewrite Hr0, Hd. left. reflexivity.
    * rewrite Hinbox, <- Hdata. replace (rdata data) with (rdata (data ++ tail)).
      -- rewrite Hp, rdata_app, !app_length. lia.
      -- rewrite rdata_app. unfold tail. rewrite rdata_tail. apply app_nil_r.
    * exact (os_count _ _ _ _ _ _ _ _ _ _ _ Hos).
    * intros Hf. apply (os_fair_flush _ _ _ _ _ _ _ _ _ _ _ Hos). apply fair_oracle_fairw. exact Hf.
    * intros Hf. apply (os_fair_read _ _ _ _ _ _ _ _ _ _ _ Hos). apply fair_oracle_fairw. exact Hf.
  + (* the extra facts *)
    constructor; unfold Je, cx, outb; cbn [e_ctx e_inbox e_dropped e_told e_keys].
    * exact XJ.
    * exact Xc.
    * exact Xcl.
    * exact Xrj.
    * exists (wire (w_log w')). split; [exact Hbal|]. destruct (e_dropped pe); reflexivity.
    * intros Hf Ho J0 Hnt. apply Xfr; auto. apply fair_oracle_fairw. exact Hf.
Qed.

(* ------------------------------------------------------------------------------------------ *)
(** * 4. quiet actions; one quiet call of a side that has not dropped *)

Definition quiet (a : paction) : Prop :=
  match a with
  | PDo _ o _ wrs fls => uop_ok o /\ qop o /\ Forall soft_wr wrs /\ Forall soft_fl fls
  | PDrop _ => True
  end.

Lemma quiet_act_ok a : quiet a -> act_ok a.
Proof. destruct a as [sd o ch wrs fls|sd]; cbn; tauto. Qed.

Lemma qdo_step sd o ch wrs fls p hc hs kc ks it p1 :
  quiet (PDo sd o ch wrs fls) ->
  GI p hc hs kc ks -> e_dropped (ep p sd) = false ->
  Pair.pstep p (PDo sd o ch wrs fls) = (it, p1) ->
  exists r hc1 hs1 kc1 ks1 nf j,
    it = PRes sd o r /\ GI p1 hc1 hs1 kc1 ks1 /\
    step_out sd (ep p sd) (ep p (opp sd)) (hof sd hc hs) (hof (opp sd) hc hs) (kof sd kc ks) o ch wrs fls
             r (ep p1 sd) (ep p1 (opp sd)) nf j /\
    xstep sd (ep p sd) (ep p (opp sd)) o wrs fls r (ep p1 sd) (ep p1 (opp sd)) nf /\
    hof sd hc1 hs1 = hof sd hc hs ++ nf /\ kof sd kc1 ks1 = (kof sd kc ks + j)%nat /\
    hof (opp sd) hc1 hs1 = hof (opp sd) hc hs /\ kof (opp sd) kc1 ks1 = kof (opp sd) kc ks.
Proof.
  intros [Hu [Hq [Hw Hf]]] G Hnd H. destruct sd; cbn [Pair.pstep ep opp hof kof] in *.
  - rewrite Hnd in H.
    destruct (do_on (p_server p) (p_client p) o ch wrs fls) as [[[r me] pe] lg] eqn:ED.
    injection H as <- <-.
    apply (do_on_x Server _ _ hs hc ks kc) in ED; auto.
    2:{ exact (gi_s _ _ _ _ _ G). }
    2:{ exact (gi_c _ _ _ _ _ G). }
    2:{ intros Hdc. pose proof (gi_tc _ _ _ _ _ G (gi_dc _ _ _ _ _ G Hdc)) as X. rewrite Hnd in X. discriminate X. }
    destruct ED as [nf [j [Hme [Hpe [Hso Hxs]]]]].
    destruct (so_dropped _ _ _ _ _ _ _ _ _ _ _ _ _ _ _ Hso) as [D1 D2].
    destruct (so_told _ _ _ _ _ _ _ _ _ _ _ _ _ _ _ Hso) as [T1 T2].
    destruct (so_pe _ _ _ _ _ _ _ _ _ _ _ _ _ _ _ Hso) as [P1 _].
    exists r, hc, (hs ++ nf), kc, (ks + j)%nat, nf, j. cbn [p_client p_server]. splits; auto.
    constructor; cbn [p_client p_server]; auto.
    + rewrite D1. intros X. discriminate X.
    + rewrite T1. intros Ht. apply Bool.orb_true_iff in Ht.
      pose proof (epi_k _ _ _ _ _ _ (gi_s _ _ _ _ _ G)) as Hk.
      destruct Ht as [Ht|Ht].
      * destruct (gi_ts _ _ _ _ _ G Ht) as [A [B C]].
        pose proof (epi_told _ _ _ _ _ _ (gi_s _ _ _ _ _ G) Ht) as Hterm.
        destruct (so_idle _ _ _ _ _ _ _ _ _ _ _ _ _ _ _ Hso Hterm B) as [_ [B' A']].
        splits; auto. apply existsb_firstn_mono. exact C.
      * destruct (so_cc _ _ _ _ _ _ _ _ _ _ _ _ _ _ _ Hso Ht) as [Hcd [Hsv _]].
        destruct (Hsv eq_refl) as [A B]. splits; auto.
        apply existsb_firstn_mono.
        exact (crs_done_true _ _ (epi_crs _ _ _ _ _ _ (gi_s _ _ _ _ _ G)) Hcd).
    + rewrite T2, D1. intros Ht. apply (gi_tc _ _ _ _ _ G) in Ht. rewrite Hnd in Ht. discriminate Ht.
    + rewrite D2, T2. exact (gi_dc _ _ _ _ _ G).
  - rewrite Hnd in H.
    destruct (do_on (p_client p) (p_server p) o ch wrs fls) as [[[r me] pe] lg] eqn:ED.
    injection H as <- <-.
    apply (do_on_x Client _ _ hc hs kc ks) in ED; auto.
    2:{ exact (gi_c _ _ _ _ _ G). }
    2:{ exact (gi_s _ _ _ _ _ G). }
    2:{ intros Hds. pose proof (gi_ds _ _ _ _ _ G Hds) as Ht.
        destruct (gi_ts _ _ _ _ _ G Ht) as [A _]. splits; auto. eapply gi_server_close; eassumption. }
    destruct ED as [nf [j [Hme [Hpe [Hso Hxs]]]]].
    destruct (so_dropped _ _ _ _ _ _ _ _ _ _ _ _ _ _ _ Hso) as [D1 D2].
    destruct (so_told _ _ _ _ _ _ _ _ _ _ _ _ _ _ _ Hso) as [T1 T2].
    destruct (so_pe _ _ _ _ _ _ _ _ _ _ _ _ _ _ _ Hso) as [P1 _].
    exists r, (hc ++ nf), hs, (kc + j)%nat, ks, nf, j. cbn [p_client p_server]. splits; auto.
    constructor; cbn [p_client p_server]; auto.
    + rewrite D2, T2. exact (gi_ds _ _ _ _ _ G).
    + rewrite T2. intros Ht. destruct (gi_ts _ _ _ _ _ G Ht) as [A [B C]].
      unfold outb, cx in *. rewrite P1. splits; auto.
      rewrite firstn_app_le; [exact C|]. exact (epi_k _ _ _ _ _ _ (gi_s _ _ _ _ _ G)).
    + rewrite T1, D2. intros Ht. apply Bool.orb_true_iff in Ht. destruct Ht as [Ht|Ht].
      * exact (gi_tc _ _ _ _ _ G Ht).
      * destruct (so_cc _ _ _ _ _ _ _ _ _ _ _ _ _ _ _ Hso Ht) as [_ [_ Hcl]]. apply (Hcl eq_refl).
    + rewrite D1. intros X. discriminate X.
Qed.

(* ------------------------------------------------------------------------------------------ *)
(** * 5. the quantities of the progress argument *)

Definition stt (p : pair) (sd : role) : ws_state := x_state (cx (ep p sd)).
Definition na (p : pair) (sd : role) : Prop := stt p sd <> Active.
Definition addn (p : pair) (sd : role) : nat := bsome (x_additional (cx (ep p sd))).
Definition onz (p : pair) (sd : role) : nat := match outb (ep p sd) with [] => 0 | _ => 1 end.
Definition actn (p : pair) (sd : role) : nat := if is_active (stt p sd) then 1 else 0.
(* the peer's frames [sd] has not consumed yet *)
Definition remf (sd : role) (hc hs : list frame) (kc ks : nat) : list frame :=
  skipn (kof sd kc ks) (hof (opp sd) hc hs).
(* settled: past Active, nothing parked, nothing in out_buffer — such a side never writes again *)
Definition QF (p : pair) (sd : role) : Prop :=
  na p sd /\ x_additional (cx (ep p sd)) = None /\ outb (ep p sd) = [].
(* what [sd] still has to push out *)
Definition un (p : pair) (sd : role) : nat := (2 * addn p sd + onz p sd)%nat.
(* the rank of [sd]'s reading phase *)
Definition Psi (sd : role) (p : pair) (hc hs : list frame) (kc ks : nat) : nat :=
  (4 * length (remf sd hc hs kc ks) + length (e_inbox (ep p sd)) + un p sd + 4 * actn p sd)%nat.
(* how many frames [sd] may still queue *)
Definition cap (sd : role) (p : pair) (hc hs : list frame) (kc ks : nat) : nat :=
  if is_active (stt p sd) then (addn p sd + 1 + length (remf sd hc hs kc ks) + addn p (opp sd))%nat
  else addn p sd.
(* the weight [sd] may still have to read, now or later *)
Definition TW (sd : role) (p : pair) (hc hs : list frame) (kc ks : nat) : nat :=
  (W (remf sd hc hs kc ks) + 140 * cap (opp sd) p hc hs kc ks)%nat.

Lemma opp_opp sd : opp (opp sd) = sd.
Proof. destruct sd; reflexivity. Qed.

Lemma qop_accepted o r : qop o -> accepted o r = [].
Proof. destruct o; try contradiction; reflexivity. Qed.

Lemma onz_nil p sd : outb (ep p sd) = [] -> onz p sd = 0%nat.
Proof. unfold onz. intros ->. reflexivity. Qed.
Lemma onz_le1 p sd : (onz p sd <= 1)%nat.
Proof. unfold onz. destruct (outb (ep p sd)); lia. Qed.
Lemma onz_0 p sd : onz p sd = 0%nat -> outb (ep p sd) = [].
Proof. unfold onz. destruct (outb (ep p sd)); [reflexivity|discriminate]. Qed.
Lemma addn_le1 p sd : (addn p sd <= 1)%nat.
Proof. apply bsome_le1. Qed.
Lemma addn_0 p sd : addn p sd = 0%nat -> x_additional (cx (ep p sd)) = None.
Proof. unfold addn. destruct (x_additional (cx (ep p sd))); [discriminate|reflexivity]. Qed.
Lemma addn_none p sd : x_additional (cx (ep p sd)) = None -> addn p sd = 0%nat.
Proof. unfold addn. intros ->. reflexivity. Qed.
Lemma actn_na p sd : na p sd <-> actn p sd = 0%nat.
Proof. unfold na, actn. destruct (stt p sd); cbn; split; intros H; try reflexivity; try discriminate; try contradiction; congruence. Qed.
Lemma actn_le1 p sd : (actn p sd <= 1)%nat.
Proof. unfold actn. destruct (is_active _); lia. Qed.

(* the numeric summary of one quiet call of [sd] *)
Record qnum (sd : role) (p : pair) (hc hs : list frame) (kc ks : nat) (p1 : pair) (hc1 hs1 : list frame) (kc1 ks1 : nat)
            (o : op) (r : op_result) (nf : list frame) (j : nat) : Prop := mkQnum {
  qn_remme : remf sd hc1 hs1 kc1 ks1 = skipn j (remf sd hc hs kc ks);
  qn_j : (j <= length (remf sd hc hs kc ks))%nat;
  qn_rempe : remf (opp sd) hc1 hs1 kc1 ks1 = remf (opp sd) hc hs kc ks ++ nf;
  qn_pe : e_ctx (ep p1 (opp sd)) = e_ctx (ep p (opp sd)) /\ e_told (ep p1 (opp sd)) = e_told (ep p (opp sd)) /\
          e_dropped (ep p1 (opp sd)) = e_dropped (ep p (opp sd));
  qn_inme : (length (e_inbox (ep p1 sd)) <= length (e_inbox (ep p sd)))%nat;
  qn_bal : exists wr, outb (ep p sd) ++ enc nf = wr ++ outb (ep p1 sd) /\
                      e_inbox (ep p1 (opp sd)) =
                      (if e_dropped (ep p (opp sd)) then e_inbox (ep p (opp sd)) else e_inbox (ep p (opp sd)) ++ wr);
  qn_W : (W nf <= 140 * length nf)%nat;
  qn_act : (actn p1 sd <= actn p sd)%nat;
  qn_cnt : (length nf + addn p1 sd <= addn p sd + actn p sd * (rjo r + iscl o))%nat;
  qn_rj : rjo r = 1%nat -> j = 1%nat;
  qn_cl : iscl o = 1%nat -> actn p1 sd = 0%nat;
  qn_told : e_told (ep p1 sd) = e_told (ep p sd) || is_cc r;
  qn_nd : e_dropped (ep p1 sd) = false;
  qn_J : Je (ep p sd) -> Je (ep p1 sd) }.

Lemma rjo_le1 r : (rjo r <= 1)%nat.
Proof. destruct r as [[m|e|q|]|u|b]; cbn; lia. Qed.
Lemma iscl_le1 o : (iscl o <= 1)%nat.
Proof. destruct o; cbn; lia. Qed.

Lemma qdo_num sd o ch wrs fls p hc hs kc ks p1 hc1 hs1 kc1 ks1 r nf j :
  qop o -> GI p hc hs kc ks -> GI p1 hc1 hs1 kc1 ks1 ->
  step_out sd (ep p sd) (ep p (opp sd)) (hof sd hc hs) (hof (opp sd) hc hs) (kof sd kc ks) o ch wrs fls
           r (ep p1 sd) (ep p1 (opp sd)) nf j ->
  xstep sd (ep p sd) (ep p (opp sd)) o wrs fls r (ep p1 sd) (ep p1 (opp sd)) nf ->
  hof sd hc1 hs1 = hof sd hc hs ++ nf -> kof sd kc1 ks1 = (kof sd kc ks + j)%nat ->
  hof (opp sd) hc1 hs1 = hof (opp sd) hc hs -> kof (opp sd) kc1 ks1 = kof (opp sd) kc ks ->
  qnum sd p hc hs kc ks p1 hc1 hs1 kc1 ks1 o r nf j.
Proof.
  intros Hq G G1 Hso Hxs Eh Ek Ehp Ekp.
  pose proof (GI_epi sd _ _ _ _ _ G1) as Eme1. pose proof (GI_epi (opp sd) _ _ _ _ _ G) as Epe.
  rewrite opp_opp in Epe.
  destruct (so_dropped _ _ _ _ _ _ _ _ _ _ _ _ _ _ _ Hso) as [D1 D2].
  destruct (so_told _ _ _ _ _ _ _ _ _ _ _ _ _ _ _ Hso) as [T1 T2].
  destruct (so_pe _ _ _ _ _ _ _ _ _ _ _ _ _ _ _ Hso) as [P1 _].
  assert (Hact : (actn p1 sd <= actn p sd)%nat).
  { pose proof (so_state _ _ _ _ _ _ _ _ _ _ _ _ _ _ _ Hso) as X. unfold actn, stt.
    destruct (is_active (x_state (cx (ep p sd)))) eqn:E1; [apply actn_le1|].
    destruct (is_active (x_state (cx (ep p1 sd)))) eqn:E2; [|lia].
    apply is_active_true in E2. exfalso. apply X; [|exact E2]. intros Y. rewrite Y in E1. discriminate E1. }
  constructor.
  - unfold remf. rewrite Ek, Ehp. apply skipn_add.
  - pose proof (epi_k _ _ _ _ _ _ Eme1) as Hk. rewrite Ek, Ehp in Hk. unfold remf. rewrite skipn_length. lia.
  - unfold remf. rewrite opp_opp, Ekp, Eh. apply skipn_app_le. exact (epi_k _ _ _ _ _ _ Epe).
  - splits; auto.
  - exact (so_inbox _ _ _ _ _ _ _ _ _ _ _ _ _ _ _ Hso).
  - exact (xs_bal _ _ _ _ _ _ _ _ _ _ Hxs).
  - apply W_small.
    + pose proof (proj1 (epi_frames _ _ _ _ _ _ Eme1)) as X. rewrite Eh in X. apply Forall_app in X. tauto.
    + unfold fd. rewrite <- (so_acc _ _ _ _ _ _ _ _ _ _ _ _ _ _ _ Hso). apply qop_accepted. exact Hq.
  - exact Hact.
  - pose proof (xs_cnt _ _ _ _ _ _ _ _ _ _ Hxs) as X. unfold addn, actn, stt.
    destruct (is_active (x_state (cx (ep p sd)))); lia.
  - intros Hr. pose proof (xs_rj _ _ _ _ _ _ _ _ _ _ Hxs Hr) as Ho.
    destruct (so_read _ _ _ _ _ _ _ _ _ _ _ _ _ _ _ Hso Ho) as [[m [_ Hj]]|[_ [Hx|[Hx|[Hx _]]]]]; [exact Hj| | |];
      rewrite Hx in Hr; discriminate Hr.
  - intros Hc. assert (Hoc : exists c, o = OpClose c) by (destruct o; try discriminate Hc; eauto).
    apply actn_na. exact (xs_close _ _ _ _ _ _ _ _ _ _ Hxs Hoc).
  - exact T1.
  - exact D1.
  - exact (xs_J _ _ _ _ _ _ _ _ _ _ Hxs).
Qed.

(* ------------------------------------------------------------------------------------------ *)
(** * 6. one quiet call of [sd]: what it does to the quantities *)

Section QNum.
Variables (sd : role) (p : pair) (hc hs : list frame) (kc ks : nat) (p1 : pair) (hc1 hs1 : list frame) (kc1 ks1 : nat).
Variables (o : op) (r : op_result) (nf : list frame) (j : nat).
Hypothesis Q : qnum sd p hc hs kc ks p1 hc1 hs1 kc1 ks1 o r nf j.

Lemma qn_onz : nf = [] -> (onz p1 sd <= onz p sd)%nat.
Proof.
  intros ->. destruct (qn_bal _ _ _ _ _ _ _ _ _ _ _ _ _ _ _ Q) as [wr [Hb _]]. rewrite enc_nil, app_nil_r in Hb.
  unfold onz. destruct (outb (ep p1 sd)) as [|b l]; [lia|]. rewrite Hb. destruct wr; cbn; lia.
Qed.

Lemma qn_cnt0 : actn p sd = 0%nat -> (length nf + addn p1 sd <= addn p sd)%nat.
Proof. intros H. pose proof (qn_cnt _ _ _ _ _ _ _ _ _ _ _ _ _ _ _ Q) as X. rewrite H in X. lia. Qed.

Lemma qn_cnt1 : (length nf + addn p1 sd <= addn p sd + rjo r + iscl o)%nat.
Proof.
  pose proof (qn_cnt _ _ _ _ _ _ _ _ _ _ _ _ _ _ _ Q) as X. pose proof (actn_le1 p sd) as Y.
  destruct (actn p sd) as [|[|n]]; lia.
Qed.

Lemma len_nil (l : list frame) : length l = 0%nat -> l = [].
Proof. destruct l; [reflexivity|discriminate]. Qed.

Lemma qn_un_me : na p sd -> (un p1 sd <= un p sd)%nat.
Proof.
  intros Hna. apply actn_na in Hna. pose proof (qn_cnt0 Hna) as Hc.
  pose proof (onz_le1 p1 sd). pose proof (onz_le1 p sd). unfold un.
  destruct (length nf) as [|n] eqn:El.
  - pose proof (qn_onz (len_nil _ El)). lia.
  - lia.
Qed.

Lemma qn_Psi_me : (Psi sd p1 hc1 hs1 kc1 ks1 <= Psi sd p hc hs kc ks)%nat.
Proof.
  unfold Psi, un. rewrite (qn_remme _ _ _ _ _ _ _ _ _ _ _ _ _ _ _ Q), skipn_length.
  pose proof (qn_j _ _ _ _ _ _ _ _ _ _ _ _ _ _ _ Q) as Hj.
  pose proof (qn_inme _ _ _ _ _ _ _ _ _ _ _ _ _ _ _ Q) as Hi.
  pose proof (qn_act _ _ _ _ _ _ _ _ _ _ _ _ _ _ _ Q) as Ha.
  pose proof (qn_rj _ _ _ _ _ _ _ _ _ _ _ _ _ _ _ Q) as Hr.
  pose proof (qn_cl _ _ _ _ _ _ _ _ _ _ _ _ _ _ _ Q) as Hc.
  pose proof qn_cnt1 as C1. pose proof qn_cnt0 as C0.
  pose proof (onz_le1 p1 sd). pose proof (onz_le1 p sd). pose proof (addn_le1 p1 sd). pose proof (addn_le1 p sd).
  pose proof (actn_le1 p sd). pose proof (rjo_le1 r). pose proof (iscl_le1 o).
  destruct (length nf) as [|n] eqn:El.
  - pose proof (qn_onz (len_nil _ El)). lia.
  - lia.
Qed.

(* a settled side changes nothing *)
Lemma qn_QF_me : QF p sd ->
  QF p1 sd /\ nf = [] /\
  e_inbox (ep p1 (opp sd)) = e_inbox (ep p (opp sd)).
Proof.
  intros [Hna [Ha Ho]]. pose proof (proj1 (actn_na _ _) Hna) as Hn0.
  pose proof (qn_cnt0 Hn0) as Hc. rewrite (addn_none _ _ Ha) in Hc.
  assert (Hnf : nf = []) by (apply len_nil; lia).
  destruct (qn_bal _ _ _ _ _ _ _ _ _ _ _ _ _ _ _ Q) as [wr [Hb Hi]].
  rewrite Hnf, Ho, enc_nil in Hb. cbn [app] in Hb. symmetry in Hb. apply app_eq_nil in Hb. destruct Hb as [-> Ho1].
  rewrite app_nil_r in Hi. split; [|split; [exact Hnf|]].
  - split; [|split; [|exact Ho1]].
    + apply actn_na. pose proof (qn_act _ _ _ _ _ _ _ _ _ _ _ _ _ _ _ Q). lia.
    + apply addn_0. lia.
  - rewrite Hi. destruct (e_dropped (ep p (opp sd))); reflexivity.
Qed.

Lemma qn_pe_same :
  stt p1 (opp sd) = stt p (opp sd) /\ addn p1 (opp sd) = addn p (opp sd) /\ onz p1 (opp sd) = onz p (opp sd) /\
  actn p1 (opp sd) = actn p (opp sd) /\ un p1 (opp sd) = un p (opp sd) /\
  (Je (ep p (opp sd)) -> Je (ep p1 (opp sd))) /\ (QF p (opp sd) -> QF p1 (opp sd)).
Proof.
  destruct (qn_pe _ _ _ _ _ _ _ _ _ _ _ _ _ _ _ Q) as [E _].
  unfold stt, addn, onz, actn, un, addn, onz, Je, QF, na, stt, cx, outb. rewrite E. splits; auto.
Qed.

Lemma qn_Psi_pe : QF p sd -> Psi (opp sd) p1 hc1 hs1 kc1 ks1 = Psi (opp sd) p hc hs kc ks.
Proof.
  intros HQ. destruct (qn_QF_me HQ) as [_ [Hnf Hi]].
  destruct qn_pe_same as [_ [_ [_ [A [B _]]]]].
  unfold Psi. rewrite (qn_rempe _ _ _ _ _ _ _ _ _ _ _ _ _ _ _ Q), Hnf, app_nil_r, Hi, A, B. reflexivity.
Qed.

(* the weights *)
Lemma qn_TW_me : (actn p (opp sd) = 1%nat -> actn p sd = 0%nat) ->
  (TW sd p1 hc1 hs1 kc1 ks1 <= TW sd p hc hs kc ks)%nat.
Proof.
  intros Hcl. unfold TW, cap. rewrite (qn_remme _ _ _ _ _ _ _ _ _ _ _ _ _ _ _ Q), opp_opp.
  pose proof (W_skipn j (remf sd hc hs kc ks)) as HW.
  destruct qn_pe_same as [Es [Ea _]]. rewrite Es, Ea.
  rewrite (qn_rempe _ _ _ _ _ _ _ _ _ _ _ _ _ _ _ Q), app_length.
  destruct (is_active (stt p (opp sd))) eqn:E; [|lia].
  assert (H1 : actn p (opp sd) = 1%nat) by (unfold actn; rewrite E; reflexivity).
  pose proof (qn_cnt0 (Hcl H1)). lia.
Qed.

Lemma qn_TW_pe :
  (TW (opp sd) p1 hc1 hs1 kc1 ks1 <= TW (opp sd) p hc hs kc ks)%nat.
Proof.
  unfold TW, cap. rewrite opp_opp, (qn_rempe _ _ _ _ _ _ _ _ _ _ _ _ _ _ _ Q), W_app.
  rewrite (qn_remme _ _ _ _ _ _ _ _ _ _ _ _ _ _ _ Q), skipn_length.
  pose proof (qn_W _ _ _ _ _ _ _ _ _ _ _ _ _ _ _ Q) as HW.
  pose proof (qn_j _ _ _ _ _ _ _ _ _ _ _ _ _ _ _ Q) as Hj.
  pose proof (qn_act _ _ _ _ _ _ _ _ _ _ _ _ _ _ _ Q) as Ha.
  pose proof (qn_rj _ _ _ _ _ _ _ _ _ _ _ _ _ _ _ Q) as Hr.
  pose proof (qn_cl _ _ _ _ _ _ _ _ _ _ _ _ _ _ _ Q) as Hc.
  pose proof qn_cnt1 as C1. pose proof qn_cnt0 as C0.
  pose proof (rjo_le1 r). pose proof (iscl_le1 o).
  destruct qn_pe_same as [_ [Ea _]]. rewrite Ea.
  unfold actn in *.
  destruct (is_active (stt p sd)) eqn:E0; destruct (is_active (stt p1 sd)) eqn:E1; lia.
Qed.

End QNum.

(* ------------------------------------------------------------------------------------------ *)
(** * 7. the invariant of the quiet phase and what every quiet action preserves *)

Definition CL (p : pair) : Prop := na p Client \/ na p Server.

Record Inv (B : nat) (p : pair) (hc hs : list frame) (kc ks : nat) : Prop := mkInv {
  iv_gi : GI p hc hs kc ks;
  iv_cl : CL p;
  iv_tw : forall t, (TW t p hc hs kc ks <= B)%nat }.

Record Rel (p : pair) (hc hs : list frame) (kc ks : nat) (p1 : pair) (hc1 hs1 : list frame) (kc1 ks1 : nat)
  : Prop := mkRel {
  rl_told : forall t, e_told (ep p t) = true -> e_told (ep p1 t) = true;
  rl_drop : forall t, e_dropped (ep p t) = true -> e_dropped (ep p1 t) = true;
  rl_na : forall t, na p t -> na p1 t;
  rl_J : forall t, Je (ep p t) -> Je (ep p1 t);
  rl_QF : forall t, QF p t -> QF p1 t;
  rl_Psi : forall t, QF p (opp t) -> (Psi t p1 hc1 hs1 kc1 ks1 <= Psi t p hc hs kc ks)%nat;
  rl_un : forall t, na p t -> (un p1 t <= un p t)%nat }.

Lemma Rel_refl p hc hs kc ks : Rel p hc hs kc ks p hc hs kc ks.
Proof. constructor; auto. Qed.

Lemma Rel_trans p hc hs kc ks p1 hc1 hs1 kc1 ks1 p2 hc2 hs2 kc2 ks2 :
  Rel p hc hs kc ks p1 hc1 hs1 kc1 ks1 -> Rel p1 hc1 hs1 kc1 ks1 p2 hc2 hs2 kc2 ks2 ->
  Rel p hc hs kc ks p2 hc2 hs2 kc2 ks2.
Proof.
  intros A B. constructor; intros t H.
  - apply (rl_told _ _ _ _ _ _ _ _ _ _ B), (rl_told _ _ _ _ _ _ _ _ _ _ A), H.
  - apply (rl_drop _ _ _ _ _ _ _ _ _ _ B), (rl_drop _ _ _ _ _ _ _ _ _ _ A), H.
  - apply (rl_na _ _ _ _ _ _ _ _ _ _ B), (rl_na _ _ _ _ _ _ _ _ _ _ A), H.
  - apply (rl_J _ _ _ _ _ _ _ _ _ _ B), (rl_J _ _ _ _ _ _ _ _ _ _ A), H.
  - apply (rl_QF _ _ _ _ _ _ _ _ _ _ B), (rl_QF _ _ _ _ _ _ _ _ _ _ A), H.
  - pose proof (rl_Psi _ _ _ _ _ _ _ _ _ _ A t H).
    pose proof (rl_Psi _ _ _ _ _ _ _ _ _ _ B t (rl_QF _ _ _ _ _ _ _ _ _ _ A _ H)). lia.
  - pose proof (rl_un _ _ _ _ _ _ _ _ _ _ A t H).
    pose proof (rl_un _ _ _ _ _ _ _ _ _ _ B t (rl_na _ _ _ _ _ _ _ _ _ _ A _ H)). lia.
Qed.

Lemma role_cases sd t : t = sd \/ t = opp sd.
Proof. destruct sd, t; auto. Qed.

(* an action that touches neither context nor inbox *)
Lemma same_Rel B p hc hs kc ks p1 :
  (forall t, e_ctx (ep p1 t) = e_ctx (ep p t) /\ e_inbox (ep p1 t) = e_inbox (ep p t) /\
             e_told (ep p1 t) = e_told (ep p t) /\ (e_dropped (ep p t) = true -> e_dropped (ep p1 t) = true)) ->
  Rel p hc hs kc ks p1 hc hs kc ks /\ (Inv B p hc hs kc ks -> GI p1 hc hs kc ks -> Inv B p1 hc hs kc ks).
Proof.
  intros H.
  assert (Hc : forall t, cx (ep p1 t) = cx (ep p t)) by (intros t; apply (H t)).
  assert (Ho : forall t, outb (ep p1 t) = outb (ep p t)) by (intros t; unfold outb; rewrite (proj1 (H t)); reflexivity).
  assert (Hs : forall t, stt p1 t = stt p t) by (intros t; unfold stt; rewrite Hc; reflexivity).
  assert (Ha : forall t, addn p1 t = addn p t) by (intros t; unfold addn; rewrite Hc; reflexivity).
  assert (Hz : forall t, onz p1 t = onz p t) by (intros t; unfold onz; rewrite Ho; reflexivity).
  assert (Hn : forall t, actn p1 t = actn p t) by (intros t; unfold actn; rewrite Hs; reflexivity).
  assert (Hi : forall t, e_inbox (ep p1 t) = e_inbox (ep p t)) by (intros t; apply (H t)).
  split.
  - constructor; intros t.
    + destruct (H t) as [_ [_ [-> _]]]. auto.
    + apply (H t).
    + unfold na. rewrite Hs. auto.
    + unfold Je. rewrite Hc. auto.
    + unfold QF, na. rewrite Hs, Hc, Ho. auto.
    + intros _. unfold Psi, un. rewrite Hi, Ha, Hz, Hn. lia.
    + intros _. unfold un. rewrite Ha, Hz. lia.
  - intros [G C T] G1. constructor; [exact G1| |].
    + unfold CL, na in *. rewrite !Hs. exact C.
    + intros t. specialize (T t). unfold TW, cap in *. rewrite Hs, !Ha. exact T.
Qed.

Lemma pdrop_same sd p it p1 :
  Pair.pstep p (PDrop sd) = (it, p1) ->
  forall t, e_ctx (ep p1 t) = e_ctx (ep p t) /\ e_inbox (ep p1 t) = e_inbox (ep p t) /\
            e_told (ep p1 t) = e_told (ep p t) /\ (e_dropped (ep p t) = true -> e_dropped (ep p1 t) = true).
Proof.
  intros H t. destruct sd; cbn [Pair.pstep] in H.
  - destruct (e_told (p_server p)) eqn:E; injection H as _ <-; destruct t; cbn; auto.
  - destruct (e_told (p_client p)) eqn:E; injection H as _ <-; destruct t; cbn; auto.
Qed.

(* one quiet call of a side that has not dropped: everything at once *)
Lemma qdo_full B sd o ch wrs fls p hc hs kc ks it p1 :
  quiet (PDo sd o ch wrs fls) ->
  Inv B p hc hs kc ks -> e_dropped (ep p sd) = false ->
  Pair.pstep p (PDo sd o ch wrs fls) = (it, p1) ->
  exists r hc1 hs1 kc1 ks1 nf j,
    it = PRes sd o r /\ Inv B p1 hc1 hs1 kc1 ks1 /\ Rel p hc hs kc ks p1 hc1 hs1 kc1 ks1 /\
    step_out sd (ep p sd) (ep p (opp sd)) (hof sd hc hs) (hof (opp sd) hc hs) (kof sd kc ks) o ch wrs fls
             r (ep p1 sd) (ep p1 (opp sd)) nf j /\
    xstep sd (ep p sd) (ep p (opp sd)) o wrs fls r (ep p1 sd) (ep p1 (opp sd)) nf /\
    qnum sd p hc hs kc ks p1 hc1 hs1 kc1 ks1 o r nf j.
Proof.
  intros Hq [G C T] Hnd H.
  destruct (qdo_step _ _ _ _ _ _ _ _ _ _ _ _ Hq G Hnd H)
    as [r [hc1 [hs1 [kc1 [ks1 [nf [j [Hit [G1 [Hso [Hxs [Eh [Ek [Ehp Ekp]]]]]]]]]]]]]].
  assert (Hqo : qop o) by (destruct Hq as [_ [X _]]; exact X).
  pose proof (qdo_num _ _ _ _ _ _ _ _ _ _ _ _ _ _ _ _ _ _ Hqo G G1 Hso Hxs Eh Ek Ehp Ekp) as Q.
  exists r, hc1, hs1, kc1, ks1, nf, j. splits; auto.
  - (* Inv *)
    destruct (qn_pe_same _ _ _ _ _ _ _ _ _ _ _ _ _ _ _ Q) as [Es [_ [_ [En _]]]].
    pose proof (qn_act _ _ _ _ _ _ _ _ _ _ _ _ _ _ _ Q) as Ha.
    assert (Hna : forall t, na p t -> na p1 t).
    { intros t Ht. destruct (role_cases sd t) as [-> | ->].
      - apply actn_na. apply actn_na in Ht. lia.
      - unfold na. rewrite Es. exact Ht. }
    constructor; [exact G1| |].
    + destruct C as [X|X]; [left|right]; apply Hna; exact X.
    + intros t. destruct (role_cases sd t) as [-> | ->].
      * eapply Nat.le_trans; [|exact (T sd)]. apply (qn_TW_me _ _ _ _ _ _ _ _ _ _ _ _ _ _ _ Q).
        intros H1. destruct C as [X|X]; destruct sd; cbn [opp] in *; apply actn_na in X; lia.
      * eapply Nat.le_trans; [|exact (T (opp sd))]. apply (qn_TW_pe _ _ _ _ _ _ _ _ _ _ _ _ _ _ _ Q).
  - (* Rel *)
    destruct (qn_pe_same _ _ _ _ _ _ _ _ _ _ _ _ _ _ _ Q) as [Es [_ [_ [En [Eu [EJ EQ]]]]]].
    destruct (qn_pe _ _ _ _ _ _ _ _ _ _ _ _ _ _ _ Q) as [_ [Et Ed]].
    constructor; intros t; destruct (role_cases sd t) as [-> | ->].
    + rewrite (qn_told _ _ _ _ _ _ _ _ _ _ _ _ _ _ _ Q). intros ->. reflexivity.
    + rewrite Et. auto.
    + rewrite Hnd. discriminate.
    + rewrite Ed. auto.
    + intros Ht. apply actn_na. apply actn_na in Ht. pose proof (qn_act _ _ _ _ _ _ _ _ _ _ _ _ _ _ _ Q). lia.
    + unfold na. rewrite Es. auto.
    + exact (qn_J _ _ _ _ _ _ _ _ _ _ _ _ _ _ _ Q).
    + exact EJ.
    + intros X. apply (qn_QF_me _ _ _ _ _ _ _ _ _ _ _ _ _ _ _ Q X).
    + exact EQ.
    + intros _. apply (qn_Psi_me _ _ _ _ _ _ _ _ _ _ _ _ _ _ _ Q).
    + rewrite opp_opp. intros X. rewrite (qn_Psi_pe _ _ _ _ _ _ _ _ _ _ _ _ _ _ _ Q X). lia.
    + apply (qn_un_me _ _ _ _ _ _ _ _ _ _ _ _ _ _ _ Q).
    + intros _. rewrite Eu. lia.
Qed.

(* every quiet action *)
Theorem qstep_inv B a p hc hs kc ks it p1 :
  quiet a -> Inv B p hc hs kc ks -> Pair.pstep p a = (it, p1) ->
  exists hc1 hs1 kc1 ks1, Inv B p1 hc1 hs1 kc1 ks1 /\ Rel p hc hs kc ks p1 hc1 hs1 kc1 ks1.
Proof.
  intros Hq I H. destruct a as [sd o ch wrs fls|sd].
  - destruct (e_dropped (ep p sd)) eqn:Ed.
    + destruct (pstep_do _ _ _ _ _ _ _ _ H) as [[_ [_ ->]]|[X _]]; [|congruence].
      exists hc, hs, kc, ks. split; [exact I|apply Rel_refl].
    + destruct (qdo_full _ _ _ _ _ _ _ _ _ _ _ _ _ Hq I Ed H)
        as [r [hc1 [hs1 [kc1 [ks1 [nf [j [_ [I1 [R1 _]]]]]]]]]].
      exists hc1, hs1, kc1, ks1. split; assumption.
  - pose proof (pdrop_same _ _ _ _ H) as Hs.
    destruct (same_Rel B p hc hs kc ks p1 Hs) as [R1 I1].
    exists hc, hs, kc, ks. split; [|exact R1]. apply I1; [exact I|].
    eapply pdrop_inv; [exact (iv_gi _ _ _ _ _ _ I)|exact H].
Qed.

(* every quiet schedule *)
Theorem qrun_inv B acts : forall p hc hs kc ks items p1,
  Forall quiet acts -> Inv B p hc hs kc ks -> prun p acts = (items, p1) ->
  exists hc1 hs1 kc1 ks1, Inv B p1 hc1 hs1 kc1 ks1 /\ Rel p hc hs kc ks p1 hc1 hs1 kc1 ks1.
Proof.
  induction acts as [|a acts IH]; intros p hc hs kc ks items p1 Hq I H.
  - cbn in H. injection H as _ <-. exists hc, hs, kc, ks. split; [exact I|apply Rel_refl].
  - rewrite prun_cons in H. inversion Hq as [|? ? Ha Hqs]; subst.
    destruct (Pair.pstep p a) as [it pa] eqn:E1. destruct (prun pa acts) as [its pb] eqn:E2.
    injection H as _ <-.
    destruct (qstep_inv _ _ _ _ _ _ _ _ _ Ha I E1) as [hca [hsa [kca [ksa [Ia Ra]]]]].
    destruct (IH _ _ _ _ _ _ _ Hqs Ia E2) as [hcb [hsb [kcb [ksb [Ib Rb]]]]].
    exists hcb, hsb, kcb, ksb. split; [exact Ib|]. eapply Rel_trans; eassumption.
Qed.

(* ------------------------------------------------------------------------------------------ *)
(** * 8. the canonical actions *)

Lemma fair_quiet sd : quiet (fair_flush sd) /\ quiet (fair_read sd) /\ quiet (PDrop sd).
Proof.
  destruct (fair_act_ok sd) as [[_ [A1 A2]] [[_ [B1 B2]] _]].
  unfold fair_flush, fair_read in *. cbn [quiet qop uop_ok]. splits; auto.
Qed.

Lemma told_of_dropped p hc hs kc ks sd : GI p hc hs kc ks -> e_dropped (ep p sd) = true -> e_told (ep p sd) = true.
Proof. intros G H. destruct sd; [exact (gi_ds _ _ _ _ _ G H)|exact (gi_dc _ _ _ _ _ G H)]. Qed.

Lemma told_server_QF p hc hs kc ks : GI p hc hs kc ks -> e_told (p_server p) = true -> QF p Server.
Proof.
  intros G Ht. destruct (gi_ts _ _ _ _ _ G Ht) as [A [B _]].
  pose proof (epi_told _ _ _ _ _ _ (gi_s _ _ _ _ _ G) Ht) as Hs.
  unfold QF, na, stt. cbn [ep]. splits; auto. rewrite Hs. discriminate.
Qed.

(* the Close of a settled side is in its queue *)
Lemma QF_close p hc hs kc ks t :
  GI p hc hs kc ks -> QF p t -> (t = Client -> e_told (p_server p) = false) ->
  existsb isclose (hof t hc hs) = true.
Proof.
  intros G [Hna [Ha _]] Hts. pose proof (GI_epi t _ _ _ _ _ G) as E.
  pose proof (epi_qp _ _ _ _ _ _ E) as HQ. rewrite Ha in HQ. unfold na, stt in Hna.
  destruct (x_state (cx (ep p t))) eqn:Es; cbn in HQ; try (apply endclose_existsb; exact HQ).
  - contradiction.
  - pose proof (epi_term _ _ _ _ _ _ E Es) as Ht. destruct t; cbn [ep hof] in *.
    + eapply gi_server_close; eassumption.
    + pose proof (gi_ds _ _ _ _ _ G (gi_tc _ _ _ _ _ G Ht)) as X. rewrite (Hts eq_refl) in X. discriminate X.
Qed.

Lemma can_flush B sd p hc hs kc ks it p1 :
  Inv B p hc hs kc ks -> Pair.pstep p (fair_flush sd) = (it, p1) ->
  exists hc1 hs1 kc1 ks1, Inv B p1 hc1 hs1 kc1 ks1 /\ Rel p hc hs kc ks p1 hc1 hs1 kc1 ks1 /\
    (e_told (ep p1 sd) = true \/ outb (ep p1 sd) = []).
Proof.
  intros I H. destruct (fair_quiet sd) as [Hq _]. unfold fair_flush in *.
  destruct (e_dropped (ep p sd)) eqn:Ed.
  - destruct (pstep_do _ _ _ _ _ _ _ _ H) as [[_ [_ ->]]|[X _]]; [|congruence].
    exists hc, hs, kc, ks. splits; [exact I|apply Rel_refl|].
    left. eapply told_of_dropped; [exact (iv_gi _ _ _ _ _ _ I)|exact Ed].
  - destruct (qdo_full _ _ _ _ _ _ _ _ _ _ _ _ _ Hq I Ed H)
      as [r [hc1 [hs1 [kc1 [ks1 [nf [j [_ [I1 [R1 [Hso _]]]]]]]]]]].
    exists hc1, hs1, kc1, ks1. splits; auto. right.
    apply (so_fair_flush _ _ _ _ _ _ _ _ _ _ _ _ _ _ _ Hso (conj eq_refl eq_refl) eq_refl).
Qed.

Lemma can_drop B sd p hc hs kc ks it p1 :
  Inv B p hc hs kc ks -> Pair.pstep p (PDrop sd) = (it, p1) ->
  Inv B p1 hc hs kc ks /\ Rel p hc hs kc ks p1 hc hs kc ks /\
  (e_told (ep p sd) = true -> e_dropped (ep p1 sd) = true).
Proof.
  intros I H. pose proof (pdrop_same _ _ _ _ H) as Hs.
  destruct (same_Rel B p hc hs kc ks p1 Hs) as [R1 I1]. splits; auto.
  - apply I1; [exact I|]. eapply pdrop_inv; [exact (iv_gi _ _ _ _ _ _ I)|exact H].
  - intros Ht. destruct (pstep_drop _ _ _ _ H) as [_ [_ [_ [_ [_ [_ [Q7 _]]]]]]]. rewrite Q7, Ht.
    apply Bool.orb_true_r.
Qed.

Lemma un_QF p sd : na p sd -> un p sd = 0%nat -> QF p sd.
Proof.
  intros Hna Hu. unfold un in Hu. split; [exact Hna|]. split; [apply addn_0|apply onz_0]; lia.
Qed.

Lemma can_read B sd p hc hs kc ks it p1 :
  Inv B p hc hs kc ks -> Je (ep p sd) -> Pair.pstep p (fair_read sd) = (it, p1) ->
  exists hc1 hs1 kc1 ks1, Inv B p1 hc1 hs1 kc1 ks1 /\ Rel p hc hs kc ks p1 hc1 hs1 kc1 ks1 /\
    (na p sd -> (un p sd <= 2)%nat -> e_told (ep p1 sd) = true \/ un p1 sd = 0%nat) /\
    (QF p (opp sd) ->
     e_told (ep p1 sd) = true \/
     (Psi sd p1 hc1 hs1 kc1 ks1 < Psi sd p hc hs kc ks)%nat \/
     (QF p1 sd /\ sd = Client /\ e_dropped (ep p Server) = false)).
Proof.
  intros I J0 H. destruct (fair_quiet sd) as [_ [Hq _]]. unfold fair_read in *.
  pose proof (iv_gi _ _ _ _ _ _ I) as G.
  destruct (e_dropped (ep p sd)) eqn:Ed.
  { destruct (pstep_do _ _ _ _ _ _ _ _ H) as [[_ [_ ->]]|[X _]]; [|congruence].
    pose proof (told_of_dropped _ _ _ _ _ _ G Ed) as Ht.
    exists hc, hs, kc, ks. splits; [exact I|apply Rel_refl|auto|auto]. }
  destruct (qdo_full _ _ _ _ _ _ _ _ _ _ _ _ _ Hq I Ed H)
    as [r [hc1 [hs1 [kc1 [ks1 [nf [j [_ [I1 [R1 [Hso [Hxs Q]]]]]]]]]]]].
  exists hc1, hs1, kc1, ks1. split; [exact I1|]. split; [exact R1|].
  destruct (e_told (ep p sd)) eqn:Et.
  { pose proof (rl_told _ _ _ _ _ _ _ _ _ _ R1 sd Et) as Ht1. split; intros; left; exact Ht1. }
  pose proof (GI_epi sd _ _ _ _ _ G) as Eme.
  assert (Hnt : x_state (cx (ep p sd)) <> Terminated).
  { intros X. apply (epi_term _ _ _ _ _ _ Eme) in X. congruence. }
  destruct (xs_fr _ _ _ _ _ _ _ _ _ _ Hxs (conj eq_refl eq_refl) eq_refl J0 Hnt) as [F1 [F2 F3]].
  pose proof (onz_nil _ _ F1) as Hz1.
  pose proof (qn_told _ _ _ _ _ _ _ _ _ _ _ _ _ _ _ Q) as Ht1. rewrite Et in Ht1. cbn [orb] in Ht1.
  pose proof (onz_le1 p sd) as Hz. pose proof (addn_le1 p sd) as Ha. pose proof (addn_le1 p1 sd) as Ha1.
  assert (HF2 : addn p1 sd = 1%nat -> rjo r = 1%nat \/ (onz p sd = 1%nat /\ addn p sd = 1%nat)).
  { intros X. assert (Y : x_additional (cx (ep p1 sd)) <> None).
    { intros Z. rewrite (addn_none _ _ Z) in X. discriminate X. }
    destruct (F2 Y) as [Z|[Z1 Z2]]; [left; exact Z|right]. split.
    - unfold onz. destruct (outb (ep p sd)); [contradiction|reflexivity].
    - unfold addn. destruct (x_additional (cx (ep p sd))); [reflexivity|contradiction]. }
  split.
  - (* pushing out *)
    intros Hna Hu. right. unfold un in *. rewrite Hz1.
    pose proof (qn_cnt0 _ _ _ _ _ _ _ _ _ _ _ _ _ _ _ Q (proj1 (actn_na _ _) Hna)) as Hc.
    destruct (addn p1 sd) as [|[|n]] eqn:Ea1; [reflexivity| |lia]. exfalso.
    assert (Ea : addn p sd = 1%nat) by lia. assert (Hnf : nf = []) by (apply len_nil; lia).
    assert (Ho : outb (ep p sd) = []) by (apply onz_0; lia).
    destruct (so_fair_read _ _ _ _ _ _ _ _ _ _ _ _ _ _ _ Hso (conj eq_refl eq_refl) eq_refl Ho Hnt) as [_ [_ [_ Hq1]]].
    unfold addn in Ea. destruct (x_additional (cx (ep p sd))) as [f|] eqn:Ef; [|discriminate Ea].
    destruct (Hq1 f eq_refl) as [f1 [rest [X _]]]. rewrite Hnf in X. discriminate X.
  - (* draining *)
    intros HQ. pose proof (qn_Psi_me _ _ _ _ _ _ _ _ _ _ _ _ _ _ _ Q) as HP.
    destruct (so_read _ _ _ _ _ _ _ _ _ _ _ _ _ _ _ Hso eq_refl) as [[m [Hr Hj]]|[Hj [Hr|[Hr|[Hr Hs]]]]].
    + (* a frame was consumed *)
      right. left. unfold Psi, un in *. rewrite (qn_remme _ _ _ _ _ _ _ _ _ _ _ _ _ _ _ Q), skipn_length in *.
      pose proof (qn_j _ _ _ _ _ _ _ _ _ _ _ _ _ _ _ Q) as Hjl.
      pose proof (qn_inme _ _ _ _ _ _ _ _ _ _ _ _ _ _ _ Q) as Hi.
      pose proof (qn_act _ _ _ _ _ _ _ _ _ _ _ _ _ _ _ Q) as Hac. subst j. lia.
    + (* blocked *)
      assert (Hrj : rjo r = 0%nat) by (rewrite Hr; reflexivity).
      assert (Hcc : is_cc r = false) by (rewrite Hr; reflexivity).
      assert (Hdec : (un p1 sd < un p sd)%nat \/ (un p1 sd = 0%nat /\ un p sd = 0%nat)).
      { unfold un. rewrite Hz1. destruct (addn p1 sd) as [|[|n]] eqn:Ea1; [|destruct (HF2 eq_refl) as [X|[X1 X2]]|]; lia. }
      destruct Hdec as [Hdec|[Hu1 Hu0]].
      { right. left. unfold Psi in *. rewrite (qn_remme _ _ _ _ _ _ _ _ _ _ _ _ _ _ _ Q), skipn_length in *.
        pose proof (qn_inme _ _ _ _ _ _ _ _ _ _ _ _ _ _ _ Q) as Hi.
        pose proof (qn_act _ _ _ _ _ _ _ _ _ _ _ _ _ _ _ Q) as Hac. lia. }
      assert (Ho : outb (ep p sd) = []) by (apply onz_0; unfold un in Hu0; lia).
      assert (HnS : sd = Server -> closing_done (x_state (cx (ep p sd))) = true -> False).
      { intros E1 Hcd. destruct (F3 E1 Hcd) as [X|[X _]]; [congruence|contradiction]. }
      destruct (so_block _ _ _ _ _ _ _ _ _ _ _ _ _ _ _ Hso Hr) as [Hst [[E1 Hcd]|[data [Hch [Hdrop Hrem]]]]].
      { exfalso. exact (HnS E1 Hcd). }
      destruct (chunks_all _ _ _ Hch) as [[Hi0 Hi1]|Hlt].
      2:{ right. left. unfold Psi in *. rewrite (qn_remme _ _ _ _ _ _ _ _ _ _ _ _ _ _ _ Q), skipn_length in *.
          pose proof (qn_act _ _ _ _ _ _ _ _ _ _ _ _ _ _ _ Q) as Hac. lia. }
      destruct HQ as [Hnap [Hap Hop]]. rewrite Hi1, Hop in Hrem. cbn [app] in Hrem.
      destruct Hrem as [Hrem|X]; [|contradiction].
      assert (Hpd : e_dropped (ep p (opp sd)) = false).
      { destruct (e_dropped (ep p (opp sd))); [exfalso; apply Hdrop; auto|reflexivity]. }
      (* everything consumed, the peer's Close included *)
      assert (Hcl : existsb isclose (hof (opp sd) hc hs) = true).
      { apply (QF_close p hc hs kc ks (opp sd) G); [split; [exact Hnap|split; assumption]|].
        intros E1. destruct sd; [|discriminate E1]. exact Et. }
      pose proof (epi_crs _ _ _ _ _ _ Eme) as Hcrs.
      rewrite (all_consumed _ _ (epi_k _ _ _ _ _ _ Eme) Hrem), Hcl in Hcrs.
      destruct (crs_closed _ Hcrs) as [Hcd|X]; [|contradiction].
      right. right. split; [|split].
      * apply un_QF; [|exact Hu1]. unfold na, stt. rewrite Hst. intros X. rewrite X in Hcd. discriminate Hcd.
      * destruct sd; [exfalso; exact (HnS eq_refl Hcd)|reflexivity].
      * destruct sd; [exfalso; exact (HnS eq_refl Hcd)|exact Hpd].
    + left. rewrite Ht1, Hr. reflexivity.
    + contradiction.
Qed.

(* ------------------------------------------------------------------------------------------ *)
(** * 9. subsequences; the reads of a phase; a whole phase *)

Inductive subseq {A : Type} : list A -> list A -> Prop :=
| ss_nil l : subseq [] l
| ss_take x a l : subseq a l -> subseq (x :: a) (x :: l)
| ss_skip x a l : subseq a l -> subseq a (x :: l).

Lemma subseq_refl {A} (l : list A) : subseq l l.
Proof. induction l; constructor; assumption. Qed.

Lemma subseq_cons_inv {A} (x : A) a l :
  subseq (x :: a) l -> exists l1 l2, l = l1 ++ x :: l2 /\ subseq a l2.
Proof.
  intros H. remember (x :: a) as xa eqn:E. revert x a E.
  induction H as [l|y b l H IH|y b l H IH]; intros x a E.
  - discriminate E.
  - injection E as -> ->. exists [], l. split; [reflexivity|exact H].
  - destruct (IH _ _ E) as [l1 [l2 [-> H2]]]. exists (y :: l1), l2. split; [reflexivity|exact H2].
Qed.

Lemma subseq_app_inv {A} (a b l : list A) :
  subseq (a ++ b) l -> exists l1 l2, l = l1 ++ l2 /\ subseq a l1 /\ subseq b l2.
Proof.
  revert l. induction a as [|x a IH]; intros l H.
  - exists [], l. splits; auto. constructor.
  - cbn [app] in H. destruct (subseq_cons_inv _ _ _ H) as [l1 [l2 [-> H2]]].
    destruct (IH _ H2) as [m1 [m2 [-> [Ha Hb]]]].
    exists (l1 ++ x :: m1), m2. rewrite <- app_assoc. splits; auto.
    clear - Ha. induction l1 as [|y l1 IH1]; cbn [app]; constructor; assumption.
Qed.

Lemma subseq_app {A} (a b l1 l2 : list A) : subseq a l1 -> subseq b l2 -> subseq (a ++ b) (l1 ++ l2).
Proof.
  intros H1 H2. induction H1 as [l|x a l H IH|x a l H IH]; cbn [app].
  - induction l as [|y l IHl]; cbn [app]; [exact H2|constructor; exact IHl].
  - constructor. exact IH.
  - constructor. exact IH.
Qed.

Section Phase.
Variable B : nat.
Variable sd : role.

(* the reads of a phase: n canonical reads of [sd], anything quiet in between *)
Theorem reads_phase n : forall l p hc hs kc ks items p',
  Inv B p hc hs kc ks -> Je (ep p sd) -> Forall quiet l -> subseq (repeat (fair_read sd) n) l ->
  prun p l = (items, p') ->
  exists hc' hs' kc' ks', Inv B p' hc' hs' kc' ks' /\ Rel p hc hs kc ks p' hc' hs' kc' ks' /\
    (na p sd -> (un p sd <= 2)%nat -> (1 <= n)%nat -> e_told (ep p' sd) = true \/ QF p' sd) /\
    (QF p (opp sd) -> (Psi sd p hc hs kc ks < n)%nat ->
     e_told (ep p' sd) = true \/ (QF p' sd /\ sd = Client /\ e_dropped (ep p Server) = false)).
Proof.
  induction n as [|n IH]; intros l p hc hs kc ks items p' I J0 Hq Hs H.
  - destruct (qrun_inv _ _ _ _ _ _ _ _ _ Hq I H) as [hc' [hs' [kc' [ks' [I' R']]]]].
    exists hc', hs', kc', ks'. splits; auto; intros; lia.
  - cbn [repeat] in Hs. destruct (subseq_cons_inv _ _ _ Hs) as [e [l2 [-> Hs2]]].
    apply Forall_app in Hq. destruct Hq as [Hqe Hq2]. inversion Hq2 as [|? ? _ Hq3]; subst.
    rewrite prun_app in H. destruct (prun p e) as [ia pa] eqn:Ea.
    rewrite prun_cons in H. destruct (Pair.pstep pa (fair_read sd)) as [ib pb] eqn:Eb.
    destruct (prun pb l2) as [ic pc] eqn:Ec. injection H as _ <-.
    destruct (qrun_inv _ _ _ _ _ _ _ _ _ Hqe I Ea) as [hca [hsa [kca [ksa [Ia Ra]]]]].
    pose proof (rl_J _ _ _ _ _ _ _ _ _ _ Ra sd J0) as Ja.
    destruct (can_read _ _ _ _ _ _ _ _ _ Ia Ja Eb) as [hcb [hsb [kcb [ksb [Ib [Rb [Pb Db]]]]]]].
    pose proof (rl_J _ _ _ _ _ _ _ _ _ _ Rb sd Ja) as Jb.
    destruct (IH _ _ _ _ _ _ _ _ Ib Jb Hq3 Hs2 Ec) as [hcc [hsc [kcc [ksc [Ic [Rc [Pc Dc]]]]]]].
    pose proof (Rel_trans _ _ _ _ _ _ _ _ _ _ _ _ _ _ _ Ra Rb) as Rab.
    pose proof (Rel_trans _ _ _ _ _ _ _ _ _ _ _ _ _ _ _ Rab Rc) as Rac.
    exists hcc, hsc, kcc, ksc. split; [exact Ic|]. split; [exact Rac|]. split.
    + intros Hna Hu _.
      pose proof (rl_na _ _ _ _ _ _ _ _ _ _ Ra sd Hna) as Hnaa.
      pose proof (rl_un _ _ _ _ _ _ _ _ _ _ Ra sd Hna) as Hua.
      destruct (Pb Hnaa ltac:(lia)) as [Ht|Hu0].
      * left. exact (rl_told _ _ _ _ _ _ _ _ _ _ Rc sd Ht).
      * right. pose proof (rl_na _ _ _ _ _ _ _ _ _ _ Rb sd Hnaa) as Hnab.
        apply (rl_QF _ _ _ _ _ _ _ _ _ _ Rc). apply un_QF; assumption.
    + intros HQ HP.
      pose proof (rl_QF _ _ _ _ _ _ _ _ _ _ Ra _ HQ) as HQa.
      pose proof (rl_Psi _ _ _ _ _ _ _ _ _ _ Ra sd HQ) as HPa.
      assert (Hnd : forall q hq1 hq2 kq1 kq2, Rel p hc hs kc ks q hq1 hq2 kq1 kq2 ->
                e_dropped (ep q Server) = false -> e_dropped (ep p Server) = false).
      { intros q hq1 hq2 kq1 kq2 Rq X. destruct (e_dropped (ep p Server)) eqn:Y; [|reflexivity].
        rewrite (rl_drop _ _ _ _ _ _ _ _ _ _ Rq Server Y) in X. discriminate X. }
      destruct (Db HQa) as [Ht|[Hlt|[HQb [E1 Hd]]]].
      * left. exact (rl_told _ _ _ _ _ _ _ _ _ _ Rc sd Ht).
      * pose proof (rl_QF _ _ _ _ _ _ _ _ _ _ Rb _ HQa) as HQb.
        destruct (Dc HQb ltac:(lia)) as [Ht|[HQc [E1 Hd]]]; [left; exact Ht|right].
        splits; auto. exact (Hnd _ _ _ _ _ Rab Hd).
      * right. splits; auto.
        -- exact (rl_QF _ _ _ _ _ _ _ _ _ _ Rc _ HQb).
        -- exact (Hnd _ _ _ _ _ Ra Hd).
Qed.

(* a whole phase of [sd]: flush, n reads, drop — interleaved with anything quiet *)
Theorem side_phase_fair n l p hc hs kc ks items p' :
  Inv B p hc hs kc ks -> Forall quiet l -> subseq (fair_side sd n) l ->
  prun p l = (items, p') ->
  exists hc' hs' kc' ks', Inv B p' hc' hs' kc' ks' /\ Rel p hc hs kc ks p' hc' hs' kc' ks' /\
    (na p sd -> (1 <= n)%nat -> e_told (ep p' sd) = true \/ QF p' sd) /\
    (QF p (opp sd) -> (Psi sd p hc hs kc ks < n)%nat ->
     (e_told (ep p' sd) = true /\ e_dropped (ep p' sd) = true) \/
     (QF p' sd /\ sd = Client /\ e_dropped (ep p Server) = false)).
Proof.
  intros I Hq Hs H. unfold fair_side in Hs.
  destruct (subseq_cons_inv _ _ _ Hs) as [e0 [l1 [-> Hs1]]].
  destruct (subseq_app_inv _ _ _ Hs1) as [lr [ld [-> [Hsr Hsd]]]].
  destruct (subseq_cons_inv _ _ _ Hsd) as [e1 [e2 [-> _]]].
  apply Forall_app in Hq. destruct Hq as [Hq0 Hq]. inversion Hq as [|? ? _ Hq1]; subst.
  apply Forall_app in Hq1. destruct Hq1 as [Hqr Hq1]. apply Forall_app in Hq1. destruct Hq1 as [Hqe1 Hq1].
  inversion Hq1 as [|? ? _ Hqe2]; subst.
  rewrite prun_app in H. destruct (prun p e0) as [i0 pa] eqn:E0.
  rewrite prun_cons in H. destruct (Pair.pstep pa (fair_flush sd)) as [i1 pb] eqn:E1.
  rewrite prun_app in H. destruct (prun pb lr) as [i2 pc] eqn:E2.
  rewrite prun_app in H. destruct (prun pc e1) as [i3 pd] eqn:E3.
  rewrite prun_cons in H. destruct (Pair.pstep pd (PDrop sd)) as [i4 pe] eqn:E4.
  destruct (prun pe e2) as [i5 pf] eqn:E5. injection H as _ <-.
  destruct (qrun_inv _ _ _ _ _ _ _ _ _ Hq0 I E0) as [hca [hsa [kca [ksa [Ia Ra]]]]].
  destruct (can_flush _ _ _ _ _ _ _ _ _ Ia E1) as [hcb [hsb [kcb [ksb [Ib [Rb Fb]]]]]].
  pose proof (Rel_trans _ _ _ _ _ _ _ _ _ _ _ _ _ _ _ Ra Rb) as Rab.
  (* after the flush: told, or the out_buffer is empty *)
  destruct (qrun_inv _ _ _ _ _ _ _ _ _ Hqr Ib E2) as [hcc0 [hsc0 [kcc0 [ksc0 [Ic0 Rc0]]]]].
  destruct (qrun_inv _ _ _ _ _ _ _ _ _ Hqe1 Ic0 E3) as [hcd0 [hsd0 [kcd0 [ksd0 [Id0 Rd0]]]]].
  destruct (can_drop _ _ _ _ _ _ _ _ _ Id0 E4) as [Ie0 [Re0 De0]].
  destruct (qrun_inv _ _ _ _ _ _ _ _ _ Hqe2 Ie0 E5) as [hcf0 [hsf0 [kcf0 [ksf0 [If0 Rf0]]]]].
  destruct Fb as [Ftold|Fout].
  { (* told already at the flush *)
    pose proof (Rel_trans _ _ _ _ _ _ _ _ _ _ _ _ _ _ _ Rab Rc0) as R1.
    pose proof (Rel_trans _ _ _ _ _ _ _ _ _ _ _ _ _ _ _ R1 Rd0) as R2.
    pose proof (Rel_trans _ _ _ _ _ _ _ _ _ _ _ _ _ _ _ R2 Re0) as R3.
    pose proof (Rel_trans _ _ _ _ _ _ _ _ _ _ _ _ _ _ _ R3 Rf0) as R4.
    pose proof (rl_told _ _ _ _ _ _ _ _ _ _ Rd0 sd (rl_told _ _ _ _ _ _ _ _ _ _ Rc0 sd Ftold)) as Td.
    pose proof (rl_told _ _ _ _ _ _ _ _ _ _ Rf0 sd (rl_told _ _ _ _ _ _ _ _ _ _ Re0 sd Td)) as Tf.
    pose proof (rl_drop _ _ _ _ _ _ _ _ _ _ Rf0 sd (De0 Td)) as Df.
    exists hcf0, hsf0, kcf0, ksf0. splits; auto. }
  assert (Jb : Je (ep pb sd)) by (left; exact Fout).
  assert (Ub : (un pb sd <= 2)%nat).
  { unfold un. rewrite (onz_nil _ _ Fout). pose proof (addn_le1 pb sd). lia. }
  destruct (reads_phase n _ _ _ _ _ _ _ _ Ib Jb Hqr Hsr E2) as [hcc [hsc [kcc [ksc [Ic [Rc [Pc Dc]]]]]]].
  destruct (qrun_inv _ _ _ _ _ _ _ _ _ Hqe1 Ic E3) as [hcd [hsd [kcd [ksd [Id Rd]]]]].
  destruct (can_drop _ _ _ _ _ _ _ _ _ Id E4) as [Ie [Re De]].
  destruct (qrun_inv _ _ _ _ _ _ _ _ _ Hqe2 Ie E5) as [hcf [hsf [kcf [ksf [If_ Rf]]]]].
  pose proof (Rel_trans _ _ _ _ _ _ _ _ _ _ _ _ _ _ _ Rd Re) as Rde.
  pose proof (Rel_trans _ _ _ _ _ _ _ _ _ _ _ _ _ _ _ Rde Rf) as Rdf.
  pose proof (Rel_trans _ _ _ _ _ _ _ _ _ _ _ _ _ _ _ Rab Rc) as Rac.
  pose proof (Rel_trans _ _ _ _ _ _ _ _ _ _ _ _ _ _ _ Rac Rdf) as Raf.
  exists hcf, hsf, kcf, ksf. split; [exact If_|]. split; [exact Raf|]. split.
  - intros Hna Hn. pose proof (rl_na _ _ _ _ _ _ _ _ _ _ Rab sd Hna) as Hnab.
    destruct (Pc Hnab Ub Hn) as [Ht|HQ].
    + left. exact (rl_told _ _ _ _ _ _ _ _ _ _ Rdf sd Ht).
    + right. exact (rl_QF _ _ _ _ _ _ _ _ _ _ Rdf sd HQ).
  - intros HQ HP.
    pose proof (rl_QF _ _ _ _ _ _ _ _ _ _ Rab _ HQ) as HQb.
    pose proof (rl_Psi _ _ _ _ _ _ _ _ _ _ Rab sd HQ) as HPb.
    destruct (Dc HQb ltac:(lia)) as [Ht|[HQc [E Hd]]].
    + left. pose proof (rl_told _ _ _ _ _ _ _ _ _ _ Rd sd Ht) as Td. split.
      * exact (rl_told _ _ _ _ _ _ _ _ _ _ Rf sd (rl_told _ _ _ _ _ _ _ _ _ _ Re sd Td)).
      * exact (rl_drop _ _ _ _ _ _ _ _ _ _ Rf sd (De Td)).
    + right. splits; auto.
      * exact (rl_QF _ _ _ _ _ _ _ _ _ _ Rdf sd HQc).
      * destruct (e_dropped (ep p Server)) eqn:Y; [|reflexivity].
        rewrite (rl_drop _ _ _ _ _ _ _ _ _ _ Rab Server Y) in Hd. discriminate Hd.
Qed.

End Phase.

(* ------------------------------------------------------------------------------------------ *)
(** * 10. the four phases *)

(* the canonical schedule of PairLiveP: two fair rounds *)
Definition rounds (n : nat) : list paction := fair_round n ++ fair_round n.

(* a fair schedule: quiet actions only, and the canonical two rounds occur in it, in order *)
Definition fair_enough (n : nat) (acts : list paction) : Prop :=
  Forall quiet acts /\ subseq (rounds n) acts.

Lemma Psi_le_TW sd p hc hs kc ks :
  GI p hc hs kc ks -> e_dropped (ep p sd) = false ->
  (Psi sd p hc hs kc ks <= 4 * TW sd p hc hs kc ks + 7)%nat.
Proof.
  intros G Hnd. pose proof (Mq_le_W sd _ _ _ _ _ G Hnd) as H. unfold Mq, kme, hpe in H.
  unfold Psi, TW, un. fold (remf sd hc hs kc ks) in H.
  pose proof (addn_le1 p sd). pose proof (onz_le1 p sd). pose proof (actn_le1 p sd). lia.
Qed.

Theorem four_phases B n p hc hs kc ks acts items p' :
  Inv B p hc hs kc ks -> (4 * B + 7 < n)%nat -> fair_enough n acts ->
  prun p acts = (items, p') -> both_closed p'.
Proof.
  intros I0 Hn [Hq Hs] H. unfold rounds, fair_round in Hs.
  destruct (subseq_app_inv _ _ _ Hs) as [l12 [l34 [-> [Hs12 Hs34]]]].
  destruct (subseq_app_inv _ _ _ Hs12) as [l1 [l2 [-> [Hs1 Hs2]]]].
  destruct (subseq_app_inv _ _ _ Hs34) as [l3 [l4 [-> [Hs3 Hs4]]]].
  apply Forall_app in Hq. destruct Hq as [Hq12 Hq34].
  apply Forall_app in Hq12. destruct Hq12 as [Hq1 Hq2].
  apply Forall_app in Hq34. destruct Hq34 as [Hq3 Hq4].
  rewrite prun_app in H. destruct (prun p (l1 ++ l2)) as [i12 pb] eqn:E12.
  destruct (prun pb (l3 ++ l4)) as [i34 pd] eqn:E34. injection H as _ <-.
  rewrite prun_app in E12. destruct (prun p l1) as [i1 pa] eqn:E1. destruct (prun pa l2) as [i2 pb'] eqn:E2.
  injection E12 as _ ->.
  rewrite prun_app in E34. destruct (prun pb l3) as [i3 pc] eqn:E3. destruct (prun pc l4) as [i4 pd'] eqn:E4.
  injection E34 as _ ->.
  assert (Hn1 : (1 <= n)%nat) by lia.
  assert (HPsi : forall sd q hq1 hq2 kq1 kq2, Inv B q hq1 hq2 kq1 kq2 -> e_dropped (ep q sd) = false ->
                  (Psi sd q hq1 hq2 kq1 kq2 < n)%nat).
  { intros sd q hq1 hq2 kq1 kq2 Iq Hd. pose proof (Psi_le_TW sd _ _ _ _ _ (iv_gi _ _ _ _ _ _ Iq) Hd) as X.
    pose proof (iv_tw _ _ _ _ _ _ Iq sd) as Y. lia. }
  (* round 1, server *)
  destruct (side_phase_fair B Server n _ _ _ _ _ _ _ _ I0 Hq1 Hs1 E1) as [hca [hsa [kca [ksa [Ia [Ra [Pa _]]]]]]].
  pose proof (iv_gi _ _ _ _ _ _ Ia) as Ga.
  (* round 1, client *)
  destruct (side_phase_fair B Client n _ _ _ _ _ _ _ _ Ia Hq2 Hs2 E2) as [hcb [hsb [kcb [ksb [Ib [Rb [Pb Db]]]]]]].
  pose proof (iv_gi _ _ _ _ _ _ Ib) as Gb.
  assert (MC : e_told (ep pb Client) = true \/ QF pb Client).
  { destruct (is_active (stt pa Client)) eqn:Eac.
    - (* the client is still Active: the server is not, and has settled in its phase *)
      assert (Hnas : na p Server).
      { destruct (iv_cl _ _ _ _ _ _ I0) as [X|X]; [|exact X]. exfalso.
        pose proof (rl_na _ _ _ _ _ _ _ _ _ _ Ra Client X) as Y. unfold na in Y.
        destruct (stt pa Client); try discriminate Eac. contradiction. }
      assert (HQs : QF pa (opp Client)).
      { cbn [opp]. destruct (Pa Hnas Hn1) as [Ht|HQ]; [|exact HQ]. eapply told_server_QF; eassumption. }
      destruct (e_dropped (ep pa Client)) eqn:Edc.
      + left. apply (rl_told _ _ _ _ _ _ _ _ _ _ Rb Client). eapply told_of_dropped; eassumption.
      + destruct (Db HQs (HPsi Client _ _ _ _ _ Ia Edc)) as [[Ht _]|[HQ _]]; [left; exact Ht|right; exact HQ].
    - apply Pb; [|exact Hn1]. unfold na. intros X. rewrite X in Eac. discriminate Eac. }
  (* round 2, server *)
  destruct (side_phase_fair B Server n _ _ _ _ _ _ _ _ Ib Hq3 Hs3 E3) as [hcc [hsc [kcc [ksc [Ic [Rc [_ Dc]]]]]]].
  pose proof (iv_gi _ _ _ _ _ _ Ic) as Gc.
  assert (MS : e_told (ep pc Server) = true /\ e_dropped (ep pc Server) = true).
  { assert (Hdone : e_dropped (ep pb Server) = true ->
                    e_told (ep pc Server) = true /\ e_dropped (ep pc Server) = true).
    { intros Hd. split.
      - apply (rl_told _ _ _ _ _ _ _ _ _ _ Rc Server). eapply told_of_dropped; eassumption.
      - exact (rl_drop _ _ _ _ _ _ _ _ _ _ Rc Server Hd). }
    destruct (e_dropped (ep pb Server)) eqn:Eds; [apply Hdone; reflexivity|].
    destruct MC as [Ht|HQ].
    - exfalso. cbn [ep] in *. rewrite (gi_tc _ _ _ _ _ Gb Ht) in Eds. discriminate Eds.
    - destruct (Dc HQ (HPsi Server _ _ _ _ _ Ib Eds)) as [X|[_ [X _]]]; [exact X|discriminate X]. }
  destruct MS as [Tsc Dsc].
  (* round 2, client *)
  destruct (side_phase_fair B Client n _ _ _ _ _ _ _ _ Ic Hq4 Hs4 E4) as [hcd [hsd [kcd [ksd [Id [Rd [_ Dd]]]]]]].
  pose proof (iv_gi _ _ _ _ _ _ Id) as Gd.
  assert (Tsd : e_told (ep pd Server) = true) by exact (rl_told _ _ _ _ _ _ _ _ _ _ Rd Server Tsc).
  assert (Dsd : e_dropped (ep pd Server) = true) by exact (rl_drop _ _ _ _ _ _ _ _ _ _ Rd Server Dsc).
  assert (Hc : e_told (ep pd Client) = true /\ e_dropped (ep pd Client) = true).
  { destruct (e_dropped (ep pc Client)) eqn:Edc.
    - split.
      + apply (rl_told _ _ _ _ _ _ _ _ _ _ Rd Client). eapply told_of_dropped; eassumption.
      + exact (rl_drop _ _ _ _ _ _ _ _ _ _ Rd Client Edc).
    - assert (HQs : QF pc (opp Client)) by (cbn [opp]; eapply told_server_QF; eassumption).
      destruct (Dd HQs (HPsi Client _ _ _ _ _ Ic Edc)) as [X|[_ [_ X]]]; [exact X|].
      rewrite Dsc in X. discriminate X. }
  destruct Hc as [Tcd Dcd]. unfold both_closed. cbn [ep] in *. auto.
Qed.

(* ------------------------------------------------------------------------------------------ *)
(** * 11. from every reachable state, with an explicit bound *)

Definition tbound (p : pair) : nat := let w := (2 * inflight p + 15)%nat in (w + 140 * (3 + w))%nat.
Definition nbound' (p : pair) : nat := (4 * tbound p + 8)%nat.

Lemma init_Inv p hc hs kc ks :
  GI p hc hs kc ks -> closing p -> e_dropped (p_client p) = false -> Inv (tbound p) p hc hs kc ks.
Proof.
  intros G Hcl Edc.
  assert (Hwc : (W (remf Client hc hs kc ks) <= 2 * inflight p + 15)%nat).
  { unfold remf. cbn [kof hof opp].
    pose proof (codec_at_W _ _ _ (epi_at _ _ _ _ _ _ (gi_c _ _ _ _ _ G) Edc)) as X.
    rewrite app_length in X. unfold inflight, cx. unfold cx in X. lia. }
  assert (Hws : (W (remf Server hc hs kc ks) <= 2 * inflight p + 15)%nat).
  { unfold remf. cbn [kof hof opp]. destruct (e_dropped (p_server p)) eqn:Eds.
    - destruct (gi_ts _ _ _ _ _ G (gi_ds _ _ _ _ _ G Eds)) as [_ [_ Hc]].
      rewrite (close_consumed_all _ _ _ _ (epi_qp _ _ _ _ _ _ (gi_c _ _ _ _ _ G)) Hc). cbn. lia.
    - pose proof (codec_at_W _ _ _ (epi_at _ _ _ _ _ _ (gi_s _ _ _ _ _ G) Eds)) as X.
      rewrite app_length in X. unfold inflight, cx. unfold cx in X. lia. }
  constructor; [exact G|exact Hcl|].
  assert (Hcap : forall t, (cap t p hc hs kc ks <= 3 + W (remf t hc hs kc ks))%nat).
  { intros t. unfold cap. pose proof (addn_le1 p t). pose proof (addn_le1 p (opp t)).
    pose proof (W_len (remf t hc hs kc ks)). destruct (is_active (stt p t)); lia. }
  intros t. unfold TW, tbound. cbv zeta. specialize (Hcap (opp t)).
  destruct t; cbn [opp] in *; lia.
Qed.

Lemma quiet_all_ok acts : Forall quiet acts -> Forall act_ok acts.
Proof. intros H. eapply Forall_impl; [|exact H]. exact quiet_act_ok. Qed.

(* Liveness under every fair interleaving: from EVERY reachable state in which the handshake has started,
   every quiet schedule that contains the two canonical rounds (n reads per side and round, n above an
   explicit bound) as a subsequence ends with both sides told and dropped; the extended run is again a
   reachable run. *)
Theorem liveness_fair cfg_c cfg_s keys acts items p n acts2 items2 p2 :
  reach cfg_c cfg_s keys acts items p -> closing p -> (nbound' p <= n)%nat ->
  fair_enough n acts2 -> prun p acts2 = (items2, p2) ->
  both_closed p2 /\ reach cfg_c cfg_s keys (acts ++ acts2) (items ++ items2) p2.
Proof.
  intros H Hcl Hn Hf H2. destruct (reach_GI _ _ _ _ _ _ H) as [hc [hs [kc [ks G]]]].
  assert (Hok : Forall act_ok acts2) by (apply quiet_all_ok; apply Hf).
  split; [|eapply reach_extend; eassumption].
  destruct (e_dropped (p_client p)) eqn:Edc.
  { eapply both_closed_keep; try eassumption.
    eapply client_told_done; [exact G|exact (gi_dc _ _ _ _ _ G Edc)|exact Edc]. }
  eapply (four_phases (tbound p)); [apply init_Inv; eassumption| |exact Hf|exact H2].
  unfold nbound' in Hn. lia.
Qed.

(* the whole property for a fair schedule: completion, no protocol error / panic over the whole run, and
   the server is told (and has dropped) before the client is told *)
Theorem handshake_completes_fair cfg_c cfg_s keys acts items p n acts2 items2 p2 :
  reach cfg_c cfg_s keys acts items p -> closing p -> (nbound' p <= n)%nat ->
  fair_enough n acts2 -> prun p acts2 = (items2, p2) ->
  both_closed p2 /\ reach cfg_c cfg_s keys (acts ++ acts2) (items ++ items2) p2 /\
  Forall it_clean (items ++ items2) /\
  (forall pre o r post, items ++ items2 = pre ++ PRes Client o r :: post -> is_cc r = true ->
     existsb (it_cc Server) pre = true /\ existsb (it_drop Server) pre = true).
Proof.
  intros H Hcl Hn Hf H2.
  destruct (liveness_fair _ _ _ _ _ _ _ _ _ _ H Hcl Hn Hf H2) as [Hb Hr].
  split; [exact Hb|]. split; [exact Hr|]. split; [exact (safety_clean _ _ _ _ _ _ Hr)|].
  intros pre o r post E Hc. exact (safety_order_trace _ _ _ _ _ _ _ _ _ _ Hr E Hc).
Qed.

(* ------------------------------------------------------------------------------------------ *)
(** * 12. the order of the two sides within a round is irrelevant *)

(* a round with the server's part first (true) or the client's part first (false) *)
Definition ord_round (server_first : bool) (n : nat) : list paction :=
  if server_first then fair_side Server n ++ fair_side Client n else fair_side Client n ++ fair_side Server n.

Lemma fair_side_quiet sd n : Forall quiet (fair_side sd n).
Proof.
  destruct (fair_quiet sd) as [A [B C]]. unfold fair_side. constructor; [exact A|].
  apply Forall_app. split; [|constructor; [exact C|constructor]].
  apply Forall_forall. intros a Ha. apply repeat_spec in Ha. subst a. exact B.
Qed.

Lemma ord_round_quiet b n : Forall quiet (ord_round b n).
Proof. destruct b; apply Forall_app; split; apply fair_side_quiet. Qed.

Lemma subseq_app_l {A} (a l m : list A) : subseq a l -> subseq a (l ++ m).
Proof. intros H. rewrite <- (app_nil_r a). apply subseq_app; [exact H|constructor]. Qed.
Lemma subseq_app_r {A} (a l m : list A) : subseq a m -> subseq a (l ++ m).
Proof. intros H. change a with ([] ++ a). apply subseq_app; [constructor|exact H]. Qed.

Lemma ord_round_has b n sd : subseq (fair_side sd n) (ord_round b n).
Proof.
  destruct b, sd; cbn [ord_round]; (apply subseq_app_l; apply subseq_refl) || (apply subseq_app_r; apply subseq_refl).
Qed.

(* four rounds, each in either order, contain the canonical two rounds *)
Lemma four_rounds_fair b1 b2 b3 b4 n :
  fair_enough n (ord_round b1 n ++ ord_round b2 n ++ ord_round b3 n ++ ord_round b4 n).
Proof.
  split.
  - apply Forall_app; split; [apply ord_round_quiet|]. apply Forall_app; split; [apply ord_round_quiet|].
    apply Forall_app; split; apply ord_round_quiet.
  - unfold rounds, fair_round. rewrite <- !app_assoc.
    apply subseq_app; [apply ord_round_has|]. apply subseq_app; [apply ord_round_has|].
    apply subseq_app; apply ord_round_has.
Qed.

(* three rounds whose last is server-first, or two server-first rounds after any round, ...: the
   general criterion is [fair_enough]; two useful instances: *)
Lemma three_rounds_fair b1 b2 n :
  fair_enough n (ord_round b1 n ++ ord_round b2 n ++ ord_round true n).
Proof.
  split.
  - apply Forall_app; split; [apply ord_round_quiet|]. apply Forall_app; split; apply ord_round_quiet.
  - unfold rounds, fair_round. rewrite <- !app_assoc.
    apply subseq_app; [apply ord_round_has|]. apply subseq_app; [apply ord_round_has|].
    cbn [ord_round]. apply subseq_refl.
Qed.

Lemma three_client_first_fair n :
  fair_enough n (ord_round false n ++ ord_round false n ++ ord_round false n).
Proof.
  split.
  - apply Forall_app; split; [apply ord_round_quiet|]. apply Forall_app; split; apply ord_round_quiet.
  - unfold rounds, fair_round, ord_round. rewrite <- !app_assoc.
    apply subseq_app_r. apply subseq_app; [apply subseq_refl|].
    apply subseq_app; [apply subseq_refl|]. apply subseq_app; [apply subseq_refl|].
    apply subseq_app_l. apply subseq_refl.
Qed.

Theorem liveness_any_order cfg_c cfg_s keys acts items p n b1 b2 b3 b4 items2 p2 :
  reach cfg_c cfg_s keys acts items p -> closing p -> (nbound' p <= n)%nat ->
  prun p (ord_round b1 n ++ ord_round b2 n ++ ord_round b3 n ++ ord_round b4 n) = (items2, p2) ->
  both_closed p2 /\
  reach cfg_c cfg_s keys (acts ++ ord_round b1 n ++ ord_round b2 n ++ ord_round b3 n ++ ord_round b4 n)
        (items ++ items2) p2.
Proof. intros H Hcl Hn H2. eapply liveness_fair; try eassumption. apply four_rounds_fair. Qed.

Theorem liveness_client_first cfg_c cfg_s keys acts items p n items2 p2 :
  reach cfg_c cfg_s keys acts items p -> closing p -> (nbound' p <= n)%nat ->
  prun p (ord_round false n ++ ord_round false n ++ ord_round false n) = (items2, p2) ->
  both_closed p2 /\
  reach cfg_c cfg_s keys (acts ++ ord_round false n ++ ord_round false n ++ ord_round false n)
        (items ++ items2) p2.
Proof. intros H Hcl Hn H2. eapply liveness_fair; try eassumption. apply three_client_first_fair. Qed.
