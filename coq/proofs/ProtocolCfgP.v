(* proofs/ProtocolCfgP.v — set_config with an arbitrary new configuration at any point of a history
   (ProtocolCfg.run_xops): the inbound-limit statements of C06 and the no-panic / bounded-work statements
   of C07 lifted to histories in which the limits change, also in the middle of a fragmented message.

   Layout:
     1. events appended by one call (append form of the log clauses of LimitsP): the write path appends
        no reservation; read_frame appends reservations within max F 6
     2. dispatch / read_message_frame / read_loop / read for ANY configuration (no hypothesis that the
        limits are finite): F := limit_of max_frame_size; the clauses about the message limit are stated
        for every M with max_message_size = Some M, and the accumulator clauses for every Mx >= M
        (the accumulator may be larger than the limit in force: the limit was lowered mid-message)
     3. run_op / set_config / run_xop
     4. run_xops: embedding of run_ops, statements in the form used by props/C06b.v and props/C07cfg.v *)
From TungModel Require Import Base Coding Mask Header Frame Utf8 World Message Codec Protocol ProtocolCfg.
From TungModel.proofs Require Import LimitsP.
From Coq Require Import Lia ZifyBool ZifyNat ZifyN.

#[local] Arguments N.add : simpl never.
#[local] Arguments N.sub : simpl never.
#[local] Arguments N.mul : simpl never.
#[local] Arguments N.ltb : simpl never.
#[local] Arguments N.leb : simpl never.
#[local] Arguments N.eqb : simpl never.
#[local] Arguments N.min : simpl never.
#[local] Arguments N.max : simpl never.
#[local] Arguments N.of_nat : simpl never.
#[local] Arguments N.to_nat : simpl never.

(* ====================================================================== *)
(* part 1: events appended by one call *)

(* not a reservation *)
Definition nores (e : event) : Prop := match e with EvReserve _ => False | _ => True end.

(* w' is w with events satisfying P appended to the log *)
Definition grows (P : event -> Prop) (w w' : world) : Prop :=
  exists evs, w_log w' = w_log w ++ evs /\ Forall P evs.

Lemma grows_refl (P : event -> Prop) w : grows P w w.
Proof. exists []. split; [symmetry; apply app_nil_r|constructor]. Qed.

Lemma grows_trans (P : event -> Prop) w w1 w2 : grows P w w1 -> grows P w1 w2 -> grows P w w2.
Proof.
  intros [e1 [L1 F1]] [e2 [L2 F2]]. exists (e1 ++ e2). split.
  - rewrite L2, L1, app_assoc. reflexivity.
  - apply Forall_app. split; assumption.
Qed.

Lemma grows_impl (P Q : event -> Prop) w w' : (forall e, P e -> Q e) -> grows P w w' -> grows Q w w'.
Proof. intros H [evs [L Hf]]. exists evs. split; [exact L|]. eapply Forall_impl; [exact H|exact Hf]. Qed.

Lemma grows_one (P : event -> Prop) w e : P e -> grows P w (w_emit w e).
Proof. intros H. exists [e]. split; [reflexivity|repeat constructor; exact H]. Qed.

Lemma nores_rsv F e : nores e -> rsv_ok F e.
Proof. destruct e; cbn; tauto. Qed.

Lemma write_out_loop_grow : forall wrs out log r out' wrs' log',
  write_out_loop wrs out log = (r, out', wrs', log') ->
  exists evs, log' = log ++ evs /\ Forall nores evs.
Proof.
  assert (H1 : forall (log : list event) e, nores e -> exists evs, log ++ [e] = log ++ evs /\ Forall nores evs).
  { intros log e He. exists [e]. split; [reflexivity|repeat constructor; exact He]. }
  assert (H0 : forall log : list event, exists evs, log = log ++ evs /\ Forall nores evs).
  { intros log. exists []. split; [symmetry; apply app_nil_r|constructor]. }
  induction wrs as [|wr wrs IH]; intros out log r out' wrs' log'; destruct out as [|o out]; cbn [write_out_loop].
  - intros H; inversion H; subst. apply H0.
  - intros H; inversion H; subst. apply H1. exact I.
  - intros H; inversion H; subst. apply H0.
  - destruct wr as [n|k].
    + destruct (N.min n (blen (o :: out)) =? 0).
      * intros H; inversion H; subst. apply H1. exact I.
      * intros H. apply IH in H. destruct H as [evs [E Hf]].
        eexists (_ :: evs). split; [rewrite E, <- app_assoc; reflexivity|]. constructor; [exact I|exact Hf].
    + intros H; inversion H; subst. apply H1. exact I.
Qed.

Lemma wob_grow c w r c' w' : write_out_buffer c w = (r, c', w') -> grows nores w w'.
Proof.
  unfold write_out_buffer.
  destruct (write_out_loop (w_wrs w) (c_out c) (w_log w)) as [[[r0 out0] wrs0] log0] eqn:E.
  apply write_out_loop_grow in E. intros H; inversion H; subst. exact E.
Qed.

Lemma cbf_grow c f w r c' w' : codec_buffer_frame c f w = (r, c', w') -> grows nores w w'.
Proof.
  unfold codec_buffer_frame.
  destruct (c_max_out c <? frame_len f + blen (c_out c)).
  - intros H; inversion H; subst. apply grows_refl.
  - destruct (c_write_len c <? blen (c_out (set_out c (frame_format_into_buf (c_out c) f)))).
    + intros H. apply wob_grow in H. eapply grows_trans; [|exact H]. apply grows_one. exact I.
    + intros H; inversion H; subst. apply grows_one. exact I.
Qed.

Lemma next_key_grow w k w' : w_next_key w = (k, w') -> grows nores w w'.
Proof.
  unfold w_next_key. destruct (w_keys w); intros H; inversion H; subst.
  - apply grows_refl.
  - exists []. cbn [w_log]. split; [symmetry; apply app_nil_r|constructor].
Qed.

Lemma w_flush_grow w r w' : w_flush w = (r, w') -> grows nores w w'.
Proof.
  unfold w_flush. destruct (w_fls w) as [|[|k] fl]; intros H; inversion H; subst;
    (exists [EvFlush _] || idtac); eexists; (split; [reflexivity|repeat constructor]).
Qed.

Lemma buffer_frame_grow x f w r x' w' : buffer_frame x f w = (r, x', w') -> grows nores w w'.
Proof.
  unfold buffer_frame. destruct (x_role x).
  - destruct (codec_buffer_frame (x_codec x) f w) as [[r0 c0] w0] eqn:E. apply cbf_grow in E.
    destruct (check_connection_reset r0 (x_state x)) as [r1 s1].
    intros H; inversion H; subst. exact E.
  - destruct (w_next_key w) as [k wk] eqn:Ek. apply next_key_grow in Ek.
    match goal with |- context [codec_buffer_frame ?c ?g ?ww] =>
      destruct (codec_buffer_frame c g ww) as [[r0 c0] w0] eqn:E end.
    apply cbf_grow in E.
    destruct (check_connection_reset r0 (x_state x)) as [r1 s1].
    intros H; inversion H; subst. eapply grows_trans; eassumption.
Qed.

Ltac grow_done H :=
  inversion H; subst; clear H;
  solve [ apply grows_refl | eassumption
        | eapply grows_trans; [eassumption|eassumption]
        | eapply grows_trans; [eassumption|eapply grows_trans; [eassumption|eassumption]] ].

Lemma write__grow x data w r x' w' : write_ x data w = (r, x', w') -> grows nores w w'.
Proof.
  unfold write_.
  assert (HA : exists r0 x0 w0,
    match data with Some f => buffer_frame x f w | None => (ROk tt, x, w) end = (r0, x0, w0) /\
    grows nores w w0).
  { destruct data as [f|].
    - destruct (buffer_frame x f w) as [[r0 x0] w0] eqn:E. apply buffer_frame_grow in E.
      exists r0, x0, w0. tauto.
    - exists (ROk tt), x, w. split; [reflexivity|apply grows_refl]. }
  destruct HA as [r0 [x0 [w0 [EA GA]]]]. rewrite EA. clear EA.
  destruct r0 as [u|e|s|]; try (intros H; grow_done H).
  destruct (x_additional x0) as [msg|] eqn:Ea.
  - destruct (buffer_frame (set_additional_raw x0 None) msg w0) as [[rb xb] wb] eqn:E.
    apply buffer_frame_grow in E.
    assert (G1 : grows nores w wb) by (eapply grows_trans; eassumption).
    clear GA E.
    assert (Htail : forall (sf : bool) (x1 : ctx),
      (if role_eqb (x_role x1) Server && closing_done (x_state x1) &&
          match x_additional x1 with Some _ => false | None => true end
       then let '(rw, c', w2) := write_out_buffer (x_codec x1) wb in
            match rw with
            | ROk _ => (RErr EConnectionClosed, set_state (set_codec x1 c') Terminated, w2)
            | RErr e => (RErr e, set_codec x1 c', w2)
            | RPanic s => (RPanic s, set_codec x1 c', w2)
            | ROutOfFuel => (ROutOfFuel, set_codec x1 c', w2)
            end
       else (ROk sf, x1, wb)) = (r, x', w') -> grows nores w w').
    { intros sf x1.
      destruct (role_eqb (x_role x1) Server && closing_done (x_state x1) &&
                match x_additional x1 with Some _ => false | None => true end).
      - destruct (write_out_buffer (x_codec x1) wb) as [[rw c'] w2] eqn:Ew. apply wob_grow in Ew.
        destruct rw; intros H; grow_done H.
      - intros H; grow_done H. }
    destruct rb as [u'|e|s|].
    + apply Htail.
    + destruct e; try (intros H; grow_done H). apply Htail.
    + intros H; grow_done H.
    + intros H; grow_done H.
  - cbv beta iota. rewrite Ea.
    destruct (role_eqb (x_role x0) Server && closing_done (x_state x0) && true).
    + destruct (write_out_buffer (x_codec x0) w0) as [[rw c'] w2] eqn:Ew. apply wob_grow in Ew.
      destruct rw; intros H; grow_done H.
    + intros H; grow_done H.
Qed.

Lemma flush_grow x w r x' w' : flush x w = (r, x', w') -> grows nores w w'.
Proof.
  unfold flush.
  destruct (write_ x None w) as [[r0 x0] w0] eqn:E0. apply write__grow in E0.
  destruct r0 as [u|e|s|]; try (intros H; grow_done H).
  destruct (write_out_buffer (x_codec x0) w0) as [[r1 c1] w1] eqn:E1. apply wob_grow in E1.
  destruct r1 as [u1|e|s|]; try (intros H; grow_done H).
  destruct (w_flush w1) as [r2 w2] eqn:E2. apply w_flush_grow in E2.
  destruct r2 as [u2|e|s|]; intros H; grow_done H.
Qed.

Lemma close_grow x code w r x' w' : close x code w = (r, x', w') -> grows nores w w'.
Proof. unfold close. destruct (x_state x); apply flush_grow. Qed.

Lemma write_grow x m w r x' w' : write x m w = (r, x', w') -> grows nores w w'.
Proof.
  unfold write.
  destruct (is_terminated (x_state x)); [intros H; grow_done H|].
  destruct (negb (is_active (x_state x))); [intros H; grow_done H|].
  assert (Hdata : forall f,
    (let '(r, x1, w1) := write_ x (Some f) w in
     match r with
     | ROk true => flush x1 w1
     | ROk false => (ROk tt, x1, w1)
     | RErr e => (RErr e, x1, w1)
     | RPanic s => (RPanic s, x1, w1)
     | ROutOfFuel => (ROutOfFuel, x1, w1)
     end) = (r, x', w') -> grows nores w w').
  { intros f. destruct (write_ x (Some f) w) as [[r0 x0] w0] eqn:E0. apply write__grow in E0.
    destruct r0 as [[|]|e|s|]; try (intros H; grow_done H).
    intros H. apply flush_grow in H. eapply grows_trans; eassumption. }
  destruct m as [d|d|d|d|code|f]; try apply Hdata.
  - destruct (write_ (set_additional x (frame_pong d)) None w) as [[r0 x0] w0] eqn:E0.
    apply write__grow in E0. destruct r0 as [u|e|s|]; intros H; grow_done H.
  - apply close_grow.
Qed.

Lemma pre_read_grow x w r0 x0 w0 : pre_read x w = (r0, x0, w0) -> grows nores w w0.
Proof.
  unfold pre_read.
  destruct ((match x_additional x with Some _ => true | None => false end) || x_unflushed x).
  - destruct (flush x w) as [[r1 x1] w1] eqn:E. apply flush_grow in E.
    destruct r1 as [u|e|s|]; try (intros H; grow_done H).
    destruct e as [| |[| | |]| | | |]; intros H; grow_done H.
  - destruct (role_eqb (x_role x) Server && negb (can_read (x_state x))).
    + destruct (write_out_buffer (x_codec x) w) as [[rw c'] w'] eqn:E. apply wob_grow in E.
      destruct rw as [u|e|s|]; intros H; grow_done H.
    + intros H; grow_done H.
Qed.

(* ====================================================================== *)
(* part 2: the read path for any configuration *)

(* the frame size limit in force (usize::MAX when none is configured) *)
Definition Flim (x : ctx) : N := limit_of (cfg_max_frame_size (x_cfg x)).

Lemma Flim_some x F : cfg_max_frame_size (x_cfg x) = Some F -> Flim x = F.
Proof. unfold Flim. intros ->. reflexivity. Qed.

Lemma Flim_cfg x x' : x_cfg x' = x_cfg x -> Flim x' = Flim x.
Proof. unfold Flim. intros ->. reflexivity. Qed.

Lemma inc_ok_mono M Mx o : M <= Mx -> inc_ok M o -> inc_ok Mx o.
Proof. destruct o as [m|]; cbn [inc_ok]; [|auto]. intros Hle [H1 H2]. split; [lia|exact H2]. Qed.

(* ---- dispatch: facts that do not depend on the limits ---- *)

Lemma incmsg_extend_nofuel m tail l : fst (incmsg_extend m tail l) <> ROutOfFuel.
Proof.
  unfold incmsg_extend.
  destruct ((limit_of l <? incmsg_len m) || (limit_of l - incmsg_len m <? blen tail)).
  - destruct (two64 <=? incmsg_len m + blen tail); cbn [fst]; discriminate.
  - destruct m as [c|v]; [|cbn [fst]; discriminate].
    destruct (collector_extend c tail); cbn [fst]; discriminate.
Qed.

Lemma check_max_size_cases sz l : check_max_size sz l = ROk tt \/ exists e, check_max_size sz l = RErr e.
Proof.
  unfold check_max_size. destruct l as [m|]; [|left; reflexivity].
  destruct (m <? sz); [right; eexists; reflexivity|left; reflexivity].
Qed.

Lemma frame_into_close_cases p : (exists cl, frame_into_close p = ROk cl) \/ (exists e, frame_into_close p = RErr e).
Proof.
  unfold frame_into_close. destruct p as [|a [|b rs]]; [left|right|]; try (eexists; reflexivity).
  destruct (is_utf8 rs); [left|right]; eexists; reflexivity.
Qed.

Lemma do_close_nofuel x cl : fst (do_close x cl) <> ROutOfFuel.
Proof. unfold do_close. destruct (x_state x); cbn [fst]; discriminate. Qed.

Ltac bleaf :=
  let H := fresh "H" in
  intros H; inversion H; subst; clear H; rewrite ?sa_cfg, ?sa_codec;
  repeat split; try reflexivity; try discriminate.

Lemma dispatch_basic x1 f w1 r x' w' :
  dispatch x1 f w1 = (r, x', w') ->
  w' = w1 /\ x_cfg x' = x_cfg x1 /\ x_codec x' = x_codec x1 /\ r <> ROutOfFuel.
Proof.
  unfold dispatch. cbv zeta.
  destruct (negb (can_read (x_state x1))); [bleaf|].
  destruct (h_rsv1 (f_hdr f) || h_rsv2 (f_hdr f) || h_rsv3 (f_hdr f)); [bleaf|].
  destruct (role_eqb (x_role x1) Client && match h_mask (f_hdr f) with Some _ => true | None => false end); [bleaf|].
  assert (Hext : forall m0 (k : res unit -> incmsg -> res (option message) * ctx * world),
    (forall re m', re <> ROutOfFuel -> k re m' = (r, x', w') ->
        w' = w1 /\ x_cfg x' = x_cfg x1 /\ x_codec x' = x_codec x1 /\ r <> ROutOfFuel) ->
    (let '(re, m') := incmsg_extend m0 (f_payload f) (cfg_max_message_size (x_cfg x1)) in k re m') = (r, x', w') ->
    w' = w1 /\ x_cfg x' = x_cfg x1 /\ x_codec x' = x_codec x1 /\ r <> ROutOfFuel).
  { intros m0 k Hk.
    pose proof (incmsg_extend_nofuel m0 (f_payload f) (cfg_max_message_size (x_cfg x1))) as Hn.
    destruct (incmsg_extend m0 (f_payload f) (cfg_max_message_size (x_cfg x1))) as [re m']. cbn [fst] in Hn.
    apply Hk. exact Hn. }
  destruct (h_opcode (f_hdr f)) as [d|ctl].
  - destruct d as [| | |i].
    + destruct (x_incomplete x1) as [msg|]; [|bleaf].
      apply Hext. intros re m' Hn.
      destruct re as [u|e|s|]; [|bleaf|bleaf|congruence].
      destruct (h_fin (f_hdr f)); [|bleaf].
      pose proof (incmsg_complete_spec m') as Hc.
      destruct (incmsg_complete m') as [m|e|s|]; try (destruct Hc; fail); bleaf.
    + destruct (x_incomplete x1) as [msg|]; [bleaf|].
      destruct (h_fin (f_hdr f)).
      * destruct (check_max_size_cases (blen (f_payload f)) (cfg_max_message_size (x_cfg x1))) as [E|[e E]]; rewrite E.
        -- destruct (is_utf8 (f_payload f)); bleaf.
        -- bleaf.
      * apply Hext. intros re m' Hn. destruct re as [u|e|s|]; [bleaf|bleaf|bleaf|congruence].
    + destruct (x_incomplete x1) as [msg|]; [bleaf|].
      destruct (h_fin (f_hdr f)).
      * destruct (check_max_size_cases (blen (f_payload f)) (cfg_max_message_size (x_cfg x1))) as [E|[e E]]; rewrite E;
          bleaf.
      * apply Hext. intros re m' Hn. destruct re as [u|e|s|]; [bleaf|bleaf|bleaf|congruence].
    + destruct (x_incomplete x1) as [msg|]; bleaf.
  - destruct (negb (h_fin (f_hdr f))); [bleaf|].
    destruct (125 <? blen (f_payload f)); [bleaf|].
    destruct ctl as [| | |i].
    + destruct (frame_into_close_cases (f_payload f)) as [[cl E]|[e E]]; rewrite E; [|bleaf].
      pose proof (do_close_nofuel x1 cl) as Hn.
      destruct (do_close x1 cl) as [rc x2] eqn:Edc. cbn [fst] in Hn. apply do_close_spec in Edc.
      destruct Edc as [D1 [D2 _]].
      destruct rc as [[c|]|e|s|]; [| | | |congruence];
        intros H; inversion H; subst; clear H; (split; [reflexivity|split; [exact D1|split; [exact D2|discriminate]]]).
    + destruct (is_active (x_state x1)); bleaf.
    + bleaf.
    + bleaf.
Qed.

(* ---- dispatch when the accumulator is already larger than the limit in force (the limit was lowered in
   the middle of a fragmented message): the accumulator is left alone; the only conceivable panic is the
   usize overflow of accumulator + payload ---- *)

Lemma extend_over_acc m tail M :
  M < incmsg_len m ->
  incmsg_extend m tail (Some M) =
  (if two64 <=? incmsg_len m + blen tail then RPanic site_overflow
   else RErr (ECapacity (incmsg_len m + blen tail) M), m).
Proof.
  intros H. unfold incmsg_extend. cbn [limit_of].
  replace (M <? incmsg_len m) with true by lia. cbn [orb].
  destruct (two64 <=? incmsg_len m + blen tail); reflexivity.
Qed.

Ltac oleaf :=
  let H := fresh "H" in
  intros H; inversion H; subst; clear H; rewrite ?sa_inc;
  (split; [try assumption; try reflexivity|let s := fresh in let Hs := fresh in intros s Hs; discriminate Hs]).

Lemma dispatch_over_acc M x1 f w1 r x' w' m :
  cfg_max_message_size (x_cfg x1) = Some M ->
  x_incomplete x1 = Some m -> M < incmsg_len m ->
  dispatch x1 f w1 = (r, x', w') ->
  x_incomplete x' = Some m /\
  (forall s, r = RPanic s -> s = site_overflow /\ two64 <= incmsg_len m + blen (f_payload f)).
Proof.
  intros HM Ei Hov. unfold dispatch. cbv zeta.
  destruct (negb (can_read (x_state x1))) eqn:Ecr; [oleaf|].
  destruct (h_rsv1 (f_hdr f) || h_rsv2 (f_hdr f) || h_rsv3 (f_hdr f)); [oleaf|].
  destruct (role_eqb (x_role x1) Client && match h_mask (f_hdr f) with Some _ => true | None => false end); [oleaf|].
  destruct (h_opcode (f_hdr f)) as [d|ctl].
  - destruct d as [| | |i]; rewrite Ei; try oleaf.
    rewrite HM, (extend_over_acc m (f_payload f) M Hov).
    destruct (two64 <=? incmsg_len m + blen (f_payload f)) eqn:Eo.
    + intros H; inversion H; subst; clear H. split; [reflexivity|].
      intros s Hs; inversion Hs; subst. split; [reflexivity|lia].
    + oleaf.
  - destruct (negb (h_fin (f_hdr f))); [oleaf|].
    destruct (125 <? blen (f_payload f)); [oleaf|].
    destruct ctl as [| | |i].
    + destruct (frame_into_close_cases (f_payload f)) as [[cl E]|[e E]]; rewrite E; [|oleaf].
      destruct (do_close x1 cl) as [rc x2] eqn:Edc. apply do_close_spec in Edc.
      destruct Edc as [_ [_ [D3 [D4 _]]]].
      assert (Hcr : can_read (x_state x1) = true) by (destruct (can_read (x_state x1)); [reflexivity|discriminate Ecr]).
      specialize (D4 Hcr).
      destruct rc as [[c|]|e|s|]; try (destruct D4; fail);
        intros H; inversion H; subst; clear H; (split; [congruence|intros s0 Hs; discriminate Hs]).
    + destruct (is_active (x_state x1)); oleaf.
    + oleaf.
    + oleaf.
Qed.

(* the accumulator clauses of dispatch_spec with two bounds: M = limit in force, Mx >= M = bound on the
   accumulator *)
Lemma dispatch_two_bounds F M Mx x1 f w1 r x' w' :
  cfg_max_message_size (x_cfg x1) = Some M -> M <= Mx ->
  dispatch x1 f w1 = (r, x', w') ->
  inc_ok Mx (x_incomplete x1) ->
  inc_ok Mx (x_incomplete x') /\
  (blen (f_payload f) <= F -> forall s, r = RPanic s -> s = site_overflow /\ two64 <= Mx + F).
Proof.
  intros HM Hle H Hi.
  assert (Hin : inc_ok M (x_incomplete x1) ->
    inc_ok Mx (x_incomplete x') /\
    (blen (f_payload f) <= F -> forall s, r = RPanic s -> s = site_overflow /\ two64 <= Mx + F)).
  { intros HiM. apply (dispatch_spec F M) in H; [|exact HM].
    destruct H as [_ _ _ Dinc Dpanic _ _ _ _]. split.
    - apply (inc_ok_mono M); auto.
    - intros Hp s Hs. destruct (Dpanic Hp HiM s Hs) as [E Ho]. split; [exact E|lia]. }
  destruct (x_incomplete x1) as [m|] eqn:Ei; [|apply Hin; exact I].
  destruct Hi as [Hl Hw].
  destruct (incmsg_len m <=? M) eqn:Ec.
  - apply Hin. split; [lia|exact Hw].
  - destruct (dispatch_over_acc M x1 f w1 r x' w' m HM Ei ltac:(lia) H) as [Ei' Hp].
    split.
    + rewrite Ei'. split; assumption.
    + intros Hpl s Hs. destruct (Hp s Hs) as [E Ho]. split; [exact E|lia].
Qed.

(* ---- read_message_frame ---- *)

(* the clauses that depend on the message limit in force: for every M with max_message_size = Some M *)
Definition lim_clauses {A} (msg : A -> option message) (x : ctx) (r : res A) (x' : ctx) : Prop :=
  forall M, cfg_max_message_size (x_cfg x) = Some M ->
    (forall a b, r = ROk a -> msg a = Some (MText b) -> blen b <= M) /\
    (forall a b, r = ROk a -> msg a = Some (MBinary b) -> blen b <= M) /\
    (forall sz mx, r = RErr (ECapacity sz mx) -> (mx = Flim x /\ Flim x < sz) \/ (mx = M /\ M < sz)) /\
    (forall Mx, M <= Mx -> inc_ok Mx (x_incomplete x) ->
       inc_ok Mx (x_incomplete x') /\
       forall s, r = RPanic s -> s = site_overflow /\ two64 <= Mx + Flim x).

Record rmfg (x : ctx) (w : world) (r : res (option message)) (x' : ctx) (w' : world) : Prop := {
  gm_cfg : x_cfg x' = x_cfg x;
  gm_log : grows (rd_ev (Flim x)) w w';
  gm_hp : hdr_pos (x_codec x) -> hdr_pos (x_codec x');
  gm_meas : (xmeas x' w' <= xmeas x w)%nat;
  gm_progress : r = ROk None -> hdr_pos (x_codec x) -> (xmeas x' w' < xmeas x w)%nat;
  gm_fuel : r <> ROutOfFuel;
  gm_lim : lim_clauses (fun o => o) x r x' }.

Lemma rmfg_build x w r0 c1 w1 (r : res (option message)) x' :
  rf_post (Flim x) (x_codec x) w r0 c1 w1 ->
  x_cfg x' = x_cfg x -> x_codec x' = c1 ->
  (r = ROk None -> exists f, r0 = ROk (Some f)) ->
  r <> ROutOfFuel ->
  lim_clauses (fun o => o) x r x' ->
  rmfg x w r x' w1.
Proof.
  intros Hrf Hcfg Hcod Hnone Hfuel Hlim.
  destruct Hrf as [Hw Ht Hinv Hme Hout Hg Hf Hc].
  constructor; auto.
  - destruct Ht as [used [evs [_ [E [Hev _]]]]]. exists evs. split; assumption.
  - rewrite Hcod. exact Hinv.
  - unfold xmeas. rewrite Hcod. exact Hme.
  - intros Hr Hp. destruct (Hnone Hr) as [f Ef]. destruct (Hf f Ef) as [_ [_ Hlt]].
    unfold xmeas. rewrite Hcod. auto.
Qed.

(* an error that is not raised by dispatch: no message, no panic, accumulator untouched *)
Lemma lim_clauses_err x (e : error) x' :
  x_incomplete x' = x_incomplete x ->
  (forall sz mx, e = ECapacity sz mx -> mx = Flim x /\ Flim x < sz) ->
  lim_clauses (fun o : option message => o) x (RErr e) x'.
Proof.
  intros Hi Hc M HM. split; [|split; [|split]].
  - intros a b Hr; discriminate Hr.
  - intros a b Hr; discriminate Hr.
  - intros sz mx Hr; inversion Hr; subst. left. apply Hc. reflexivity.
  - intros Mx _ Ho. rewrite Hi. split; [exact Ho|]. intros s Hs; discriminate Hs.
Qed.

Lemma read_message_frame_g x w r x' w' :
  read_message_frame x w = (r, x', w') -> rmfg x w r x' w'.
Proof.
  rewrite rmf_eq.
  destruct (read_frame (cfg_max_frame_size (x_cfg x)) (role_eqb (x_role x) Server)
                       (cfg_accept_unmasked (x_cfg x)) (x_codec x) w) as [[r0 c1] w1] eqn:E.
  apply read_frame_spec in E. fold (Flim x) in E.
  destruct (check_connection_reset r0 (x_state x)) as [r0' s1] eqn:Ec. apply ccr_cases in Ec.
  cbv zeta.
  destruct Ec as [[-> ->]|[-> ->]].
  - destruct r0 as [[f|]|e|s|].
    + intros H.
      destruct (dispatch_basic _ _ _ _ _ _ H) as [Bw [Bcfg [Bcod Bfuel]]]. subst w'.
      destruct (fp_frame _ _ _ _ _ _ E f eq_refl) as [Hpl _].
      eapply rmfg_build; [exact E|exact Bcfg|exact Bcod|eauto|exact Bfuel|].
      intros M HM.
      assert (HM1 : cfg_max_message_size (x_cfg (set_state (set_codec x c1) (x_state x))) = Some M) by exact HM.
      pose proof (dispatch_spec (Flim x) M _ _ _ _ _ _ HM1 H) as [_ _ _ _ _ Dtext Dbin Dcap _].
      split; [|split; [|split]].
      * intros a b Hr Ha. subst a. auto.
      * intros a b Hr Ha. subst a. auto.
      * intros sz mx Hr. right. auto.
      * intros Mx Hle Ho.
        destruct (dispatch_two_bounds (Flim x) M Mx _ _ _ _ _ _ HM1 Hle H Ho) as [T1 T2]. auto.
    + destruct (x_state (set_state (set_codec x c1) (x_state x)));
        intros H; inversion H; subst; clear H;
        (eapply rmfg_build; [exact E|reflexivity|reflexivity|discriminate|discriminate|];
         apply lim_clauses_err; [reflexivity|intros sz mx Hc; discriminate Hc]).
    + intros H; inversion H; subst; clear H.
      eapply rmfg_build; [exact E|reflexivity|reflexivity|discriminate|discriminate|].
      apply lim_clauses_err; [reflexivity|].
      intros sz mx Hc. destruct (fp_cap _ _ _ _ _ _ E sz mx (f_equal _ Hc)) as [? [? ?]]. auto.
    + destruct (fp_good _ _ _ _ _ _ E).
    + destruct (fp_good _ _ _ _ _ _ E).
  - intros H; inversion H; subst; clear H.
    eapply rmfg_build; [exact E|reflexivity|reflexivity|discriminate|discriminate|].
    apply lim_clauses_err; [reflexivity|intros sz mx Hc; discriminate Hc].
Qed.

(* ---- read_loop / read ---- *)

Record rlg (fuel : nat) (x : ctx) (w : world) (r : res message) (x' : ctx) (w' : world) : Prop := {
  gl_cfg : x_cfg x' = x_cfg x;
  gl_log : grows (rsv_ok (Flim x)) w w';
  gl_hp : hdr_pos (x_codec x) -> hdr_pos (x_codec x');
  gl_fuel : hdr_pos (x_codec x) -> (xmeas x w < fuel)%nat -> r <> ROutOfFuel;
  gl_lim : lim_clauses (fun m => Some m) x r x' }.

Lemma keep_hp F x w x0 w0 : keep F x w x0 w0 -> hdr_pos (x_codec x) -> hdr_pos (x_codec x0).
Proof. intros [_ [_ [_ [K4 _]]]] Hp h len E. apply (Hp h len). congruence. Qed.

Lemma lim_clauses_plain {A} (msg : A -> option message) x (r : res A) x' :
  x_incomplete x' = x_incomplete x ->
  (forall a, r <> ROk a) -> (forall sz mx, r <> RErr (ECapacity sz mx)) -> (forall s, r <> RPanic s) ->
  lim_clauses msg x r x'.
Proof.
  intros Hi H1 H2 H3 M HM. split; [|split; [|split]].
  - intros a b Hr. destruct (H1 _ Hr).
  - intros a b Hr. destruct (H1 _ Hr).
  - intros sz mx Hr. destruct (H2 _ _ Hr).
  - intros Mx _ Ho. rewrite Hi. split; [exact Ho|]. intros s Hs. destruct (H3 _ Hs).
Qed.

Lemma read_loop_g : forall fuel x w r x' w',
  read_loop fuel x w = (r, x', w') -> rlg fuel x w r x' w'.
Proof.
  induction fuel as [|fuel IH]; intros x w r x' w'.
  - cbn [read_loop]. intros H; inversion H; subst; clear H.
    constructor; auto.
    + apply grows_refl.
    + intros _ Hlt. lia.
    + apply lim_clauses_plain; [reflexivity|discriminate..].
  - rewrite read_loop_eq.
    destruct (pre_read x w) as [[r0 x0] w0] eqn:Ep.
    pose proof (pre_read_grow _ _ _ _ _ Ep) as G0.
    apply (pre_read_spec (Flim x)) in Ep. destruct Ep as [W0 K0].
    pose proof (keep_hp _ _ _ _ _ K0) as Khp.
    destruct (keep_inv (Flim x) 0 _ _ _ _ K0) as [_ Kmeas].
    destruct K0 as [K1 [K2 [K3 [K4 [K5 K6]]]]].
    pose proof (Flim_cfg _ _ K1) as KF.
    assert (G0' : grows (rsv_ok (Flim x)) w w0) by (eapply grows_impl; [apply nores_rsv|exact G0]).
    destruct r0 as [u|e|s|]; try (destruct W0; fail).
    + destruct (read_message_frame x0 w0) as [[r1 x1] w1] eqn:Em.
      apply read_message_frame_g in Em.
      destruct Em as [Mcfg Mlog Mhp Mmeas Mprog Mfuel Mlim].
      rewrite KF in Mlog.
      assert (G1 : grows (rsv_ok (Flim x)) w w1).
      { eapply grows_trans; [exact G0'|]. eapply grows_impl; [apply rd_ev_rsv_ok|exact Mlog]. }
      (* the limit clauses of the iteration, re-based on x *)
      assert (Mlim' : lim_clauses (fun o : option message => o) x r1 x1).
      { intros M HM. rewrite <- K1 in HM. specialize (Mlim M HM). rewrite KF, K2 in Mlim. exact Mlim. }
      assert (Hleaf : forall r2 : res message,
        (forall m, r2 = ROk m -> r1 = ROk (Some m)) ->
        (forall e, r2 = RErr e -> r1 = RErr e) ->
        (forall s, r2 = RPanic s -> r1 = RPanic s) ->
        (r2 = ROutOfFuel -> r1 = ROutOfFuel) ->
        rlg (S fuel) x w r2 x1 w1).
      { intros r2 H1 H2 H3 H4. constructor.
        - congruence.
        - exact G1.
        - auto.
        - intros _ _ Hf. apply Mfuel. auto.
        - intros M HM. destruct (Mlim' M HM) as [L1 [L2 [L3 L4]]].
          split; [|split; [|split]].
          + intros a b Hr Ha. inversion Ha; subst. eapply L1; [apply H1; reflexivity|reflexivity].
          + intros a b Hr Ha. inversion Ha; subst. eapply L2; [apply H1; reflexivity|reflexivity].
          + intros sz mx Hr. apply L3. apply H2. exact Hr.
          + intros Mx Hle Ho. destruct (L4 Mx Hle Ho) as [T1 T2]. split; [exact T1|].
            intros s Hs. apply T2. apply H3. exact Hs. }
      destruct r1 as [[m|]|e|s|].
      * intros H; inversion H; subst; clear H. apply Hleaf; intros; congruence.
      * intros H. apply IH in H.
        destruct H as [Rcfg Rlog Rhp Rfuel Rlim].
        assert (KF1 : Flim x1 = Flim x) by (rewrite (Flim_cfg _ _ Mcfg); exact KF).
        rewrite KF1 in Rlog.
        constructor.
        -- congruence.
        -- eapply grows_trans; eassumption.
        -- auto.
        -- intros Hp Hlt. apply Rfuel; [auto|].
           specialize (Mprog eq_refl (Khp Hp)). lia.
        -- intros M HM. destruct (Mlim' M HM) as [_ [_ [_ L4]]].
           assert (HM1 : cfg_max_message_size (x_cfg x1) = Some M) by (rewrite Mcfg, K1; exact HM).
           destruct (Rlim M HM1) as [R1 [R2 [R3 R4]]]. rewrite KF1 in R3, R4.
           split; [exact R1|split; [exact R2|split; [exact R3|]]].
           intros Mx Hle Ho. destruct (L4 Mx Hle Ho) as [T1 _]. apply R4; assumption.
      * intros H; inversion H; subst; clear H. apply Hleaf; intros; congruence.
      * intros H; inversion H; subst; clear H. apply Hleaf; intros; congruence.
      * intros H; inversion H; subst; clear H. apply Hleaf; intros; congruence.
    + intros H; inversion H; subst; clear H. constructor.
      * exact K1.
      * exact G0'.
      * exact Khp.
      * intros; discriminate.
      * apply lim_clauses_plain; [exact K2|discriminate| |discriminate].
        intros sz mx Hc; inversion Hc; subst. destruct W0.
Qed.

Lemma read_g x w r x' w' :
  read x w = (r, x', w') -> rlg (S (xmeas x w)) x w r x' w'.
Proof.
  unfold read. destruct (is_terminated (x_state x)).
  - intros H; inversion H; subst; clear H. constructor; auto.
    + apply grows_refl.
    + intros; discriminate.
    + apply lim_clauses_plain; [reflexivity|discriminate..].
  - apply read_loop_g.
Qed.

(* ====================================================================== *)
(* part 3: one operation of a history with configuration changes *)

(* the configuration after the operation *)
Definition next_cfg (x : ctx) (o : xop) : config :=
  match o with
  | XOp (OpSetBuf wbs mx) =>
      if wbs <? mx then
        mkConfig wbs mx (cfg_max_message_size (x_cfg x)) (cfg_max_frame_size (x_cfg x)) (cfg_accept_unmasked (x_cfg x))
      else x_cfg x
  | XOp _ => x_cfg x
  | XSetConfig c => c
  | XSetLimits mms mfs au => limits_cfg x mms mfs au
  end.

(* the operation is not a set_config that violates WebSocketConfig::assert_valid *)
Definition xop_valid (x : ctx) (o : xop) : Prop :=
  match o with
  | XOp o => op_ok o
  | XSetConfig c => config_valid c = true
  | XSetLimits _ _ _ => config_valid (x_cfg x) = true
  end.

(* size bound on what an operation delivers / the numbers of a capacity error, under limits F, M *)
Definition opres_lim (F M : N) (r : op_result) : Prop :=
  match r with
  | ResMsg (ROk m) => msg_ok M m
  | ResMsg (RErr (ECapacity sz mx)) => (mx = F /\ F < sz) \/ (mx = M /\ M < sz)
  | _ => True
  end.

Record opg (x : ctx) (o : xop) (w : world) (res : op_result) (x' : ctx) (w' : world) : Prop := {
  go_cfg : x_cfg x' = next_cfg x o;
  go_log : grows (rsv_ok (Flim x)) w w';
  go_hp : hdr_pos (x_codec x) -> hdr_pos (x_codec x');
  go_fuel : hdr_pos (x_codec x) -> ~ opres_fuel res;
  go_unit : forall sz mx, res <> ResUnit (RErr (ECapacity sz mx));
  go_lim : forall M, cfg_max_message_size (x_cfg x) = Some M ->
     opres_lim (Flim x) M res /\
     forall Mx, M <= Mx -> inc_ok Mx (x_incomplete x) ->
       inc_ok Mx (x_incomplete x') /\
       forall s, opres_panic res s ->
         (s = site_overflow /\ two64 <= Mx + Flim x) \/ (s = site_config_invalid /\ ~ xop_valid x o) }.

(* write / flush / close *)
Lemma keep_opg x o w (r : res unit) x' w' :
  next_cfg x o = x_cfg x ->
  wgood r -> keep (Flim x) x w x' w' -> grows nores w w' -> opg x o w (ResUnit r) x' w'.
Proof.
  intros Hn G K Hg. pose proof (keep_hp _ _ _ _ _ K) as Khp.
  destruct K as [K1 [K2 _]].
  constructor.
  - congruence.
  - eapply grows_impl; [apply nores_rsv|exact Hg].
  - exact Khp.
  - intros _ Hf. cbn in Hf. subst r. exact G.
  - intros sz mx Hr. inversion Hr; subst. exact G.
  - intros M HM. split; [exact I|]. intros Mx _ Ho. rewrite K2. split; [exact Ho|].
    intros s Hs. cbn in Hs. subst r. destruct G.
Qed.

(* can_read / can_write *)
Lemma pure_opg x o w b : next_cfg x o = x_cfg x -> opg x o w (ResBool b) x w.
Proof.
  intros Hn. constructor.
  - symmetry. exact Hn.
  - apply grows_refl.
  - intros Hp. exact Hp.
  - intros _ Hf; exact Hf.
  - discriminate.
  - intros M HM. split; [exact I|]. intros Mx _ Ho. split; [exact Ho|]. intros s Hs; destruct Hs.
Qed.

Lemma run_op_g x o w res x' w' : run_op x o w = (res, x', w') -> opg x (XOp o) w res x' w'.
Proof.
  destruct o as [|m| |c| | |wbs mx]; cbn [run_op].
  - destruct (read x w) as [[r x1] w1] eqn:E. intros H; inversion H; subst; clear H.
    apply read_g in E. destruct E as [Rcfg Rlog Rhp Rfuel Rlim].
    constructor.
    + exact Rcfg.
    + exact Rlog.
    + exact Rhp.
    + intros Hp Hf. cbn in Hf. apply (Rfuel Hp); [lia|exact Hf].
    + discriminate.
    + intros M HM. destruct (Rlim M HM) as [L1 [L2 [L3 L4]]]. split.
      * cbn. destruct r as [m|e|s|]; auto.
        -- destruct m; cbn; auto; [eapply L1|eapply L2]; reflexivity.
        -- destruct e; auto.
      * intros Mx Hle Ho. destruct (L4 Mx Hle Ho) as [T1 T2]. split; [exact T1|].
        intros s Hs. cbn in Hs. left. apply T2. exact Hs.
  - destruct (write x m w) as [[r x1] w1] eqn:E. intros H; inversion H; subst; clear H.
    pose proof (write_grow _ _ _ _ _ _ E) as Hg.
    apply (write_spec (Flim x)) in E. destruct E. apply keep_opg; auto.
  - destruct (flush x w) as [[r x1] w1] eqn:E. intros H; inversion H; subst; clear H.
    pose proof (flush_grow _ _ _ _ _ E) as Hg.
    apply (flush_spec (Flim x)) in E. destruct E. apply keep_opg; auto.
  - destruct (close x c w) as [[r x1] w1] eqn:E. intros H; inversion H; subst; clear H.
    pose proof (close_grow _ _ _ _ _ _ E) as Hg.
    apply (close_spec (Flim x)) in E. destruct E. apply keep_opg; auto.
  - intros H; inversion H; subst; clear H. apply pure_opg. reflexivity.
  - intros H; inversion H; subst; clear H. apply pure_opg. reflexivity.
  - unfold config_valid. cbn [cfg_write_buffer_size cfg_max_write_buffer_size].
    destruct (wbs <? mx) eqn:Ev; intros H; inversion H; subst; clear H.
    + constructor.
      * cbn [next_cfg x_cfg]. rewrite Ev. reflexivity.
      * apply grows_refl.
      * intros Hp. exact Hp.
      * cbn. intros _ Hf; discriminate Hf.
      * discriminate.
      * intros M HM. split; [exact I|]. intros Mx _ Ho. split; [exact Ho|].
        cbn. intros s Hs; discriminate Hs.
    + constructor.
      * cbn [next_cfg]. rewrite Ev. reflexivity.
      * apply grows_refl.
      * auto.
      * cbn. intros _ Hf; discriminate Hf.
      * discriminate.
      * intros M HM. split; [exact I|]. intros Mx _ Ho. split; [exact Ho|].
        cbn. intros s Hs; inversion Hs; subst. right. split; [reflexivity|cbn; lia].
Qed.

(* set_config: no transport call, no event; the accumulator and the frame in progress are left alone *)
Lemma set_config_cases x cfg' :
  (config_valid cfg' = true /\
   set_config x cfg' =
   (ROk tt, mkCtx (x_role x)
                  (set_limits (x_codec x) (cfg_max_write_buffer_size cfg') (cfg_write_buffer_size cfg'))
                  (x_state x) (x_incomplete x) (x_additional x) (x_unflushed x) cfg')) \/
  (config_valid cfg' = false /\
   set_config x cfg' =
   (RPanic site_config_invalid,
    mkCtx (x_role x) (x_codec x) (x_state x) (x_incomplete x) (x_additional x) (x_unflushed x) cfg')).
Proof. unfold set_config. destruct (config_valid cfg'); [left|right]; split; reflexivity. Qed.

Lemma set_config_g x o cfg' w r x' :
  next_cfg x o = cfg' ->
  (match o with XOp _ => False | _ => True end) ->
  set_config x cfg' = (r, x') -> opg x o w (ResUnit r) x' w.
Proof.
  intros Hn Ho H.
  destruct (set_config_cases x cfg') as [[Ev E]|[Ev E]]; rewrite E in H; inversion H; subst r x'; clear H E.
  - constructor.
    + cbn [x_cfg]. congruence.
    + apply grows_refl.
    + intros Hp. exact Hp.
    + cbn. intros _ Hf; discriminate Hf.
    + discriminate.
    + intros M HM. split; [exact I|]. intros Mx _ Hi. split; [exact Hi|].
      cbn. intros s Hs; discriminate Hs.
  - constructor.
    + cbn [x_cfg]. congruence.
    + apply grows_refl.
    + auto.
    + cbn. intros _ Hf; discriminate Hf.
    + discriminate.
    + intros M HM. split; [exact I|]. intros Mx _ Hi. split; [exact Hi|].
      cbn. intros s Hs; inversion Hs; subst s. right. split; [reflexivity|].
      intros Hx. subst cfg'. destruct o as [o|c|a b c]; cbn [next_cfg xop_valid] in *.
      * destruct Ho.
      * congruence.
      * unfold config_valid, limits_cfg in Ev.
        cbn [cfg_write_buffer_size cfg_max_write_buffer_size] in Ev. unfold config_valid in Hx. congruence.
Qed.

Lemma run_xop_g x o w res x' w' : run_xop x o w = (res, x', w') -> opg x o w res x' w'.
Proof.
  destruct o as [o|c|a b c]; cbn [run_xop].
  - apply run_op_g.
  - destruct (set_config x c) as [r x1] eqn:E. intros H; inversion H; subst; clear H.
    eapply set_config_g; [reflexivity|exact I|exact E].
  - destruct (set_config x (limits_cfg x a b c)) as [r x1] eqn:E. intros H; inversion H; subst; clear H.
    eapply set_config_g; [reflexivity|exact I|exact E].
Qed.

(* ====================================================================== *)
(* part 4: histories *)

Lemma run_xops_cons x o ops w :
  run_xops x (o :: ops) w =
  let '(res1, x1, w1) := run_xop x o w in
  let '(rs, x2, w2) := run_xops x1 ops w1 in
  ((res1, blen (w_log w1), x_cfg x) :: rs, x2, w2).
Proof. reflexivity. Qed.

(* ---- run_ops is the special case without inbound-limit changes ---- *)

Lemma xops_embed : forall ops x w,
  let '(rs, x', w') := run_ops x ops w in
  exists rsx, run_xops x (map XOp ops) w = (rsx, x', w') /\
              map (fun t : op_result * N * config => (fst (fst t), snd (fst t))) rsx = rs.
Proof.
  induction ops as [|o ops IH]; intros x w.
  - cbn [run_ops map run_xops]. exists []. split; reflexivity.
  - cbn [run_ops map]. rewrite run_xops_cons. cbn [run_xop].
    destruct (run_op x o w) as [[res1 x1] w1].
    specialize (IH x1 w1). destruct (run_ops x1 ops w1) as [[rs x2] w2].
    destruct IH as [rsx [E Em]]. rewrite E.
    eexists. split; [reflexivity|]. cbn [map fst snd]. rewrite Em. reflexivity.
Qed.

Lemma setbuf_is_set_config x wbs mx w :
  wbs <? mx = true ->
  run_xop x (XOp (OpSetBuf wbs mx)) w =
  run_xop x (XSetConfig (mkConfig wbs mx (cfg_max_message_size (x_cfg x)) (cfg_max_frame_size (x_cfg x))
                                  (cfg_accept_unmasked (x_cfg x)))) w.
Proof.
  intros H. cbn [run_xop run_op]. unfold set_config, config_valid.
  cbn [cfg_write_buffer_size cfg_max_write_buffer_size]. rewrite H. reflexivity.
Qed.

(* ---- C06b: the limits in force at each operation ---- *)

(* per result: what the configuration in force when the operation ran guarantees *)
Definition res_lim_ok (t : op_result * N * config) : Prop :=
  let '(r, _, c) := t in
  (forall sz mx, r <> ResUnit (RErr (ECapacity sz mx))) /\
  forall M, cfg_max_message_size c = Some M -> opres_lim (limit_of (cfg_max_frame_size c)) M r.

Lemma xops_lim : forall ops x w rs x' w',
  run_xops x ops w = (rs, x', w') -> Forall res_lim_ok rs.
Proof.
  induction ops as [|o ops IH]; intros x w rs x' w'.
  - cbn [run_xops]. intros H; inversion H; subst. constructor.
  - rewrite run_xops_cons.
    destruct (run_xop x o w) as [[res1 x1] w1] eqn:E1.
    destruct (run_xops x1 ops w1) as [[rs2 x2] w2] eqn:E2.
    intros H; inversion H; subst; clear H.
    apply run_xop_g in E1. apply IH in E2.
    constructor; [|exact E2].
    split; [exact (go_unit _ _ _ _ _ _ E1)|].
    intros M HM. exact (proj1 (go_lim _ _ _ _ _ _ E1 M HM)).
Qed.

Lemma xops_message_bound x ops w rs x' w' :
  run_xops x ops w = (rs, x', w') ->
  Forall (fun t : op_result * N * config =>
            let '(r, _, c) := t in
            match r with
            | ResMsg (ROk (MText b)) | ResMsg (ROk (MBinary b)) =>
                forall M, cfg_max_message_size c = Some M -> blen b <= M
            | _ => True
            end) rs.
Proof.
  intros H. apply xops_lim in H. eapply Forall_impl; [|exact H].
  intros [[r n] c] [_ Hl].
  destruct r as [[[b|b| | | |]| | |]| |]; auto; intros M HM; exact (Hl M HM).
Qed.

Lemma xops_capacity_numbers x ops w rs x' w' :
  run_xops x ops w = (rs, x', w') ->
  Forall (fun t : op_result * N * config =>
            let '(r, _, c) := t in
            match r with
            | ResMsg (RErr (ECapacity sz mx)) =>
                forall F M, cfg_max_frame_size c = Some F -> cfg_max_message_size c = Some M ->
                  (mx = F /\ F < sz) \/ (mx = M /\ M < sz)
            | ResUnit (RErr (ECapacity _ _)) => False
            | _ => True
            end) rs.
Proof.
  intros H. apply xops_lim in H. eapply Forall_impl; [|exact H].
  intros [[r n] c] [Hu Hl].
  destruct r as [[m|[]|s|]|[u|[]|s|]|b]; auto.
  - intros F M HF HM. specialize (Hl M HM). rewrite HF in Hl. exact Hl.
  - eapply Hu; reflexivity.
Qed.

(* one operation appends only events whose reservations are within max F 6, F the frame limit in force *)
Lemma xop_reserve_step F x o w r x' w' :
  run_xop x o w = (r, x', w') -> cfg_max_frame_size (x_cfg x) = Some F ->
  exists evs, w_log w' = w_log w ++ evs /\ Forall (reserve_ok F) evs.
Proof.
  intros H HF. apply run_xop_g in H. pose proof (go_log _ _ _ _ _ _ H) as Hg.
  rewrite (Flim_some _ _ HF) in Hg. exact Hg.
Qed.

(* along a history: if every configuration in force had a frame limit <= Fx, every reservation is
   within max Fx 6 *)
Lemma xops_reserve_bound Fx : forall ops x w rs x' w',
  run_xops x ops w = (rs, x', w') ->
  Forall (fun t : op_result * N * config =>
            exists F, cfg_max_frame_size (snd t) = Some F /\ F <= Fx) rs ->
  Forall (reserve_ok Fx) (w_log w) -> Forall (reserve_ok Fx) (w_log w').
Proof.
  induction ops as [|o ops IH]; intros x w rs x' w'.
  - cbn [run_xops]. intros H; inversion H; subst. auto.
  - rewrite run_xops_cons.
    destruct (run_xop x o w) as [[res1 x1] w1] eqn:E1.
    destruct (run_xops x1 ops w1) as [[rs2 x2] w2] eqn:E2.
    intros H; inversion H; subst; clear H.
    intros Hc Hl. inversion Hc as [|t l [F [HF Hle]] Hc2]; subst. cbn [snd] in HF.
    destruct (xop_reserve_step F _ _ _ _ _ _ E1 HF) as [evs [El Hf]].
    eapply IH; [exact E2|exact Hc2|].
    rewrite El. apply Forall_app. split; [exact Hl|].
    eapply Forall_impl; [|exact Hf]. intros [] He; cbn in *; auto. lia.
Qed.

(* ---- C07: bounded work, for any limits ---- *)

Lemma xops_fuel : forall ops x w rs x' w',
  hdr_pos (x_codec x) -> run_xops x ops w = (rs, x', w') ->
  hdr_pos (x_codec x') /\ Forall (fun t : op_result * N * config => ~ opres_fuel (fst (fst t))) rs.
Proof.
  induction ops as [|o ops IH]; intros x w rs x' w' Hp.
  - cbn [run_xops]. intros H; inversion H; subst. split; [exact Hp|constructor].
  - rewrite run_xops_cons.
    destruct (run_xop x o w) as [[res1 x1] w1] eqn:E1.
    destruct (run_xops x1 ops w1) as [[rs2 x2] w2] eqn:E2.
    intros H; inversion H; subst; clear H.
    apply run_xop_g in E1.
    destruct (IH _ _ _ _ _ (go_hp _ _ _ _ _ _ E1 Hp) E2) as [Hp2 Hf2].
    split; [exact Hp2|]. constructor; [|exact Hf2]. cbn [fst]. exact (go_fuel _ _ _ _ _ _ E1 Hp).
Qed.

Lemma xops_no_fuel role part cfg x ops w rs x' w' :
  ctx_new role part cfg = Some x ->
  run_xops x ops w = (rs, x', w') ->
  forall r n c, In (r, n, c) rs -> ~ is_out_of_fuel r.
Proof.
  intros Hn H r n c Hin Hf. apply (ctx_new_spec 0) in Hn. destruct Hn as [_ [[Hp _] _]].
  destruct (xops_fuel _ _ _ _ _ _ Hp H) as [_ Hall]. rewrite Forall_forall in Hall.
  apply (Hall _ Hin). cbn [fst]. apply is_fuel_opres. exact Hf.
Qed.

(* ---- C07: no panic, under global bounds on the limits ---- *)

(* finite limits within the global bounds *)
Definition limits_within (Mx Fx : N) (mms mfs : option N) : Prop :=
  exists M F, mms = Some M /\ M <= Mx /\ mfs = Some F /\ F <= Fx.

Definition cfg_within (Mx Fx : N) (c : config) : Prop :=
  limits_within Mx Fx (cfg_max_message_size c) (cfg_max_frame_size c).

(* the operation is legal: no assert_valid violation, installed limits finite and within the bounds *)
Definition xop_within (Mx Fx : N) (o : xop) : Prop :=
  match o with
  | XOp o => op_ok o
  | XSetConfig c => config_valid c = true /\ cfg_within Mx Fx c
  | XSetLimits mms mfs _ => limits_within Mx Fx mms mfs
  end.

Definition xops_within (Mx Fx : N) (ops : list xop) : Prop := Forall (xop_within Mx Fx) ops.

(* the invariant of a history: the configuration in force is valid and within the bounds; the
   accumulator is within Mx (NOT within the limit in force: the limit may have been lowered) *)
Definition cfg_inv (Mx Fx : N) (x : ctx) : Prop :=
  cfg_within Mx Fx (x_cfg x) /\ config_valid (x_cfg x) = true /\ ctx_inv Mx x.

Lemma xop_safe_step Mx Fx x o w r x' w' :
  Mx + Fx < two64 -> cfg_inv Mx Fx x -> xop_within Mx Fx o ->
  run_xop x o w = (r, x', w') ->
  cfg_inv Mx Fx x' /\ forall s, ~ opres_panic r s.
Proof.
  intros Hb [[M [F [HM [HMle [HF HFle]]]]] [Hv [Hp Hi]]] Ho H.
  apply run_xop_g in H. destruct H as [Gcfg _ Ghp _ _ Glim].
  destruct (Glim M HM) as [_ G2]. destruct (G2 Mx HMle Hi) as [Hi' Hpan]. clear Glim G2.
  split.
  - split; [|split; [|split; [auto|exact Hi']]]; rewrite Gcfg.
    + destruct o as [[| | | | | |wbs mx]|c|a b c]; cbn [next_cfg]; try (exists M, F; auto; fail).
      * destruct (wbs <? mx); exists M, F; cbn; auto.
      * exact (proj2 Ho).
      * exact Ho.
    + destruct o as [[| | | | | |wbs mx]|c|a b c]; cbn [next_cfg]; auto.
      * cbn in Ho. replace (wbs <? mx) with true by lia. unfold config_valid. cbn. lia.
      * exact (proj1 Ho).
  - intros s Hs. destruct (Hpan s Hs) as [[_ Hov]|[_ Hnv]].
    + rewrite (Flim_some _ _ HF) in Hov. lia.
    + apply Hnv. destruct o as [o|c|a b c]; cbn in *; tauto.
Qed.

Lemma xops_safe Mx Fx : forall ops x w rs x' w',
  Mx + Fx < two64 -> cfg_inv Mx Fx x -> xops_within Mx Fx ops ->
  run_xops x ops w = (rs, x', w') ->
  cfg_inv Mx Fx x' /\
  Forall (fun t : op_result * N * config => (forall s, ~ opres_panic (fst (fst t)) s) /\ cfg_within Mx Fx (snd t)) rs.
Proof.
  induction ops as [|o ops IH]; intros x w rs x' w' Hb Hj Hok.
  - cbn [run_xops]. intros H; inversion H; subst. split; [exact Hj|constructor].
  - rewrite run_xops_cons.
    destruct (run_xop x o w) as [[res1 x1] w1] eqn:E1.
    destruct (run_xops x1 ops w1) as [[rs2 x2] w2] eqn:E2.
    intros H; inversion H; subst; clear H.
    inversion Hok as [|o' l Ho Hok2]; subst.
    destruct (xop_safe_step _ _ _ _ _ _ _ _ Hb Hj Ho E1) as [Hj1 Hnp].
    destruct (IH _ _ _ _ _ Hb Hj1 Hok2 E2) as [Hj2 Hall].
    split; [exact Hj2|]. constructor; [|exact Hall]. cbn [fst snd]. split; [exact Hnp|exact (proj1 Hj)].
Qed.

Lemma ctx_new_cfg_inv Mx Fx role part cfg x :
  cfg_within Mx Fx cfg -> ctx_new role part cfg = Some x -> cfg_inv Mx Fx x.
Proof.
  intros Hw Hn. apply (ctx_new_spec Mx) in Hn. destruct Hn as [Hc [Hi Hv]]. subst cfg.
  split; [exact Hw|split; [exact Hv|exact Hi]].
Qed.

Lemma xops_no_panic Mx Fx role part cfg x ops w rs x' w' :
  Mx + Fx < two64 -> cfg_within Mx Fx cfg ->
  ctx_new role part cfg = Some x ->
  xops_within Mx Fx ops ->
  run_xops x ops w = (rs, x', w') ->
  forall r n c s, In (r, n, c) rs -> ~ is_panic r s.
Proof.
  intros Hb Hw Hn Hok H r n c s Hin Hp.
  pose proof (ctx_new_cfg_inv _ _ _ _ _ _ Hw Hn) as Hj.
  destruct (xops_safe _ _ _ _ _ _ _ _ Hb Hj Hok H) as [_ Hall]. rewrite Forall_forall in Hall.
  destruct (Hall _ Hin) as [Hnp _]. apply (Hnp s). cbn [fst]. apply is_panic_opres. exact Hp.
Qed.

(* the accumulator stays within the global bound, whatever the limit in force *)
Lemma xops_accumulator_bound Mx Fx role part cfg x ops w rs x' w' :
  Mx + Fx < two64 -> cfg_within Mx Fx cfg ->
  ctx_new role part cfg = Some x ->
  xops_within Mx Fx ops ->
  run_xops x ops w = (rs, x', w') ->
  forall m, x_incomplete x' = Some m -> incmsg_len m <= Mx.
Proof.
  intros Hb Hw Hn Hok H m Hm.
  pose proof (ctx_new_cfg_inv _ _ _ _ _ _ Hw Hn) as Hj.
  destruct (xops_safe _ _ _ _ _ _ _ _ Hb Hj Hok H) as [[_ [_ [_ Hi]]] _].
  rewrite Hm in Hi. exact (proj1 Hi).
Qed.

(* assert_valid on an invalid configuration is an explicit branch: the configuration is replaced, the
   codec, the accumulator and the world are not touched *)
Lemma set_config_invalid x cfg' w :
  config_valid cfg' = false ->
  exists x1, run_xop x (XSetConfig cfg') w = (ResUnit (RPanic site_config_invalid), x1, w) /\
             x_cfg x1 = cfg' /\ x_codec x1 = x_codec x /\ x_incomplete x1 = x_incomplete x.
Proof.
  intros H. cbn [run_xop]. unfold set_config. rewrite H.
  eexists. split; [reflexivity|]. cbn. auto.
Qed.

(* every panic one operation of a history can produce, from a state whose accumulator is within Mx *)
Lemma xop_panic_sites F M Mx x o w res x' w' s :
  cfg_max_frame_size (x_cfg x) = Some F -> cfg_max_message_size (x_cfg x) = Some M -> M <= Mx ->
  ctx_inv Mx x -> run_xop x o w = (res, x', w') -> is_panic res s ->
  (s = site_overflow /\ two64 <= Mx + F) \/ (s = site_config_invalid /\ ~ xop_valid x o).
Proof.
  intros HF HM Hle [_ Hi] H Hp. apply run_xop_g in H.
  destruct (go_lim _ _ _ _ _ _ H M HM) as [_ G2]. destruct (G2 Mx Hle Hi) as [_ Hpan].
  rewrite (Flim_some _ _ HF) in Hpan. apply Hpan. apply is_panic_opres. exact Hp.
Qed.
