(* proofs/PairStepP.v — C04, part 2: what one call of the protocol layer does when the transport's
   write side never fails hard ("soft": every write accepts at least one byte or answers
   WouldBlock, every flush succeeds or answers WouldBlock) — the "reliable transport" of the
   property, with write-side WouldBlock windows.  For each function: the result, the new state, what
   happened to the additional_send slot and which frames were queued. *)
From TungModel Require Import Base Coding Mask Header Frame Utf8 World Message Codec Protocol.
From TungModel.proofs Require Import HeaderP MaskP CodecReadP WritePathP CloseP PairCodecP.
From Coq Require Import Arith Lia ZifyBool ZifyNat ZifyN.

Arguments N.add : simpl never.
Arguments N.mul : simpl never.
Arguments N.sub : simpl never.
Arguments N.div : simpl never.
Arguments N.modulo : simpl never.
Arguments N.ltb : simpl never.
Arguments N.leb : simpl never.
Arguments N.eqb : simpl never.
Arguments N.min : simpl never.
Arguments N.of_nat : simpl never.
Arguments N.to_nat : simpl never.

(* ------------------------------------------------------------------------------------------ *)
(** * 1. soft transports, world extension *)

Definition soft_wr (o : wr_out) : Prop :=
  match o with WrAccept n => 0 < n | WrErr k => k = WouldBlock end.
Definition soft_fl (o : fl_out) : Prop :=
  match o with FlOk => True | FlErr k => k = WouldBlock end.
Definition soft (w : world) : Prop := Forall soft_wr (w_wrs w) /\ Forall soft_fl (w_fls w).

(* w' is w after some write-side calls that queued the frames nf: the read oracle is untouched, the
   write and flush oracles were consumed from the front *)
Definition wext (w w' : world) (nf : list frame) : Prop :=
  (exists evs, w_log w' = w_log w ++ evs /\ queued evs = nf) /\
  w_rds w' = w_rds w /\ (exists p, w_wrs w = p ++ w_wrs w') /\ (exists p, w_fls w = p ++ w_fls w').

Lemma wext_refl w : wext w w [].
Proof.
  unfold wext. splits; auto; try (exists []; reflexivity).
  exists []. rewrite app_nil_r. split; reflexivity.
Qed.

Lemma wext_trans w0 w1 w2 n1 n2 : wext w0 w1 n1 -> wext w1 w2 n2 -> wext w0 w2 (n1 ++ n2).
Proof.
  intros [[e1 [L1 Q1]] [R1 [[p1 W1] [q1 F1]]]] [[e2 [L2 Q2]] [R2 [[p2 W2] [q2 F2]]]].
  unfold wext. splits.
  - exists (e1 ++ e2). rewrite L2, L1, app_assoc, WritePathP.queued_app, Q1, Q2. split; reflexivity.
  - congruence.
  - exists (p1 ++ p2). rewrite W1, W2, app_assoc. reflexivity.
  - exists (q1 ++ q2). rewrite F1, F2, app_assoc. reflexivity.
Qed.

Lemma Forall_suffix {A} (P : A -> Prop) (p l : list A) : Forall P (p ++ l) -> Forall P l.
Proof. intros H. apply Forall_app in H. tauto. Qed.

Lemma wext_soft w w' nf : wext w w' nf -> soft w -> soft w'.
Proof.
  intros [_ [_ [[p W] [q F]]]] [S1 S2]. rewrite W in S1. rewrite F in S2.
  split; eapply Forall_suffix; eassumption.
Qed.

Ltac inj3 H := injection H as <- <- <-.

(* soft results of the write side *)
Notation wb := (EIo WouldBlock).

(* ------------------------------------------------------------------------------------------ *)
(** * 2. codec level *)

Lemma wol_soft (wrs : list wr_out) : forall out log r out' wrs' log',
  Forall soft_wr wrs -> write_out_loop wrs out log = (r, out', wrs', log') ->
  (exists p, wrs = p ++ wrs') /\ (exists evs, log' = log ++ evs /\ queued evs = []) /\
  ((r = ROk tt /\ out' = []) \/ (r = RErr wb /\ out' <> [])).
Proof.
  induction wrs as [|o wrs IH]; intros out log r out' wrs' log' HS H.
  - destruct out as [|b out]; cbn in H; inv H.
    + splits; [exists []; reflexivity|exists []; rewrite app_nil_r; split; reflexivity|left; auto].
    + splits; [exists []; reflexivity|eexists; split; reflexivity|right; split; [reflexivity|discriminate]].
  - destruct out as [|b out]; cbn [write_out_loop] in H.
    + inv H. splits; [exists []; reflexivity|exists []; rewrite app_nil_r; split; reflexivity|left; auto].
    + inversion HS as [|? ? Ho HS']; subst. destruct o as [n|k].
      * cbn in Ho. destruct (N.min n (blen (b :: out)) =? 0) eqn:E0.
        { rewrite HeaderP.blen_cons in E0. lia. }
        apply IH in H; [|exact HS']. destruct H as [[p Hp] [[evs [El Hq]] Hr]].
        splits; [exists (WrAccept n :: p); rewrite Hp; reflexivity| |exact Hr].
        eexists. rewrite El, <- app_assoc. split; [reflexivity|]. cbn [app queued]. exact Hq.
      * cbn in Ho. subst k. inv H.
        splits; [exists [WrErr WouldBlock]; reflexivity|eexists; split; reflexivity|].
        right. split; [reflexivity|discriminate].
Qed.

Lemma wob_soft c w r c' w' :
  soft w -> write_out_buffer c w = (r, c', w') ->
  c' = set_out c (c_out c') /\ wext w w' [] /\
  ((r = ROk tt /\ c_out c' = []) \/ (r = RErr wb /\ c_out c' <> [])).
Proof.
  intros [S1 S2]. unfold write_out_buffer.
  destruct (write_out_loop (w_wrs w) (c_out c) (w_log w)) as [[[r0 o] wrs] lg] eqn:E.
  intros H. inv H. apply wol_soft in E; [|exact S1]. destruct E as [Hp [Hev Hr]].
  cbn [c_out set_out]. splits; auto. unfold wext. cbn. splits; auto. exists []. reflexivity.
Qed.

Lemma cbf_soft c f w r c' w' :
  soft w -> codec_buffer_frame c f w = (r, c', w') ->
  (r = RErr (EWriteBufferFull f) /\ c' = c /\ w' = w) \/
  (c' = set_out c (c_out c') /\ wext w w' [f] /\ (r = ROk tt \/ (r = RErr wb /\ c_out c' <> []))).
Proof.
  intros HS. unfold codec_buffer_frame.
  destruct (c_max_out c <? frame_len f + blen (c_out c)); intros H.
  - inv H. left. auto.
  - right. destruct (c_write_len c <? _).
    + apply wob_soft in H; [|exact HS]. destruct H as [Hc [Hw Hr]].
      cbn [c_out set_out] in Hc. splits.
      * rewrite Hc. destruct c; reflexivity.
      * destruct Hw as [[evs [El Hq]] [Hrd [Hwr Hfl]]]. unfold wext. splits; auto.
        exists (EvQueue f :: evs). cbn [w_log w_emit] in El. rewrite El, <- app_assoc.
        split; [reflexivity|]. cbn [queued]. rewrite Hq. reflexivity.
      * destruct Hr as [[-> _]|Hr]; auto.
    + inv H. cbn [c_out set_out]. splits; auto.
      unfold wext. cbn. splits; auto; try (exists []; reflexivity).
      exists [EvQueue f]. split; reflexivity.
Qed.

Lemma w_flush_soft w r w' :
  soft w -> w_flush w = (r, w') -> wext w w' [] /\ (r = ROk tt \/ r = RErr wb).
Proof.
  intros [_ S2]. unfold w_flush, wext. intros H.
  destruct (w_fls w) as [|[|k] l] eqn:E; inv H; cbn [w_log w_rds w_wrs w_fls w_emit w_set_fls]; rewrite ?E.
  - splits; auto; try (exists []; reflexivity). eexists. split; reflexivity.
  - splits; auto; [eexists; split; reflexivity|exists []; reflexivity|exists [FlOk]; reflexivity].
  - inversion S2 as [|? ? Hk _]; subst. cbn in Hk. subst k.
    splits; auto; [eexists; split; reflexivity|exists []; reflexivity|exists [FlErr WouldBlock]; reflexivity].
Qed.

(* ------------------------------------------------------------------------------------------ *)
(** * 3. contexts *)

(* x with a new out_buffer, state, additional slot and unflushed flag *)
Definition upd (x : ctx) (o : bytes) (s : ws_state) (a : option frame) (u : bool) : ctx :=
  mkCtx (x_role x) (set_out (x_codec x) o) s (x_incomplete x) a u (x_cfg x).

Lemma upd_id x : x = upd x (c_out (x_codec x)) (x_state x) (x_additional x) (x_unflushed x).
Proof. destruct x as [ro [ci co cm cw ch] st inc ad un cf]. reflexivity. Qed.

Lemma upd_upd x o s a u o' s' a' u' : upd (upd x o s a u) o' s' a' u' = upd x o' s' a' u'.
Proof. reflexivity. Qed.

Lemma ccr_soft {A} (r : res A) s :
  r <> RErr (EIo ConnReset) -> check_connection_reset r s = (r, s).
Proof.
  intros H. unfold check_connection_reset. destruct r as [a|e|p|]; try reflexivity.
  destruct e; try reflexivity. destruct k; try reflexivity. contradiction.
Qed.

(* the frame [f] as role [r] puts it on the wire: same content, masked iff client *)
Definition wire_of (r : role) (f f1 : frame) : Prop := content_eq f f1 /\ mask_ok r f1.

Definition unmasked_if_server (r : role) (f : frame) : Prop := r = Server -> h_mask (f_hdr f) = None.

Lemma sent_frame_wire_of r w f : unmasked_if_server r f -> wire_of r f (sent_frame r w f).
Proof.
  intros Hm. split; [apply sent_frame_content|]. destruct r; cbn.
  - apply Hm. reflexivity.
  - eexists. reflexivity.
Qed.

Lemma sent_frame_unmasked r w f : unmasked_if_server r f -> unmasked_if_server r (sent_frame r w f).
Proof. intros Hm E. subst r. cbn. apply Hm. reflexivity. Qed.

Lemma wire_of_trans r f g h : wire_of r f g -> wire_of r g h -> wire_of r f h.
Proof. intros [C1 _] [C2 M]. split; [eapply content_eq_trans; eassumption|exact M]. Qed.

(* what happened to the additional_send slot during a call, and the frames queued from it *)
Definition slot (r : role) (a0 a : option frame) (nf : list frame) : Prop :=
  (a = a0 /\ nf = []) \/
  exists f f1, a0 = Some f /\ wire_of r f f1 /\ unmasked_if_server r f1 /\
               ((a = None /\ nf = [f1]) \/ (a = Some f1 /\ nf = [])).

Lemma slot_refl r a : slot r a a [].
Proof. left. auto. Qed.

Lemma slot_trans r a0 a1 a2 n1 n2 : slot r a0 a1 n1 -> slot r a1 a2 n2 -> slot r a0 a2 (n1 ++ n2).
Proof.
  intros [[-> ->]|[f [f1 [-> [W1 [U1 H1]]]]]] H2; [exact H2|].
  destruct H1 as [[-> ->]|[-> ->]].
  - destruct H2 as [[-> ->]|[g [g1 [X _]]]]; [|discriminate X].
    right. exists f, f1. splits; auto.
  - destruct H2 as [[-> ->]|[g [g1 [X [W2 [U2 H2]]]]]].
    + right. exists f, f1. splits; auto.
    + inv X. right. exists f, g1. splits; auto. eapply wire_of_trans; eassumption.
Qed.

Definition add_unmasked (x : ctx) : Prop :=
  match x_additional x with Some f => unmasked_if_server (x_role x) f | None => True end.

(* ------------------------------------------------------------------------------------------ *)
(** * 4. buffer_frame *)

Lemma after_key_wext r w : wext w (after_key r w) [].
Proof.
  destruct r; [apply wext_refl|]. unfold after_key, w_next_key.
  destruct (w_keys w); [apply wext_refl|].
  unfold wext. cbn. splits; auto; try (exists []; reflexivity). exists []. rewrite app_nil_r. split; reflexivity.
Qed.

Lemma bf_soft x f w r x' w' :
  soft w -> buffer_frame x f w = (r, x', w') ->
  let f1 := sent_frame (x_role x) w f in
  (r = RErr (EWriteBufferFull f1) /\ x' = x /\ wext w w' []) \/
  (exists o, x' = upd x o (x_state x) (x_additional x) (x_unflushed x) /\ wext w w' [f1] /\
             (r = ROk tt \/ (r = RErr wb /\ o <> []))).
Proof.
  intros HS. rewrite buffer_frame_unfold. cbv zeta.
  destruct (codec_buffer_frame (x_codec x) (sent_frame (x_role x) w f) (after_key (x_role x) w))
    as [[r0 c0] w0] eqn:EC.
  pose proof (after_key_wext (x_role x) w) as HK.
  apply cbf_soft in EC; [|eapply wext_soft; eassumption].
  destruct EC as [[-> [-> ->]]|[Hc [Hw Hr]]].
  - rewrite ccr_soft by discriminate. intros H. inj3 H. left. splits; auto. apply ctx_eta.
  - rewrite ccr_soft by (destruct Hr as [->|[-> _]]; discriminate).
    intros H. inj3 H. right. exists (c_out c0). splits.
    + unfold upd. rewrite <- Hc. destruct x; reflexivity.
    + exact (wext_trans _ _ _ _ _ HK Hw).
    + exact Hr.
Qed.

(* ------------------------------------------------------------------------------------------ *)
(** * 5. _write(None), flush *)

(* the outcome of a write-side call started in state s *)
Definition wres (role : role) (s : ws_state) (r : res unit) (s' : ws_state) (a' : option frame) (o' : bytes) : Prop :=
  (r = ROk tt /\ s' = s) \/ (r = RErr wb /\ s' = s) \/
  (r = RErr EConnectionClosed /\ role = Server /\ closing_done s = true /\ s' = Terminated /\
   a' = None /\ o' = []).

Lemma write_none_soft x w r x' w' :
  soft w -> add_unmasked x -> write_ x None w = (r, x', w') ->
  exists o a u nf, x' = upd x o (x_state x') a u /\ wext w w' nf /\
    slot (x_role x) (x_additional x) a nf /\
    wres (x_role x) (x_state x) (err_of r) (x_state x') a o.
Proof.
  intros HS HU. rewrite CloseP.write__eq. cbv beta iota zeta.
  (* the additional slot *)
  assert (HA : forall r1 x1 w1, write_add x w = (r1, x1, w1) ->
            exists o a u nf, x1 = upd x o (x_state x) a u /\ wext w w1 nf /\
              slot (x_role x) (x_additional x) a nf /\
              ((exists b, r1 = ROk b) \/ r1 = RErr wb)).
  { intros r1 x1 w1. unfold write_add. destruct (x_additional x) as [msg|] eqn:Ea.
    - destruct (buffer_frame (set_additional_raw x None) msg w) as [[rb xb] wb0] eqn:EB.
      apply bf_soft in EB; [|exact HS]. cbv zeta in EB. cbn [x_role set_additional_raw] in EB.
      unfold add_unmasked in HU. rewrite Ea in HU.
      pose proof (sent_frame_wire_of (x_role x) w msg HU) as HW.
      pose proof (sent_frame_unmasked (x_role x) w msg HU) as HU1.
      destruct EB as [[-> [-> Hw]]|[o [-> [Hw Hr]]]].
      + intros H. inj3 H. unfold set_additional. cbn [x_additional set_additional_raw].
        exists (c_out (x_codec x)), (Some (sent_frame (x_role x) w msg)). eexists. exists []. splits.
        * destruct x as [ro [ci co cm cw ch] st inc ad un cf]. reflexivity.
        * exact Hw.
        * right. exists msg, (sent_frame (x_role x) w msg). splits; auto.
        * left. eauto.
      + cbn [x_state x_additional x_unflushed set_additional_raw].
        destruct Hr as [->|[-> Ho]]; intros H; inj3 H.
        * exists o, None. eexists. exists [sent_frame (x_role x) w msg]. splits.
          -- reflexivity.
          -- exact Hw.
          -- right. exists msg, (sent_frame (x_role x) w msg). splits; auto.
          -- left. eauto.
        * exists o, None. eexists. exists [sent_frame (x_role x) w msg]. splits.
          -- reflexivity.
          -- exact Hw.
          -- right. exists msg, (sent_frame (x_role x) w msg). splits; auto.
          -- right. reflexivity.
    - intros H. inj3 H. exists (c_out (x_codec x)), None, (x_unflushed x), []. rewrite <- Ea.
      splits; eauto using wext_refl, slot_refl. apply upd_id. }
  destruct (write_add x w) as [[r1 x1] w1] eqn:EA.
  destruct (HA _ _ _ eq_refl) as [o [a [u [nf [-> [Hw [Hs Hr]]]]]]]. clear HA.
  destruct Hr as [[b ->]| ->].
  2:{ intros H. inj3 H. exists o, a, u, nf. cbn [x_state upd err_of]. splits; auto. right. left. auto. }
  unfold write_tail. cbn [x_role x_state x_additional upd].
  destruct (role_eqb (x_role x) Server && closing_done (x_state x) &&
            match a with None => true | Some _ => false end) eqn:ET.
  - apply andb_prop in ET. destruct ET as [ET Ea]. apply andb_prop in ET. destruct ET as [Er Ec].
    apply role_eqb_server in Er. destruct a as [?|]; [discriminate Ea|].
    destruct (write_out_buffer (x_codec (upd x o (x_state x) None u)) w1) as [[rw c'] w2] eqn:EO.
    apply wob_soft in EO; [|eapply wext_soft; eassumption]. destruct EO as [Hc [Hw2 Hr2]].
    pose proof (wext_trans _ _ _ _ _ Hw Hw2) as Hw02. rewrite app_nil_r in Hw02.
    destruct Hr2 as [[-> Ho]|[-> Ho]]; intros H; inj3 H.
    + exists [], None, u, nf. cbn [x_state set_state set_codec upd err_of]. splits; auto.
      * rewrite Hc, Ho. reflexivity.
      * right. right. splits; auto.
    + exists (c_out c'), None, u, nf. cbn [x_state set_state set_codec upd err_of]. splits; auto.
      * rewrite Hc. reflexivity.
      * right. left. auto.
  - intros H. inj3 H. exists o, a, u, nf. cbn [x_state upd err_of]. splits; auto. left. auto.
Qed.

(* flush: additionally, Ok means the out_buffer is empty *)
Lemma flush_soft x w r x' w' :
  soft w -> add_unmasked x -> flush x w = (r, x', w') ->
  exists o a u nf, x' = upd x o (x_state x') a u /\ wext w w' nf /\
    slot (x_role x) (x_additional x) a nf /\
    wres (x_role x) (x_state x) r (x_state x') a o /\
    (r = ROk tt -> o = [] /\ u = false).
Proof.
  intros HS HU. unfold flush.
  destruct (write_ x None w) as [[r0 x0] w0] eqn:EW.
  apply write_none_soft in EW; auto.
  destruct EW as [o [a [u0 [nf [Hx0 [Hw [Hs Hr]]]]]]].
  destruct r0 as [b|e|p|]; cbn [err_of] in Hr.
  - assert (Hst : x_state x0 = x_state x).
    { destruct Hr as [[_ E]|[[X _]|[X _]]]; [exact E|discriminate X|discriminate X]. }
    rewrite Hst in Hx0. subst x0.
    destruct (write_out_buffer (x_codec (upd x o (x_state x) a u0)) w0) as [[r1 c1] w1] eqn:EO.
    apply wob_soft in EO; [|eapply wext_soft; eassumption]. destruct EO as [Hc [Hw1 Hr1]].
    pose proof (wext_trans _ _ _ _ _ Hw Hw1) as Hw01. rewrite app_nil_r in Hw01.
    remember (c_out c1) as o1 eqn:Eo1. clear Eo1. subst c1.
    change (set_codec (upd x o (x_state x) a u0)
              (set_out (x_codec (upd x o (x_state x) a u0)) o1))
      with (upd x o1 (x_state x) a u0).
    destruct Hr1 as [[-> Ho]|[-> Ho]].
    + destruct (w_flush w1) as [r2 w2] eqn:EF.
      apply w_flush_soft in EF; [|eapply wext_soft; eassumption]. destruct EF as [Hw2 Hr2].
      pose proof (wext_trans _ _ _ _ _ Hw01 Hw2) as Hw02. rewrite app_nil_r in Hw02.
      destruct Hr2 as [-> | ->]; intros H; inj3 H.
      * exists [], a, false, nf. rewrite Ho. cbn [set_unflushed x_state upd]. splits; auto.
        left. auto.
      * exists o1, a, u0, nf. cbn [x_state upd]. splits; auto.
        -- right. left. auto.
        -- intros X. discriminate X.
    + intros H. inj3 H. exists o1, a, u0, nf. cbn [x_state upd]. splits; auto.
      * right. left. auto.
      * intros X. discriminate X.
  - intros H. inj3 H. exists o, a, u0, nf. splits; auto.
    intros X. discriminate X.
  - destruct Hr as [[X _]|[[X _]|[X _]]]; discriminate X.
  - destruct Hr as [[X _]|[[X _]|[X _]]]; discriminate X.
Qed.

(* ------------------------------------------------------------------------------------------ *)
(** * 6. close, write *)

Lemma close_soft x c w r x' w' :
  soft w -> add_unmasked x -> close x c w = (r, x', w') ->
  let s0 := match x_state x with Active => ClosedByUs | s => s end in
  let a0 := match x_state x with Active => Some (frame_close c) | _ => x_additional x end in
  exists o a u nf, x' = upd x o (x_state x') a u /\ wext w w' nf /\
    slot (x_role x) a0 a nf /\ wres (x_role x) s0 r (x_state x') a o /\ (r = ROk tt -> o = [] /\ u = false).
Proof.
  intros HS HU. unfold close. cbv zeta.
  destruct (x_state x) eqn:Es; intros H;
    try (apply flush_soft in H; auto; rewrite Es in H; exact H).
  apply flush_soft in H; [|exact HS|unfold add_unmasked; cbn [x_additional set_additional_raw]; intros _; reflexivity].
  cbn [x_role x_state x_additional set_additional_raw set_state] in H.
  destruct H as [o [a [u [nf [Hx H]]]]]. exists o, a, u, nf. split; [|exact H]. rewrite Hx. reflexivity.
Qed.

Lemma write_some_eq x f w :
  write_ x (Some f) w =
  let '(r0, x0, w0) := buffer_frame x f w in
  match r0 with
  | ROk _ => write_ x0 None w0
  | RErr e => (RErr e, x0, w0)
  | RPanic s => (RPanic s, x0, w0)
  | ROutOfFuel => (ROutOfFuel, x0, w0)
  end.
Proof. unfold write_. destruct (buffer_frame x f w) as [[r0 x0] w0]. destruct r0; reflexivity. Qed.

(* a user write of a frame in the Active state: refused (WriteBufferFull, nothing queued) or queued,
   possibly followed by the parked pong *)
Lemma write_data_soft x f w r x' w' :
  soft w -> add_unmasked x -> x_state x = Active -> unmasked_if_server (x_role x) f ->
  write_data x f w = (r, x', w') ->
  exists o a u nf, x' = upd x o Active a u /\ wext w w' nf /\
    ((exists f1, r = RErr (EWriteBufferFull f1) /\ nf = [] /\ a = x_additional x) \/
     (exists f1 nf', wire_of (x_role x) f f1 /\ nf = f1 :: nf' /\ slot (x_role x) (x_additional x) a nf' /\
                     (r = ROk tt \/ r = RErr wb))).
Proof.
  intros HS HU Es Hf. unfold write_data. rewrite write_some_eq.
  destruct (buffer_frame x f w) as [[r0 x0] w0] eqn:EB.
  apply bf_soft in EB; [|exact HS]. cbv zeta in EB.
  pose proof (sent_frame_wire_of (x_role x) w f Hf) as HW.
  destruct EB as [[-> [-> Hw]]|[o0 [-> [Hw Hr]]]].
  - intros H. inj3 H. exists (c_out (x_codec x)), (x_additional x), (x_unflushed x), [].
    splits; auto. { rewrite <- Es. apply upd_id. } left. eauto.
  - rewrite Es in *. destruct Hr as [->|[-> Ho]].
    2:{ intros H. inj3 H. exists o0, (x_additional x), (x_unflushed x), [sent_frame (x_role x) w f].
        splits; auto. right. exists (sent_frame (x_role x) w f), []. splits; auto using slot_refl. }
    destruct (write_ (upd x o0 Active (x_additional x) (x_unflushed x)) None w0) as [[r1 x1] w1] eqn:EW.
    apply write_none_soft in EW; [|eapply wext_soft; eassumption|exact HU].
    cbn [x_role x_state x_additional x_unflushed upd] in EW.
    destruct EW as [o [a [u1 [nf [Hx1 [Hw1 [Hs Hr]]]]]]].
    pose proof (wext_trans _ _ _ _ _ Hw Hw1) as Hw01. cbn [app] in Hw01.
    assert (Hst : x_state x1 = Active /\ ((exists b, r1 = ROk b) \/ r1 = RErr wb)).
    { destruct Hr as [[Hr E]|[[Hr E]|[_ [_ [X _]]]]]; [| |discriminate X]; split; auto.
      - destruct r1; try discriminate Hr. left. eauto.
      - destruct r1; try discriminate Hr. right. cbn in Hr. injection Hr as ->. reflexivity. }
    destruct Hst as [Hst Hr1]. rewrite Hst in Hx1. subst x1.
    destruct Hr1 as [[b ->]| ->].
    + destruct b.
      * intros H. apply flush_soft in H; [|eapply wext_soft; eassumption|].
        2:{ unfold add_unmasked. cbn [x_additional x_role upd].
            destruct Hs as [[-> _]|[g [g1 [_ [_ [U [[-> _]|[-> _]]]]]]]]; auto. }
        cbn [x_role x_state x_additional upd] in H.
        destruct H as [o2 [a2 [u2 [nf2 [Hx2 [Hw2 [Hs2 [Hr2 _]]]]]]]].
        assert (Hst2 : x_state x' = Active /\ (r = ROk tt \/ r = RErr wb)).
        { destruct Hr2 as [[Hr2 E]|[[Hr2 E]|[_ [_ [X _]]]]]; [| |discriminate X]; auto. }
        destruct Hst2 as [Hst2 Hr2']. rewrite Hst2 in Hx2.
        exists o2, a2, u2, (sent_frame (x_role x) w f :: nf ++ nf2). splits; auto.
        -- exact (wext_trans _ _ _ _ _ Hw01 Hw2).
        -- right. exists (sent_frame (x_role x) w f), (nf ++ nf2). splits; auto.
           eapply slot_trans; eassumption.
      * intros H. inj3 H. exists o, a, u1, (sent_frame (x_role x) w f :: nf). splits; auto.
        right. exists (sent_frame (x_role x) w f), nf. splits; auto.
    + intros H. inj3 H. exists o, a, u1, (sent_frame (x_role x) w f :: nf). splits; auto.
      right. exists (sent_frame (x_role x) w f), nf. splits; auto.
Qed.

Lemma write_pong_soft x d w r x' w' :
  soft w -> add_unmasked x -> x_state x = Active ->
  write_pong x d w = (r, x', w') ->
  exists o a u nf, x' = upd x o Active a u /\ wext w w' nf /\
    slot (x_role x) (sa (x_additional x) (frame_pong d)) a nf /\ (r = ROk tt \/ r = RErr wb).
Proof.
  intros HS HU Es. unfold write_pong.
  destruct (write_ (set_additional x (frame_pong d)) None w) as [[r0 x0] w0] eqn:EW.
  apply write_none_soft in EW; [|exact HS|].
  2:{ unfold add_unmasked. rewrite set_additional_add, set_additional_role. unfold sa.
      unfold add_unmasked in HU. destruct (x_additional x) as [g|]; [|intros _; reflexivity].
      destruct (opcode_eqb _ _); [intros _; reflexivity|exact HU]. }
  rewrite set_additional_add, set_additional_role, set_additional_state in EW.
  destruct EW as [o [a [u1 [nf [Hx0 [Hw [Hs Hr]]]]]]]. rewrite Es in Hr.
  assert (Hst : x_state x0 = Active /\ ((exists b, r0 = ROk b) \/ r0 = RErr wb)).
  { destruct Hr as [[Hr E]|[[Hr E]|[_ [_ [X _]]]]]; [| |discriminate X]; split; auto.
    - destruct r0; try discriminate Hr. left. eauto.
    - destruct r0; try discriminate Hr. right. cbn in Hr. injection Hr as ->. reflexivity. }
  destruct Hst as [Hst Hr0]. rewrite Hst in Hx0.
  assert (Hx0' : x0 = upd x o Active a u1).
  { rewrite Hx0. unfold upd. rewrite x_role_set_additional, x_codec_set_additional, x_cfg_set_additional.
    f_equal. unfold set_additional. repeat dm_goal; reflexivity. }
  destruct Hr0 as [[b ->]| ->]; intros H; inj3 H; exists o, a, u1, nf; splits; auto.
Qed.

(* ------------------------------------------------------------------------------------------ *)
(** * 7. the pre-step of read *)

Lemma read_pre_soft x w r x' w' :
  soft w -> add_unmasked x -> x_state x <> Terminated ->
  read_pre x w = (r, x', w') ->
  exists o a u nf, x' = upd x o (x_state x') a u /\ wext w w' nf /\
    slot (x_role x) (x_additional x) a nf /\
    wres (x_role x) (x_state x) r (x_state x') a o /\
    (r = RErr wb -> x_role x = Server /\ closing_done (x_state x) = true).
Proof.
  intros HS HU Hnt. unfold read_pre.
  destruct ((match x_additional x with Some _ => true | None => false end) || x_unflushed x) eqn:E1.
  - destruct (flush x w) as [[r0 x0] w0] eqn:EF. apply flush_soft in EF; auto.
    destruct EF as [o [a [u [nf [Hx0 [Hw [Hs [Hr _]]]]]]]].
    destruct Hr as [[-> E]|[[-> E]|[-> [Hro [Hcd [Ht [-> ->]]]]]]]; intros H; inj3 H.
    + exists o, a, u, nf. splits; auto. { left. auto. } intros X. discriminate X.
    + exists o, a, true, nf. cbn [x_state set_unflushed]. splits; auto.
      * rewrite Hx0. reflexivity.
      * left. auto.
      * intros X. discriminate X.
    + exists [], None, u, nf. splits; auto. right. right. splits; auto.
  - apply orb_false_elim in E1. destruct E1 as [Ea _].
    destruct (x_additional x) as [?|] eqn:Eadd; [discriminate Ea|].
    destruct (role_eqb (x_role x) Server && negb (can_read (x_state x))) eqn:E2.
    + apply andb_prop in E2. destruct E2 as [Er Ec]. apply role_eqb_server in Er.
      assert (Hcd : closing_done (x_state x) = true).
      { destruct (x_state x); try discriminate Ec; try reflexivity. contradiction. }
      destruct (write_out_buffer (x_codec x) w) as [[rw c'] w2] eqn:EO.
      apply wob_soft in EO; auto. destruct EO as [Hc [Hw Hr]].
      destruct Hr as [[-> Ho]|[-> Ho]]; intros H; inj3 H.
      * exists [], None, (x_unflushed x), []. cbn [x_state set_state set_codec]. splits.
        -- rewrite Hc, Ho. destruct x as [ro [ci co cm cw ch] st inc ad un cf]. cbn in Eadd. subst ad. reflexivity.
        -- exact Hw.
        -- apply slot_refl.
        -- right. right. splits; auto.
        -- intros X. discriminate X.
      * exists (c_out c'), None, (x_unflushed x), []. cbn [x_state set_codec]. splits.
        -- rewrite Hc. destruct x as [ro [ci co cm cw ch] st inc ad un cf]. cbn in Eadd. subst ad. reflexivity.
        -- exact Hw.
        -- apply slot_refl.
        -- right. left. auto.
        -- intros _. split; assumption.
    + intros H. inj3 H. exists (c_out (x_codec x)), None, (x_unflushed x), []. splits.
      * rewrite <- Eadd. apply upd_id.
      * apply wext_refl.
      * apply slot_refl.
      * left. auto.
      * intros X. discriminate X.
Qed.

(* ------------------------------------------------------------------------------------------ *)
(** * 8. frames the peer may receive, and what read_message_frame makes of them *)

(* the content of a frame this library sends when the user respects the documented preconditions:
   FIN set, no reserved bits, one of the five opcodes, control payloads at most 125 bytes, text is
   UTF-8, a Close body is empty or a code and a UTF-8 reason *)
Definition okc (f : frame) : Prop :=
  h_fin (f_hdr f) = true /\ h_rsv1 (f_hdr f) = false /\ h_rsv2 (f_hdr f) = false /\
  h_rsv3 (f_hdr f) = false /\ blen (f_payload f) < two64 /\
  match h_opcode (f_hdr f) with
  | OData Text => is_utf8 (f_payload f) = true
  | OData Binary => True
  | OCtl Ping | OCtl Pong => blen (f_payload f) <= 125
  | OCtl Close => blen (f_payload f) <= 125 /\ exists cl, frame_into_close (f_payload f) = ROk cl
  | _ => False
  end.

Lemma okc_okr f : okc f -> okr f.
Proof.
  intros [_ [_ [_ [_ [H64 Ho]]]]]. split; [|exact H64].
  destruct (h_opcode (f_hdr f)) as [[| | |i]|[| | |i]]; try reflexivity; contradiction.
Qed.

Lemma okc_content f g : content_eq f g -> okc f -> okc g.
Proof.
  intros [Hp [Ho [Hf [H1 [H2 H3]]]]]. unfold okc. rewrite Hp, Ho, Hf, H1, H2, H3. exact (fun H => H).
Qed.

(* the data message a frame carries *)
Definition fdata (f : frame) : list message :=
  match h_opcode (f_hdr f) with
  | OData Text => [MText (f_payload f)]
  | OData Binary => [MBinary (f_payload f)]
  | _ => []
  end.
Definition dmsg (m : message) : list message :=
  match m with MText _ | MBinary _ => [m] | _ => [] end.
Definition isclose (f : frame) : bool :=
  match h_opcode (f_hdr f) with OCtl Close => true | _ => false end.
Definition is_mclose (m : message) : bool := match m with MClose _ => true | _ => false end.

Lemma fdata_content f g : content_eq f g -> fdata g = fdata f.
Proof. intros [Hp [Ho _]]. unfold fdata. rewrite Hp, Ho. reflexivity. Qed.
Lemma isclose_content f g : content_eq f g -> isclose g = isclose f.
Proof. intros [_ [Ho _]]. unfold isclose. rewrite Ho. reflexivity. Qed.

(* a reply the library parks: a Pong or a Close with a well-formed body, not masked yet *)
Definition reply_ok (g : frame) : Prop :=
  okc g /\ h_mask (f_hdr g) = None /\ (opc g = OCtl Pong \/ opc g = OCtl Close).

Inductive hf_out (s : ws_state) (a : option frame) (f : frame)
  : res (option message) -> ws_state -> option frame -> Prop :=
| HO_data m : fdata f = [m] -> hf_out s a f (ROk (Some m)) s a
| HO_ping : opc f = OCtl Ping -> reply_ok (frame_pong (f_payload f)) ->
    hf_out s a f (ROk (Some (MPing (f_payload f)))) s
           (if is_active s then sa a (frame_pong (f_payload f)) else a)
| HO_pong : opc f = OCtl Pong -> hf_out s a f (ROk (Some (MPong (f_payload f)))) s a
| HO_close_peer c g : opc f = OCtl Close -> s = Active -> reply_ok g -> opc g = OCtl Close ->
    hf_out s a f (ROk (Some (MClose c))) ClosedByPeer (sa a g)
| HO_close_ack c : opc f = OCtl Close -> s = ClosedByUs ->
    hf_out s a f (ROk (Some (MClose c))) CloseAcknowledged a.

(* the message delivered is the data the frame carries; Close is reported iff the frame is a Close *)
Lemma hf_out_msg s a f r s' a' : hf_out s a f r s' a' ->
  exists m, r = ROk (Some m) /\ dmsg m = fdata f /\ is_mclose m = isclose f.
Proof.
  intros [m Hd|Ho _|Ho|c g Ho _ _ _|c Ho _]; eexists; (split; [reflexivity|]);
    unfold fdata, isclose, opc in *; try rewrite Ho; try (split; reflexivity).
  destruct (h_opcode (f_hdr f)) as [[| | |i]|[| | |i]]; try discriminate Hd; inv Hd; split; reflexivity.
Qed.

Definition rd_same (x x' : ctx) : Prop :=
  x_role x' = x_role x /\ x_cfg x' = x_cfg x /\ x_incomplete x' = x_incomplete x /\
  x_unflushed x' = x_unflushed x /\ x_codec x' = x_codec x.

Lemma violation_utf8 :
  is_utf8 [80; 114; 111; 116; 111; 99; 111; 108; 32; 118; 105; 111; 108; 97; 116; 105; 111; 110] = true.
Proof. vm_compute. reflexivity. Qed.

Lemma to_be_2 v : exists a b, to_be 2 v = [a; b].
Proof. cbn [to_be]. eexists. eexists. reflexivity. Qed.

(* a Close body made of a code and a UTF-8 reason of at most 123 bytes *)
Lemma frame_close_ok code reason :
  is_utf8 reason = true -> 2 + blen reason <= 125 -> reply_ok (frame_close (Some (code, reason))).
Proof.
  intros Hu Hl. unfold reply_ok, okc, frame_close, default_header, opc.
  cbn [f_hdr f_payload h_fin h_rsv1 h_rsv2 h_rsv3 h_opcode h_mask].
  destruct (to_be_2 (close_to_u16 code)) as [a [b E]]. rewrite E.
  assert (Hb : blen ([a; b] ++ reason) = 2 + blen reason).
  { rewrite HeaderP.blen_app. unfold blen at 1. cbn [length]. lia. }
  rewrite Hb. splits; auto; try (unfold two64; lia).
  cbn [app]. unfold frame_into_close. rewrite Hu. eexists. reflexivity.
Qed.

Lemma frame_close_none_ok : reply_ok (frame_close None).
Proof.
  unfold reply_ok, okc, frame_close, default_header, opc.
  cbn [f_hdr f_payload h_fin h_rsv1 h_rsv2 h_rsv3 h_opcode h_mask]. unfold blen. cbn [length].
  splits; auto; try (unfold two64; lia). eexists. reflexivity.
Qed.

Lemma frame_pong_ok d : blen d <= 125 -> reply_ok (frame_pong d).
Proof.
  intros H. unfold reply_ok, okc, frame_pong, opc.
  cbn [f_hdr f_payload h_fin h_rsv1 h_rsv2 h_rsv3 h_opcode h_mask]. splits; auto. unfold two64. lia.
Qed.

Lemma handle_frame_ok x f w r x2 w2 :
  okc f -> can_read (x_state x) = true -> x_incomplete x = None ->
  cfg_max_message_size (x_cfg x) = None ->
  handle_frame x (plain_of f) w = (r, x2, w2) ->
  w2 = w /\ rd_same x x2 /\ hf_out (x_state x) (x_additional x) f r (x_state x2) (x_additional x2).
Proof.
  intros [Hfin [H1 [H2 [H3 [H64 Ho]]]]] Hcr Hinc Hmm. unfold handle_frame. cbv zeta.
  unfold plain_of. cbn [f_hdr f_payload h_fin h_rsv1 h_rsv2 h_rsv3 h_opcode h_mask].
  rewrite Hcr, H1, H2, H3, Hfin. cbn [negb orb]. rewrite Bool.andb_false_r.
  assert (Hsame : rd_same x x) by (unfold rd_same; auto).
  destruct (h_opcode (f_hdr f)) as [[| | |i]|[| | |i]] eqn:Eo; try contradiction.
  - rewrite Hinc, Hmm. cbn [check_max_size]. rewrite Ho. intros H. inj3 H. splits; auto.
    apply HO_data. unfold fdata. rewrite Eo. reflexivity.
  - rewrite Hinc, Hmm. cbn [check_max_size]. intros H. inj3 H. splits; auto.
    apply HO_data. unfold fdata. rewrite Eo. reflexivity.
  - destruct Ho as [H125 [cl Hcl]]. replace (125 <? blen (f_payload f)) with false by (symmetry; lia).
    rewrite Hcl. unfold do_close.
    destruct (x_state x) eqn:Es; try discriminate Hcr.
    + intros H. inj3 H.
      rewrite set_additional_state, set_additional_add.
      cbn [x_state x_additional set_state]. splits; auto.
      * unfold rd_same. rewrite x_role_set_additional, x_cfg_set_additional, x_codec_set_additional,
          x_unflushed_set_additional. cbn [set_state x_role x_cfg x_codec x_unflushed x_incomplete].
        splits; auto. unfold set_additional. repeat dm_goal; reflexivity.
      * apply HO_close_peer; auto.
        destruct cl as [[code reason]|]; [|apply frame_close_none_ok].
        assert (Hr : is_utf8 reason = true /\ 2 + blen reason <= 125).
        { unfold frame_into_close in Hcl. destruct (f_payload f) as [|a0 [|b0 rs]]; try discriminate Hcl.
          destruct (is_utf8 rs) eqn:Eu; [|discriminate Hcl]. inv Hcl. split; [exact Eu|].
          rewrite !HeaderP.blen_cons in H125. lia. }
        destruct Hr as [Hu Hl].
        destruct (close_allowed code); [apply frame_close_ok; assumption|].
        apply frame_close_ok; [apply violation_utf8|]. unfold blen. cbn [length]. lia.
    + intros H. inj3 H. cbn [x_state x_additional set_state]. splits; auto.
      apply HO_close_ack; auto.
  - replace (125 <? blen (f_payload f)) with false by (symmetry; lia).
    intros H. inj3 H. splits; auto.
    + destruct (is_active (x_state x)); [|exact Hsame].
      unfold rd_same. rewrite x_role_set_additional, x_cfg_set_additional, x_codec_set_additional,
        x_unflushed_set_additional. splits; auto. unfold set_additional. repeat dm_goal; reflexivity.
    + assert (E : x_state (if is_active (x_state x) then set_additional x (frame_pong (f_payload f)) else x)
                  = x_state x).
      { destruct (is_active (x_state x)); [apply set_additional_state|reflexivity]. }
      assert (E2 : x_additional (if is_active (x_state x) then set_additional x (frame_pong (f_payload f)) else x)
                   = if is_active (x_state x) then sa (x_additional x) (frame_pong (f_payload f)) else x_additional x).
      { destruct (is_active (x_state x)); [apply set_additional_add|reflexivity]. }
      rewrite E, E2. apply HO_ping; auto. apply frame_pong_ok. exact Ho.
  - replace (125 <? blen (f_payload f)) with false by (symmetry; lia).
    intros H. inj3 H. splits; auto. apply HO_pong; auto.
Qed.

(* ------------------------------------------------------------------------------------------ *)
(** * 9. read_message_frame on a stream of well-formed frames *)

(* nothing but the reading part of the codec, the state and the slot changed *)
Definition wr_same (x x' : ctx) : Prop :=
  x_role x' = x_role x /\ x_cfg x' = x_cfg x /\ x_incomplete x' = x_incomplete x /\
  x_unflushed x' = x_unflushed x /\ c_out (x_codec x') = c_out (x_codec x) /\
  c_max_out (x_codec x') = c_max_out (x_codec x) /\ c_write_len (x_codec x') = c_write_len (x_codec x).

Lemma wr_same_refl x : wr_same x x.
Proof. unfold wr_same. splits; reflexivity. Qed.

Lemma wr_same_trans x y z : wr_same x y -> wr_same y z -> wr_same x z.
Proof.
  unfold wr_same. intros [A1 [A2 [A3 [A4 [A5 [A6 A7]]]]]] [B1 [B2 [B3 [B4 [B5 [B6 B7]]]]]].
  splits; congruence.
Qed.

Inductive rmf_out (x : ctx) (w : world) (fut : bytes) (rem : list frame)
  : res (option message) -> ctx -> world -> Prop :=
| RM_frame f rem' p r x' w' :
    rem = f :: rem' -> w_rds w = p ++ w_rds w' -> grds (w_rds w') ->
    (In RdEof (w_rds w') -> In RdEof (w_rds w)) ->
    codec_at (x_codec x') (rdata (w_rds w') ++ fut) rem' -> wr_same x x' ->
    hf_out (x_state x) (x_additional x) f r (x_state x') (x_additional x') ->
    rmf_out x w fut rem r x' w'
| RM_block x' w' :
    w_rds w' = [] -> ~ In RdEof (w_rds w) -> codec_at (x_codec x') fut rem -> (rem = [] \/ fut <> []) ->
    wr_same x x' ->
    x_state x' = x_state x -> x_additional x' = x_additional x ->
    rmf_out x w fut rem (RErr wb) x' w'
| RM_eof x' w' :
    w_rds w' = [] -> In RdEof (w_rds w) -> rem = [] -> codec_at (x_codec x') [] [] -> wr_same x x' ->
    closing_done (x_state x) = true -> x_state x' = Terminated -> x_additional x' = x_additional x ->
    rmf_out x w fut rem (RErr EConnectionClosed) x' w'.

Lemma rmf_soft x w fut rem r x' w' :
  x_incomplete x = None ->
  cfg_max_message_size (x_cfg x) = None -> cfg_max_frame_size (x_cfg x) = None ->
  grds (w_rds w) -> codec_at (x_codec x) (rdata (w_rds w) ++ fut) rem ->
  Forall okc rem -> Forall (mask_ok (sender_of (x_role x))) rem ->
  (In RdEof (w_rds w) -> fut = [] /\ (rem = [] -> closing_done (x_state x) = true)) ->
  (rem <> [] -> can_read (x_state x) = true) ->
  read_message_frame x w = (r, x', w') ->
  rmf_out x w fut rem r x' w' /\
  w_wrs w' = w_wrs w /\ w_fls w' = w_fls w /\
  (exists evs, w_log w' = w_log w ++ evs /\ Forall is_rd_ev evs).
Proof.
  intros Hinc Hmm Hmf Hg Hat Hok Hmask Heof Hcr. rewrite rmf_eq. rewrite Hmf.
  destruct (read_frame None (role_eqb (x_role x) Server) (cfg_accept_unmasked (x_cfg x)) (x_codec x) w)
    as [[r0 c1] w1] eqn:ERF.
  apply (read_frame_at (x_role x) _ _ _ fut rem) in ERF; auto.
  2:{ eapply Forall_impl; [|exact Hok]. exact okc_okr. }
  2:{ intros X. apply Heof. exact X. }
  destruct ERF as [Hout [Hwr [Hfl [Hk [Hlog [Ho [Hm Hwl]]]]]]].
  assert (Hsame : forall s, wr_same x (set_state (set_codec x c1) s)).
  { intros s. unfold wr_same. cbn [set_state set_codec x_role x_cfg x_incomplete x_unflushed x_codec].
    splits; auto. }
  remember (w_rds w1) as rds1 eqn:Erds.
  destruct Hout as [f rem' c2 rds2 p Hrem Hp Hg2 He2 Hat2|c2 Hn Hat2 Hne2|c2 Hi Hrem Hat2].
  - rewrite ccr_soft by discriminate. cbv zeta. intros H.
    assert (Hcan : can_read (x_state x) = true) by (apply Hcr; rewrite Hrem; discriminate).
    subst rem. inversion Hok as [|? ? Hf Hok']; subst.
    apply handle_frame_ok in H; auto.
    destruct H as [-> [[R1 [R2 [R3 [R4 R5]]]] Hhf]].
    cbn [set_state set_codec x_role x_cfg x_incomplete x_unflushed x_codec x_state x_additional] in *.
    split; [|auto].
    eapply RM_frame; eauto.
    + rewrite R5. exact Hat2.
    + unfold wr_same. rewrite R1, R2, R3, R4, R5. splits; auto.
  - rewrite ccr_soft by discriminate. cbv zeta. intros H. inj3 H. split; [|auto].
    apply RM_block; auto; try apply (Hsame (x_state x)).
  - rewrite ccr_soft by discriminate. cbv zeta.
    destruct (Heof Hi) as [_ Hcd]. specialize (Hcd Hrem).
    cbn [x_state set_state set_codec].
    destruct (x_state x) eqn:Es; try discriminate Hcd; intros H; inj3 H; (split; [|auto]);
      apply RM_eof; auto; try (rewrite Es; reflexivity); try (exact (Hsame Terminated)).
Qed.

(* ------------------------------------------------------------------------------------------ *)
(** * 10. one user operation on an endpoint *)

(* the user's side of the contract: no raw frames, control payloads at most 125 bytes, text is UTF-8
   (true by type in Rust), lengths fit a u64, a close reason is UTF-8 and at most 123 bytes *)
Definition close_ok (c : option close_frame) : Prop :=
  match c with None => True | Some (_, reason) => is_utf8 reason = true /\ 2 + blen reason <= 125 end.

Definition uop_ok (o : op) : Prop :=
  match o with
  | OpRead | OpFlush | OpCanRead | OpCanWrite => True
  | OpClose c => close_ok c
  | OpWrite (MText d) => is_utf8 d = true /\ blen d < two64
  | OpWrite (MBinary d) => blen d < two64
  | OpWrite (MPing d) | OpWrite (MPong d) => blen d <= 125
  | OpWrite (MClose c) => close_ok c
  | OpWrite (MFrame _) => False
  | OpSetBuf _ _ => False
  end.

Lemma close_ok_reply c : close_ok c -> reply_ok (frame_close c).
Proof.
  destruct c as [[code reason]|]; [|intros _; apply frame_close_none_ok].
  intros [Hu Hl]. apply frame_close_ok; assumption.
Qed.

(* what the endpoint's own context satisfies at all times *)
Definition add_ok (r : role) (a : option frame) : Prop :=
  match a with
  | Some g => okc g /\ unmasked_if_server r g /\ (opc g = OCtl Pong \/ opc g = OCtl Close)
  | None => True
  end.

Record EI (r : role) (x : ctx) : Prop := mkEI {
  ei_role : x_role x = r;
  ei_inc : x_incomplete x = None;
  ei_mm : cfg_max_message_size (x_cfg x) = None;
  ei_mf : cfg_max_frame_size (x_cfg x) = None;
  ei_add : add_ok r (x_additional x);
  ei_max : c_max_out (x_codec x) = u64_max;
  ei_bound : blen (c_out (x_codec x)) <= u64_max }.

Lemma reply_add_ok r g : reply_ok g -> add_ok r (Some g).
Proof. intros [Ho [Hm Hp]]. cbn. splits; auto. intros _. exact Hm. Qed.

Lemma sa_add_ok r a g : add_ok r a -> reply_ok g -> add_ok r (sa a g).
Proof.
  intros Ha Hg. unfold sa. destruct a as [h|]; [|apply reply_add_ok, Hg].
  destruct (opcode_eqb _ _); [apply reply_add_ok, Hg|exact Ha].
Qed.

Lemma wire_of_add_ok r f f1 : add_ok r (Some f) -> wire_of r f f1 -> unmasked_if_server r f1 -> add_ok r (Some f1).
Proof.
  intros [Ho [_ Hp]] [Hc _] Hu. cbn. splits; auto.
  - eapply okc_content; eassumption.
  - unfold opc in *. destruct Hc as [_ [E _]]. rewrite E. exact Hp.
Qed.

(* the frames a slot move queues are control frames that the peer accepts *)
Definition ctl_frames (r : role) (nf : list frame) : Prop :=
  Forall (fun f => okc f /\ mask_ok r f /\ fdata f = []) nf.

Lemma slot_ok r a0 a nf : add_ok r a0 -> slot r a0 a nf -> add_ok r a /\ ctl_frames r nf.
Proof.
  intros Ha [[-> ->]|[f [f1 [-> [W [U H]]]]]]; [split; [exact Ha|constructor]|].
  pose proof (wire_of_add_ok _ _ _ Ha W U) as Ha1.
  destruct H as [[-> ->]|[-> ->]].
  - split; [exact I|]. constructor; [|constructor]. destruct Ha1 as [Ho [_ Hp]]. destruct W as [_ Hm].
    splits; auto. unfold fdata, opc in *. destruct Hp as [-> | ->]; reflexivity.
  - split; [exact Ha1|constructor].
Qed.

Lemma ctl_frames_data r nf : ctl_frames r nf -> concat (map fdata nf) = [].
Proof.
  induction 1 as [|f nf [_ [_ Hd]] _ IH]; [reflexivity|]. cbn [map concat]. rewrite Hd, IH. reflexivity.
Qed.

Lemma ctl_frames_ok r nf : ctl_frames r nf -> Forall okc nf /\ Forall (mask_ok r) nf.
Proof.
  intros H. split; (eapply Forall_impl; [|exact H]); intros f [A [B _]]; assumption.
Qed.

Lemma ctl_frames_app r a b : ctl_frames r a -> ctl_frames r b -> ctl_frames r (a ++ b).
Proof. intros A B. apply Forall_app. split; assumption. Qed.

(* ---- an accepting transport (the fair actions of Pair.v): flush and the pre-step of read are the
   pure functions of CodecReadP ---- *)
Definition fairw (w : world) : Prop := wgood u64_max 2 1 w.

Lemma read_pre_pre_step x w : read_pre x w = pre_step x w.
Proof. reflexivity. Qed.

Lemma add_ok_frame_len r a k g : add_ok r a -> a = Some g -> frame_len (mask_for r k g) <= 139.
Proof.
  intros Ha ->. destruct Ha as [Ho [_ Hp]]. unfold frame_len.
  assert (Hpl : f_payload (mask_for r k g) = f_payload g) by (destruct r; reflexivity).
  rewrite Hpl. pose proof (header_len_bounds (f_hdr (mask_for r k g)) (blen (f_payload g))) as Hb.
  destruct Ho as [_ [_ [_ [_ [_ Hop]]]]]. unfold opc in Hp.
  destruct Hp as [Hp|Hp]; rewrite Hp in Hop; lia.
Qed.

Lemma flush_pure_facts role x k :
  EI role x ->
  c_out (x_codec (snd (flush_pure x k))) = [] /\
  (c_out (x_codec x) = [] ->
   x_additional (snd (flush_pure x k)) = None /\
   (role = Server -> closing_done (x_state x) = true -> fst (flush_pure x k) = RErr EConnectionClosed)).
Proof.
  intros HEI. pose proof (ei_role _ _ HEI) as Hr. pose proof (ei_max _ _ HEI) as Hm.
  pose proof (ei_add _ _ HEI) as Ha.
  unfold flush_pure. cbv zeta. destruct (x_additional x) as [msg|] eqn:Ea.
  - destruct (c_max_out (x_codec x) <? frame_len (mask_for (x_role x) k msg) + blen (c_out (x_codec x))) eqn:Ef.
    + split; [reflexivity|]. intros Ho. exfalso. rewrite Ho, Hm in Ef.
      pose proof (add_ok_frame_len role _ k msg Ha eq_refl) as Hl. rewrite Hr in Ef.
      unfold blen in Ef. cbn [length] in Ef. unfold u64_max in Ef. lia.
    + destruct (role_eqb (x_role x) Server && closing_done (x_state x)) eqn:Ec.
      * split; [reflexivity|]. intros _. split; [reflexivity|]. reflexivity.
      * split; [reflexivity|]. intros _. split; [reflexivity|].
        intros E Hc. rewrite Hr, E, Hc in Ec. discriminate Ec.
  - destruct (role_eqb (x_role x) Server && closing_done (x_state x)) eqn:Ec.
    + split; [reflexivity|]. intros _. split; [exact Ea|reflexivity].
    + split; [reflexivity|]. intros _. split; [exact Ea|].
      intros E Hc. rewrite Hr, E, Hc in Ec. discriminate Ec.
Qed.

Lemma pre_pure_facts role x k :
  EI role x -> c_out (x_codec x) = [] -> x_state x <> Terminated ->
  c_out (x_codec (snd (pre_pure x k))) = [] /\ x_additional (snd (pre_pure x k)) = None /\
  (role = Server -> closing_done (x_state x) = true -> fst (pre_pure x k) = RErr EConnectionClosed).
Proof.
  intros HEI Ho Hnt. destruct (flush_pure_facts role x k HEI) as [F1 F2]. destruct (F2 Ho) as [F3 F4].
  unfold pre_pure.
  destruct ((match x_additional x with Some _ => true | None => false end) || x_unflushed x) eqn:E1.
  - splits; auto.
  - apply orb_false_elim in E1. destruct E1 as [Ea _].
    destruct (x_additional x) as [?|] eqn:Eadd; [discriminate Ea|].
    destruct (role_eqb (x_role x) Server && negb (can_read (x_state x))) eqn:E2.
    + splits; auto.
    + cbn [fst snd]. splits; auto. intros E Hc. rewrite (ei_role _ _ HEI), E in E2. cbn in E2.
      destruct (x_state x); try discriminate Hc; discriminate E2.
Qed.

(* results *)
Definition dres (r : op_result) : list message :=
  match r with ResMsg (ROk m) => dmsg m | _ => [] end.
Definition accepted (o : op) (r : op_result) : list message :=
  match o, r with
  | OpWrite m, ResUnit (ROk _) | OpWrite m, ResUnit (RErr (EIo _)) => dmsg m
  | _, _ => []
  end.
Definition gotc (r : op_result) : bool :=
  match r with ResMsg (ROk m) => is_mclose m | _ => false end.
Definition is_cc (r : op_result) : bool :=
  match r with
  | ResMsg (RErr EConnectionClosed) | ResUnit (RErr EConnectionClosed) => true
  | _ => false
  end.
(* no protocol error, except that a write after the close is refused with SendAfterClosing *)
Definition res_clean (o : op) (r : op_result) : Prop :=
  forall p, r = ResMsg (RErr (EProtocol p)) \/ r = ResUnit (RErr (EProtocol p)) ->
            p = SendAfterClosing /\ exists m, o = OpWrite m.
(* and no panic, no fuel exhaustion *)
Definition res_total (r : op_result) : Prop :=
  (forall s, r <> ResMsg (RPanic s) /\ r <> ResUnit (RPanic s)) /\
  r <> ResMsg ROutOfFuel /\ r <> ResUnit ROutOfFuel.

Definition bsome (a : option frame) : nat := match a with Some _ => 1 | None => 0 end.

Lemma slot_count r a0 a nf : slot r a0 a nf -> (length nf + bsome a <= bsome a0)%nat.
Proof.
  intros [[-> ->]|[f [f1 [-> [_ [_ [[-> ->]|[-> ->]]]]]]]]; cbn; lia.
Qed.

Lemma bsome_sa a g : (bsome (sa a g) <= 1)%nat.
Proof. unfold sa. destruct a as [h|]; [destruct (opcode_eqb _ _)|]; cbn; lia. Qed.

Record ostep (role : role) (x : ctx) (o : op) (w : world) (fut : bytes) (rem : list frame)
             (res : op_result) (x' : ctx) (w' : world) (nf : list frame) (j : nat) : Prop := mkOstep {
  os_j : (j <= 1)%nat /\ (j <= length rem)%nat;
  os_rds : (exists p, w_rds w = p ++ w_rds w') /\ grds (w_rds w') /\ (In RdEof (w_rds w') -> In RdEof (w_rds w));
  os_at : codec_at (x_codec x') (rdata (w_rds w') ++ fut) (skipn j rem);
  os_log : exists evs, w_log w' = w_log w ++ evs /\ queued evs = nf;
  os_soft : soft w';
  os_nf : Forall okc nf /\ Forall (mask_ok role) nf;
  os_add : add_ok role (x_additional x');
  os_same : x_role x' = x_role x /\ x_cfg x' = x_cfg x /\ x_incomplete x' = x_incomplete x;
  os_clean : res_clean o res /\ res_total res;
  os_dres : dres res = concat (map fdata (firstn j rem));
  os_acc : accepted o res = concat (map fdata nf);
  os_gotc : gotc res = existsb isclose (firstn j rem);
  os_cc : is_cc res = true ->
          x_state x' = Terminated /\ closing_done (x_state x) = true /\
          (role = Server -> c_out (x_codec x') = [] /\ x_additional x' = None) /\
          (role = Client -> In RdEof (w_rds w) /\ skipn j rem = []);
  os_term : x_state x' = Terminated -> x_state x = Terminated \/ is_cc res = true;
  os_idle : x_additional x = None -> (o = OpFlush \/ x_state x = Terminated) ->
            nf = [] /\ x_additional x' = None;
  os_ok : res = ResUnit (ROk tt) -> (o = OpFlush \/ exists c, o = OpClose c) -> c_out (x_codec x') = [];
  os_tkeep : x_state x = Terminated -> x_state x' = Terminated;
  (* a read answers a message (one frame consumed), WouldBlock, ConnectionClosed or AlreadyClosed *)
  os_read : o = OpRead ->
            (exists m, res = ResMsg (ROk m) /\ j = 1%nat) \/
            (j = 0%nat /\ (res = ResMsg (RErr wb) \/ res = ResMsg (RErr EConnectionClosed) \/
                           (res = ResMsg (RErr EAlreadyClosed) /\ x_state x = Terminated)));
  (* WouldBlock: the server was waiting to push its last bytes out, or the transport read blocked
     with nothing lost and the next frame incomplete *)
  os_block : res = ResMsg (RErr wb) ->
             x_state x' = x_state x /\
             ((role = Server /\ closing_done (x_state x) = true) \/
              (w_rds w' = [] /\ ~ In RdEof (w_rds w) /\ (rem = [] \/ fut <> [])));
  (* flush and read queue at most the parked frame; read parks at most one reply per frame consumed *)
  os_count : o = OpRead \/ o = OpFlush ->
             (length nf + bsome (x_additional x') <= bsome (x_additional x) + j)%nat;
  (* over an accepting transport (the fair actions): everything pending goes out *)
  os_fair_flush : fairw w -> o = OpFlush ->
                  c_out (x_codec x') = [] /\
                  (c_out (x_codec x) = [] ->
                   x_additional x' = None /\
                   (role = Server -> closing_done (x_state x) = true -> is_cc res = true));
  os_fair_read : fairw w -> o = OpRead -> c_out (x_codec x) = [] -> x_state x <> Terminated ->
                 c_out (x_codec x') = [] /\ (j = 0%nat -> x_additional x' = None) /\
                 (role = Server -> closing_done (x_state x) = true -> is_cc res = true) /\
                 (forall f, x_additional x = Some f ->
                            exists f1 rest, nf = f1 :: rest /\ isclose f1 = isclose f) }.

Section OpStep.
Variables (role : role) (x : ctx) (w : world) (fut : bytes) (rem : list frame).
Hypothesis HEI : EI role x.
Hypothesis HS : soft w.
Hypothesis Hg : grds (w_rds w).
Hypothesis Hat : codec_at (x_codec x) (rdata (w_rds w) ++ fut) rem.

Lemma add_unmasked_EI : add_unmasked x.
Proof.
  unfold add_unmasked. pose proof (ei_add _ _ HEI) as H. rewrite (ei_role _ _ HEI).
  destruct (x_additional x) as [g|]; [|exact I]. destruct H as [_ [H _]]. exact H.
Qed.

(* a call that only touched the write side *)
Lemma ostep_write_side o res x' w' nf o' s' a' u' :
  x' = upd x o' s' a' u' -> wext w w' nf ->
  Forall okc nf /\ Forall (mask_ok role) nf -> add_ok role a' ->
  res_clean o res /\ res_total res -> dres res = [] -> accepted o res = concat (map fdata nf) -> gotc res = false ->
  (is_cc res = true -> s' = Terminated /\ closing_done (x_state x) = true /\
                       (role = Server -> o' = [] /\ a' = None) /\ role = Server) ->
  (s' = Terminated -> x_state x = Terminated \/ is_cc res = true) ->
  (x_additional x = None -> (o = OpFlush \/ x_state x = Terminated) -> nf = [] /\ a' = None) ->
  (res = ResUnit (ROk tt) -> (o = OpFlush \/ exists c, o = OpClose c) -> o' = []) ->
  (x_state x = Terminated -> s' = Terminated) ->
  (o = OpRead -> res = ResMsg (RErr wb) \/ res = ResMsg (RErr EConnectionClosed) \/
                 (res = ResMsg (RErr EAlreadyClosed) /\ x_state x = Terminated)) ->
  (res = ResMsg (RErr wb) -> s' = x_state x /\ role = Server /\ closing_done (x_state x) = true) ->
  (o = OpRead \/ o = OpFlush -> (length nf + bsome a' <= bsome (x_additional x))%nat) ->
  (fairw w -> o = OpFlush ->
   o' = [] /\ (c_out (x_codec x) = [] ->
               a' = None /\ (role = Server -> closing_done (x_state x) = true -> is_cc res = true))) ->
  (fairw w -> o = OpRead -> c_out (x_codec x) = [] -> x_state x <> Terminated ->
   o' = [] /\ a' = None /\ (role = Server -> closing_done (x_state x) = true -> is_cc res = true) /\
   (forall f, x_additional x = Some f -> exists f1 rest, nf = f1 :: rest /\ isclose f1 = isclose f)) ->
  ostep role x o w fut rem res x' w' nf 0.
Proof.
  intros -> [Hlog [Hrds [Hwr Hfl]]] Hnf Ha Hcl Hd Hacc Hgc Hcc Hterm Hidle Hok Htk Hrd Hbl Hcnt Hff Hfr.
  constructor; cbn [upd x_codec x_state x_additional x_role x_cfg x_incomplete c_out set_out firstn skipn map concat existsb]; auto.
  - split; [lia|lia].
  - rewrite Hrds. splits; auto. exists []. reflexivity.
  - rewrite Hrds. apply codec_at_set_out. exact Hat.
  - eapply wext_soft; [|exact HS]. unfold wext. splits; eauto.
  - intros Hc. destruct (Hcc Hc) as [A [B [C D]]]. splits; auto. intros E. rewrite E in D. discriminate D.
  - intros Hr. destruct (Hbl Hr) as [A [B C]]. split; [exact A|left; auto].
  - intros Ho. specialize (Hcnt Ho). lia.
  - intros Hf Ho Hc Hnt. destruct (Hfr Hf Ho Hc Hnt) as [A [B [C D]]]. splits; auto.
Qed.

End OpStep.

Lemma slot_none r a nf : slot r None a nf -> nf = [] /\ a = None.
Proof. intros [[-> ->]|[f [f1 [X _]]]]; [auto|discriminate X]. Qed.

Lemma wres_cases role s r s' a o :
  wres role s r s' a o ->
  (r = ROk tt \/ r = RErr wb \/ r = RErr EConnectionClosed) /\
  (r = RErr EConnectionClosed -> role = Server /\ closing_done s = true /\ s' = Terminated /\ a = None /\ o = []) /\
  (r <> RErr EConnectionClosed -> s' = s).
Proof.
  intros [[-> ->]|[[-> ->]|[-> H]]]; splits; auto; try (intros X; discriminate X); try (intros X; contradiction).
Qed.

Ltac clean_unit :=
  split; [intros p [X|X]; discriminate X|
          split; [intros ?; split; intros X; discriminate X|split; intros X; discriminate X]].

Section OpStep2.
Variables (role : role) (x : ctx) (w : world) (fut : bytes) (rem : list frame).
Hypothesis HEI : EI role x.
Hypothesis HS : soft w.
Hypothesis Hg : grds (w_rds w).
Hypothesis Hat : codec_at (x_codec x) (rdata (w_rds w) ++ fut) rem.

Let HU := add_unmasked_EI role x HEI.
Let Hrole := ei_role _ _ HEI.
Let Hadd := ei_add _ _ HEI.

(* a write-side call that ends like flush *)
Lemma ostep_flush_like o r x' w' (s0 : ws_state) (a0 : option frame) oo a u nf :
  (o = OpFlush \/ (exists c, o = OpClose c) \/ (exists c, o = OpWrite (MClose c))) ->
  add_ok role a0 ->
  (s0 = x_state x /\ a0 = x_additional x) \/ (x_state x = Active /\ s0 = ClosedByUs /\ o <> OpFlush) ->
  x' = upd x oo (x_state x') a u -> wext w w' nf -> slot role a0 a nf ->
  wres role s0 r (x_state x') a oo -> (r = ROk tt -> oo = [] /\ u = false) ->
  (fairw w -> o = OpFlush ->
   oo = [] /\ (c_out (x_codec x) = [] ->
               a = None /\ (role = Server -> closing_done (x_state x) = true -> is_cc (ResUnit r) = true))) ->
  ostep role x o w fut rem (ResUnit r) x' w' nf 0.
Proof.
  intros Ho Ha0 Hs0 Hx Hw Hs Hr Hok Hff.
  destruct (slot_ok _ _ _ _ Ha0 Hs) as [Ha Hctl].
  destruct (wres_cases _ _ _ _ _ _ Hr) as [Hr1 [Hr2 Hr3]].
  eapply ostep_write_side with (o' := oo) (s' := x_state x') (a' := a) (u' := u); auto.
  - apply (ctl_frames_ok _ _ Hctl).
  - destruct Hr1 as [->|[->| ->]]; clean_unit.
  - rewrite (ctl_frames_data _ _ Hctl).
    destruct Ho as [->|[[c ->]|[c ->]]]; cbn [accepted]; try reflexivity.
    destruct Hr1 as [->|[->| ->]]; reflexivity.
  - cbn [is_cc]. intros Hc.
    assert (E : r = RErr EConnectionClosed).
    { destruct r as [[]|e|p|]; try discriminate Hc. destruct e; try discriminate Hc. reflexivity. }
    destruct (Hr2 E) as [A [B [C [D F]]]]. splits; auto.
    destruct Hs0 as [[-> _]|[_ [-> _]]]; [exact B|discriminate B].
  - intros Ht. destruct Hr1 as [->|[->| ->]]; try (right; reflexivity); left.
    + rewrite Hr3 in Ht by discriminate. destruct Hs0 as [[<- _]|[_ [E _]]]; [exact Ht|congruence].
    + rewrite Hr3 in Ht by discriminate. destruct Hs0 as [[<- _]|[_ [E _]]]; [exact Ht|congruence].
  - intros Hn Hc. destruct Hs0 as [[_ ->]|[E [_ Hnf]]].
    + rewrite Hn in Hs. apply slot_none in Hs. exact Hs.
    + destruct Hc as [->|Hc]; [|congruence]. exfalso. apply Hnf. reflexivity.
  - intros E _. injection E as E. apply Hok. exact E.
  - intros Ht. destruct Hr1 as [X|[X|X]].
    + rewrite Hr3 by (rewrite X; discriminate). destruct Hs0 as [[-> _]|[E _]]; congruence.
    + rewrite Hr3 by (rewrite X; discriminate). destruct Hs0 as [[-> _]|[E _]]; congruence.
    + apply (Hr2 X).
  - intros X. destruct Ho as [->|[[c ->]|[c ->]]]; discriminate X.
  - intros X. discriminate X.
  - intros [X|X]; [destruct Ho as [->|[[c ->]|[c ->]]]; discriminate X|].
    destruct Hs0 as [[_ ->]|[_ [_ Hn]]]; [apply slot_count in Hs; exact Hs|contradiction].
  - intros _ X. destruct Ho as [->|[[c ->]|[c ->]]]; discriminate X.
Qed.

Lemma ostep_flush r x' w' :
  flush x w = (r, x', w') -> exists nf, ostep role x OpFlush w fut rem (ResUnit r) x' w' nf 0.
Proof.
  intros H. pose proof H as H0. apply flush_soft in H; auto. rewrite Hrole in H.
  destruct H as [o [a [u [nf [Hx [Hw [Hs [Hr Hok]]]]]]]]. exists nf.
  eapply ostep_flush_like; eauto.
  intros Hf _.
  destruct (flush_acc u64_max x w (ei_max _ _ HEI) (ei_bound _ _ HEI) Hf) as [w2 [E2 _]].
  rewrite E2 in H0. injection H0 as Er Ex _.
  destruct (flush_pure_facts role x (next_key w) HEI) as [F1 F2].
  rewrite Ex, Hx in F1. cbn [upd x_codec c_out set_out] in F1. split; [exact F1|].
  intros Hc. destruct (F2 Hc) as [F3 F4]. rewrite Ex, Hx in F3. cbn [upd x_additional] in F3.
  split; [exact F3|]. intros E Hcd. rewrite <- Er, (F4 E Hcd). reflexivity.
Qed.

Lemma ostep_close_gen o c r x' w' :
  close_ok c -> (o = OpClose c \/ o = OpWrite (MClose c)) ->
  close x c w = (r, x', w') -> exists nf, ostep role x o w fut rem (ResUnit r) x' w' nf 0.
Proof.
  intros Hc Ho H. apply close_soft in H; auto. cbv zeta in H. rewrite Hrole in H.
  destruct H as [oo [a [u [nf [Hx [Hw [Hs [Hr Hok]]]]]]]]. exists nf.
  eapply (ostep_flush_like o r x' w'
            (match x_state x with Active => ClosedByUs | s => s end)
            (match x_state x with Active => Some (frame_close c) | _ => x_additional x end) oo a u nf);
    try eassumption.
  - destruct Ho as [-> | ->]; eauto.
  - destruct (x_state x); try exact Hadd. apply reply_add_ok, close_ok_reply, Hc.
  - destruct (x_state x); auto. right. splits; auto. destruct Ho as [-> | ->]; discriminate.
  - intros _ X. destruct Ho as [-> | ->]; discriminate X.
Qed.
End OpStep2.

Section OpStep3.
Variables (role : role) (x : ctx) (w : world) (fut : bytes) (rem : list frame).
Hypothesis HEI : EI role x.
Hypothesis HS : soft w.
Hypothesis Hg : grds (w_rds w).
Hypothesis Hat : codec_at (x_codec x) (rdata (w_rds w) ++ fut) rem.

Let HU := add_unmasked_EI role x HEI.
Let Hrole := ei_role _ _ HEI.
Let Hadd := ei_add _ _ HEI.

(* a call that changed nothing *)
Lemma ostep_noop o res :
  res_clean o res /\ res_total res -> dres res = [] -> accepted o res = [] -> gotc res = false -> is_cc res = false ->
  (forall c, o <> OpClose c) -> o <> OpFlush ->
  (o = OpRead -> res = ResMsg (RErr EAlreadyClosed) /\ x_state x = Terminated) ->
  res <> ResMsg (RErr wb) ->
  ostep role x o w fut rem res x w [] 0.
Proof.
  intros Hcl Hd Hacc Hgc Hcc Hnc Hnf Hrd Hnwb.
  eapply ostep_write_side with (o' := c_out (x_codec x)) (s' := x_state x) (a' := x_additional x)
                               (u' := x_unflushed x); auto;
  try match goal with
  | |- _ = upd _ _ _ _ _ => apply upd_id
  | |- wext _ _ _ => apply wext_refl
  | |- is_cc _ = true -> _ => rewrite Hcc; discriminate
  | |- x_additional x = None -> _ => intros Hn [X|_]; [contradiction|auto]
  | |- _ = ResUnit (ROk tt) -> _ => intros _ [X|[c X]]; [contradiction|exfalso; exact (Hnc c X)]
  | |- o = OpRead -> _ => intros X; right; right; exact (Hrd X)
  | |- res = ResMsg (RErr wb) -> _ => intros X; contradiction
  | |- o = OpRead \/ o = OpFlush -> _ => intros _; cbn; lia
  | |- fairw w -> o = OpFlush -> _ => intros _ X; contradiction
  | |- fairw w -> o = OpRead -> _ => intros _ X _ Hnt; destruct (Hrd X) as [_ Y]; contradiction
  end.
Qed.

Lemma frame_message_okc d opc0 :
  blen d < two64 ->
  match opc0 with OData Text => is_utf8 d = true | OData Binary => True | _ => False end ->
  okc (frame_message d opc0 true).
Proof.
  intros H64 Ho. unfold okc, frame_message. cbn [f_hdr f_payload h_fin h_rsv1 h_rsv2 h_rsv3 h_opcode].
  splits; auto. destruct opc0 as [[| | |i]|c]; try contradiction; auto.
Qed.

Lemma ostep_write_data m f r x' w' :
  x_state x = Active -> okc f -> h_mask (f_hdr f) = None -> fdata f = dmsg m ->
  write_data x f w = (r, x', w') ->
  exists nf, ostep role x (OpWrite m) w fut rem (ResUnit r) x' w' nf 0.
Proof.
  intros Es Hf Hm Hd H. apply write_data_soft in H; auto; [|intros _; exact Hm].
  rewrite Hrole in H. destruct H as [o [a [u [nf [Hx [Hw Hcase]]]]]]. exists nf.
  destruct Hcase as [[f1 [-> [-> ->]]]|[f1 [nf' [HW [-> [Hs Hr]]]]]].
  - eapply ostep_write_side with (o' := o) (s' := Active) (a' := x_additional x) (u' := u); auto.
    + clean_unit.
    + intros X. discriminate X.
    + intros X. left. congruence.
    + intros X. discriminate X.
    + intros X. congruence.
    + intros X. discriminate X.
    + intros X. discriminate X.
    + intros _ X. discriminate X.
    + intros _ X. discriminate X.
  - destruct (slot_ok _ _ _ _ Hadd Hs) as [Ha Hctl].
    destruct (ctl_frames_ok _ _ Hctl) as [Hc1 Hc2]. destruct HW as [HW1 HW2].
    eapply ostep_write_side with (o' := o) (s' := Active) (a' := a) (u' := u); auto.
    + split; constructor; auto. eapply okc_content; eassumption.
    + destruct Hr as [-> | ->]; clean_unit.
    + cbn [map concat]. rewrite (ctl_frames_data _ _ Hctl), app_nil_r, (fdata_content _ _ HW1), Hd.
      destruct Hr as [-> | ->]; reflexivity.
    + destruct Hr as [-> | ->]; intros X; discriminate X.
    + intros X. left. congruence.
    + intros _ [X|X]; [discriminate X|congruence].
    + intros _ [X|[c X]]; discriminate X.
    + intros X. congruence.
    + intros X. discriminate X.
    + intros X. discriminate X.
    + intros [X|X]; discriminate X.
    + intros _ X. discriminate X.
    + intros _ X. discriminate X.
Qed.

Lemma ostep_write m r x' w' :
  uop_ok (OpWrite m) -> write x m w = (r, x', w') ->
  exists nf, ostep role x (OpWrite m) w fut rem (ResUnit r) x' w' nf 0.
Proof.
  intros Hu. rewrite write_eq.
  destruct (is_terminated (x_state x)) eqn:Et.
  { intros H. inj3 H. exists []. apply ostep_noop; auto; try discriminate. clean_unit. }
  destruct (is_active (x_state x)) eqn:Ea; cbn [negb].
  2:{ intros H. inj3 H. exists []. apply ostep_noop; auto; try discriminate.
      split; [|split; [intros ?; split; intros X; discriminate X|split; intros X; discriminate X]].
      intros p [X|X]; [discriminate X|]. injection X as <-. split; [reflexivity|eauto]. }
  apply is_active_true in Ea.
  destruct m as [d|d|d|d|c|f]; cbn [uop_ok] in Hu.
  - destruct Hu as [Hu H64]. apply ostep_write_data; auto. apply frame_message_okc; auto.
  - apply ostep_write_data; auto. apply frame_message_okc; auto.
  - apply ostep_write_data; auto. unfold okc, frame_ping.
    cbn [f_hdr f_payload h_fin h_rsv1 h_rsv2 h_rsv3 h_opcode]. splits; auto. unfold two64. lia.
  - intros H. apply write_pong_soft in H; auto. rewrite Hrole in H.
    destruct H as [o [a [u [nf [Hx [Hw [Hs Hr]]]]]]]. exists nf.
    assert (Ha0 : add_ok role (sa (x_additional x) (frame_pong d))).
    { apply sa_add_ok; [exact Hadd|apply frame_pong_ok; exact Hu]. }
    destruct (slot_ok _ _ _ _ Ha0 Hs) as [Ha Hctl].
    eapply ostep_write_side with (o' := o) (s' := Active) (a' := a) (u' := u); auto.
    + apply (ctl_frames_ok _ _ Hctl).
    + destruct Hr as [-> | ->]; clean_unit.
    + rewrite (ctl_frames_data _ _ Hctl). destruct Hr as [-> | ->]; reflexivity.
    + destruct Hr as [-> | ->]; intros X; discriminate X.
    + intros X. left. congruence.
    + intros _ [X|X]; [discriminate X|congruence].
    + intros _ [X|[c X]]; discriminate X.
    + intros X. congruence.
    + intros X. discriminate X.
    + intros X. discriminate X.
    + intros [X|X]; discriminate X.
    + intros _ X. discriminate X.
    + intros _ X. discriminate X.
  - intros H. eapply ostep_close_gen; eauto.
  - contradiction.
Qed.

End OpStep3.

Section OpStep4.
Variables (role : role) (x : ctx) (w : world) (fut : bytes) (rem : list frame).
Hypothesis HEI : EI role x.
Hypothesis HS : soft w.
Hypothesis Hg : grds (w_rds w).
Hypothesis Hat : codec_at (x_codec x) (rdata (w_rds w) ++ fut) rem.
Hypothesis Hok : Forall okc rem.
Hypothesis Hmask : Forall (mask_ok (sender_of role)) rem.
Hypothesis Heof : In RdEof (w_rds w) ->
  role = Client /\ fut = [] /\ (rem = [] -> closing_done (x_state x) = true \/ x_state x = Terminated).
Hypothesis Hcr : x_state x <> Terminated -> rem <> [] -> can_read (x_state x) = true.

Lemma queued_rd_evs evs : Forall is_rd_ev evs -> queued evs = [].
Proof. apply queued_only_reads. Qed.

Lemma ostep_read r x' w' :
  read x w = (r, x', w') -> exists nf j, ostep role x OpRead w fut rem (ResMsg r) x' w' nf j.
Proof.
  pose proof (add_unmasked_EI role x HEI) as HU.
  pose proof (ei_role _ _ HEI) as Hrole. pose proof (ei_add _ _ HEI) as Hadd.
  unfold read. destruct (is_terminated (x_state x)) eqn:Et.
  { intros H. inj3 H. exists [], 0%nat.
    assert (Hterm : x_state x = Terminated) by (destruct (x_state x); try discriminate Et; reflexivity).
    apply ostep_noop; auto; try discriminate.
    split; [intros p [X|X]; discriminate X|].
    split; [intros ?; split; intros X; discriminate X|split; intros X; discriminate X]. }
  assert (Hnt : x_state x <> Terminated) by (intros X; rewrite X in Et; discriminate Et).
  rewrite read_loop_eq.
  destruct (read_pre x w) as [[r0 x0] w0] eqn:EP. pose proof EP as EP0.
  apply read_pre_soft in EP; auto. rewrite Hrole in EP.
  destruct EP as [o [a [u [nf [Hx0 [Hw [Hs [Hr Hwb]]]]]]]].
  assert (HF : fairw w -> c_out (x_codec x) = [] ->
            o = [] /\ a = None /\
            (role = Server -> closing_done (x_state x) = true -> r0 = RErr EConnectionClosed) /\
            (forall f, x_additional x = Some f -> exists f1 rest, nf = f1 :: rest /\ isclose f1 = isclose f)).
  { intros Hf Hc. rewrite read_pre_pre_step in EP0.
    destruct (pre_step_acc u64_max x w (ei_max _ _ HEI) (ei_bound _ _ HEI) Hf) as [w2 [E2 _]].
    rewrite E2 in EP0. injection EP0 as Er Ex _.
    destruct (pre_pure_facts role x (next_key w) HEI Hc Hnt) as [F1 [F2 F3]].
    rewrite Ex, Hx0 in F1, F2. cbn [upd x_codec c_out set_out x_additional] in F1, F2.
    splits; auto.
    - intros E Hcd. rewrite <- Er. exact (F3 E Hcd).
    - intros f Hf0. rewrite Hf0, F2 in Hs.
      destruct Hs as [[X _]|[g [g1 [Eg [[Hce _] [_ [[_ Hnf]|[X _]]]]]]]]; try discriminate X.
      injection Eg as <-. exists g1, []. split; [exact Hnf|]. apply isclose_content. exact Hce. }
  destruct (slot_ok _ _ _ _ Hadd Hs) as [Ha Hctl].
  destruct (wres_cases _ _ _ _ _ _ Hr) as [Hr1 [Hr2 Hr3]].
  (* the pre-step ended the call *)
  assert (Hexit : forall e, r0 = RErr e -> (r, x', w') = (RErr e, x0, w0) ->
            ostep role x OpRead w fut rem (ResMsg r) x' w' nf 0).
  { intros e -> E. injection E as -> -> ->.
    assert (He : e = wb \/ e = EConnectionClosed).
    { destruct Hr1 as [X|[X|X]]; [discriminate X|injection X as ->; auto|injection X as ->; auto]. }
    eapply ostep_write_side with (o' := o) (s' := x_state x0) (a' := a) (u' := u); auto;
    try match goal with
    | |- x_state x = Terminated -> _ => intros X; contradiction
    | |- Forall okc _ /\ _ => apply (ctl_frames_ok _ _ Hctl)
    | |- res_clean _ _ /\ _ =>
        destruct He as [-> | ->];
        (split; [intros p [X|X]; discriminate X|
                 split; [intros ?; split; intros X; discriminate X|split; intros X; discriminate X]])
    | |- dres _ = [] => reflexivity
    | |- accepted _ _ = _ => rewrite (ctl_frames_data _ _ Hctl); reflexivity
    | |- gotc _ = false => reflexivity
    | |- is_cc _ = true -> _ =>
        destruct He as [-> | ->]; [intros X; discriminate X|];
        intros _; destruct (Hr2 eq_refl) as [A [B [C [D F]]]]; splits; auto
    | |- x_state x0 = Terminated -> _ =>
        destruct He as [-> | ->]; [|intros _; right; reflexivity];
        intros Ht; left; rewrite Hr3 in Ht by discriminate; exact Ht
    | |- x_additional x = None -> _ => intros _ [X|X]; [discriminate X|contradiction]
    | |- _ = ResUnit (ROk tt) -> _ => intros X; discriminate X
    | |- OpRead = OpRead -> _ => intros _; destruct He as [-> | ->]; auto
    | |- ResMsg (RErr e) = ResMsg (RErr wb) -> _ =>
        intros X; injection X as ->; rewrite Hr3 by discriminate;
        destruct (Hwb eq_refl) as [A B]; splits; auto
    | |- OpRead = OpRead \/ _ -> _ => intros _; apply slot_count in Hs; exact Hs
    | |- fairw w -> OpRead = OpFlush -> _ => intros _ X; discriminate X
    | |- fairw w -> OpRead = OpRead -> _ =>
        intros Hf _ Hc _; destruct (HF Hf Hc) as [A [B [C D]]]; splits; auto;
        intros E Hcd; specialize (C E Hcd); injection C as ->; reflexivity
    end. }
  destruct r0 as [[]|e|p|]; try (intros H; symmetry in H; apply (Hexit _ eq_refl) in H; eauto; fail);
    try (destruct Hr1 as [X|[X|X]]; discriminate X).
  clear Hexit.
  assert (Hst0 : x_state x0 = x_state x) by (apply Hr3; discriminate).
  rewrite Hst0 in Hx0.
  destruct Hw as [[evs0 [Hl0 Hq0]] [Hrds0 [Hwr0 Hfl0]]].
  assert (HS0 : soft w0).
  { eapply wext_soft; [|exact HS]. unfold wext. splits; eauto. }
  destruct (read_message_frame x0 w0) as [[r1 x1] w1] eqn:ER.
  apply (rmf_soft x0 w0 fut rem) in ER;
    try (rewrite Hx0; cbn [upd x_incomplete x_cfg x_codec x_role x_state]).
  - destruct ER as [Hout [Hwr1 [Hfl1 [evs1 [Hl1 Hrd1]]]]].
    assert (Hlog : exists evs, w_log w1 = w_log w ++ evs /\ queued evs = nf).
    { exists (evs0 ++ evs1). rewrite Hl1, Hl0, app_assoc, WritePathP.queued_app, Hq0, (queued_rd_evs _ Hrd1), app_nil_r.
      split; reflexivity. }
    assert (HS1 : soft w1).
    { destruct HS0 as [A B]. unfold soft. rewrite Hwr1, Hfl1. split; assumption. }
    assert (Hsame : forall y, wr_same x0 y ->
              x_role y = x_role x /\ x_cfg y = x_cfg x /\ x_incomplete y = x_incomplete x).
    { intros y [A [B [C _]]]. rewrite A, B, C, Hx0. splits; reflexivity. }
    destruct Hout as [f rem' p r1 x1 w1 Hrem Hp Hg1 He1 Hat1 Hws Hhf|x1 w1 Hrd Hne Hat1 Hstall Hws Hst Had|
                      x1 w1 Hrd Hie Hrem Hat1 Hws Hcd Hst Had].
    + destruct (hf_out_msg _ _ _ _ _ _ Hhf) as [m [-> [Hdm Hmc]]].
      intros H. inj3 H. exists nf, 1%nat. subst rem.
      rewrite Hx0 in Hhf. cbn [upd x_state x_additional] in Hhf.
      assert (Hst1 : x_state x1 <> Terminated).
      { remember (x_state x1) as s1. remember (ROk (Some m)) as rr.
        destruct Hhf; try congruence; discriminate. }
      assert (Ha1 : add_ok role (x_additional x1)).
      { remember (x_additional x1) as a1. remember (ROk (Some m)) as rr.
        destruct Hhf; try exact Ha; try (apply sa_add_ok; assumption).
        destruct (is_active (x_state x)); [apply sa_add_ok; assumption|exact Ha]. }
      assert (Hb1 : (bsome (x_additional x1) <= bsome a + 1)%nat).
      { remember (x_additional x1) as a1. remember (ROk (Some m)) as rr.
        destruct Hhf; subst; try lia; try (pose proof (bsome_sa a g); lia).
        destruct (is_active (x_state x)); [pose proof (bsome_sa a (frame_pong (f_payload f)))|]; lia. }
      pose proof (slot_count _ _ _ _ Hs) as Hcnt.
      constructor; cbn [length firstn skipn map concat existsb dres accepted gotc is_cc]; auto;
      try match goal with
      | |- x_state x = Terminated -> _ => intros X; contradiction
      | |- (_ <= _)%nat /\ _ => split; lia
      | |- (exists _, w_rds w = _) /\ _ =>
          split; [exists p; rewrite <- Hrds0; exact Hp|
                  split; [exact Hg1|intros X; apply He1 in X; rewrite Hrds0 in X; exact X]]
      | |- Forall okc _ /\ _ => apply (ctl_frames_ok _ _ Hctl)
      | |- x_role _ = _ /\ _ => apply Hsame; exact Hws
      | |- res_clean _ _ /\ _ =>
          split; [intros p0 [X|X]; discriminate X|
                  split; [intros ?; split; intros X; discriminate X|split; intros X; discriminate X]]
      | |- dmsg _ = _ => rewrite app_nil_r; exact Hdm
      | |- [] = concat _ => rewrite (ctl_frames_data _ _ Hctl); reflexivity
      | |- is_mclose _ = _ => rewrite Bool.orb_false_r; exact Hmc
      | |- false = true -> _ => intros X; discriminate X
      | |- x_state _ = Terminated -> _ => intros X; contradiction
      | |- x_additional x = None -> _ => intros _ [X|X]; [discriminate X|contradiction]
      | |- _ = ResUnit (ROk tt) -> _ => intros X; discriminate X
      | |- OpRead = OpRead -> _ => intros _; left; eauto
      | |- _ = ResMsg (RErr wb) -> _ => intros X; discriminate X
      | |- OpRead = OpRead \/ _ -> _ => intros _; lia
      | |- fairw w -> OpRead = OpFlush -> _ => intros _ X; discriminate X
      | |- fairw w -> OpRead = OpRead -> _ =>
          intros Hf _ Hc _; destruct (HF Hf Hc) as [A [B [C D]]];
          destruct Hws as [_ [_ [_ [_ [Hco _]]]]]; rewrite Hco, Hx0; cbn [upd x_codec c_out set_out];
          splits; auto; [intros X; discriminate X|intros E Hcd; specialize (C E Hcd); discriminate C]
      end.
    + intros H. inj3 H. exists nf, 0%nat.
      constructor; cbn [length firstn skipn map concat existsb dres accepted gotc is_cc]; auto;
      try match goal with
      | |- x_state x = Terminated -> _ => intros X; contradiction
      | |- (_ <= _)%nat /\ _ => split; lia
      | |- (exists _, w_rds w = _) /\ _ =>
          rewrite Hrd; split; [exists (w_rds w); rewrite app_nil_r; reflexivity|split; [exact I|intros []]]
      | |- codec_at _ _ _ => rewrite Hrd; exact Hat1
      | |- Forall okc _ /\ _ => apply (ctl_frames_ok _ _ Hctl)
      | |- add_ok _ _ => rewrite Had, Hx0; exact Ha
      | |- x_role _ = _ /\ _ => apply Hsame; exact Hws
      | |- res_clean _ _ /\ _ =>
          split; [intros p0 [X|X]; discriminate X|
                  split; [intros ?; split; intros X; discriminate X|split; intros X; discriminate X]]
      | |- [] = concat _ => rewrite (ctl_frames_data _ _ Hctl); reflexivity
      | |- false = true -> _ => intros X; discriminate X
      | |- x_state _ = Terminated -> _ => rewrite Hst, Hx0; cbn [upd x_state]; intros X; left; exact X
      | |- x_additional x = None -> _ => intros _ [X|X]; [discriminate X|contradiction]
      | |- _ = ResUnit (ROk tt) -> _ => intros X; discriminate X
      | |- OpRead = OpRead -> _ => intros _; right; split; [reflexivity|left; reflexivity]
      | |- _ = ResMsg (RErr wb) -> _ =>
          intros _; split; [rewrite Hst, Hx0; reflexivity|
                            right; split; [exact Hrd|split; [rewrite <- Hrds0; exact Hne|exact Hstall]]]
      | |- OpRead = OpRead \/ _ -> _ =>
          intros _; rewrite Had, Hx0; cbn [upd x_additional]; apply slot_count in Hs; lia
      | |- fairw w -> OpRead = OpFlush -> _ => intros _ X; discriminate X
      | |- fairw w -> OpRead = OpRead -> _ =>
          intros Hf _ Hc _; destruct (HF Hf Hc) as [A [B [C D]]];
          destruct Hws as [_ [_ [_ [_ [Hco _]]]]]; rewrite Hco, Had, Hx0;
          cbn [upd x_codec c_out set_out x_additional];
          splits; auto; intros E Hcd; specialize (C E Hcd); discriminate C
      end.
    + intros H. inj3 H. exists nf, 0%nat. rewrite <- Hrds0 in Heof. destruct (Heof Hie) as [Hcl [Hfut _]].
      subst rem fut. rewrite Hx0 in Hcd. cbn [upd x_state] in Hcd.
      constructor; cbn [length firstn skipn map concat existsb dres accepted gotc is_cc]; auto;
      try match goal with
      | |- x_state x = Terminated -> _ => intros X; contradiction
      | |- (exists _, w_rds w = _) /\ _ =>
          rewrite Hrd; split; [exists (w_rds w); rewrite app_nil_r; reflexivity|split; [exact I|intros []]]
      | |- codec_at _ _ _ => rewrite Hrd; exact Hat1
      | |- Forall okc _ /\ _ => apply (ctl_frames_ok _ _ Hctl)
      | |- add_ok _ _ => rewrite Had, Hx0; exact Ha
      | |- x_role _ = _ /\ _ => apply Hsame; exact Hws
      | |- res_clean _ _ /\ _ =>
          split; [intros p0 [X|X]; discriminate X|
                  split; [intros ?; split; intros X; discriminate X|split; intros X; discriminate X]]
      | |- [] = concat _ => rewrite (ctl_frames_data _ _ Hctl); reflexivity
      | |- true = true -> _ =>
          intros _; splits; auto;
          [intros X; rewrite X in Hcl; discriminate Hcl|
           intros _; split; [rewrite <- Hrds0; exact Hie|reflexivity]]
      | |- x_additional x = None -> _ => intros _ [X|X]; [discriminate X|contradiction]
      | |- _ = ResUnit (ROk tt) -> _ => intros X; discriminate X
      | |- OpRead = OpRead -> _ => intros _; right; split; [reflexivity|right; left; reflexivity]
      | |- _ = ResMsg (RErr wb) -> _ => intros X; discriminate X
      | |- OpRead = OpRead \/ _ -> _ =>
          intros _; rewrite Had, Hx0; cbn [upd x_additional]; apply slot_count in Hs; lia
      | |- fairw w -> OpRead = OpFlush -> _ => intros _ X; discriminate X
      | |- fairw w -> OpRead = OpRead -> _ =>
          intros Hf _ Hc _; destruct (HF Hf Hc) as [A [B [C D]]];
          destruct Hws as [_ [_ [_ [_ [Hco _]]]]]; rewrite Hco, Had, Hx0;
          cbn [upd x_codec c_out set_out x_additional];
          splits; auto; intros E Hcd; specialize (C E Hcd); discriminate C
      end.
  - exact (ei_inc _ _ HEI).
  - exact (ei_mm _ _ HEI).
  - exact (ei_mf _ _ HEI).
  - rewrite Hrds0. exact Hg.
  - rewrite Hrds0. apply codec_at_set_out. exact Hat.
  - exact Hok.
  - rewrite Hrole. exact Hmask.
  - rewrite Hrds0. intros X. destruct (Heof X) as [_ [A B]]. split; [exact A|].
    intros Y. destruct (B Y) as [Z|Z]; [exact Z|contradiction].
  - exact (Hcr Hnt).
Qed.

End OpStep4.

(* ------------------------------------------------------------------------------------------ *)
(** * 11. every user operation *)

Lemma gotc_got_close r : got_close r = gotc r.
Proof. destruct r as [[m|e|p|]|u|b]; reflexivity. Qed.

Lemma uop_not_raw o : uop_ok o -> is_raw o = false.
Proof. destruct o as [|m| | | | |]; try reflexivity. destruct m; try reflexivity. contradiction. Qed.

Lemma uop_not_setbuf o : uop_ok o -> is_setbuf o = false.
Proof. destruct o; try reflexivity. contradiction. Qed.

Theorem op_step role x o w fut rem res x' w' :
  EI role x -> soft w -> grds (w_rds w) ->
  codec_at (x_codec x) (rdata (w_rds w) ++ fut) rem ->
  Forall okc rem -> Forall (mask_ok (sender_of role)) rem ->
  (In RdEof (w_rds w) ->
   role = Client /\ fut = [] /\ (rem = [] -> closing_done (x_state x) = true \/ x_state x = Terminated)) ->
  (x_state x <> Terminated -> rem <> [] -> can_read (x_state x) = true) ->
  uop_ok o ->
  run_op x o w = (res, x', w') ->
  exists nf j,
    ostep role x o w fut rem res x' w' nf j /\ EI role x' /\
    (exists evs, w_log w' = w_log w ++ evs /\ queued evs = nf /\
                 c_out (x_codec x) ++ enc nf = wire evs ++ c_out (x_codec x')) /\
    (forall q, QP (x_state x) (x_additional x) q -> QP (x_state x') (x_additional x') (q ++ nf)) /\
    (forall cr, crs (x_state x) cr -> crs (x_state x') (cr || gotc res)) /\
    (x_state x <> Active -> forall q, Pend (x_additional x) q -> Pend (x_additional x') (q ++ nf)) /\
    (gotc res = true -> closing_done (x_state x') = true) /\
    (x_state x <> Active -> x_state x' <> Active).
Proof.
  intros HEI HS Hg Hat Hok Hmask Heof Hcr Hu H.
  assert (Hos : exists nf j, ostep role x o w fut rem res x' w' nf j).
  { destruct o as [|m| |c| | |wbs mx]; cbn [run_op] in H.
    - destruct (read x w) as [[r x1] w1] eqn:E. inj3 H. eapply ostep_read; eauto.
    - destruct (write x m w) as [[r x1] w1] eqn:E. inj3 H.
      destruct (ostep_write role x w fut rem HEI HS Hg Hat m r x1 w1 Hu E) as [nf Hos]. eauto.
    - destruct (flush x w) as [[r x1] w1] eqn:E. inj3 H.
      destruct (ostep_flush role x w fut rem HEI HS Hg Hat r x1 w1 E) as [nf Hos]. eauto.
    - destruct (close x c w) as [[r x1] w1] eqn:E. inj3 H.
      destruct (ostep_close_gen role x w fut rem HEI HS Hg Hat (OpClose c) c r x1 w1 Hu (or_introl eq_refl) E) as [nf Hos].
      eauto.
    - inj3 H. exists [], 0%nat. apply ostep_noop; auto; try discriminate.
      split; [intros p [X|X]; discriminate X|].
      split; [intros ?; split; intros X; discriminate X|split; intros X; discriminate X].
    - inj3 H. exists [], 0%nat. apply ostep_noop; auto; try discriminate.
      split; [intros p [X|X]; discriminate X|].
      split; [intros ?; split; intros X; discriminate X|split; intros X; discriminate X].
    - contradiction. }
  destruct Hos as [nf [j Hos]]. exists nf, j. split; [exact Hos|].
  pose proof (run_op_pstep _ _ _ _ _ _ H (uop_not_setbuf _ Hu)) as [[[evs [El Ht]] [Hmx [_ Hb]]] [_ _]].
  destruct (os_log _ _ _ _ _ _ _ _ _ _ _ Hos) as [evs' [El' Hq']].
  assert (evs' = evs) by (rewrite El in El'; apply app_inv_head in El'; auto). subst evs'.
  pose proof (run_op_post _ _ _ _ _ _ H) as HP.
  splits.
  - destruct (os_same _ _ _ _ _ _ _ _ _ _ _ Hos) as [A [B C]].
    constructor; try (rewrite ?A, ?B, ?C; apply HEI).
    + exact (os_add _ _ _ _ _ _ _ _ _ _ _ Hos).
    + rewrite Hmx. apply HEI.
    + pose proof (ei_bound _ _ HEI). pose proof (ei_max _ _ HEI). lia.
  - exists evs. splits; auto. rewrite <- Hq'. apply tracks_balance. exact Ht.
  - intros q HQ. destruct HP as (evs2 & El2 & _ & _ & HQP & _).
    assert (evs2 = evs) by (rewrite El in El2; apply app_inv_head in El2; auto). subst evs2.
    rewrite <- Hq'. apply HQP; [apply uop_not_raw; exact Hu|exact HQ].
  - intros cr Hc. rewrite <- gotc_got_close. eapply op_crs; eassumption.
  - intros Hna q HQ. destruct HP as (evs2 & El2 & _ & _ & _ & HPend).
    assert (evs2 = evs) by (rewrite El in El2; apply app_inv_head in El2; auto). subst evs2.
    rewrite <- Hq'. apply HPend; assumption.
  - intros Hgc. rewrite <- gotc_got_close in Hgc. apply (op_got_close_state _ _ _ _ _ _ HP Hgc).
  - intros Hna. destruct (op_mono _ _ _ _ _ _ HP) as [Hm _].
    assert (Ha : is_active (x_state x) = false) by (destruct (x_state x); try reflexivity; contradiction).
    apply Hm in Ha. intros E. rewrite E in Ha. discriminate Ha.
Qed.
