(* proofs/FrameSocketP.v — C18b: the C18 round trip lifted to whole frames through the public
   raw-frame API FrameSocket (FrameSocket.v): read / write / flush / send.

   Contents
   1. vocabulary: accepted frames, wire_frame
   2. write side: fs_flush, one op, runs of ops (out_buffer / transport-log balance)
   3. WriteBufferFull; frame_len accounting; send = write ; flush
   4. read side: the reference decoder on a concatenation of encodings; FsRead under any schedule *)
From TungModel Require Import Base Coding Mask Header Frame World Message Codec FrameSocket.
From TungModel.proofs Require Import MaskP HeaderP CodecReadP WritePathP.
From Coq Require Import Lia ZifyBool ZifyNat ZifyN.

Local Arguments N.add : simpl never.
Local Arguments N.mul : simpl never.
Local Arguments N.sub : simpl never.
Local Arguments N.ltb : simpl never.
Local Arguments N.leb : simpl never.
Local Arguments N.eqb : simpl never.
Local Arguments N.of_nat : simpl never.
Local Arguments N.to_nat : simpl never.

(* ------------------------------------------------------------------------------------------ *)
(** * 1. Vocabulary *)

(* the only refusal of FsWrite / FsSend that does not queue the frame *)
Definition fs_is_full (r : fs_result) : bool :=
  match r with FsUnit (RErr (EWriteBufferFull _)) => true | _ => false end.

(* the frame an op queued, given its result *)
Definition fs_accepted1 (o : fs_op) (r : fs_result) : list frame :=
  match o with
  | FsWrite f | FsSend f => if fs_is_full r then [] else [f]
  | _ => []
  end.

(* frames_accepted of a run: ops paired with their results *)
Fixpoint fs_accepted (ops : list fs_op) (rs : list fs_result) : list frame :=
  match ops, rs with
  | o :: ops', r :: rs' => fs_accepted1 o r ++ fs_accepted ops' rs'
  | _, _ => []
  end.

(* all frames a run tries to write *)
Fixpoint fs_frames (ops : list fs_op) : list frame :=
  match ops with
  | [] => []
  | FsWrite f :: r | FsSend f :: r => f :: fs_frames r
  | _ :: r => fs_frames r
  end.

Definition fs_flushing (o : fs_op) : bool :=
  match o with FsFlush | FsSend _ => true | _ => false end.

(* what is on the wire after the header: the payload, XORed with the key if there is one *)
Definition wire_payload (f : frame) : bytes :=
  match h_mask (f_hdr f) with Some k => xor_cyc k (f_payload f) | None => f_payload f end.

(* the frame a raw reader (no unmasking) must see: same header INCLUDING the mask key, wire payload *)
Definition wire_frame (f : frame) : frame := mkFrame (f_hdr f) (wire_payload f).

Lemma frame_format_wire (f : frame) :
  frame_format f = header_format (f_hdr f) (blen (f_payload f)) ++ wire_payload f.
Proof. unfold frame_format, wire_payload, apply_mask. reflexivity. Qed.

Lemma wire_payload_blen (f : frame) : blen (wire_payload f) = blen (f_payload f).
Proof.
  unfold wire_payload. destruct (h_mask (f_hdr f)) as [k|]; [|reflexivity].
  unfold blen. rewrite WritePathP.xor_cyc_length. reflexivity.
Qed.

(* unmasking what the raw reader saw gives the payload back *)
Lemma wire_payload_unmask (f : frame) (k : key) :
  h_mask (f_hdr f) = Some k -> apply_mask k (wire_payload f) = f_payload f.
Proof.
  intros H. unfold wire_payload, apply_mask. rewrite H.
  apply MaskP.xor_cyc_involutive.
Qed.

Lemma wire_frame_unmasked (f : frame) : h_mask (f_hdr f) = None -> wire_frame f = f.
Proof. intros H. unfold wire_frame, wire_payload. rewrite H. destruct f; reflexivity. Qed.

(* the executable byte-string comparison of Base.v decides equality (used to check large examples
   without putting 64 KiB literals in front of the unifier) *)
Lemma bytes_eqb_eq (a : bytes) : forall b, bytes_eqb a b = true -> a = b.
Proof.
  unfold bytes_eqb. induction a as [|x a IH]; intros [|y b] H; cbn [list_eqb] in H; try discriminate H.
  - reflexivity.
  - apply andb_prop in H. destruct H as [H1 H2]. apply N.eqb_eq in H1. subst y.
    f_equal. apply IH. exact H2.
Qed.

(* ------------------------------------------------------------------------------------------ *)
(** * 2. Write side *)

Lemma queued_wr (evs : list event) : Forall is_wr_ev evs -> queued evs = [].
Proof. apply queued_only_writes. Qed.

Lemma tracks_snoc_flush (out out' : bytes) (evs : list event) (fr : fl_out) :
  tracks out evs out' -> tracks out (evs ++ [EvFlush fr]) out'.
Proof. intros H. eapply tracks_app; [exact H|]. cbn [tracks]. reflexivity. Qed.

(* FrameSocket::flush *)
Lemma fs_flush_spec (c : codec) (w : world) r c' w' :
  fs_flush c w = (r, c', w') ->
  exists evs, w_log w' = w_log w ++ evs /\ tracks (c_out c) evs (c_out c') /\
    queued evs = [] /\ c' = set_out c (c_out c') /\ blen (c_out c') <= blen (c_out c) /\
    w_keys w' = w_keys w /\
    (   (r = ROk tt /\ c_out c' = [] /\ exists evs0, evs = evs0 ++ [EvFlush FlOk] /\ Forall is_wr_ev evs0)
     \/ (exists k, r = RErr (EIo k) /\ c_out c' <> [] /\ Forall is_wr_ev evs)
     \/ (exists k, r = RErr (EIo k) /\ c_out c' = [] /\
           exists evs0, evs = evs0 ++ [EvFlush (FlErr k)] /\ Forall is_wr_ev evs0)).
Proof.
  unfold fs_flush.
  destruct (write_out_buffer c w) as [[r0 c0] w0] eqn:EW.
  apply write_out_buffer_spec in EW.
  destruct EW as [evs [El [Ht [Hw [Hb [Hr [_ [Hc Hk]]]]]]]].
  destruct Hr as [[-> Ho]|[k [-> Ho]]].
  - destruct (w_flush w0) as [r2 w2] eqn:EF. intros H. inv H.
    apply w_flush_spec in EF. destruct EF as [fr [El2 [Hk2 Hfr]]].
    exists (evs ++ [EvFlush fr]). splits; auto.
    + rewrite El2, El, <- app_assoc. reflexivity.
    + apply tracks_snoc_flush. exact Ht.
    + rewrite queued_app, (queued_wr _ Hw). reflexivity.
    + congruence.
    + destruct Hfr as [[-> ->]|[k [-> ->]]].
      * left. splits; auto. exists evs. split; [reflexivity|exact Hw].
      * right; right. exists k. splits; auto. exists evs. split; [reflexivity|exact Hw].
  - intros H. inv H. exists evs. splits; auto.
    + apply queued_wr. exact Hw.
    + right; left. exists k. splits; auto.
Qed.

Lemma fs_flush_cstep (c : codec) (w : world) r c' w' :
  fs_flush c w = (r, c', w') -> cstep c (w_log w) c' (w_log w').
Proof.
  intros H. apply fs_flush_spec in H.
  destruct H as [evs [El [Ht [_ [Hc [Hb _]]]]]].
  unfold cstep. splits.
  - exists evs. split; assumption.
  - rewrite Hc. reflexivity.
  - rewrite Hc. reflexivity.
  - lia.
Qed.

(* a successful flush: out_buffer empty, last event is the transport flush returning Ok *)
Lemma fs_flush_ok (c : codec) (w : world) c' w' :
  fs_flush c w = (ROk tt, c', w') ->
  c_out c' = [] /\ exists l, w_log w' = l ++ [EvFlush FlOk].
Proof.
  intros H. apply fs_flush_spec in H.
  destruct H as [evs [El [_ [_ [_ [_ [_ Hr]]]]]]].
  destruct Hr as [[_ [Ho [evs0 [-> _]]]]|[[k [Hx _]]|[k [Hx _]]]]; try discriminate Hx.
  split; [exact Ho|]. exists (w_log w ++ evs0). rewrite El, app_assoc. reflexivity.
Qed.

(* what codec_buffer_frame can answer *)
Lemma cbf_result (c : codec) (f : frame) (w : world) r c' w' :
  codec_buffer_frame c f w = (r, c', w') ->
  r = ROk tt \/ (exists k, r = RErr (EIo k)) \/
  (r = RErr (EWriteBufferFull f) /\ c_max_out c < frame_len f + blen (c_out c) /\ c' = c /\ w' = w).
Proof.
  intros H. apply codec_buffer_frame_spec in H.
  destruct H as [[Hf [-> [-> ->]]]|[_ [evs [_ [_ [_ [_ [_ [_ [Hr _]]]]]]]]]].
  - right; right. auto.
  - destruct Hr as [[-> _]|[k [-> _]]]; [left; reflexivity|right; left; eauto].
Qed.

Lemma cbf_not_full (c : codec) (f : frame) (w : world) r c' w' :
  codec_buffer_frame c f w = (r, c', w') ->
  frame_len f + blen (c_out c) <= c_max_out c -> fs_is_full (FsUnit r) = false.
Proof.
  intros H Hfit. apply cbf_result in H.
  destruct H as [->|[[k ->]|[_ [Hx _]]]]; try reflexivity. lia.
Qed.

(* one op: the events it appends replay on out_buffer, and exactly the accepted frame is queued *)
Lemma fs_run_op_spec (c : codec) (o : fs_op) (w : world) r c' w' :
  fs_run_op c o w = (r, c', w') ->
  exists evs, w_log w' = w_log w ++ evs /\ tracks (c_out c) evs (c_out c') /\
    queued evs = fs_accepted1 o r /\
    c_max_out c' = c_max_out c /\ c_write_len c' = c_write_len c /\
    blen (c_out c') <= blen (c_out c) + sumN (map frame_len (fs_accepted1 o r)).
Proof.
  destruct o as [ms|f| |f]; cbn [fs_run_op]; intros H.
  - (* read *)
    destruct (read_frame ms false true c w) as [[r0 c0] w0] eqn:E. inv H.
    apply read_frame_spec in E. destruct E as [[Ho [Hm Hw]] [evs [El Hr]]].
    exists evs. cbn [fs_accepted1 map sumN]. splits; auto.
    + rewrite Ho. apply tracks_only_reads. exact Hr.
    + apply queued_only_reads. exact Hr.
    + rewrite Ho. lia.
  - (* write *)
    destruct (codec_buffer_frame c f w) as [[r0 c0] w0] eqn:E. inv H.
    pose proof (cbf_not_full _ _ _ _ _ _ E) as Hnf.
    apply codec_buffer_frame_spec in E.
    destruct E as [[Hf [-> [-> ->]]]|[Hfit [evs [El [Ht [Hw [Hb [Hc _]]]]]]]].
    + exists []. rewrite app_nil_r. cbn [fs_accepted1 fs_is_full map sumN tracks queued].
      splits; auto. lia.
    + exists (EvQueue f :: evs). cbn [fs_accepted1]. rewrite (Hnf Hfit).
      cbn [tracks queued map sumN]. splits; auto.
      * rewrite (queued_wr _ Hw). reflexivity.
      * rewrite Hc. reflexivity.
      * rewrite Hc. reflexivity.
      * lia.
  - (* flush *)
    destruct (fs_flush c w) as [[r0 c0] w0] eqn:E. inv H.
    apply fs_flush_spec in E. destruct E as [evs [El [Ht [Hq [Hc [Hb _]]]]]].
    exists evs. cbn [fs_accepted1 map sumN]. splits; auto.
    + rewrite Hc. reflexivity.
    + rewrite Hc. reflexivity.
    + lia.
  - (* send *)
    destruct (codec_buffer_frame c f w) as [[r0 c0] w0] eqn:E.
    pose proof (cbf_not_full _ _ _ _ _ _ E) as Hnf.
    pose proof (cbf_result _ _ _ _ _ _ E) as Hres.
    apply codec_buffer_frame_spec in E.
    destruct E as [[Hf [-> [-> ->]]]|[Hfit [evs [El [Ht [Hw [Hb [Hc _]]]]]]]].
    + inv H. exists []. rewrite app_nil_r. cbn [fs_accepted1 fs_is_full map sumN tracks queued].
      splits; auto. lia.
    + specialize (Hnf Hfit).
      destruct Hres as [->|[[k ->]|[-> _]]]; [| |discriminate Hnf].
      * destruct (fs_flush c0 w0) as [[r2 c2] w2] eqn:EF. inv H.
        apply fs_flush_spec in EF.
        destruct EF as [evs2 [El2 [Ht2 [Hq2 [Hc2 [Hb2 [_ Hr2]]]]]]].
        assert (Hnf2 : fs_is_full (FsUnit r2) = false).
        { destruct Hr2 as [[-> _]|[[k [-> _]]|[k [-> _]]]]; reflexivity. }
        exists (EvQueue f :: evs ++ evs2). cbn [fs_accepted1]. rewrite Hnf2.
        cbn [tracks queued map sumN]. splits.
        -- rewrite El2, El, <- app_assoc. reflexivity.
        -- eapply tracks_app; eassumption.
        -- rewrite queued_app, (queued_wr _ Hw), Hq2. reflexivity.
        -- rewrite Hc2, Hc. reflexivity.
        -- rewrite Hc2, Hc. reflexivity.
        -- lia.
      * inv H. exists (EvQueue f :: evs). cbn [fs_accepted1 fs_is_full].
        cbn [tracks queued map sumN]. splits; auto.
        -- rewrite (queued_wr _ Hw). reflexivity.
        -- rewrite Hc. reflexivity.
        -- rewrite Hc. reflexivity.
        -- lia.
Qed.

Lemma fs_run_op_cstep (c : codec) (o : fs_op) (w : world) r c' w' :
  fs_run_op c o w = (r, c', w') -> cstep c (w_log w) c' (w_log w').
Proof.
  destruct o as [ms|f| |f]; cbn [fs_run_op]; intros H.
  - destruct (read_frame ms false true c w) as [[r0 c0] w0] eqn:E. inv H.
    eapply read_frame_cstep; eassumption.
  - destruct (codec_buffer_frame c f w) as [[r0 c0] w0] eqn:E. inv H.
    eapply codec_buffer_frame_cstep; eassumption.
  - destruct (fs_flush c w) as [[r0 c0] w0] eqn:E. inv H.
    eapply fs_flush_cstep; eassumption.
  - destruct (codec_buffer_frame c f w) as [[r0 c0] w0] eqn:E.
    apply codec_buffer_frame_cstep in E.
    destruct r0; try (inv H; exact E).
    destruct (fs_flush c0 w0) as [[r2 c2] w2] eqn:EF. inv H.
    apply fs_flush_cstep in EF. eapply cstep_trans; eassumption.
Qed.

(* a successful flush or send: out_buffer empty, last event EvFlush FlOk *)
Lemma fs_run_op_flushed (c : codec) (o : fs_op) (w : world) c' w' :
  fs_flushing o = true ->
  fs_run_op c o w = (FsUnit (ROk tt), c', w') ->
  c_out c' = [] /\ exists l, w_log w' = l ++ [EvFlush FlOk].
Proof.
  destruct o as [ms|f| |f]; cbn [fs_flushing fs_run_op]; try discriminate; intros _ H.
  - destruct (fs_flush c w) as [[r0 c0] w0] eqn:E. inv H. eapply fs_flush_ok; eassumption.
  - destruct (codec_buffer_frame c f w) as [[r0 c0] w0] eqn:E.
    destruct r0; try (inv H; fail).
    destruct (fs_flush c0 w0) as [[r2 c2] w2] eqn:EF. inv H. eapply fs_flush_ok; eassumption.
Qed.

(* runs *)
Lemma fs_run_ops_app (a b : list fs_op) : forall c w,
  fs_run_ops c (a ++ b) w =
  let '(ra, c1, w1) := fs_run_ops c a w in
  let '(rb, c2, w2) := fs_run_ops c1 b w1 in
  (ra ++ rb, c2, w2).
Proof.
  induction a as [|o a IH]; intros c w; cbn [app fs_run_ops].
  - destruct (fs_run_ops c b w) as [[rb c2] w2]. reflexivity.
  - destruct (fs_run_op c o w) as [[r1 c1] w1]. rewrite IH.
    destruct (fs_run_ops c1 a w1) as [[ra c2] w2].
    destruct (fs_run_ops c2 b w2) as [[rb c3] w3]. reflexivity.
Qed.

Lemma fs_run_ops_snoc (a : list fs_op) (o : fs_op) c w :
  fs_run_ops c (a ++ [o]) w =
  let '(ra, c1, w1) := fs_run_ops c a w in
  let '(r, c2, w2) := fs_run_op c1 o w1 in
  (ra ++ [(r, blen (w_log w2))], c2, w2).
Proof.
  rewrite fs_run_ops_app. destruct (fs_run_ops c a w) as [[ra c1] w1].
  cbn [fs_run_ops]. destruct (fs_run_op c1 o w1) as [[r c2] w2]. reflexivity.
Qed.

Lemma fs_accepted_app (a b : list fs_op) (ra rb : list fs_result) :
  length ra = length a ->
  fs_accepted (a ++ b) (ra ++ rb) = fs_accepted a ra ++ fs_accepted b rb.
Proof.
  revert ra. induction a as [|o a IH]; intros [|r ra] H; try discriminate H.
  - reflexivity.
  - cbn [app fs_accepted]. rewrite IH by (cbn in H; lia). now rewrite app_assoc.
Qed.

Theorem fs_run_ops_spec (ops : list fs_op) : forall c w rs c' w',
  fs_run_ops c ops w = (rs, c', w') ->
  length rs = length ops /\
  exists evs, w_log w' = w_log w ++ evs /\ tracks (c_out c) evs (c_out c') /\
    queued evs = fs_accepted ops (map fst rs) /\
    c_max_out c' = c_max_out c /\ c_write_len c' = c_write_len c /\
    blen (c_out c') <= blen (c_out c) + sumN (map frame_len (fs_accepted ops (map fst rs))).
Proof.
  induction ops as [|o ops IH]; intros c w rs c' w' H; cbn [fs_run_ops] in H.
  - inv H. split; [reflexivity|]. exists []. rewrite app_nil_r.
    cbn [map fs_accepted sumN tracks queued]. splits; auto. lia.
  - destruct (fs_run_op c o w) as [[r1 c1] w1] eqn:E1.
    destruct (fs_run_ops c1 ops w1) as [[rs2 c2] w2] eqn:E2. inv H.
    apply fs_run_op_spec in E1. destruct E1 as [e1 [L1 [T1 [Q1 [M1 [W1 B1]]]]]].
    apply IH in E2. destruct E2 as [Hlen [e2 [L2 [T2 [Q2 [M2 [W2 B2]]]]]]].
    split; [cbn [length]; now rewrite Hlen|].
    exists (e1 ++ e2). cbn [map fst fs_accepted]. splits.
    + rewrite L2, L1, <- app_assoc. reflexivity.
    + eapply tracks_app; eassumption.
    + rewrite queued_app, Q1, Q2. reflexivity.
    + congruence.
    + congruence.
    + rewrite map_app. clear - B1 B2.
      assert (X : forall a b, sumN (a ++ b) = sumN a + sumN b).
      { induction a as [|x a IHa]; intros b; cbn [app sumN]; [lia|]. rewrite IHa. lia. }
      rewrite X. lia.
Qed.

(* C18b_fs_wire, general form: the C10 balance is preserved by every run of FrameSocket ops, under
   any write / flush / read oracle, and exactly the accepted frames are added to it *)
Theorem fs_wire_gen (ops : list fs_op) (c : codec) (w : world) rs c' w' :
  wp_inv (c_out c) (w_log w) ->
  fs_run_ops c ops w = (rs, c', w') ->
  queued (w_log w') = queued (w_log w) ++ fs_accepted ops (map fst rs) /\
  wire (w_log w') ++ c_out c' = enc (queued (w_log w) ++ fs_accepted ops (map fst rs)).
Proof.
  intros Hi H. apply fs_run_ops_spec in H.
  destruct H as [_ [evs [El [Ht [Hq _]]]]].
  assert (Q : queued (w_log w') = queued (w_log w) ++ fs_accepted ops (map fst rs)).
  { rewrite El, queued_app, Hq. reflexivity. }
  split; [exact Q|]. rewrite <- Q.
  rewrite El. apply (wp_inv_step _ _ _ _ Hi Ht).
Qed.

(* from a fresh FrameSocket (any pre-read part p) and an empty log *)
Theorem fs_wire (ops : list fs_op) (p : bytes) (w : world) rs c' w' :
  w_log w = [] ->
  fs_run_ops (codec_new p) ops w = (rs, c', w') ->
  queued (w_log w') = fs_accepted ops (map fst rs) /\
  wire (w_log w') ++ c_out c' = concat (map frame_format (fs_accepted ops (map fst rs))).
Proof.
  intros Hl H.
  assert (Hi : wp_inv (c_out (codec_new p)) (w_log w)).
  { unfold wp_inv. rewrite Hl. reflexivity. }
  destruct (fs_wire_gen _ _ _ _ _ _ Hi H) as [Q B]. rewrite Hl in Q, B. cbn [queued app] in Q, B.
  split; [exact Q|exact B].
Qed.

(* after a run, a successful FsFlush / FsSend: everything accepted so far is on the wire, nothing is
   left in out_buffer, and the last event is the transport flush that returned Ok *)
Theorem fs_wire_flushed (ops : list fs_op) (o : fs_op) (p : bytes) (w : world) rs c1 w1 c' w' :
  w_log w = [] ->
  fs_run_ops (codec_new p) ops w = (rs, c1, w1) ->
  fs_flushing o = true ->
  fs_run_op c1 o w1 = (FsUnit (ROk tt), c', w') ->
  c_out c' = [] /\
  wire (w_log w') =
    concat (map frame_format (fs_accepted ops (map fst rs) ++ fs_accepted1 o (FsUnit (ROk tt)))) /\
  exists l, w_log w' = l ++ [EvFlush FlOk].
Proof.
  intros Hl H1 Hf H2.
  assert (H : fs_run_ops (codec_new p) (ops ++ [o]) w =
              (rs ++ [(FsUnit (ROk tt), blen (w_log w'))], c', w')).
  { rewrite fs_run_ops_snoc, H1, H2. reflexivity. }
  pose proof (proj1 (fs_run_ops_spec _ _ _ _ _ _ H1)) as Hlen.
  apply (fs_wire _ _ _ _ _ _ Hl) in H. destruct H as [_ B].
  rewrite map_app in B. cbn [map fst] in B.
  rewrite fs_accepted_app in B by (rewrite map_length; exact Hlen).
  cbn [fs_accepted] in B. rewrite app_nil_r in B.
  destruct (fs_run_op_flushed _ _ _ _ _ Hf H2) as [Ho Hlast].
  rewrite Ho, app_nil_r in B. splits; auto.
Qed.

(* the same with the run given as one list ending in the flushing op *)
Corollary fs_wire_flushed_run (ops : list fs_op) (o : fs_op) (p : bytes) (w : world) rs n c' w' :
  w_log w = [] -> fs_flushing o = true ->
  fs_run_ops (codec_new p) (ops ++ [o]) w = (rs ++ [(FsUnit (ROk tt), n)], c', w') ->
  c_out c' = [] /\
  wire (w_log w') =
    concat (map frame_format (fs_accepted (ops ++ [o]) (map fst (rs ++ [(FsUnit (ROk tt), n)])))) /\
  exists l, w_log w' = l ++ [EvFlush FlOk].
Proof.
  intros Hl Hf H. rewrite fs_run_ops_snoc in H.
  destruct (fs_run_ops (codec_new p) ops w) as [[ra c1] w1] eqn:E1.
  destruct (fs_run_op c1 o w1) as [[r c2] w2] eqn:E2.
  injection H as Hrs -> ->.
  apply app_inj_tail in Hrs. destruct Hrs as [-> Hr]. injection Hr as -> _.
  destruct (fs_wire_flushed _ _ _ _ _ _ _ _ _ Hl E1 Hf E2) as [A [B C]].
  splits; auto.
  rewrite map_app. cbn [map fst].
  rewrite fs_accepted_app by (rewrite map_length; exact (proj1 (fs_run_ops_spec _ _ _ _ _ _ E1))).
  cbn [fs_accepted]. rewrite app_nil_r. exact B.
Qed.

(* with the limit of codec_new (u64::MAX) nothing is refused as long as the total size of the frames
   offered fits in a u64: then frames_accepted = all frames *)
Lemma fs_all_accepted_gen (ops : list fs_op) : forall c w rs c' w',
  fs_run_ops c ops w = (rs, c', w') ->
  blen (c_out c) + sumN (map frame_len (fs_frames ops)) <= c_max_out c ->
  fs_accepted ops (map fst rs) = fs_frames ops.
Proof.
  induction ops as [|o ops IH]; intros c w rs c' w' H Hfit; cbn [fs_run_ops] in H.
  - inv H. reflexivity.
  - destruct (fs_run_op c o w) as [[r1 c1] w1] eqn:E1.
    destruct (fs_run_ops c1 ops w1) as [[rs2 c2] w2] eqn:E2. inv H.
    cbn [map fst fs_accepted].
    pose proof (fs_run_op_spec _ _ _ _ _ _ E1) as S1.
    destruct S1 as [e1 [_ [_ [_ [M1 [_ B1]]]]]].
    assert (A1 : fs_accepted1 o r1 ++ fs_frames ops = fs_frames (o :: ops) /\
                 blen (c_out c1) + sumN (map frame_len (fs_frames ops)) <= c_max_out c1).
    { rewrite M1. destruct o as [ms|f| |f]; cbn [fs_frames fs_accepted1 app map sumN] in *.
      - split; [reflexivity|lia].
      - cbn [fs_run_op] in E1. destruct (codec_buffer_frame c f w) as [[r0 c0] w0] eqn:E. inv E1.
        rewrite (cbf_not_full _ _ _ _ _ _ E) in * by lia. cbn [app map sumN] in *.
        split; [reflexivity|lia].
      - split; [reflexivity|lia].
      - assert (Hnf : fs_is_full r1 = false).
        { cbn [fs_run_op] in E1. destruct (codec_buffer_frame c f w) as [[r0 c0] w0] eqn:E.
          pose proof (cbf_not_full _ _ _ _ _ _ E) as Hnf.
          destruct r0; try (inv E1; apply Hnf; lia).
          destruct (fs_flush c0 w0) as [[r2 c2'] w2'] eqn:EF. inv E1.
          apply fs_flush_spec in EF. destruct EF as [evs2 [_ [_ [_ [_ [_ [_ Hr2]]]]]]].
          destruct Hr2 as [[-> _]|[[k [-> _]]|[k [-> _]]]]; reflexivity. }
        rewrite Hnf in *. cbn [app map sumN] in *. split; [reflexivity|lia]. }
    destruct A1 as [A1 A2]. rewrite (IH _ _ _ _ _ E2 A2). exact A1.
Qed.

Theorem fs_all_accepted (ops : list fs_op) (p : bytes) (w : world) rs c' w' :
  fs_run_ops (codec_new p) ops w = (rs, c', w') ->
  sumN (map frame_len (fs_frames ops)) <= u64_max ->
  fs_accepted ops (map fst rs) = fs_frames ops.
Proof.
  intros H Hs. eapply fs_all_accepted_gen; [exact H|]. cbn [codec_new c_out c_max_out].
  change (blen (@nil N)) with 0. lia.
Qed.

(* ------------------------------------------------------------------------------------------ *)
(** * 3. WriteBufferFull, frame_len accounting, send = write ; flush *)

(* C18b_fs_full *)
Theorem fs_write_full (c : codec) (f : frame) (w : world) :
  (c_max_out c < frame_len f + blen (c_out c) ->
   fs_run_op c (FsWrite f) w = (FsUnit (RErr (EWriteBufferFull f)), c, w)) /\
  (forall g c' w', fs_run_op c (FsWrite f) w = (FsUnit (RErr (EWriteBufferFull g)), c', w') ->
   c_max_out c < frame_len f + blen (c_out c) /\ g = f /\ c' = c /\ w' = w).
Proof.
  cbn [fs_run_op]. split.
  - intros Hf. unfold codec_buffer_frame.
    destruct (c_max_out c <? frame_len f + blen (c_out c)) eqn:E; [reflexivity|lia].
  - intros g c' w' H. destruct (codec_buffer_frame c f w) as [[r0 c0] w0] eqn:E. inv H.
    apply cbf_result in E. destruct E as [E|[[k E]|[E [Hf [-> ->]]]]]; try discriminate E.
    inv E. auto.
Qed.

Theorem fs_send_full (c : codec) (f : frame) (w : world) :
  (c_max_out c < frame_len f + blen (c_out c) ->
   fs_run_op c (FsSend f) w = (FsUnit (RErr (EWriteBufferFull f)), c, w)) /\
  (forall g c' w', fs_run_op c (FsSend f) w = (FsUnit (RErr (EWriteBufferFull g)), c', w') ->
   c_max_out c < frame_len f + blen (c_out c) /\ g = f /\ c' = c /\ w' = w).
Proof.
  cbn [fs_run_op]. split.
  - intros Hf. unfold codec_buffer_frame.
    destruct (c_max_out c <? frame_len f + blen (c_out c)) eqn:E; [reflexivity|lia].
  - intros g c' w' H. destruct (codec_buffer_frame c f w) as [[r0 c0] w0] eqn:E.
    pose proof (cbf_result _ _ _ _ _ _ E) as R.
    destruct R as [->|[[k ->]|[-> [Hf [-> ->]]]]].
    + destruct (fs_flush c0 w0) as [[r2 c2] w2] eqn:EF. inv H.
      apply fs_flush_spec in EF. destruct EF as [evs2 [_ [_ [_ [_ [_ [_ Hr2]]]]]]].
      destruct Hr2 as [[Hx _]|[[k [Hx _]]|[k [Hx _]]]]; discriminate Hx.
    + inv H.
    + inv H. auto.
Qed.

(* C18b_fs_len: an accepted FsWrite adds exactly frame_format f = frame_len f bytes to
   (bytes handed to the transport during the call) ++ out_buffer; with no write attempt
   (below the write_buffer_size threshold) they are all appended to out_buffer *)
Theorem fs_write_len (c : codec) (f : frame) (w : world) r c' w' :
  fs_run_op c (FsWrite f) w = (FsUnit r, c', w') ->
  fs_is_full (FsUnit r) = false ->
  frame_len f = blen (frame_format f) /\
  frame_format_into_buf (c_out c) f = c_out c ++ frame_format f /\
  blen (frame_format_into_buf (c_out c) f) = blen (c_out c) + frame_len f /\
  exists evs, w_log w' = w_log w ++ EvQueue f :: evs /\ Forall is_wr_ev evs /\
    wire evs ++ c_out c' = c_out c ++ frame_format f /\
    blen (wire evs) + blen (c_out c') = blen (c_out c) + frame_len f /\
    (blen (c_out c) + frame_len f <= c_write_len c ->
     evs = [] /\ r = ROk tt /\ c_out c' = c_out c ++ frame_format f).
Proof.
  cbn [fs_run_op]. intros H Hnf.
  destruct (codec_buffer_frame c f w) as [[r0 c0] w0] eqn:E. inv H.
  split; [apply frame_len_format|]. split; [apply frame_encoders_agree|].
  split; [apply frame_len_into_buf|].
  apply codec_buffer_frame_spec in E.
  destruct E as [[_ [-> _]]|[Hfit [evs [El [Ht [Hw [Hb [Hc [_ [_ [_ He]]]]]]]]]]];
    [discriminate Hnf|].
  exists evs. split; [exact El|]. split; [exact Hw|].
  assert (B : wire evs ++ c_out c' = c_out c ++ frame_format f).
  { apply tracks_balance in Ht. rewrite (queued_wr _ Hw) in Ht. unfold enc in Ht.
    cbn [map concat] in Ht. rewrite app_nil_r in Ht. symmetry. exact Ht. }
  split; [exact B|]. split.
  - apply (f_equal (@blen N)) in B. rewrite !WritePathP.blen_app in B.
    rewrite <- frame_len_format in B. exact B.
  - intros Hle. destruct (He Hle) as [-> ->]. splits; auto.
Qed.

(* C18b_fs_send_is_write_flush *)
Theorem fs_send_is_write_flush (c : codec) (f : frame) (w : world) :
  fs_run_op c (FsSend f) w =
  let '(r1, c1, w1) := fs_run_op c (FsWrite f) w in
  match r1 with
  | FsUnit (ROk _) => fs_run_op c1 FsFlush w1
  | _ => (r1, c1, w1)
  end.
Proof.
  cbn [fs_run_op]. destruct (codec_buffer_frame c f w) as [[r0 c0] w0].
  destruct r0; try reflexivity.
Qed.

(* ------------------------------------------------------------------------------------------ *)
(** * 4. Read side *)

(* the item the raw decoder yields for an encoded frame *)
Definition raw_of (f : frame) : raw := ROk (Some (f_hdr f, blen (f_payload f), wire_payload f)).

(* a frame the decoder takes back: opcode not reserved (a reserved opcode cannot be decoded:
   InvalidOpcode), length a u64, and within the frame size limit *)
Definition rt_ok (max : N) (f : frame) : Prop :=
  is_reserved (h_opcode (f_hdr f)) = false /\ blen (f_payload f) < two64 /\ blen (f_payload f) <= max.

Lemma ref_all_nil (max : N) (term : list raw) : ref_all max [] term = term.
Proof. reflexivity. Qed.

(* the reference decoder on  encodings ++ rest  : one item per frame, then the decoding of rest *)
Lemma ref_all_enc (max : N) (term : list raw) (rest : bytes) (fs : list frame) :
  Forall (rt_ok max) fs ->
  ref_all max (enc fs ++ rest) term = map raw_of fs ++ ref_all max rest term.
Proof.
  induction 1 as [|f fs [Hr [H64 Hm]] _ IH]; [reflexivity|].
  unfold enc in *. cbn [map concat app].
  rewrite frame_format_wire, <- !app_assoc.
  rewrite ref_all_eq. unfold ref_step.
  rewrite (header_parse_format_nr _ _ _ Hr H64).
  rewrite (dropN_app_exact _ _ _ (HeaderP.header_format_blen _ _)).
  unfold ref_body.
  destruct (max <? blen (f_payload f)) eqn:E1; [lia|].
  pose proof (wire_payload_blen f) as Hb.
  rewrite HeaderP.blen_app, Hb.
  destruct (blen (f_payload f) <=? blen (f_payload f) + blen (concat (map frame_format fs) ++ rest)) eqn:E2;
    [|lia].
  rewrite (takeN_app_exact _ _ _ Hb), (dropN_app_exact _ _ _ Hb).
  cbn [map app]. unfold raw_of at 1. f_equal. exact IH.
Qed.

(* no unmasking: the header (with its key) and the wire payload are handed out as they are *)
Lemma post_frame_raw_of (a : bool) (f : frame) :
  post_frame false a (raw_of f) = ROk (Some (wire_frame f)).
Proof.
  unfold raw_of. cbn [post_frame]. rewrite wire_payload_blen, N.eqb_refl. reflexivity.
Qed.

Lemma finish_raw_of (u : bool) (fs : list frame) (l : list raw) :
  finish false u (map raw_of fs ++ l) = map (fun f => ROk (Some (wire_frame f))) fs ++ finish false u l.
Proof.
  induction fs as [|f fs IH]; [reflexivity|].
  cbn [map app finish]. rewrite post_frame_raw_of. cbn [classify]. rewrite IH. reflexivity.
Qed.

Lemma finish_term (u a : bool) (t : terminal) : finish u a (term_res t) = term_res t.
Proof. destruct t as [| |k]; [reflexivity|reflexivity|]. destruct k; reflexivity. Qed.

(* the FrameSocket-level reference: frames_ref with unmask = false, accept_unmasked = true *)
Theorem frames_ref_enc (ms : option N) (fs : list frame) (rest : bytes) (t : terminal) :
  Forall (rt_ok (limit_of ms)) fs ->
  frames_ref ms false true None (enc fs ++ rest) t =
  map (fun f => ROk (Some (wire_frame f))) fs ++ frames_ref ms false true None rest t.
Proof.
  intros H. unfold frames_ref. cbn [ref_from].
  rewrite (ref_all_enc _ _ _ _ H). apply finish_raw_of.
Qed.

Corollary frames_ref_enc_exact (ms : option N) (fs : list frame) (t : terminal) :
  Forall (rt_ok (limit_of ms)) fs ->
  frames_ref ms false true None (enc fs) t =
  map (fun f => ROk (Some (wire_frame f))) fs ++ term_res t.
Proof.
  intros H. rewrite <- (app_nil_r (enc fs)), (frames_ref_enc _ _ _ _ H).
  unfold frames_ref. cbn [ref_from]. rewrite ref_all_nil, finish_term. reflexivity.
Qed.

(* successive FsRead results, WouldBlocks dropped (the [drive] of CodecReadP at the FrameSocket API);
   the FsUnit arm is unreachable: FsRead always answers FsFrame *)
Fixpoint fs_reads (fuel : nat) (ms : option N) (c : codec) (w : world) : list (res (option frame)) :=
  match fuel with
  | O => [ROutOfFuel]
  | S n =>
      let '(fr, c', w') := fs_run_op c (FsRead ms) w in
      match fr with
      | FsFrame r =>
          match classify r with
          | KFrame => r :: fs_reads n ms c' w'
          | KWB => match w_rds w' with [] => [] | _ => fs_reads n ms c' w' end
          | KStop => [r]
          end
      | FsUnit _ => []
      end
  end.

Lemma fs_reads_drive (ms : option N) : forall fuel c w,
  fs_reads fuel ms c w = drive fuel ms false true c w.
Proof.
  induction fuel as [|n IH]; intros c w; [reflexivity|].
  cbn [fs_reads drive fs_run_op].
  destruct (read_frame ms false true c w) as [[r c'] w'].
  destruct (classify r); try reflexivity.
  - rewrite IH. reflexivity.
  - destruct (w_rds w'); [reflexivity|apply IH].
Qed.

(* the per-frame hypothesis of the round trip, in the words of the work package *)
Definition fs_rt_ok (ms : option N) (f : frame) : Prop :=
  is_reserved (h_opcode (f_hdr f)) = false /\ blen (f_payload f) < two64 /\
  match ms with Some m => blen (f_payload f) <= m | None => True end.

Lemma fs_rt_ok_limit (ms : option N) (f : frame) : fs_rt_ok ms f -> rt_ok (limit_of ms) f.
Proof.
  intros [Hr [H64 Hm]]. unfold rt_ok. splits; auto.
  destruct ms as [m|]; cbn [limit_of]; [exact Hm|]. unfold two64, u64_max in *. lia.
Qed.

(* C18b_fs_roundtrip, general form: any codec state whose pending input is  encodings ++ rest *)
Theorem fs_roundtrip_gen (ms : option N) (fs : list frame) (rest : bytes) (p : bytes) (w : world)
        (fuel : nat) :
  Forall (fs_rt_ok ms) fs ->
  p ++ sched_data (w_rds w) = enc fs ++ rest ->
  (mu (codec_new p) (w_rds w) < fuel)%nat ->
  fs_reads fuel ms (codec_new p) w =
  map (fun f => ROk (Some (wire_frame f))) fs ++
  frames_ref ms false true None rest (sched_end (w_rds w)).
Proof.
  intros Hfs Hd Hf. rewrite fs_reads_drive, drive_ref by exact Hf.
  cbn [codec_new c_hdr c_in]. rewrite Hd. apply frames_ref_enc.
  eapply Forall_impl; [|exact Hfs]. intros f. apply fs_rt_ok_limit.
Qed.

Theorem fs_roundtrip (ms : option N) (fs : list frame) (p : bytes) (w : world) (fuel : nat) :
  Forall (fs_rt_ok ms) fs ->
  p ++ sched_data (w_rds w) = concat (map frame_format fs) ->
  (mu (codec_new p) (w_rds w) < fuel)%nat ->
  fs_reads fuel ms (codec_new p) w =
  map (fun f => ROk (Some (wire_frame f))) fs ++ term_res (sched_end (w_rds w)).
Proof.
  intros Hfs Hd Hf. rewrite fs_reads_drive, drive_ref by exact Hf.
  cbn [codec_new c_hdr c_in]. rewrite Hd. apply frames_ref_enc_exact.
  eapply Forall_impl; [|exact Hfs]. intros f. apply fs_rt_ok_limit.
Qed.

(* "and then blocks": a schedule that ends in silence yields exactly the frames *)
Corollary fs_roundtrip_blocks (ms : option N) (fs : list frame) (p : bytes) (w : world) (fuel : nat) :
  Forall (fs_rt_ok ms) fs ->
  p ++ sched_data (w_rds w) = concat (map frame_format fs) ->
  sched_end (w_rds w) = TSilence ->
  (mu (codec_new p) (w_rds w) < fuel)%nat ->
  fs_reads fuel ms (codec_new p) w = map (fun f => ROk (Some (wire_frame f))) fs.
Proof.
  intros Hfs Hd He Hf. rewrite (fs_roundtrip _ _ _ _ _ Hfs Hd Hf), He. apply app_nil_r.
Qed.

(* the hypotheses are needed: a reserved opcode is refused by the decoder *)
Lemma fs_roundtrip_needs_nonreserved :
  fs_reads 10 None (codec_new [])
    (mkWorld [RdData (frame_format (mkFrame (mkHeader true false false false (OData (DReserved 3)) None) []))]
             [] [] [] [])
  = [RErr (EProtocol (InvalidOpcode 3))].
Proof. vm_compute. reflexivity. Qed.

(* ... and a frame above max_size is refused with a capacity error *)
Lemma fs_roundtrip_needs_limit :
  fs_reads 10 (Some 2) (codec_new [])
    (mkWorld [RdData (frame_format (mkFrame (mkHeader true false false false (OData Binary) None) [1; 2; 3]))]
             [] [] [] [])
  = [RErr (ECapacity 3 2)].
Proof. vm_compute. reflexivity. Qed.
