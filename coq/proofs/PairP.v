(* proofs/PairP.v — C04: two endpoints of the library joined by a reliable ordered transport always
   complete the close handshake cleanly.  Part 4: runs of the pair (any schedule), the safety
   theorems.  (Codec: PairCodecP; one call: PairStepP; one action: PairInvP; fair rounds: PairLiveP.) *)
From TungModel Require Import Base Coding Mask Header Frame Utf8 World Message Codec Protocol Pair.
From TungModel.proofs Require Import HeaderP MaskP CodecReadP WritePathP CloseP PairCodecP PairStepP PairInvP.
From Coq Require Import Arith Lia ZifyBool ZifyNat ZifyN.

Arguments N.add : simpl never.
Arguments N.mul : simpl never.
Arguments N.sub : simpl never.
Arguments N.ltb : simpl never.
Arguments N.leb : simpl never.
Arguments N.eqb : simpl never.
Arguments N.min : simpl never.
Arguments N.of_nat : simpl never.
Arguments N.to_nat : simpl never.

(* ------------------------------------------------------------------------------------------ *)
(** * 1. what a trace says *)

Definition acc_of (sd : role) (items : list pres_item) : list message := concat (map (it_acc sd) items).
Definition del_of (sd : role) (items : list pres_item) : list message := concat (map (it_del sd) items).

Lemma acc_of_app sd a b : acc_of sd (a ++ b) = acc_of sd a ++ acc_of sd b.
Proof. unfold acc_of. rewrite map_app, concat_app. reflexivity. Qed.
Lemma del_of_app sd a b : del_of sd (a ++ b) = del_of sd a ++ del_of sd b.
Proof. unfold del_of. rewrite map_app, concat_app. reflexivity. Qed.

(* the run from (p, ghosts) to (p', ghosts') produced [items] *)
Record run_out (p : pair) (hc hs : list frame) (kc ks : nat) (items : list pres_item) (p' : pair)
               (hc' hs' : list frame) (kc' ks' : nat) : Prop := mkRunOut {
  ro_gi : GI p' hc' hs' kc' ks';
  ro_hc : exists nf, hc' = hc ++ nf /\ fd nf = acc_of Client items;
  ro_hs : exists nf, hs' = hs ++ nf /\ fd nf = acc_of Server items;
  ro_kc : fd (firstn kc' hs') = fd (firstn kc hs) ++ del_of Client items /\
          existsb isclose (firstn kc' hs') = existsb isclose (firstn kc hs) || existsb (it_gotc Client) items;
  ro_ks : fd (firstn ks' hc') = fd (firstn ks hc) ++ del_of Server items /\
          existsb isclose (firstn ks' hc') = existsb isclose (firstn ks hc) || existsb (it_gotc Server) items;
  ro_clean : Forall it_clean items;
  ro_told_c : e_told (p_client p') = e_told (p_client p) || existsb (it_cc Client) items;
  ro_told_s : e_told (p_server p') = e_told (p_server p) || existsb (it_cc Server) items;
  ro_drop_c : e_dropped (p_client p') = e_dropped (p_client p) || existsb (it_drop Client) items;
  ro_drop_s : e_dropped (p_server p') = e_dropped (p_server p) || existsb (it_drop Server) items;
  ro_len : length items = length items }.

Lemma prun_cons p a r :
  prun p (a :: r) = let '(i, p1) := Pair.pstep p a in let '(is, p2) := prun p1 r in (i :: is, p2).
Proof. reflexivity. Qed.

Theorem prun_inv acts : forall p hc hs kc ks items p',
  GI p hc hs kc ks -> Forall act_ok acts -> prun p acts = (items, p') ->
  exists hc' hs' kc' ks', run_out p hc hs kc ks items p' hc' hs' kc' ks'.
Proof.
  induction acts as [|a acts IH]; intros p hc hs kc ks items p' G Hok H.
  - cbn in H. injection H as <- <-. exists hc, hs, kc, ks.
    constructor; cbn [existsb acc_of del_of map concat]; rewrite ?app_nil_r, ?Bool.orb_false_r; auto.
    + exists []. rewrite app_nil_r. split; reflexivity.
    + exists []. rewrite app_nil_r. split; reflexivity.
  - rewrite prun_cons in H. inversion Hok as [|? ? Ha Hoks]; subst.
    destruct (Pair.pstep p a) as [it p1] eqn:E1.
    destruct (prun p1 acts) as [its p2] eqn:E2. injection H as <- <-.
    destruct (pstep_inv _ _ _ _ _ _ _ _ G Ha E1) as [hc1 [hs1 [kc1 [ks1 P1]]]].
    destruct (IH _ _ _ _ _ _ _ (po_gi _ _ _ _ _ _ _ _ _ _ _ _ P1) Hoks E2) as [hc2 [hs2 [kc2 [ks2 R2]]]].
    exists hc2, hs2, kc2, ks2.
    destruct (po_hc _ _ _ _ _ _ _ _ _ _ _ _ P1) as [nfc1 [Ec1 Fc1]].
    destruct (po_hs _ _ _ _ _ _ _ _ _ _ _ _ P1) as [nfs1 [Es1 Fs1]].
    destruct (po_kc _ _ _ _ _ _ _ _ _ _ _ _ P1) as [jc [Ekc [Fkc [Gkc Lkc]]]].
    destruct (po_ks _ _ _ _ _ _ _ _ _ _ _ _ P1) as [js [Eks [Fks [Gks Lks]]]].
    destruct (ro_hc _ _ _ _ _ _ _ _ _ _ _ R2) as [nfc2 [Ec2 Fc2]].
    destruct (ro_hs _ _ _ _ _ _ _ _ _ _ _ R2) as [nfs2 [Es2 Fs2]].
    destruct (ro_kc _ _ _ _ _ _ _ _ _ _ _ R2) as [Fkc2 Gkc2].
    destruct (ro_ks _ _ _ _ _ _ _ _ _ _ _ R2) as [Fks2 Gks2].
    assert (Hk1 : firstn kc1 hs1 = firstn kc hs ++ firstn jc (skipn kc hs)).
    { rewrite Es1, firstn_app_le by exact Lkc. rewrite Ekc. apply firstn_add. }
    assert (Hk2 : firstn ks1 hc1 = firstn ks hc ++ firstn js (skipn ks hc)).
    { rewrite Ec1, firstn_app_le by exact Lks. rewrite Eks. apply firstn_add. }
    constructor; cbn [existsb]; auto.
    + exact (ro_gi _ _ _ _ _ _ _ _ _ _ _ R2).
    + exists (nfc1 ++ nfc2). rewrite Ec2, Ec1, app_assoc. split; [reflexivity|].
      rewrite fd_app, Fc1, Fc2. reflexivity.
    + exists (nfs1 ++ nfs2). rewrite Es2, Es1, app_assoc. split; [reflexivity|].
      rewrite fd_app, Fs1, Fs2. reflexivity.
    + split.
      * rewrite Fkc2, Hk1, fd_app, Fkc, <- app_assoc. reflexivity.
      * rewrite Gkc2, Hk1, existsb_app, Gkc, Bool.orb_assoc. reflexivity.
    + split.
      * rewrite Fks2, Hk2, fd_app, Fks, <- app_assoc. reflexivity.
      * rewrite Gks2, Hk2, existsb_app, Gks, Bool.orb_assoc. reflexivity.
    + constructor; [exact (po_clean _ _ _ _ _ _ _ _ _ _ _ _ P1)|exact (ro_clean _ _ _ _ _ _ _ _ _ _ _ R2)].
    + rewrite (ro_told_c _ _ _ _ _ _ _ _ _ _ _ R2), (po_told_c _ _ _ _ _ _ _ _ _ _ _ _ P1), Bool.orb_assoc. reflexivity.
    + rewrite (ro_told_s _ _ _ _ _ _ _ _ _ _ _ R2), (po_told_s _ _ _ _ _ _ _ _ _ _ _ _ P1), Bool.orb_assoc. reflexivity.
    + rewrite (ro_drop_c _ _ _ _ _ _ _ _ _ _ _ R2), (po_drop_c _ _ _ _ _ _ _ _ _ _ _ _ P1), Bool.orb_assoc. reflexivity.
    + rewrite (ro_drop_s _ _ _ _ _ _ _ _ _ _ _ R2), (po_drop_s _ _ _ _ _ _ _ _ _ _ _ _ P1), Bool.orb_assoc. reflexivity.
Qed.

(* ------------------------------------------------------------------------------------------ *)
(** * 2. the initial pair *)

(* "default-like" configuration: no message / frame size limit, max_write_buffer_size = usize::MAX *)
Definition cfg_free (cfg : config) : Prop :=
  cfg_max_message_size cfg = None /\ cfg_max_frame_size cfg = None /\
  cfg_max_write_buffer_size cfg = u64_max.

Lemma init_EPI r cfg x pe : cfg_free cfg -> ctx_new r [] cfg = Some x ->
  forall keys, outb pe = [] ->
  EPI r (mkEndpoint x [] false false keys) pe [] [] 0.
Proof.
  intros [Hmm [Hmf Hmw]] Hn keys Hpe. unfold ctx_new in Hn.
  destruct (config_valid cfg); [|discriminate Hn]. injection Hn as <-.
  constructor; unfold cx, outb in *; cbn [e_ctx e_inbox e_dropped e_told x_state x_additional x_codec firstn skipn existsb].
  - constructor; cbn; auto. unfold blen. cbn. unfold u64_max. lia.
  - cbn. split; [constructor|exact I].
  - intros X. discriminate X.
  - cbn. reflexivity.
  - cbn. lia.
  - intros _. rewrite Hpe. reflexivity.
  - split; constructor.
  - intros X. discriminate X.
  - intros X. discriminate X.
Qed.

Lemma init_GI cfg_c cfg_s keys p0 :
  cfg_free cfg_c -> cfg_free cfg_s -> pair_init cfg_c cfg_s keys = Some p0 -> GI p0 [] [] 0 0.
Proof.
  intros Hc Hs H. unfold pair_init in H.
  destruct (ctx_new Client [] cfg_c) as [xc|] eqn:Ec; [|discriminate H].
  destruct (ctx_new Server [] cfg_s) as [xs|] eqn:Es; [|discriminate H].
  injection H as <-.
  assert (Oc : c_out (x_codec xc) = []).
  { unfold ctx_new in Ec. destruct (config_valid cfg_c); [|discriminate Ec]. injection Ec as <-. reflexivity. }
  assert (Os : c_out (x_codec xs) = []).
  { unfold ctx_new in Es. destruct (config_valid cfg_s); [|discriminate Es]. injection Es as <-. reflexivity. }
  constructor; cbn [p_client p_server e_told e_dropped]; try (intros X; discriminate X).
  - apply (init_EPI Client cfg_c); auto.
  - apply (init_EPI Server cfg_s); auto.
Qed.

(* a run from the initial pair *)
Definition reach (cfg_c cfg_s : config) (keys : list key) (acts : list paction)
                 (items : list pres_item) (p : pair) : Prop :=
  cfg_free cfg_c /\ cfg_free cfg_s /\ Forall act_ok acts /\
  exists p0, pair_init cfg_c cfg_s keys = Some p0 /\ prun p0 acts = (items, p).

Lemma reach_inv cfg_c cfg_s keys acts items p :
  reach cfg_c cfg_s keys acts items p ->
  exists p0 hc hs kc ks, run_out p0 [] [] 0 0 items p hc hs kc ks /\
    e_told (p_client p0) = false /\ e_told (p_server p0) = false /\
    e_dropped (p_client p0) = false /\ e_dropped (p_server p0) = false.
Proof.
  intros [Hc [Hs [Hok [p0 [Hi Hr]]]]].
  pose proof (init_GI _ _ _ _ Hc Hs Hi) as G0.
  destruct (prun_inv _ _ _ _ _ _ _ _ G0 Hok Hr) as [hc [hs [kc [ks R]]]].
  exists p0, hc, hs, kc, ks. split; [exact R|].
  unfold pair_init in Hi. destruct (ctx_new Client [] cfg_c); [|discriminate Hi].
  destruct (ctx_new Server [] cfg_s); [|discriminate Hi]. injection Hi as <-. cbn. auto.
Qed.

(* ------------------------------------------------------------------------------------------ *)
(** * 3. safety *)

(* (a) no call on either side ever returns a protocol error (a write after the close is refused
   with SendAfterClosing), a panic or runs out of fuel *)
Theorem safety_clean cfg_c cfg_s keys acts items p :
  reach cfg_c cfg_s keys acts items p -> Forall it_clean items.
Proof.
  intros H. destruct (reach_inv _ _ _ _ _ _ H) as [p0 [hc [hs [kc [ks [R _]]]]]].
  exact (ro_clean _ _ _ _ _ _ _ _ _ _ _ R).
Qed.

Lemma fd_firstn_prefix k h : exists rest, fd h = fd (firstn k h) ++ rest.
Proof. exists (fd (skipn k h)). rewrite <- fd_app, firstn_skipn. reflexivity. Qed.

(* (b) the data messages delivered to a side are a prefix of those the other side wrote (accepted,
   i.e. the write returned Ok or an io error: the frame is queued), in order *)
Theorem safety_prefix cfg_c cfg_s keys acts items p :
  reach cfg_c cfg_s keys acts items p ->
  (exists rest, acc_of Server items = del_of Client items ++ rest) /\
  (exists rest, acc_of Client items = del_of Server items ++ rest).
Proof.
  intros H. destruct (reach_inv _ _ _ _ _ _ H) as [p0 [hc [hs [kc [ks [R _]]]]]].
  destruct (ro_hc _ _ _ _ _ _ _ _ _ _ _ R) as [nfc [Ec Fc]].
  destruct (ro_hs _ _ _ _ _ _ _ _ _ _ _ R) as [nfs [Es Fs]].
  destruct (ro_kc _ _ _ _ _ _ _ _ _ _ _ R) as [Fkc _].
  destruct (ro_ks _ _ _ _ _ _ _ _ _ _ _ R) as [Fks _].
  cbn [app firstn] in *. subst hc hs. unfold fd at 2 in Fkc. unfold fd at 2 in Fks. cbn in Fkc, Fks.
  split.
  - destruct (fd_firstn_prefix kc nfs) as [rest Hr]. exists rest. rewrite <- Fs, <- Fkc. exact Hr.
  - destruct (fd_firstn_prefix ks nfc) as [rest Hr]. exists rest. rewrite <- Fc, <- Fks. exact Hr.
Qed.

(* (c) the order of the two ConnectionClosed reports: whenever the client has been told, the server
   has been told before and has dropped the transport *)
Theorem safety_order cfg_c cfg_s keys acts items p :
  reach cfg_c cfg_s keys acts items p ->
  e_told (p_client p) = true -> e_told (p_server p) = true /\ e_dropped (p_server p) = true.
Proof.
  intros H Ht. destruct (reach_inv _ _ _ _ _ _ H) as [p0 [hc [hs [kc [ks [R _]]]]]].
  pose proof (ro_gi _ _ _ _ _ _ _ _ _ _ _ R) as G.
  pose proof (gi_tc _ _ _ _ _ G Ht) as Hd. split; [exact (gi_ds _ _ _ _ _ G Hd)|exact Hd].
Qed.

(* the flags of the final state are what the trace says *)
Lemma reach_flags cfg_c cfg_s keys acts items p :
  reach cfg_c cfg_s keys acts items p ->
  e_told (p_client p) = existsb (it_cc Client) items /\ e_told (p_server p) = existsb (it_cc Server) items /\
  e_dropped (p_client p) = existsb (it_drop Client) items /\ e_dropped (p_server p) = existsb (it_drop Server) items.
Proof.
  intros H. destruct (reach_inv _ _ _ _ _ _ H) as [p0 [hc [hs [kc [ks [R [A [B [C D]]]]]]]]].
  rewrite (ro_told_c _ _ _ _ _ _ _ _ _ _ _ R), (ro_told_s _ _ _ _ _ _ _ _ _ _ _ R),
          (ro_drop_c _ _ _ _ _ _ _ _ _ _ _ R), (ro_drop_s _ _ _ _ _ _ _ _ _ _ _ R), A, B, C, D.
  auto.
Qed.

(* splitting a run *)
Lemma prun_app a : forall b p,
  prun p (a ++ b) = let '(i1, p1) := prun p a in let '(i2, p2) := prun p1 b in (i1 ++ i2, p2).
Proof.
  induction a as [|x a IH]; intros b p.
  - cbn [app prun]. destruct (prun p b) as [i2 p2]. reflexivity.
  - cbn [app]. rewrite !prun_cons. destruct (Pair.pstep p x) as [i p1]. rewrite IH.
    destruct (prun p1 a) as [i1 p2]. destruct (prun p2 b) as [i2 p3]. reflexivity.
Qed.

Lemma prun_length acts : forall p items p', prun p acts = (items, p') -> length items = length acts.
Proof.
  induction acts as [|a acts IH]; intros p items p' H.
  - cbn in H. injection H as <- <-. reflexivity.
  - rewrite prun_cons in H. destruct (Pair.pstep p a) as [i p1]. destruct (prun p1 acts) as [is p2] eqn:E.
    injection H as <- <-. cbn [length]. f_equal. eapply IH. exact E.
Qed.

Lemma app_inj_len {A} (a c b d : list A) : length a = length c -> a ++ b = c ++ d -> a = c /\ b = d.
Proof.
  revert c. induction a as [|x a IH]; intros [|y c] L E; try discriminate L; [auto|].
  cbn in L, E. injection E as -> E. injection L as L. destruct (IH _ L E) as [-> ->]. auto.
Qed.

(* a prefix of the trace is the trace of a prefix of the schedule *)
Lemma prun_prefix acts p items p' pre post :
  prun p acts = (items, p') -> items = pre ++ post ->
  exists a1 a2 p1, acts = a1 ++ a2 /\ prun p a1 = (pre, p1) /\ prun p1 a2 = (post, p').
Proof.
  intros H E. pose proof (prun_length _ _ _ _ H) as L0.
  exists (firstn (length pre) acts), (skipn (length pre) acts).
  rewrite <- (firstn_skipn (length pre) acts) in H. rewrite prun_app in H.
  destruct (prun p (firstn (length pre) acts)) as [i1 p1] eqn:E1.
  destruct (prun p1 (skipn (length pre) acts)) as [i2 p2] eqn:E2.
  injection H as H1 H2. subst p2.
  pose proof (prun_length _ _ _ _ E1) as L1.
  assert (Hlen : length i1 = length pre).
  { rewrite L1, firstn_length. apply Nat.min_l. rewrite <- L0, E, app_length. lia. }
  rewrite E in H1. apply app_inj_len in H1; [|exact Hlen]. destruct H1 as [-> ->].
  exists p1. splits; auto. symmetry. apply firstn_skipn.
Qed.

Lemma reach_prefix cfg_c cfg_s keys acts items p pre post :
  reach cfg_c cfg_s keys acts items p -> items = pre ++ post ->
  exists a1 a2 p1, reach cfg_c cfg_s keys a1 pre p1 /\ Forall act_ok a2 /\ prun p1 a2 = (post, p).
Proof.
  intros [Hc [Hs [Hok [p0 [Hi Hr]]]]] E.
  destruct (prun_prefix _ _ _ _ _ _ Hr E) as [a1 [a2 [p1 [-> [H1 H2]]]]].
  apply Forall_app in Hok. destruct Hok as [Hok1 Hok2].
  exists a1, a2, p1. splits; auto. unfold reach. splits; auto. exists p0. auto.
Qed.

(* (c') on the trace: a ConnectionClosed reported to the client comes after the server was told and
   dropped the transport *)
Theorem safety_order_trace cfg_c cfg_s keys acts items p pre o r post :
  reach cfg_c cfg_s keys acts items p ->
  items = pre ++ PRes Client o r :: post -> is_cc r = true ->
  existsb (it_cc Server) pre = true /\ existsb (it_drop Server) pre = true.
Proof.
  intros H E Hc.
  assert (E' : items = (pre ++ [PRes Client o r]) ++ post) by (rewrite <- app_assoc; exact E).
  destruct (reach_prefix _ _ _ _ _ _ _ _ H E') as [a1 [a2 [p1 [H1 _]]]].
  destruct (reach_flags _ _ _ _ _ _ H1) as [Fc [Fs [_ Fd]]].
  assert (Ht : e_told (p_client p1) = true).
  { rewrite Fc, existsb_app. cbn. rewrite Hc. apply Bool.orb_true_r. }
  destruct (safety_order _ _ _ _ _ _ H1 Ht) as [Ts Ds].
  rewrite Fs, existsb_app in Ts. rewrite Fd, existsb_app in Ds. cbn in Ts, Ds.
  rewrite !Bool.orb_false_r in *. auto.
Qed.

Lemma existsb_firstn {A} (f : A -> bool) k l : existsb f (firstn k l) = true -> existsb f l = true.
Proof. intros H. rewrite <- (firstn_skipn k l), existsb_app, H. reflexivity. Qed.

(* once a side's Close is queued, none of its later writes is accepted *)
Lemma no_acc_after_close p hc hs kc ks acts items p' :
  GI p hc hs kc ks -> Forall act_ok acts -> prun p acts = (items, p') ->
  (existsb isclose hc = true -> acc_of Client items = []) /\
  (existsb isclose hs = true -> acc_of Server items = []).
Proof.
  intros G Hok H. destruct (prun_inv _ _ _ _ _ _ _ _ G Hok H) as [hc' [hs' [kc' [ks' R]]]].
  pose proof (ro_gi _ _ _ _ _ _ _ _ _ _ _ R) as G'.
  destruct (ro_hc _ _ _ _ _ _ _ _ _ _ _ R) as [nfc [Ec Fc]].
  destruct (ro_hs _ _ _ _ _ _ _ _ _ _ _ R) as [nfs [Es Fs]].
  split; intros Hcl.
  - pose proof (epi_qp _ _ _ _ _ _ (gi_c _ _ _ _ _ G')) as HQ. rewrite Ec in HQ.
    rewrite (close_final _ _ _ _ Hcl HQ) in Fc. symmetry. exact Fc.
  - pose proof (epi_qp _ _ _ _ _ _ (gi_s _ _ _ _ _ G')) as HQ. rewrite Es in HQ.
    rewrite (close_final _ _ _ _ Hcl HQ) in Fs. symmetry. exact Fs.
Qed.

(* (d) everything a side wrote before its Close has been delivered to the peer by the time the
   peer's read returns that Close: at that moment the peer has received exactly the messages the
   side ever writes (later writes are refused) *)
Theorem delivery_before_close cfg_c cfg_s keys acts items p pre sd o r post :
  reach cfg_c cfg_s keys acts items p ->
  items = pre ++ PRes sd o r :: post -> gotc r = true ->
  del_of sd pre = acc_of (opp sd) items.
Proof.
  intros H E Hg.
  assert (E' : items = (pre ++ [PRes sd o r]) ++ post) by (rewrite <- app_assoc; exact E).
  destruct (reach_prefix _ _ _ _ _ _ _ _ H E') as [a1 [a2 [p1 [H1 [Hok2 H2]]]]].
  destruct (reach_inv _ _ _ _ _ _ H1) as [p0 [hc [hs [kc [ks [R _]]]]]].
  pose proof (ro_gi _ _ _ _ _ _ _ _ _ _ _ R) as G.
  destruct (ro_hc _ _ _ _ _ _ _ _ _ _ _ R) as [nfc [Ec Fc]].
  destruct (ro_hs _ _ _ _ _ _ _ _ _ _ _ R) as [nfs [Es Fs]].
  destruct (ro_kc _ _ _ _ _ _ _ _ _ _ _ R) as [Fkc Gkc].
  destruct (ro_ks _ _ _ _ _ _ _ _ _ _ _ R) as [Fks Gks].
  cbn [app firstn existsb orb] in *. subst hc hs.
  unfold fd at 2 in Fkc. unfold fd at 2 in Fks. cbn [map concat app] in Fkc, Fks.
  destruct (no_acc_after_close _ _ _ _ _ _ _ _ G Hok2 H2) as [Nc Ns].
  assert (Hd : dres r = []).
  { destruct r as [[m|e|q|]|u|b]; try discriminate Hg. destruct m; try discriminate Hg. reflexivity. }
  rewrite E', acc_of_app.
  destruct sd; cbn [opp].
  - (* the server received the client's Close *)
    assert (Hc : existsb isclose (firstn ks nfc) = true).
    { rewrite Gks, existsb_app. cbn [existsb it_gotc role_eqb andb]. rewrite Hg. apply Bool.orb_true_r. }
    pose proof (close_consumed_all _ _ _ _ (epi_qp _ _ _ _ _ _ (gi_c _ _ _ _ _ G)) Hc) as Hall.
    apply skipn_nil_len in Hall.
    rewrite (Nc (existsb_firstn _ _ _ Hc)), app_nil_r, <- Fc.
    rewrite <- (firstn_all2 nfc Hall) at 1. rewrite Fks, del_of_app.
    assert (X : del_of Server [PRes Server o r] = []).
    { unfold del_of. cbn [map concat it_del role_eqb]. rewrite Hd. reflexivity. }
    rewrite X, app_nil_r. reflexivity.
  - assert (Hc : existsb isclose (firstn kc nfs) = true).
    { rewrite Gkc, existsb_app. cbn [existsb it_gotc role_eqb andb]. rewrite Hg. apply Bool.orb_true_r. }
    pose proof (close_consumed_all _ _ _ _ (epi_qp _ _ _ _ _ _ (gi_s _ _ _ _ _ G)) Hc) as Hall.
    apply skipn_nil_len in Hall.
    rewrite (Ns (existsb_firstn _ _ _ Hc)), app_nil_r, <- Fs.
    rewrite <- (firstn_all2 nfs Hall) at 1. rewrite Fkc, del_of_app.
    assert (X : del_of Client [PRes Client o r] = []).
    { unfold del_of. cbn [map concat it_del role_eqb]. rewrite Hd. reflexivity. }
    rewrite X, app_nil_r. reflexivity.
Qed.

(* ------------------------------------------------------------------------------------------ *)
(** * 4. fair rounds (used by the liveness part and the examples) *)

(* one side's part of a fair round: flush on an accepting transport, n reads of everything in flight,
   drop the transport if told that the connection is closed *)
Definition fair_side (sd : role) (n : nat) : list paction :=
  fair_flush sd :: repeat (fair_read sd) n ++ [PDrop sd].
Definition fair_round (n : nat) : list paction := fair_side Server n ++ fair_side Client n.

Lemma fair_act_ok sd : act_ok (fair_flush sd) /\ act_ok (fair_read sd) /\ act_ok (PDrop sd).
Proof.
  unfold fair_flush, fair_read, accept_all, act_ok, uop_ok. cbn [repeat].
  splits; auto; repeat constructor; cbn; unfold u64_max; lia.
Qed.

Lemma fair_side_ok sd n : Forall act_ok (fair_side sd n).
Proof.
  destruct (fair_act_ok sd) as [A [B C]]. unfold fair_side. constructor; [exact A|].
  apply Forall_app. split; [|constructor; [exact C|constructor]].
  apply Forall_forall. intros a Ha. apply repeat_spec in Ha. subst a. exact B.
Qed.

Lemma fair_round_ok n : Forall act_ok (fair_round n).
Proof. apply Forall_app. split; apply fair_side_ok. Qed.
