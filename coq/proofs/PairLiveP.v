(* proofs/PairLiveP.v — C04, part 5: liveness.  From every reachable state in which the close handshake
   has started, two fair rounds (server side: flush on an accepting transport, n reads of everything in
   flight, drop if told; then the client side likewise) end with both sides told ConnectionClosed and
   both transports dropped — for every n above a bound that depends only on what is in flight. *)
From TungModel Require Import Base Coding Mask Header Frame Utf8 World Message Codec Protocol Pair.
From TungModel.proofs Require Import HeaderP MaskP CodecReadP WritePathP CloseP PairCodecP PairStepP PairInvP PairP.
From Coq Require Import Arith Lia ZifyBool ZifyNat ZifyN.

Arguments N.add : simpl never.
Arguments N.mul : simpl never.
Arguments N.sub : simpl never.
Arguments N.ltb : simpl never.
Arguments N.leb : simpl never.
Arguments N.eqb : simpl never.
Arguments N.min : simpl never.
Arguments N.of_nat : simpl never.
Arguments N.to_nat : simpl never.

(* ------------------------------------------------------------------------------------------ *)
(** * 1. the shape of one action's item *)

Lemma pstep_do sd o ch wrs fls p it p' :
  Pair.pstep p (PDo sd o ch wrs fls) = (it, p') ->
  (e_dropped (ep p sd) = true /\ it = PSkipped sd /\ p' = p) \/
  (e_dropped (ep p sd) = false /\ exists r, it = PRes sd o r).
Proof.
  destruct sd; cbn [Pair.pstep ep].
  - destruct (e_dropped (p_server p)) eqn:E; [intros H; injection H as <- <-; left; auto|].
    destruct (do_on (p_server p) (p_client p) o ch wrs fls) as [[[r me] pe] lg].
    intros H. injection H as <- <-. right. eauto.
  - destruct (e_dropped (p_client p)) eqn:E; [intros H; injection H as <- <-; left; auto|].
    destruct (do_on (p_client p) (p_server p) o ch wrs fls) as [[[r me] pe] lg].
    intros H. injection H as <- <-. right. eauto.
Qed.

Lemma pstep_drop sd p it p' :
  Pair.pstep p (PDrop sd) = (it, p') ->
  e_ctx (ep p' sd) = e_ctx (ep p sd) /\ e_ctx (ep p' (opp sd)) = e_ctx (ep p (opp sd)) /\
  e_inbox (ep p' sd) = e_inbox (ep p sd) /\
  e_told (ep p' sd) = e_told (ep p sd) /\ e_told (ep p' (opp sd)) = e_told (ep p (opp sd)) /\
  e_dropped (ep p' (opp sd)) = e_dropped (ep p (opp sd)) /\
  e_dropped (ep p' sd) = e_dropped (ep p sd) || e_told (ep p sd) /\
  (forall sd' o r, it <> PRes sd' o r).
Proof.
  destruct sd; cbn [Pair.pstep ep opp].
  - destruct (e_told (p_server p)) eqn:E; intros H; injection H as <- <-; cbn [p_client p_server e_ctx e_inbox e_told e_dropped];
      rewrite ?E, ?Bool.orb_true_r, ?Bool.orb_false_r; splits; auto; intros; discriminate.
  - destruct (e_told (p_client p)) eqn:E; intros H; injection H as <- <-; cbn [p_client p_server e_ctx e_inbox e_told e_dropped];
      rewrite ?E, ?Bool.orb_true_r, ?Bool.orb_false_r; splits; auto; intros; discriminate.
Qed.

Lemma chunks_all inbox data rest :
  chunks_of inbox [u64_max] = (data, rest) ->
  (inbox = [] /\ rest = []) \/ (length rest < length inbox)%nat.
Proof.
  destruct inbox as [|b l]; cbn [chunks_of].
  - intros H. injection H as <- <-. left. auto.
  - replace (u64_max =? 0) with false by reflexivity.
    intros H. injection H as <- <-. right. rewrite length_dropN.
    assert (0 < N.min u64_max (blen (b :: l))) by (rewrite HeaderP.blen_cons; unfold u64_max; lia).
    cbn [length]. lia.
Qed.

Lemma codec_at_nil c fut : codec_at c fut [] -> fut = [].
Proof.
  unfold codec_at. destruct (c_hdr c) as [[h len]|].
  - intros [f [rem' [X _]]]. discriminate X.
  - intros H. rewrite enc_nil in H. apply app_eq_nil in H. tauto.
Qed.

(* ------------------------------------------------------------------------------------------ *)
(** * 2. one fair action of side sd *)

Section Side.
Variable sd : role.
Variable nr : nat.

Definition hme (hc hs : list frame) := hof sd hc hs.
Definition hpe (hc hs : list frame) := hof (opp sd) hc hs.
Definition kme (kc ks : nat) := kof sd kc ks.
Definition kpe (kc ks : nat) := kof (opp sd) kc ks.

Lemma fair_do_step o ch p hc hs kc ks it p1 :
  uop_ok o ->
  GI p hc hs kc ks -> e_dropped (ep p sd) = false ->
  Pair.pstep p (PDo sd o ch accept_all [FlOk; FlOk]) = (it, p1) ->
  exists r hc1 hs1 kc1 ks1 nf j,
    it = PRes sd o r /\ GI p1 hc1 hs1 kc1 ks1 /\
    step_out sd (ep p sd) (ep p (opp sd)) (hme hc hs) (hpe hc hs) (kme kc ks) o ch accept_all [FlOk; FlOk]
             r (ep p1 sd) (ep p1 (opp sd)) nf j /\
    hme hc1 hs1 = hme hc hs ++ nf /\ kme kc1 ks1 = (kme kc ks + j)%nat /\
    hpe hc1 hs1 = hpe hc hs /\ kpe kc1 ks1 = kpe kc ks.
Proof.
  intros Hu G Hnd H.
  assert (Hok : act_ok (PDo sd o ch accept_all [FlOk; FlOk])).
  { cbn. splits; auto; unfold accept_all; repeat constructor; cbn; unfold u64_max; lia. }
  destruct (pstep_inv _ _ _ _ _ _ _ _ G Hok H) as [hc1 [hs1 [kc1 [ks1 P]]]].
  destruct (pstep_do _ _ _ _ _ _ _ _ H) as [[X _]|[_ [r Hit]]]; [rewrite Hnd in X; discriminate X|].
  destruct (po_step _ _ _ _ _ _ _ _ _ _ _ _ P _ _ _ Hit) as [ch' [wrs' [fls' [nf [j [Ea [Hso [E1 [E2 [E3 E4]]]]]]]]]].
  injection Ea as <- <- <-.
  exists r, hc1, hs1, kc1, ks1, nf, j. splits; auto. exact (po_gi _ _ _ _ _ _ _ _ _ _ _ _ P).
Qed.

(* ------------------------------------------------------------------------------------------ *)
(** * 3. repeated fair reads *)

(* what the side still has to read *)
Definition Mq (p : pair) (hc hs : list frame) (kc ks : nat) : nat :=
  (length (skipn (kme kc ks) (hpe hc hs)) + length (e_inbox (ep p sd)))%nat.

(* the side has nothing more to do in this phase: it has been told, or it has consumed everything the
   peer queued, holds no reply back, and it is not the case that the peer's Close has arrived while
   the side is the server / the peer has dropped *)
Definition Fin (p : pair) (hc hs : list frame) (kc ks : nat) : Prop :=
  e_told (ep p sd) = true \/
  (skipn (kme kc ks) (hpe hc hs) = [] /\ x_additional (cx (ep p sd)) = None /\
   (existsb isclose (hpe hc hs) = true -> sd = Server \/ e_dropped (ep p (opp sd)) = true -> False)).

Record drain_out (p : pair) (hc hs : list frame) (kc ks : nat) (p' : pair) (hc' hs' : list frame) (kc' ks' : nat)
  : Prop := mkDrainOut {
  dr_gi : GI p' hc' hs' kc' ks';
  dr_nd : e_dropped (ep p' sd) = false;
  dr_out : e_told (ep p' sd) = true \/ outb (ep p' sd) = [];
  dr_pe : e_ctx (ep p' (opp sd)) = e_ctx (ep p (opp sd)) /\
          e_dropped (ep p' (opp sd)) = e_dropped (ep p (opp sd)) /\
          e_told (ep p' (opp sd)) = e_told (ep p (opp sd));
  dr_hp : hpe hc' hs' = hpe hc hs /\ kpe kc' ks' = kpe kc ks;
  dr_h : exists nf, hme hc' hs' = hme hc hs ++ nf /\ fd nf = [] /\
           (length nf + bsome (x_additional (cx (ep p' sd))) <=
            bsome (x_additional (cx (ep p sd))) + (kme kc' ks' - kme kc ks))%nat;
  dr_k : (kme kc ks <= kme kc' ks')%nat;
  dr_told : e_told (ep p sd) = true -> e_told (ep p' sd) = true;
  dr_act : x_state (cx (ep p sd)) <> Active -> x_state (cx (ep p' sd)) <> Active;
  dr_inbox : (length (e_inbox (ep p' sd)) <= length (e_inbox (ep p sd)))%nat }.

Lemma drain_out_refl p hc hs kc ks :
  GI p hc hs kc ks -> e_dropped (ep p sd) = false ->
  e_told (ep p sd) = true \/ outb (ep p sd) = [] ->
  drain_out p hc hs kc ks p hc hs kc ks.
Proof.
  intros G Hnd Ho. constructor; auto.
  exists []. rewrite app_nil_r. splits; auto. cbn. lia.
Qed.

Lemma drain_out_trans p hc hs kc ks p1 hc1 hs1 kc1 ks1 p2 hc2 hs2 kc2 ks2 :
  drain_out p hc hs kc ks p1 hc1 hs1 kc1 ks1 -> drain_out p1 hc1 hs1 kc1 ks1 p2 hc2 hs2 kc2 ks2 ->
  drain_out p hc hs kc ks p2 hc2 hs2 kc2 ks2.
Proof.
  intros A B. destruct (dr_pe _ _ _ _ _ _ _ _ _ _ A) as [A1 [A2 A3]]. destruct (dr_pe _ _ _ _ _ _ _ _ _ _ B) as [B1 [B2 B3]].
  destruct (dr_hp _ _ _ _ _ _ _ _ _ _ A) as [A4 A5]. destruct (dr_hp _ _ _ _ _ _ _ _ _ _ B) as [B4 B5].
  destruct (dr_h _ _ _ _ _ _ _ _ _ _ A) as [n1 [A6 [A7 A8]]]. destruct (dr_h _ _ _ _ _ _ _ _ _ _ B) as [n2 [B6 [B7 B8]]].
  pose proof (dr_k _ _ _ _ _ _ _ _ _ _ A) as A9. pose proof (dr_k _ _ _ _ _ _ _ _ _ _ B) as B9.
  constructor.
  - exact (dr_gi _ _ _ _ _ _ _ _ _ _ B).
  - exact (dr_nd _ _ _ _ _ _ _ _ _ _ B).
  - exact (dr_out _ _ _ _ _ _ _ _ _ _ B).
  - splits; congruence.
  - split; congruence.
  - exists (n1 ++ n2). rewrite B6, A6, app_assoc, fd_app, A7, B7, app_length. splits; auto. lia.
  - lia.
  - intros X. apply (dr_told _ _ _ _ _ _ _ _ _ _ B), (dr_told _ _ _ _ _ _ _ _ _ _ A), X.
  - intros X. apply (dr_act _ _ _ _ _ _ _ _ _ _ B), (dr_act _ _ _ _ _ _ _ _ _ _ A), X.
  - pose proof (dr_inbox _ _ _ _ _ _ _ _ _ _ A). pose proof (dr_inbox _ _ _ _ _ _ _ _ _ _ B). lia.
Qed.

(* what any scheduled call of side sd (flush or read, accepting transport) keeps *)
Lemma step_drain_out o ch p hc hs kc ks p1 hc1 hs1 kc1 ks1 r nf j :
  o = OpRead \/ o = OpFlush ->
  GI p hc hs kc ks -> e_dropped (ep p sd) = false ->
  e_told (ep p sd) = true \/ outb (ep p sd) = [] \/ o = OpFlush ->
  GI p1 hc1 hs1 kc1 ks1 ->
  step_out sd (ep p sd) (ep p (opp sd)) (hme hc hs) (hpe hc hs) (kme kc ks) o ch accept_all [FlOk; FlOk]
           r (ep p1 sd) (ep p1 (opp sd)) nf j ->
  hme hc1 hs1 = hme hc hs ++ nf -> kme kc1 ks1 = (kme kc ks + j)%nat ->
  hpe hc1 hs1 = hpe hc hs -> kpe kc1 ks1 = kpe kc ks ->
  drain_out p hc hs kc ks p1 hc1 hs1 kc1 ks1.
Proof.
  intros Hop G Hnd Ho G1 Hso Eh Ek Ehp Ekp.
  destruct (so_dropped _ _ _ _ _ _ _ _ _ _ _ _ _ _ _ Hso) as [D1 D2].
  destruct (so_told _ _ _ _ _ _ _ _ _ _ _ _ _ _ _ Hso) as [T1 T2].
  destruct (so_pe _ _ _ _ _ _ _ _ _ _ _ _ _ _ _ Hso) as [P1 _].
  constructor; auto.
  - destruct (e_told (ep p sd)) eqn:Et; [left; rewrite T1; reflexivity|].
    destruct Ho as [X|Ho]; [discriminate X|]. right.
    assert (Hnt : x_state (cx (ep p sd)) <> Terminated).
    { intros X. pose proof (GI_epi sd _ _ _ _ _ G) as Eme. apply (epi_term _ _ _ _ _ _ Eme) in X. congruence. }
    destruct Hop as [->| ->].
    + destruct Ho as [Ho|X]; [|discriminate X].
      apply (so_fair_read _ _ _ _ _ _ _ _ _ _ _ _ _ _ _ Hso (conj eq_refl eq_refl) eq_refl Ho Hnt).
    + apply (so_fair_flush _ _ _ _ _ _ _ _ _ _ _ _ _ _ _ Hso (conj eq_refl eq_refl) eq_refl).
  - exists nf. split; [exact Eh|]. split.
    + pose proof (so_acc _ _ _ _ _ _ _ _ _ _ _ _ _ _ _ Hso) as X. unfold fd. rewrite <- X.
      destruct Hop as [->| ->]; reflexivity.
    + pose proof (so_count _ _ _ _ _ _ _ _ _ _ _ _ _ _ _ Hso Hop) as X. rewrite Ek. lia.
  - rewrite Ek. lia.
  - intros X. rewrite T1, X. reflexivity.
  - exact (so_state _ _ _ _ _ _ _ _ _ _ _ _ _ _ _ Hso).
  - exact (so_inbox _ _ _ _ _ _ _ _ _ _ _ _ _ _ _ Hso).
Qed.

Lemma prun_repeat_S a n p :
  prun p (repeat a (S n)) = let '(i, p1) := Pair.pstep p a in let '(is, p2) := prun p1 (repeat a n) in (i :: is, p2).
Proof. reflexivity. Qed.

Lemma existsb_app_l {A} (f : A -> bool) a b : existsb f a = true -> existsb f (a ++ b) = true.
Proof. intros H. rewrite existsb_app, H. reflexivity. Qed.

Lemma all_consumed k (h : list frame) : (k <= length h)%nat -> skipn k h = [] -> firstn k h = h.
Proof. intros Hk H. apply skipn_nil_len in H. apply firstn_all2. lia. Qed.

(* a read that blocked although everything had been consumed: the final state of the phase *)
Lemma fin_of_block p hc hs kc ks p1 hc1 hs1 kc1 ks1 nf :
  GI p hc hs kc ks -> GI p1 hc1 hs1 kc1 ks1 -> e_dropped (ep p sd) = false ->
  e_told (ep p sd) = false -> outb (ep p sd) = [] ->
  step_out sd (ep p sd) (ep p (opp sd)) (hme hc hs) (hpe hc hs) (kme kc ks) OpRead [u64_max] accept_all [FlOk; FlOk]
           (ResMsg (RErr wb)) (ep p1 sd) (ep p1 (opp sd)) nf 0 ->
  hpe hc1 hs1 = hpe hc hs -> kme kc1 ks1 = (kme kc ks + 0)%nat ->
  skipn (kme kc ks) (hpe hc hs) = [] -> e_inbox (ep p1 sd) = [] ->
  Fin p1 hc1 hs1 kc1 ks1.
Proof.
  intros G G1 Hnd Hnt Ho Hso Ehp Ek Hrem Hin. right.
  pose proof (GI_epi sd _ _ _ _ _ G) as Eme. fold (hme hc hs) (hpe hc hs) (kme kc ks) in Eme.
  assert (Hns : x_state (cx (ep p sd)) <> Terminated).
  { intros X. apply (epi_term _ _ _ _ _ _ Eme) in X. congruence. }
  destruct (so_fair_read _ _ _ _ _ _ _ _ _ _ _ _ _ _ _ Hso (conj eq_refl eq_refl) eq_refl Ho Hns) as [_ [Ha [Hcc _]]].
  destruct (so_dropped _ _ _ _ _ _ _ _ _ _ _ _ _ _ _ Hso) as [_ D2].
  rewrite Ehp, Ek, Nat.add_0_r. splits; auto.
  intros Hcl Hor.
  (* everything consumed, the peer's Close included: the side is in a closing state *)
  pose proof (epi_crs _ _ _ _ _ _ Eme) as Hcrs.
  rewrite (all_consumed _ _ (epi_k _ _ _ _ _ _ Eme) Hrem), Hcl in Hcrs.
  destruct (crs_closed _ Hcrs) as [Hcd|Ht]; [|contradiction].
  destruct (so_block _ _ _ _ _ _ _ _ _ _ _ _ _ _ _ Hso eq_refl) as [_ [[Hs _]|[data [_ [Hdrop _]]]]].
  - specialize (Hcc Hs Hcd). discriminate Hcc.
  - destruct Hor as [Hs|Hd].
    + specialize (Hcc Hs Hcd). discriminate Hcc.
    + rewrite D2 in Hd. exact (Hdrop Hd Hin).
Qed.

Theorem drain n : forall p hc hs kc ks items p',
  GI p hc hs kc ks -> e_dropped (ep p sd) = false ->
  e_told (ep p sd) = true \/ outb (ep p sd) = [] ->
  prun p (repeat (fair_read sd) n) = (items, p') ->
  exists hc' hs' kc' ks',
    drain_out p hc hs kc ks p' hc' hs' kc' ks' /\
    ((Mq p hc hs kc ks < n)%nat -> outb (ep p (opp sd)) = [] -> Fin p' hc' hs' kc' ks') /\
    ((1 <= n)%nat -> forall f, x_additional (cx (ep p sd)) = Some f -> isclose f = true ->
                     existsb isclose (hme hc' hs') = true \/ e_told (ep p' sd) = true).
Proof.
  induction n as [|n IH]; intros p hc hs kc ks items p' G Hnd Ho H.
  - cbn in H. injection H as <- <-. exists hc, hs, kc, ks.
    split; [apply drain_out_refl; assumption|]. split; intros; lia.
  - rewrite prun_repeat_S in H.
    destruct (Pair.pstep p (fair_read sd)) as [it p1] eqn:E1.
    destruct (prun p1 (repeat (fair_read sd) n)) as [its p2] eqn:E2. injection H as <- <-.
    unfold fair_read in E1.
    destruct (fair_do_step OpRead [u64_max] _ _ _ _ _ _ _ I G Hnd E1)
      as [r [hc1 [hs1 [kc1 [ks1 [nf [j [Hit [G1 [Hso [Eh [Ek [Ehp Ekp]]]]]]]]]]]]].
    assert (Ho' : e_told (ep p sd) = true \/ outb (ep p sd) = [] \/ OpRead = OpFlush) by tauto.
    pose proof (step_drain_out OpRead [u64_max] _ _ _ _ _ _ _ _ _ _ _ _ _ (or_introl eq_refl) G Hnd Ho' G1 Hso Eh Ek Ehp Ekp) as D1.
    destruct (IH _ _ _ _ _ _ _ G1 (dr_nd _ _ _ _ _ _ _ _ _ _ D1) (dr_out _ _ _ _ _ _ _ _ _ _ D1) E2)
      as [hc2 [hs2 [kc2 [ks2 [D2 [F2 C2]]]]]].
    pose proof (drain_out_trans _ _ _ _ _ _ _ _ _ _ _ _ _ _ _ D1 D2) as D12.
    exists hc2, hs2, kc2, ks2. split; [exact D12|].
    pose proof (GI_epi sd _ _ _ _ _ G) as Eme. fold (hme hc hs) (hpe hc hs) (kme kc ks) in Eme.
    pose proof (GI_epi sd _ _ _ _ _ G1) as Eme1. fold (hme hc1 hs1) (hpe hc1 hs1) (kme kc1 ks1) in Eme1.
    destruct (so_told _ _ _ _ _ _ _ _ _ _ _ _ _ _ _ Hso) as [T1 _].
    destruct (so_pe _ _ _ _ _ _ _ _ _ _ _ _ _ _ _ Hso) as [P1 _].
    destruct (e_told (ep p sd)) eqn:Et.
    { (* told already: it stays told *)
      assert (Ht2 : e_told (ep p2 sd) = true) by (apply (dr_told _ _ _ _ _ _ _ _ _ _ D12); exact Et).
      split; [intros _ _; left; exact Ht2|]. intros _ f _ _. right. exact Ht2. }
    destruct Ho as [X|Ho]; [discriminate X|].
    assert (Hns : x_state (cx (ep p sd)) <> Terminated).
    { intros X. apply (epi_term _ _ _ _ _ _ Eme) in X. congruence. }
    destruct (so_fair_read _ _ _ _ _ _ _ _ _ _ _ _ _ _ _ Hso (conj eq_refl eq_refl) eq_refl Ho Hns) as [Ho1 [Ha1 [Hcc1 Hq1]]].
    split.
    + (* everything is consumed within n+1 reads *)
      intros HM Hope.
      assert (Hope1 : outb (ep p1 (opp sd)) = []) by (unfold outb; rewrite P1; exact Hope).
      assert (Hfin1 : (Mq p1 hc1 hs1 kc1 ks1 < n)%nat \/ (Fin p1 hc1 hs1 kc1 ks1 /\ Mq p1 hc1 hs1 kc1 ks1 = 0%nat) \/
                      e_told (ep p1 sd) = true).
      { unfold Mq in *. rewrite Ehp, Ek.
        pose proof (so_inbox _ _ _ _ _ _ _ _ _ _ _ _ _ _ _ Hso) as Hin.
        destruct (so_read _ _ _ _ _ _ _ _ _ _ _ _ _ _ _ Hso eq_refl) as [[m [Hr Hj]]|[Hj [Hr|[Hr|[Hr Hs]]]]].
        - (* a frame was consumed *)
          left. subst j. pose proof (epi_k _ _ _ _ _ _ Eme1) as Hk1. rewrite Ehp, Ek in Hk1.
          rewrite skipn_length in *. lia.
        - (* blocked *)
          subst j r. rewrite Nat.add_0_r.
          destruct (so_block _ _ _ _ _ _ _ _ _ _ _ _ _ _ _ Hso eq_refl) as [_ [[Hs Hcd]|[data [Hch [Hdrop Hst]]]]].
          { specialize (Hcc1 Hs Hcd). discriminate Hcc1. }
          rewrite Hope, app_nil_r in Hst.
          destruct (chunks_all _ _ _ Hch) as [[Hi0 Hi1]|Hlt]; [|left; lia].
          destruct Hst as [Hrem|X]; [|contradiction].
          right. left. split.
          + exact (fin_of_block p hc hs kc ks p1 hc1 hs1 kc1 ks1 nf G G1 Hnd Et Ho Hso Ehp Ek Hrem Hi1).
          + rewrite Hrem, Hi1. reflexivity.
        - right. right. rewrite T1, Hr. apply Bool.orb_true_r.
        - contradiction. }
      destruct Hfin1 as [Hlt|[[Hf Hz]|Ht1]].
      * apply F2; assumption.
      * destruct n as [|n'].
        -- cbn in E2. injection E2 as <- <-.
           pose proof (dr_hp _ _ _ _ _ _ _ _ _ _ D2) as [X1 X2].
           (* no read after the first one: p2 = p1 *)
           assert (hc2 = hc1 /\ hs2 = hs1 /\ kc2 = kc1 /\ ks2 = ks1 -> Fin p1 hc2 hs2 kc2 ks2) by (intros [-> [-> [-> ->]]]; exact Hf).
           (* the ghosts of the empty run are not forced to be equal: use Fin's own data *)
           destruct Hf as [Hf|[Hr [Ha Hc]]]; [left; exact Hf|].
           right. destruct (dr_h _ _ _ _ _ _ _ _ _ _ D2) as [nf2 [Eh2 [_ Hcnt]]].
           pose proof (dr_k _ _ _ _ _ _ _ _ _ _ D2) as Hk2.
           pose proof (GI_epi sd _ _ _ _ _ (dr_gi _ _ _ _ _ _ _ _ _ _ D2)) as Eme2.
           fold (hme hc2 hs2) (hpe hc2 hs2) (kme kc2 ks2) in Eme2.
           pose proof (epi_k _ _ _ _ _ _ Eme2) as Hk2'. rewrite X1 in *.
           apply skipn_nil_len in Hr. splits; auto.
           ++ apply skipn_all2. lia.
        -- apply F2; [lia|exact Hope1].
      * left. apply (dr_told _ _ _ _ _ _ _ _ _ _ D2). exact Ht1.
    + (* a parked Close goes out with the first read *)
      intros _ f Hf Hcl. destruct (Hq1 f Hf) as [f1 [rest [Enf Hc1]]].
      left. destruct (dr_h _ _ _ _ _ _ _ _ _ _ D2) as [nf2 [Eh2 _]].
      rewrite Eh2, Eh, Enf. apply existsb_app_l. rewrite existsb_app. cbn [existsb].
      rewrite Hc1, Hcl. rewrite Bool.orb_true_r. reflexivity.
Qed.

(* ------------------------------------------------------------------------------------------ *)
(** * 4. the drop at the end of a phase; the phase of one side *)

Lemma pdrop_inv p hc hs kc ks it p' :
  GI p hc hs kc ks -> Pair.pstep p (PDrop sd) = (it, p') -> GI p' hc hs kc ks.
Proof.
  intros G H. destruct sd; cbn [Pair.pstep] in H.
  - destruct (e_told (p_server p)) eqn:Et; injection H as <- <-; [|exact G].
    constructor; cbn [p_client p_server e_told e_dropped]; auto.
    + eapply EPI_ext; [exact (gi_c _ _ _ _ _ G)|..]; auto.
    + eapply EPI_ext; [exact (gi_s _ _ _ _ _ G)|..]; auto. cbn. intros X. discriminate X.
    + intros _. exact (gi_ts _ _ _ _ _ G Et).
    + exact (gi_dc _ _ _ _ _ G).
  - destruct (e_told (p_client p)) eqn:Et; injection H as <- <-; [|exact G].
    constructor; cbn [p_client p_server e_told e_dropped]; auto.
    + eapply EPI_ext; [exact (gi_c _ _ _ _ _ G)|..]; auto. cbn. intros X. discriminate X.
    + eapply EPI_ext; [exact (gi_s _ _ _ _ _ G)|..]; auto.
    + exact (gi_ds _ _ _ _ _ G).
    + exact (gi_ts _ _ _ _ _ G).
    + intros _. exact (gi_tc _ _ _ _ _ G Et).
Qed.

(* a parked frame of a side that is past Active is its Close *)
Lemma pend_close p hc hs kc ks :
  GI p hc hs kc ks -> x_state (cx (ep p sd)) <> Active ->
  e_told (ep p sd) = true \/ existsb isclose (hme hc hs) = true \/
  exists f, x_additional (cx (ep p sd)) = Some f /\ isclose f = true.
Proof.
  intros G Hna. pose proof (GI_epi sd _ _ _ _ _ G) as Eme. fold (hme hc hs) (hpe hc hs) (kme kc ks) in Eme.
  pose proof (epi_qp _ _ _ _ _ _ Eme) as HQ.
  assert (HP : Pend (x_additional (cx (ep p sd))) (hme hc hs) ->
               existsb isclose (hme hc hs) = true \/ exists f, x_additional (cx (ep p sd)) = Some f /\ isclose f = true).
  { unfold Pend. destruct (x_additional (cx (ep p sd))) as [f|].
    - intros [Hc _]. right. exists f. split; [reflexivity|]. apply isclose_opc. exact Hc.
    - intros He. left. apply endclose_existsb. exact He. }
  destruct (x_state (cx (ep p sd))) eqn:Es; cbn in HQ; try (right; apply HP; exact HQ).
  - contradiction.
  - left. apply (epi_term _ _ _ _ _ _ Eme). exact Es.
Qed.

Record side_out (p : pair) (hc hs : list frame) (kc ks : nat) (p' : pair) (hc' hs' : list frame) (kc' ks' : nat)
  : Prop := mkSideOut {
  sdo_gi : GI p' hc' hs' kc' ks';
  sdo_pe : e_ctx (ep p' (opp sd)) = e_ctx (ep p (opp sd)) /\
           e_dropped (ep p' (opp sd)) = e_dropped (ep p (opp sd)) /\
           e_told (ep p' (opp sd)) = e_told (ep p (opp sd));
  sdo_hp : hpe hc' hs' = hpe hc hs /\ kpe kc' ks' = kpe kc ks;
  sdo_h : exists nf, hme hc' hs' = hme hc hs ++ nf /\ fd nf = [] /\
            (length nf <= 1 + (kme kc' ks' - kme kc ks))%nat;
  sdo_k : (kme kc ks <= kme kc' ks')%nat;
  sdo_told : e_told (ep p sd) = true -> e_told (ep p' sd) = true;
  sdo_dropped : e_dropped (ep p sd) = true -> e_dropped (ep p' sd) = true;
  sdo_act : x_state (cx (ep p sd)) <> Active -> x_state (cx (ep p' sd)) <> Active;
  sdo_drop : e_told (ep p' sd) = true -> e_dropped (ep p' sd) = true;
  sdo_out : e_told (ep p' sd) = true \/ outb (ep p' sd) = [];
  sdo_fin : (Mq p hc hs kc ks < nr)%nat -> outb (ep p (opp sd)) = [] -> Fin p' hc' hs' kc' ks';
  sdo_close : (1 <= nr)%nat -> x_state (cx (ep p sd)) <> Active ->
              e_told (ep p' sd) = true \/ existsb isclose (hme hc' hs') = true }.

Lemma bsome_le1 a : (bsome a <= 1)%nat.
Proof. destruct a; cbn; lia. Qed.

Lemma prun_skipped m : forall p items p',
  e_dropped (ep p sd) = true -> prun p (repeat (fair_read sd) m) = (items, p') -> p' = p.
Proof.
  induction m as [|m IH]; intros p items p' Hd H.
  - cbn in H. injection H as _ <-. reflexivity.
  - rewrite prun_repeat_S in H. destruct (Pair.pstep p (fair_read sd)) as [it p1] eqn:E1.
    destruct (prun p1 (repeat (fair_read sd) m)) as [its p2] eqn:E2. injection H as _ <-.
    unfold fair_read in E1. destruct (pstep_do _ _ _ _ _ _ _ _ E1) as [[_ [_ ->]]|[X _]]; [|congruence].
    eapply IH; eassumption.
Qed.

Lemma Fin_ext p hc hs kc ks p' :
  Fin p hc hs kc ks ->
  e_told (ep p' sd) = e_told (ep p sd) -> e_ctx (ep p' sd) = e_ctx (ep p sd) ->
  e_dropped (ep p' (opp sd)) = e_dropped (ep p (opp sd)) ->
  Fin p' hc hs kc ks.
Proof. unfold Fin, cx. intros H -> -> ->. exact H. Qed.

Theorem side_phase p hc hs kc ks items p' :
  GI p hc hs kc ks -> prun p (fair_side sd nr) = (items, p') ->
  exists hc' hs' kc' ks', side_out p hc hs kc ks p' hc' hs' kc' ks'.
Proof.
  intros G H. unfold fair_side in H. rewrite prun_cons in H.
  destruct (Pair.pstep p (fair_flush sd)) as [it1 p1] eqn:E1.
  rewrite prun_app in H.
  destruct (prun p1 (repeat (fair_read sd) nr)) as [its2 p2] eqn:E2.
  cbn [prun] in H. destruct (Pair.pstep p2 (PDrop sd)) as [it3 p3] eqn:E3.
  injection H as _ <-.
  destruct (pstep_drop _ _ _ _ E3) as [Q1 [Q2 [Q3 [Q4 [Q5 [Q6 [Q7 _]]]]]]].
  destruct (e_dropped (ep p sd)) eqn:Ed.
  - (* a side that has dropped the transport does nothing *)
    unfold fair_flush in E1. destruct (pstep_do _ _ _ _ _ _ _ _ E1) as [[_ [_ ->]]|[X _]]; [|congruence].
    pose proof (prun_skipped _ _ _ _ Ed E2) as ->.
    pose proof (pdrop_inv _ _ _ _ _ _ _ G E3) as G3.
    assert (Ht : e_told (ep p sd) = true).
    { destruct sd; [exact (gi_ds _ _ _ _ _ G Ed)|exact (gi_dc _ _ _ _ _ G Ed)]. }
    exists hc, hs, kc, ks. constructor; auto.
    + exists []. rewrite app_nil_r. splits; auto. cbn. lia.
    + rewrite Q4. auto.
    + rewrite Q7, Ed. auto.
    + unfold cx. rewrite Q1. auto.
    + rewrite Q7, Ed. auto.
    + left. rewrite Q4. exact Ht.
    + intros _ _. left. rewrite Q4. exact Ht.
    + intros _ _. left. rewrite Q4. exact Ht.
  - unfold fair_flush in E1.
    destruct (fair_do_step OpFlush [] _ _ _ _ _ _ _ I G Ed E1)
      as [r [hc1 [hs1 [kc1 [ks1 [nf [j [Hit [G1 [Hso [Eh [Ek [Ehp Ekp]]]]]]]]]]]]].
    assert (Ho' : e_told (ep p sd) = true \/ outb (ep p sd) = [] \/ OpFlush = OpFlush) by auto.
    pose proof (step_drain_out OpFlush [] _ _ _ _ _ _ _ _ _ _ _ _ _ (or_intror eq_refl) G Ed Ho' G1 Hso Eh Ek Ehp Ekp) as D1.
    destruct (drain nr _ _ _ _ _ _ _ G1 (dr_nd _ _ _ _ _ _ _ _ _ _ D1) (dr_out _ _ _ _ _ _ _ _ _ _ D1) E2)
      as [hc2 [hs2 [kc2 [ks2 [D2 [F2 C2]]]]]].
    pose proof (drain_out_trans _ _ _ _ _ _ _ _ _ _ _ _ _ _ _ D1 D2) as D12.
    pose proof (pdrop_inv _ _ _ _ _ _ _ (dr_gi _ _ _ _ _ _ _ _ _ _ D12) E3) as G3.
    destruct (dr_pe _ _ _ _ _ _ _ _ _ _ D12) as [A1 [A2 A3]].
    destruct (dr_h _ _ _ _ _ _ _ _ _ _ D12) as [nf12 [A6 [A7 A8]]].
    exists hc2, hs2, kc2, ks2. constructor; auto.
    + splits; congruence.
    + exact (dr_hp _ _ _ _ _ _ _ _ _ _ D12).
    + exists nf12. splits; auto.
      pose proof (bsome_le1 (x_additional (cx (ep p sd)))) as Hb. clear - A8 Hb. lia.
    + exact (dr_k _ _ _ _ _ _ _ _ _ _ D12).
    + intros X. rewrite Q4. exact (dr_told _ _ _ _ _ _ _ _ _ _ D12 X).
    + intros X. rewrite Ed in X. discriminate X.
    + unfold cx. rewrite Q1. exact (dr_act _ _ _ _ _ _ _ _ _ _ D12).
    + rewrite Q4, Q7. intros ->. apply Bool.orb_true_r.
    + unfold outb. rewrite Q4, Q1. exact (dr_out _ _ _ _ _ _ _ _ _ _ D12).
    + intros HM Hope.
      assert (Hm1 : (Mq p1 hc1 hs1 kc1 ks1 <= Mq p hc hs kc ks)%nat).
      { unfold Mq. rewrite Ehp, Ek, skipn_add.
        pose proof (dr_inbox _ _ _ _ _ _ _ _ _ _ D1) as Hi.
        pose proof (skipn_length j (skipn (kme kc ks) (hpe hc hs))) as Hl.
        clear - Hi Hl. lia. }
      destruct (dr_pe _ _ _ _ _ _ _ _ _ _ D1) as [B1 _].
      assert (Hope1 : outb (ep p1 (opp sd)) = []) by (unfold outb; rewrite B1; exact Hope).
      apply (Fin_ext p2); auto. apply F2; [clear - HM Hm1; lia|exact Hope1].
    + intros Hn Hna. rewrite Q4.
      destruct (pend_close _ _ _ _ _ G1 (dr_act _ _ _ _ _ _ _ _ _ _ D1 Hna)) as [Ht|[Hc|[f [Hf Hcl]]]].
      * left. exact (dr_told _ _ _ _ _ _ _ _ _ _ D2 Ht).
      * right. destruct (dr_h _ _ _ _ _ _ _ _ _ _ D2) as [nf2 [E6 _]]. rewrite E6. apply existsb_app_l. exact Hc.
      * destruct (C2 Hn f Hf Hcl) as [X|X]; auto.
Qed.

End Side.

(* ------------------------------------------------------------------------------------------ *)
(** * 5. how much is in flight *)

(* weight of a list of frames still to be read: their number plus their encoded size *)
Definition W (l : list frame) : nat := (length l + length (enc l))%nat.

Lemma W_app a b : W (a ++ b) = (W a + W b)%nat.
Proof. unfold W. rewrite enc_app, !app_length. lia. Qed.

Lemma W_skipn k l : (W (skipn k l) <= W l)%nat.
Proof. rewrite <- (firstn_skipn k l) at 2. rewrite W_app. lia. Qed.

Lemma W_len l : (length l <= W l)%nat.
Proof. unfold W. lia. Qed.

Lemma ctl_frame_small f : okc f -> fdata f = [] -> (length (frame_format f) <= 139)%nat.
Proof.
  intros [_ [_ [_ [_ [_ Ho]]]]] Hd.
  pose proof (frame_len_exact f) as E. unfold frame_len in E.
  pose proof (header_len_bounds (f_hdr f) (blen (f_payload f))) as Hb.
  assert (Hp : blen (f_payload f) <= 125).
  { unfold fdata in Hd. destruct (h_opcode (f_hdr f)) as [[| | |i]|[| | |i]]; try discriminate Hd; try contradiction; lia. }
  unfold blen in *. lia.
Qed.

Lemma W_small nf : Forall okc nf -> fd nf = [] -> (W nf <= 140 * length nf)%nat.
Proof.
  induction 1 as [|f nf Hf _ IH]; intros Hd; [cbn; lia|].
  unfold fd in Hd. cbn [map concat] in Hd. apply app_eq_nil in Hd. destruct Hd as [Hd1 Hd2].
  change (f :: nf) with ([f] ++ nf). rewrite W_app. specialize (IH Hd2).
  pose proof (ctl_frame_small f Hf Hd1). unfold W at 1. rewrite enc_cons, enc_nil, app_nil_r, app_length.
  cbn [length]. lia.
Qed.

Lemma codec_at_len c fut rem : codec_at c fut rem -> (length fut <= length (enc rem))%nat.
Proof.
  unfold codec_at. destruct (c_hdr c) as [[h len]|].
  - intros [f [rem' [-> [_ [_ He]]]]]. rewrite enc_cons, frame_format_wp, !app_length.
    assert (X : (length (c_in c) + length fut = length (wpayload f) + length (enc rem'))%nat).
    { rewrite <- !app_length, He. reflexivity. }
    lia.
  - intros He. rewrite <- He, app_length. lia.
Qed.

Lemma Mq_le_W sd p hc hs kc ks :
  GI p hc hs kc ks -> e_dropped (ep p sd) = false ->
  (Mq sd p hc hs kc ks <= W (skipn (kme sd kc ks) (hpe sd hc hs)))%nat.
Proof.
  intros G Hnd. pose proof (GI_epi sd _ _ _ _ _ G) as Eme.
  pose proof (codec_at_len _ _ _ (epi_at _ _ _ _ _ _ Eme Hnd)) as H. rewrite app_length in H.
  unfold Mq, W, hpe, kme. lia.
Qed.

(* ------------------------------------------------------------------------------------------ *)
(** * 6. two fair rounds complete the handshake *)

Definition both_closed (p : pair) : Prop :=
  e_told (p_client p) = true /\ e_dropped (p_client p) = true /\
  e_told (p_server p) = true /\ e_dropped (p_server p) = true.

(* the handshake has started: some side has called close, or has received the peer's Close *)
Definition closing (p : pair) : Prop :=
  x_state (e_ctx (p_client p)) <> Active \/ x_state (e_ctx (p_server p)) <> Active.

Definition bound0 (hc hs : list frame) (kc ks : nat) : nat :=
  let wc := W (skipn kc hs) in let ws := W (skipn ks hc) in
  let a1 := (wc + 140 * (1 + ws))%nat in
  let b2 := (ws + 140 * (1 + a1))%nat in
  let a3 := (a1 + 140 * (1 + b2))%nat in
  (2 + ws + a1 + b2 + a3)%nat.

Lemma client_told_done p hc hs kc ks :
  GI p hc hs kc ks -> e_told (p_client p) = true -> e_dropped (p_client p) = true -> both_closed p.
Proof.
  intros G Ht Hd. pose proof (gi_tc _ _ _ _ _ G Ht) as Hds. pose proof (gi_ds _ _ _ _ _ G Hds) as Hts.
  unfold both_closed. auto.
Qed.

Theorem two_rounds_gi p hc hs kc ks n items p' :
  GI p hc hs kc ks -> closing p -> (bound0 hc hs kc ks <= n)%nat ->
  prun p (fair_round n ++ fair_round n) = (items, p') -> both_closed p'.
Proof.
  intros G Hcl Hn H. unfold fair_round in H. rewrite prun_app in H.
  destruct (prun p (fair_side Server n ++ fair_side Client n)) as [i12 pb] eqn:E12.
  destruct (prun pb (fair_side Server n ++ fair_side Client n)) as [i34 pd] eqn:E34.
  injection H as _ <-.
  rewrite prun_app in E12, E34.
  destruct (prun p (fair_side Server n)) as [i1 pa] eqn:E1.
  destruct (prun pa (fair_side Client n)) as [i2 pb'] eqn:E2. injection E12 as _ ->.
  destruct (prun pb (fair_side Server n)) as [i3 pc] eqn:E3.
  destruct (prun pc (fair_side Client n)) as [i4 pd'] eqn:E4. injection E34 as _ ->.
  destruct (side_phase Server n _ _ _ _ _ _ _ G E1) as [hca [hsa [kca [ksa S1]]]].
  pose proof (sdo_gi _ _ _ _ _ _ _ _ _ _ _ _ S1) as Ga.
  destruct (side_phase Client n _ _ _ _ _ _ _ Ga E2) as [hcb [hsb [kcb [ksb C1]]]].
  pose proof (sdo_gi _ _ _ _ _ _ _ _ _ _ _ _ C1) as Gb.
  destruct (side_phase Server n _ _ _ _ _ _ _ Gb E3) as [hcc [hsc [kcc [ksc S2]]]].
  pose proof (sdo_gi _ _ _ _ _ _ _ _ _ _ _ _ S2) as Gc.
  destruct (side_phase Client n _ _ _ _ _ _ _ Gc E4) as [hcd [hsd [kcd [ksd C2]]]].
  pose proof (sdo_gi _ _ _ _ _ _ _ _ _ _ _ _ C2) as Gd.
  (* unfold the role-indexed names *)
  destruct (sdo_pe _ _ _ _ _ _ _ _ _ _ _ _ S1) as [S1c [S1d S1t]]. destruct (sdo_hp _ _ _ _ _ _ _ _ _ _ _ _ S1) as [S1h S1k].
  destruct (sdo_pe _ _ _ _ _ _ _ _ _ _ _ _ C1) as [C1c [C1d C1t]]. destruct (sdo_hp _ _ _ _ _ _ _ _ _ _ _ _ C1) as [C1h C1k].
  destruct (sdo_pe _ _ _ _ _ _ _ _ _ _ _ _ S2) as [S2c [S2d S2t]]. destruct (sdo_hp _ _ _ _ _ _ _ _ _ _ _ _ S2) as [S2h S2k].
  destruct (sdo_pe _ _ _ _ _ _ _ _ _ _ _ _ C2) as [C2c [C2d C2t]]. destruct (sdo_hp _ _ _ _ _ _ _ _ _ _ _ _ C2) as [C2h C2k].
  destruct (sdo_h _ _ _ _ _ _ _ _ _ _ _ _ S1) as [nS1 [S1e [S1f S1l]]].
  destruct (sdo_h _ _ _ _ _ _ _ _ _ _ _ _ C1) as [nC1 [C1e [C1f C1l]]].
  destruct (sdo_h _ _ _ _ _ _ _ _ _ _ _ _ S2) as [nS2 [S2e [S2f S2l]]].
  pose proof (sdo_k _ _ _ _ _ _ _ _ _ _ _ _ S1) as S1kk. pose proof (sdo_k _ _ _ _ _ _ _ _ _ _ _ _ C1) as C1kk.
  pose proof (sdo_k _ _ _ _ _ _ _ _ _ _ _ _ S2) as S2kk.
  cbn [hme hpe kme kpe hof kof opp ep] in *.
  subst hca kca hsb ksb hcc kcc hsd ksd.
  (* weights *)
  set (wc := W (skipn kc hs)) in *. set (ws := W (skipn ks hc)) in *.
  assert (Hks_a : (ksa <= length hc)%nat) by exact (epi_k _ _ _ _ _ _ (gi_s _ _ _ _ _ Ga)).
  assert (Hkc_b : (kcb <= length hsa)%nat) by exact (epi_k _ _ _ _ _ _ (gi_c _ _ _ _ _ Gb)).
  assert (Hks_c : (ksc <= length hcb)%nat) by exact (epi_k _ _ _ _ _ _ (gi_s _ _ _ _ _ Gc)).
  assert (Hkc : (kc <= length hs)%nat) by exact (epi_k _ _ _ _ _ _ (gi_c _ _ _ _ _ G)).
  assert (Hks : (ks <= length hc)%nat) by exact (epi_k _ _ _ _ _ _ (gi_s _ _ _ _ _ G)).
  assert (LS0 : (length (skipn ks hc) <= ws)%nat) by apply W_len.
  assert (HnS1 : (W nS1 <= 140 * length nS1)%nat).
  { apply W_small; [|exact S1f]. pose proof (proj1 (epi_frames _ _ _ _ _ _ (gi_s _ _ _ _ _ Ga))) as X.
    rewrite S1e in X. apply Forall_app in X. tauto. }
  assert (HnC1 : (W nC1 <= 140 * length nC1)%nat).
  { apply W_small; [|exact C1f]. pose proof (proj1 (epi_frames _ _ _ _ _ _ (gi_c _ _ _ _ _ Gb))) as X.
    rewrite C1e in X. apply Forall_app in X. tauto. }
  assert (HnS2 : (W nS2 <= 140 * length nS2)%nat).
  { apply W_small; [|exact S2f]. pose proof (proj1 (epi_frames _ _ _ _ _ _ (gi_s _ _ _ _ _ Gc))) as X.
    rewrite S2e in X. apply Forall_app in X. tauto. }
  assert (LnS1 : (length nS1 <= 1 + ws)%nat).
  { pose proof (skipn_length ks hc) as X. clear - X S1l LS0 Hks_a S1kk. lia. }
  set (a1 := (wc + 140 * (1 + ws))%nat).
  assert (WCa : (W (skipn kc hsa) <= a1)%nat).
  { rewrite S1e, skipn_app_le, W_app by exact Hkc. fold wc. unfold a1. clear - HnS1 LnS1. lia. }
  assert (LnC1 : (length nC1 <= 1 + a1)%nat).
  { pose proof (skipn_length kc hsa) as X. pose proof (W_len (skipn kc hsa)) as Y.
    clear - X Y C1l WCa Hkc_b C1kk. lia. }
  set (b2 := (ws + 140 * (1 + a1))%nat).
  assert (WSb : (W (skipn ksa hcb) <= b2)%nat).
  { rewrite C1e, skipn_app_le, W_app by exact Hks_a.
    pose proof (W_skipn (ksa - ks) (skipn ks hc)) as X. rewrite <- skipn_add in X.
    replace (ks + (ksa - ks))%nat with ksa in X by (clear - S1kk; lia). fold ws in X. unfold b2.
    clear - X HnC1 LnC1. lia. }
  assert (LnS2 : (length nS2 <= 1 + b2)%nat).
  { pose proof (skipn_length ksa hcb) as X. pose proof (W_len (skipn ksa hcb)) as Y.
    clear - X Y S2l WSb Hks_c S2kk. lia. }
  set (a3 := (a1 + 140 * (1 + b2))%nat).
  assert (WCc : (W (skipn kcb hsc) <= a3)%nat).
  { rewrite S2e, skipn_app_le, W_app by exact Hkc_b.
    pose proof (W_skipn (kcb - kc) (skipn kc hsa)) as X. rewrite <- skipn_add in X.
    replace (kc + (kcb - kc))%nat with kcb in X by (clear - C1kk; lia). unfold a3.
    clear - X WCa HnS2 LnS2. lia. }
  assert (Hn' : (2 + ws + a1 + b2 + a3 <= n)%nat) by exact Hn.
  assert (Hn1 : (1 <= n)%nat) by (clear - Hn'; lia).
  (* monotonicity of the final flags *)
  assert (Hfinish : forall q, (q = pb \/ q = pc \/ q = pd) ->
            e_told (p_client q) = true -> e_dropped (p_client q) = true -> both_closed pd).
  { intros q Hq Ht Hd.
    assert (Htd : e_told (p_client pd) = true /\ e_dropped (p_client pd) = true).
    { destruct Hq as [->|[->| ->]]; auto.
      - split.
        + apply (sdo_told _ _ _ _ _ _ _ _ _ _ _ _ C2). cbn [ep]. rewrite S2t. exact Ht.
        + apply (sdo_dropped _ _ _ _ _ _ _ _ _ _ _ _ C2). cbn [ep]. rewrite S2d. exact Hd.
      - split.
        + apply (sdo_told _ _ _ _ _ _ _ _ _ _ _ _ C2). exact Ht.
        + apply (sdo_dropped _ _ _ _ _ _ _ _ _ _ _ _ C2). exact Hd. }
    eapply client_told_done; [exact Gd|tauto|tauto]. }
  (* after the server's first phase its out_buffer is empty *)
  assert (Osa : outb (p_server pa) = []).
  { destruct (sdo_out _ _ _ _ _ _ _ _ _ _ _ _ S1) as [X|X]; [|exact X]. apply (gi_ts _ _ _ _ _ Ga X). }
  assert (Osb : outb (p_server pb) = []) by (unfold outb in *; rewrite C1c; exact Osa).
  (* the client's first phase *)
  destruct (e_told (p_client pb)) eqn:Etb.
  { apply (Hfinish pb); auto. apply (sdo_drop _ _ _ _ _ _ _ _ _ _ _ _ C1). exact Etb. }
  assert (Ndb : e_dropped (p_client pb) = false).
  { destruct (e_dropped (p_client pb)) eqn:X; [|reflexivity]. rewrite (gi_dc _ _ _ _ _ Gb X) in Etb. discriminate Etb. }
  assert (Nda : e_dropped (p_client pa) = false).
  { destruct (e_dropped (p_client pa)) eqn:X; [|reflexivity].
    pose proof (sdo_dropped _ _ _ _ _ _ _ _ _ _ _ _ C1 X) as Y. cbn [ep] in Y. congruence. }
  assert (FCb : Fin Client pb hcb hsa kcb ksa).
  { apply (sdo_fin _ _ _ _ _ _ _ _ _ _ _ _ C1); [|exact Osa].
    pose proof (Mq_le_W Client _ _ _ _ _ Ga Nda) as X. cbn [kme hpe hof kof opp] in X.
    clear - X WCa Hn'. lia. }
  destruct FCb as [X|[FC1 [FC2 FC3]]]; [cbn [ep] in X; congruence|]. cbn [kme hpe hof kof opp ep] in FC1, FC2, FC3.
  (* the client's Close is queued *)
  assert (Hcc : existsb isclose hcb = true).
  { assert (Hna : x_state (cx (p_client pb)) <> Active).
    { destruct Hcl as [Hc|Hs].
      - apply (sdo_act _ _ _ _ _ _ _ _ _ _ _ _ C1). unfold cx. cbn [ep]. rewrite S1c. exact Hc.
      - (* the server's Close has been consumed by the client *)
        assert (Hsc : existsb isclose hsa = true).
        { destruct (sdo_close _ _ _ _ _ _ _ _ _ _ _ _ S1) as [X|X]; [exact Hn1|exact Hs| |exact X].
          eapply gi_server_close; [exact Ga|exact X]. }
        pose proof (epi_crs _ _ _ _ _ _ (gi_c _ _ _ _ _ Gb)) as Hcrs.
        rewrite (all_consumed _ _ Hkc_b FC1), Hsc in Hcrs.
        intros E. rewrite E in Hcrs. discriminate Hcrs. }
    destruct (pend_close Client _ _ _ _ _ Gb Hna) as [X|[X|[f [X _]]]]; cbn [ep hme hof] in *; try congruence. }
  assert (Ocb : outb (p_client pb) = []).
  { destruct (sdo_out _ _ _ _ _ _ _ _ _ _ _ _ C1) as [X|X]; cbn [ep] in X; [congruence|exact X]. }
  (* the server's second phase: it is told and drops *)
  assert (Tsc : e_told (p_server pc) = true).
  { destruct (e_told (p_server pb)) eqn:Ets.
    - apply (sdo_told _ _ _ _ _ _ _ _ _ _ _ _ S2). exact Ets.
    - assert (Nds : e_dropped (p_server pb) = false).
      { destruct (e_dropped (p_server pb)) eqn:X; [|reflexivity]. rewrite (gi_ds _ _ _ _ _ Gb X) in Ets. discriminate Ets. }
      assert (FS : Fin Server pc hcb hsc kcb ksc).
      { apply (sdo_fin _ _ _ _ _ _ _ _ _ _ _ _ S2); [|exact Ocb].
        pose proof (Mq_le_W Server _ _ _ _ _ Gb Nds) as X. cbn [kme hpe hof kof opp] in X.
        clear - X WSb Hn'. lia. }
      destruct FS as [X|[_ [_ FS3]]]; [exact X|]. exfalso. cbn [hpe hof opp] in FS3. apply FS3; auto. }
  assert (Dsc : e_dropped (p_server pc) = true) by (apply (sdo_drop _ _ _ _ _ _ _ _ _ _ _ _ S2); exact Tsc).
  (* the client's second phase *)
  destruct (e_told (p_client pc)) eqn:Etc.
  { apply (Hfinish pc); auto. cbn [ep] in S2d. rewrite S2d.
    destruct (e_dropped (p_client pb)) eqn:X; [reflexivity|].
    (* told but not dropped cannot be: the client was not told at pb *) congruence. }
  assert (Ndc : e_dropped (p_client pc) = false).
  { destruct (e_dropped (p_client pc)) eqn:X; [|reflexivity]. rewrite (gi_dc _ _ _ _ _ Gc X) in Etc. discriminate Etc. }
  assert (Osc : outb (p_server pc) = []) by (apply (gi_ts _ _ _ _ _ Gc Tsc)).
  assert (Hsc : existsb isclose hsc = true) by (eapply gi_server_close; [exact Gc|exact Tsc]).
  assert (FCd : Fin Client pd hcd hsc kcd ksc).
  { apply (sdo_fin _ _ _ _ _ _ _ _ _ _ _ _ C2); [|exact Osc].
    pose proof (Mq_le_W Client _ _ _ _ _ Gc Ndc) as X. cbn [kme hpe hof kof opp] in X.
    clear - X WCc Hn'. lia. }
  destruct FCd as [X|[_ [_ FC3']]].
  - apply (Hfinish pd); auto. apply (sdo_drop _ _ _ _ _ _ _ _ _ _ _ _ C2). exact X.
  - exfalso. cbn [hpe hof opp ep] in FC3'. apply FC3'; auto. right. rewrite C2d. exact Dsc.
Qed.

(* ------------------------------------------------------------------------------------------ *)
(** * 7. from every reachable state *)

(* a reachable run can be continued by any admissible schedule *)
Lemma reach_extend cfg_c cfg_s keys acts items p acts2 items2 p2 :
  reach cfg_c cfg_s keys acts items p -> Forall act_ok acts2 -> prun p acts2 = (items2, p2) ->
  reach cfg_c cfg_s keys (acts ++ acts2) (items ++ items2) p2.
Proof.
  intros [Hc [Hs [Hok [p0 [Hi Hr]]]]] Hok2 H2. unfold reach. splits; auto.
  - apply Forall_app. split; assumption.
  - exists p0. split; [exact Hi|]. rewrite prun_app, Hr, H2. reflexivity.
Qed.

Lemma reach_GI cfg_c cfg_s keys acts items p :
  reach cfg_c cfg_s keys acts items p -> exists hc hs kc ks, GI p hc hs kc ks.
Proof.
  intros H. destruct (reach_inv _ _ _ _ _ _ H) as [p0 [hc [hs [kc [ks [R _]]]]]].
  exists hc, hs, kc, ks. exact (ro_gi _ _ _ _ _ _ _ _ _ _ _ R).
Qed.

(* Liveness, canonical fair rounds: from EVERY reachable state in which the handshake has started,
   two fair rounds complete it, whatever the number n of reads per side and round above a bound n0
   that depends only on the state. *)
Theorem liveness_rounds cfg_c cfg_s keys acts items p :
  reach cfg_c cfg_s keys acts items p -> closing p ->
  exists n0, forall n items2 p2, (n0 <= n)%nat ->
    prun p (fair_round n ++ fair_round n) = (items2, p2) ->
    both_closed p2 /\
    reach cfg_c cfg_s keys (acts ++ fair_round n ++ fair_round n) (items ++ items2) p2.
Proof.
  intros H Hcl. destruct (reach_GI _ _ _ _ _ _ H) as [hc [hs [kc [ks G]]]].
  exists (bound0 hc hs kc ks). intros n items2 p2 Hn H2. split.
  - eapply two_rounds_gi; eassumption.
  - eapply reach_extend; [exact H| |exact H2]. apply Forall_app. split; apply fair_round_ok.
Qed.

(* ---- the bound, explicitly: in terms of the bytes in flight ---- *)

Definition inflight (p : pair) : nat :=
  (length (e_inbox (p_client p)) + length (c_in (x_codec (e_ctx (p_client p)))) + length (outb (p_server p)) +
   length (e_inbox (p_server p)) + length (c_in (x_codec (e_ctx (p_server p)))) + length (outb (p_client p)))%nat.

Definition nbound (p : pair) : nat :=
  let w := (2 * inflight p + 15)%nat in
  let a1 := (w + 140 * (1 + w))%nat in
  let b2 := (w + 140 * (1 + a1))%nat in
  let a3 := (a1 + 140 * (1 + b2))%nat in
  (2 + w + a1 + b2 + a3)%nat.

Lemma codec_at_W c fut rem :
  codec_at c fut rem -> (W rem <= 2 * (length (c_in c) + length fut) + 15)%nat.
Proof.
  unfold codec_at, W. destruct (c_hdr c) as [[h len]|].
  - intros [f [rem' [-> [_ [_ He]]]]]. rewrite enc_cons, frame_format_wp, !app_length.
    assert (X : (length (c_in c) + length fut = length (wpayload f) + length (enc rem'))%nat).
    { rewrite <- !app_length, He. reflexivity. }
    pose proof (enc_length rem') as Y.
    pose proof (HeaderP.header_format_blen (f_hdr f) (blen (f_payload f))) as Z.
    pose proof (header_len_bounds (f_hdr f) (blen (f_payload f))) as Z2.
    unfold blen in Z at 1. cbn [length]. lia.
  - intros He. pose proof (enc_length rem) as Y. rewrite <- He, app_length in *. lia.
Qed.

Lemma both_closed_keep p hc hs kc ks acts items p' :
  GI p hc hs kc ks -> Forall act_ok acts -> prun p acts = (items, p') -> both_closed p -> both_closed p'.
Proof.
  intros G Hok H [A [B [C D]]]. destruct (prun_inv _ _ _ _ _ _ _ _ G Hok H) as [hc' [hs' [kc' [ks' R]]]].
  unfold both_closed.
  rewrite (ro_told_c _ _ _ _ _ _ _ _ _ _ _ R), (ro_told_s _ _ _ _ _ _ _ _ _ _ _ R),
          (ro_drop_c _ _ _ _ _ _ _ _ _ _ _ R), (ro_drop_s _ _ _ _ _ _ _ _ _ _ _ R), A, B, C, D. auto.
Qed.

Theorem liveness_rounds_explicit cfg_c cfg_s keys acts items p n items2 p2 :
  reach cfg_c cfg_s keys acts items p -> closing p -> (nbound p <= n)%nat ->
  prun p (fair_round n ++ fair_round n) = (items2, p2) ->
  both_closed p2 /\
  reach cfg_c cfg_s keys (acts ++ fair_round n ++ fair_round n) (items ++ items2) p2.
Proof.
  intros H Hcl Hn H2. destruct (reach_GI _ _ _ _ _ _ H) as [hc [hs [kc [ks G]]]].
  assert (Hok : Forall act_ok (fair_round n ++ fair_round n)) by (apply Forall_app; split; apply fair_round_ok).
  split; [|eapply reach_extend; eassumption].
  destruct (e_dropped (p_client p)) eqn:Edc.
  { (* the client has already dropped: everything is over *)
    eapply both_closed_keep; try eassumption.
    eapply client_told_done; [exact G|exact (gi_dc _ _ _ _ _ G Edc)|exact Edc]. }
  eapply two_rounds_gi; try eassumption.
  (* the bound of the invariant is below the explicit one *)
  assert (Hwc : (W (skipn kc hs) <= 2 * inflight p + 15)%nat).
  { pose proof (codec_at_W _ _ _ (epi_at _ _ _ _ _ _ (gi_c _ _ _ _ _ G) Edc)) as X.
    rewrite app_length in X. unfold inflight, cx. unfold cx in X. lia. }
  assert (Hws : (W (skipn ks hc) <= 2 * inflight p + 15)%nat).
  { destruct (e_dropped (p_server p)) eqn:Eds.
    - (* a server that has dropped has consumed the client's Close: nothing is left *)
      destruct (gi_ts _ _ _ _ _ G (gi_ds _ _ _ _ _ G Eds)) as [_ [_ Hc]].
      rewrite (close_consumed_all _ _ _ _ (epi_qp _ _ _ _ _ _ (gi_c _ _ _ _ _ G)) Hc). cbn. lia.
    - pose proof (codec_at_W _ _ _ (epi_at _ _ _ _ _ _ (gi_s _ _ _ _ _ G) Eds)) as X.
      rewrite app_length in X. unfold inflight, cx. unfold cx in X. lia. }
  unfold nbound in Hn. unfold bound0. cbv zeta in *.
  remember (W (skipn kc hs)) as wc. remember (W (skipn ks hc)) as ws. remember (inflight p) as fl.
  clear - Hn Hwc Hws. lia.
Qed.

(* the complete statement: after the two rounds both sides have been told and have dropped; over the
   whole run no call returned a protocol error (other than a refused write) or panicked; and the
   client's ConnectionClosed comes after the server's and after the server's drop *)
Theorem handshake_completes cfg_c cfg_s keys acts items p n items2 p2 :
  reach cfg_c cfg_s keys acts items p -> closing p -> (nbound p <= n)%nat ->
  prun p (fair_round n ++ fair_round n) = (items2, p2) ->
  both_closed p2 /\ Forall it_clean (items ++ items2) /\
  (forall pre o r post, items ++ items2 = pre ++ PRes Client o r :: post -> is_cc r = true ->
     existsb (it_cc Server) pre = true /\ existsb (it_drop Server) pre = true).
Proof.
  intros H Hcl Hn H2.
  destruct (liveness_rounds_explicit _ _ _ _ _ _ _ _ _ H Hcl Hn H2) as [Hb Hr].
  split; [exact Hb|]. split; [exact (safety_clean _ _ _ _ _ _ Hr)|].
  intros pre o r post E Hc. exact (safety_order_trace _ _ _ _ _ _ _ _ _ _ Hr E Hc).
Qed.
