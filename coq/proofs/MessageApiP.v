(* proofs/MessageApiP.v — C08b: the accessor / conversion API of Message and Frame (MessageApi.v):
   into_text / to_text, into_data, len, is_empty, Display, constructors, kind predicates. *)
From TungModel Require Import Base Coding Mask Header Frame Utf8 World Message MessageApi Codec Protocol.
From TungModel.proofs Require Import Utf8P.
From Coq Require Import Arith ZArith Lia ZifyBool ZifyNat ZifyN.

Arguments N.add : simpl never.
Arguments N.sub : simpl never.
Arguments N.mul : simpl never.
Arguments N.div : simpl never.
Arguments N.modulo : simpl never.
Arguments N.pow : simpl never.
Arguments N.ltb : simpl never.
Arguments N.leb : simpl never.
Arguments N.eqb : simpl never.
Arguments N.of_nat : simpl never.
Arguments N.to_nat : simpl never.
Arguments N.log2 : simpl never.

Local Ltac Zify.zify_post_hook ::= Z.div_mod_to_equations.

(* ------------------------------------------------------------------------------------------ *)
(* Utf8Bytes::try_from                                                                          *)
(* ------------------------------------------------------------------------------------------ *)
Lemma utf8_try_from_some b t : utf8_try_from b = Some t -> valid_utf8 t /\ t = b.
Proof.
  unfold utf8_try_from. destruct (is_utf8 b) eqn:E; [|discriminate].
  intros H; injection H as <-. split; [apply is_utf8_iff; exact E | reflexivity].
Qed.

Lemma utf8_try_from_none b : utf8_try_from b = None <-> is_utf8 b = false.
Proof.
  unfold utf8_try_from. destruct (is_utf8 b); split; intros H; try discriminate; reflexivity.
Qed.

(* ------------------------------------------------------------------------------------------ *)
(* T1 / T2: into_text                                                                           *)
(* ------------------------------------------------------------------------------------------ *)
Lemma msg_into_text_valid m t : wf_msg m = true -> msg_into_text m = Some t ->
  valid_utf8 t /\ t = msg_into_data m.
Proof.
  destruct m as [b|b|b|b|[[c reason]|]|f]; cbn [wf_msg msg_into_text msg_into_data frame_into_text]; intros W H.
  - injection H as <-. split; [apply is_utf8_iff; exact W | reflexivity].
  - exact (utf8_try_from_some _ _ H).
  - exact (utf8_try_from_some _ _ H).
  - exact (utf8_try_from_some _ _ H).
  - injection H as <-. split; [apply is_utf8_iff; exact W | reflexivity].
  - injection H as <-. split; [constructor | reflexivity].
  - exact (utf8_try_from_some _ _ H).
Qed.

Lemma msg_into_text_none_iff m :
  msg_into_text m = None <->
  (msg_is_text m = false /\ msg_is_close m = false /\ is_utf8 (msg_into_data m) = false).
Proof.
  destruct m as [b|b|b|b|[[c reason]|]|f];
    cbn [msg_into_text msg_into_data frame_into_text msg_is_text msg_is_close].
  - split; [discriminate | intros (H & _); discriminate H].
  - rewrite utf8_try_from_none. split; [intros H; repeat split; exact H | intros (_ & _ & H); exact H].
  - rewrite utf8_try_from_none. split; [intros H; repeat split; exact H | intros (_ & _ & H); exact H].
  - rewrite utf8_try_from_none. split; [intros H; repeat split; exact H | intros (_ & _ & H); exact H].
  - split; [discriminate | intros (_ & H & _); discriminate H].
  - split; [discriminate | intros (_ & H & _); discriminate H].
  - unfold frame_into_text. rewrite utf8_try_from_none. split; [intros H; repeat split; exact H | intros (_ & _ & H); exact H].
Qed.

(* ------------------------------------------------------------------------------------------ *)
(* T3: len / is_empty                                                                           *)
(* ------------------------------------------------------------------------------------------ *)
Lemma msg_len_data m : (forall f, m <> MFrame f) -> msg_len m = blen (msg_into_data m).
Proof.
  destruct m as [b|b|b|b|[[c reason]|]|f]; intros H; try reflexivity.
  exfalso. exact (H f eq_refl).
Qed.

Lemma header_len_ge2 h n : 2 <= header_len h n.
Proof. unfold header_len. lia. Qed.

Lemma msg_len_frame f :
  msg_len (MFrame f) = header_len (f_hdr f) (blen (f_payload f)) + blen (f_payload f) /\
  2 <= frame_len f /\ frame_is_empty f = false.
Proof.
  assert (G : 2 <= frame_len f).
  { unfold frame_len. pose proof (header_len_ge2 (f_hdr f) (blen (f_payload f))). lia. }
  split; [reflexivity|]. split; [exact G|].
  unfold frame_is_empty. apply N.eqb_neq. lia.
Qed.

Lemma msg_is_empty_iff m : msg_is_empty m = true <-> msg_len m = 0.
Proof. unfold msg_is_empty. apply N.eqb_eq. Qed.

(* ------------------------------------------------------------------------------------------ *)
(* ASCII is valid UTF-8                                                                         *)
(* ------------------------------------------------------------------------------------------ *)
Lemma ascii_valid bs : Forall (fun b => b <= 127) bs -> valid_utf8 bs.
Proof.
  induction 1 as [|b r Hb _ IH]; [constructor|]. apply v_1; [exact Hb | exact IH].
Qed.

(* ------------------------------------------------------------------------------------------ *)
(* dec_digits                                                                                   *)
(* ------------------------------------------------------------------------------------------ *)
Definition is_digit (d : N) : Prop := 48 <= d <= 57.
Definition dec_step (a d : N) : N := 10 * a + (d - 48).

Lemma dec_aux_unfold k n acc :
  dec_digits_aux (S k) n acc =
  if n <? 10 then (48 + n mod 10) :: acc else dec_digits_aux k (n / 10) ((48 + n mod 10) :: acc).
Proof. reflexivity. Qed.

Lemma dec_aux_digits fuel : forall n acc,
  Forall is_digit acc -> Forall is_digit (dec_digits_aux fuel n acc).
Proof.
  induction fuel as [|k IH]; intros n acc A; [exact A|].
  rewrite dec_aux_unfold.
  assert (D : Forall is_digit ((48 + n mod 10) :: acc)).
  { constructor; [unfold is_digit; lia | exact A]. }
  destruct (n <? 10); [exact D | apply IH; exact D].
Qed.

Lemma pow2_succ_nat k : 2 ^ N.of_nat (S k) = 2 * 2 ^ N.of_nat k.
Proof. rewrite Nat2N.inj_succ. apply N.pow_succ_r'. Qed.

Lemma div10_bound n k : n < 2 ^ N.of_nat (S k) -> n / 10 < 2 ^ N.of_nat k.
Proof. rewrite pow2_succ_nat. generalize (2 ^ N.of_nat k). intros p H. lia. Qed.

Lemma pow2_0_nat : 2 ^ N.of_nat 0 = 1.
Proof. reflexivity. Qed.

Lemma dec_aux_value fuel : forall n acc,
  n < 2 ^ N.of_nat fuel ->
  fold_left dec_step (dec_digits_aux fuel n acc) 0 = fold_left dec_step acc n.
Proof.
  induction fuel as [|k IH]; intros n acc B.
  - rewrite pow2_0_nat in B. assert (n = 0) by lia. subst n. reflexivity.
  - rewrite dec_aux_unfold. destruct (n <? 10) eqn:E.
    + cbn [fold_left]. f_equal. unfold dec_step. lia.
    + rewrite IH by (apply div10_bound; exact B).
      cbn [fold_left]. f_equal. unfold dec_step. lia.
Qed.

Lemma dec_aux_hd fuel : forall n acc,
  n < 2 ^ N.of_nat fuel -> n <> 0 -> hd 0 (dec_digits_aux fuel n acc) <> 48.
Proof.
  induction fuel as [|k IH]; intros n acc B NZ.
  - rewrite pow2_0_nat in B. lia.
  - rewrite dec_aux_unfold. destruct (n <? 10) eqn:E.
    + cbn [hd]. lia.
    + apply IH; [apply div10_bound; exact B | lia].
Qed.

Lemma dec_fuel_bound n : n < 2 ^ N.of_nat (S (N.to_nat (N.log2 n))).
Proof.
  rewrite Nat2N.inj_succ, N2Nat.id.
  destruct (N.eq_dec n 0) as [->|NZ]; [reflexivity|].
  apply N.log2_spec. lia.
Qed.

Lemma fold_left_ext_dec l : forall a,
  fold_left (fun a d => 10 * a + (d - 48)) l a = fold_left dec_step l a.
Proof. reflexivity. Qed.

Lemma dec_digits_spec n :
  Forall (fun d => 48 <= d <= 57) (dec_digits n) /\
  fold_left (fun a d => 10 * a + (d - 48)) (dec_digits n) 0 = n /\
  (n <> 0 -> hd 0 (dec_digits n) <> 48) /\
  dec_digits 0 = [48].
Proof.
  unfold dec_digits. split; [|split; [|split]].
  - apply (dec_aux_digits _ n []). constructor.
  - rewrite fold_left_ext_dec. rewrite dec_aux_value by apply dec_fuel_bound. reflexivity.
  - intros NZ. apply dec_aux_hd; [apply dec_fuel_bound | exact NZ].
  - reflexivity.
Qed.

Lemma dec_digits_ascii n : Forall (fun b => b <= 127) (dec_digits n).
Proof.
  destruct (dec_digits_spec n) as [D _]. revert D. apply Forall_impl. intros d H. lia.
Qed.

(* ------------------------------------------------------------------------------------------ *)
(* T4: Display                                                                                  *)
(* ------------------------------------------------------------------------------------------ *)
Lemma msg_display_spec m :
  (forall t, msg_into_text m = Some t -> msg_display m = t) /\
  (msg_into_text m = None ->
   msg_display m = display_prefix ++ dec_digits (msg_len m) ++ display_suffix).
Proof.
  unfold msg_display. split.
  - intros t H. rewrite H. reflexivity.
  - intros H. rewrite H. reflexivity.
Qed.

Lemma display_prefix_ascii : Forall (fun b => b <= 127) display_prefix.
Proof. unfold display_prefix. repeat constructor; lia. Qed.

Lemma display_suffix_ascii : Forall (fun b => b <= 127) display_suffix.
Proof. unfold display_suffix. repeat constructor; lia. Qed.

Lemma msg_display_valid m : wf_msg m = true -> valid_utf8 (msg_display m).
Proof.
  intros W. unfold msg_display. destruct (msg_into_text m) as [t|] eqn:E.
  - exact (proj1 (msg_into_text_valid m t W E)).
  - apply ascii_valid. apply Forall_app. split; [exact display_prefix_ascii|].
    apply Forall_app. split; [apply dec_digits_ascii | exact display_suffix_ascii].
Qed.

(* ------------------------------------------------------------------------------------------ *)
(* T5: what read returns is a well-formed Message, so its accessors return valid text            *)
(* ------------------------------------------------------------------------------------------ *)
Lemma msg_ok_wf m : msg_ok m -> wf_msg m = true.
Proof.
  destruct m as [b|b|b|b|[[c reason]|]|f]; cbn [msg_ok wf_msg]; intros H;
    try reflexivity; apply is_utf8_iff; exact H.
Qed.

Lemma wf_msg_ok m : wf_msg m = true -> msg_ok m.
Proof.
  destruct m as [b|b|b|b|[[c reason]|]|f]; cbn [msg_ok wf_msg]; intros H;
    try exact I; apply is_utf8_iff; exact H.
Qed.

Theorem run_ops_read_accessors : forall (r : role) (part : bytes) (cfg : config) (x : ctx),
  ctx_new r part cfg = Some x ->
  forall (ops : list op) (w : world),
  Forall (fun p => match fst p with
                   | ResMsg (ROk m) =>
                       wf_msg m = true /\
                       (forall t, msg_into_text m = Some t -> valid_utf8 t /\ t = msg_into_data m)
                   | _ => True
                   end) (fst (fst (run_ops x ops w))).
Proof.
  intros r part cfg x Hx ops w.
  destruct (run_ops x ops w) as [[rs x'] w'] eqn:E.
  destruct (run_ops_exposed ops x w rs x' w' (ctx_new_wf _ _ _ _ Hx) E) as [_ F].
  cbn [fst]. revert F. apply Forall_impl. intros [o n] H. cbn [fst] in *.
  destruct o as [[m|e|s|]|u|b]; try exact I.
  cbn [op_result_ok res_read_ok] in H. apply msg_ok_wf in H.
  split; [exact H|]. intros t T. exact (msg_into_text_valid m t H T).
Qed.

(* ------------------------------------------------------------------------------------------ *)
(* T6: constructors, kind predicates                                                            *)
(* ------------------------------------------------------------------------------------------ *)
Lemma msg_constructors s b :
  msg_into_data (msg_text s) = s /\ msg_into_text (msg_text s) = Some s /\
  msg_len (msg_text s) = blen s /\ msg_is_text (msg_text s) = true /\
  msg_into_data (msg_binary b) = b /\ msg_len (msg_binary b) = blen b /\
  msg_is_binary (msg_binary b) = true.
Proof. repeat split. Qed.

Lemma msg_kind_exclusive m :
  match m with
  | MFrame _ => msg_is_text m = false /\ msg_is_binary m = false /\ msg_is_ping m = false /\
                msg_is_pong m = false /\ msg_is_close m = false
  | _ => count_occ Bool.bool_dec
           [msg_is_text m; msg_is_binary m; msg_is_ping m; msg_is_pong m; msg_is_close m] true = 1%nat
  end.
Proof. destruct m; try reflexivity. repeat split. Qed.
