(* proofs/CodecReadP.v — C05: what is read does not depend on how the transport cuts the byte stream.

   Contents
   1. list/N helpers
   2. header_parse prefix-stability (proved locally; the C18 package proves them again in HeaderP.v)
   3. the whole-stream reference decoder  ref_from / frames_ref
   4. schedules: every read-oracle list is a schedule; sched_data / sched_term
   5. one call of read_frame_loop against the decoder's view (try_take, then induction on the oracle)
   6. drive = successive read_frame results, WouldBlocks dropped; drive = reference, for every schedule
   7. WouldBlock is a no-op; from_partially_read
   8. message level (Protocol.read)                                                           *)
From TungModel Require Import Base Coding Mask Header Frame World Message Codec Protocol.
From Coq Require Import Lia ZifyBool ZifyNat ZifyN.

Arguments N.add : simpl never.
Arguments N.sub : simpl never.
Arguments N.mul : simpl never.
Arguments N.leb : simpl never.
Arguments N.ltb : simpl never.
Arguments N.eqb : simpl never.
Arguments N.land : simpl never.
Arguments N.of_nat : simpl never.
Arguments N.to_nat : simpl never.

(* ------------------------------------------------------------------------------------------- *)
(** * 1. helpers *)

Section ListN.
Context {A : Type}.
Implicit Types a b : list A.

Lemma blen_app a b : blen (a ++ b) = blen a + blen b.
Proof. unfold blen. rewrite app_length. lia. Qed.

Lemma takeN_app_le n a b : n <= blen a -> takeN n (a ++ b) = takeN n a.
Proof.
  unfold takeN, blen. intros H. rewrite firstn_app.
  replace (N.to_nat n - length a)%nat with 0%nat by lia.
  rewrite firstn_O. apply app_nil_r.
Qed.

Lemma dropN_app_le n a b : n <= blen a -> dropN n (a ++ b) = dropN n a ++ b.
Proof.
  unfold dropN, blen. intros H. rewrite skipn_app.
  replace (N.to_nat n - length a)%nat with 0%nat by lia. reflexivity.
Qed.

Lemma length_dropN n a : length (dropN n a) = (length a - N.to_nat n)%nat.
Proof. unfold dropN. apply skipn_length. Qed.

Lemma blen_dropN n a : blen (dropN n a) = blen a - n.
Proof. unfold blen. rewrite length_dropN. lia. Qed.

Lemma blen_takeN n a : n <= blen a -> blen (takeN n a) = n.
Proof. unfold blen, takeN. intros H. rewrite firstn_length_le by lia. lia. Qed.

Lemma takeN_dropN n a : takeN n a ++ dropN n a = a.
Proof. unfold takeN, dropN. apply firstn_skipn. Qed.
End ListN.

(* ------------------------------------------------------------------------------------------- *)
(** * 2. header_parse is stable under extension of its input *)

Lemma hp_ext_aux first second r more :
  match header_parse (first :: second :: r) with
  | POk h n k => header_parse (first :: second :: r ++ more) = POk h n k /\ 2 <= k <= 2 + blen r
  | PErr e => header_parse (first :: second :: r ++ more) = PErr e
  | PPanic => header_parse (first :: second :: r ++ more) = PPanic
  | PIncomplete => True
  end.
Proof.
  unfold header_parse. cbv zeta.
  destruct (opcode_of_u8 (N.land first 15)) as [opc|]; [|reflexivity].
  generalize (lf_extra (lf_for_byte (N.land second 127))) as ll. intros ll.
  destruct (8 <? ll); [reflexivity|].
  rewrite blen_app.
  destruct (blen r <? ll) eqn:El; [exact I|].
  destruct (blen r + blen more <? ll) eqn:El'; [lia|].
  rewrite takeN_app_le, dropN_app_le by lia.
  pose proof (blen_dropN ll r) as Hd.
  destruct (bit second 128).
  - destruct (dropN ll r) as [|a [|b [|c [|d t]]]]; cbn [app]; try exact I.
    destruct (is_reserved opc); [reflexivity|]. split; [reflexivity|].
    unfold blen in *. cbn [length] in Hd. lia.
  - destruct (is_reserved opc); [reflexivity|]. split; [reflexivity|lia].
Qed.

(* C18-style statements *)
Lemma hp_ok bs h n k :
  header_parse bs = POk h n k ->
  2 <= k <= blen bs /\ forall more, header_parse (bs ++ more) = POk h n k.
Proof.
  destruct bs as [|first [|second r]]; try discriminate.
  intros H. split.
  - pose proof (hp_ext_aux first second r []) as X. rewrite H in X.
    destruct X as [_ X]. unfold blen in *. cbn [length]. lia.
  - intros more. pose proof (hp_ext_aux first second r more) as X. rewrite H in X.
    destruct X as [X _]. exact X.
Qed.

Lemma hp_err bs e : header_parse bs = PErr e -> forall more, header_parse (bs ++ more) = PErr e.
Proof.
  destruct bs as [|first [|second r]]; try discriminate.
  intros H more. pose proof (hp_ext_aux first second r more) as X. rewrite H in X. exact X.
Qed.

Lemma hp_panic bs : header_parse bs = PPanic -> forall more, header_parse (bs ++ more) = PPanic.
Proof.
  destruct bs as [|first [|second r]]; try discriminate.
  intros H more. pose proof (hp_ext_aux first second r more) as X. rewrite H in X. exact X.
Qed.

(* the two panic arms of parse are in fact dead *)
Lemma land15_lt16 b : N.land b 15 < 16.
Proof.
  change 15 with (N.ones 4). rewrite N.land_ones. apply N.mod_lt. discriminate.
Qed.

Lemma opcode_of_u8_total b : b < 16 -> opcode_of_u8 b <> None.
Proof.
  intros Hb. unfold opcode_of_u8.
  repeat match goal with
  | |- context [if ?c then _ else _] => destruct c eqn:?; [discriminate|]
  end.
  lia.
Qed.

Lemma hp_no_panic bs : header_parse bs <> PPanic.
Proof.
  destruct bs as [|first [|second r]]; try discriminate.
  unfold header_parse. cbv zeta.
  destruct (opcode_of_u8 (N.land first 15)) as [opc|] eqn:Eo.
  2:{ exfalso. exact (opcode_of_u8_total _ (land15_lt16 first) Eo). }
  assert (Hll : lf_extra (lf_for_byte (N.land second 127)) <= 8).
  { unfold lf_for_byte. destruct (_ =? 126); [cbn; lia|]. destruct (_ =? 127); cbn; lia. }
  destruct (8 <? _) eqn:E8; [lia|].
  destruct (blen r <? _); [discriminate|].
  destruct (bit second 128).
  - destruct (dropN _ r) as [|a [|b [|c [|d t]]]]; try discriminate.
    destruct (is_reserved opc); discriminate.
  - destruct (is_reserved opc); discriminate.
Qed.

Local Opaque header_parse.

(* ------------------------------------------------------------------------------------------- *)
(** * 3. The whole-stream reference decoder

   [raw] is the result type of one [read_frame_loop] call.  The reference decoder looks at the whole
   remaining byte stream at once: it cuts it into frames and ends with
     - the decoding error, if a header is invalid or a frame is larger than the limit, or
     - [term], what the transport says once the bytes are exhausted inside a frame
       ([] = silence, [ROk None] = end of file, [RErr (EIo k)] = hard error).                   *)

Definition raw := res (option (header * N * bytes)).

Definition ref_body (cont : bytes -> list raw) (max : N) (h : header) (len : N) (rest : bytes)
           (term : list raw) : list raw :=
  if max <? len then [RErr (ECapacity len max)]
  else if len <=? blen rest then ROk (Some (h, len, takeN len rest)) :: cont (dropN len rest)
  else term.

Definition ref_step (cont : bytes -> list raw) (max : N) (bs : bytes) (term : list raw) : list raw :=
  match header_parse bs with
  | POk h len k => ref_body cont max h len (dropN k bs) term
  | PIncomplete => term
  | PErr i => [RErr (EProtocol (InvalidOpcode i))]
  | PPanic => [RPanic site_opcode_range]
  end.

Fixpoint ref_fresh (fuel : nat) (max : N) (bs : bytes) (term : list raw) : list raw :=
  match fuel with
  | O => [ROutOfFuel]
  | S f => ref_step (fun r => ref_fresh f max r term) max bs term
  end.

(* every frame takes at least two bytes, so the length is enough fuel *)
Definition ref_all (max : N) (bs : bytes) (term : list raw) : list raw :=
  ref_fresh (S (length bs)) max bs term.

(* entry point: an already parsed header (the codec's [header] field) is accepted only here *)
Definition ref_from (max : N) (hdr : option (header * N)) (bs : bytes) (term : list raw) : list raw :=
  match hdr with
  | None => ref_all max bs term
  | Some (h, len) => ref_body (fun r => ref_all max r term) max h len bs term
  end.

Lemma ref_step_ext cont1 cont2 max bs term :
  (forall r, (length r < length bs)%nat -> cont1 r = cont2 r) ->
  ref_step cont1 max bs term = ref_step cont2 max bs term.
Proof.
  intros H. unfold ref_step.
  destruct (header_parse bs) as [h len k| | |] eqn:Hp; try reflexivity.
  apply hp_ok in Hp. destruct Hp as [Hk _].
  unfold ref_body.
  destruct (max <? len); [reflexivity|].
  destruct (len <=? blen (dropN k bs)); [|reflexivity].
  f_equal. apply H. rewrite !length_dropN. unfold blen in Hk. lia.
Qed.

Lemma ref_fresh_fuel max term f1 : forall f2 bs,
  (length bs < f1)%nat -> (length bs < f2)%nat ->
  ref_fresh f1 max bs term = ref_fresh f2 max bs term.
Proof.
  induction f1 as [|f1 IH]; intros f2 bs H1 H2; [lia|].
  destruct f2 as [|f2]; [lia|].
  cbn [ref_fresh]. apply ref_step_ext. intros r Hr. apply IH; lia.
Qed.

(* the fixpoint equation of the reference decoder *)
Lemma ref_all_eq max bs term :
  ref_all max bs term = ref_step (fun r => ref_all max r term) max bs term.
Proof.
  unfold ref_all at 1.
  change (ref_fresh (S (length bs)) max bs term)
    with (ref_step (fun r => ref_fresh (length bs) max r term) max bs term).
  apply ref_step_ext. intros r Hr. unfold ref_all. apply ref_fresh_fuel; lia.
Qed.

(* the reference decoder never runs out of fuel *)
Lemma ref_fresh_no_oof max term : ~ In ROutOfFuel term ->
  forall f bs, (length bs < f)%nat -> ~ In ROutOfFuel (ref_fresh f max bs term).
Proof.
  intros HT f. induction f as [|f IH]; intros bs Hf; [lia|].
  cbn [ref_fresh]. unfold ref_step.
  destruct (header_parse bs) as [h len k| | |] eqn:Hp.
  - apply hp_ok in Hp. destruct Hp as [Hk _]. unfold ref_body.
    destruct (max <? len). { intros [X|[]]; discriminate. }
    destruct (len <=? blen (dropN k bs)); [|exact HT].
    intros [X|X]; [discriminate|]. revert X. apply IH.
    rewrite !length_dropN. unfold blen in Hk. lia.
  - exact HT.
  - intros [X|[]]; discriminate.
  - intros [X|[]]; discriminate.
Qed.

Lemma ref_from_no_oof max hdr bs term :
  ~ In ROutOfFuel term -> ~ In ROutOfFuel (ref_from max hdr bs term).
Proof.
  intros HT. unfold ref_from. destruct hdr as [[h len]|].
  - unfold ref_body. destruct (max <? len). { intros [X|[]]; discriminate. }
    destruct (len <=? blen bs); [|exact HT].
    intros [X|X]; [discriminate|]. revert X. apply ref_fresh_no_oof; [exact HT|].
    rewrite length_dropN. lia.
  - apply ref_fresh_no_oof; [exact HT|lia].
Qed.

(* ------------------------------------------------------------------------------------------- *)
(** * 4. Schedules

   Every list of read outcomes is a schedule.  Its data are the chunks delivered before the first
   terminal entry, WouldBlocks skipped; its terminal is the first entry that is neither a non-empty
   chunk nor a WouldBlock (an empty read is end of file, as in the code: Ok(0)), or silence if there
   is none: an exhausted oracle answers WouldBlock for ever.                                      *)

Fixpoint sched_data (rds : list rd_out) : bytes :=
  match rds with
  | RdData (b :: bs) :: r => (b :: bs) ++ sched_data r
  | RdErr WouldBlock :: r => sched_data r
  | _ => []
  end.

Fixpoint sched_term {A : Type} (rds : list rd_out) : list (res (option A)) :=
  match rds with
  | [] => []
  | RdData (_ :: _) :: r => sched_term r
  | RdErr WouldBlock :: r => sched_term r
  | RdData [] :: _ => [ROk None]
  | RdEof :: _ => [ROk None]
  | RdErr k :: _ => [RErr (EIo k)]
  end.

(* ------------------------------------------------------------------------------------------- *)
(** * 5. One call of read_frame_loop against the decoder's view *)

Definition drop_log {A B C D} (x : A * B * C * D) : A * B * C := let '(a, b, c, _) := x in (a, b, c).

(* read_frame_loop without the log *)
Definition rfl (max : N) (rds : list rd_out) (c : codec) : raw * codec * list rd_out :=
  drop_log (read_frame_loop max rds c []).

Lemma rfl_loop_log max rds : forall c log1 log2,
  drop_log (read_frame_loop max rds c log1) = drop_log (read_frame_loop max rds c log2).
Proof.
  induction rds as [|o r IH]; intros c log1 log2; cbn [read_frame_loop];
    destruct (try_take max c) as [h len p c'|n c'|e c'|s]; try reflexivity.
  destruct o as [[|b bs]| |k]; try reflexivity. apply IH.
Qed.

Lemma rfl_of_loop max rds c log : drop_log (read_frame_loop max rds c log) = rfl max rds c.
Proof. apply rfl_loop_log. Qed.

Lemma rfl_eq max rds c :
  rfl max rds c =
  match try_take max c with
  | TkPayload h len p c' => (ROk (Some (h, len, p)), c', rds)
  | TkErr e c' => (RErr e, c', rds)
  | TkPanic s => (RPanic s, c, rds)
  | TkNeedMore n c' =>
      match rds with
      | [] => (RErr (EIo WouldBlock), c', [])
      | RdData [] :: r => (ROk None, c', r)
      | RdData bs :: r => rfl max r (set_in c' (c_in c' ++ bs))
      | RdEof :: r => (ROk None, c', r)
      | RdErr k :: r => (RErr (EIo k), c', r)
      end
  end.
Proof.
  unfold rfl. destruct rds as [|o r]; cbn [read_frame_loop];
    destruct (try_take max c) as [h len p c'|n c'|e c'|s]; try reflexivity.
  destruct o as [[|b bs]| |k]; try reflexivity. apply rfl_loop_log.
Qed.

(* the decoder's view of a codec state: held header, buffered bytes, then the bytes still to come *)
Definition view (max : N) (c : codec) (future : bytes) (term : list raw) : list raw :=
  ref_from max (c_hdr c) (c_in c ++ future) term.

Lemma view_held max (c : codec) h len d T :
  c_hdr c = Some (h, len) ->
  view max c d T =
  if max <? len then [RErr (ECapacity len max)]
  else if len <=? blen (c_in c) then
    ROk (Some (h, len, takeN len (c_in c))) :: view max (set_hdr (set_in c (dropN len (c_in c))) None) d T
  else view max c d T.
Proof.
  intros Hh. unfold view at 1. rewrite Hh. cbn [ref_from]. unfold ref_body.
  destruct (max <? len) eqn:Em; [reflexivity|].
  destruct (len <=? blen (c_in c)) eqn:El.
  - rewrite blen_app. destruct (len <=? blen (c_in c) + blen d) eqn:El'; [|lia].
    rewrite takeN_app_le, dropN_app_le by lia. reflexivity.
  - unfold view. rewrite Hh. cbn [ref_from]. unfold ref_body. rewrite Em. reflexivity.
Qed.

(* try_take against the view: a returned payload is the view's first item, an error is the view,
   and asking for more leaves the view as it is — for every continuation of the stream *)
Lemma view_try_take max c d T :
  view max c d T =
  match try_take max c with
  | TkPayload h len p c' => ROk (Some (h, len, p)) :: view max c' d T
  | TkErr e _ => [RErr e]
  | TkPanic s => [RPanic s]
  | TkNeedMore _ c' => view max c' d T
  end.
Proof.
  unfold try_take. destruct (c_hdr c) as [[h len]|] eqn:Hh.
  - rewrite Hh. rewrite (view_held max c h len d T Hh).
    destruct (max <? len); [reflexivity|]. destruct (len <=? blen (c_in c)); reflexivity.
  - destruct (header_parse (c_in c)) as [h len k| |i|] eqn:Hp.
    + destruct (hp_ok _ _ _ _ Hp) as [Hk Hext].
      set (c1 := set_hdr (set_in c (dropN k (c_in c))) (Some (h, len))).
      assert (Hv : view max c d T = view max c1 d T).
      { unfold view. rewrite Hh. cbn [ref_from]. rewrite ref_all_eq. unfold ref_step.
        rewrite Hext. rewrite dropN_app_le by lia. reflexivity. }
      rewrite Hv. change (c_hdr c1) with (Some (h, len)).
      rewrite (view_held max c1 h len d T eq_refl).
      destruct (max <? len); [reflexivity|]. destruct (len <=? blen (c_in c1)); reflexivity.
    + rewrite Hh. reflexivity.
    + unfold view. rewrite Hh. cbn [ref_from]. rewrite ref_all_eq. unfold ref_step.
      rewrite (hp_err _ _ Hp). reflexivity.
    + unfold view. rewrite Hh. cbn [ref_from]. rewrite ref_all_eq. unfold ref_step.
      rewrite (hp_panic _ Hp). reflexivity.
Qed.

(* a state that asked for more is idle: without further bytes its view is just the terminal *)
Lemma view_needmore_idle max c n c' T :
  try_take max c = TkNeedMore n c' -> view max c' [] T = T.
Proof.
  unfold try_take. destruct (c_hdr c) as [[h len]|] eqn:Hh.
  - rewrite Hh. destruct (max <? len) eqn:Em; [discriminate|].
    destruct (len <=? blen (c_in c)) eqn:El; [discriminate|].
    intros X. injection X as _ <-. unfold view. rewrite Hh, app_nil_r. cbn [ref_from].
    unfold ref_body. rewrite Em, El. reflexivity.
  - destruct (header_parse (c_in c)) as [h len k| |i|] eqn:Hp; try discriminate.
    + cbn [c_hdr set_hdr]. destruct (max <? len) eqn:Em; [discriminate|].
      destruct (len <=? _) eqn:El; [discriminate|].
      intros X. injection X as _ <-. unfold view. cbn [c_hdr c_in set_hdr set_in ref_from].
      rewrite app_nil_r. unfold ref_body. cbn [c_hdr c_in set_hdr set_in] in El. rewrite Em, El. reflexivity.
    + rewrite Hh. intros X. injection X as _ <-. unfold view. rewrite Hh, app_nil_r.
      cbn [ref_from]. rewrite ref_all_eq. unfold ref_step. rewrite Hp. reflexivity.
Qed.

(* progress measure for repeated calls *)
Definition hdr_bit (c : codec) : nat := match c_hdr c with Some _ => 1 | None => 0 end.
Definition buffered (c : codec) : nat := length (c_in c) + hdr_bit c.
Definition mu (c : codec) (rds : list rd_out) : nat := buffered c + rd_bytes rds + length rds.

Lemma try_take_buffered max c :
  match try_take max c with
  | TkPayload _ _ _ c' => (buffered c' < buffered c)%nat
  | TkNeedMore _ c' => (buffered c' <= buffered c)%nat
  | _ => True
  end.
Proof.
  unfold try_take, buffered, hdr_bit. destruct (c_hdr c) as [[h len]|] eqn:Hh.
  - rewrite Hh. destruct (max <? len); [exact I|].
    destruct (len <=? blen (c_in c)); cbn [c_hdr c_in set_hdr set_in].
    + rewrite length_dropN. lia.
    + rewrite Hh. lia.
  - destruct (header_parse (c_in c)) as [h len k| |i|] eqn:Hp; try exact I.
    + destruct (hp_ok _ _ _ _ Hp) as [Hk _]. cbn [c_hdr c_in set_hdr set_in].
      destruct (max <? len); [exact I|]. unfold blen in Hk.
      destruct (len <=? _); cbn [c_hdr c_in set_hdr set_in]; rewrite ?length_dropN; lia.
    + rewrite Hh. cbv beta iota. rewrite Hh. lia.
Qed.

Inductive rclass := KFrame | KWB | KStop.
Definition classify {A} (r : res (option A)) : rclass :=
  match r with
  | ROk (Some _) => KFrame
  | RErr (EIo WouldBlock) => KWB
  | _ => KStop
  end.

Definition held (max : N) (c1 : codec) (h : header) (len : N) : take_res :=
  if max <? len then TkErr (ECapacity len max) c1
  else if len <=? blen (c_in c1) then
    TkPayload h len (takeN len (c_in c1)) (set_hdr (set_in c1 (dropN len (c_in c1))) None)
  else TkNeedMore len c1.

Lemma try_take_eq max c :
  try_take max c =
  match c_hdr c with
  | Some (h, len) => held max c h len
  | None =>
      match header_parse (c_in c) with
      | POk h len k => held max (set_hdr (set_in c (dropN k (c_in c))) (Some (h, len))) h len
      | PIncomplete => TkNeedMore 6 c
      | PErr i => TkErr (EProtocol (InvalidOpcode i)) c
      | PPanic => TkPanic site_opcode_range
      end
  end.
Proof.
  unfold try_take, held. cbv zeta. destruct (c_hdr c) as [[h len]|] eqn:Hh.
  - rewrite Hh. reflexivity.
  - destruct (header_parse (c_in c)) as [h len k| |i|]; try reflexivity.
    rewrite Hh. reflexivity.
Qed.

Lemma try_take_err_not_io max c e c' : try_take max c = TkErr e c' -> forall k, e <> EIo k.
Proof.
  rewrite try_take_eq. unfold held. intros H k.
  destruct (c_hdr c) as [[h len]|].
  - destruct (max <? len); [injection H as <- _; discriminate|].
    destruct (len <=? _); discriminate.
  - destruct (header_parse (c_in c)) as [h len k0| |i|]; try discriminate.
    + destruct (max <? len); [injection H as <- _; discriminate|].
      destruct (len <=? _); discriminate.
    + injection H as <- _. discriminate.
Qed.

Lemma classify_err_not_io {A} e : (forall k, e <> EIo k) -> classify (@RErr (option A) e) = KStop.
Proof. intros H. destruct e as [| |k| | | |]; try reflexivity. exfalso. exact (H k eq_refl). Qed.

(* the view of a codec in front of a schedule *)
Definition sview (max : N) (c : codec) (rds : list rd_out) : list raw :=
  view max c (sched_data rds) (sched_term rds).

(* One call.  A frame is the head of the view and the rest is the view afterwards; WouldBlock leaves
   the view unchanged; anything else is the whole view. *)
Lemma rfl_sview max : forall rds c r c' rds',
  rfl max rds c = (r, c', rds') ->
  match classify r with
  | KFrame => sview max c rds = r :: sview max c' rds' /\ (mu c' rds' < mu c rds)%nat
  | KWB => sview max c rds = sview max c' rds' /\
           (rds' = [] -> sview max c' [] = []) /\
           (rds' <> [] -> (mu c' rds' < mu c rds)%nat)
  | KStop => sview max c rds = [r] /\ r <> ROutOfFuel
  end.
Proof.
  induction rds as [|o rest IH]; intros c r c' rds' E; rewrite rfl_eq in E;
    pose proof (try_take_buffered max c) as Hb;
    pose proof (view_needmore_idle max c) as Hidle;
    unfold sview; rewrite (view_try_take max c);
    destruct (try_take max c) as [h len p c1|n c1|e c1|s] eqn:Et.
  - injection E as <- <- <-. cbn [classify]. split; [reflexivity|]. unfold mu. lia.
  - injection E as <- <- <-. cbn [classify sched_data sched_term].
    split; [reflexivity|]. split; [|intros X; exfalso; exact (X eq_refl)].
    intros _. unfold sview. cbn [sched_data sched_term]. exact (Hidle _ _ _ eq_refl).
  - injection E as <- <- <-.
    assert (X : classify (@RErr (option (header * N * bytes)) e) = KStop).
    { apply classify_err_not_io. exact (try_take_err_not_io _ _ _ _ Et). }
    rewrite X. split; [reflexivity|discriminate].
  - injection E as <- <- <-. cbn [classify]. split; [reflexivity|discriminate].
  - injection E as <- <- <-. cbn [classify]. split; [reflexivity|]. unfold mu. lia.
  - destruct o as [[|b bs]| |k].
    + injection E as <- <- <-. cbn [classify sched_data sched_term]. rewrite (Hidle _ _ _ eq_refl).
      split; [reflexivity|discriminate].
    + specialize (IH _ _ _ _ E).
      assert (Hv : view max c1 (sched_data (RdData (b :: bs) :: rest)) (sched_term (RdData (b :: bs) :: rest))
                   = sview max (set_in c1 (c_in c1 ++ b :: bs)) rest).
      { unfold sview, view. cbn [sched_data sched_term c_hdr c_in set_in]. rewrite <- app_assoc. reflexivity. }
      rewrite Hv.
      assert (Hm : (mu (set_in c1 (c_in c1 ++ b :: bs)) rest < mu c (RdData (b :: bs) :: rest))%nat).
      { unfold mu, buffered, hdr_bit in *. cbn [c_hdr c_in set_in rd_bytes length]. rewrite app_length.
        cbn [length]. lia. }
      destruct (classify r).
      * destruct IH as [IH1 IH2]. split; [exact IH1|lia].
      * destruct IH as [IH1 [IH2 IH3]]. split; [exact IH1|]. split; [exact IH2|].
        intros X. specialize (IH3 X). lia.
      * exact IH.
    + injection E as <- <- <-. cbn [classify sched_data sched_term]. rewrite (Hidle _ _ _ eq_refl).
      split; [reflexivity|discriminate].
    + injection E as <- <- <-. destruct k; cbn [classify sched_data sched_term].
      * split; [reflexivity|]. split.
        -- intros ->. unfold sview. cbn [sched_data sched_term]. exact (Hidle _ _ _ eq_refl).
        -- intros _. unfold mu. cbn [rd_bytes length]. lia.
      * rewrite (Hidle _ _ _ eq_refl). split; [reflexivity|discriminate].
      * rewrite (Hidle _ _ _ eq_refl). split; [reflexivity|discriminate].
      * rewrite (Hidle _ _ _ eq_refl). split; [reflexivity|discriminate].
  - injection E as <- <- <-.
    assert (X : classify (@RErr (option (header * N * bytes)) e) = KStop).
    { apply classify_err_not_io. exact (try_take_err_not_io _ _ _ _ Et). }
    rewrite X. split; [reflexivity|discriminate].
  - injection E as <- <- <-. cbn [classify]. split; [reflexivity|discriminate].
Qed.

(* ------------------------------------------------------------------------------------------- *)
(** * 6. drive: the results of successive calls, WouldBlocks dropped

   Stops at the first result that is neither a frame nor WouldBlock (end of file, any error, a panic),
   or when a call answers WouldBlock and the oracle is exhausted (it would answer WouldBlock for ever). *)

Fixpoint drive_raw (fuel : nat) (max : N) (c : codec) (rds : list rd_out) : list raw :=
  match fuel with
  | O => [ROutOfFuel]
  | S f =>
      let '(r, c', rds') := rfl max rds c in
      match classify r with
      | KFrame => r :: drive_raw f max c' rds'
      | KWB => match rds' with [] => [] | _ => drive_raw f max c' rds' end
      | KStop => [r]
      end
  end.

Theorem drive_raw_ref max : forall fuel c rds,
  (mu c rds < fuel)%nat ->
  drive_raw fuel max c rds = sview max c rds.
Proof.
  induction fuel as [|f IH]; intros c rds Hf; [lia|].
  cbn [drive_raw]. destruct (rfl max rds c) as [[r c'] rds'] eqn:E.
  pose proof (rfl_sview max _ _ _ _ _ E) as H.
  destruct (classify r).
  - destruct H as [H1 H2]. rewrite H1. f_equal. apply IH. lia.
  - destruct H as [H1 [H2 H3]]. rewrite H1. destruct rds' as [|o rds'].
    + symmetry. exact (H2 eq_refl).
    + apply IH. assert (X : o :: rds' <> []) by discriminate. specialize (H3 X). lia.
  - destruct H as [H1 _]. symmetry. exact H1.
Qed.

Corollary drive_raw_sched_indep max c rds1 rds2 f1 f2 :
  sched_data rds1 = sched_data rds2 ->
  @sched_term (header * N * bytes) rds1 = sched_term rds2 ->
  (mu c rds1 < f1)%nat -> (mu c rds2 < f2)%nat ->
  drive_raw f1 max c rds1 = drive_raw f2 max c rds2.
Proof.
  intros Hd Ht H1 H2. rewrite !drive_raw_ref by assumption. unfold sview. rewrite Hd, Ht. reflexivity.
Qed.

(** ** The terminal of a schedule as a value *)
Inductive terminal := TSilence | TEof | TErr (k : io_kind).

Fixpoint sched_end (rds : list rd_out) : terminal :=
  match rds with
  | [] => TSilence
  | RdData (_ :: _) :: r => sched_end r
  | RdErr WouldBlock :: r => sched_end r
  | RdData [] :: _ => TEof
  | RdEof :: _ => TEof
  | RdErr k :: _ => TErr k
  end.

Definition term_res {A : Type} (t : terminal) : list (res (option A)) :=
  match t with TSilence => [] | TEof => [ROk None] | TErr k => [RErr (EIo k)] end.

Lemma sched_term_end {A} rds : @sched_term A rds = term_res (sched_end rds).
Proof.
  induction rds as [|o r IH]; [reflexivity|].
  destruct o as [[|b bs]| |[]]; cbn [sched_term sched_end term_res]; try reflexivity; exact IH.
Qed.

(** ** read_frame = read_frame_loop + post-processing of the payload *)

Definition post_frame (unmask accept_unmasked : bool) (r : raw) : res (option frame) :=
  match r with
  | ROk (Some (h, len, payload)) =>
      if negb (blen payload =? len) then RPanic site_payload_len_assert else
      if unmask then
        match h_mask h with
        | Some k => ROk (Some (mkFrame (mkHeader (h_fin h) (h_rsv1 h) (h_rsv2 h) (h_rsv3 h) (h_opcode h) None)
                                       (apply_mask k payload)))
        | None => if accept_unmasked then ROk (Some (mkFrame h payload))
                  else RErr (EProtocol UnmaskedFrameFromClient)
        end
      else ROk (Some (mkFrame h payload))
  | ROk None => ROk None
  | RErr e => RErr e
  | RPanic s => RPanic s
  | ROutOfFuel => ROutOfFuel
  end.

Definition rfl_log (max : N) (rds : list rd_out) (c : codec) (log : list event) : list event :=
  let '(_, _, _, l) := read_frame_loop max rds c log in l.

Lemma read_frame_eq ms u a c w :
  read_frame ms u a c w =
  let '(r, c', rds') := rfl (limit_of ms) (w_rds w) c in
  (post_frame u a r, c',
   mkWorld rds' (w_wrs w) (w_fls w) (w_keys w) (rfl_log (limit_of ms) (w_rds w) c (w_log w))).
Proof.
  unfold read_frame, rfl_log. rewrite <- (rfl_of_loop _ _ _ (w_log w)).
  destruct (read_frame_loop (limit_of ms) (w_rds w) c (w_log w)) as [[[r c'] rds'] log'].
  cbn [drop_log]. destruct r as [[[[h len] p]|]|e|s|]; cbn [post_frame]; try reflexivity.
  destruct (negb _); [reflexivity|].
  destruct u; [|reflexivity]. destruct (h_mask h); [reflexivity|]. destruct a; reflexivity.
Qed.

(* the reference at the level of read_frame: post-process every frame, stop at the first failure *)
Fixpoint finish (u a : bool) (l : list raw) : list (res (option frame)) :=
  match l with
  | [] => []
  | r :: t =>
      match classify (post_frame u a r) with
      | KFrame => post_frame u a r :: finish u a t
      | _ => [post_frame u a r]
      end
  end.

Definition frames_ref (ms : option N) (u a : bool) (hdr : option (header * N)) (bs : bytes)
           (t : terminal) : list (res (option frame)) :=
  finish u a (ref_from (limit_of ms) hdr bs (term_res t)).

Fixpoint drive (fuel : nat) (ms : option N) (u a : bool) (c : codec) (w : world)
  : list (res (option frame)) :=
  match fuel with
  | O => [ROutOfFuel]
  | S f =>
      let '(r, c', w') := read_frame ms u a c w in
      match classify r with
      | KFrame => r :: drive f ms u a c' w'
      | KWB => match w_rds w' with [] => [] | _ => drive f ms u a c' w' end
      | KStop => [r]
      end
  end.

Lemma drive_finish ms u a : forall fuel c w,
  drive fuel ms u a c w = finish u a (drive_raw fuel (limit_of ms) c (w_rds w)).
Proof.
  induction fuel as [|f IH]; intros c w; [reflexivity|].
  cbn [drive drive_raw]. rewrite read_frame_eq.
  destruct (rfl (limit_of ms) (w_rds w) c) as [[r c'] rds'].
  destruct r as [[[[h len] p]|]|e|s|].
  - cbn [classify finish].
    destruct (classify (post_frame u a (ROk (Some (h, len, p))))) eqn:Ec; try reflexivity.
    + f_equal. rewrite IH. reflexivity.
    + exfalso. revert Ec. cbn [post_frame]. destruct (negb _); [discriminate|].
      destruct u; [|discriminate]. destruct (h_mask h); [discriminate|]. destruct a; discriminate.
  - reflexivity.
  - destruct e as [| |[]| | | |]; cbn [post_frame classify finish]; try reflexivity.
    cbn [w_rds]. destruct rds' as [|o rds']; [reflexivity|]. rewrite IH. reflexivity.
  - reflexivity.
  - reflexivity.
Qed.

(* MAIN THEOREM (frames): under every schedule the successive results of read_frame are those of the
   whole-stream reference decoder applied to  buffered bytes ++ data of the schedule, followed by the
   schedule's terminal. *)
Theorem drive_ref ms u a fuel c w :
  (mu c (w_rds w) < fuel)%nat ->
  drive fuel ms u a c w =
  frames_ref ms u a (c_hdr c) (c_in c ++ sched_data (w_rds w)) (sched_end (w_rds w)).
Proof.
  intros Hf. rewrite drive_finish, drive_raw_ref by exact Hf.
  unfold frames_ref, sview, view. rewrite sched_term_end. reflexivity.
Qed.

Corollary drive_sched_indep ms u a c w1 w2 f1 f2 :
  sched_data (w_rds w1) = sched_data (w_rds w2) ->
  sched_end (w_rds w1) = sched_end (w_rds w2) ->
  (mu c (w_rds w1) < f1)%nat -> (mu c (w_rds w2) < f2)%nat ->
  drive f1 ms u a c w1 = drive f2 ms u a c w2.
Proof. intros Hd Ht H1 H2. rewrite !drive_ref by assumption. rewrite Hd, Ht. reflexivity. Qed.

(* the result never contains OutOfFuel when the fuel is above the bound *)
Lemma finish_no_oof u a l : ~ In ROutOfFuel l -> ~ In ROutOfFuel (finish u a l).
Proof.
  induction l as [|r t IH]; intros H; [exact H|].
  assert (Hr : post_frame u a r <> ROutOfFuel).
  { destruct r as [[[[h len] p]|]|e|s|]; cbn [post_frame]; try discriminate.
    - destruct (negb _); [discriminate|]. destruct u; [|discriminate].
      destruct (h_mask h); [discriminate|]. destruct a; discriminate.
    - exfalso. apply H. left. reflexivity. }
  cbn [finish]. destruct (classify _).
  - intros [X|X]; [exact (Hr X)|]. revert X. apply IH. intros X. apply H. right. exact X.
  - intros [X|[]]. exact (Hr X).
  - intros [X|[]]. exact (Hr X).
Qed.

Lemma drive_no_oof ms u a fuel c w :
  (mu c (w_rds w) < fuel)%nat -> ~ In ROutOfFuel (drive fuel ms u a c w).
Proof.
  intros Hf. rewrite drive_ref by exact Hf. unfold frames_ref.
  apply finish_no_oof, ref_from_no_oof.
  destruct (sched_end (w_rds w)); cbn [term_res]; intros X; repeat destruct X as [X|X]; try discriminate; exact X.
Qed.

(* ------------------------------------------------------------------------------------------- *)
(** * 7. WouldBlock is a no-op; from_partially_read *)

Lemma try_take_needmore_fields max c n c' :
  try_take max c = TkNeedMore n c' ->
  c_out c' = c_out c /\ c_max_out c' = c_max_out c /\ c_write_len c' = c_write_len c.
Proof.
  rewrite try_take_eq. unfold held. destruct (c_hdr c) as [[h len]|].
  - destruct (max <? len); [discriminate|]. destruct (len <=? _); [discriminate|].
    intros X. injection X as _ <-. auto.
  - destruct (header_parse (c_in c)) as [h len k| |i|]; try discriminate.
    + destruct (max <? len); [discriminate|]. destruct (len <=? _); [discriminate|].
      intros X. injection X as _ <-. cbn. auto.
    + intros X. injection X as _ <-. auto.
Qed.

Definition nonempty (ch : bytes) : Prop := ch <> [].

(* A call that answers WouldBlock took some chunks [chunks] from the oracle and then either met a
   WouldBlock entry or exhausted the oracle.  The new state decodes every continuation [d] of the
   stream exactly as the old state decodes [chunks ++ d]: nothing lost, nothing seen twice. *)
Lemma rfl_wb_trace max : forall rds c c' rds',
  rfl max rds c = (RErr (EIo WouldBlock), c', rds') ->
  exists chunks,
    (rds = map RdData chunks ++ RdErr WouldBlock :: rds' \/ (rds = map RdData chunks /\ rds' = [])) /\
    Forall nonempty chunks /\
    (forall d T, view max c' d T = view max c (concat chunks ++ d) T) /\
    c_out c' = c_out c /\ c_max_out c' = c_max_out c /\ c_write_len c' = c_write_len c.
Proof.
  induction rds as [|o rest IH]; intros c c' rds' E; rewrite rfl_eq in E;
    pose proof (fun d T => view_try_take max c d T) as Hv;
    pose proof (try_take_needmore_fields max c) as Hfld;
    destruct (try_take max c) as [h len p c1|n c1|e c1|s] eqn:Et; try discriminate.
  - injection E as <- <-. exists []. cbn [map concat app]. split; [right; auto|].
    split; [constructor|]. split; [intros d T; symmetry; apply Hv|]. exact (Hfld _ _ eq_refl).
  - exfalso. injection E as E _ _. exact (try_take_err_not_io _ _ _ _ Et WouldBlock E).
  - destruct o as [[|b bs]| |k]; try discriminate.
    + destruct (IH _ _ _ E) as [chunks [Hs [Hne [Hview Hf]]]].
      exists ((b :: bs) :: chunks). split.
      { destruct Hs as [Hs|[Hs1 Hs2]]; [left|right]; cbn [map app]; [rewrite Hs|rewrite Hs1]; auto. }
      split. { constructor; [discriminate|exact Hne]. }
      split.
      { intros d T. rewrite Hview, Hv. unfold view. cbn [c_hdr c_in set_in concat].
        rewrite <- !app_assoc. reflexivity. }
      destruct (Hfld _ _ eq_refl) as [F1 [F2 F3]]. cbn [c_out c_max_out c_write_len set_in] in Hf.
      destruct Hf as [G1 [G2 G3]]. rewrite G1, G2, G3. auto.
    + injection E as -> <- <-. exists []. cbn [map concat app].
      split; [left; reflexivity|]. split; [constructor|].
      split; [intros d T; symmetry; apply Hv|]. exact (Hfld _ _ eq_refl).
  - exfalso. injection E as E _ _. exact (try_take_err_not_io _ _ _ _ Et WouldBlock E).
Qed.

Lemma sched_data_chunks chunks rest :
  Forall nonempty chunks -> sched_data (map RdData chunks ++ rest) = concat chunks ++ sched_data rest.
Proof.
  induction 1 as [|ch chunks Hc _ IH]; [reflexivity|].
  destruct ch as [|b bs]; [exfalso; exact (Hc eq_refl)|].
  cbn [map app sched_data concat]. rewrite IH. rewrite <- app_assoc. reflexivity.
Qed.

Lemma sched_end_chunks chunks rest :
  Forall nonempty chunks -> sched_end (map RdData chunks ++ rest) = sched_end rest.
Proof.
  induction 1 as [|ch chunks Hc _ IH]; [reflexivity|].
  destruct ch as [|b bs]; [exfalso; exact (Hc eq_refl)|]. exact IH.
Qed.

Lemma post_frame_wb u a r : post_frame u a r = RErr (EIo WouldBlock) -> r = RErr (EIo WouldBlock).
Proof.
  destruct r as [[[[h len] p]|]|e|s|]; cbn [post_frame]; try discriminate.
  - destruct (negb _); [discriminate|]. destruct u; [|discriminate].
    destruct (h_mask h); [discriminate|]. destruct a; discriminate.
  - intros X. injection X as ->. reflexivity.
Qed.

(* what a WouldBlock-returning read_frame does to the state *)
Theorem read_frame_wouldblock_state ms u a c w c' w' :
  read_frame ms u a c w = (RErr (EIo WouldBlock), c', w') ->
  exists chunks,
    (w_rds w = map RdData chunks ++ RdErr WouldBlock :: w_rds w' \/
     (w_rds w = map RdData chunks /\ w_rds w' = [])) /\
    Forall nonempty chunks /\
    (forall d t, frames_ref ms u a (c_hdr c') (c_in c' ++ d) t =
                 frames_ref ms u a (c_hdr c) (c_in c ++ concat chunks ++ d) t) /\
    c_out c' = c_out c /\ c_max_out c' = c_max_out c /\ c_write_len c' = c_write_len c /\
    w_wrs w' = w_wrs w /\ w_fls w' = w_fls w /\ w_keys w' = w_keys w.
Proof.
  rewrite read_frame_eq. destruct (rfl (limit_of ms) (w_rds w) c) as [[r c1] rds1] eqn:E.
  intros X. injection X as Hr <- <-. apply post_frame_wb in Hr. subst r.
  destruct (rfl_wb_trace _ _ _ _ _ E) as [chunks [Hs [Hne [Hview [F1 [F2 F3]]]]]].
  exists chunks. cbn [w_rds w_wrs w_fls w_keys].
  split; [exact Hs|]. split; [exact Hne|]. split.
  { intros d t. unfold frames_ref. f_equal. apply (Hview d (term_res t)). }
  auto 10.
Qed.

(* retrying after WouldBlock continues exactly where the call stopped: the results from the state
   after the call are the results from the state before it, and also the results from the state
   before it under the schedule from which that WouldBlock was removed *)
Theorem drive_wouldblock_noop ms u a c w c' w' f f' :
  read_frame ms u a c w = (RErr (EIo WouldBlock), c', w') ->
  (mu c' (w_rds w') < f')%nat -> (mu c (w_rds w) < f)%nat ->
  drive f' ms u a c' w' = drive f ms u a c w.
Proof.
  intros E H1 H2.
  destruct (read_frame_wouldblock_state _ _ _ _ _ _ _ E) as [chunks [Hs [Hne [Hview _]]]].
  rewrite !drive_ref by assumption. rewrite Hview.
  destruct Hs as [Hs|[Hs1 Hs2]].
  - rewrite Hs. rewrite sched_data_chunks, sched_end_chunks by exact Hne. reflexivity.
  - rewrite Hs1, Hs2. rewrite <- (app_nil_r (map RdData chunks)).
    rewrite sched_data_chunks, sched_end_chunks by exact Hne. reflexivity.
Qed.

Theorem drive_wouldblock_removed ms u a c w c' w' f f' :
  read_frame ms u a c w = (RErr (EIo WouldBlock), c', w') ->
  forall chunks, w_rds w = map RdData chunks ++ RdErr WouldBlock :: w_rds w' ->
  Forall nonempty chunks ->
  let w0 := w_set_rds w (map RdData chunks ++ w_rds w') in
  (mu c' (w_rds w') < f')%nat -> (mu c (w_rds w0) < f)%nat ->
  drive f' ms u a c' w' = drive f ms u a c w0.
Proof.
  intros E chunks Hs Hne w0 H1 H2.
  assert (H3 : (mu c (w_rds w) < S (mu c (w_rds w)))%nat) by lia.
  rewrite (drive_wouldblock_noop _ _ _ _ _ _ _ _ _ E H1 H3).
  apply drive_sched_indep; try assumption.
  - rewrite Hs. unfold w0. cbn [w_rds w_set_rds]. rewrite !sched_data_chunks by exact Hne. reflexivity.
  - rewrite Hs. unfold w0. cbn [w_rds w_set_rds]. rewrite !sched_end_chunks by exact Hne. reflexivity.
Qed.

(* from_partially_read: a codec created on already-read bytes p, then the schedule, is the reference
   on p ++ data, hence equal to a fresh codec under any schedule delivering p ++ data *)
Theorem drive_partially_read_ref ms u a p w f :
  (mu (codec_new p) (w_rds w) < f)%nat ->
  drive f ms u a (codec_new p) w = frames_ref ms u a None (p ++ sched_data (w_rds w)) (sched_end (w_rds w)).
Proof. intros H. rewrite drive_ref by exact H. reflexivity. Qed.

Theorem drive_partially_read ms u a p w w0 f f0 :
  sched_data (w_rds w0) = p ++ sched_data (w_rds w) ->
  sched_end (w_rds w0) = sched_end (w_rds w) ->
  (mu (codec_new p) (w_rds w) < f)%nat -> (mu (codec_new []) (w_rds w0) < f0)%nat ->
  drive f ms u a (codec_new p) w = drive f0 ms u a (codec_new []) w0.
Proof.
  intros Hd Ht H1 H2. rewrite !drive_ref by assumption.
  cbn [codec_new c_hdr c_in app]. rewrite Hd, Ht. reflexivity.
Qed.

(* the debug assertion on the payload length never fires on an item of the reference decoder *)
Lemma ref_fresh_payload_len max term :
  (forall h len p, In (ROk (Some (h, len, p))) term -> blen p = len) ->
  forall f bs h len p, In (ROk (Some (h, len, p))) (ref_fresh f max bs term) -> blen p = len.
Proof.
  intros HT f. induction f as [|f IH]; intros bs h len p Hin.
  - destruct Hin as [X|[]]; discriminate.
  - cbn [ref_fresh] in Hin. unfold ref_step in Hin.
    destruct (header_parse bs) as [h0 len0 k| |i|].
    + unfold ref_body in Hin. destruct (max <? len0). { destruct Hin as [X|[]]; discriminate. }
      destruct (len0 <=? blen (dropN k bs)) eqn:El; [|exact (HT _ _ _ Hin)].
      destruct Hin as [X|X].
      * injection X as <- <- <-. apply blen_takeN. lia.
      * exact (IH _ _ _ _ X).
    + exact (HT _ _ _ Hin).
    + destruct Hin as [X|[]]; discriminate.
    + destruct Hin as [X|[]]; discriminate.
Qed.

(* ------------------------------------------------------------------------------------------- *)
(** * 8. Message level: Protocol.read *)

(** ** 8.1 reads = successive read results, WouldBlocks dropped, up to the first error *)

Fixpoint reads (fuel : nat) (x : ctx) (w : world) : list (res message) :=
  match fuel with
  | O => [ROutOfFuel]
  | S f =>
      let '(r, x', w') := read x w in
      match r with
      | ROk m => r :: reads f x' w'
      | RErr (EIo WouldBlock) => match w_rds w' with [] => [] | _ => reads f x' w' end
      | _ => [r]
      end
  end.

(** ** 8.2 The unrestricted statement is false in the model.
   Server, write_buffer_size 100, max_write_buffer_size 101.  A 96-byte Binary message is written: its
   98-byte frame stays in out_buffer (below write_buffer_size, nothing is sent).  The peer sends a Close
   frame followed by an (illegal) empty Text frame.  The 4-byte Close reply does not fit next to the 98
   queued bytes, so the first flush attempt re-parks it (and drains out_buffer).
   - whole stream at once: the next loop iteration reads the Text frame: ReceivedAfterClosing;
   - a WouldBlock between the two frames: read returns WouldBlock, the next read call retries the reply,
     it fits now, the server tail of _write terminates: ConnectionClosed.                          *)
Definition cx_cfg : config := mkConfig 100 101 None None false.
Definition cx_close : bytes := [136; 130; 0; 0; 0; 0; 3; 232].
Definition cx_text : bytes := [129; 128; 0; 0; 0; 0].
Definition cx_world (rds : list rd_out) : world :=
  mkWorld rds (repeat (WrAccept 1000) 10) (repeat FlOk 10) [] [].
Definition cx_whole : list rd_out := [RdData (cx_close ++ cx_text)].
Definition cx_cut : list rd_out := [RdData cx_close; RdErr WouldBlock; RdData cx_text].
Definition cx_run (rds : list rd_out) : option (res unit * list (res message)) :=
  match ctx_new Server [] cx_cfg with
  | Some x0 =>
      let '(r, x, w) := write x0 (MBinary (repeat 0 96%nat)) (cx_world rds) in
      Some (r, reads 50 x w)
  | None => None
  end.

Lemma messages_refuted :
  sched_data cx_whole = sched_data cx_cut /\ sched_end cx_whole = sched_end cx_cut /\
  cx_run cx_whole = Some (ROk tt, [ROk (MClose (Some (CNormal, []))); RErr (EProtocol ReceivedAfterClosing)]) /\
  cx_run cx_cut = Some (ROk tt, [ROk (MClose (Some (CNormal, []))); RErr EConnectionClosed]).
Proof. vm_compute. repeat split; reflexivity. Qed.

(** ** 8.3 One iteration of read's loop = pre_step ; read_frame ; on_frame *)

(* what the loop does before read_message_frame: flush pending replies / server termination *)
Definition pre_step (x : ctx) (w : world) : res unit * ctx * world :=
  if (match x_additional x with Some _ => true | None => false end) || x_unflushed x then
    let '(r, x', w') := flush x w in
    match r with
    | ROk _ => (ROk tt, x', w')
    | RErr (EIo WouldBlock) => (ROk tt, set_unflushed x' true, w')
    | _ => (r, x', w')
    end
  else if role_eqb (x_role x) Server && negb (can_read (x_state x)) then
    let '(rw, c', w') := write_out_buffer (x_codec x) w in
    match rw with
    | ROk _ => (RErr EConnectionClosed, set_state (set_codec x c') Terminated, w')
    | _ => (rw, set_codec x c', w')
    end
  else (ROk tt, x, w).

Lemma read_loop_S f x w :
  read_loop (S f) x w =
  let '(r0, x0, w0) := pre_step x w in
  match r0 with
  | ROk _ =>
      let '(r1, x1, w1) := read_message_frame x0 w0 in
      match r1 with
      | ROk (Some m) => (ROk m, x1, w1)
      | ROk None => read_loop f x1 w1
      | RErr e => (RErr e, x1, w1)
      | RPanic s => (RPanic s, x1, w1)
      | ROutOfFuel => (ROutOfFuel, x1, w1)
      end
  | RErr e => (RErr e, x0, w0)
  | RPanic s => (RPanic s, x0, w0)
  | ROutOfFuel => (ROutOfFuel, x0, w0)
  end.
Proof. reflexivity. Qed.

(* what read_message_frame does with the result of read_frame: a pure function of the context *)
Definition on_frame (x1 : ctx) (r0' : res (option frame)) : res (option message) * ctx :=
  match r0' with
  | RErr e => (RErr e, x1)
  | RPanic s => (RPanic s, x1)
  | ROutOfFuel => (ROutOfFuel, x1)
  | ROk None =>
      let x2 := set_state x1 Terminated in
      match x_state x1 with
      | ClosedByPeer | CloseAcknowledged => (RErr EConnectionClosed, x2)
      | _ => (RErr (EProtocol ResetWithoutClosingHandshake), x2)
      end
  | ROk (Some f) =>
      let h := f_hdr f in
      if negb (can_read (x_state x1)) then (RErr (EProtocol ReceivedAfterClosing), x1) else
      if h_rsv1 h || h_rsv2 h || h_rsv3 h then (RErr (EProtocol NonZeroReservedBits), x1) else
      if role_eqb (x_role x1) Client && (match h_mask h with Some _ => true | None => false end)
      then (RErr (EProtocol MaskedFrameFromServer), x1) else
      match h_opcode h with
      | OCtl ctl =>
          if negb (h_fin h) then (RErr (EProtocol FragmentedControlFrame), x1) else
          if 125 <? blen (f_payload f) then (RErr (EProtocol ControlFrameTooBig), x1) else
          match ctl with
          | Close =>
              match frame_into_close (f_payload f) with
              | ROk cl =>
                  let '(r, x2) := do_close x1 cl in
                  match r with
                  | ROk (Some c) => (ROk (Some (MClose c)), x2)
                  | ROk None => (ROk None, x2)
                  | RErr e => (RErr e, x2)
                  | RPanic s => (RPanic s, x2)
                  | ROutOfFuel => (ROutOfFuel, x2)
                  end
              | RErr e => (RErr e, x1)
              | RPanic s => (RPanic s, x1)
              | ROutOfFuel => (ROutOfFuel, x1)
              end
          | CReserved i => (RErr (EProtocol (UnknownControlFrameType i)), x1)
          | Ping =>
              let x2 := if is_active (x_state x1) then set_additional x1 (frame_pong (f_payload f)) else x1 in
              (ROk (Some (MPing (f_payload f))), x2)
          | Pong => (ROk (Some (MPong (f_payload f))), x1)
          end
      | OData d =>
          let fin := h_fin h in
          match d with
          | Continue =>
              match x_incomplete x1 with
              | Some msg =>
                  let '(r, msg') := incmsg_extend msg (f_payload f) (cfg_max_message_size (x_cfg x1)) in
                  let x2 := set_incomplete x1 (Some msg') in
                  match r with
                  | ROk _ =>
                      if fin then
                        match incmsg_complete msg' with
                        | ROk m => (ROk (Some m), set_incomplete x2 None)
                        | RErr e => (RErr e, set_incomplete x2 None)
                        | RPanic s => (RPanic s, x2)
                        | ROutOfFuel => (ROutOfFuel, x2)
                        end
                      else (ROk None, x2)
                  | RErr e => (RErr e, x2)
                  | RPanic s => (RPanic s, x2)
                  | ROutOfFuel => (ROutOfFuel, x2)
                  end
              | None => (RErr (EProtocol UnexpectedContinueFrame), x1)
              end
          | _ =>
              match x_incomplete x1 with
              | Some _ => (RErr (EProtocol (ExpectedFragment d)), x1)
              | None =>
                  match d with
                  | DReserved i => (RErr (EProtocol (UnknownDataFrameType i)), x1)
                  | Continue => (RPanic site_not_text_nor_binary, x1)
                  | Text | Binary =>
                      if fin then
                        match check_max_size (blen (f_payload f)) (cfg_max_message_size (x_cfg x1)) with
                        | ROk _ =>
                            match d with
                            | Text => if is_utf8 (f_payload f) then (ROk (Some (MText (f_payload f))), x1)
                                      else (RErr EUtf8, x1)
                            | _ => (ROk (Some (MBinary (f_payload f))), x1)
                            end
                        | RErr e => (RErr e, x1)
                        | RPanic s => (RPanic s, x1)
                        | ROutOfFuel => (ROutOfFuel, x1)
                        end
                      else
                        let inc0 := match d with Text => ITxt collector_new | _ => IBin [] end in
                        let '(r, inc1) := incmsg_extend inc0 (f_payload f) (cfg_max_message_size (x_cfg x1)) in
                        match r with
                        | ROk _ => (ROk None, set_incomplete x1 (Some inc1))
                        | RErr e => (RErr e, x1)
                        | RPanic s => (RPanic s, x1)
                        | ROutOfFuel => (ROutOfFuel, x1)
                        end
                  end
              end
          end
      end
  end.

Ltac head_destruct :=
  repeat (match goal with
          | |- (if ?b then _ else _) = _ => destruct b
          | |- (match ?t with _ => _ end) = _ => destruct t
          | |- (let '(_, _) := ?t in _) = _ => destruct t
          end; try reflexivity).

Lemma read_message_frame_eq x w :
  read_message_frame x w =
  let '(r0, c1, w1) := read_frame (cfg_max_frame_size (x_cfg x)) (role_eqb (x_role x) Server)
                                  (cfg_accept_unmasked (x_cfg x)) (x_codec x) w in
  let '(r0', s1) := check_connection_reset r0 (x_state x) in
  let '(r, x2) := on_frame (set_state (set_codec x c1) s1) r0' in
  (r, x2, w1).
Proof.
  unfold read_message_frame.
  destruct (read_frame _ _ _ _ _) as [[r0 c1] w1].
  destruct (check_connection_reset r0 (x_state x)) as [r0' s1].
  unfold on_frame. cbv zeta.
  head_destruct.
Qed.

(** ** 8.4 An accepting write side
   Every write accepts at least max_write_buffer_size bytes (so a whole out_buffer at once), every flush
   succeeds, and the oracle lists are long enough (an exhausted list would mean WouldBlock). *)

Definition acc_wr (B : N) (o : wr_out) : Prop :=
  match o with WrAccept n => B <= n | WrErr _ => False end.

Definition wgood (B : N) (a b : nat) (w : world) : Prop :=
  Forall (acc_wr B) (w_wrs w) /\ Forall (fun o => o = FlOk) (w_fls w) /\
  (a <= length (w_wrs w))%nat /\ (b <= length (w_fls w))%nat.

(* w' is w after at most a writes and b flushes; the read oracle is untouched *)
Definition wadv (a b : nat) (w w' : world) : Prop :=
  w_rds w' = w_rds w /\
  (exists i, (i <= a)%nat /\ w_wrs w' = skipn i (w_wrs w)) /\
  (exists j, (j <= b)%nat /\ w_fls w' = skipn j (w_fls w)).

Lemma wadv_refl w : wadv 0 0 w w.
Proof. split; [reflexivity|]. split; exists 0%nat; split; try lia; reflexivity. Qed.

Lemma skipn_skipn' {A} i : forall (l : list A) i', skipn i' (skipn i l) = skipn (i + i') l.
Proof.
  induction i as [|i IH]; intros l i'; [reflexivity|].
  destruct l as [|y l]; [rewrite !skipn_nil; reflexivity|]. cbn [skipn Nat.add]. apply IH.
Qed.

Lemma wadv_trans a b a' b' w w' w'' :
  wadv a b w w' -> wadv a' b' w' w'' -> wadv (a + a') (b + b') w w''.
Proof.
  intros [R1 [[i [Hi W1]] [j [Hj F1]]]] [R2 [[i' [Hi' W2]] [j' [Hj' F2]]]].
  split; [congruence|]. split.
  - exists (i + i')%nat. split; [lia|]. rewrite W2, W1. apply skipn_skipn'.
  - exists (j + j')%nat. split; [lia|]. rewrite F2, F1. apply skipn_skipn'.
Qed.

Lemma wadv_weaken a b a' b' w w' : wadv a b w w' -> (a <= a')%nat -> (b <= b')%nat -> wadv a' b' w w'.
Proof.
  intros [R1 [[i [Hi W1]] [j [Hj F1]]]] Ha Hb. split; [exact R1|].
  split; [exists i|exists j]; split; try lia; assumption.
Qed.

Lemma Forall_skipn {A} (P : A -> Prop) n : forall l, Forall P l -> Forall P (skipn n l).
Proof.
  induction n as [|n IH]; intros l H; [exact H|].
  destruct l as [|y l]; [exact H|]. cbn [skipn]. apply IH. inversion H; assumption.
Qed.

Lemma wgood_adv B a b a' b' w w' :
  wgood B (a + a') (b + b') w -> wadv a b w w' -> wgood B a' b' w'.
Proof.
  intros [G1 [G2 [G3 G4]]] [R1 [[i [Hi W1]] [j [Hj F1]]]].
  unfold wgood. rewrite W1, F1. rewrite !skipn_length.
  split; [apply Forall_skipn; exact G1|]. split; [apply Forall_skipn; exact G2|]. lia.
Qed.

Lemma wgood_weaken B a b a' b' w : wgood B a b w -> (a' <= a)%nat -> (b' <= b)%nat -> wgood B a' b' w.
Proof. intros [G1 [G2 [G3 G4]]] Ha Hb. unfold wgood. repeat split; try assumption; lia. Qed.

Lemma dropN_all {A} (l : list A) : dropN (blen l) l = [].
Proof. unfold dropN, blen. rewrite Nnat.Nat2N.id. apply skipn_all. Qed.

Lemma wol_nil wrs log : write_out_loop wrs [] log = (ROk tt, [], wrs, log).
Proof. destruct wrs; reflexivity. Qed.

Lemma wol_acc B out wrs log :
  blen out <= B -> Forall (acc_wr B) wrs -> (1 <= length wrs)%nat ->
  exists i log', (i <= 1)%nat /\ write_out_loop wrs out log = (ROk tt, [], skipn i wrs, log').
Proof.
  intros Hb Hacc Hlen. destruct out as [|b out'].
  - exists 0%nat, log. split; [lia|]. apply wol_nil.
  - destruct wrs as [|o r]; [cbn [length] in Hlen; lia|].
    inversion Hacc as [|o' r' Ho Hr]; subst. destruct o as [n|k]; [|destruct Ho].
    cbn [acc_wr] in Ho. cbn [write_out_loop].
    assert (Hmin : N.min n (blen (b :: out')) = blen (b :: out')) by lia. rewrite Hmin.
    destruct (blen (b :: out') =? 0) eqn:E0. { unfold blen in E0. cbn [length] in E0. lia. }
    rewrite dropN_all, wol_nil. exists 1%nat. eexists. split; [lia|]. reflexivity.
Qed.

Lemma wob_acc B c w :
  blen (c_out c) <= B -> wgood B 1 0 w ->
  exists w', write_out_buffer c w = (ROk tt, set_out c [], w') /\ wadv 1 0 w w' /\ w_keys w' = w_keys w.
Proof.
  intros Hb [G1 [_ [G3 _]]]. unfold write_out_buffer.
  destruct (wol_acc B (c_out c) (w_wrs w) (w_log w) Hb G1 G3) as [i [log' [Hi E]]].
  rewrite E. eexists. split; [reflexivity|]. split; [|reflexivity].
  split; [reflexivity|]. cbn [w_wrs w_fls]. split; [exists i; auto|]. exists 0%nat. split; [lia|reflexivity].
Qed.

(* length of what buffer_frame appends *)
Lemma length_to_be w v : length (to_be w v) = w.
Proof. revert v. induction w as [|w IH]; intros v; [reflexivity|]. cbn [to_be]. rewrite app_length, IH. cbn. lia. Qed.

Lemma length_xor_cyc bs : forall k, length (xor_cyc k bs) = length bs.
Proof. induction bs as [|b r IH]; intros k; [reflexivity|]. cbn [xor_cyc length]. rewrite IH. reflexivity. Qed.

Lemma blen_header_format h n : blen (header_format h n) = header_len h n.
Proof.
  unfold header_format, header_len, blen. cbv zeta. rewrite !app_length. cbn [length].
  assert (H1 : length (match lf_for_length n with LU8 _ => [] | LU16 => to_be 2 (n mod 65536) | LU64 => to_be 8 n end)
               = N.to_nat (lf_extra (lf_for_length n))).
  { destruct (lf_for_length n); cbn [lf_extra]; rewrite ?length_to_be; reflexivity. }
  rewrite H1. destruct (h_mask h) as [[[[k0 k1] k2] k3]|]; cbn [key_bytes length]; lia.
Qed.

Lemma blen_format_into_buf buf f : blen (frame_format_into_buf buf f) = blen buf + frame_len f.
Proof.
  unfold frame_format_into_buf, frame_len. cbv zeta.
  destruct (h_mask (f_hdr f)) as [k|].
  - unfold apply_mask. unfold blen at 1. rewrite app_length, length_xor_cyc.
    rewrite <- app_length. rewrite takeN_dropN. fold (blen ((buf ++ header_format (f_hdr f) (blen (f_payload f))) ++ f_payload f)).
    rewrite !blen_app, blen_header_format. lia.
  - rewrite !blen_app, blen_header_format. lia.
Qed.

Lemma cbf_full c f w :
  c_max_out c <? frame_len f + blen (c_out c) = true ->
  codec_buffer_frame c f w = (RErr (EWriteBufferFull f), c, w).
Proof. intros H. unfold codec_buffer_frame. rewrite H. reflexivity. Qed.

Lemma cbf_acc B c f w :
  c_max_out c = B -> wgood B 1 0 w ->
  c_max_out c <? frame_len f + blen (c_out c) = false ->
  exists o' w', codec_buffer_frame c f w = (ROk tt, set_out c o', w') /\ blen o' <= B /\
                wadv 1 0 w w' /\ w_keys w' = w_keys w.
Proof.
  intros HB G Hfull. unfold codec_buffer_frame. rewrite Hfull. cbv zeta.
  assert (Hlen : blen (frame_format_into_buf (c_out c) f) <= B).
  { rewrite blen_format_into_buf. lia. }
  destruct (c_write_len c <? _).
  - destruct (wob_acc B (set_out c (frame_format_into_buf (c_out c) f)) (w_emit w (EvQueue f)) Hlen G)
      as [w' [E [Hadv Hk]]].
    rewrite E. exists [], w'. split; [reflexivity|]. split; [unfold blen; cbn; lia|]. split; assumption.
  - eexists. eexists. split; [reflexivity|]. split; [exact Hlen|]. split; [|reflexivity].
    apply (wadv_weaken 0 0); [|lia|lia]. split; [reflexivity|].
    split; exists 0%nat; split; try lia; reflexivity.
Qed.

(** ** 8.5 flush and pre_step under an accepting write side are pure functions of the context *)

Definition next_key (w : world) : key := fst (w_next_key w).

(* buffer_frame's masking step *)
Definition mask_for (r : role) (k : key) (f : frame) : frame :=
  match r with
  | Server => f
  | Client => mkFrame (mkHeader (h_fin (f_hdr f)) (h_rsv1 (f_hdr f)) (h_rsv2 (f_hdr f)) (h_rsv3 (f_hdr f))
                                (h_opcode (f_hdr f)) (Some k)) (f_payload f)
  end.

Definition drained (x : ctx) : ctx := set_codec x (set_out (x_codec x) []).

(* _write sets unflushed_additional when it moves the additional frame into out_buffer; a successful
   flush clears it again, so the flag survives only in the server-closing (ConnectionClosed) arm *)
Definition flush_pure (x : ctx) (k : key) : res unit * ctx :=
  let c := x_codec x in
  let closing := role_eqb (x_role x) Server && closing_done (x_state x) in
  match x_additional x with
  | None =>
      if closing then (RErr EConnectionClosed, set_state (drained x) Terminated)
      else (ROk tt, set_unflushed (drained x) false)
  | Some msg =>
      let f1 := mask_for (x_role x) k msg in
      if c_max_out c <? frame_len f1 + blen (c_out c) then
        (ROk tt, set_unflushed (drained (set_additional_raw x (Some f1))) false)
      else if closing then (RErr EConnectionClosed, set_state (drained (set_unflushed (set_additional_raw x None) true)) Terminated)
      else (ROk tt, set_unflushed (drained (set_additional_raw x None)) false)
  end.

Lemma w_flush_ok w : wgood 0 0 1 w \/ (exists B a, wgood B a 1 w) ->
  exists w', w_flush w = (ROk tt, w') /\ wadv 0 1 w w' /\ w_keys w' = w_keys w.
Proof.
  intros H. assert (G : Forall (fun o => o = FlOk) (w_fls w) /\ (1 <= length (w_fls w))%nat).
  { destruct H as [[_ [G2 [_ G4]]]|[B [a [_ [G2 [_ G4]]]]]]; auto. }
  destruct G as [G2 G4]. unfold w_flush. destruct (w_fls w) as [|o r] eqn:E; [cbn in G4; lia|].
  inversion G2 as [|o' r' Ho Hr]; subst. eexists. split; [reflexivity|]. split; [|reflexivity].
  split; [reflexivity|]. cbn [w_emit w_set_fls w_wrs w_fls]. split.
  - exists 0%nat. split; [lia|reflexivity].
  - exists 1%nat. split; [lia|]. rewrite E. reflexivity.
Qed.

Lemma buffer_frame_key x f w :
  buffer_frame x f w =
  let w1 := match x_role x with Server => w | Client => snd (w_next_key w) end in
  let '(r, c', w2) := codec_buffer_frame (x_codec x) (mask_for (x_role x) (next_key w) f) w1 in
  let '(r', s') := check_connection_reset r (x_state x) in
  (r', set_state (set_codec x c') s', w2).
Proof.
  unfold buffer_frame, mask_for, next_key. destruct (x_role x); [reflexivity|].
  destruct (w_next_key w) as [k w']. reflexivity.
Qed.

Lemma next_key_world w : let w1 := snd (w_next_key w) in
  w_rds w1 = w_rds w /\ w_wrs w1 = w_wrs w /\ w_fls w1 = w_fls w.
Proof. unfold w_next_key. destruct (w_keys w); cbn; auto. Qed.

Ltac ctx_cbn :=
  cbn [check_connection_reset set_additional set_additional_raw set_state set_codec set_unflushed set_out
       x_additional x_role x_state x_codec x_unflushed x_incomplete x_cfg
       c_in c_out c_max_out c_write_len c_hdr fst snd drained].

Lemma flush_acc B x w :
  c_max_out (x_codec x) = B -> blen (c_out (x_codec x)) <= B -> wgood B 2 1 w ->
  exists w', flush x w = (fst (flush_pure x (next_key w)), snd (flush_pure x (next_key w)), w') /\
             wadv 2 1 w w'.
Proof.
  intros HB Hout G.
  destruct x as [role c st inc add unfl cfg]. destruct c as [cin out maxo wl hdr].
  cbn [x_codec c_max_out c_out] in HB, Hout. subst maxo.
  assert (Hnil : blen (@nil N) <= B) by (unfold blen; cbn [length]; lia).
  unfold flush, write_, flush_pure. ctx_cbn.
  destruct add as [msg|].
  - rewrite buffer_frame_key. cbv zeta. ctx_cbn.
    set (w1 := match role with Server => w | Client => snd (w_next_key w) end).
    assert (G1 : wgood B 2 1 w1).
    { unfold w1. destruct role; [exact G|]. destruct (next_key_world w) as [_ [A1 A2]].
      unfold wgood. rewrite A1, A2. exact G. }
    assert (Hadv1 : wadv 0 0 w w1).
    { unfold w1. destruct role; [apply wadv_refl|]. destruct (next_key_world w) as [A0 [A1 A2]].
      split; [exact A0|]. split; exists 0%nat; split; try lia; cbn [skipn]; assumption. }
    clearbody w1.
    set (f1 := mask_for role (next_key w) msg). clearbody f1.
    destruct (B <? frame_len f1 + blen out) eqn:Efull.
    + rewrite cbf_full by (cbn [c_max_out c_out]; exact Efull). ctx_cbn.
      rewrite Bool.andb_false_r.
      match goal with |- context [write_out_buffer ?c ?ww] =>
        destruct (wob_acc B c ww Hout (wgood_weaken _ _ _ 1 0 _ G1 ltac:(lia) ltac:(lia))) as [w2 [E2 [A2 K2]]] end.
      rewrite E2.
      destruct (w_flush_ok w2) as [w3 [E3 [A3 K3]]].
      { right. exists B, 1%nat. apply (wgood_adv B 1 0 1 1 w1 w2 G1 A2). }
      rewrite E3. exists w3. split; [reflexivity|].
      apply (wadv_weaken (0 + (1 + 0)) (0 + (0 + 1))); [|lia|lia].
      eapply wadv_trans; [exact Hadv1|]. eapply wadv_trans; [exact A2|exact A3].
    + destruct (cbf_acc B {| c_in := cin; c_out := out; c_max_out := B; c_write_len := wl; c_hdr := hdr |} f1 w1
                        eq_refl (wgood_weaken _ _ _ 1 0 _ G1 ltac:(lia) ltac:(lia)) Efull)
        as [o' [w2 [E2 [Ho' [A2 K2]]]]].
      rewrite E2. ctx_cbn. rewrite Bool.andb_true_r.
      assert (G2 : wgood B 1 1 w2) by (apply (wgood_adv B 1 0 1 1 w1 w2 G1 A2)).
      destruct (role_eqb role Server && closing_done st) eqn:Ecl.
      * match goal with |- context [write_out_buffer ?c ?ww] =>
          destruct (wob_acc B c ww Ho' (wgood_weaken _ _ _ 1 0 _ G2 ltac:(lia) ltac:(lia))) as [w3 [E3 [A3 K3]]] end.
        rewrite E3. exists w3. split; [reflexivity|].
        apply (wadv_weaken (0 + (1 + 1)) (0 + (0 + 0))); [|lia|lia].
        eapply wadv_trans; [exact Hadv1|]. eapply wadv_trans; [exact A2|exact A3].
      * ctx_cbn.
        match goal with |- context [write_out_buffer ?c ?ww] =>
          destruct (wob_acc B c ww Ho' (wgood_weaken _ _ _ 1 0 _ G2 ltac:(lia) ltac:(lia))) as [w3 [E3 [A3 K3]]] end.
        rewrite E3.
        destruct (w_flush_ok w3) as [w4 [E4 [A4 K4]]].
        { right. exists B, 0%nat. apply (wgood_adv B 1 0 0 1 w2 w3 G2 A3). }
        rewrite E4. exists w4. split; [reflexivity|].
        apply (wadv_weaken (0 + (1 + (1 + 0))) (0 + (0 + (0 + 1)))); [|lia|lia].
        eapply wadv_trans; [exact Hadv1|]. eapply wadv_trans; [exact A2|].
        eapply wadv_trans; [exact A3|exact A4].
  - rewrite Bool.andb_true_r. ctx_cbn.
    destruct (role_eqb role Server && closing_done st) eqn:Ecl.
    + ctx_cbn. match goal with |- context [write_out_buffer ?c ?ww] =>
        destruct (wob_acc B c ww Hout (wgood_weaken _ _ _ 1 0 _ G ltac:(lia) ltac:(lia))) as [w3 [E3 [A3 K3]]] end.
      rewrite E3. exists w3. split; [reflexivity|]. apply (wadv_weaken 1 0); [exact A3|lia|lia].
    + ctx_cbn.
      match goal with |- context [write_out_buffer ?c ?ww] =>
        destruct (wob_acc B c ww Hout (wgood_weaken _ _ _ 1 0 _ G ltac:(lia) ltac:(lia))) as [w3 [E3 [A3 K3]]] end.
      rewrite E3.
      destruct (w_flush_ok w3) as [w4 [E4 [A4 K4]]].
      { right. exists B, 1%nat. apply (wgood_adv B 1 0 1 1 w w3 G A3). }
      rewrite E4. exists w4. split; [reflexivity|].
      apply (wadv_weaken (1 + 0) (0 + 1)); [|lia|lia]. eapply wadv_trans; [exact A3|exact A4].
Qed.

Lemma flush_pure_res x k :
  fst (flush_pure x k) = ROk tt \/ fst (flush_pure x k) = RErr EConnectionClosed.
Proof.
  unfold flush_pure. cbv zeta. destruct (x_additional x).
  - destruct (_ <? _); [left; reflexivity|]. destruct (_ && _); [right|left]; reflexivity.
  - destruct (_ && _); [right|left]; reflexivity.
Qed.

Definition pre_pure (x : ctx) (k : key) : res unit * ctx :=
  if (match x_additional x with Some _ => true | None => false end) || x_unflushed x then flush_pure x k
  else if role_eqb (x_role x) Server && negb (can_read (x_state x)) then
    (RErr EConnectionClosed, set_state (drained x) Terminated)
  else (ROk tt, x).

Lemma pre_pure_res x k :
  fst (pre_pure x k) = ROk tt \/ fst (pre_pure x k) = RErr EConnectionClosed.
Proof.
  unfold pre_pure. destruct (_ || _); [apply flush_pure_res|].
  destruct (_ && _); [right|left]; reflexivity.
Qed.

Lemma pre_step_acc B x w :
  c_max_out (x_codec x) = B -> blen (c_out (x_codec x)) <= B -> wgood B 2 1 w ->
  exists w', pre_step x w = (fst (pre_pure x (next_key w)), snd (pre_pure x (next_key w)), w') /\
             wadv 2 1 w w'.
Proof.
  intros HB Hout G. unfold pre_step, pre_pure.
  destruct (_ || _).
  - destruct (flush_acc B x w HB Hout G) as [w' [E A]]. rewrite E. exists w'. split; [|exact A].
    destruct (flush_pure_res x (next_key w)) as [R|R]; rewrite R; reflexivity.
  - destruct (_ && _).
    + destruct (wob_acc B (x_codec x) w Hout (wgood_weaken _ _ _ 1 0 _ G ltac:(lia) ltac:(lia)))
        as [w' [E [A K]]].
      rewrite E. exists w'. split; [reflexivity|]. apply (wadv_weaken 1 0); [exact A|lia|lia].
    + exists w. split; [reflexivity|]. apply (wadv_weaken 0 0); [apply wadv_refl|lia|lia].
Qed.

(* what a successful pre_step leaves unchanged *)
Lemma pre_pure_ok_keeps x k x' :
  pre_pure x k = (ROk tt, x') ->
  x_role x' = x_role x /\ x_cfg x' = x_cfg x /\ x_state x' = x_state x /\ x_incomplete x' = x_incomplete x /\
  c_in (x_codec x') = c_in (x_codec x) /\ c_hdr (x_codec x') = c_hdr (x_codec x) /\
  c_max_out (x_codec x') = c_max_out (x_codec x) /\ c_write_len (x_codec x') = c_write_len (x_codec x) /\
  (c_out (x_codec x) = [] -> c_out (x_codec x') = []).
Proof.
  unfold pre_pure, flush_pure. cbv zeta.
  destruct (_ || _).
  - destruct (x_additional x).
    + destruct (_ <? _).
      * intros E. injection E as <-. cbn. auto 10.
      * destruct (_ && _); [discriminate|]. intros E. injection E as <-. cbn. auto 10.
    + destruct (_ && _); [discriminate|]. intros E. injection E as <-. cbn. auto 10.
  - destruct (_ && _); [discriminate|]. intros E. injection E as <-. auto 10.
Qed.

(** ** 8.6 What reading cannot observe: the mask key of a parked reply, the codec's read side *)

Definition strip_frame (f : frame) : frame :=
  mkFrame (mkHeader (h_fin (f_hdr f)) (h_rsv1 (f_hdr f)) (h_rsv2 (f_hdr f)) (h_rsv3 (f_hdr f))
                    (h_opcode (f_hdr f)) None) (f_payload f).

Definition strip_add (r : role) (a : option frame) : option frame :=
  match r, a with
  | Client, Some f => Some (strip_frame f)
  | _, _ => a
  end.

Definition canon (x : ctx) : ctx :=
  mkCtx (x_role x)
        (mkCodec [] (c_out (x_codec x)) (c_max_out (x_codec x)) (c_write_len (x_codec x)) None)
        (x_state x) (x_incomplete x) (strip_add (x_role x) (x_additional x)) (x_unflushed x) (x_cfg x).

Lemma frame_len_mask_for_client k k' f f' :
  f_payload f = f_payload f' ->
  frame_len (mask_for Client k f) = frame_len (mask_for Client k' f').
Proof. intros H. unfold frame_len, mask_for, header_len. cbn [f_hdr f_payload h_mask]. rewrite H. reflexivity. Qed.

Lemma canon_mask_client x k f :
  x_role x = Client ->
  canon (set_additional_raw x (Some (mask_for Client k f))) = canon (set_additional_raw x (Some f)).
Proof. intros H. unfold canon. cbn [x_role set_additional_raw x_additional x_codec x_state x_incomplete x_unflushed x_cfg]. rewrite H. reflexivity. Qed.

(* pre_pure does not depend on what canon forgets *)
Lemma pre_pure_canon x k k' :
  fst (pre_pure (canon x) k') = fst (pre_pure x k) /\
  canon (snd (pre_pure (canon x) k')) = canon (snd (pre_pure x k)).
Proof.
  destruct x as [role c st inc add unfl cfg]. destruct c as [cin out maxo wl hdr].
  unfold pre_pure, flush_pure, canon. cbv zeta.
  cbn [x_role x_codec x_state x_incomplete x_additional x_unflushed x_cfg c_in c_out c_max_out c_write_len c_hdr].
  destruct role.
  - (* Server: nothing is stripped *)
    cbn [strip_add mask_for]. destruct add as [msg|]; cbn [orb].
    + destruct (maxo <? _); [split; reflexivity|]. destruct (_ && _); split; reflexivity.
    + destruct unfl; cbn [orb].
      * destruct (_ && _); split; reflexivity.
      * destruct (_ && _); split; reflexivity.
  - cbn [role_eqb andb]. destruct add as [msg|]; cbn [strip_add orb].
    + rewrite (frame_len_mask_for_client k' k (strip_frame msg) msg eq_refl).
      destruct (maxo <? _); split; reflexivity.
    + destruct unfl; split; reflexivity.
Qed.

Lemma canon_idem x : canon (canon x) = canon x.
Proof.
  unfold canon. cbn [x_role x_codec x_state x_incomplete x_additional x_unflushed x_cfg c_in c_out c_max_out c_write_len c_hdr].
  destruct (x_role x); [reflexivity|]. destruct (x_additional x); reflexivity.
Qed.

Lemma pre_pure_canon2 x y k k' :
  canon x = canon y ->
  fst (pre_pure x k) = fst (pre_pure y k') /\ canon (snd (pre_pure x k)) = canon (snd (pre_pure y k')).
Proof.
  intros H. destruct (pre_pure_canon x k k) as [A1 A2]. destruct (pre_pure_canon y k' k) as [B1 B2].
  rewrite H in A1, A2. split; congruence.
Qed.

(* a second pre_step right after a successful one changes nothing that reading can observe *)
Lemma pre_pure_idem x k k' x' :
  c_out (x_codec x) = [] -> x_state x <> Terminated ->
  pre_pure x k = (ROk tt, x') ->
  fst (pre_pure x' k') = ROk tt /\ canon (snd (pre_pure x' k')) = canon x'.
Proof.
  destruct x as [role c st inc add unfl cfg]. destruct c as [cin out maxo wl hdr].
  cbn [x_codec c_out x_state]. intros -> Hst.
  unfold pre_pure at 1. unfold flush_pure. cbv zeta.
  cbn [x_role x_codec x_state x_incomplete x_additional x_unflushed x_cfg c_in c_out c_max_out c_write_len c_hdr].
  assert (Hterm : role_eqb role Server && closing_done st = false ->
                  role_eqb role Server && negb (can_read st) = false).
  { intros H. destruct role; [|reflexivity]. destruct st; cbn in *; try discriminate; try reflexivity.
    exfalso. apply Hst. reflexivity. }
  destruct add as [msg|]; cbn [orb].
  - destruct (maxo <? frame_len (mask_for role k msg) + blen (@nil N)) eqn:Efull.
    + intros E. injection E as <-.
      unfold pre_pure, flush_pure, drained. cbv zeta.
      cbn [set_unflushed set_codec set_additional_raw set_out x_role x_codec x_state x_incomplete x_additional x_unflushed x_cfg c_in c_out c_max_out c_write_len c_hdr orb].
      assert (Efull' : maxo <? frame_len (mask_for role k' (mask_for role k msg)) + blen (@nil N) = true).
      { destruct role; [exact Efull|].
        rewrite (frame_len_mask_for_client k' k (mask_for Client k msg) msg eq_refl). exact Efull. }
      rewrite Efull'. cbn [fst snd]. split; [reflexivity|].
      destruct role; [reflexivity|]. unfold canon. reflexivity.
    + destruct (role_eqb role Server && closing_done st) eqn:Ecl; [discriminate|].
      intros E. injection E as <-.
      unfold pre_pure, drained.
      cbn [set_unflushed set_codec set_additional_raw set_out x_role x_codec x_state x_incomplete x_additional x_unflushed x_cfg c_in c_out c_max_out c_write_len c_hdr orb].
      rewrite (Hterm eq_refl). split; reflexivity.
  - destruct unfl; cbn [orb].
    + destruct (role_eqb role Server && closing_done st) eqn:Ecl; [discriminate|].
      intros E. injection E as <-.
      unfold pre_pure, drained.
      cbn [set_unflushed set_codec set_additional_raw set_out x_role x_codec x_state x_incomplete x_additional x_unflushed x_cfg c_in c_out c_max_out c_write_len c_hdr orb].
      rewrite (Hterm eq_refl). split; reflexivity.
    + destruct (role_eqb role Server && negb (can_read st)) eqn:Ecl; [discriminate|].
      intros E. injection E as <-.
      unfold pre_pure.
      cbn [x_role x_codec x_state x_incomplete x_additional x_unflushed x_cfg orb].
      rewrite Ecl. split; reflexivity.
Qed.

(** ** 8.7 Facts about on_frame *)

Ltac head_scrut t :=
  match t with
  | (if ?b then _ else _) => head_scrut b
  | (match ?u with _ => _ end) => head_scrut u
  | _ => t
  end.

Ltac lhs_destruct :=
  repeat (match goal with
          | |- ?lhs = _ => let s := head_scrut lhs in
                           match lhs with
                           | (if _ then _ else _) => destruct s
                           | (match _ with _ => _ end) => destruct s
                           end
          end; try reflexivity).

Lemma set_additional_canon x f :
  h_mask (f_hdr f) = None ->
  canon (set_additional x f) = set_additional (canon x) f.
Proof.
  intros Hm. destruct x as [role c st inc add unfl cfg]. unfold set_additional, canon.
  cbn [x_role x_codec x_state x_incomplete x_additional x_unflushed x_cfg].
  destruct role; cbn [strip_add].
  - destruct add as [fa|]; [|reflexivity]. destruct (opcode_eqb _ _); reflexivity.
  - destruct add as [fa|].
    + cbn [strip_frame f_hdr h_opcode]. destruct (opcode_eqb _ _); cbn; [|reflexivity].
      unfold strip_frame. destruct f as [[fin r1 r2 r3 opc m] p]. cbn in Hm. subst m. reflexivity.
    + cbn. unfold strip_frame. destruct f as [[fin r1 r2 r3 opc m] p]. cbn in Hm. subst m. reflexivity.
Qed.

Lemma on_frame_canon x r :
  on_frame (canon x) r = (fst (on_frame x r), canon (snd (on_frame x r))).
Proof.
  destruct x as [role c st inc add unfl cfg].
  unfold on_frame, do_close. cbv zeta.
  cbn [canon x_role x_codec x_state x_incomplete x_additional x_unflushed x_cfg].
  lhs_destruct.
  all: cbn [fst snd].
  - f_equal. symmetry.
    apply (set_additional_canon (set_state (mkCtx role c Active inc add unfl cfg) ClosedByPeer)). reflexivity.
  - destruct (is_active st); [|reflexivity]. f_equal. symmetry.
    apply (set_additional_canon (mkCtx role c st inc add unfl cfg)). reflexivity.
Qed.

Lemma on_frame_canon2 x y r :
  canon x = canon y ->
  fst (on_frame x r) = fst (on_frame y r) /\ canon (snd (on_frame x r)) = canon (snd (on_frame y r)).
Proof.
  intros H. pose proof (on_frame_canon x r) as A. pose proof (on_frame_canon y r) as B.
  rewrite H in A. rewrite A in B. split; [exact (f_equal fst B)|exact (f_equal snd B)].
Qed.

Definition is_ok {A} (r : res A) : bool := match r with ROk _ => true | _ => false end.

Ltac scrut_destruct :=
  repeat (match goal with
          | |- match ?t with _ => _ end =>
              let s := head_scrut t in
              match t with
              | (if _ then _ else _) => destruct s
              | (match _ with _ => _ end) => destruct s
              end
          end; cbn [fst snd is_ok]).

Lemma set_additional_proj x f :
  x_codec (set_additional x f) = x_codec x /\ x_role (set_additional x f) = x_role x /\
  x_cfg (set_additional x f) = x_cfg x /\ x_state (set_additional x f) = x_state x.
Proof.
  unfold set_additional. destruct (x_additional x) as [fa|]; [destruct (opcode_eqb _ _)|]; cbn; auto.
Qed.

(* on_frame never touches the codec, the role or the configuration; a result that is not an error
   comes from a frame and does not terminate the connection *)
Lemma on_frame_keeps x r :
  let '(rm, x2) := on_frame x r in
  x_codec x2 = x_codec x /\ x_role x2 = x_role x /\ x_cfg x2 = x_cfg x /\
  (is_ok rm = true -> (exists f, r = ROk (Some f)) /\ x_state x2 <> Terminated).
Proof.
  destruct x as [role c st inc add unfl cfg].
  unfold on_frame, do_close. cbv zeta.
  cbn [x_role x_codec x_state x_incomplete x_additional x_unflushed x_cfg].
  destruct st; cbn [can_read negb is_active]; scrut_destruct;
    repeat match goal with
           | |- context [set_additional ?y ?g] =>
               let P := fresh "P" in
               pose proof (set_additional_proj y g) as P; destruct P as [? [? [? ?]]];
               generalize dependent (set_additional y g); intros
           end;
    cbn [x_role x_codec x_state x_incomplete x_additional x_unflushed x_cfg set_state set_incomplete] in *;
    (split; [try assumption; reflexivity|]); (split; [try assumption; reflexivity|]);
    (split; [try assumption; reflexivity|]);
    (intros Hok; first [discriminate Hok | split; [eexists; reflexivity|]; first [discriminate | congruence]]).
Qed.

(* an error produced from a frame is never an I/O error (in particular never WouldBlock) *)
Definition err_io (e : error) : bool := match e with EIo _ => true | _ => false end.
Definition res_io {A} (r : res A) : bool := match r with RErr e => err_io e | _ => false end.

Lemma incmsg_extend_io m t l : res_io (fst (incmsg_extend m t l)) = false.
Proof.
  unfold incmsg_extend. cbv zeta. destruct (_ || _).
  - destruct (two64 <=? _); reflexivity.
  - destruct m as [c|v]; [destruct (collector_extend c t)|]; reflexivity.
Qed.

Lemma incmsg_complete_io m : res_io (incmsg_complete m) = false.
Proof. destruct m as [c|v]; cbn [incmsg_complete]; [destruct (collector_into_string c)|]; reflexivity. Qed.

Lemma check_max_size_io n l : res_io (check_max_size n l) = false.
Proof. unfold check_max_size. destruct l as [m|]; [destruct (m <? n)|]; reflexivity. Qed.

Lemma frame_into_close_io p : res_io (frame_into_close p) = false.
Proof. unfold frame_into_close. destruct p as [|a [|b r]]; try reflexivity. destruct (is_utf8 r); reflexivity. Qed.

Lemma on_frame_frame_io x f : res_io (fst (on_frame x (ROk (Some f)))) = false.
Proof.
  destruct x as [role c st inc add unfl cfg].
  unfold on_frame, do_close. cbv zeta.
  cbn [x_role x_codec x_state x_incomplete x_additional x_unflushed x_cfg].
  repeat (match goal with
          | |- res_io (fst ?t) = false =>
              let s := head_scrut t in
              match t with
              | (if _ then _ else _) => idtac
              | (match _ with _ => _ end) => idtac
              end;
              first [ match s with incmsg_extend ?a ?b ?c => pose proof (incmsg_extend_io a b c) end
                    | match s with incmsg_complete ?a => pose proof (incmsg_complete_io a) end
                    | match s with check_max_size ?a ?b => pose proof (check_max_size_io a b) end
                    | match s with frame_into_close ?a => pose proof (frame_into_close_io a) end
                    | idtac ];
              destruct s
          end; cbn [fst snd res_io err_io] in *);
    first [reflexivity | assumption].
Qed.

Lemma res_io_wb {A} (r : res A) : res_io r = false -> r <> RErr (EIo WouldBlock).
Proof. intros H ->. discriminate H. Qed.

(** ** 8.8 More about one read_frame_loop call: the write-side fields, the fuel of read's loop *)

(* at rest a held header is still waiting for payload bytes (true of every reachable codec state:
   a zero-length payload is split off in the same iteration that parses the header) *)
Definition codec_rest (c : codec) : Prop :=
  match c_hdr c with Some (_, len) => blen (c_in c) < len | None => True end.
Definition codec_pos (c : codec) : Prop :=
  match c_hdr c with Some (_, len) => 0 < len | None => True end.
Definition wfields (c' c : codec) : Prop :=
  c_out c' = c_out c /\ c_max_out c' = c_max_out c /\ c_write_len c' = c_write_len c.
Definition bytes_left (c : codec) (rds : list rd_out) : nat := (length (c_in c) + rd_bytes rds)%nat.

Lemma codec_rest_pos c : codec_rest c -> codec_pos c.
Proof. unfold codec_rest, codec_pos. destruct (c_hdr c) as [[h len]|]; [lia|auto]. Qed.

Lemma try_take_rest max c :
  codec_pos c ->
  match try_take max c with
  | TkPayload _ _ _ c' => codec_rest c' /\ (length (c_in c') < length (c_in c))%nat /\ wfields c' c
  | TkNeedMore _ c' => codec_rest c' /\ (length (c_in c') <= length (c_in c))%nat /\ wfields c' c
  | TkErr _ c' => wfields c' c
  | TkPanic _ => True
  end.
Proof.
  intros Hpos. rewrite try_take_eq. unfold held, codec_pos, codec_rest, wfields in *.
  destruct (c_hdr c) as [[h len]|] eqn:Hh.
  - destruct (max <? len); [auto|]. destruct (len <=? blen (c_in c)) eqn:El;
      cbn [c_hdr c_in c_out c_max_out c_write_len set_hdr set_in].
    + split; [exact I|]. split; [|auto]. rewrite length_dropN. unfold blen in El. lia.
    + rewrite Hh. split; [lia|]. split; [lia|auto].
  - destruct (header_parse (c_in c)) as [h len k| |i|] eqn:Hp; try exact I.
    + destruct (hp_ok _ _ _ _ Hp) as [Hk _].
      cbn [c_hdr c_in c_out c_max_out c_write_len set_hdr set_in].
      destruct (max <? len); [auto|]. unfold blen in Hk.
      destruct (len <=? blen (dropN k (c_in c))) eqn:El;
        cbn [c_hdr c_in c_out c_max_out c_write_len set_hdr set_in].
      * split; [exact I|]. split; [|auto]. rewrite !length_dropN. lia.
      * split; [lia|]. split; [|auto]. rewrite length_dropN. lia.
    + rewrite Hh. split; [exact I|]. split; [lia|auto].
    + auto.
Qed.

Lemma rfl_rest max : forall rds c r c' rds',
  codec_pos c -> rfl max rds c = (r, c', rds') ->
  wfields c' c /\
  match classify r with
  | KFrame => codec_rest c' /\ (bytes_left c' rds' < bytes_left c rds)%nat
  | KWB => codec_rest c' /\ (bytes_left c' rds' <= bytes_left c rds)%nat
  | KStop => True
  end.
Proof.
  induction rds as [|o rest IH]; intros c r c' rds' Hpos E; rewrite rfl_eq in E;
    pose proof (try_take_rest max c Hpos) as Ht;
    destruct (try_take max c) as [h len p c1|n c1|e c1|s] eqn:Et.
  - injection E as <- <- <-. destruct Ht as [T1 [T2 T3]]. split; [exact T3|].
    cbn [classify]. split; [exact T1|]. unfold bytes_left. lia.
  - injection E as <- <- <-. destruct Ht as [T1 [T2 T3]]. split; [exact T3|].
    cbn [classify]. split; [exact T1|]. unfold bytes_left. lia.
  - injection E as <- <- <-. split; [exact Ht|].
    rewrite (classify_err_not_io e (try_take_err_not_io _ _ _ _ Et)). exact I.
  - injection E as <- <- <-. split; [unfold wfields; auto|]. exact I.
  - injection E as <- <- <-. destruct Ht as [T1 [T2 T3]]. split; [exact T3|].
    cbn [classify]. split; [exact T1|]. unfold bytes_left. cbn [rd_bytes]. lia.
  - destruct Ht as [T1 [T2 T3]]. destruct o as [[|b bs]| |k].
    + injection E as <- <- <-. split; [exact T3|]. exact I.
    + assert (Hpos2 : codec_pos (set_in c1 (c_in c1 ++ b :: bs))).
      { unfold codec_pos, codec_rest in *. cbn [c_hdr c_in set_in].
        destruct (c_hdr c1) as [[h len]|]; [lia|exact I]. }
      destruct (IH _ _ _ _ Hpos2 E) as [F M]. split.
      * unfold wfields in *. cbn [c_out c_max_out c_write_len set_in] in F.
        destruct F as [F1 [F2 F3]]. destruct T3 as [G1 [G2 G3]]. rewrite F1, F2, F3. auto.
      * assert (Hb : (bytes_left (set_in c1 (c_in c1 ++ b :: bs)) rest <= bytes_left c (RdData (b :: bs) :: rest))%nat).
        { unfold bytes_left. cbn [c_in set_in rd_bytes]. rewrite app_length. lia. }
        destruct (classify r); [| |exact I]; destruct M as [M1 M2]; (split; [exact M1|lia]).
    + injection E as <- <- <-. split; [exact T3|]. exact I.
    + injection E as <- <- <-. split; [exact T3|]. destruct k; cbn [classify]; try exact I.
      split; [exact T1|]. unfold bytes_left. cbn [rd_bytes]. lia.
  - injection E as <- <- <-. split; [exact Ht|].
    rewrite (classify_err_not_io e (try_take_err_not_io _ _ _ _ Et)). exact I.
  - injection E as <- <- <-. split; [unfold wfields; auto|]. exact I.
Qed.

(** ** 8.9 The message-level reference machine
   It runs on the list of read_frame results given by the frame-level reference: before every item it
   performs the pre-step (as a pure function: accepting write side), then feeds the item to on_frame. *)

Definition zero_key : key := (0, 0, 0, 0).

Definition mrest_with (cont : ctx -> list (res message)) (y0 : ctx) (r : res (option frame))
  : list (res message) :=
  let '(r', s1) := check_connection_reset r (x_state y0) in
  let '(rm, y2) := on_frame (set_state y0 s1) r' in
  match rm with
  | ROk (Some m) => ROk m :: cont y2
  | ROk None => cont y2
  | RErr e => [RErr e]
  | RPanic s => [RPanic s]
  | ROutOfFuel => [ROutOfFuel]
  end.

Definition mpre (k : ctx -> list (res message)) (y : ctx) : list (res message) :=
  let '(r0, y0) := pre_pure y zero_key in
  match r0 with
  | ROk _ => k y0
  | RErr e => [RErr e]
  | RPanic s => [RPanic s]
  | ROutOfFuel => [ROutOfFuel]
  end.

Fixpoint mloop (fr : list (res (option frame))) (y : ctx) : list (res message) :=
  mpre (fun y0 => match fr with [] => [] | r :: rest => mrest_with (mloop rest) y0 r end) y.

Definition mrest (fr : list (res (option frame))) (y0 : ctx) : list (res message) :=
  match fr with [] => [] | r :: rest => mrest_with (mloop rest) y0 r end.

Lemma mloop_eq fr y : mloop fr y = mpre (mrest fr) y.
Proof. destruct fr; reflexivity. Qed.

Lemma canon_state x y : canon x = canon y -> x_state x = x_state y.
Proof. intros H. exact (f_equal x_state H). Qed.

Lemma canon_set_state x y s : canon x = canon y -> canon (set_state x s) = canon (set_state y s).
Proof.
  intros H. change (canon (set_state x s)) with (set_state (canon x) s).
  change (canon (set_state y s)) with (set_state (canon y) s). rewrite H. reflexivity.
Qed.

Lemma mrest_with_canon cont a b r :
  (forall u v, canon u = canon v -> cont u = cont v) ->
  canon a = canon b -> mrest_with cont a r = mrest_with cont b r.
Proof.
  intros Hc H. unfold mrest_with. rewrite (canon_state _ _ H).
  destruct (check_connection_reset r (x_state b)) as [r' s1].
  destruct (on_frame_canon2 _ _ r' (canon_set_state a b s1 H)) as [A1 A2].
  destruct (on_frame (set_state a s1) r') as [rm y2]. destruct (on_frame (set_state b s1) r') as [rm' y2'].
  cbn [fst snd] in A1, A2. subst rm'. destruct rm as [[m|]|e|s|]; try reflexivity.
  - f_equal. apply Hc. exact A2.
  - apply Hc. exact A2.
Qed.

Lemma mloop_canon : forall fr u v, canon u = canon v -> mloop fr u = mloop fr v.
Proof.
  induction fr as [|r rest IH]; intros u v H; rewrite !mloop_eq; unfold mpre;
    destruct (pre_pure_canon2 u v zero_key zero_key H) as [A1 A2];
    destruct (pre_pure u zero_key) as [r0 y0]; destruct (pre_pure v zero_key) as [r0' y0'];
    cbn [fst snd] in A1, A2; subst r0'; destruct r0; try reflexivity.
  cbn [mrest]. apply mrest_with_canon; [exact IH|exact A2].
Qed.

Lemma mrest_canon fr a b : canon a = canon b -> mrest fr a = mrest fr b.
Proof.
  intros H. destruct fr as [|r rest]; [reflexivity|]. cbn [mrest].
  apply mrest_with_canon; [apply mloop_canon|exact H].
Qed.

(* the frame-level view of a context in front of a schedule *)
Definition fview (x : ctx) (w : world) : list (res (option frame)) :=
  frames_ref (cfg_max_frame_size (x_cfg x)) (role_eqb (x_role x) Server) (cfg_accept_unmasked (x_cfg x))
             (c_hdr (x_codec x)) (c_in (x_codec x) ++ sched_data (w_rds w)) (sched_end (w_rds w)).

Lemma fview_sview x w :
  fview x w = finish (role_eqb (x_role x) Server) (cfg_accept_unmasked (x_cfg x))
                     (sview (limit_of (cfg_max_frame_size (x_cfg x))) (x_codec x) (w_rds w)).
Proof. unfold fview, frames_ref, sview, view. rewrite sched_term_end. reflexivity. Qed.

Definition coerce (r : res (option message)) : res message :=
  match r with RErr e => RErr e | RPanic s => RPanic s | _ => ROutOfFuel end.

Lemma classify_frame {A} (r : res (option A)) : classify r = KFrame -> exists v, r = ROk (Some v).
Proof. destruct r as [[v|]|e|s|]; try discriminate; [eexists; reflexivity|]. destruct e as [| |[]| | | |]; discriminate. Qed.

Lemma classify_wb {A} (r : res (option A)) : classify r = KWB -> r = RErr (EIo WouldBlock).
Proof. destruct r as [[v|]|e|s|]; try discriminate. destruct e as [| |[]| | | |]; try discriminate. reflexivity. Qed.

Lemma classify_stop {A} (r : res (option A)) :
  classify r = KStop -> (forall v, r <> ROk (Some v)) /\ r <> RErr (EIo WouldBlock).
Proof.
  destruct r as [[v|]|e|s|]; try discriminate; intros H; split; try discriminate.
  intros X. injection X as ->. discriminate H.
Qed.

Lemma ccr_nonframe {A} (r r' : res (option A)) st s1 :
  check_connection_reset r st = (r', s1) ->
  (forall f, r <> ROk (Some f)) -> r <> RErr (EIo WouldBlock) ->
  (forall f, r' <> ROk (Some f)) /\ r' <> RErr (EIo WouldBlock).
Proof.
  unfold check_connection_reset. intros E Hnf Hwb.
  destruct r as [v|e|s|]; try (injection E as <- <-; auto).
  destruct e as [| |k| | | |]; try (injection E as <- <-; auto).
  destruct k; try (injection E as <- <-; auto).
  destruct (closing_done st); injection E as <- <-; auto. split; discriminate.
Qed.

Lemma on_frame_nonframe x r :
  (forall f, r <> ROk (Some f)) -> r <> RErr (EIo WouldBlock) ->
  is_ok (fst (on_frame x r)) = false /\ fst (on_frame x r) <> RErr (EIo WouldBlock).
Proof.
  intros Hnf Hwb. destruct r as [[f|]|e|s|].
  - exfalso. exact (Hnf f eq_refl).
  - unfold on_frame. cbv zeta. destruct (x_state x); cbn [fst is_ok]; split; try reflexivity; discriminate.
  - cbn [on_frame fst is_ok]. split; [reflexivity|]. intros X. apply Hwb. injection X as ->. reflexivity.
  - cbn [on_frame fst is_ok]. split; [reflexivity|discriminate].
  - cbn [on_frame fst is_ok]. split; [reflexivity|discriminate].
Qed.

(* an item that is not a frame ends the run with an error, the same for all contexts that reading
   cannot tell apart *)
Lemma mrest_with_nonframe cont x0 xa r0 :
  (forall f, r0 <> ROk (Some f)) -> r0 <> RErr (EIo WouldBlock) -> canon xa = canon x0 ->
  forall r0' s1 rm x2,
    check_connection_reset r0 (x_state xa) = (r0', s1) ->
    on_frame (set_state xa s1) r0' = (rm, x2) ->
    mrest_with cont x0 r0 = [coerce rm] /\ is_ok rm = false /\ rm <> RErr (EIo WouldBlock).
Proof.
  intros Hnf Hwb Hc r0' s1 rm x2 Ec Eo.
  unfold mrest_with. rewrite <- (canon_state _ _ Hc), Ec.
  destruct (ccr_nonframe _ _ _ _ Ec Hnf Hwb) as [Hnf' Hwb'].
  destruct (on_frame_canon2 _ _ r0' (canon_set_state xa x0 s1 Hc)) as [A1 _].
  destruct (on_frame_nonframe (set_state xa s1) r0' Hnf' Hwb') as [B1 B2].
  rewrite Eo in A1, B1, B2. cbn [fst] in A1, B1, B2.
  destruct (on_frame (set_state x0 s1) r0') as [rm' y2]. cbn [fst] in A1. subst rm'.
  split; [|split; assumption].
  destruct rm as [[m|]|e|s|]; try discriminate B1; reflexivity.
Qed.

Definition xmu (x : ctx) (w : world) : nat := mu (x_codec x) (w_rds w).
Definition xbytes (x : ctx) (w : world) : nat := bytes_left (x_codec x) (w_rds w).

(* read_message_frame against the view *)
Lemma rmf_view x0 w0 r1 x1 w1 :
  codec_rest (x_codec x0) -> x_state x0 <> Terminated ->
  read_message_frame x0 w0 = (r1, x1, w1) ->
  let V := fview x0 w0 in
  w_wrs w1 = w_wrs w0 /\ w_fls w1 = w_fls w0 /\ wfields (x_codec x1) (x_codec x0) /\
  ((exists om, r1 = ROk om /\
      mrest V x0 = (match om with Some m => [ROk m] | None => [] end) ++ mloop (fview x1 w1) x1 /\
      codec_rest (x_codec x1) /\ x_state x1 <> Terminated /\
      (xmu x1 w1 < xmu x0 w0)%nat /\ (xbytes x1 w1 < xbytes x0 w0)%nat)
   \/ (r1 = RErr (EIo WouldBlock) /\ fview x1 w1 = V /\ canon x1 = canon x0 /\
       codec_rest (x_codec x1) /\ x_state x1 = x_state x0 /\
       (w_rds w1 = [] -> V = []) /\ (w_rds w1 <> [] -> (xmu x1 w1 < xmu x0 w0)%nat))
   \/ (is_ok r1 = false /\ r1 <> RErr (EIo WouldBlock) /\ mrest V x0 = [coerce r1])).
Proof.
  intros Hrest Hst E V.
  rewrite read_message_frame_eq, read_frame_eq in E.
  set (u := role_eqb (x_role x0) Server) in *. set (a := cfg_accept_unmasked (x_cfg x0)) in *.
  set (max := limit_of (cfg_max_frame_size (x_cfg x0))) in *.
  destruct (rfl max (w_rds w0) (x_codec x0)) as [[rr c1] rds1] eqn:Er.
  pose proof (rfl_sview max _ _ _ _ _ Er) as Hv.
  destruct (rfl_rest max _ _ _ _ _ (codec_rest_pos _ Hrest) Er) as [Hf Hr].
  assert (HV : V = finish u a (sview max (x_codec x0) (w_rds w0))) by apply fview_sview.
  destruct (check_connection_reset (post_frame u a rr) (x_state x0)) as [r0' s1] eqn:Ec.
  set (xa := set_state (set_codec x0 c1) s1) in *.
  destruct (on_frame xa r0') as [rm x2] eqn:Eo.
  injection E as <- <- <-. cbn [w_wrs w_fls].
  pose proof (on_frame_keeps xa r0') as Hk. rewrite Eo in Hk. destruct Hk as [K1 [K2 [K3 K4]]].
  cbn [xa x_codec x_role x_cfg set_state set_codec] in K1, K2, K3.
  split; [reflexivity|]. split; [reflexivity|]. split; [rewrite K1; exact Hf|].
  assert (Hcan : canon (set_codec x0 c1) = canon x0).
  { unfold canon. destruct Hf as [F1 [F2 F3]].
    cbn [set_codec x_role x_codec x_state x_incomplete x_additional x_unflushed x_cfg]. rewrite F1, F2, F3. reflexivity. }
  assert (HV1 : fview x2 (mkWorld rds1 (w_wrs w0) (w_fls w0) (w_keys w0) (rfl_log max (w_rds w0) (x_codec x0) (w_log w0)))
                = finish u a (sview max c1 rds1)).
  { rewrite fview_sview. cbn [w_rds]. rewrite K1, K2, K3. reflexivity. }
  destruct (classify rr) eqn:Ecl.
  - (* a frame was split off *)
    destruct Hv as [Hv1 Hv2]. destruct Hr as [Hr1 Hr2].
    destruct (classify_frame _ Ecl) as [v ->].
    rewrite Hv1 in HV. cbn [finish] in HV.
    destruct (classify (post_frame u a (ROk (Some v)))) eqn:Ecp.
    + (* post-processing gives a frame *)
      destruct (classify_frame _ Ecp) as [f Ef]. rewrite Ef in *.
      cbn [check_connection_reset] in Ec. injection Ec as <- <-.
      destruct (on_frame_canon2 xa (set_state x0 (x_state x0)) (ROk (Some f))) as [A1 A2].
      { unfold xa. apply canon_set_state. exact Hcan. }
      rewrite Eo in A1, A2. cbn [fst snd] in A1, A2.
      assert (Hm : mrest V x0 = match rm with
                                 | ROk (Some m) => ROk m :: mloop (finish u a (sview max c1 rds1)) x2
                                 | ROk None => mloop (finish u a (sview max c1 rds1)) x2
                                 | RErr e => [RErr e] | RPanic s => [RPanic s] | ROutOfFuel => [ROutOfFuel]
                                 end).
      { rewrite HV. cbn [mrest]. unfold mrest_with. cbn [check_connection_reset].
        destruct (on_frame (set_state x0 (x_state x0)) (ROk (Some f))) as [rm' y2].
        cbn [fst snd] in A1, A2. subst rm'.
        destruct rm as [[m|]|e|s|]; try reflexivity.
        - f_equal. apply mloop_canon. symmetry. exact A2.
        - apply mloop_canon. symmetry. exact A2. }
      destruct rm as [om|e|s|].
      * left. exists om. split; [reflexivity|]. rewrite HV1. split.
        { rewrite Hm. destruct om; reflexivity. }
        rewrite K1. split; [exact Hr1|]. split; [exact (proj2 (K4 eq_refl))|].
        unfold xmu, xbytes. cbn [w_rds]. rewrite K1. split; [exact Hv2|exact Hr2].
      * right. right. split; [reflexivity|]. split.
        { pose proof (on_frame_frame_io xa f) as Hio. rewrite Eo in Hio. cbn [fst] in Hio.
          apply res_io_wb. exact Hio. }
        rewrite Hm. reflexivity.
      * right. right. split; [reflexivity|]. split; [discriminate|]. rewrite Hm. reflexivity.
      * right. right. split; [reflexivity|]. split; [discriminate|]. rewrite Hm. reflexivity.
    + exfalso. apply classify_wb in Ecp. apply post_frame_wb in Ecp. discriminate Ecp.
    + (* post-processing fails: the item ends the run *)
      destruct (classify_stop _ Ecp) as [Hnf Hwb].
      destruct (mrest_with_nonframe (mloop []) x0 (set_codec x0 c1) _ Hnf Hwb Hcan _ _ _ _ Ec Eo)
        as [M1 [M2 M3]].
      right. right. split; [exact M2|]. split; [exact M3|]. rewrite HV. cbn [mrest]. exact M1.
  - (* WouldBlock *)
    destruct Hv as [Hv1 [Hv2 Hv3]]. destruct Hr as [Hr1 Hr2].
    rewrite (classify_wb _ Ecl) in *. cbn [post_frame check_connection_reset] in Ec.
    injection Ec as <- <-. cbn [on_frame] in Eo. injection Eo as <- <-.
    right. left. split; [reflexivity|]. split.
    { rewrite fview_sview. cbn [w_rds xa x_role x_cfg x_codec set_state set_codec].
      fold u a max. rewrite <- Hv1. symmetry. exact HV. }
    split. { transitivity (canon (set_codec x0 c1)); [reflexivity|exact Hcan]. }
    cbn [xa x_codec x_state set_state set_codec w_rds]. split; [exact Hr1|]. split; [reflexivity|].
    split.
    + intros ->. rewrite HV, Hv1, (Hv2 eq_refl). reflexivity.
    + intros Hne. unfold xmu. cbn [w_rds x_codec set_state set_codec]. exact (Hv3 Hne).
  - (* end of file, hard error, decoding error *)
    destruct Hv as [Hv1 Hv2]. destruct (classify_stop _ Ecl) as [Hnf0 Hwb0].
    assert (Hpost : (forall f, post_frame u a rr <> ROk (Some f)) /\ post_frame u a rr <> RErr (EIo WouldBlock)).
    { destruct rr as [[v|]|e|s|]; cbn [post_frame]; try (split; discriminate);
        try (exfalso; exact (Hnf0 v eq_refl)).
      split; [discriminate|]. intros X. apply Hwb0. injection X as ->. reflexivity. }
    destruct Hpost as [Hnf Hwb].
    destruct (mrest_with_nonframe (mloop []) x0 (set_codec x0 c1) _ Hnf Hwb Hcan _ _ _ _ Ec Eo)
      as [M1 [M2 M3]].
    right. right. split; [exact M2|]. split; [exact M3|]. rewrite HV, Hv1. cbn [finish].
    destruct (classify (post_frame u a rr)) eqn:Ecp; cbn [mrest]; exact M1.
Qed.

(** ** 8.10 read's loop and reads against the reference machine *)

Definition rinv (B : N) (x : ctx) : Prop :=
  c_max_out (x_codec x) = B /\ c_out (x_codec x) = [] /\ x_state x <> Terminated /\ codec_rest (x_codec x).

(* enough accepting writes and flushes for the calls that can still happen *)
Definition supply (B : N) (x : ctx) (w : world) : Prop :=
  wgood B (2 * S (xmu x w)) (S (xmu x w)) w.

Lemma wgood_same B a b w w' : w_wrs w' = w_wrs w -> w_fls w' = w_fls w -> wgood B a b w -> wgood B a b w'.
Proof. intros H1 H2. unfold wgood. rewrite H1, H2. auto. Qed.

Lemma read_loop_view B : forall lf x w r x' w',
  rinv B x -> supply B x w -> (xbytes x w < lf)%nat ->
  read_loop lf x w = (r, x', w') ->
  let V := fview x w in
  (exists m, r = ROk m /\ mloop V x = ROk m :: mloop (fview x' w') x' /\
             rinv B x' /\ supply B x' w' /\ (xmu x' w' < xmu x w)%nat)
  \/ (r = RErr (EIo WouldBlock) /\ mloop V x = mloop (fview x' w') x' /\ rinv B x' /\
      (w_rds w' = [] -> mloop (fview x' w') x' = []) /\
      (w_rds w' <> [] -> supply B x' w' /\ (xmu x' w' < xmu x w)%nat))
  \/ ((forall m, r <> ROk m) /\ r <> RErr (EIo WouldBlock) /\ mloop V x = [r]).
Proof.
  induction lf as [|lf IH]; intros x w r x' w' Hinv Hsup Hlf E V; [lia|].
  rewrite read_loop_S in E.
  destruct Hinv as [I1 [I2 [I3 I4]]].
  assert (Hout : blen (c_out (x_codec x)) <= B) by (rewrite I2; unfold blen; cbn [length]; lia).
  destruct (pre_step_acc B x w I1 Hout (wgood_weaken _ _ _ 2 1 _ Hsup ltac:(lia) ltac:(lia)))
    as [w0 [Ep Ha]].
  rewrite Ep in E.
  destruct (pre_pure_canon2 x x (next_key w) zero_key eq_refl) as [P1 P2].
  pose proof (pre_pure_idem x (next_key w) zero_key) as Hidem.
  pose proof (pre_pure_ok_keeps x (next_key w)) as Hkeep.
  assert (HM : mloop V x = mpre (mrest V) x) by apply mloop_eq. unfold mpre in HM.
  destruct (pre_pure x (next_key w)) as [r0 x0] eqn:Ek.
  destruct (pre_pure x zero_key) as [r0z y0] eqn:Ez. cbn [fst snd] in *. subst r0z.
  destruct (pre_pure_res x (next_key w)) as [R|R]; rewrite Ek in R; cbn [fst] in R; subst r0.
  2:{ injection E as <- <- <-. right. right. split; [discriminate|]. split; [discriminate|exact HM]. }
  destruct (Hkeep x0 eq_refl) as [Q1 [Q2 [Q3 [Q4 [Q5 [Q6 [Q7 [Q8 Q9]]]]]]]].
  specialize (Hidem x0 I2 I3 eq_refl). destruct Hidem as [D1 D2].
  destruct Ha as [A1 A23].
  assert (Hrest0 : codec_rest (x_codec x0)) by (unfold codec_rest; rewrite Q5, Q6; exact I4).
  assert (Hst0 : x_state x0 <> Terminated) by (rewrite Q3; exact I3).
  assert (HV0 : fview x0 w0 = V) by (unfold V, fview; rewrite Q1, Q2, Q5, Q6, A1; reflexivity).
  assert (Hmu0 : xmu x0 w0 = xmu x w) by (unfold xmu, mu, buffered, hdr_bit; rewrite Q5, Q6, A1; reflexivity).
  assert (Hby0 : xbytes x0 w0 = xbytes x w) by (unfold xbytes, bytes_left; rewrite Q5, A1; reflexivity).
  assert (HM0 : mloop V x = mrest V x0).
  { rewrite HM. apply mrest_canon. symmetry. exact P2. }
  destruct (read_message_frame x0 w0) as [[r1 x1] w1] eqn:Em.
  destruct (rmf_view x0 w0 r1 x1 w1 Hrest0 Hst0 Em) as [W1 [W2 [[W3 [W4 W5]] H]]].
  rewrite HV0 in H.
  assert (Hsup1 : (xmu x1 w1 < xmu x w)%nat -> supply B x1 w1).
  { intros Hlt. unfold supply. apply (wgood_same B _ _ w0 w1 W1 W2).
    apply (wgood_adv B 2 1 _ _ w w0); [|split; assumption].
    apply (wgood_weaken _ _ _ _ _ _ Hsup); lia. }
  assert (Hmax1 : c_max_out (x_codec x1) = B) by (rewrite W4, Q7; exact I1).
  assert (Hout1 : c_out (x_codec x1) = []) by (rewrite W3; exact (Q9 I2)).
  destruct H as [[om [-> [H1 [H2 [H3 [H4 H5]]]]]] | [[-> [H1 [H2 [H3 [H4 [H5 H6]]]]]] | [H1 [H2 H3]]]].
  - (* a frame was processed *)
    rewrite Hmu0 in H4. rewrite Hby0 in H5.
    assert (Hinv1 : rinv B x1) by (unfold rinv; auto).
    destruct om as [m|].
    + injection E as <- <- <-. left. exists m. split; [reflexivity|].
      split; [rewrite HM0; exact H1|]. split; [exact Hinv1|]. split; [exact (Hsup1 H4)|exact H4].
    + cbn [app] in H1.
      destruct (IH _ _ _ _ _ Hinv1 (Hsup1 H4) ltac:(lia) E)
        as [[m [-> [G1 [G2 [G3 G4]]]]] | [[-> [G1 [G2 [G3 G4]]]] | [G1 [G2 G3]]]].
      * left. exists m. split; [reflexivity|]. split; [rewrite HM0, H1; exact G1|].
        split; [exact G2|]. split; [exact G3|lia].
      * right. left. split; [reflexivity|]. split; [rewrite HM0, H1; exact G1|].
        split; [exact G2|]. split; [exact G3|]. intros Hne. destruct (G4 Hne) as [G5 G6]. split; [exact G5|lia].
      * right. right. split; [exact G1|]. split; [exact G2|]. rewrite HM0, H1. exact G3.
  - (* WouldBlock *)
    injection E as <- <- <-. right. left. split; [reflexivity|].
    assert (Hinv1 : rinv B x1) by (unfold rinv; rewrite H4; auto).
    assert (HM1 : mloop V x1 = mrest V x0).
    { rewrite mloop_eq. unfold mpre.
      destruct (pre_pure_canon2 x1 x0 zero_key zero_key H2) as [C1 C2].
      destruct (pre_pure x1 zero_key) as [rz yz]. cbn [fst snd] in C1, C2. rewrite D1 in C1. subst rz.
      apply mrest_canon. rewrite C2. exact D2. }
    rewrite H1. split; [rewrite HM0, HM1; reflexivity|]. split; [exact Hinv1|]. split.
    + intros Hnil. rewrite HM1, (H5 Hnil). reflexivity.
    + intros Hne. specialize (H6 Hne). rewrite Hmu0 in H6. split; [exact (Hsup1 H6)|exact H6].
  - (* the run ends *)
    destruct r1 as [om|e|s|]; [discriminate H1| | |]; injection E as <- <- <-; right; right.
    + split; [discriminate|]. split; [|rewrite HM0; exact H3].
      intros X. apply H2. injection X as ->. reflexivity.
    + split; [discriminate|]. split; [discriminate|]. rewrite HM0. exact H3.
    + split; [discriminate|]. split; [discriminate|]. rewrite HM0. exact H3.
Qed.

(* MAIN THEOREM (messages).  Accepting write side, nothing queued in out_buffer: under every schedule
   the successive results of read are those of the reference machine run over the whole-stream
   frame-level reference. *)
Theorem reads_ref B : forall fuel x w,
  c_max_out (x_codec x) = B -> c_out (x_codec x) = [] -> codec_rest (x_codec x) ->
  supply B x w -> (xmu x w < fuel)%nat ->
  reads fuel x w =
  if is_terminated (x_state x) then [RErr EAlreadyClosed] else mloop (fview x w) x.
Proof.
  induction fuel as [|f IH]; intros x w HB Hout Hrest Hsup Hf; [lia|].
  cbn [reads]. unfold read.
  destruct (is_terminated (x_state x)) eqn:Et; [reflexivity|].
  assert (Hst : x_state x <> Terminated) by (intros X; rewrite X in Et; discriminate Et).
  destruct (read_loop _ x w) as [[r x'] w'] eqn:E.
  assert (Hinv : rinv B x) by (unfold rinv; auto).
  assert (Hlf : (xbytes x w < S (length (c_in (x_codec x)) + rd_bytes (w_rds w)))%nat)
    by (unfold xbytes, bytes_left; lia).
  destruct (read_loop_view B _ _ _ _ _ _ Hinv Hsup Hlf E)
    as [[m [-> [G1 [G2 [G3 G4]]]]] | [[-> [G1 [G2 [G3 G4]]]] | [G1 [G2 G3]]]].
  - destruct G2 as [J1 [J2 [J3 J4]]]. rewrite G1. f_equal.
    rewrite (IH x' w' J1 J2 J4 G3 ltac:(lia)).
    destruct (x_state x'); try reflexivity. exfalso. exact (J3 eq_refl).
  - destruct G2 as [J1 [J2 [J3 J4]]]. rewrite G1. destruct (w_rds w') as [|o rds'] eqn:Er.
    + symmetry. exact (G3 eq_refl).
    + destruct (G4 ltac:(discriminate)) as [G5 G6].
      rewrite (IH x' w' J1 J2 J4 G5 ltac:(lia)).
      destruct (x_state x'); try reflexivity. exfalso. exact (J3 eq_refl).
  - rewrite G3. destruct r as [m|e|s|]; try reflexivity.
    + exfalso. exact (G1 m eq_refl).
    + destruct e as [| |[]| | | |]; try reflexivity. exfalso. exact (G2 eq_refl).
Qed.

(** ** 8.11 Corollaries: schedule independence, WouldBlock is a no-op, from_partially_read *)

(* the hypotheses on the context: max_write_buffer_size is B, out_buffer is empty, a held header is
   still waiting for payload bytes *)
Definition ctx_ready (B : N) (x : ctx) : Prop :=
  c_max_out (x_codec x) = B /\ c_out (x_codec x) = [] /\ codec_rest (x_codec x).

Theorem reads_sched_indep B x w1 w2 f1 f2 :
  ctx_ready B x -> supply B x w1 -> supply B x w2 ->
  sched_data (w_rds w1) = sched_data (w_rds w2) ->
  sched_end (w_rds w1) = sched_end (w_rds w2) ->
  (xmu x w1 < f1)%nat -> (xmu x w2 < f2)%nat ->
  reads f1 x w1 = reads f2 x w2.
Proof.
  intros [R1 [R2 R3]] S1 S2 Hd He F1 F2.
  rewrite (reads_ref B f1 x w1 R1 R2 R3 S1 F1), (reads_ref B f2 x w2 R1 R2 R3 S2 F2).
  unfold fview. rewrite Hd, He. reflexivity.
Qed.

Theorem reads_wouldblock_noop B x w x' w' :
  ctx_ready B x -> supply B x w ->
  read x w = (RErr (EIo WouldBlock), x', w') ->
  ctx_ready B x' /\ x_state x' <> Terminated /\
  forall f f', supply B x' w' -> (xmu x' w' < f')%nat -> (xmu x w < f)%nat ->
               reads f' x' w' = reads f x w.
Proof.
  intros [R1 [R2 R3]] S1 E. unfold read in E.
  destruct (is_terminated (x_state x)) eqn:Et; [discriminate E|].
  assert (Hst : x_state x <> Terminated) by (intros X; rewrite X in Et; discriminate Et).
  assert (Hinv : rinv B x) by (unfold rinv; auto).
  assert (Hlf : (xbytes x w < S (length (c_in (x_codec x)) + rd_bytes (w_rds w)))%nat)
    by (unfold xbytes, bytes_left; lia).
  destruct (read_loop_view B _ _ _ _ _ _ Hinv S1 Hlf E)
    as [[m [X _]] | [[_ [G1 [G2 _]]] | [_ [X _]]]]; [discriminate X| |exfalso; exact (X eq_refl)].
  destruct G2 as [J1 [J2 [J3 J4]]].
  split; [unfold ctx_ready; auto|]. split; [exact J3|].
  intros f f' S' F' F.
  rewrite (reads_ref B f' x' w' J1 J2 J4 S' F'), (reads_ref B f x w R1 R2 R3 S1 F), Et.
  destruct (x_state x'); try (symmetry; exact G1). exfalso. exact (J3 eq_refl).
Qed.

Lemma ctx_new_ready r p cfg x :
  ctx_new r p cfg = Some x ->
  ctx_ready (cfg_max_write_buffer_size cfg) x /\ c_in (x_codec x) = p /\ c_hdr (x_codec x) = None /\
  x = mkCtx r (set_limits (codec_new p) (cfg_max_write_buffer_size cfg) (cfg_write_buffer_size cfg))
            Active None None false cfg.
Proof.
  unfold ctx_new. destruct (config_valid cfg); [|discriminate]. intros E. injection E as <-.
  unfold ctx_ready, codec_rest. cbn. auto.
Qed.

(* from_partially_read p, then a schedule  ==  fresh socket under any schedule delivering p ++ data *)
Theorem reads_partially_read r p cfg xp x0 w w0 f f0 :
  ctx_new r p cfg = Some xp -> ctx_new r [] cfg = Some x0 ->
  supply (cfg_max_write_buffer_size cfg) xp w -> supply (cfg_max_write_buffer_size cfg) x0 w0 ->
  sched_data (w_rds w0) = p ++ sched_data (w_rds w) ->
  sched_end (w_rds w0) = sched_end (w_rds w) ->
  (xmu xp w < f)%nat -> (xmu x0 w0 < f0)%nat ->
  reads f xp w = reads f0 x0 w0.
Proof.
  intros Ep E0 Sp S0 Hd He Fp F0.
  destruct (ctx_new_ready _ _ _ _ Ep) as [[P1 [P2 P3]] [P4 [P5 P6]]].
  destruct (ctx_new_ready _ _ _ _ E0) as [[Q1 [Q2 Q3]] [Q4 [Q5 Q6]]].
  rewrite (reads_ref _ f xp w P1 P2 P3 Sp Fp), (reads_ref _ f0 x0 w0 Q1 Q2 Q3 S0 F0).
  assert (Hs : x_state xp = x_state x0) by (rewrite P6, Q6; reflexivity). rewrite Hs.
  destruct (is_terminated (x_state x0)); [reflexivity|].
  assert (Hv : fview xp w = fview x0 w0).
  { unfold fview. rewrite P4, P5, Q4, Q5, Hd, He. rewrite P6, Q6. reflexivity. }
  rewrite Hv. apply mloop_canon. rewrite P6, Q6. reflexivity.
Qed.

(* removing every WouldBlock from a schedule, or cutting it differently, changes neither its data nor
   its terminal: two convenient instances for the schedule-independence theorems *)
Definition not_wb (o : rd_out) : bool := match o with RdErr WouldBlock => false | _ => true end.

Lemma sched_filter_wb rds :
  sched_data (filter not_wb rds) = sched_data rds /\ sched_end (filter not_wb rds) = sched_end rds.
Proof.
  induction rds as [|o r [IH1 IH2]]; [split; reflexivity|].
  destruct o as [[|b bs]| |[]]; cbn [filter not_wb sched_data sched_end]; try (split; reflexivity);
    try (split; [rewrite IH1; reflexivity|exact IH2]); try (split; assumption).
Qed.

Lemma sched_whole chunks tail :
  Forall nonempty chunks -> concat chunks <> [] ->
  sched_data (map RdData chunks ++ tail) = sched_data (RdData (concat chunks) :: tail) /\
  sched_end (map RdData chunks ++ tail) = sched_end (RdData (concat chunks) :: tail).
Proof.
  intros Hne Hc. rewrite sched_data_chunks, sched_end_chunks by exact Hne.
  destruct (concat chunks) as [|b bs] eqn:E; [exfalso; exact (Hc eq_refl)|].
  cbn [sched_data sched_end]. split; reflexivity.
Qed.

(* one byte at a time, a WouldBlock after every byte *)
Definition drip (bs : bytes) : list rd_out := flat_map (fun b => [RdData [b]; RdErr WouldBlock]) bs.

Lemma sched_drip bs tail :
  sched_data (drip bs ++ tail) = bs ++ sched_data tail /\ sched_end (drip bs ++ tail) = sched_end tail.
Proof.
  induction bs as [|b r [IH1 IH2]]; [split; reflexivity|].
  cbn [drip flat_map app sched_data sched_end]. fold (drip r). split; [rewrite IH1; reflexivity|exact IH2].
Qed.

Lemma sched_drip_whole bs tail :
  bs <> [] ->
  sched_data (drip bs ++ tail) = sched_data (RdData bs :: tail) /\
  sched_end (drip bs ++ tail) = sched_end (RdData bs :: tail).
Proof.
  intros H. destruct (sched_drip bs tail) as [A B]. rewrite A, B.
  destruct bs as [|b r]; [exfalso; exact (H eq_refl)|]. split; reflexivity.
Qed.

(** ** 8.12 The counterexample to the unrestricted message-level statement, in full *)
Lemma messages_refuted_witness :
  exists (cfg : config) (msg : message) (rds1 rds2 : list rd_out) (wrs : list wr_out) (fls : list fl_out)
         (x0 x : ctx) (w1 w2 : world),
    Forall (acc_wr (cfg_max_write_buffer_size cfg)) wrs /\ Forall (fun o => o = FlOk) fls /\
    sched_data rds1 = sched_data rds2 /\ sched_end rds1 = sched_end rds2 /\
    ctx_new Server [] cfg = Some x0 /\
    write x0 msg (mkWorld rds1 wrs fls [] []) = (ROk tt, x, w1) /\
    write x0 msg (mkWorld rds2 wrs fls [] []) = (ROk tt, x, w2) /\
    blen (c_out (x_codec x)) = 98 /\
    reads 50 x w1 = [ROk (MClose (Some (CNormal, []))); RErr (EProtocol ReceivedAfterClosing)] /\
    reads 50 x w2 = [ROk (MClose (Some (CNormal, []))); RErr EConnectionClosed].
Proof.
  pose (x0 := mkCtx Server (set_limits (codec_new []) 101 100) Active None None false cx_cfg).
  pose (m := MBinary (repeat 0 96%nat)).
  exists cx_cfg, m, cx_whole, cx_cut, (repeat (WrAccept 1000) 10), (repeat FlOk 10), x0,
         (snd (fst (write x0 m (cx_world cx_whole)))),
         (snd (write x0 m (cx_world cx_whole))), (snd (write x0 m (cx_world cx_cut))).
  split. { apply Forall_forall. intros o Ho. apply repeat_spec in Ho. subst o. cbn. lia. }
  split. { apply Forall_forall. intros o Ho. apply repeat_spec in Ho. exact Ho. }
  vm_compute. repeat split; reflexivity.
Qed.
