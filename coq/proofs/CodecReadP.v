(* proofs/CodecReadP.v — C05: what is read does not depend on how the transport cuts the byte stream.

   Contents
   1. list/N helpers
   2. header_parse prefix-stability (proved locally; the C18 package proves them again in HeaderP.v)
   3. the whole-stream reference decoder  ref_from / frames_ref
   4. schedules: every read-oracle list is a schedule; sched_data / sched_term
   5. one call of read_frame_loop against the decoder's view (try_take, then induction on the oracle)
   6. drive = successive read_frame results, WouldBlocks dropped; drive = reference, for every schedule
   7. WouldBlock is a no-op; from_partially_read
   8. message level (Protocol.read)                                                           *)
From TungModel Require Import Base Coding Mask Header Frame World Message Codec Protocol.
From Coq Require Import Lia ZifyBool ZifyNat ZifyN.

Arguments N.add : simpl never.
Arguments N.sub : simpl never.
Arguments N.mul : simpl never.
Arguments N.leb : simpl never.
Arguments N.ltb : simpl never.
Arguments N.eqb : simpl never.
Arguments N.land : simpl never.
Arguments N.of_nat : simpl never.
Arguments N.to_nat : simpl never.

(* ------------------------------------------------------------------------------------------- *)
(** * 1. helpers *)

Section ListN.
Context {A : Type}.
Implicit Types a b : list A.

Lemma blen_app a b : blen (a ++ b) = blen a + blen b.
Proof. unfold blen. rewrite app_length. lia. Qed.

Lemma takeN_app_le n a b : n <= blen a -> takeN n (a ++ b) = takeN n a.
Proof.
  unfold takeN, blen. intros H. rewrite firstn_app.
  replace (N.to_nat n - length a)%nat with 0%nat by lia.
  rewrite firstn_O. apply app_nil_r.
Qed.

Lemma dropN_app_le n a b : n <= blen a -> dropN n (a ++ b) = dropN n a ++ b.
Proof.
  unfold dropN, blen. intros H. rewrite skipn_app.
  replace (N.to_nat n - length a)%nat with 0%nat by lia. reflexivity.
Qed.

Lemma length_dropN n a : length (dropN n a) = (length a - N.to_nat n)%nat.
Proof. unfold dropN. apply skipn_length. Qed.

Lemma blen_dropN n a : blen (dropN n a) = blen a - n.
Proof. unfold blen. rewrite length_dropN. lia. Qed.

Lemma blen_takeN n a : n <= blen a -> blen (takeN n a) = n.
Proof. unfold blen, takeN. intros H. rewrite firstn_length_le by lia. lia. Qed.

Lemma takeN_dropN n a : takeN n a ++ dropN n a = a.
Proof. unfold takeN, dropN. apply firstn_skipn. Qed.
End ListN.

(* ------------------------------------------------------------------------------------------- *)
(** * 2. header_parse is stable under extension of its input *)

Lemma hp_ext_aux first second r more :
  match header_parse (first :: second :: r) with
  | POk h n k => header_parse (first :: second :: r ++ more) = POk h n k /\ 2 <= k <= 2 + blen r
  | PErr e => header_parse (first :: second :: r ++ more) = PErr e
  | PPanic => header_parse (first :: second :: r ++ more) = PPanic
  | PIncomplete => True
  end.
Proof.
  unfold header_parse. cbv zeta.
  destruct (opcode_of_u8 (N.land first 15)) as [opc|]; [|reflexivity].
  generalize (lf_extra (lf_for_byte (N.land second 127))) as ll. intros ll.
  destruct (8 <? ll); [reflexivity|].
  rewrite blen_app.
  destruct (blen r <? ll) eqn:El; [exact I|].
  destruct (blen r + blen more <? ll) eqn:El'; [lia|].
  rewrite takeN_app_le, dropN_app_le by lia.
  pose proof (blen_dropN ll r) as Hd.
  destruct (bit second 128).
  - destruct (dropN ll r) as [|a [|b [|c [|d t]]]]; cbn [app]; try exact I.
    destruct (is_reserved opc); [reflexivity|]. split; [reflexivity|].
    unfold blen in *. cbn [length] in Hd. lia.
  - destruct (is_reserved opc); [reflexivity|]. split; [reflexivity|lia].
Qed.

(* C18-style statements *)
Lemma hp_ok bs h n k :
  header_parse bs = POk h n k ->
  2 <= k <= blen bs /\ forall more, header_parse (bs ++ more) = POk h n k.
Proof.
  destruct bs as [|first [|second r]]; try discriminate.
  intros H. split.
  - pose proof (hp_ext_aux first second r []) as X. rewrite H in X.
    destruct X as [_ X]. unfold blen in *. cbn [length]. lia.
  - intros more. pose proof (hp_ext_aux first second r more) as X. rewrite H in X.
    destruct X as [X _]. exact X.
Qed.

Lemma hp_err bs e : header_parse bs = PErr e -> forall more, header_parse (bs ++ more) = PErr e.
Proof.
  destruct bs as [|first [|second r]]; try discriminate.
  intros H more. pose proof (hp_ext_aux first second r more) as X. rewrite H in X. exact X.
Qed.

Lemma hp_panic bs : header_parse bs = PPanic -> forall more, header_parse (bs ++ more) = PPanic.
Proof.
  destruct bs as [|first [|second r]]; try discriminate.
  intros H more. pose proof (hp_ext_aux first second r more) as X. rewrite H in X. exact X.
Qed.

(* the two panic arms of parse are in fact dead *)
Lemma land15_lt16 b : N.land b 15 < 16.
Proof.
  change 15 with (N.ones 4). rewrite N.land_ones. apply N.mod_lt. discriminate.
Qed.

Lemma opcode_of_u8_total b : b < 16 -> opcode_of_u8 b <> None.
Proof.
  intros Hb. unfold opcode_of_u8.
  repeat match goal with
  | |- context [if ?c then _ else _] => destruct c eqn:?; [discriminate|]
  end.
  lia.
Qed.

Lemma hp_no_panic bs : header_parse bs <> PPanic.
Proof.
  destruct bs as [|first [|second r]]; try discriminate.
  unfold header_parse. cbv zeta.
  destruct (opcode_of_u8 (N.land first 15)) as [opc|] eqn:Eo.
  2:{ exfalso. exact (opcode_of_u8_total _ (land15_lt16 first) Eo). }
  assert (Hll : lf_extra (lf_for_byte (N.land second 127)) <= 8).
  { unfold lf_for_byte. destruct (_ =? 126); [cbn; lia|]. destruct (_ =? 127); cbn; lia. }
  destruct (8 <? _) eqn:E8; [lia|].
  destruct (blen r <? _); [discriminate|].
  destruct (bit second 128).
  - destruct (dropN _ r) as [|a [|b [|c [|d t]]]]; try discriminate.
    destruct (is_reserved opc); discriminate.
  - destruct (is_reserved opc); discriminate.
Qed.

Local Opaque header_parse.

(* ------------------------------------------------------------------------------------------- *)
(** * 3. The whole-stream reference decoder

   [raw] is the result type of one [read_frame_loop] call.  The reference decoder looks at the whole
   remaining byte stream at once: it cuts it into frames and ends with
     - the decoding error, if a header is invalid or a frame is larger than the limit, or
     - [term], what the transport says once the bytes are exhausted inside a frame
       ([] = silence, [ROk None] = end of file, [RErr (EIo k)] = hard error).                   *)

Definition raw := res (option (header * N * bytes)).

Definition ref_body (cont : bytes -> list raw) (max : N) (h : header) (len : N) (rest : bytes)
           (term : list raw) : list raw :=
  if max <? len then [RErr (ECapacity len max)]
  else if len <=? blen rest then ROk (Some (h, len, takeN len rest)) :: cont (dropN len rest)
  else term.

Definition ref_step (cont : bytes -> list raw) (max : N) (bs : bytes) (term : list raw) : list raw :=
  match header_parse bs with
  | POk h len k => ref_body cont max h len (dropN k bs) term
  | PIncomplete => term
  | PErr i => [RErr (EProtocol (InvalidOpcode i))]
  | PPanic => [RPanic site_opcode_range]
  end.

Fixpoint ref_fresh (fuel : nat) (max : N) (bs : bytes) (term : list raw) : list raw :=
  match fuel with
  | O => [ROutOfFuel]
  | S f => ref_step (fun r => ref_fresh f max r term) max bs term
  end.

(* every frame takes at least two bytes, so the length is enough fuel *)
Definition ref_all (max : N) (bs : bytes) (term : list raw) : list raw :=
  ref_fresh (S (length bs)) max bs term.

(* entry point: an already parsed header (the codec's [header] field) is accepted only here *)
Definition ref_from (max : N) (hdr : option (header * N)) (bs : bytes) (term : list raw) : list raw :=
  match hdr with
  | None => ref_all max bs term
  | Some (h, len) => ref_body (fun r => ref_all max r term) max h len bs term
  end.

Lemma ref_step_ext cont1 cont2 max bs term :
  (forall r, (length r < length bs)%nat -> cont1 r = cont2 r) ->
  ref_step cont1 max bs term = ref_step cont2 max bs term.
Proof.
  intros H. unfold ref_step.
  destruct (header_parse bs) as [h len k| | |] eqn:Hp; try reflexivity.
  apply hp_ok in Hp. destruct Hp as [Hk _].
  unfold ref_body.
  destruct (max <? len); [reflexivity|].
  destruct (len <=? blen (dropN k bs)); [|reflexivity].
  f_equal. apply H. rewrite !length_dropN. unfold blen in Hk. lia.
Qed.

Lemma ref_fresh_fuel max term f1 : forall f2 bs,
  (length bs < f1)%nat -> (length bs < f2)%nat ->
  ref_fresh f1 max bs term = ref_fresh f2 max bs term.
Proof.
  induction f1 as [|f1 IH]; intros f2 bs H1 H2; [lia|].
  destruct f2 as [|f2]; [lia|].
  cbn [ref_fresh]. apply ref_step_ext. intros r Hr. apply IH; lia.
Qed.

(* the fixpoint equation of the reference decoder *)
Lemma ref_all_eq max bs term :
  ref_all max bs term = ref_step (fun r => ref_all max r term) max bs term.
Proof.
  unfold ref_all at 1.
  change (ref_fresh (S (length bs)) max bs term)
    with (ref_step (fun r => ref_fresh (length bs) max r term) max bs term).
  apply ref_step_ext. intros r Hr. unfold ref_all. apply ref_fresh_fuel; lia.
Qed.

(* the reference decoder never runs out of fuel *)
Lemma ref_fresh_no_oof max term : ~ In ROutOfFuel term ->
  forall f bs, (length bs < f)%nat -> ~ In ROutOfFuel (ref_fresh f max bs term).
Proof.
  intros HT f. induction f as [|f IH]; intros bs Hf; [lia|].
  cbn [ref_fresh]. unfold ref_step.
  destruct (header_parse bs) as [h len k| | |] eqn:Hp.
  - apply hp_ok in Hp. destruct Hp as [Hk _]. unfold ref_body.
    destruct (max <? len). { intros [X|[]]; discriminate. }
    destruct (len <=? blen (dropN k bs)); [|exact HT].
    intros [X|X]; [discriminate|]. revert X. apply IH.
    rewrite !length_dropN. unfold blen in Hk. lia.
  - exact HT.
  - intros [X|[]]; discriminate.
  - intros [X|[]]; discriminate.
Qed.

Lemma ref_from_no_oof max hdr bs term :
  ~ In ROutOfFuel term -> ~ In ROutOfFuel (ref_from max hdr bs term).
Proof.
  intros HT. unfold ref_from. destruct hdr as [[h len]|].
  - unfold ref_body. destruct (max <? len). { intros [X|[]]; discriminate. }
    destruct (len <=? blen bs); [|exact HT].
    intros [X|X]; [discriminate|]. revert X. apply ref_fresh_no_oof; [exact HT|].
    rewrite length_dropN. lia.
  - apply ref_fresh_no_oof; [exact HT|lia].
Qed.

(* ------------------------------------------------------------------------------------------- *)
(** * 4. Schedules

   Every list of read outcomes is a schedule.  Its data are the chunks delivered before the first
   terminal entry, WouldBlocks skipped; its terminal is the first entry that is neither a non-empty
   chunk nor a WouldBlock (an empty read is end of file, as in the code: Ok(0)), or silence if there
   is none: an exhausted oracle answers WouldBlock for ever.                                      *)

Fixpoint sched_data (rds : list rd_out) : bytes :=
  match rds with
  | RdData (b :: bs) :: r => (b :: bs) ++ sched_data r
  | RdErr WouldBlock :: r => sched_data r
  | _ => []
  end.

Fixpoint sched_term {A : Type} (rds : list rd_out) : list (res (option A)) :=
  match rds with
  | [] => []
  | RdData (_ :: _) :: r => sched_term r
  | RdErr WouldBlock :: r => sched_term r
  | RdData [] :: _ => [ROk None]
  | RdEof :: _ => [ROk None]
  | RdErr k :: _ => [RErr (EIo k)]
  end.

(* ------------------------------------------------------------------------------------------- *)
(** * 5. One call of read_frame_loop against the decoder's view *)

Definition drop_log {A B C D} (x : A * B * C * D) : A * B * C := let '(a, b, c, _) := x in (a, b, c).

(* read_frame_loop without the log *)
Definition rfl (max : N) (rds : list rd_out) (c : codec) : raw * codec * list rd_out :=
  drop_log (read_frame_loop max rds c []).

Lemma rfl_loop_log max rds : forall c log1 log2,
  drop_log (read_frame_loop max rds c log1) = drop_log (read_frame_loop max rds c log2).
Proof.
  induction rds as [|o r IH]; intros c log1 log2; cbn [read_frame_loop];
    destruct (try_take max c) as [h len p c'|n c'|e c'|s]; try reflexivity.
  destruct o as [[|b bs]| |k]; try reflexivity. apply IH.
Qed.

Lemma rfl_of_loop max rds c log : drop_log (read_frame_loop max rds c log) = rfl max rds c.
Proof. apply rfl_loop_log. Qed.

Lemma rfl_eq max rds c :
  rfl max rds c =
  match try_take max c with
  | TkPayload h len p c' => (ROk (Some (h, len, p)), c', rds)
  | TkErr e c' => (RErr e, c', rds)
  | TkPanic s => (RPanic s, c, rds)
  | TkNeedMore n c' =>
      match rds with
      | [] => (RErr (EIo WouldBlock), c', [])
      | RdData [] :: r => (ROk None, c', r)
      | RdData bs :: r => rfl max r (set_in c' (c_in c' ++ bs))
      | RdEof :: r => (ROk None, c', r)
      | RdErr k :: r => (RErr (EIo k), c', r)
      end
  end.
Proof.
  unfold rfl. destruct rds as [|o r]; cbn [read_frame_loop];
    destruct (try_take max c) as [h len p c'|n c'|e c'|s]; try reflexivity.
  destruct o as [[|b bs]| |k]; try reflexivity. apply rfl_loop_log.
Qed.

(* the decoder's view of a codec state: held header, buffered bytes, then the bytes still to come *)
Definition view (max : N) (c : codec) (future : bytes) (term : list raw) : list raw :=
  ref_from max (c_hdr c) (c_in c ++ future) term.

Lemma view_held max (c : codec) h len d T :
  c_hdr c = Some (h, len) ->
  view max c d T =
  if max <? len then [RErr (ECapacity len max)]
  else if len <=? blen (c_in c) then
    ROk (Some (h, len, takeN len (c_in c))) :: view max (set_hdr (set_in c (dropN len (c_in c))) None) d T
  else view max c d T.
Proof.
  intros Hh. unfold view at 1. rewrite Hh. cbn [ref_from]. unfold ref_body.
  destruct (max <? len) eqn:Em; [reflexivity|].
  destruct (len <=? blen (c_in c)) eqn:El.
  - rewrite blen_app. destruct (len <=? blen (c_in c) + blen d) eqn:El'; [|lia].
    rewrite takeN_app_le, dropN_app_le by lia. reflexivity.
  - unfold view. rewrite Hh. cbn [ref_from]. unfold ref_body. rewrite Em. reflexivity.
Qed.

(* try_take against the view: a returned payload is the view's first item, an error is the view,
   and asking for more leaves the view as it is — for every continuation of the stream *)
Lemma view_try_take max c d T :
  view max c d T =
  match try_take max c with
  | TkPayload h len p c' => ROk (Some (h, len, p)) :: view max c' d T
  | TkErr e _ => [RErr e]
  | TkPanic s => [RPanic s]
  | TkNeedMore _ c' => view max c' d T
  end.
Proof.
  unfold try_take. destruct (c_hdr c) as [[h len]|] eqn:Hh.
  - rewrite Hh. rewrite (view_held max c h len d T Hh).
    destruct (max <? len); [reflexivity|]. destruct (len <=? blen (c_in c)); reflexivity.
  - destruct (header_parse (c_in c)) as [h len k| |i|] eqn:Hp.
    + destruct (hp_ok _ _ _ _ Hp) as [Hk Hext].
      set (c1 := set_hdr (set_in c (dropN k (c_in c))) (Some (h, len))).
      assert (Hv : view max c d T = view max c1 d T).
      { unfold view. rewrite Hh. cbn [ref_from]. rewrite ref_all_eq. unfold ref_step.
        rewrite Hext. rewrite dropN_app_le by lia. reflexivity. }
      rewrite Hv. change (c_hdr c1) with (Some (h, len)).
      rewrite (view_held max c1 h len d T eq_refl).
      destruct (max <? len); [reflexivity|]. destruct (len <=? blen (c_in c1)); reflexivity.
    + rewrite Hh. reflexivity.
    + unfold view. rewrite Hh. cbn [ref_from]. rewrite ref_all_eq. unfold ref_step.
      rewrite (hp_err _ _ Hp). reflexivity.
    + unfold view. rewrite Hh. cbn [ref_from]. rewrite ref_all_eq. unfold ref_step.
      rewrite (hp_panic _ Hp). reflexivity.
Qed.

(* a state that asked for more is idle: without further bytes its view is just the terminal *)
Lemma view_needmore_idle max c n c' T :
  try_take max c = TkNeedMore n c' -> view max c' [] T = T.
Proof.
  unfold try_take. destruct (c_hdr c) as [[h len]|] eqn:Hh.
  - rewrite Hh. destruct (max <? len) eqn:Em; [discriminate|].
    destruct (len <=? blen (c_in c)) eqn:El; [discriminate|].
    intros X. injection X as _ <-. unfold view. rewrite Hh, app_nil_r. cbn [ref_from].
    unfold ref_body. rewrite Em, El. reflexivity.
  - destruct (header_parse (c_in c)) as [h len k| |i|] eqn:Hp; try discriminate.
    + cbn [c_hdr set_hdr]. destruct (max <? len) eqn:Em; [discriminate|].
      destruct (len <=? _) eqn:El; [discriminate|].
      intros X. injection X as _ <-. unfold view. cbn [c_hdr c_in set_hdr set_in ref_from].
      rewrite app_nil_r. unfold ref_body. cbn [c_hdr c_in set_hdr set_in] in El. rewrite Em, El. reflexivity.
    + rewrite Hh. intros X. injection X as _ <-. unfold view. rewrite Hh, app_nil_r.
      cbn [ref_from]. rewrite ref_all_eq. unfold ref_step. rewrite Hp. reflexivity.
Qed.

(* progress measure for repeated calls *)
Definition hdr_bit (c : codec) : nat := match c_hdr c with Some _ => 1 | None => 0 end.
Definition buffered (c : codec) : nat := length (c_in c) + hdr_bit c.
Definition mu (c : codec) (rds : list rd_out) : nat := buffered c + rd_bytes rds + length rds.

Lemma try_take_buffered max c :
  match try_take max c with
  | TkPayload _ _ _ c' => (buffered c' < buffered c)%nat
  | TkNeedMore _ c' => (buffered c' <= buffered c)%nat
  | _ => True
  end.
Proof.
  unfold try_take, buffered, hdr_bit. destruct (c_hdr c) as [[h len]|] eqn:Hh.
  - rewrite Hh. destruct (max <? len); [exact I|].
    destruct (len <=? blen (c_in c)); cbn [c_hdr c_in set_hdr set_in].
    + rewrite length_dropN. lia.
    + rewrite Hh. lia.
  - destruct (header_parse (c_in c)) as [h len k| |i|] eqn:Hp; try exact I.
    + destruct (hp_ok _ _ _ _ Hp) as [Hk _]. cbn [c_hdr c_in set_hdr set_in].
      destruct (max <? len); [exact I|]. unfold blen in Hk.
      destruct (len <=? _); cbn [c_hdr c_in set_hdr set_in]; rewrite ?length_dropN; lia.
    + rewrite Hh. cbv beta iota. rewrite Hh. lia.
Qed.

Inductive rclass := KFrame | KWB | KStop.
Definition classify {A} (r : res (option A)) : rclass :=
  match r with
  | ROk (Some _) => KFrame
  | RErr (EIo WouldBlock) => KWB
  | _ => KStop
  end.

Definition held (max : N) (c1 : codec) (h : header) (len : N) : take_res :=
  if max <? len then TkErr (ECapacity len max) c1
  else if len <=? blen (c_in c1) then
    TkPayload h len (takeN len (c_in c1)) (set_hdr (set_in c1 (dropN len (c_in c1))) None)
  else TkNeedMore len c1.

Lemma try_take_eq max c :
  try_take max c =
  match c_hdr c with
  | Some (h, len) => held max c h len
  | None =>
      match header_parse (c_in c) with
      | POk h len k => held max (set_hdr (set_in c (dropN k (c_in c))) (Some (h, len))) h len
      | PIncomplete => TkNeedMore 6 c
      | PErr i => TkErr (EProtocol (InvalidOpcode i)) c
      | PPanic => TkPanic site_opcode_range
      end
  end.
Proof.
  unfold try_take, held. cbv zeta. destruct (c_hdr c) as [[h len]|] eqn:Hh.
  - rewrite Hh. reflexivity.
  - destruct (header_parse (c_in c)) as [h len k| |i|]; try reflexivity.
    rewrite Hh. reflexivity.
Qed.

Lemma try_take_err_not_io max c e c' : try_take max c = TkErr e c' -> forall k, e <> EIo k.
Proof.
  rewrite try_take_eq. unfold held. intros H k.
  destruct (c_hdr c) as [[h len]|].
  - destruct (max <? len); [injection H as <- _; discriminate|].
    destruct (len <=? _); discriminate.
  - destruct (header_parse (c_in c)) as [h len k0| |i|]; try discriminate.
    + destruct (max <? len); [injection H as <- _; discriminate|].
      destruct (len <=? _); discriminate.
    + injection H as <- _. discriminate.
Qed.

Lemma classify_err_not_io {A} e : (forall k, e <> EIo k) -> classify (@RErr (option A) e) = KStop.
Proof. intros H. destruct e as [| |k| | | |]; try reflexivity. exfalso. exact (H k eq_refl). Qed.

(* the view of a codec in front of a schedule *)
Definition sview (max : N) (c : codec) (rds : list rd_out) : list raw :=
  view max c (sched_data rds) (sched_term rds).

(* One call.  A frame is the head of the view and the rest is the view afterwards; WouldBlock leaves
   the view unchanged; anything else is the whole view. *)
Lemma rfl_sview max : forall rds c r c' rds',
  rfl max rds c = (r, c', rds') ->
  match classify r with
  | KFrame => sview max c rds = r :: sview max c' rds' /\ (mu c' rds' < mu c rds)%nat
  | KWB => sview max c rds = sview max c' rds' /\
           (rds' = [] -> sview max c' [] = []) /\
           (rds' <> [] -> (mu c' rds' < mu c rds)%nat)
  | KStop => sview max c rds = [r] /\ r <> ROutOfFuel
  end.
Proof.
  induction rds as [|o rest IH]; intros c r c' rds' E; rewrite rfl_eq in E;
    pose proof (try_take_buffered max c) as Hb;
    pose proof (view_needmore_idle max c) as Hidle;
    unfold sview; rewrite (view_try_take max c);
    destruct (try_take max c) as [h len p c1|n c1|e c1|s] eqn:Et.
  - injection E as <- <- <-. cbn [classify]. split; [reflexivity|]. unfold mu. lia.
  - injection E as <- <- <-. cbn [classify sched_data sched_term].
    split; [reflexivity|]. split; [|intros X; exfalso; exact (X eq_refl)].
    intros _. unfold sview. cbn [sched_data sched_term]. exact (Hidle _ _ _ eq_refl).
  - injection E as <- <- <-.
    assert (X : classify (@RErr (option (header * N * bytes)) e) = KStop).
    { apply classify_err_not_io. exact (try_take_err_not_io _ _ _ _ Et). }
    rewrite X. split; [reflexivity|discriminate].
  - injection E as <- <- <-. cbn [classify]. split; [reflexivity|discriminate].
  - injection E as <- <- <-. cbn [classify]. split; [reflexivity|]. unfold mu. lia.
  - destruct o as [[|b bs]| |k].
    + injection E as <- <- <-. cbn [classify sched_data sched_term]. rewrite (Hidle _ _ _ eq_refl).
      split; [reflexivity|discriminate].
    + specialize (IH _ _ _ _ E).
      assert (Hv : view max c1 (sched_data (RdData (b :: bs) :: rest)) (sched_term (RdData (b :: bs) :: rest))
                   = sview max (set_in c1 (c_in c1 ++ b :: bs)) rest).
      { unfold sview, view. cbn [sched_data sched_term c_hdr c_in set_in]. rewrite <- app_assoc. reflexivity. }
      rewrite Hv.
      assert (Hm : (mu (set_in c1 (c_in c1 ++ b :: bs)) rest < mu c (RdData (b :: bs) :: rest))%nat).
      { unfold mu, buffered, hdr_bit in *. cbn [c_hdr c_in set_in rd_bytes length]. rewrite app_length.
        cbn [length]. lia. }
      destruct (classify r).
      * destruct IH as [IH1 IH2]. split; [exact IH1|lia].
      * destruct IH as [IH1 [IH2 IH3]]. split; [exact IH1|]. split; [exact IH2|].
        intros X. specialize (IH3 X). lia.
      * exact IH.
    + injection E as <- <- <-. cbn [classify sched_data sched_term]. rewrite (Hidle _ _ _ eq_refl).
      split; [reflexivity|discriminate].
    + injection E as <- <- <-. destruct k; cbn [classify sched_data sched_term].
      * split; [reflexivity|]. split.
        -- intros ->. unfold sview. cbn [sched_data sched_term]. exact (Hidle _ _ _ eq_refl).
        -- intros _. unfold mu. cbn [rd_bytes length]. lia.
      * rewrite (Hidle _ _ _ eq_refl). split; [reflexivity|discriminate].
      * rewrite (Hidle _ _ _ eq_refl). split; [reflexivity|discriminate].
      * rewrite (Hidle _ _ _ eq_refl). split; [reflexivity|discriminate].
  - injection E as <- <- <-.
    assert (X : classify (@RErr (option (header * N * bytes)) e) = KStop).
    { apply classify_err_not_io. exact (try_take_err_not_io _ _ _ _ Et). }
    rewrite X. split; [reflexivity|discriminate].
  - injection E as <- <- <-. cbn [classify]. split; [reflexivity|discriminate].
Qed.

(* ------------------------------------------------------------------------------------------- *)
(** * 6. drive: the results of successive calls, WouldBlocks dropped

   Stops at the first result that is neither a frame nor WouldBlock (end of file, any error, a panic),
   or when a call answers WouldBlock and the oracle is exhausted (it would answer WouldBlock for ever). *)

Fixpoint drive_raw (fuel : nat) (max : N) (c : codec) (rds : list rd_out) : list raw :=
  match fuel with
  | O => [ROutOfFuel]
  | S f =>
      let '(r, c', rds') := rfl max rds c in
      match classify r with
      | KFrame => r :: drive_raw f max c' rds'
      | KWB => match rds' with [] => [] | _ => drive_raw f max c' rds' end
      | KStop => [r]
      end
  end.

Theorem drive_raw_ref max : forall fuel c rds,
  (mu c rds < fuel)%nat ->
  drive_raw fuel max c rds = sview max c rds.
Proof.
  induction fuel as [|f IH]; intros c rds Hf; [lia|].
  cbn [drive_raw]. destruct (rfl max rds c) as [[r c'] rds'] eqn:E.
  pose proof (rfl_sview max _ _ _ _ _ E) as H.
  destruct (classify r).
  - destruct H as [H1 H2]. rewrite H1. f_equal. apply IH. lia.
  - destruct H as [H1 [H2 H3]]. rewrite H1. destruct rds' as [|o rds'].
    + symmetry. exact (H2 eq_refl).
    + apply IH. assert (X : o :: rds' <> []) by discriminate. specialize (H3 X). lia.
  - destruct H as [H1 _]. symmetry. exact H1.
Qed.

Corollary drive_raw_sched_indep max c rds1 rds2 f1 f2 :
  sched_data rds1 = sched_data rds2 ->
  @sched_term (header * N * bytes) rds1 = sched_term rds2 ->
  (mu c rds1 < f1)%nat -> (mu c rds2 < f2)%nat ->
  drive_raw f1 max c rds1 = drive_raw f2 max c rds2.
Proof.
  intros Hd Ht H1 H2. rewrite !drive_raw_ref by assumption. unfold sview. rewrite Hd, Ht. reflexivity.
Qed.

(** ** The terminal of a schedule as a value *)
Inductive terminal := TSilence | TEof | TErr (k : io_kind).

Fixpoint sched_end (rds : list rd_out) : terminal :=
  match rds with
  | [] => TSilence
  | RdData (_ :: _) :: r => sched_end r
  | RdErr WouldBlock :: r => sched_end r
  | RdData [] :: _ => TEof
  | RdEof :: _ => TEof
  | RdErr k :: _ => TErr k
  end.

Definition term_res {A : Type} (t : terminal) : list (res (option A)) :=
  match t with TSilence => [] | TEof => [ROk None] | TErr k => [RErr (EIo k)] end.

Lemma sched_term_end {A} rds : @sched_term A rds = term_res (sched_end rds).
Proof.
  induction rds as [|o r IH]; [reflexivity|].
  destruct o as [[|b bs]| |[]]; cbn [sched_term sched_end term_res]; try reflexivity; exact IH.
Qed.

(** ** read_frame = read_frame_loop + post-processing of the payload *)

Definition post_frame (unmask accept_unmasked : bool) (r : raw) : res (option frame) :=
  match r with
  | ROk (Some (h, len, payload)) =>
      if negb (blen payload =? len) then RPanic site_payload_len_assert else
      if unmask then
        match h_mask h with
        | Some k => ROk (Some (mkFrame (mkHeader (h_fin h) (h_rsv1 h) (h_rsv2 h) (h_rsv3 h) (h_opcode h) None)
                                       (apply_mask k payload)))
        | None => if accept_unmasked then ROk (Some (mkFrame h payload))
                  else RErr (EProtocol UnmaskedFrameFromClient)
        end
      else ROk (Some (mkFrame h payload))
  | ROk None => ROk None
  | RErr e => RErr e
  | RPanic s => RPanic s
  | ROutOfFuel => ROutOfFuel
  end.

Definition rfl_log (max : N) (rds : list rd_out) (c : codec) (log : list event) : list event :=
  let '(_, _, _, l) := read_frame_loop max rds c log in l.

Lemma read_frame_eq ms u a c w :
  read_frame ms u a c w =
  let '(r, c', rds') := rfl (limit_of ms) (w_rds w) c in
  (post_frame u a r, c',
   mkWorld rds' (w_wrs w) (w_fls w) (w_keys w) (rfl_log (limit_of ms) (w_rds w) c (w_log w))).
Proof.
  unfold read_frame, rfl_log. rewrite <- (rfl_of_loop _ _ _ (w_log w)).
  destruct (read_frame_loop (limit_of ms) (w_rds w) c (w_log w)) as [[[r c'] rds'] log'].
  cbn [drop_log]. destruct r as [[[[h len] p]|]|e|s|]; cbn [post_frame]; try reflexivity.
  destruct (negb _); [reflexivity|].
  destruct u; [|reflexivity]. destruct (h_mask h); [reflexivity|]. destruct a; reflexivity.
Qed.

(* the reference at the level of read_frame: post-process every frame, stop at the first failure *)
Fixpoint finish (u a : bool) (l : list raw) : list (res (option frame)) :=
  match l with
  | [] => []
  | r :: t =>
      match classify (post_frame u a r) with
      | KFrame => post_frame u a r :: finish u a t
      | _ => [post_frame u a r]
      end
  end.

Definition frames_ref (ms : option N) (u a : bool) (hdr : option (header * N)) (bs : bytes)
           (t : terminal) : list (res (option frame)) :=
  finish u a (ref_from (limit_of ms) hdr bs (term_res t)).

Fixpoint drive (fuel : nat) (ms : option N) (u a : bool) (c : codec) (w : world)
  : list (res (option frame)) :=
  match fuel with
  | O => [ROutOfFuel]
  | S f =>
      let '(r, c', w') := read_frame ms u a c w in
      match classify r with
      | KFrame => r :: drive f ms u a c' w'
      | KWB => match w_rds w' with [] => [] | _ => drive f ms u a c' w' end
      | KStop => [r]
      end
  end.

Lemma drive_finish ms u a : forall fuel c w,
  drive fuel ms u a c w = finish u a (drive_raw fuel (limit_of ms) c (w_rds w)).
Proof.
  induction fuel as [|f IH]; intros c w; [reflexivity|].
  cbn [drive drive_raw]. rewrite read_frame_eq.
  destruct (rfl (limit_of ms) (w_rds w) c) as [[r c'] rds'].
  destruct r as [[[[h len] p]|]|e|s|].
  - cbn [classify finish].
    destruct (classify (post_frame u a (ROk (Some (h, len, p))))) eqn:Ec; try reflexivity.
    + f_equal. rewrite IH. reflexivity.
    + exfalso. revert Ec. cbn [post_frame]. destruct (negb _); [discriminate|].
      destruct u; [|discriminate]. destruct (h_mask h); [discriminate|]. destruct a; discriminate.
  - reflexivity.
  - destruct e as [| |[]| | | |]; cbn [post_frame classify finish]; try reflexivity.
    cbn [w_rds]. destruct rds' as [|o rds']; [reflexivity|]. rewrite IH. reflexivity.
  - reflexivity.
  - reflexivity.
Qed.

(* MAIN THEOREM (frames): under every schedule the successive results of read_frame are those of the
   whole-stream reference decoder applied to  buffered bytes ++ data of the schedule, followed by the
   schedule's terminal. *)
Theorem drive_ref ms u a fuel c w :
  (mu c (w_rds w) < fuel)%nat ->
  drive fuel ms u a c w =
  frames_ref ms u a (c_hdr c) (c_in c ++ sched_data (w_rds w)) (sched_end (w_rds w)).
Proof.
  intros Hf. rewrite drive_finish, drive_raw_ref by exact Hf.
  unfold frames_ref, sview, view. rewrite sched_term_end. reflexivity.
Qed.

Corollary drive_sched_indep ms u a c w1 w2 f1 f2 :
  sched_data (w_rds w1) = sched_data (w_rds w2) ->
  sched_end (w_rds w1) = sched_end (w_rds w2) ->
  (mu c (w_rds w1) < f1)%nat -> (mu c (w_rds w2) < f2)%nat ->
  drive f1 ms u a c w1 = drive f2 ms u a c w2.
Proof. intros Hd Ht H1 H2. rewrite !drive_ref by assumption. rewrite Hd, Ht. reflexivity. Qed.

(* the result never contains OutOfFuel when the fuel is above the bound *)
Lemma finish_no_oof u a l : ~ In ROutOfFuel l -> ~ In ROutOfFuel (finish u a l).
Proof.
  induction l as [|r t IH]; intros H; [exact H|].
  assert (Hr : post_frame u a r <> ROutOfFuel).
  { destruct r as [[[[h len] p]|]|e|s|]; cbn [post_frame]; try discriminate.
    - destruct (negb _); [discriminate|]. destruct u; [|discriminate].
      destruct (h_mask h); [discriminate|]. destruct a; discriminate.
    - exfalso. apply H. left. reflexivity. }
  cbn [finish]. destruct (classify _).
  - intros [X|X]; [exact (Hr X)|]. revert X. apply IH. intros X. apply H. right. exact X.
  - intros [X|[]]. exact (Hr X).
  - intros [X|[]]. exact (Hr X).
Qed.

Lemma drive_no_oof ms u a fuel c w :
  (mu c (w_rds w) < fuel)%nat -> ~ In ROutOfFuel (drive fuel ms u a c w).
Proof.
  intros Hf. rewrite drive_ref by exact Hf. unfold frames_ref.
  apply finish_no_oof, ref_from_no_oof.
  destruct (sched_end (w_rds w)); cbn [term_res]; intros X; repeat destruct X as [X|X]; try discriminate; exact X.
Qed.

(* ------------------------------------------------------------------------------------------- *)
(** * 7. WouldBlock is a no-op; from_partially_read *)

Lemma try_take_needmore_fields max c n c' :
  try_take max c = TkNeedMore n c' ->
  c_out c' = c_out c /\ c_max_out c' = c_max_out c /\ c_write_len c' = c_write_len c.
Proof.
  rewrite try_take_eq. unfold held. destruct (c_hdr c) as [[h len]|].
  - destruct (max <? len); [discriminate|]. destruct (len <=? _); [discriminate|].
    intros X. injection X as _ <-. auto.
  - destruct (header_parse (c_in c)) as [h len k| |i|]; try discriminate.
    + destruct (max <? len); [discriminate|]. destruct (len <=? _); [discriminate|].
      intros X. injection X as _ <-. cbn. auto.
    + intros X. injection X as _ <-. auto.
Qed.

Definition nonempty (ch : bytes) : Prop := ch <> [].

(* A call that answers WouldBlock took some chunks [chunks] from the oracle and then either met a
   WouldBlock entry or exhausted the oracle.  The new state decodes every continuation [d] of the
   stream exactly as the old state decodes [chunks ++ d]: nothing lost, nothing seen twice. *)
Lemma rfl_wb_trace max : forall rds c c' rds',
  rfl max rds c = (RErr (EIo WouldBlock), c', rds') ->
  exists chunks,
    (rds = map RdData chunks ++ RdErr WouldBlock :: rds' \/ (rds = map RdData chunks /\ rds' = [])) /\
    Forall nonempty chunks /\
    (forall d T, view max c' d T = view max c (concat chunks ++ d) T) /\
    c_out c' = c_out c /\ c_max_out c' = c_max_out c /\ c_write_len c' = c_write_len c.
Proof.
  induction rds as [|o rest IH]; intros c c' rds' E; rewrite rfl_eq in E;
    pose proof (fun d T => view_try_take max c d T) as Hv;
    pose proof (try_take_needmore_fields max c) as Hfld;
    destruct (try_take max c) as [h len p c1|n c1|e c1|s] eqn:Et; try discriminate.
  - injection E as <- <-. exists []. cbn [map concat app]. split; [right; auto|].
    split; [constructor|]. split; [intros d T; symmetry; apply Hv|]. exact (Hfld _ _ eq_refl).
  - exfalso. injection E as E _ _. exact (try_take_err_not_io _ _ _ _ Et WouldBlock E).
  - destruct o as [[|b bs]| |k]; try discriminate.
    + destruct (IH _ _ _ E) as [chunks [Hs [Hne [Hview Hf]]]].
      exists ((b :: bs) :: chunks). split.
      { destruct Hs as [Hs|[Hs1 Hs2]]; [left|right]; cbn [map app]; [rewrite Hs|rewrite Hs1]; auto. }
      split. { constructor; [discriminate|exact Hne]. }
      split.
      { intros d T. rewrite Hview, Hv. unfold view. cbn [c_hdr c_in set_in concat].
        rewrite <- !app_assoc. reflexivity. }
      destruct (Hfld _ _ eq_refl) as [F1 [F2 F3]]. cbn [c_out c_max_out c_write_len set_in] in Hf.
      destruct Hf as [G1 [G2 G3]]. rewrite G1, G2, G3. auto.
    + injection E as -> <- <-. exists []. cbn [map concat app].
      split; [left; reflexivity|]. split; [constructor|].
      split; [intros d T; symmetry; apply Hv|]. exact (Hfld _ _ eq_refl).
  - exfalso. injection E as E _ _. exact (try_take_err_not_io _ _ _ _ Et WouldBlock E).
Qed.

Lemma sched_data_chunks chunks rest :
  Forall nonempty chunks -> sched_data (map RdData chunks ++ rest) = concat chunks ++ sched_data rest.
Proof.
  induction 1 as [|ch chunks Hc _ IH]; [reflexivity|].
  destruct ch as [|b bs]; [exfalso; exact (Hc eq_refl)|].
  cbn [map app sched_data concat]. rewrite IH. rewrite <- app_assoc. reflexivity.
Qed.

Lemma sched_end_chunks chunks rest :
  Forall nonempty chunks -> sched_end (map RdData chunks ++ rest) = sched_end rest.
Proof.
  induction 1 as [|ch chunks Hc _ IH]; [reflexivity|].
  destruct ch as [|b bs]; [exfalso; exact (Hc eq_refl)|]. exact IH.
Qed.

Lemma post_frame_wb u a r : post_frame u a r = RErr (EIo WouldBlock) -> r = RErr (EIo WouldBlock).
Proof.
  destruct r as [[[[h len] p]|]|e|s|]; cbn [post_frame]; try discriminate.
  - destruct (negb _); [discriminate|]. destruct u; [|discriminate].
    destruct (h_mask h); [discriminate|]. destruct a; discriminate.
  - intros X. injection X as ->. reflexivity.
Qed.

(* what a WouldBlock-returning read_frame does to the state *)
Theorem read_frame_wouldblock_state ms u a c w c' w' :
  read_frame ms u a c w = (RErr (EIo WouldBlock), c', w') ->
  exists chunks,
    (w_rds w = map RdData chunks ++ RdErr WouldBlock :: w_rds w' \/
     (w_rds w = map RdData chunks /\ w_rds w' = [])) /\
    Forall nonempty chunks /\
    (forall d t, frames_ref ms u a (c_hdr c') (c_in c' ++ d) t =
                 frames_ref ms u a (c_hdr c) (c_in c ++ concat chunks ++ d) t) /\
    c_out c' = c_out c /\ c_max_out c' = c_max_out c /\ c_write_len c' = c_write_len c /\
    w_wrs w' = w_wrs w /\ w_fls w' = w_fls w /\ w_keys w' = w_keys w.
Proof.
  rewrite read_frame_eq. destruct (rfl (limit_of ms) (w_rds w) c) as [[r c1] rds1] eqn:E.
  intros X. injection X as Hr <- <-. apply post_frame_wb in Hr. subst r.
  destruct (rfl_wb_trace _ _ _ _ _ E) as [chunks [Hs [Hne [Hview [F1 [F2 F3]]]]]].
  exists chunks. cbn [w_rds w_wrs w_fls w_keys].
  split; [exact Hs|]. split; [exact Hne|]. split.
  { intros d t. unfold frames_ref. f_equal. apply (Hview d (term_res t)). }
  auto 10.
Qed.

(* retrying after WouldBlock continues exactly where the call stopped: the results from the state
   after the call are the results from the state before it, and also the results from the state
   before it under the schedule from which that WouldBlock was removed *)
Theorem drive_wouldblock_noop ms u a c w c' w' f f' :
  read_frame ms u a c w = (RErr (EIo WouldBlock), c', w') ->
  (mu c' (w_rds w') < f')%nat -> (mu c (w_rds w) < f)%nat ->
  drive f' ms u a c' w' = drive f ms u a c w.
Proof.
  intros E H1 H2.
  destruct (read_frame_wouldblock_state _ _ _ _ _ _ _ E) as [chunks [Hs [Hne [Hview _]]]].
  rewrite !drive_ref by assumption. rewrite Hview.
  destruct Hs as [Hs|[Hs1 Hs2]].
  - rewrite Hs. rewrite sched_data_chunks, sched_end_chunks by exact Hne. reflexivity.
  - rewrite Hs1, Hs2. rewrite <- (app_nil_r (map RdData chunks)).
    rewrite sched_data_chunks, sched_end_chunks by exact Hne. reflexivity.
Qed.

Theorem drive_wouldblock_removed ms u a c w c' w' f f' :
  read_frame ms u a c w = (RErr (EIo WouldBlock), c', w') ->
  forall chunks, w_rds w = map RdData chunks ++ RdErr WouldBlock :: w_rds w' ->
  Forall nonempty chunks ->
  let w0 := w_set_rds w (map RdData chunks ++ w_rds w') in
  (mu c' (w_rds w') < f')%nat -> (mu c (w_rds w0) < f)%nat ->
  drive f' ms u a c' w' = drive f ms u a c w0.
Proof.
  intros E chunks Hs Hne w0 H1 H2.
  assert (H3 : (mu c (w_rds w) < S (mu c (w_rds w)))%nat) by lia.
  rewrite (drive_wouldblock_noop _ _ _ _ _ _ _ _ _ E H1 H3).
  apply drive_sched_indep; try assumption.
  - rewrite Hs. unfold w0. cbn [w_rds w_set_rds]. rewrite !sched_data_chunks by exact Hne. reflexivity.
  - rewrite Hs. unfold w0. cbn [w_rds w_set_rds]. rewrite !sched_end_chunks by exact Hne. reflexivity.
Qed.

(* from_partially_read: a codec created on already-read bytes p, then the schedule, is the reference
   on p ++ data, hence equal to a fresh codec under any schedule delivering p ++ data *)
Theorem drive_partially_read_ref ms u a p w f :
  (mu (codec_new p) (w_rds w) < f)%nat ->
  drive f ms u a (codec_new p) w = frames_ref ms u a None (p ++ sched_data (w_rds w)) (sched_end (w_rds w)).
Proof. intros H. rewrite drive_ref by exact H. reflexivity. Qed.

Theorem drive_partially_read ms u a p w w0 f f0 :
  sched_data (w_rds w0) = p ++ sched_data (w_rds w) ->
  sched_end (w_rds w0) = sched_end (w_rds w) ->
  (mu (codec_new p) (w_rds w) < f)%nat -> (mu (codec_new []) (w_rds w0) < f0)%nat ->
  drive f ms u a (codec_new p) w = drive f0 ms u a (codec_new []) w0.
Proof.
  intros Hd Ht H1 H2. rewrite !drive_ref by assumption.
  cbn [codec_new c_hdr c_in app]. rewrite Hd, Ht. reflexivity.
Qed.

(* the debug assertion on the payload length never fires on an item of the reference decoder *)
Lemma ref_fresh_payload_len max term :
  (forall h len p, In (ROk (Some (h, len, p))) term -> blen p = len) ->
  forall f bs h len p, In (ROk (Some (h, len, p))) (ref_fresh f max bs term) -> blen p = len.
Proof.
  intros HT f. induction f as [|f IH]; intros bs h len p Hin.
  - destruct Hin as [X|[]]; discriminate.
  - cbn [ref_fresh] in Hin. unfold ref_step in Hin.
    destruct (header_parse bs) as [h0 len0 k| |i|].
    + unfold ref_body in Hin. destruct (max <? len0). { destruct Hin as [X|[]]; discriminate. }
      destruct (len0 <=? blen (dropN k bs)) eqn:El; [|exact (HT _ _ _ Hin)].
      destruct Hin as [X|X].
      * injection X as <- <- <-. apply blen_takeN. lia.
      * exact (IH _ _ _ _ X).
    + exact (HT _ _ _ Hin).
    + destruct Hin as [X|[]]; discriminate.
    + destruct Hin as [X|[]]; discriminate.
Qed.
